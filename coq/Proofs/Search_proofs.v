(* C10: proofs about the enumeration behind best-move search, model
   NR.Model.Search.  The theorem statements are repeated in NR.Props.C10. *)
From Coq Require Import List Arith Bool ZArith Lia Permutation Sorted RelationClasses.
From NR Require Import Model.Search.
Import ListNotations.

(* ================================================================== *)
(* 0. Generic list lemmas                                              *)
(* ================================================================== *)

Lemma in_flat_map_cons : forall (g : nat -> list (list nat)) (l : list nat) (p : list nat),
  In p (flat_map (fun x => map (cons x) (g x)) l) <->
  exists x q, p = x :: q /\ In x l /\ In q (g x).
Proof.
  intros g l p. rewrite in_flat_map. split.
  - intros (x & Hx & Hp). apply in_map_iff in Hp. destruct Hp as (q & Hq & Hin).
    exists x, q. auto.
  - intros (x & q & -> & Hx & Hq). exists x. split; auto. apply in_map. exact Hq.
Qed.

Lemma NoDup_map_cons : forall (x : nat) (l : list (list nat)),
  NoDup l -> NoDup (map (cons x) l).
Proof.
  intros x l H. induction H as [|a l Ha Hl IH]; simpl; constructor; auto.
  intro Hin. apply in_map_iff in Hin. destruct Hin as (b & Hb & Hin).
  inversion Hb; subst. contradiction.
Qed.

Lemma NoDup_flat_map_cons : forall (g : nat -> list (list nat)) (l : list nat),
  NoDup l -> (forall x, In x l -> NoDup (g x)) ->
  NoDup (flat_map (fun x => map (cons x) (g x)) l).
Proof.
  intros g l Hl. induction Hl as [|a l Ha Hl IH]; intros Hg; simpl.
  - constructor.
  - assert (Hd : forall p, In p (map (cons a) (g a)) ->
                           ~ In p (flat_map (fun x => map (cons x) (g x)) l)).
    { intros p Hp Hq. apply in_map_iff in Hp. destruct Hp as (q & <- & _).
      apply in_flat_map_cons in Hq. destruct Hq as (x & q' & Heq & Hx & _).
      inversion Heq; subst. contradiction. }
    assert (H1 : NoDup (map (cons a) (g a))) by (apply NoDup_map_cons, Hg; left; auto).
    assert (H2 : NoDup (flat_map (fun x => map (cons x) (g x)) l))
      by (apply IH; intros; apply Hg; right; auto).
    revert H1 Hd. generalize (map (cons a) (g a)) as u.
    induction u as [|p u IHu]; intros H1 Hd; simpl; auto.
    inversion H1; subst. constructor.
    + rewrite in_app_iff. intros [H|H]; [contradiction|].
      apply (Hd p); [left; reflexivity | exact H].
    + apply IHu; auto. intros q Hq. apply Hd. right. exact Hq.
Qed.

Lemma NoDup_filter_nat : forall (f : nat -> bool) l, NoDup l -> NoDup (filter f l).
Proof.
  intros f l H. induction H as [|a l Ha Hl IH]; simpl; [constructor|].
  destruct (f a); auto. constructor; auto. rewrite filter_In. tauto.
Qed.

(* ================================================================== *)
(* 1. combine_ascending                                                *)
(* ================================================================== *)

Lemma nondecreasing_cons : forall x q,
  nondecreasing (x :: q) = true <-> nondecreasing q = true /\ Forall (fun g => x <= g) q.
Proof.
  intros x q. revert x. induction q as [|b q IH]; intros x.
  - simpl. split; auto.
  - change (nondecreasing (x :: b :: q)) with ((x <=? b) && nondecreasing (b :: q)).
    rewrite andb_true_iff, Nat.leb_le. split.
    + intros [Hxb Hq]. split; auto. constructor; auto.
      apply IH in Hq. destruct Hq as [_ Hq].
      eapply Forall_impl; [|exact Hq]. simpl. intros; lia.
    + intros [Hq HF]. inversion HF; subst. auto.
Qed.

Lemma in_seq_range : forall lo m g, In g (seq lo (m + 1 - lo)) <-> lo <= g <= m.
Proof. intros. rewrite in_seq. lia. Qed.

Lemma combine_ascending_spec : forall n m lo p,
  In p (combine_ascending n m lo) <->
  length p = n /\ nondecreasing p = true /\ Forall (fun g => lo <= g <= m) p.
Proof.
  induction n as [|n IH]; intros m lo p; simpl.
  - split.
    + intros [<-|[]]. simpl. auto.
    + intros (Hl & _). destruct p; [left; auto|discriminate].
  - rewrite in_flat_map_cons. split.
    + intros (x & q & -> & Hx & Hq). apply in_seq_range in Hx. apply IH in Hq.
      destruct Hq as (Hl & Hn & HF). simpl. split; [congruence|]. split.
      * apply nondecreasing_cons. split; auto.
        eapply Forall_impl; [|exact HF]. simpl. intros; lia.
      * constructor; [lia|]. eapply Forall_impl; [|exact HF]. simpl. intros; lia.
    + intros (Hl & Hn & HF). destruct p as [|x q]; [discriminate|].
      exists x, q. split; auto. inversion HF; subst.
      apply nondecreasing_cons in Hn. destruct Hn as [Hn Hx]. split.
      * apply in_seq_range. lia.
      * apply IH. simpl in Hl. split; [lia|]. split; auto.
        rewrite Forall_forall in *. intros g Hg. specialize (Hx g Hg). specialize (H2 g Hg). lia.
Qed.

Lemma combine_ascending_nodup : forall n m lo, NoDup (combine_ascending n m lo).
Proof.
  induction n as [|n IH]; intros m lo; simpl.
  - constructor; auto. constructor.
  - apply NoDup_flat_map_cons; [apply seq_NoDup|]. intros; apply IH.
Qed.

Lemma C10_combine_ascending_spec_proof : forall n m p,
  In p (all_combinations n m) <->
  length p = n /\ nondecreasing p = true /\ Forall (fun g => 1 <= g <= m) p.
Proof. intros. apply combine_ascending_spec. Qed.

Lemma C10_combine_ascending_nodup_proof : forall n m, NoDup (all_combinations n m).
Proof. intros. apply combine_ascending_nodup. Qed.

Example combine_ascending_ex : all_combinations 2 3 = [[1;1];[1;2];[1;3];[2;2];[2;3];[3;3]].
Proof. vm_compute. reflexivity. Qed.

(* ================================================================== *)
(* 2. generate                                                         *)
(* ================================================================== *)

(* what a continuation placed from index k on, after gap [prev], has to satisfy *)
Definition head_ok (pair : nat -> bool) (k prev : nat) (p : list nat) : Prop :=
  match p with
  | [] => True
  | a :: _ => (if Nat.eqb prev 0 then 1 else prev) <= a /\
              (k <> 0 -> pair (k - 1) = true -> a = prev)
  end.

Definition gen_spec (split pair : nat -> bool) (n m k prev : nat) (p : list nat) : Prop :=
  length p = n /\
  Forall (fun g => 1 <= g <= m /\ split g = false) p /\
  nondecreasing p = true /\
  pairs_together pair k p = true /\
  head_ok pair k prev p.

Lemma generate_spec : forall split pair n m k prev p,
  In p (generate split pair n m k prev) <-> gen_spec split pair n m k prev p.
Proof.
  intros split pair. induction n as [|n IH]; intros m k prev p.
  - simpl. unfold gen_spec. split.
    + intros [<-|[]]. simpl. repeat split; auto.
    + intros (Hl & _). destruct p; [left; auto|discriminate].
  - cbn [generate]. rewrite in_flat_map_cons.
    set (lo := if Nat.eqb prev 0 then 1 else prev).
    set (cond := negb (Nat.eqb k 0) && pair (k - 1)).
    assert (Hus : forall g,
      In g (if cond
            then filter (fun g => Nat.eqb g prev)
                        (filter (fun g => negb (split g)) (seq lo (m + 1 - lo)))
            else filter (fun g => negb (split g)) (seq lo (m + 1 - lo))) <->
      lo <= g <= m /\ split g = false /\ (cond = true -> g = prev)).
    { intros g. destruct cond.
      - rewrite !filter_In, in_seq_range, negb_true_iff, Nat.eqb_eq. intuition.
      - rewrite !filter_In, in_seq_range, negb_true_iff. intuition discriminate. }
    assert (Hcond : cond = true <-> (k <> 0 /\ pair (k - 1) = true)).
    { unfold cond. rewrite andb_true_iff, negb_true_iff, Nat.eqb_neq. tauto. }
    assert (Hlo : 1 <= lo) by (unfold lo; destruct (Nat.eqb_spec prev 0); lia).
    split.
    + intros (g & q & -> & Hg & Hq). apply Hus in Hg. destruct Hg as (Hr & Hs & Hc).
      apply IH in Hq. destruct Hq as (Hl & HF & Hn & Hp & Hh).
      unfold gen_spec. split; [simpl; congruence|]. split; [constructor; [split; [lia|exact Hs]|exact HF]|].
      destruct q as [|b q].
      * simpl. repeat split; auto; try lia. intros; apply Hc, Hcond; auto.
      * simpl in Hh. destruct Hh as [Hgb Hpk].
        assert (Hg0 : Nat.eqb g 0 = false) by (apply Nat.eqb_neq; lia).
        rewrite Hg0 in Hgb. replace (k - 0) with k in Hpk by lia.
        split; [|split].
        -- change (nondecreasing (g :: b :: q)) with ((g <=? b) && nondecreasing (b :: q)).
           rewrite Hn, andb_true_r. apply Nat.leb_le. exact Hgb.
        -- change (pairs_together pair k (g :: b :: q))
             with ((negb (pair k) || Nat.eqb g b) && pairs_together pair (S k) (b :: q)).
           rewrite Hp, andb_true_r. destruct (pair k) eqn:Epk; simpl; auto.
           apply Nat.eqb_eq. symmetry. apply Hpk; auto.
        -- simpl. fold lo. split; [lia|]. intros; apply Hc, Hcond; auto.
    + intros (Hl & HF & Hn & Hp & Hh). destruct p as [|g q]; [discriminate|].
      exists g, q. split; auto. inversion HF as [|? ? [Hg1 Hg2] HFq]; subst.
      simpl in Hh. fold lo in Hh. destruct Hh as [Hlog Hpk]. split.
      * apply Hus. split; [lia|]. split; auto. intros Hc. apply Hcond in Hc. tauto.
      * apply IH. unfold gen_spec. simpl in Hl. split; [lia|]. split; auto.
        destruct q as [|b q].
        -- simpl. auto.
        -- change (nondecreasing (g :: b :: q)) with ((g <=? b) && nondecreasing (b :: q)) in Hn.
           change (pairs_together pair k (g :: b :: q))
             with ((negb (pair k) || Nat.eqb g b) && pairs_together pair (S k) (b :: q)) in Hp.
           apply andb_true_iff in Hn. destruct Hn as [Hgb Hn]. apply Nat.leb_le in Hgb.
           apply andb_true_iff in Hp. destruct Hp as [Hpg Hp].
           split; auto. split; auto. simpl.
           assert (Hg0 : Nat.eqb g 0 = false) by (apply Nat.eqb_neq; lia).
           rewrite Hg0. split; auto. intros _ Hpair. replace (k - 0) with k in Hpair by lia.
           rewrite Hpair in Hpg. simpl in Hpg. apply Nat.eqb_eq in Hpg. auto.
Qed.

Lemma generate_nodup : forall split pair n m k prev, NoDup (generate split pair n m k prev).
Proof.
  intros split pair. induction n as [|n IH]; intros m k prev; cbn [generate].
  - constructor; auto. constructor.
  - apply NoDup_flat_map_cons; [|intros; apply IH].
    destruct (negb (Nat.eqb k 0) && pair (k - 1)); repeat apply NoDup_filter_nat; apply seq_NoDup.
Qed.

Lemma forallb_Forall_range : forall split m l,
  forallb (fun g => (1 <=? g) && (g <=? m) && negb (split g)) l = true <->
  Forall (fun g => 1 <= g <= m /\ split g = false) l.
Proof.
  intros. rewrite forallb_forall, Forall_forall. split; intros H g Hg; specialize (H g Hg).
  - rewrite !andb_true_iff, negb_true_iff, !Nat.leb_le in H. tauto.
  - rewrite !andb_true_iff, negb_true_iff, !Nat.leb_le. tauto.
Qed.

Lemma C10_generate_spec_proof : forall split pair n m p,
  In p (generate_all split pair n m) <-> placement_ok split pair n m p = true.
Proof.
  intros. unfold generate_all, placement_ok. rewrite generate_spec. unfold gen_spec.
  rewrite !andb_true_iff, Nat.eqb_eq, forallb_Forall_range. split.
  - intros (H1 & H2 & H3 & H4 & _). auto.
  - intros (((H1 & H2) & H3) & H4). repeat split; auto.
    destruct p as [|a p]; simpl; auto. inversion H2; subst. split; [lia|]. intros; lia.
Qed.

Lemma C10_generate_nodup_proof : forall split pair n m, NoDup (generate_all split pair n m).
Proof. intros. apply generate_nodup. Qed.

(* stops 0,1 of the unit are a direct pair; gap 2 would split an existing pair *)
Example generate_ex :
  generate_all (fun g => Nat.eqb g 2) (fun i => Nat.eqb i 0) 3 3 = [[1;1;1];[1;1;3];[3;3;3]].
Proof. vm_compute. reflexivity. Qed.

(* ================================================================== *)
(* 3. permutations, all_orders                                         *)
(* ================================================================== *)

Lemma in_insert_everywhere : forall x r l,
  In l (insert_everywhere x r) <-> exists l1 l2, r = l1 ++ l2 /\ l = l1 ++ x :: l2.
Proof.
  intros x. induction r as [|y r IH]; intros l; simpl.
  - split.
    + intros [<-|[]]. exists [], []. auto.
    + intros (l1 & l2 & H1 & ->). symmetry in H1. apply app_eq_nil in H1. destruct H1; subst. auto.
  - split.
    + intros [<-|H].
      * exists [], (y :: r). auto.
      * apply in_map_iff in H. destruct H as (l' & <- & H). apply IH in H.
        destruct H as (l1 & l2 & -> & ->). exists (y :: l1), l2. auto.
    + intros (l1 & l2 & H1 & ->). destruct l1 as [|z l1]; simpl in *.
      * left. subst. reflexivity.
      * inversion H1; subst. right. apply in_map. apply IH. exists l1, l2. auto.
Qed.

Lemma permutations_spec : forall s l, In l (permutations s) <-> Permutation l s.
Proof.
  induction s as [|x r IH]; intros l; simpl.
  - split.
    + intros [<-|[]]. constructor.
    + intros H. symmetry in H. apply Permutation_nil in H. auto.
  - rewrite in_flat_map. split.
    + intros (l' & Hl' & Hl). apply IH in Hl'. apply in_insert_everywhere in Hl.
      destruct Hl as (l1 & l2 & -> & ->). symmetry. apply Permutation_cons_app.
      symmetry. exact Hl'.
    + intros H. assert (Hx : In x l) by (eapply Permutation_in; [symmetry; exact H|left; auto]).
      apply in_split in Hx. destruct Hx as (l1 & l2 & ->).
      exists (l1 ++ l2). split.
      * apply IH. symmetry in H. apply Permutation_cons_app_inv in H. symmetry. exact H.
      * apply in_insert_everywhere. exists l1, l2. auto.
Qed.

Definition valid_order (stops : list nat) (arcs : list arc) (l : list nat) : Prop :=
  Permutation l stops /\ order_ok arcs l = true.

Lemma all_orders_spec : forall stops arcs l,
  In l (all_orders stops arcs) <-> valid_order stops arcs l.
Proof. intros. unfold all_orders, valid_order. rewrite filter_In, permutations_spec. tauto. Qed.

(* the hypothesis NoDup stops of the wanted statement is not needed *)
Lemma C10_all_orders_spec_proof : forall stops arcs l,
  In l (all_orders stops arcs) <-> Permutation l stops /\ order_ok arcs l = true.
Proof. exact all_orders_spec. Qed.

Lemma NoDup_insert_everywhere : forall x r, ~ In x r -> NoDup (insert_everywhere x r).
Proof.
  intros x. induction r as [|y r IH]; intros Hx; simpl.
  - constructor; auto. constructor.
  - constructor.
    + intro H. apply in_map_iff in H. destruct H as (l & Hl & _). inversion Hl; subst.
      apply Hx. left; auto.
    + apply NoDup_map_cons. apply IH. intro; apply Hx; right; auto.
Qed.

Lemma remove_insert : forall x l1 l2, ~ In x l1 -> ~ In x l2 ->
  remove Nat.eq_dec x (l1 ++ x :: l2) = l1 ++ l2.
Proof.
  intros. rewrite remove_app. simpl. destruct (Nat.eq_dec x x); [|congruence].
  rewrite !notin_remove; auto.
Qed.

Lemma permutations_nodup : forall s, NoDup s -> NoDup (permutations s).
Proof.
  induction s as [|x r IH]; intros H; simpl.
  - constructor; auto. constructor.
  - inversion H as [|? ? Hx Hr]; subst. specialize (IH Hr).
    assert (Hnot : forall l, In l (permutations r) -> ~ In x l).
    { intros l Hl Hin. apply permutations_spec in Hl. apply Hx. eapply Permutation_in; eauto. }
    revert IH Hnot. generalize (permutations r) as ps.
    induction ps as [|l ps IHps]; intros Hnd Hnot; simpl; [constructor|].
    inversion Hnd as [|? ? Hl Hps]; subst.
    assert (H1 : NoDup (insert_everywhere x l)) by (apply NoDup_insert_everywhere, Hnot; left; auto).
    assert (H2 : NoDup (flat_map (insert_everywhere x) ps)) by (apply IHps; auto; intros; apply Hnot; right; auto).
    assert (Hd : forall u, In u (insert_everywhere x l) -> ~ In u (flat_map (insert_everywhere x) ps)).
    { intros u Hu Hv. apply in_flat_map in Hv. destruct Hv as (l' & Hl' & Hv).
      apply in_insert_everywhere in Hu. destruct Hu as (a1 & a2 & -> & ->).
      apply in_insert_everywhere in Hv. destruct Hv as (b1 & b2 & -> & Heq).
      assert (Ha : ~ In x (a1 ++ a2)) by (apply Hnot; left; auto).
      assert (Hb : ~ In x (b1 ++ b2)) by (apply Hnot; right; auto).
      rewrite in_app_iff in Ha, Hb.
      assert (E : a1 ++ a2 = b1 ++ b2).
      { rewrite <- (remove_insert x a1 a2), <- (remove_insert x b1 b2) by tauto. congruence. }
      apply Hl. rewrite E. exact Hl'. }
    revert H1 Hd. generalize (insert_everywhere x l) as u.
    induction u as [|p u IHu]; intros H1 Hd; simpl; auto.
    inversion H1; subst. constructor.
    + rewrite in_app_iff. intros [Hin|Hin]; [contradiction|]. apply (Hd p); [left; auto|exact Hin].
    + apply IHu; auto. intros q Hq. apply Hd. right; auto.
Qed.

Lemma all_orders_nodup : forall stops arcs, NoDup stops -> NoDup (all_orders stops arcs).
Proof.
  intros. unfold all_orders.
  assert (G : forall (f : list nat -> bool) l, NoDup l -> NoDup (filter f l)).
  { intros f l Hl. induction Hl as [|a l Ha Hl IH]; simpl; [constructor|].
    destruct (f a); auto. constructor; auto. rewrite filter_In. tauto. }
  apply G. apply permutations_nodup. assumption.
Qed.

Example all_orders_ex :
  all_orders [0;1;2] [(0,1,true); (2,1,false)] = [[2;0;1]].
Proof. vm_compute. reflexivity. Qed.

(* ================================================================== *)
(* 7. bestMovePlanSingleStop: selection                                *)
(* ================================================================== *)

Section SingleStop.
Variable cost : nat -> Z.

Lemma pick_best_step : forall a b rest coins,
  exists b' coins',
    pick_best cost (a :: rest) (Some b) coins = pick_best cost rest (Some b') coins' /\
    (b' = a \/ b' = b) /\ (cost b' <= cost a)%Z /\ (cost b' <= cost b)%Z.
Proof.
  intros a b rest coins. simpl.
  destruct (Z.ltb_spec (cost a) (cost b)) as [Hlt|Hge].
  - exists a, coins. repeat split; auto; lia.
  - destruct (Z.eqb_spec (cost a) (cost b)) as [Heq|Hne].
    + destruct coins as [|c cs].
      * exists b, []. repeat split; auto; lia.
      * destruct c; [exists a, cs | exists b, cs]; repeat split; auto; lia.
    + exists b, coins. repeat split; auto; lia.
Qed.

Lemma pick_best_some : forall cands b coins g cs,
  pick_best cost cands (Some b) coins = (Some g, cs) ->
  (In g cands \/ g = b) /\
  (cost g <= cost b)%Z /\ (forall g', In g' cands -> (cost g <= cost g')%Z).
Proof.
  induction cands as [|a rest IH]; intros b coins g cs H.
  - simpl in H. inversion H; subst. split; auto. split; [lia|]. intros g' [].
  - destruct (pick_best_step a b rest coins) as (b' & coins' & E & Hb' & Ha & Hb).
    rewrite E in H. apply IH in H. destruct H as (Hin & Hc & Hmin). split; [|split].
    + simpl. destruct Hin as [Hin| ->]; auto. destruct Hb' as [-> | ->]; auto.
    + lia.
    + intros g' [<-|Hg']; [lia|auto].
Qed.

Lemma pick_best_total : forall cands b coins, exists g cs,
  pick_best cost cands (Some b) coins = (Some g, cs).
Proof.
  induction cands as [|a rest IH]; intros b coins.
  - simpl. eauto.
  - destruct (pick_best_step a b rest coins) as (b' & coins' & E & _). rewrite E. apply IH.
Qed.

Lemma find_sorted_min : forall (f : nat -> bool) l x,
  StronglySorted (fun a b => (cost a <= cost b)%Z) l -> find f l = Some x ->
  forall y, In y l -> f y = true -> (cost x <= cost y)%Z.
Proof.
  intros f. induction l as [|a l IH]; intros x Hs Hf y Hy Hfy; [discriminate|].
  inversion Hs as [|? ? Hs' HF]; subst. simpl in Hf. destruct (f a) eqn:Ea.
  - inversion Hf; subst. destruct Hy as [<-|Hy]; [lia|].
    rewrite Forall_forall in HF. apply HF. exact Hy.
  - destruct Hy as [<-|Hy]; [congruence|]. eapply IH; eauto.
Qed.

Variables (m : nat) (allowed skip : nat -> bool) (coins : list bool).
Variable sorted_by_cost : list nat -> list nat.
Hypothesis sorted_ok : forall l,
  Permutation (sorted_by_cost l) l /\ Sorted (fun a b => (cost a <= cost b)%Z) (sorted_by_cost l).
(* a SkipVehicle hint on the first position means no position of the vehicle is allowed *)
Hypothesis skip_sound : forall g, 1 <= g <= m -> allowed g = false -> skip g = true ->
  forall g', 1 <= g' <= m -> allowed g' = false.

Lemma best_single_stop_spec :
  match best_single_stop m allowed skip cost coins sorted_by_cost with
  | Some g => allowed g = true /\ 1 <= g <= m /\
              forall g', 1 <= g' <= m -> allowed g' = true -> (cost g <= cost g')%Z
  | None => forall g, 1 <= g <= m -> allowed g = false
  end.
Proof.
  unfold best_single_stop. destruct m as [|m'] eqn:Em.
  - simpl. intros; lia.
  - change (seq 1 (S m')) with (1 :: seq 2 m'). cbv beta iota.
    destruct (negb (allowed 1) && skip 1) eqn:Esk.
    + apply andb_true_iff in Esk. destruct Esk as [Ha Hs]. apply negb_true_iff in Ha.
      intros g Hg. apply (skip_sound 1); auto; lia.
    + set (cands := (if allowed 1 then [1] else []) ++ seq 2 m').
      assert (Hin : forall g, In g cands -> 1 <= g <= S m').
      { intros g Hg. unfold cands in Hg. apply in_app_iff in Hg. destruct Hg as [Hg|Hg].
        - destruct (allowed 1); simpl in Hg; [|tauto]. lia.
        - apply in_seq in Hg. lia. }
      assert (Hall : forall g, 1 <= g <= S m' -> allowed g = true -> In g cands).
      { intros g Hg Ha. unfold cands. apply in_app_iff.
        destruct (Nat.eq_dec g 1) as [->|Hne].
        - left. rewrite Ha. left; auto.
        - right. apply in_seq. lia. }
      destruct cands as [|c cs] eqn:Ec.
      * intros g Hg. destruct (allowed g) eqn:Ea; auto. destruct (Hall g Hg Ea).
      * rewrite <- Ec in *. clearbody cands.
        assert (E0 : pick_best cost cands None coins = pick_best cost cs (Some c) coins)
          by (rewrite Ec; reflexivity).
        rewrite E0. destruct (pick_best_total cs c coins) as (g & coins' & Eg). rewrite Eg.
        apply pick_best_some in Eg. destruct Eg as (Hgin & Hgc & Hgmin).
        assert (Hg : In g cands) by (rewrite Ec; simpl; destruct Hgin; auto).
        assert (Hmin : forall g', In g' cands -> (cost g <= cost g')%Z).
        { intros g' Hg'. rewrite Ec in Hg'. destruct Hg' as [<-|Hg']; auto. }
        destruct (allowed g) eqn:Eag.
        -- pose proof (Hin g Hg). repeat split; auto; lia.
        -- destruct (sorted_ok cands) as [Hperm Hsorted].
           assert (Hss : StronglySorted (fun a b => (cost a <= cost b)%Z) (sorted_by_cost cands)).
           { apply Sorted_StronglySorted; auto. intros x y z; lia. }
           destruct (find allowed (sorted_by_cost cands)) as [x|] eqn:Ef.
           ++ pose proof (find_some _ _ Ef) as [Hx Hax]. split; auto. split.
              ** apply Hin. eapply Permutation_in; eauto.
              ** intros g' Hg' Ha'. eapply find_sorted_min; eauto.
                 eapply Permutation_in; [symmetry; exact Hperm|]. auto.
           ++ intros g' Hg'. destruct (allowed g') eqn:Ea'; auto.
              pose proof (find_none _ _ Ef g') as Hn. rewrite Hn in Ea'; [discriminate|].
              eapply Permutation_in; [symmetry; exact Hperm|]. auto.
Qed.

Lemma single_stop_executable_iff :
  best_single_stop m allowed skip cost coins sorted_by_cost <> None <->
  exists g, 1 <= g <= m /\ allowed g = true.
Proof.
  pose proof best_single_stop_spec as H.
  destruct (best_single_stop m allowed skip cost coins sorted_by_cost) as [g|].
  - split; [|discriminate]. intros _. exists g. tauto.
  - split; [congruence|]. intros (g & Hg & Ha). rewrite (H g Hg) in Ha. discriminate.
Qed.

Lemma single_stop_minimal : forall g,
  best_single_stop m allowed skip cost coins sorted_by_cost = Some g ->
  allowed g = true /\ 1 <= g <= m /\
  forall g', 1 <= g' <= m -> allowed g' = true -> (cost g <= cost g')%Z.
Proof.
  intros g E. pose proof best_single_stop_spec as H. rewrite E in H. exact H.
Qed.

End SingleStop.

Definition C10_single_stop_executable_iff_proof := single_stop_executable_iff.
Definition C10_single_stop_minimal_proof := single_stop_minimal.

(* non-vacuity: the scan picks a cheaper position that is not allowed (only the
   first position is checked during the scan); the retry finds the allowed one *)
Example single_stop_ex :
  best_single_stop 3 (fun g => Nat.eqb g 2) (fun _ => false)
    (fun g => match g with 1 => 5%Z | 2 => 7%Z | _ => 1%Z end) [] (fun _ => [3;1;2]) = Some 2.
Proof. vm_compute. reflexivity. Qed.

(* without the hint-soundness hypothesis the first-position shortcut loses executable moves *)
Example single_stop_skip_unsound_ex :
  best_single_stop 2 (fun g => Nat.eqb g 2) (fun _ => true) (fun _ => 0%Z) [] (fun l => l) = None.
Proof. vm_compute. reflexivity. Qed.

(* ================================================================== *)
(* 4-6. sequenceGenerator                                              *)
(* ================================================================== *)

(* --- well-formed arcs --------------------------------------------- *)

(* what the proofs need: endpoints are stops of the unit, and a stop has at most one
   direct successor *)
Definition arcs_wf (stops : list nat) (arcs : list arc) : Prop :=
  (forall o d dir, In (o, d, dir) arcs -> In o stops /\ In d stops) /\
  (forall o d1 d2, In (o, d1, true) arcs -> In (o, d2, true) arcs -> d1 = d2).

Definition erase_direct (arcs : list arc) : list arc :=
  map (fun a => (fst (fst a), snd (fst a), false)) arcs.

(* the full well-formedness of a plan unit: additionally at most one direct
   predecessor and acyclic (a linear extension exists) *)
Definition arcs_wf_strict (stops : list nat) (arcs : list arc) : Prop :=
  arcs_wf stops arcs /\
  (forall o1 o2 d, In (o1, d, true) arcs -> In (o2, d, true) arcs -> o1 = o2) /\
  (exists l, In l (all_orders stops (erase_direct arcs))).

Lemma arcs_wf_strict_wf : forall stops arcs, arcs_wf_strict stops arcs -> arcs_wf stops arcs.
Proof. intros stops arcs H. apply H. Qed.

(* --- the loop of seqgen as a top-level definition ------------------ *)

Definition sloop (reset : bool) (rec : list nat -> list nat -> option nat -> sg -> sg)
    (stops : list nat) (arcs : list arc) (used sequence : list nat) (is_direct : bool)
  : list nat -> option nat -> sg -> sg :=
  fix loop (cands : list nat) (ds : option nat) (st : sg) : sg :=
    match cands with
    | [] => st
    | idx :: rest =>
        let stop := nth idx stops 0 in
        if negb (existsb (Nat.eqb idx) used) && Nat.eqb (deg_of (sg_deg st) stop) 0 then
          let outs := outbound arcs stop in
          let oo := order_outs outs (sg_tape st) in
          let outs_ord := fst oo in
          let tape2 := snd oo in
          let deg1 := fold_left (fun (d : indeg) (a : arc) => deg_add d (snd (fst a)) false) outs_ord (sg_deg st) in
          let ds1 := fold_left (fun (ds : option nat) (a : arc) => if snd a then Some (snd (fst a)) else ds) outs_ord
                               (if reset then None else ds) in
          let st1 := rec (idx :: used) (sequence ++ [stop]) ds1
                         (mkSg (sg_out st) (sg_max st) tape2 deg1) in
          if (sg_max st1 =? 0)%Z then st1
          else
            let deg2 := fold_left (fun (d : indeg) (a : arc) => deg_add d (snd (fst a)) true) outs (sg_deg st1) in
            let st2 := mkSg (sg_out st1) (sg_max st1) (sg_tape st1) deg2 in
            if is_direct then st2 else loop rest ds1 st2
        else loop rest ds st
    end.

Definition order_of (stops : list nat) (direct : option nat) (perm : list nat) : list nat :=
  match direct with
  | Some d => match find (fun i => Nat.eqb (nth i stops 0) d) perm with
              | Some i => [i] | None => perm end
  | None => perm end.

Definition is_some (o : option nat) : bool := match o with Some _ => true | None => false end.

Lemma seqgen_S : forall reset fuel stops arcs used sequence direct st,
  seqgen reset (S fuel) stops arcs used sequence direct st =
  if Nat.eqb (length sequence) (length stops) then
    let m' := (sg_max st - 1)%Z in
    if (0 <=? m')%Z then mkSg (sg_out st ++ [sequence]) m' (sg_tape st) (sg_deg st)
    else mkSg (sg_out st) m' (sg_tape st) (sg_deg st)
  else
    let pt := get_perm (sg_tape st) (length stops) in
    sloop reset (seqgen reset fuel stops arcs) stops arcs used sequence (is_some direct)
          (order_of stops direct (fst pt)) None
          (mkSg (sg_out st) (sg_max st) (snd pt) (sg_deg st)).
Proof. reflexivity. Qed.

(* --- valid tapes ---------------------------------------------------- *)

(* p is a permutation of 0..n-1 *)
Definition is_perm (n : nat) (p : list nat) : bool :=
  Nat.eqb (length p) n && forallb (fun i => existsb (Nat.eqb i) p) (seq 0 n).

Definition outs_ok (outs : list arc) (tape : list (list nat)) : bool :=
  match outs with
  | [_] => true
  | _ => is_perm (length outs) (fst (get_perm tape (length outs)))
  end.

(* the run of the loop only asks rand.Perm(n) answers that are permutations of 0..n-1 *)
Definition sloop_ok (reset : bool) (rec : list nat -> list nat -> option nat -> sg -> sg)
    (rec_ok : list nat -> list nat -> option nat -> sg -> bool)
    (stops : list nat) (arcs : list arc) (used sequence : list nat) (is_direct : bool)
  : list nat -> option nat -> sg -> bool :=
  fix loop (cands : list nat) (ds : option nat) (st : sg) : bool :=
    match cands with
    | [] => true
    | idx :: rest =>
        let stop := nth idx stops 0 in
        if negb (existsb (Nat.eqb idx) used) && Nat.eqb (deg_of (sg_deg st) stop) 0 then
          let outs := outbound arcs stop in
          let oo := order_outs outs (sg_tape st) in
          let outs_ord := fst oo in
          let tape2 := snd oo in
          let deg1 := fold_left (fun (d : indeg) (a : arc) => deg_add d (snd (fst a)) false) outs_ord (sg_deg st) in
          let ds1 := fold_left (fun (ds : option nat) (a : arc) => if snd a then Some (snd (fst a)) else ds) outs_ord
                               (if reset then None else ds) in
          let stin := mkSg (sg_out st) (sg_max st) tape2 deg1 in
          let st1 := rec (idx :: used) (sequence ++ [stop]) ds1 stin in
          outs_ok outs (sg_tape st) &&
          rec_ok (idx :: used) (sequence ++ [stop]) ds1 stin &&
          (if (sg_max st1 =? 0)%Z then true
           else
             let deg2 := fold_left (fun (d : indeg) (a : arc) => deg_add d (snd (fst a)) true) outs (sg_deg st1) in
             let st2 := mkSg (sg_out st1) (sg_max st1) (sg_tape st1) deg2 in
             if is_direct then true else loop rest ds1 st2)
        else loop rest ds st
    end.

Fixpoint seqgen_ok (reset : bool) (fuel : nat) (stops : list nat) (arcs : list arc)
    (used sequence : list nat) (direct : option nat) (st : sg) : bool :=
  match fuel with
  | O => true
  | S fuel' =>
      if Nat.eqb (length sequence) (length stops) then true
      else
        let pt := get_perm (sg_tape st) (length stops) in
        is_perm (length stops) (fst pt) &&
        sloop_ok reset (seqgen reset fuel' stops arcs) (seqgen_ok reset fuel' stops arcs)
                 stops arcs used sequence (is_some direct)
                 (order_of stops direct (fst pt)) None
                 (mkSg (sg_out st) (sg_max st) (snd pt) (sg_deg st))
  end.

(* every tape element consumed by a Perm(n) call during the run is a permutation of 0..n-1 *)
Definition tape_ok_gen (reset : bool) (stops : list nat) (arcs : list arc) (sample : Z)
    (tape : list (list nat)) : Prop :=
  seqgen_ok reset (S (length stops)) stops arcs [] [] None
            (mkSg [] sample tape (initial_deg stops arcs)) = true.

Definition tape_ok := tape_ok_gen true.

(* --- 6. the fixed defect ------------------------------------------- *)

Lemma C10_stale_direct_successor_refuted_proof :
  exists stops arcs sample tape l,
    NoDup stops /\ arcs_wf_strict stops arcs /\ tape_ok_gen false stops arcs sample tape /\
    In l (all_orders stops arcs) /\
    (Z.of_nat (length (all_orders stops arcs)) <= sample)%Z /\
    ~ In l (sequence_generator_stale stops arcs sample tape) /\
    tape_ok stops arcs sample tape /\
    In l (sequence_generator stops arcs sample tape).
Proof.
  exists [0;1;2], [(0,1,true); (2,1,false)], 24%Z, [[0;2;1]], [2;0;1].
  split; [|split; [|split; [|split; [|split; [|split; [|split]]]]]].
  - repeat constructor; simpl; intuition discriminate.
  - split; [split|split].
    + intros o d dir [H|[H|[]]]; inversion H; subst; simpl; auto.
    + intros o d1 d2 [H1|[H1|[]]] [H2|[H2|[]]]; inversion H1; inversion H2; subst; auto.
    + intros o1 o2 d [H1|[H1|[]]] [H2|[H2|[]]]; inversion H1; inversion H2; subst; auto.
    + exists [2;0;1]. vm_compute. auto.
  - vm_compute. reflexivity.
  - vm_compute. auto.
  - vm_compute. discriminate.
  - vm_compute. intuition discriminate.
  - vm_compute. reflexivity.
  - vm_compute. auto.
Qed.

Example stale_outputs :
  sequence_generator_stale [0;1;2] [(0,1,true); (2,1,false)] 24 [[0;2;1]] = [] /\
  sequence_generator [0;1;2] [(0,1,true); (2,1,false)] 24 [[0;2;1]] = [[2;0;1]].
Proof. vm_compute. auto. Qed.

(* garbage tapes break soundness: the second Perm(3) answer [2] lacks the index of the
   forced direct successor, the third [] answers Perm(0) correctly *)
Example garbage_tape_unsound :
  let stops := [0;1;2] in let arcs := [(0,1,true)] in
  let out := sequence_generator stops arcs 24 [[0;1;2]; [2]; []; [1]] in
  In [0;2;1] out /\ ~ In [0;2;1] (all_orders stops arcs).
Proof. vm_compute. split; [auto|]. intros [H|[H|[]]]; discriminate. Qed.

(* --- generic facts used by the sampler proofs ----------------------- *)

Lemma existsb_eqb_In : forall i l, existsb (Nat.eqb i) l = true <-> In i l.
Proof.
  intros i l. rewrite existsb_exists. split.
  - intros (x & Hx & E). apply Nat.eqb_eq in E. subst. exact Hx.
  - intros H. exists i. split; auto. apply Nat.eqb_refl.
Qed.

Lemma existsb_eqb_notIn : forall i l, existsb (Nat.eqb i) l = false <-> ~ In i l.
Proof.
  intros i l. rewrite <- existsb_eqb_In. destruct (existsb (Nat.eqb i) l); split; congruence.
Qed.

Lemma is_perm_Permutation : forall n p, is_perm n p = true -> Permutation p (seq 0 n).
Proof.
  intros n p H. unfold is_perm in H. apply andb_true_iff in H. destruct H as [Hl Hall].
  apply Nat.eqb_eq in Hl. rewrite forallb_forall in Hall. symmetry.
  apply NoDup_Permutation_bis.
  - apply seq_NoDup.
  - rewrite seq_length. lia.
  - intros i Hi. apply existsb_eqb_In. apply Hall. exact Hi.
Qed.

Lemma map_nth_seq : forall (A : Type) (l : list A) (d : A),
  map (fun i => nth i l d) (seq 0 (length l)) = l.
Proof.
  intros A l d. induction l as [|a l IH]; simpl; auto.
  f_equal. rewrite <- seq_shift, map_map. exact IH.
Qed.

Lemma order_outs_perm : forall outs tape,
  outs_ok outs tape = true -> Permutation (fst (order_outs outs tape)) outs.
Proof.
  intros outs tape H.
  assert (G : is_perm (length outs) (fst (get_perm tape (length outs))) = true ->
              Permutation (map (fun i => nth i outs (0, 0, false)) (fst (get_perm tape (length outs)))) outs).
  { intros Hp. apply is_perm_Permutation in Hp.
    apply (Permutation_map (fun i => nth i outs (0, 0, false))) in Hp.
    rewrite map_nth_seq in Hp. exact Hp. }
  destruct outs as [|a [|b r]].
  - specialize (G H). clear H. unfold order_outs. revert G. simpl length.
    destruct (get_perm tape 0) as [p t]. simpl. auto.
  - simpl. apply Permutation_refl.
  - specialize (G H). clear H. unfold order_outs. revert G.
    destruct (get_perm tape (length (a :: b :: r))) as [p t]. simpl. auto.
Qed.

(* index_of *)
Lemma index_of_lt_In : forall x l, index_of x l < length l <-> In x l.
Proof.
  intros x. induction l as [|y l IH]; simpl.
  - split; [lia|tauto].
  - destruct (Nat.eqb_spec x y) as [->|Hne].
    + split; [auto|lia].
    + rewrite <- Nat.succ_lt_mono, IH. split; [auto|]. intros [H|H]; [congruence|auto].
Qed.

Lemma index_of_le : forall x l, index_of x l <= length l.
Proof.
  intros x. induction l as [|y l IH]; simpl; auto. destruct (Nat.eqb x y); lia.
Qed.

Lemma index_of_app_in : forall x a b, In x a -> index_of x (a ++ b) = index_of x a.
Proof.
  intros x. induction a as [|y a IH]; intros b H; simpl in *; [tauto|].
  destruct (Nat.eqb_spec x y) as [->|Hne]; auto. f_equal. apply IH. destruct H; [congruence|auto].
Qed.

Lemma index_of_app_notin : forall x a b, ~ In x a -> index_of x (a ++ b) = length a + index_of x b.
Proof.
  intros x. induction a as [|y a IH]; intros b H; simpl in *; auto.
  destruct (Nat.eqb_spec x y) as [->|Hne]; [tauto|]. f_equal. apply IH. tauto.
Qed.

Lemma nth_index_of : forall x l, In x l -> nth (index_of x l) l 0 = x.
Proof.
  intros x. induction l as [|y l IH]; intros H; simpl in *; [tauto|].
  destruct (Nat.eqb_spec x y) as [->|Hne]; auto. apply IH. destruct H; [congruence|auto].
Qed.

Lemma index_of_head : forall x s t, index_of x (s :: t) = 0 -> x = s.
Proof. intros x s t. simpl. destruct (Nat.eqb_spec x s); [auto|discriminate]. Qed.

Lemma order_ok_arc : forall arcs l o d dir,
  order_ok arcs l = true -> In (o, d, dir) arcs ->
  index_of o l < index_of d l /\ (dir = true -> index_of d l = S (index_of o l)).
Proof.
  intros arcs l o d dir H Hin. unfold order_ok in H. rewrite forallb_forall in H.
  specialize (H _ Hin). simpl in H. apply andb_true_iff in H. destruct H as [H1 H2].
  apply Nat.ltb_lt in H1. split; auto. intros ->. simpl in H2. apply Nat.eqb_eq in H2. exact H2.
Qed.

(* the in-degree table *)
Definition dec_deg (outs : list arc) (d : indeg) : indeg :=
  fold_left (fun (d : indeg) (a : arc) => deg_add d (snd (fst a)) false) outs d.
Definition inc_deg (outs : list arc) (d : indeg) : indeg :=
  fold_left (fun (d : indeg) (a : arc) => deg_add d (snd (fst a)) true) outs d.
Definition next_ds (outs : list arc) (init : option nat) : option nat :=
  fold_left (fun (ds : option nat) (a : arc) => if snd a then Some (snd (fst a)) else ds) outs init.

(* number of arcs of L into x *)
Definition c_in (L : list arc) (x : nat) : nat :=
  length (filter (fun a : arc => Nat.eqb (snd (fst a)) x) L).

Definition tab (stops : list nat) (f : nat -> nat) : indeg := map (fun x => (x, f x)) stops.

Lemma deg_add_tab : forall stops f y up,
  deg_add (tab stops f) y up =
  tab stops (fun x => if Nat.eqb x y then (if up then S (f x) else pred (f x)) else f x).
Proof.
  intros. unfold deg_add, tab. rewrite map_map. apply map_ext. intros x. simpl.
  destruct (Nat.eqb x y); reflexivity.
Qed.

Lemma tab_ext : forall stops f g, (forall x, f x = g x) -> tab stops f = tab stops g.
Proof. intros. unfold tab. apply map_ext. intros x. rewrite H. reflexivity. Qed.

Lemma c_in_cons : forall a L x, c_in (a :: L) x = (if Nat.eqb x (snd (fst a)) then 1 else 0) + c_in L x.
Proof.
  intros. unfold c_in. simpl. rewrite (Nat.eqb_sym x). destruct (Nat.eqb (snd (fst a)) x); reflexivity.
Qed.

Lemma dec_deg_tab : forall L stops f,
  dec_deg L (tab stops f) = tab stops (fun x => f x - c_in L x).
Proof.
  induction L as [|a L IH]; intros stops f.
  - simpl. apply tab_ext. intros x. unfold c_in. simpl. lia.
  - unfold dec_deg in *. simpl. rewrite deg_add_tab, IH. apply tab_ext. intros x.
    rewrite c_in_cons. destruct (Nat.eqb x (snd (fst a))); lia.
Qed.

Lemma inc_deg_tab : forall L stops f,
  inc_deg L (tab stops f) = tab stops (fun x => f x + c_in L x).
Proof.
  induction L as [|a L IH]; intros stops f.
  - simpl. apply tab_ext. intros x. unfold c_in. simpl. lia.
  - unfold inc_deg in *. simpl. rewrite deg_add_tab, IH. apply tab_ext. intros x.
    rewrite c_in_cons. destruct (Nat.eqb x (snd (fst a))); lia.
Qed.

Lemma c_in_perm : forall L L' x, Permutation L L' -> c_in L x = c_in L' x.
Proof.
  intros L L' x H. induction H.
  - reflexivity.
  - rewrite !c_in_cons. lia.
  - rewrite !c_in_cons. lia.
  - congruence.
Qed.

Lemma deg_of_tab : forall stops f x, In x stops -> deg_of (tab stops f) x = f x.
Proof.
  intros stops f x. unfold deg_of, tab. induction stops as [|y r IH]; intros H; simpl in *; [tauto|].
  destruct (Nat.eqb_spec y x) as [->|Hne]; auto. apply IH. destruct H; [congruence|auto].
Qed.

(* the recorded direct successor *)
Lemma next_ds_spec : forall L init,
  (next_ds L init = init /\ forall a, In a L -> snd a = false) \/
  (exists a, In a L /\ snd a = true /\ next_ds L init = Some (snd (fst a))).
Proof.
  induction L as [|a L IH]; intros init.
  - left. simpl. split; auto. intros a [].
  - unfold next_ds in *. simpl. destruct (snd a) eqn:Ea.
    + destruct (IH (Some (snd (fst a)))) as [[H1 H2]|(b & Hb & Hd & Hr)].
      * right. exists a. split; auto.
      * right. exists b. split; auto.
    + destruct (IH init) as [[H1 H2]|(b & Hb & Hd & Hr)].
      * left. split; auto. intros b [<-|Hb]; auto.
      * right. exists b. split; auto.
Qed.

Lemma in_outbound : forall arcs x a, In a (outbound arcs x) <-> In a arcs /\ fst (fst a) = x.
Proof. intros. unfold outbound. rewrite filter_In, Nat.eqb_eq. tauto. Qed.

Lemma NoDup_snoc : forall (l : list nat) x, NoDup l -> ~ In x l -> NoDup (l ++ [x]).
Proof.
  intros l x Hl Hx. eapply Permutation_NoDup; [apply Permutation_cons_append|].
  constructor; auto.
Qed.

(* --- invariants of seqgen ------------------------------------------- *)

Section SeqGen.
Variables (reset : bool) (stops : list nat) (arcs : list arc).
Hypothesis Hnd : NoDup stops.
Hypothesis Hwf : arcs_wf stops arcs.

(* number of arcs into x whose origin is not yet placed *)
Definition cnt (sequence : list nat) (x : nat) : nat :=
  length (filter (fun a : arc => Nat.eqb (snd (fst a)) x &&
                                 negb (existsb (Nat.eqb (fst (fst a))) sequence)) arcs).

Definition deg_tab (sequence : list nat) : indeg := tab stops (cnt sequence).

Lemma initial_deg_tab : initial_deg stops arcs = deg_tab [].
Proof.
  unfold initial_deg, deg_tab, tab, cnt. apply map_ext. intros x. f_equal. f_equal.
  apply filter_ext. intros a. simpl. rewrite andb_true_r. reflexivity.
Qed.

Lemma cnt_step : forall sequence stop x, ~ In stop sequence ->
  cnt sequence x = cnt (sequence ++ [stop]) x + c_in (outbound arcs stop) x.
Proof.
  intros sequence stop x Hs. unfold cnt, c_in, outbound. clear Hwf.
  induction arcs as [|a l IH]; simpl; auto.
  rewrite existsb_app. simpl. rewrite orb_false_r.
  destruct (Nat.eqb_spec (fst (fst a)) stop) as [Eo|Eo].
  - assert (E : existsb (Nat.eqb (fst (fst a))) sequence = false).
    { apply existsb_eqb_notIn. rewrite Eo. exact Hs. }
    rewrite E. simpl. rewrite andb_false_r.
    destruct (Nat.eqb (snd (fst a)) x); simpl; rewrite IH; lia.
  - rewrite orb_false_r.
    destruct (Nat.eqb (snd (fst a)) x && negb (existsb (Nat.eqb (fst (fst a))) sequence)); simpl;
      rewrite IH; lia.
Qed.

Lemma cnt_zero_iff : forall sequence x,
  cnt sequence x = 0 <-> (forall o dir, In (o, x, dir) arcs -> In o sequence).
Proof.
  intros sequence x. unfold cnt. split.
  - intros H o dir Hin. destruct (existsb (Nat.eqb o) sequence) eqn:E.
    + apply existsb_eqb_In. exact E.
    + exfalso.
      assert (Hf : In (o, x, dir)
        (filter (fun a : arc => Nat.eqb (snd (fst a)) x &&
                                negb (existsb (Nat.eqb (fst (fst a))) sequence)) arcs)).
      { apply filter_In. split; auto. simpl. rewrite Nat.eqb_refl, E. reflexivity. }
      destruct (filter _ arcs); [destruct Hf | discriminate].
  - intros H.
    destruct (filter (fun a : arc => Nat.eqb (snd (fst a)) x &&
                                negb (existsb (Nat.eqb (fst (fst a))) sequence)) arcs) as [|a r] eqn:E; auto.
    exfalso. assert (Ha : In a (a :: r)) by (left; auto). rewrite <- E in Ha.
    apply filter_In in Ha. destruct Ha as [Ha Hc]. apply andb_true_iff in Hc.
    destruct Hc as [H1 H2]. apply Nat.eqb_eq in H1. apply negb_true_iff in H2.
    apply existsb_eqb_notIn in H2. apply H2.
    destruct a as [[o d] dir]. simpl in *. subst. eapply H. exact Ha.
Qed.

Lemma dec_deg_step : forall sequence stop L,
  ~ In stop sequence -> Permutation L (outbound arcs stop) ->
  dec_deg L (deg_tab sequence) = deg_tab (sequence ++ [stop]).
Proof.
  intros sequence stop L Hs HL. unfold deg_tab. rewrite dec_deg_tab. apply tab_ext. intros x.
  rewrite (c_in_perm _ _ x HL), (cnt_step sequence stop x Hs). lia.
Qed.

Lemma inc_deg_step : forall sequence stop,
  ~ In stop sequence ->
  inc_deg (outbound arcs stop) (deg_tab (sequence ++ [stop])) = deg_tab sequence.
Proof.
  intros sequence stop Hs. unfold deg_tab. rewrite inc_deg_tab. apply tab_ext. intros x.
  rewrite (cnt_step sequence stop x Hs). lia.
Qed.

(* a placed prefix respects the arcs among placed stops; a direct successor that is
   still missing belongs to the last placed stop *)
Definition prefix_ok (sequence : list nat) : Prop :=
  forall o d dir, In (o, d, dir) arcs ->
    (In d sequence ->
       index_of o sequence < index_of d sequence /\
       (dir = true -> index_of d sequence = S (index_of o sequence))) /\
    (dir = true -> In o sequence -> ~ In d sequence -> S (index_of o sequence) = length sequence).

Definition Inv0 (used sequence : list nat) : Prop :=
  NoDup sequence /\ incl sequence stops /\
  (forall idx, idx < length stops -> (In idx used <-> In (nth idx stops 0) sequence)) /\
  prefix_ok sequence.

(* [direct] records the pending direct successor (with reset = true: exactly) *)
Definition InvD (sequence : list nat) (direct : option nat) : Prop :=
  (forall o d, In (o, d, true) arcs -> In o sequence -> ~ In d sequence -> direct = Some d) /\
  (reset = true -> forall d, direct = Some d ->
     exists o, In (o, d, true) arcs /\ In o sequence /\ S (index_of o sequence) = length sequence).

(* the candidate is compatible with a pending direct successor *)
Definition compat (sequence : list nat) (stop : nat) : Prop :=
  forall o d, In (o, d, true) arcs -> In o sequence -> ~ In d sequence -> stop = d.

Lemma Inv0_init : Inv0 [] [].
Proof.
  split; [constructor|]. split; [intros x []|]. split.
  - intros idx _. simpl. tauto.
  - intros o d dir _. split; [intros []|]. intros _ [].
Qed.

Lemma InvD_init : InvD [] None.
Proof.
  split.
  - intros o d _ [].
  - intros _ d H. discriminate.
Qed.

Lemma nth_inj : forall i j, i < length stops -> j < length stops ->
  nth i stops 0 = nth j stops 0 -> i = j.
Proof. intros i j Hi Hj E. eapply (proj1 (NoDup_nth stops 0)); eauto. Qed.

Lemma Inv0_step : forall used sequence idx,
  Inv0 used sequence -> idx < length stops -> ~ In idx used ->
  cnt sequence (nth idx stops 0) = 0 -> compat sequence (nth idx stops 0) ->
  Inv0 (idx :: used) (sequence ++ [nth idx stops 0]).
Proof.
  intros used sequence idx (Hn & Hi & Hu & Hp) Hidx Hnu Hc Hcompat.
  set (stop := nth idx stops 0) in *.
  assert (Hs : ~ In stop sequence) by (intro H; apply Hnu, Hu; auto).
  assert (Hlen : length (sequence ++ [stop]) = S (length sequence))
    by (rewrite app_length; simpl; lia).
  assert (Hstop : index_of stop (sequence ++ [stop]) = length sequence).
  { rewrite index_of_app_notin by exact Hs. simpl. rewrite Nat.eqb_refl. lia. }
  split; [apply NoDup_snoc; auto|]. split; [|split].
  - intros x Hx. apply in_app_iff in Hx. destruct Hx as [Hx|[<-|[]]]; auto.
    apply nth_In. exact Hidx.
  - intros j Hj. simpl. rewrite in_app_iff. simpl. rewrite (Hu j Hj). split.
    + intros [<-|H]; auto.
    + intros [H|[H|[]]]; auto. left. apply nth_inj; auto.
  - intros o d dir Ha. destruct (Hp o d dir Ha) as [Hp1 Hp2].
    pose proof (proj1 (cnt_zero_iff sequence stop) Hc) as Hpreds.
    split.
    + intros Hd. apply in_app_iff in Hd. destruct Hd as [Hd|[<-|[]]].
      * destruct (Hp1 Hd) as [Hlt Hdir].
        assert (Ho : In o sequence) by (apply index_of_lt_In; pose proof (proj2 (index_of_lt_In d sequence) Hd); lia).
        rewrite !index_of_app_in by assumption. auto.
      * assert (Ho : In o sequence) by (eapply Hpreds; eauto).
        rewrite Hstop, (index_of_app_in o) by assumption. split.
        -- apply index_of_lt_In. exact Ho.
        -- intros ->. symmetry. apply Hp2; auto.
    + intros -> Ho Hd. rewrite in_app_iff in Hd. rewrite Hlen.
      apply in_app_iff in Ho. destruct Ho as [Ho|[<-|[]]].
      * exfalso. destruct (in_dec Nat.eq_dec d sequence) as [Hin|Hnin]; [tauto|].
        apply Hd. right. left. apply (Hcompat o d); auto.
      * rewrite Hstop. reflexivity.
Qed.

Lemma InvD_step : forall used sequence idx L init,
  Inv0 used sequence -> idx < length stops -> ~ In idx used ->
  compat sequence (nth idx stops 0) ->
  Permutation L (outbound arcs (nth idx stops 0)) ->
  (reset = true -> init = None) ->
  InvD (sequence ++ [nth idx stops 0]) (next_ds L init).
Proof.
  intros used sequence idx L init (Hn & Hi & Hu & Hp) Hidx Hnu Hcompat HL Hinit.
  set (stop := nth idx stops 0) in *.
  assert (Hs : ~ In stop sequence) by (intro H; apply Hnu, Hu; auto).
  split.
  - intros o d Ha Ho Hd. rewrite in_app_iff in Hd. apply in_app_iff in Ho.
    destruct Ho as [Ho|[<-|[]]].
    + exfalso. destruct (in_dec Nat.eq_dec d sequence) as [Hin|Hnin]; [tauto|].
      apply Hd. right. left. apply (Hcompat o d); auto.
    + assert (HaL : In (stop, d, true) L).
      { eapply Permutation_in; [symmetry; exact HL|]. apply in_outbound. auto. }
      destruct (next_ds_spec L init) as [[_ Hno]|(b & Hb & Hbd & Hr)].
      * specialize (Hno _ HaL). discriminate.
      * rewrite Hr. f_equal.
        assert (Hb' : In b (outbound arcs stop)) by (eapply Permutation_in; eauto).
        apply in_outbound in Hb'. destruct Hb' as [Hb1 Hb2].
        destruct b as [[bo bd] bdir]. simpl in *. subst.
        apply (proj2 Hwf stop); auto.
  - intros Hr d Hd. rewrite (Hinit Hr) in Hd.
    destruct (next_ds_spec L None) as [[E _]|(b & Hb & Hbd & E)]; rewrite E in Hd; [discriminate|].
    inversion Hd; subst.
    assert (Hb' : In b (outbound arcs stop)) by (eapply Permutation_in; eauto).
    apply in_outbound in Hb'. destruct Hb' as [Hb1 Hb2].
    destruct b as [[bo bd] bdir]. simpl in *. subst.
    exists stop. split; auto. split.
    + apply in_app_iff. right. left. reflexivity.
    + rewrite index_of_app_notin by exact Hs. simpl. rewrite Nat.eqb_refl, app_length. simpl. lia.
Qed.

(* a complete sequence satisfying the invariant is an allowed order *)
Lemma Inv0_complete_valid : forall used sequence,
  Inv0 used sequence -> length sequence = length stops -> valid_order stops arcs sequence.
Proof.
  intros used sequence (Hn & Hi & Hu & Hp) Hlen.
  assert (Hperm : Permutation sequence stops).
  { apply NoDup_Permutation_bis; auto. lia. }
  split; auto. unfold order_ok. apply forallb_forall. intros [[o d] dir] Ha.
  destruct (proj1 Hwf o d dir Ha) as [Ho Hd].
  assert (Hd' : In d sequence) by (eapply Permutation_in; [symmetry; exact Hperm|exact Hd]).
  destruct (Hp o d dir Ha) as [Hp1 _]. destruct (Hp1 Hd') as [Hlt Hdir].
  apply andb_true_iff. split; [apply Nat.ltb_lt; exact Hlt|].
  destruct dir; simpl; auto. apply Nat.eqb_eq. auto.
Qed.

(* what an allowed order says about the stop that follows a prefix *)
Lemma valid_next : forall l sequence s t,
  valid_order stops arcs l -> l = sequence ++ s :: t ->
  In s stops /\ ~ In s sequence /\ cnt sequence s = 0 /\
  (forall o d, In (o, d, true) arcs -> In o sequence ->
               S (index_of o sequence) = length sequence -> d = s).
Proof.
  intros l sequence s t [Hperm Hok] ->.
  assert (Hndl : NoDup (sequence ++ s :: t)) by (eapply Permutation_NoDup; [symmetry; exact Hperm|exact Hnd]).
  assert (Hs : ~ In s sequence).
  { intro H. apply NoDup_remove_2 in Hndl. apply Hndl. apply in_app_iff. auto. }
  assert (Hidx : index_of s (sequence ++ s :: t) = length sequence).
  { rewrite index_of_app_notin by exact Hs. simpl. rewrite Nat.eqb_refl. lia. }
  split; [|split; [|split]].
  - eapply Permutation_in; [exact Hperm|]. apply in_app_iff. right. left. reflexivity.
  - exact Hs.
  - apply cnt_zero_iff. intros o dir Ha.
    destruct (order_ok_arc _ _ _ _ _ Hok Ha) as [Hlt _]. rewrite Hidx in Hlt.
    destruct (in_dec Nat.eq_dec o sequence) as [Hin|Hnin]; auto.
    rewrite index_of_app_notin in Hlt by exact Hnin. lia.
  - intros o d Ha Ho Hlast.
    destruct (order_ok_arc _ _ _ _ _ Hok Ha) as [_ Hdir]. specialize (Hdir eq_refl).
    rewrite (index_of_app_in o) in Hdir by exact Ho. rewrite Hlast in Hdir.
    destruct (in_dec Nat.eq_dec d sequence) as [Hin|Hnin].
    + rewrite index_of_app_in in Hdir by exact Hin.
      pose proof (proj2 (index_of_lt_In d sequence) Hin). lia.
    + rewrite index_of_app_notin in Hdir by exact Hnin.
      apply (index_of_head d s t). lia.
Qed.

End SeqGen.

(* --- the main induction --------------------------------------------- *)

Lemma NoDup_app_intro : forall (A : Type) (a b : list A),
  NoDup a -> NoDup b -> (forall x, In x a -> ~ In x b) -> NoDup (a ++ b).
Proof.
  intros A a b Ha. induction Ha as [|x a Hx Ha IH]; intros Hb Hd; simpl; auto.
  constructor.
  - rewrite in_app_iff. intros [H|H]; [contradiction|]. apply (Hd x); [left; auto|exact H].
  - apply IH; auto. intros y Hy. apply Hd. right; auto.
Qed.

Section SeqGenMain.
Variables (reset : bool) (stops : list nat) (arcs : list arc).
Hypothesis Hnd : NoDup stops.
Hypothesis Hwf : arcs_wf stops arcs.

(* what a call (or a run of the loop) adds to the output: [P] delimits the subtree.
   The last clause is the completeness part, for the current code only. *)
Definition PostP (P : list nat -> Prop) (st st' : sg) : Prop :=
  exists new,
    sg_out st' = sg_out st ++ new /\ NoDup new /\
    (forall l, In l new -> valid_order stops arcs l /\ P l) /\
    sg_max st' = (sg_max st - Z.of_nat (length new))%Z /\ (0 <= sg_max st')%Z /\
    (sg_max st' <> 0%Z ->
       sg_deg st' = sg_deg st /\
       (reset = true -> forall l, valid_order stops arcs l -> P l -> In l new)).

Lemma sloop_nil : forall rec used sequence isd ds st,
  sloop reset rec stops arcs used sequence isd [] ds st = st.
Proof. reflexivity. Qed.

Lemma sloop_cons : forall rec used sequence isd idx rest ds st,
  sloop reset rec stops arcs used sequence isd (idx :: rest) ds st =
  let stop := nth idx stops 0 in
  if negb (existsb (Nat.eqb idx) used) && Nat.eqb (deg_of (sg_deg st) stop) 0 then
    let outs := outbound arcs stop in
    let oo := order_outs outs (sg_tape st) in
    let ds1 := next_ds (fst oo) (if reset then None else ds) in
    let st1 := rec (idx :: used) (sequence ++ [stop]) ds1
                   (mkSg (sg_out st) (sg_max st) (snd oo) (dec_deg (fst oo) (sg_deg st))) in
    if (sg_max st1 =? 0)%Z then st1
    else
      let st2 := mkSg (sg_out st1) (sg_max st1) (sg_tape st1) (inc_deg outs (sg_deg st1)) in
      if isd then st2 else sloop reset rec stops arcs used sequence isd rest ds1 st2
  else sloop reset rec stops arcs used sequence isd rest ds st.
Proof. reflexivity. Qed.

Lemma sloop_ok_cons : forall rec rec_ok used sequence isd idx rest ds st,
  sloop_ok reset rec rec_ok stops arcs used sequence isd (idx :: rest) ds st =
  let stop := nth idx stops 0 in
  if negb (existsb (Nat.eqb idx) used) && Nat.eqb (deg_of (sg_deg st) stop) 0 then
    let outs := outbound arcs stop in
    let oo := order_outs outs (sg_tape st) in
    let ds1 := next_ds (fst oo) (if reset then None else ds) in
    let stin := mkSg (sg_out st) (sg_max st) (snd oo) (dec_deg (fst oo) (sg_deg st)) in
    let st1 := rec (idx :: used) (sequence ++ [stop]) ds1 stin in
    outs_ok outs (sg_tape st) &&
    rec_ok (idx :: used) (sequence ++ [stop]) ds1 stin &&
    (if (sg_max st1 =? 0)%Z then true
     else
       let st2 := mkSg (sg_out st1) (sg_max st1) (sg_tape st1) (inc_deg outs (sg_deg st1)) in
       if isd then true else sloop_ok reset rec rec_ok stops arcs used sequence isd rest ds1 st2)
  else sloop_ok reset rec rec_ok stops arcs used sequence isd rest ds st.
Proof. reflexivity. Qed.

Definition child_spec (rec : list nat -> list nat -> option nat -> sg -> sg)
    (rec_ok : list nat -> list nat -> option nat -> sg -> bool) (n1 : nat) : Prop :=
  forall used sequence direct st,
    Inv0 stops arcs used sequence -> InvD reset arcs sequence direct ->
    sg_deg st = deg_tab stops arcs sequence -> (1 <= sg_max st)%Z ->
    rec_ok used sequence direct st = true -> length sequence = n1 ->
    PostP (fun l => exists t, l = sequence ++ t) st (rec used sequence direct st).

Lemma sloop_post : forall rec rec_ok used sequence isd,
  child_spec rec rec_ok (S (length sequence)) ->
  Inv0 stops arcs used sequence ->
  forall cands, NoDup cands ->
    (forall idx, In idx cands -> idx < length stops /\ compat arcs sequence (nth idx stops 0)) ->
    (reset = true -> isd = true -> length cands <= 1) ->
  forall ds st,
    sg_deg st = deg_tab stops arcs sequence -> (1 <= sg_max st)%Z ->
    sloop_ok reset rec rec_ok stops arcs used sequence isd cands ds st = true ->
    PostP (fun l => exists idx t, In idx cands /\ l = sequence ++ nth idx stops 0 :: t)
          st (sloop reset rec stops arcs used sequence isd cands ds st).
Proof.
  intros rec rec_ok used sequence isd Hrec Hinv.
  induction cands as [|idx rest IH]; intros Hndc Hc Hisd ds st Hdeg Hmax Hok.
  - rewrite sloop_nil. exists []. rewrite app_nil_r. split; auto. split; [constructor|].
    split; [intros l []|]. simpl. split; [lia|]. split; [lia|]. intros _. split; auto.
    intros _ l _ (idx & t & [] & _).
  - rewrite sloop_cons. rewrite sloop_ok_cons in Hok. cbv zeta in Hok |- *.
    set (stop := nth idx stops 0) in *.
    pose proof Hinv as (Hn & Hi & Hu & Hp).
    inversion Hndc as [|? ? Hidx_notin Hndrest]; subst.
    destruct (Hc idx (or_introl eq_refl)) as [Hidx Hcompat]. fold stop in Hcompat.
    assert (Hstop_in : In stop stops) by (apply nth_In; exact Hidx).
    specialize (IH Hndrest (fun i Hi => Hc i (or_intror Hi))).
    destruct (negb (existsb (Nat.eqb idx) used) && Nat.eqb (deg_of (sg_deg st) stop) 0) eqn:Ec.
    + (* the candidate is placed *)
      apply andb_true_iff in Ec. destruct Ec as [Eu Ed].
      apply negb_true_iff in Eu. apply existsb_eqb_notIn in Eu. apply Nat.eqb_eq in Ed.
      rewrite Hdeg in Ed. unfold deg_tab in Ed. rewrite deg_of_tab in Ed by exact Hstop_in.
      assert (Hs : ~ In stop sequence) by (intro H; apply Eu, Hu; auto).
      apply andb_true_iff in Hok. destruct Hok as [Hok Hok3].
      apply andb_true_iff in Hok. destruct Hok as [Hok1 Hok2].
      pose proof (order_outs_perm _ _ Hok1) as Hperm.
      set (outs := outbound arcs stop) in *.
      set (oo := order_outs outs (sg_tape st)) in *.
      set (ds1 := next_ds (fst oo) (if reset then None else ds)) in *.
      rewrite Hdeg in Hok2, Hok3 |- *.
      rewrite (dec_deg_step stops arcs sequence stop (fst oo) Hs Hperm) in Hok2, Hok3 |- *.
      set (stin := mkSg (sg_out st) (sg_max st) (snd oo) (deg_tab stops arcs (sequence ++ [stop]))) in *.
      assert (H1 : PostP (fun l => exists t, l = (sequence ++ [stop]) ++ t) stin
                         (rec (idx :: used) (sequence ++ [stop]) ds1 stin)).
      { apply Hrec; auto.
        - apply Inv0_step; auto.
        - eapply InvD_step; eauto. intros ->. reflexivity.
        - rewrite app_length. simpl. lia. }
      set (st1 := rec (idx :: used) (sequence ++ [stop]) ds1 stin) in *.
      destruct H1 as (new1 & Ho1 & Hnd1 & Hv1 & Hm1 & Hge1 & Hrest1).
      simpl in Ho1, Hm1.
      assert (Hv1' : forall l, In l new1 ->
                valid_order stops arcs l /\
                exists i t, In i (idx :: rest) /\ l = sequence ++ nth i stops 0 :: t).
      { intros l Hl. destruct (Hv1 l Hl) as [Hvl (t & ->)]. split; auto.
        exists idx, t. split; [left; auto|]. rewrite <- app_assoc. reflexivity. }
      destruct (Z.eqb_spec (sg_max st1) 0) as [Ez|Enz].
      * (* budget exhausted *)
        exists new1. split; [exact Ho1|]. split; auto. split; auto. split; auto. split; auto.
        intros Hne. contradiction.
      * destruct (Hrest1 Enz) as [Hdeg1 Hcompl1]. simpl in Hdeg1.
        rewrite Hdeg1 in Hok3 |- *. unfold outs in Hok3 |- *.
        rewrite (inc_deg_step stops arcs sequence stop Hs) in Hok3 |- *.
        set (st2 := mkSg (sg_out st1) (sg_max st1) (sg_tape st1) (deg_tab stops arcs sequence)) in *.
        destruct isd.
        -- exists new1. simpl. split; [exact Ho1|]. split; auto. split; auto. split; auto.
           split; auto. intros _. split; [symmetry; exact Hdeg|].
           intros Hr l Hvl (i & t & Hi' & ->).
           assert (Hrest0 : rest = []).
           { specialize (Hisd Hr eq_refl). simpl in Hisd. destruct rest; auto. simpl in Hisd. lia. }
           subst rest. destruct Hi' as [<-|[]]. apply Hcompl1; auto.
           exists t. rewrite <- app_assoc. reflexivity.
        -- assert (Hmax2 : (1 <= sg_max st2)%Z) by (simpl; lia).
           specialize (IH (fun _ (H : false = true) => False_ind _ (diff_false_true H))
                          ds1 st2 eq_refl Hmax2 Hok3).
           destruct IH as (new2 & Ho2 & Hnd2 & Hv2 & Hm2 & Hge2 & Hrest2).
           simpl in Ho2, Hm2.
           exists (new1 ++ new2). split; [rewrite Ho2, Ho1, app_assoc; reflexivity|].
           split; [|split; [|split; [|split]]].
           ++ apply NoDup_app_intro; auto. intros l Hl1 Hl2.
              destruct (Hv1 l Hl1) as [_ (t1 & E1)].
              destruct (Hv2 l Hl2) as [_ (i & t2 & Hi2 & E2)].
              rewrite E1, <- app_assoc in E2. apply app_inv_head in E2. simpl in E2.
              inversion E2 as [[E3 E4]]. apply Hidx_notin.
              assert (i = idx).
              { apply (nth_inj stops Hnd); auto. apply (Hc i). right; auto. }
              subst i. exact Hi2.
           ++ intros l Hl. apply in_app_or in Hl. destruct Hl as [Hl|Hl]; auto.
              destruct (Hv2 l Hl) as [Hvl (i & t & Hi2 & ->)]. split; auto.
              exists i, t. split; [right; auto|reflexivity].
           ++ rewrite Hm2, Hm1, app_length, Nat2Z.inj_add. lia.
           ++ exact Hge2.
           ++ intros Hne. destruct (Hrest2 Hne) as [Hdeg2 Hcompl2]. simpl in Hdeg2.
              split; [rewrite Hdeg2; symmetry; exact Hdeg|].
              intros Hr l Hvl (i & t & [<-|Hi'] & ->); apply in_or_app.
              ** left. apply Hcompl1; auto. exists t. rewrite <- app_assoc. reflexivity.
              ** right. apply Hcompl2; auto. exists i, t. auto.
    + (* the candidate is skipped: no allowed order continues with it *)
      assert (Hisd' : reset = true -> isd = true -> length rest <= 1).
      { intros Hr Hd. specialize (Hisd Hr Hd). simpl in Hisd. lia. }
      specialize (IH Hisd' ds st Hdeg Hmax Hok).
      destruct IH as (new & Ho & Hndn & Hv & Hm & Hge & Hrest).
      exists new. split; auto. split; auto. split; [|split; [|split]]; auto.
      * intros l Hl. destruct (Hv l Hl) as [Hvl (i & t & Hi2 & ->)]. split; auto.
        exists i, t. split; [right; auto|reflexivity].
      * intros Hne. destruct (Hrest Hne) as [Hdeg' Hcompl]. split; auto.
        intros Hr l Hvl (i & t & [<-|Hi'] & E).
        -- exfalso. fold stop in E.
           destruct (valid_next stops arcs Hnd l sequence stop t Hvl E) as (_ & Hs & Hc0 & _).
           apply andb_false_iff in Ec. destruct Ec as [Ec|Ec].
           ++ apply negb_false_iff in Ec. apply existsb_eqb_In in Ec. apply Hs, Hu; auto.
           ++ apply Nat.eqb_neq in Ec. apply Ec. rewrite Hdeg. unfold deg_tab.
              rewrite deg_of_tab by exact Hstop_in. exact Hc0.
        -- apply Hcompl; auto. exists i, t. auto.
Qed.

(* the candidates of a node *)
Lemma order_facts : forall used sequence direct perm,
  Inv0 stops arcs used sequence -> InvD reset arcs sequence direct ->
  Permutation perm (seq 0 (length stops)) ->
  NoDup (order_of stops direct perm) /\
  (forall idx, In idx (order_of stops direct perm) ->
     idx < length stops /\ compat arcs sequence (nth idx stops 0)) /\
  (reset = true -> is_some direct = true -> length (order_of stops direct perm) <= 1) /\
  (reset = true -> forall l s t, valid_order stops arcs l -> l = sequence ++ s :: t ->
     exists idx, In idx (order_of stops direct perm) /\ nth idx stops 0 = s).
Proof.
  intros used sequence direct perm Hinv [Hd4 Hd5] Hperm.
  assert (Hpn : NoDup perm) by (eapply Permutation_NoDup; [symmetry; exact Hperm|apply seq_NoDup]).
  assert (Hplt : forall i, In i perm -> i < length stops).
  { intros i Hi. eapply Permutation_in in Hi; [|exact Hperm]. apply in_seq in Hi. lia. }
  assert (Hpin : forall i, i < length stops -> In i perm).
  { intros i Hi. eapply Permutation_in; [symmetry; exact Hperm|]. apply in_seq. lia. }
  assert (Hfind : forall d, In d stops ->
            find (fun i => Nat.eqb (nth i stops 0) d) perm = None -> False).
  { intros d Hd Hf. pose proof (find_none _ _ Hf (index_of d stops)) as Hn.
    simpl in Hn. rewrite nth_index_of in Hn by exact Hd. rewrite Nat.eqb_refl in Hn.
    assert (In (index_of d stops) perm) by (apply Hpin, index_of_lt_In; exact Hd).
    specialize (Hn H). discriminate. }
  destruct direct as [d|]; simpl.
  - destruct (find (fun i => Nat.eqb (nth i stops 0) d) perm) as [i|] eqn:Ef.
    + apply find_some in Ef. destruct Ef as [Hi Ei]. apply Nat.eqb_eq in Ei.
      split; [constructor; [intros []|constructor]|]. split; [|split].
      * intros idx [<-|[]]. split; auto. intros o d' Ha Ho Hd'.
        specialize (Hd4 o d' Ha Ho Hd'). inversion Hd4; subst. reflexivity.
      * intros _ _. simpl. lia.
      * intros Hr l s t Hvl El. destruct (Hd5 Hr d eq_refl) as (o & Ha & Ho & Hlast).
        destruct (valid_next stops arcs Hnd l sequence s t Hvl El) as (_ & _ & _ & Hnext).
        exists i. split; [left; auto|]. rewrite Ei. eapply Hnext; eauto.
    + split; auto. split; [|split].
      * intros idx Hidx. split; auto. intros o d' Ha Ho Hd'.
        specialize (Hd4 o d' Ha Ho Hd'). inversion Hd4; subst. exfalso.
        apply (Hfind d'); auto. apply (proj1 Hwf o d' true Ha).
      * intros Hr _. exfalso. destruct (Hd5 Hr d eq_refl) as (o & Ha & _).
        apply (Hfind d); auto. apply (proj1 Hwf o d true Ha).
      * intros Hr. exfalso. destruct (Hd5 Hr d eq_refl) as (o & Ha & _).
        apply (Hfind d); auto. apply (proj1 Hwf o d true Ha).
  - split; auto. split; [|split].
    + intros idx Hidx. split; auto. intros o d' Ha Ho Hd'.
      specialize (Hd4 o d' Ha Ho Hd'). discriminate.
    + intros _ H. discriminate.
    + intros _ l s t Hvl El.
      destruct (valid_next stops arcs Hnd l sequence s t Hvl El) as (Hs & _).
      exists (index_of s stops). split.
      * apply Hpin, index_of_lt_In. exact Hs.
      * apply nth_index_of. exact Hs.
Qed.

Lemma seqgen_ok_S : forall fuel used sequence direct st,
  seqgen_ok reset (S fuel) stops arcs used sequence direct st =
  if Nat.eqb (length sequence) (length stops) then true
  else
    let pt := get_perm (sg_tape st) (length stops) in
    is_perm (length stops) (fst pt) &&
    sloop_ok reset (seqgen reset fuel stops arcs) (seqgen_ok reset fuel stops arcs)
             stops arcs used sequence (is_some direct)
             (order_of stops direct (fst pt)) None
             (mkSg (sg_out st) (sg_max st) (snd pt) (sg_deg st)).
Proof. reflexivity. Qed.

Lemma seqgen_post : forall fuel used sequence direct st,
  Inv0 stops arcs used sequence -> InvD reset arcs sequence direct ->
  sg_deg st = deg_tab stops arcs sequence -> (1 <= sg_max st)%Z ->
  seqgen_ok reset fuel stops arcs used sequence direct st = true ->
  length stops < fuel + length sequence ->
  PostP (fun l => exists t, l = sequence ++ t) st
        (seqgen reset fuel stops arcs used sequence direct st).
Proof.
  induction fuel as [|fuel IH]; intros used sequence direct st Hinv HinvD Hdeg Hmax Hok Hfuel.
  - exfalso. destruct Hinv as (Hn & Hi & _).
    pose proof (NoDup_incl_length Hn Hi). lia.
  - rewrite seqgen_S. rewrite seqgen_ok_S in Hok.
    destruct (Nat.eqb_spec (length sequence) (length stops)) as [El|Enl].
    + cbv zeta. assert (E : (0 <=? sg_max st - 1)%Z = true) by (apply Z.leb_le; lia).
      rewrite E. exists [sequence]. simpl. split; auto.
      split; [constructor; [intros []|constructor]|]. split.
      { intros l [<-|[]]. split.
        - eapply Inv0_complete_valid; eauto.
        - exists []. rewrite app_nil_r. reflexivity. }
      split; [lia|]. split; [lia|]. intros _. split; auto.
      intros _ l [Hperm _] (t & ->). left.
      apply Permutation_length in Hperm. rewrite app_length in Hperm.
      destruct t; [rewrite app_nil_r; reflexivity|simpl in Hperm; lia].
    + cbv zeta in Hok |- *. apply andb_true_iff in Hok. destruct Hok as [Hperm Hok].
      apply is_perm_Permutation in Hperm.
      destruct (order_facts used sequence direct _ Hinv HinvD Hperm) as (O1 & O2 & O3 & O4).
      assert (Hchild : child_spec (seqgen reset fuel stops arcs) (seqgen_ok reset fuel stops arcs)
                                  (S (length sequence))).
      { intros u s d st' Hi0 HiD Hdg Hmx Hk Hlen. apply IH; auto. lia. }
      pose proof (sloop_post _ _ used sequence (is_some direct) Hchild Hinv _ O1 O2 O3 None
                    (mkSg (sg_out st) (sg_max st) (snd (get_perm (sg_tape st) (length stops))) (sg_deg st))
                    Hdeg Hmax Hok) as HP.
      destruct HP as (new & Ho & Hndn & Hv & Hm & Hge & Hrest). simpl in Ho, Hm.
      exists new. split; auto. split; auto. split; [|split; [|split]]; auto.
      * intros l Hl. destruct (Hv l Hl) as [Hvl (i & t & _ & ->)]. split; auto. eauto.
      * intros Hne. destruct (Hrest Hne) as [Hdeg' Hcompl]. simpl in Hdeg'. split; auto.
        intros Hr l Hvl (t & El). apply Hcompl; auto.
        destruct t as [|s t].
        -- exfalso. rewrite app_nil_r in El. subst l. destruct Hvl as [Hp _].
           apply Permutation_length in Hp. contradiction.
        -- destruct (O4 Hr l s t Hvl El) as (i & Hi & Es). exists i, t. rewrite Es. auto.
Qed.

(* with an exhausted budget nothing is emitted *)
Lemma sloop_nonpos : forall rec used sequence isd,
  (forall u s d st, (sg_max st <= 0)%Z ->
     sg_out (rec u s d st) = sg_out st /\ (sg_max (rec u s d st) <= sg_max st)%Z) ->
  forall cands ds st, (sg_max st <= 0)%Z ->
    sg_out (sloop reset rec stops arcs used sequence isd cands ds st) = sg_out st /\
    (sg_max (sloop reset rec stops arcs used sequence isd cands ds st) <= sg_max st)%Z.
Proof.
  intros rec used sequence isd Hrec. induction cands as [|idx rest IH]; intros ds st Hmax.
  - rewrite sloop_nil. split; [reflexivity|lia].
  - rewrite sloop_cons. cbv zeta.
    destruct (negb (existsb (Nat.eqb idx) used) && Nat.eqb (deg_of (sg_deg st) (nth idx stops 0)) 0).
    + match goal with |- context [rec ?u ?s ?d ?x] =>
        destruct (Hrec u s d x Hmax) as [H1 H2]; set (st1 := rec u s d x) in * end.
      simpl in H1, H2.
      destruct (Z.eqb_spec (sg_max st1) 0); auto.
      destruct isd; simpl; auto.
      match goal with |- context [sloop _ _ _ _ _ _ _ rest ?d ?x] =>
        destruct (IH d x) as [H3 H4]; [simpl; lia|] end.
      simpl in H3, H4. split; [congruence|lia].
    + apply IH. exact Hmax.
Qed.

Lemma seqgen_nonpos : forall fuel used sequence direct st, (sg_max st <= 0)%Z ->
  sg_out (seqgen reset fuel stops arcs used sequence direct st) = sg_out st /\
  (sg_max (seqgen reset fuel stops arcs used sequence direct st) <= sg_max st)%Z.
Proof.
  induction fuel as [|fuel IH]; intros used sequence direct st Hmax.
  - simpl. split; [reflexivity|lia].
  - rewrite seqgen_S. destruct (Nat.eqb (length sequence) (length stops)).
    + cbv zeta. assert (E : (0 <=? sg_max st - 1)%Z = false) by (apply Z.leb_gt; lia).
      rewrite E. simpl. split; [reflexivity|lia].
    + cbv zeta.
      match goal with |- context [sloop _ _ _ _ ?u ?s ?i ?c ?d ?x] =>
        destruct (sloop_nonpos (seqgen reset fuel stops arcs) u s i IH c d x) as [H1 H2];
          [simpl; exact Hmax|] end.
      simpl in H1, H2. auto.
Qed.

(* the whole generator *)
Lemma generator_post : forall sample tape,
  tape_ok_gen reset stops arcs sample tape ->
  let out := sequence_generator_gen reset stops arcs sample tape in
  NoDup out /\ (forall l, In l out -> valid_order stops arcs l) /\
  (reset = true -> (Z.of_nat (length (all_orders stops arcs)) <= sample)%Z ->
   forall l, valid_order stops arcs l -> In l out).
Proof.
  intros sample tape Hok. unfold sequence_generator_gen. unfold tape_ok_gen in Hok. cbv zeta.
  set (st0 := mkSg [] sample tape (initial_deg stops arcs)) in *.
  set (stf := seqgen reset (S (length stops)) stops arcs [] [] None st0).
  destruct (Z.le_gt_cases sample 0) as [Hle|Hgt].
  - destruct (seqgen_nonpos (S (length stops)) [] [] None st0 Hle) as [E _].
    fold stf in E. rewrite E. change (sg_out st0) with (@nil (list nat)).
    split; [constructor|]. split; [intros l []|].
    intros _ Hlen l Hvl. apply all_orders_spec in Hvl.
    destruct (all_orders stops arcs); [destruct Hvl|simpl in Hlen; lia].
  - assert (HP : PostP (fun l => exists t, l = [] ++ t) st0 stf).
    { apply seqgen_post; auto.
      - apply Inv0_init.
      - apply InvD_init.
      - apply initial_deg_tab.
      - change (1 <= sample)%Z. lia.
      - simpl. lia. }
    destruct HP as (new & Ho & Hndn & Hv & Hm & Hge & Hrest).
    change (sg_out st0) with (@nil (list nat)) in Ho. change (sg_max st0) with sample in Hm.
    rewrite app_nil_l in Ho.
    rewrite Ho. split; auto. split; [intros l Hl; apply (Hv l Hl)|].
    intros Hr Hlen l Hvl.
    destruct (Z.eq_dec (sg_max stf) 0) as [Ez|Enz].
    + assert (Hincl : incl new (all_orders stops arcs)).
      { intros x Hx. apply all_orders_spec. apply (Hv x Hx). }
      assert (Hlen' : length (all_orders stops arcs) <= length new) by lia.
      apply (NoDup_length_incl Hndn Hlen' Hincl). apply all_orders_spec. exact Hvl.
    + destruct (Hrest Enz) as [_ Hcompl]. apply Hcompl; auto. exists l. reflexivity.
Qed.

End SeqGenMain.

(* --- 4. soundness, for every valid tape and both versions of the code -- *)

Lemma C10_sequence_generator_sound_proof : forall reset stops arcs sample tape l,
  NoDup stops -> arcs_wf stops arcs -> tape_ok_gen reset stops arcs sample tape ->
  In l (sequence_generator_gen reset stops arcs sample tape) -> In l (all_orders stops arcs).
Proof.
  intros reset stops arcs sample tape l Hnd Hwf Hok Hin.
  destruct (generator_post reset stops arcs Hnd Hwf sample tape Hok) as (_ & Hs & _).
  apply all_orders_spec. apply Hs. exact Hin.
Qed.

(* --- 5. completeness and uniqueness, current code ----------------------- *)

Lemma C10_sequence_generator_complete_proof : forall stops arcs sample tape,
  NoDup stops -> arcs_wf stops arcs -> tape_ok stops arcs sample tape ->
  (Z.of_nat (length (all_orders stops arcs)) <= sample)%Z ->
  forall l, In l (all_orders stops arcs) -> In l (sequence_generator stops arcs sample tape).
Proof.
  intros stops arcs sample tape Hnd Hwf Hok Hlen l Hl.
  destruct (generator_post true stops arcs Hnd Hwf sample tape Hok) as (_ & _ & Hc).
  apply Hc; auto. apply all_orders_spec. exact Hl.
Qed.

Lemma C10_sequence_generator_nodup_proof : forall reset stops arcs sample tape,
  NoDup stops -> arcs_wf stops arcs -> tape_ok_gen reset stops arcs sample tape ->
  NoDup (sequence_generator_gen reset stops arcs sample tape).
Proof.
  intros reset stops arcs sample tape Hnd Hwf Hok.
  destruct (generator_post reset stops arcs Hnd Hwf sample tape Hok) as (H & _). exact H.
Qed.

Lemma C10_sequence_generator_exact_proof : forall stops arcs sample tape,
  NoDup stops -> arcs_wf stops arcs -> tape_ok stops arcs sample tape ->
  (Z.of_nat (length (all_orders stops arcs)) <= sample)%Z ->
  Permutation (sequence_generator stops arcs sample tape) (all_orders stops arcs).
Proof.
  intros stops arcs sample tape Hnd Hwf Hok Hlen. apply NoDup_Permutation.
  - apply (C10_sequence_generator_nodup_proof true); auto.
  - apply all_orders_nodup. exact Hnd.
  - intros l. split.
    + apply (C10_sequence_generator_sound_proof true); auto.
    + apply C10_sequence_generator_complete_proof; auto.
Qed.

(* --- the hypotheses are not vacuous ---------------------------------- *)

(* the exhausted tape (rand.Perm answers the identity) is valid for every instance *)
Lemma is_perm_seq : forall n, is_perm n (seq 0 n) = true.
Proof.
  intros n. unfold is_perm. rewrite seq_length, Nat.eqb_refl. simpl.
  apply forallb_forall. intros i Hi. apply existsb_eqb_In. exact Hi.
Qed.

Lemma order_outs_nil_tape : forall outs,
  snd (order_outs outs []) = [] /\ outs_ok outs [] = true.
Proof.
  intros [|a [|b r]].
  - split; reflexivity.
  - split; reflexivity.
  - split; [reflexivity|]. apply (is_perm_seq (S (S (length r)))).
Qed.

Section NilTape.
Variables (reset : bool) (stops : list nat) (arcs : list arc).

Lemma sloop_nil_tape : forall rec rec_ok used sequence isd,
  (forall u s d st, sg_tape st = [] -> sg_tape (rec u s d st) = [] /\ rec_ok u s d st = true) ->
  forall cands ds st, sg_tape st = [] ->
    sg_tape (sloop reset rec stops arcs used sequence isd cands ds st) = [] /\
    sloop_ok reset rec rec_ok stops arcs used sequence isd cands ds st = true.
Proof.
  intros rec rec_ok used sequence isd Hrec. induction cands as [|idx rest IH]; intros ds st Ht.
  - rewrite sloop_nil. auto.
  - rewrite sloop_cons, sloop_ok_cons. cbv zeta.
    destruct (negb (existsb (Nat.eqb idx) used) && Nat.eqb (deg_of (sg_deg st) (nth idx stops 0)) 0);
      [|apply IH; exact Ht].
    rewrite Ht. destruct (order_outs_nil_tape (outbound arcs (nth idx stops 0))) as [E1 E2].
    rewrite E2.
    match goal with |- context [rec ?u ?s ?d ?x] =>
      destruct (Hrec u s d x) as [H1 H2]; [simpl; exact E1|]; rewrite H2;
      set (st1 := rec u s d x) in * end.
    simpl andb.
    destruct (Z.eqb_spec (sg_max st1) 0); auto.
    destruct isd; auto.
Qed.

Lemma seqgen_nil_tape : forall fuel used sequence direct st, sg_tape st = [] ->
  sg_tape (seqgen reset fuel stops arcs used sequence direct st) = [] /\
  seqgen_ok reset fuel stops arcs used sequence direct st = true.
Proof.
  induction fuel as [|fuel IH]; intros used sequence direct st Ht.
  - simpl. auto.
  - rewrite seqgen_S, seqgen_ok_S. destruct (Nat.eqb (length sequence) (length stops)).
    + cbv zeta. destruct (0 <=? sg_max st - 1)%Z; simpl; auto.
    + cbv zeta. rewrite Ht. simpl get_perm. simpl fst. simpl snd. rewrite is_perm_seq. simpl andb.
      apply sloop_nil_tape; auto.
Qed.

Lemma tape_ok_nil : forall sample, tape_ok_gen reset stops arcs sample [].
Proof. intros sample. unfold tape_ok_gen. apply seqgen_nil_tape. reflexivity. Qed.

End NilTape.

Example sampler_ex :
  let stops := [0;1;2;3] in let arcs := [(0,1,true); (2,3,false)] in
  let tape := [[2;0;3;1]; [3;2;1;0]; []] in
  tape_ok stops arcs 24 tape /\ arcs_wf stops arcs /\
  sequence_generator stops arcs 24 tape = [[2;3;0;1]; [2;0;1;3]; [0;1;2;3]] /\
  all_orders stops arcs = [[0;1;2;3]; [2;0;1;3]; [2;3;0;1]] /\
  (* a budget below the number of orders truncates the enumeration *)
  sequence_generator stops arcs 2 tape = [[2;3;0;1]; [2;0;1;3]].
Proof.
  split; [vm_compute; reflexivity|]. split.
  - split.
    + intros o d dir [H|[H|[]]]; inversion H; subst; simpl; auto 10.
    + intros o d1 d2 [H1|[H1|[]]] [H2|[H2|[]]]; inversion H1; inversion H2; subst; auto.
  - vm_compute. auto.
Qed.

(* why arcs_wf asks for at most one direct successor: IsAllowed rejects every order,
   the generator still yields one *)
Example two_direct_successors_ex :
  let stops := [0;1;2] in let arcs := [(0,1,true); (0,2,true)] in
  all_orders stops arcs = [] /\ sequence_generator stops arcs 24 [] = [[0;2;1]] /\
  tape_ok stops arcs 24 [].
Proof. vm_compute. auto. Qed.

(* why soundness needs valid tapes *)
Lemma C10_sequence_generator_garbage_tape_refuted_proof :
  exists stops arcs sample tape l,
    NoDup stops /\ arcs_wf_strict stops arcs /\
    In l (sequence_generator stops arcs sample tape) /\ ~ In l (all_orders stops arcs).
Proof.
  exists [0;1;2], [(0,1,true)], 24%Z, [[0;1;2]; [2]; []; [1]], [0;2;1].
  split; [|split; [|split]].
  - repeat constructor; simpl; intuition discriminate.
  - split; [split|split].
    + intros o d dir [H|[]]; inversion H; subst; simpl; auto.
    + intros o d1 d2 [H1|[]] [H2|[]]; inversion H1; inversion H2; subst; auto.
    + intros o1 o2 d [H1|[]] [H2|[]]; inversion H1; inversion H2; subst; auto.
    + exists [0;1;2]. vm_compute. auto.
  - vm_compute. auto.
  - vm_compute. intros [H|[H|[]]]; discriminate.
Qed.
