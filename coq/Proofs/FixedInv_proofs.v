(* Initial stops marked fixed stay on their vehicle, and the planned /
   unplanned / fixed bookkeeping stays consistent: inputs WITH initial stops
   (fixed or not; units of several stops of which only some carry the flag)
   and WITHOUT stop groups, for every history of stops moves, checked moves,
   unit un-plans and vehicle un-plans.

   Part 0  lists, the unit of a stop, what [wf_ginput_fixed] gives
   Part 1  [RS]: the route half of the engine invariant without feasibility;
           replacing one route (insert a whole unit / filter out whole units)
   Part 2  the invariant [FInv]
   Part 3  the start solution (place_units, prune_route, the booking)
   Part 4  the four operations
   Part 5  histories, the corollary on routes
   Part 6  non-vacuity (a boolean check of the hypotheses, the example), the
           un-plan of a vehicle as it was before its repair, the hypotheses on
           the initial stops cannot be dropped
   Part 7  the statements at the level of FInv

   The statements are repeated in Props/FixedInv.v. *)

From Coq Require Import List ZArith Bool Arith Lia Permutation Sorted.
From NR Require Import Model.Engine Model.Estimates Model.Format Model.Units
                       Proofs.Engine_lists Proofs.Engine_inv Proofs.Units_proofs
                       Proofs.GroupInv_proofs.
Import ListNotations.
Local Open Scope nat_scope.

Local Opaque next_cell stop_violation temporal_values score_terms first_cell propagate.

(* ================================================================== *)
(* Part 0.  Lists, the unit of a stop, well-formed initial stops       *)
(* ================================================================== *)

Lemma filter_filter' {A} (f g : A -> bool) (l : list A) :
  filter g (filter f l) = filter (fun x => f x && g x) l.
Proof.
  induction l as [|a l IH]; [reflexivity|]. cbn [filter].
  destruct (f a); cbn [filter andb]; [|exact IH]. destruct (g a); rewrite IH; reflexivity.
Qed.

Lemma filter_ext_in' {A} (f g : A -> bool) (l : list A) :
  (forall x, In x l -> f x = g x) -> filter f l = filter g l.
Proof.
  induction l as [|a l IH]; intros H; [reflexivity|]. cbn [filter].
  rewrite (H a (or_introl eq_refl)), IH; [reflexivity|]. intros x Hx. apply H. right; exact Hx.
Qed.

Lemma filter_all_true {A} (f : A -> bool) (l : list A) :
  (forall x, In x l -> f x = true) -> filter f l = l.
Proof.
  induction l as [|a l IH]; intros H; [reflexivity|]. cbn [filter].
  rewrite (H a (or_introl eq_refl)), IH; [reflexivity|]. intros x Hx. apply H. right; exact Hx.
Qed.

Lemma filter_hd_split {A} (f : A -> bool) :
  forall (l : list A) (a : A) (r : list A),
    filter f l = a :: r ->
    exists pre post, l = pre ++ a :: post /\ (forall y, In y pre -> f y = false) /\
                     f a = true /\ r = filter f post.
Proof.
  induction l as [|b l IH]; intros a r H; [discriminate|]. cbn [filter] in H.
  destruct (f b) eqn:E.
  - injection H as -> <-. exists [], l. split; [reflexivity|]. split; [intros y []|]. split; [exact E|reflexivity].
  - destruct (IH a r H) as (pre & post & -> & Hpre & Ha & Hr).
    exists (b :: pre), post. split; [reflexivity|]. split; [|split; assumption].
    intros y [<-|Hy]; [exact E|exact (Hpre y Hy)].
Qed.

Lemma find_index_first (x : nat) :
  forall (pre l : list nat) (i : nat),
    ~ In x pre -> find_index (Nat.eqb x) (pre ++ x :: l) i = Some (i + length pre).
Proof.
  induction pre as [|a pre IH]; intros l i Hn; cbn [app find_index length].
  - rewrite Nat.eqb_refl. f_equal. lia.
  - destruct (Nat.eqb x a) eqn:E.
    + apply Nat.eqb_eq in E. subst a. exfalso. apply Hn. left; reflexivity.
    + rewrite IH; [f_equal; lia|]. intros H. apply Hn. right; exact H.
Qed.

Lemma index_in_first (x : nat) (pre l : list nat) :
  ~ In x pre -> index_in x (pre ++ x :: l) = length pre.
Proof. intros Hn. unfold index_in. rewrite (find_index_first x pre l 0 Hn). reflexivity. Qed.

(* ---- the unit of a stop -------------------------------------------- *)

Lemma unit_of_stop_eq (inp : input) (u x : nat) :
  wf_input inp -> u < nunits inp -> In x (iu_stops (get_unit inp u)) -> unit_of_stop inp x = u.
Proof.
  intros Hwf Hu Hx. unfold unit_of_stop.
  destruct (find_index (fun u0 => mem_nat x (iu_stops u0)) (in_units inp) 0) as [k|] eqn:E.
  - destruct (find_index_some _ (mkIUnit [] []) _ _ _ E) as (j & -> & Hj & Hf & _).
    cbn [Nat.add]. apply mem_nat_In in Hf.
    destruct (Nat.eq_dec j u) as [e|Hne]; [exact e|exfalso].
    exact (units_disjoint inp j u x Hwf Hj Hu Hne Hf Hx).
  - exfalso. pose proof (find_index_none _ _ _ E (get_unit inp u) (get_unit_In inp u Hu)) as H.
    cbv beta in H. apply mem_nat_false in H. exact (H Hx).
Qed.

Lemma stop_in_unit (inp : input) (x : nat) :
  wf_input inp -> x < nstops inp -> exists u, u < nunits inp /\ In x (iu_stops (get_unit inp u)).
Proof.
  intros (_ & Hcov & _) Hx. apply Hcov in Hx. apply in_concat in Hx.
  destruct Hx as (l & Hl & Hx). apply in_map_iff in Hl. destruct Hl as (uu & <- & Huu).
  destruct (In_nth _ _ (mkIUnit [] []) Huu) as (u & Hu & Hn).
  exists u. split; [exact Hu|]. unfold get_unit. rewrite Hn. exact Hx.
Qed.

(* ---- fixed stops, fixed units --------------------------------------- *)

Lemma stop_fixed_iff (gi : ginput) (x : nat) :
  stop_fixed gi x = true <-> exists v, In (x, true) (nth v (gi_initial gi) []).
Proof.
  unfold stop_fixed. rewrite existsb_exists. split.
  - intros (l & Hl & H). apply existsb_exists in H. destruct H as ([y b] & Hp & H).
    cbn [fst snd] in H. apply andb_true_iff in H. destruct H as (H1 & H2).
    apply Nat.eqb_eq in H1. subst y b.
    destruct (In_nth _ _ [] Hl) as (v & _ & Hn). exists v. rewrite Hn. exact Hp.
  - intros (v & Hp).
    assert (Hv : v < length (gi_initial gi)).
    { destruct (Nat.lt_ge_cases v (length (gi_initial gi))) as [H|H]; [exact H|].
      rewrite nth_overflow in Hp by exact H. destruct Hp. }
    exists (nth v (gi_initial gi) []). split; [apply nth_In; exact Hv|].
    apply existsb_exists. exists (x, true). split; [exact Hp|].
    cbn [fst snd]. rewrite Nat.eqb_refl. reflexivity.
Qed.

Lemma unit_fixed_iff (gi : ginput) (u : nat) :
  unit_fixed gi u = true <->
  exists x, In x (iu_stops (get_unit (gi_inp gi) u)) /\ stop_fixed gi x = true.
Proof. unfold unit_fixed. apply existsb_exists. Qed.

Lemma unit_fixed_false_stop (gi : ginput) (u x : nat) :
  unit_fixed gi u = false -> In x (iu_stops (get_unit (gi_inp gi) u)) -> stop_fixed gi x = false.
Proof.
  intros Hf Hx. destruct (stop_fixed gi x) eqn:E; [|reflexivity].
  assert (H : unit_fixed gi u = true) by (apply unit_fixed_iff; exists x; split; assumption).
  congruence.
Qed.

(* ---- well-formed initial stops --------------------------------------- *)

(* the stops vehicle v lists as its initial stops *)
Definition initial_of (gi : ginput) (v : nat) : list nat := map fst (nth v (gi_initial gi) []).

Definition wf_ginput_fixed (gi : ginput) : Prop :=
  gi_groups gi = [] /\
  length (gi_initial gi) <= nveh (gi_inp gi) /\
  Forall (fun x => x < nstops (gi_inp gi)) (concat (map (map fst) (gi_initial gi))) /\
  NoDup (concat (map (map fst) (gi_initial gi))) /\
  (forall v u x y, u < nunits (gi_inp gi) ->
     In x (iu_stops (get_unit (gi_inp gi) u)) -> In y (iu_stops (get_unit (gi_inp gi) u)) ->
     In x (initial_of gi v) -> In y (initial_of gi v)).

Section WF.
  Variable gi : ginput.
  Hypothesis Hwf : wf_input (gi_inp gi).
  Hypothesis Hwg : wf_ginput_fixed gi.
  Local Notation inp := (gi_inp gi).

  Lemma wg_no_groups : no_groups gi.
  Proof. exact (proj1 Hwg). Qed.

  Lemma listed_len (v x : nat) : In x (initial_of gi v) -> v < length (gi_initial gi).
  Proof.
    intros H. destruct (Nat.lt_ge_cases v (length (gi_initial gi))) as [Hl|Hl]; [exact Hl|].
    unfold initial_of in H. rewrite nth_overflow in H by exact Hl. destruct H.
  Qed.

  Lemma listed_veh (v x : nat) : In x (initial_of gi v) -> v < nveh inp.
  Proof. intros H. pose proof (listed_len v x H). destruct Hwg as (_ & Hl & _). lia. Qed.

  Lemma listed_in_concat (v x : nat) :
    In x (initial_of gi v) -> In x (concat (map (map fst) (gi_initial gi))).
  Proof.
    intros H. apply in_concat. exists (initial_of gi v). split; [|exact H].
    unfold initial_of. apply in_map. apply nth_In. exact (listed_len v x H).
  Qed.

  Lemma listed_lt (v x : nat) : In x (initial_of gi v) -> x < nstops inp.
  Proof.
    intros H. destruct Hwg as (_ & _ & Hlt & _). rewrite Forall_forall in Hlt.
    apply Hlt. exact (listed_in_concat v x H).
  Qed.

  Lemma listed_NoDup (v : nat) : NoDup (initial_of gi v).
  Proof.
    destruct (Nat.lt_ge_cases v (length (gi_initial gi))) as [Hl|Hl].
    - destruct Hwg as (_ & _ & _ & Hnd & _). apply (NoDup_concat_elem _ _ Hnd).
      unfold initial_of. apply in_map. apply nth_In. exact Hl.
    - unfold initial_of. rewrite nth_overflow by exact Hl. constructor.
  Qed.

  Lemma listed_unique (v w x : nat) : In x (initial_of gi v) -> In x (initial_of gi w) -> v = w.
  Proof.
    intros Hv Hw. destruct (Nat.eq_dec v w) as [e|Hne]; [exact e|exfalso].
    destruct Hwg as (_ & _ & _ & Hnd & _).
    exact (NoDup_concat_nth (map fst) [] (gi_initial gi) v w x Hnd
             (listed_len v x Hv) (listed_len w x Hw) Hne Hv Hw).
  Qed.

  Lemma listed_whole (v u x y : nat) :
    u < nunits inp -> In x (iu_stops (get_unit inp u)) -> In y (iu_stops (get_unit inp u)) ->
    In x (initial_of gi v) -> In y (initial_of gi v).
  Proof. destruct Hwg as (_ & _ & _ & _ & H). apply H. Qed.

  Lemma flagged_listed (v x : nat) (b : bool) :
    In (x, b) (nth v (gi_initial gi) []) -> In x (initial_of gi v).
  Proof. intros H. unfold initial_of. apply in_map_iff. exists (x, b). split; [reflexivity|exact H]. Qed.

  Lemma top_fixed_unit (u : nat) : u < nunits inp -> top_fixed gi u = unit_fixed gi u.
  Proof.
    intros Hu. unfold top_fixed. rewrite (members_of_flat gi u wg_no_groups).
    replace (nunits_of gi <=? u) with false by (symmetry; apply Nat.leb_gt; exact Hu).
    cbn [existsb]. apply orb_false_r.
  Qed.

End WF.

(* ================================================================== *)
(* Part 1.  Routes without feasibility; replacing one route            *)
(* ================================================================== *)

(* [routes_ok] of Proofs/Units_proofs.v without [feasible]: during the
   construction of the start solution the route under construction has only
   passed the non-temporal checks *)
Definition RS (inp : input) (s : state) : Prop :=
  caches_ok inp s /\ NoDup (interior_stops s) /\
  (forall u, u < nunits inp ->
     unit_planned inp s u = true \/
     forall x, In x (iu_stops (get_unit inp u)) -> stop_on_route s x = false) /\
  together inp s.

Lemma routes_ok_RS (inp : input) (s : state) : routes_ok inp s <-> RS inp s /\ feasible inp s.
Proof. unfold routes_ok, RS. tauto. Qed.

Lemma RS_ext (inp : input) (s s' : state) : st_routes s' = st_routes s -> RS inp s -> RS inp s'.
Proof.
  intros Hr (Hc & Hnd & Hper & Ht).
  split; [exact (caches_ok_ext inp s s' Hr Hc)|].
  split; [rewrite (interior_stops_ext s s' Hr); exact Hnd|].
  split; [|exact (together_ext inp s s' Hr Ht)].
  intros u Hu. rewrite (unit_planned_ext inp s s' u Hr).
  destruct (Hper u Hu) as [H|H]; [left; exact H|right].
  intros x Hx. rewrite (stop_on_route_ext s s' x Hr). exact (H x Hx).
Qed.

Lemma on_route_iff (inp : input) (s : state) (x : nat) :
  caches_ok inp s ->
  (stop_on_route s x = true <-> exists w, w < nveh inp /\ In x (route_stops (get_route s w))).
Proof. intros (Hlen & _). rewrite stop_on_route_iff, Hlen. tauto. Qed.

Lemma off_route_not_in (inp : input) (s : state) (x w : nat) :
  caches_ok inp s -> w < nveh inp -> stop_on_route s x = false ->
  ~ In x (route_stops (get_route s w)).
Proof.
  intros Hc Hw Hoff Hin.
  assert (H : stop_on_route s x = true) by (apply (on_route_iff inp s x Hc); exists w; auto).
  congruence.
Qed.

Lemma replace_route_facts (inp : input) (s s2 : state) (v : nat) (new : list nat) :
  caches_ok inp s -> v < nveh inp -> route_shape inp v new ->
  st_routes s2 = set_nth (st_routes s) v (from_scratch inp v new) ->
  caches_ok inp s2 /\ route_stops (get_route s2 v) = new /\
  (forall w, w <> v -> get_route s2 w = get_route s w).
Proof.
  intros Hc Hv Hshape Hr. pose proof Hc as (Hlen & _).
  split; [exact (caches_ok_update inp s s2 v new Hc Hv Hshape Hr)|]. split.
  - rewrite (get_route_upd_eq s s2 v _ Hr) by (rewrite Hlen; exact Hv).
    apply route_stops_from_scratch. exact (route_shape_hd inp v new Hshape).
  - intros w Hne. exact (get_route_upd_neq s s2 v w _ Hr Hne).
Qed.

(* a unit on a route is on that route only, entirely *)
Lemma RS_unit_on (inp : input) (s : state) (u x w : nat) :
  wf_input inp -> RS inp s -> u < nunits inp -> w < nveh inp ->
  In x (iu_stops (get_unit inp u)) -> In x (route_stops (get_route s w)) ->
  unit_planned inp s u = true /\
  (forall y, In y (iu_stops (get_unit inp u)) -> In y (route_stops (get_route s w))) /\
  (forall y w', In y (iu_stops (get_unit inp u)) -> w' < nveh inp ->
                In y (route_stops (get_route s w')) -> w' = w).
Proof.
  intros Hwf (Hc & Hnd & Hper & Ht) Hu Hw Hx Hin.
  assert (Hall : forall y, In y (iu_stops (get_unit inp u)) -> In y (route_stops (get_route s w))).
  { intros y Hy. exact (Ht u Hu w x y Hw Hx Hy Hin). }
  split; [|split; [exact Hall|]].
  - destruct (Hper u Hu) as [H|H]; [exact H|exfalso].
    exact (off_route_not_in inp s x w Hc Hw (H x Hx) Hin).
  - intros y w' Hy Hw' Hin'.
    exact (interior_unique inp s y w' w Hc Hnd Hw' Hw (unit_stops_lt inp u y Hwf Hu Hy) Hin' (Hall y Hy)).
Qed.

(* ---- filtering whole units out of route v ---------------------------- *)

Lemma RS_filter (inp : input) (s s2 : state) (v : nat) (keep : nat -> bool) :
  wf_input inp -> RS inp s -> v < nveh inp ->
  (forall x, nstops inp <= x -> keep x = true) ->
  (forall u x y, u < nunits inp -> In x (iu_stops (get_unit inp u)) ->
                 In y (iu_stops (get_unit inp u)) -> keep x = keep y) ->
  st_routes s2 = set_nth (st_routes s) v
                   (from_scratch inp v (filter keep (route_stops (get_route s v)))) ->
  RS inp s2 /\
  route_stops (get_route s2 v) = filter keep (route_stops (get_route s v)) /\
  (forall w, w <> v -> get_route s2 w = get_route s w).
Proof.
  intros Hwf HRS Hv Hends Hresp Hr. pose proof HRS as (Hc & Hnd & Hper & Ht).
  pose proof Hc as (Hlen & Hc').
  destruct (Hc' v Hv) as ((mid & Hold & Hmid) & _).
  set (old := route_stops (get_route s v)) in *.
  assert (Hnew : filter keep old = first_stop inp v :: filter keep mid ++ [last_stop inp v]).
  { rewrite Hold. cbn [filter]. rewrite (Hends _ (first_stop_ge inp v)).
    rewrite filter_app. cbn [filter]. rewrite (Hends _ (last_stop_ge inp v)). reflexivity. }
  assert (Hshape : route_shape inp v (filter keep old)).
  { exists (filter keep mid). split; [exact Hnew|]. apply Forall_forall. intros x Hx.
    apply filter_In in Hx. rewrite Forall_forall in Hmid. exact (Hmid x (proj1 Hx)). }
  destruct (replace_route_facts inp s s2 v _ Hc Hv Hshape Hr) as (Hc2 & Hgv & Hgo).
  split; [|split; [exact Hgv|exact Hgo]].
  assert (Hin2 : forall w x, In x (route_stops (get_route s2 w)) <->
                             In x (route_stops (get_route s w)) /\ (w = v -> keep x = true)).
  { intros w x. destruct (Nat.eq_dec w v) as [->|Hne].
    - rewrite Hgv. fold old. rewrite filter_In. tauto.
    - rewrite (Hgo w Hne). tauto. }
  assert (Hvl : v < length (st_routes s)) by (rewrite Hlen; exact Hv).
  split; [exact Hc2|]. split; [|split].
  - rewrite interior_stops_eq, Hr.
    destruct (concat_map_set_nth interior (st_routes s) v
                (from_scratch inp v (filter keep old)) [] Hvl) as (R & P1 & P2).
    apply (Permutation_NoDup (Permutation_sym P2)).
    rewrite interior_stops_eq in Hnd. pose proof (Permutation_NoDup P1 Hnd) as Hnd'.
    assert (Hint : interior (from_scratch inp v (filter keep old))
                   = filter keep (interior (nth v (st_routes s) []))).
    { unfold interior. rewrite route_stops_from_scratch by exact (route_shape_hd inp v _ Hshape).
      change (nth v (st_routes s) []) with (get_route s v). fold old.
      rewrite Hnew, Hold. cbn [tl]. rewrite !removelast_snoc. reflexivity. }
    rewrite Hint. apply NoDup_filter_app. exact Hnd'.
  - intros u Hu. destruct (Hper u Hu) as [Hpl|Hoff].
    + apply unit_planned_iff in Hpl. destruct Hpl as (Hne & Hon).
      destruct (nonempty_has_elem _ Hne) as (x0 & Hx0).
      pose proof (Hon x0 Hx0) as H0. apply (on_route_iff inp s x0 Hc) in H0.
      destruct H0 as (w0 & Hw0 & Hin0).
      destruct (RS_unit_on inp s u x0 w0 Hwf HRS Hu Hw0 Hx0 Hin0) as (_ & Hall & Huniq).
      destruct (Nat.eq_dec w0 v) as [->|Hnw].
      * destruct (keep x0) eqn:Ek.
        -- left. apply unit_planned_iff. split; [exact Hne|]. intros y Hy.
           apply (on_route_iff inp s2 y Hc2). exists v. split; [exact Hv|]. apply Hin2.
           split; [exact (Hall y Hy)|]. intros _. rewrite <- (Hresp u x0 y Hu Hx0 Hy). exact Ek.
        -- right. intros y Hy. destruct (stop_on_route s2 y) eqn:E; [exfalso|reflexivity].
           apply (on_route_iff inp s2 y Hc2) in E. destruct E as (w & Hw & Hin).
           apply Hin2 in Hin. destruct Hin as (Hin & Hk).
           pose proof (Huniq y w Hy Hw Hin) as ->.
           rewrite <- (Hresp u x0 y Hu Hx0 Hy), Ek in Hk. specialize (Hk eq_refl). discriminate.
      * left. apply unit_planned_iff. split; [exact Hne|]. intros y Hy.
        apply (on_route_iff inp s2 y Hc2). exists w0. split; [exact Hw0|]. apply Hin2.
        split; [exact (Hall y Hy)|]. intros e. congruence.
    + right. intros y Hy. destruct (stop_on_route s2 y) eqn:E; [exfalso|reflexivity].
      apply (on_route_iff inp s2 y Hc2) in E. destruct E as (w & Hw & Hin).
      apply Hin2 in Hin. exact (off_route_not_in inp s y w Hc Hw (Hoff y Hy) (proj1 Hin)).
  - intros u Hu w x y Hw Hx Hy Hin. apply Hin2 in Hin. destruct Hin as (Hin & Hk). apply Hin2.
    split; [exact (Ht u Hu w x y Hw Hx Hy Hin)|]. intros e.
    rewrite <- (Hresp u x y Hu Hx Hy). exact (Hk e).
Qed.

(* ---- inserting a whole unit that is on no route into route v ---------- *)

Lemma RS_insert (inp : input) (s s2 : state) (u v : nat) (new : list nat) :
  wf_input inp -> RS inp s -> u < nunits inp -> v < nveh inp ->
  (forall x, In x (iu_stops (get_unit inp u)) -> stop_on_route s x = false) ->
  route_shape inp v new ->
  Permutation new (route_stops (get_route s v) ++ iu_stops (get_unit inp u)) ->
  Permutation (removelast (tl new))
              (removelast (tl (route_stops (get_route s v))) ++ iu_stops (get_unit inp u)) ->
  st_routes s2 = set_nth (st_routes s) v (from_scratch inp v new) ->
  RS inp s2 /\ route_stops (get_route s2 v) = new /\
  (forall w, w <> v -> get_route s2 w = get_route s w).
Proof.
  intros Hwf HRS Hu Hv Hoff Hshape Hperm Hpermmid Hr. pose proof HRS as (Hc & Hnd & Hper & Ht).
  pose proof Hc as (Hlen & Hc').
  destruct (replace_route_facts inp s s2 v new Hc Hv Hshape Hr) as (Hc2 & Hgv & Hgo).
  split; [|split; [exact Hgv|exact Hgo]].
  set (us := iu_stops (get_unit inp u)) in *.
  assert (Hin2 : forall w x, In x (route_stops (get_route s2 w)) <->
                             In x (route_stops (get_route s w)) \/ (w = v /\ In x us)).
  { intros w x. destruct (Nat.eq_dec w v) as [->|Hne].
    - rewrite Hgv. split.
      + intros H. apply (Permutation_in _ Hperm) in H. apply in_app_or in H. tauto.
      + intros H. apply (Permutation_in _ (Permutation_sym Hperm)). apply in_or_app. tauto.
    - rewrite (Hgo w Hne). tauto. }
  assert (Hvl : v < length (st_routes s)) by (rewrite Hlen; exact Hv).
  assert (Hon : forall x, stop_on_route s2 x = true <-> stop_on_route s x = true \/ In x us).
  { intros x. rewrite (on_route_iff inp s2 x Hc2), (on_route_iff inp s x Hc). split.
    - intros (w & Hw & Hin). apply Hin2 in Hin. destruct Hin as [Hin|(_ & Hin)]; [left; exists w; auto|right; exact Hin].
    - intros [(w & Hw & Hin)|Hin].
      + exists w. split; [exact Hw|]. apply Hin2. left; exact Hin.
      + exists v. split; [exact Hv|]. apply Hin2. right. split; [reflexivity|exact Hin]. }
  assert (Hsame : forall u', u' < nunits inp -> u' <> u ->
            forall x, In x (iu_stops (get_unit inp u')) -> stop_on_route s2 x = stop_on_route s x).
  { intros u' Hu' Hne x Hx. apply eq_true_iff_eq. rewrite Hon. split; [|auto].
    intros [H|H]; [exact H|]. exfalso.
    exact (units_disjoint inp u u' x Hwf Hu Hu' (fun e => Hne (eq_sym e)) H Hx). }
  split; [exact Hc2|]. split; [|split].
  - rewrite interior_stops_eq, Hr.
    destruct (concat_map_set_nth interior (st_routes s) v (from_scratch inp v new) [] Hvl)
      as (R & P1 & P2).
    apply (Permutation_NoDup (Permutation_sym P2)).
    rewrite interior_stops_eq in Hnd. pose proof (Permutation_NoDup P1 Hnd) as Hnd'.
    assert (Hint : interior (from_scratch inp v new) = removelast (tl new)).
    { unfold interior. rewrite route_stops_from_scratch by exact (route_shape_hd inp v _ Hshape).
      reflexivity. }
    rewrite Hint.
    apply (Permutation_NoDup (l := us ++ (interior (nth v (st_routes s) []) ++ R))).
    + symmetry.
      transitivity ((removelast (tl (route_stops (get_route s v))) ++ us) ++ R).
      * apply Permutation_app_tail. exact Hpermmid.
      * rewrite <- app_assoc. apply Permutation_app_swap_app.
    + apply NoDup_app_iff. split; [exact (unit_stops_NoDup inp u Hwf Hu)|]. split; [exact Hnd'|].
      intros x Hx Hxi. apply (Permutation_in _ (Permutation_sym P1)) in Hxi.
      rewrite <- interior_stops_eq in Hxi.
      apply (In_interior_stops inp s x Hc) in Hxi. destruct Hxi as (_ & w & Hw & Hin).
      exact (off_route_not_in inp s x w Hc Hw (Hoff x Hx) Hin).
  - intros u' Hu'. destruct (Nat.eq_dec u' u) as [->|Hne].
    + left. apply unit_planned_iff. split; [exact (unit_stops_nonempty inp u Hwf Hu)|].
      intros x Hx. apply Hon. right; exact Hx.
    + rewrite (unit_planned_congr inp s s2 u' (Hsame u' Hu' Hne)).
      destruct (Hper u' Hu') as [C|C]; [left; exact C|right].
      intros x Hx. rewrite (Hsame u' Hu' Hne x Hx). exact (C x Hx).
  - intros u' Hu' w x y Hw Hx Hy Hin. apply Hin2 in Hin. apply Hin2. destruct Hin as [Hin|(-> & Hin)].
    + left. exact (Ht u' Hu' w x y Hw Hx Hy Hin).
    + right. split; [reflexivity|]. destruct (Nat.eq_dec u' u) as [->|Hneu]; [exact Hy|exfalso].
      exact (units_disjoint inp u u' x Hwf Hu Hu' (fun e => Hneu (eq_sym e)) Hin Hx).
Qed.

(* ================================================================== *)
(* Part 2.  The invariant                                              *)
(* ================================================================== *)

(* planned / unplanned / fixed: duplicate-free, pairwise disjoint, together
   exactly the unit indices *)
Definition colls_part (gi : ginput) (s : state) : Prop :=
  NoDup (st_planned s) /\ NoDup (st_unplanned s) /\ NoDup (st_fixed s) /\
  (forall u, In u (st_planned s) -> In u (st_unplanned s) -> False) /\
  (forall u, In u (st_planned s) -> In u (st_fixed s) -> False) /\
  (forall u, In u (st_unplanned s) -> In u (st_fixed s) -> False) /\
  (forall u, u < nunits (gi_inp gi) <->
             In u (st_planned s) \/ In u (st_unplanned s) \/ In u (st_fixed s)).

(* (a) the fixed collection is the set of fixed units: a function of the input *)
Definition fixed_exact (gi : ginput) (s : state) : Prop :=
  forall u, In u (st_fixed s) <-> u < nunits (gi_inp gi) /\ unit_fixed gi u = true.

(* (b) a fixed unit is whole on the vehicle that lists its stops as initial stops *)
Definition fixed_home (gi : ginput) (s : state) : Prop :=
  forall u, In u (st_fixed s) ->
    exists v, v < nveh (gi_inp gi) /\
      forall y, In y (iu_stops (get_unit (gi_inp gi) u)) ->
                In y (initial_of gi v) /\ In y (route_stops (get_route s v)).

(* (c) the other units: planned iff all stops on routes, unplanned iff none *)
Definition free_units_ok (gi : ginput) (s : state) : Prop :=
  forall u, u < nunits (gi_inp gi) -> unit_fixed gi u = false ->
    (In u (st_planned s) <-> unit_planned (gi_inp gi) s u = true) /\
    (In u (st_unplanned s) <->
     forall x, In x (iu_stops (get_unit (gi_inp gi) u)) -> stop_on_route s x = false).

(* (d) every input stop on a route belongs to a planned or a fixed unit *)
Definition routes_covered (gi : ginput) (s : state) : Prop :=
  forall x, In x (interior_stops s) ->
    exists u, u < nunits (gi_inp gi) /\ In x (iu_stops (get_unit (gi_inp gi) u)) /\
              (In u (st_planned s) \/ In u (st_fixed s)).

Definition FCore (gi : ginput) (s : state) : Prop :=
  routes_ok (gi_inp gi) s /\ colls_part gi s /\ fixed_exact gi s /\ fixed_home gi s /\
  free_units_ok gi s /\ scores_fresh gi s.

Definition FInv (gi : ginput) (s : state) : Prop := FCore gi s /\ routes_covered gi s.

Lemma planned_or_off (inp : input) (s : state) (u : nat) :
  wf_input inp -> routes_ok inp s -> u < nunits inp ->
  (unit_planned inp s u = false <->
   forall x, In x (iu_stops (get_unit inp u)) -> stop_on_route s x = false).
Proof.
  intros Hwf (_ & _ & _ & Hper & _) Hu. split.
  - intros Hf. destruct (Hper u Hu) as [H|H]; [congruence|exact H].
  - intros Hoff. destruct (unit_planned inp s u) eqn:E; [exfalso|reflexivity].
    apply unit_planned_iff in E. destruct E as (Hne & Hon).
    destruct (nonempty_has_elem _ Hne) as (x & Hx). specialize (Hon x Hx). rewrite (Hoff x Hx) in Hon.
    discriminate.
Qed.

Lemma FCore_covered (gi : ginput) (s : state) :
  wf_input (gi_inp gi) -> FCore gi s -> routes_covered gi s.
Proof.
  intros Hwf (Hok & _ & Hfe & _ & Hfree & _) x Hx.
  pose proof Hok as (Hc & _ & _ & Hper & _).
  apply (In_interior_stops (gi_inp gi) s x Hc) in Hx. destruct Hx as (Hlt & w & Hw & Hin).
  destruct (stop_in_unit (gi_inp gi) x Hwf Hlt) as (u & Hu & Hxu).
  exists u. split; [exact Hu|]. split; [exact Hxu|].
  destruct (unit_fixed gi u) eqn:Ef.
  - right. apply Hfe. split; assumption.
  - left. apply (Hfree u Hu Ef). destruct (Hper u Hu) as [H|H]; [exact H|exfalso].
    exact (off_route_not_in (gi_inp gi) s x w Hc Hw (H x Hxu) Hin).
Qed.

Lemma FCore_FInv (gi : ginput) (s : state) : wf_input (gi_inp gi) -> FCore gi s -> FInv gi s.
Proof. intros Hwf H. split; [exact H|exact (FCore_covered gi s Hwf H)]. Qed.

Lemma free_unplanned_iff (gi : ginput) (s : state) (u : nat) :
  wf_input (gi_inp gi) -> FCore gi s -> u < nunits (gi_inp gi) -> unit_fixed gi u = false ->
  (In u (st_unplanned s) <-> unit_planned (gi_inp gi) s u = false).
Proof.
  intros Hwf (Hok & _ & _ & _ & Hfree & _) Hu Hf.
  rewrite (planned_or_off (gi_inp gi) s u Hwf Hok Hu). exact (proj2 (Hfree u Hu Hf)).
Qed.

(* the collections are the sets the routes call for: the general transfer *)
Lemma FCore_transfer (gi : ginput) (s s' : state) :
  wf_input (gi_inp gi) -> FCore gi s -> routes_ok (gi_inp gi) s' -> scores_fresh gi s' ->
  st_fixed s' = st_fixed s -> NoDup (st_planned s') -> NoDup (st_unplanned s') ->
  (forall u w y, In u (st_fixed s) -> w < nveh (gi_inp gi) ->
     In y (iu_stops (get_unit (gi_inp gi) u)) ->
     In y (route_stops (get_route s w)) -> In y (route_stops (get_route s' w))) ->
  (forall u, u < nunits (gi_inp gi) -> unit_fixed gi u = false ->
     (In u (st_planned s') <-> unit_planned (gi_inp gi) s' u = true) /\
     (In u (st_unplanned s') <-> unit_planned (gi_inp gi) s' u = false)) ->
  (forall u, In u (st_planned s') \/ In u (st_unplanned s') ->
     u < nunits (gi_inp gi) /\ unit_fixed gi u = false) ->
  FCore gi s'.
Proof.
  intros Hwf (Hok & (_ & _ & Hndf & _) & Hfe & Hfh & _ & _) Hok' Hsc' Hfx Hndp Hndu Hstay Hbook Hdom.
  split; [exact Hok'|]. split; [|split; [|split; [|split; [|exact Hsc']]]].
  - unfold colls_part. rewrite Hfx. split; [exact Hndp|]. split; [exact Hndu|]. split; [exact Hndf|].
    split; [|split; [|split]].
    + intros u H1 H2. destruct (Hdom u (or_introl H1)) as (Hu & Hf).
      apply (Hbook u Hu Hf) in H1. apply (Hbook u Hu Hf) in H2. congruence.
    + intros u H1 H2. destruct (Hdom u (or_introl H1)) as (_ & Hf). apply Hfe in H2. destruct H2; congruence.
    + intros u H1 H2. destruct (Hdom u (or_intror H1)) as (_ & Hf). apply Hfe in H2. destruct H2; congruence.
    + intros u. split.
      * intros Hu. destruct (unit_fixed gi u) eqn:Ef.
        -- right; right. apply Hfe. split; assumption.
        -- destruct (unit_planned (gi_inp gi) s' u) eqn:Ep.
           ++ left. apply (Hbook u Hu Ef). exact Ep.
           ++ right; left. apply (Hbook u Hu Ef). exact Ep.
      * intros [H|[H|H]].
        -- exact (proj1 (Hdom u (or_introl H))).
        -- exact (proj1 (Hdom u (or_intror H))).
        -- apply Hfe in H. exact (proj1 H).
  - unfold fixed_exact. rewrite Hfx. exact Hfe.
  - intros u Hin. rewrite Hfx in Hin. destruct (Hfh u Hin) as (v & Hv & Hall).
    exists v. split; [exact Hv|]. intros y Hy. destruct (Hall y Hy) as (A & B).
    split; [exact A|]. exact (Hstay u v y Hin Hv Hy B).
  - intros u Hu Hf. destruct (Hbook u Hu Hf) as (A & B). split; [exact A|].
    rewrite B. exact (planned_or_off (gi_inp gi) s' u Hwf Hok' Hu).
Qed.

(* routes unchanged, collections the same sets *)
Lemma FCore_same (gi : ginput) (s s' : state) :
  wf_input (gi_inp gi) -> FCore gi s -> st_routes s' = st_routes s -> scores_fresh gi s' ->
  st_fixed s' = st_fixed s -> NoDup (st_planned s') -> NoDup (st_unplanned s') ->
  (forall u, In u (st_planned s') <-> In u (st_planned s)) ->
  (forall u, In u (st_unplanned s') <-> In u (st_unplanned s)) ->
  FCore gi s'.
Proof.
  intros Hwf HF Hr Hsc Hfx Hndp Hndu Hp Hu. pose proof HF as (Hok & Hcp & Hfe & _ & Hfree & _).
  apply (FCore_transfer gi s s' Hwf HF (routes_ok_ext _ s s' Hr Hok) Hsc Hfx Hndp Hndu).
  - intros u w y _ _ _ H. rewrite (get_route_ext s s' w Hr). exact H.
  - intros u Hlt Hf. rewrite (unit_planned_ext (gi_inp gi) s s' u Hr), Hp, Hu.
    split; [exact (proj1 (Hfree u Hlt Hf))|exact (free_unplanned_iff gi s u Hwf HF Hlt Hf)].
  - intros u H. rewrite Hp, Hu in H. destruct Hcp as (_ & _ & _ & _ & D2 & D3 & Hcov).
    assert (Hlt : u < nunits (gi_inp gi)) by (apply Hcov; tauto).
    split; [exact Hlt|]. destruct (unit_fixed gi u) eqn:Ef; [exfalso|reflexivity].
    assert (Hin : In u (st_fixed s)) by (apply Hfe; split; assumption).
    destruct H as [H|H]; [exact (D2 u H Hin)|exact (D3 u H Hin)].
Qed.

Lemma colls_dom (gi : ginput) (s : state) (u : nat) :
  FCore gi s -> In u (st_planned s) \/ In u (st_unplanned s) ->
  u < nunits (gi_inp gi) /\ unit_fixed gi u = false.
Proof.
  intros (_ & (_ & _ & _ & _ & D2 & D3 & Hcov) & Hfe & _) H.
  assert (Hlt : u < nunits (gi_inp gi)) by (apply Hcov; tauto).
  split; [exact Hlt|]. destruct (unit_fixed gi u) eqn:Ef; [exfalso|reflexivity].
  assert (Hin : In u (st_fixed s)) by (apply Hfe; split; assumption).
  destruct H as [H|H]; [exact (D2 u H Hin)|exact (D3 u H Hin)].
Qed.

(* ================================================================== *)
(* Part 4a.  Stops moves and unit un-plans                             *)
(* ================================================================== *)

Section Ops.
  Variable gi : ginput.
  Hypothesis Hwf : wf_input (gi_inp gi).
  Hypothesis Hwg : wf_ginput_fixed gi.
  Local Notation inp := (gi_inp gi).

  Lemma FCore_exec_move (s s' : state) (mv : move) (r : result) :
    FCore gi s -> move_ok inp s mv -> g_exec_move gi s mv = (s', r) ->
    r <> UndoFailed /\ FCore gi s' /\ (r <> Done -> st_routes s' = st_routes s) /\
    (unit_planned inp s (mv_unit mv) = true \/ unit_fixed gi (mv_unit mv) = true ->
     r = NotExecutable /\ s' = s).
  Proof.
    intros HF Hmv Hex. pose proof HF as (Hok & Hcp & Hfe & Hfh & Hfree & Hsc).
    destruct (g_exec_move_routes gi s s' mv r Hwf Hok Hmv Hex) as (Hnu & Hok' & Hrb & Hd).
    destruct (g_exec_move_nonmember_colls gi s s' mv r
                (member_group_flat gi _ (wg_no_groups gi Hwg)) Hex) as (Cn & Cd & Cr).
    split; [exact Hnu|].
    assert (Hne_case : unit_planned inp s (mv_unit mv) = true \/ unit_fixed gi (mv_unit mv) = true ->
                       r = NotExecutable /\ s' = s).
    { intros H. unfold g_exec_move in Hex.
      replace (unit_planned inp s (mv_unit mv) || unit_fixed gi (mv_unit mv)) with true in Hex
        by (symmetry; apply orb_true_iff; exact H).
      injection Hex as <- <-. split; reflexivity. }
    split; [|split; [exact Hrb|exact Hne_case]].
    pose proof Hmv as (Hu & Hv & Hperm & _).
    destruct (result_eq_ne r) as [->|Hrn]. { rewrite (Cn eq_refl). exact HF. }
    assert (Hpl : unit_planned inp s (mv_unit mv) = false) by exact (g_exec_move_ran gi s s' mv r Hex Hrn).
    assert (Hfx : unit_fixed gi (mv_unit mv) = false).
    { destruct (unit_fixed gi (mv_unit mv)) eqn:E; [|reflexivity].
      destruct (Hne_case (or_intror eq_refl)) as (Hr & _). congruence. }
    assert (Hinu : In (mv_unit mv) (st_unplanned s)).
    { apply (free_unplanned_iff gi s _ Hwf HF Hu Hfx). exact Hpl. }
    assert (Hnp : ~ In (mv_unit mv) (st_planned s)).
    { intros H. apply (Hfree _ Hu Hfx) in H. congruence. }
    destruct Hcp as (Hndp & Hndu & _).
    destruct r as [|k| |]; [| |congruence|congruence].
    - destruct (Cd eq_refl) as (Cp & Cu & Cf & Csc).
      destruct (Hd eq_refl) as (_ & _ & Hins & Hoth).
      apply (FCore_transfer gi s s' Hwf HF Hok' Csc Cf).
      + rewrite Cp. apply NoDup_coll_add. exact Hndp.
      + rewrite Cu. apply NoDup_coll_remove. exact Hndu.
      + intros u0 w y _ _ _ Hon. destruct (Nat.eq_dec w (mv_vehicle mv)) as [->|Hne].
        * rewrite Hins. apply (Permutation_in y (Permutation_sym (insert_places_perm _ _ _))).
          apply in_or_app. left; exact Hon.
        * rewrite (Hoth w Hne). exact Hon.
      + intros m Hm Hf. rewrite Cp, Cu, In_coll_add, In_coll_remove.
        pose proof (g_exec_move_done_planned_iff gi s s' mv Hwf Hok Hmv Hex m) as Hiff.
        rewrite (proj1 (Hfree m Hm Hf)), (free_unplanned_iff gi s m Hwf HF Hm Hf).
        split; [rewrite Hiff; tauto|].
        rewrite <- !not_true_iff_false, Hiff. tauto.
      + intros m H. rewrite Cp, Cu, In_coll_add, In_coll_remove in H.
        destruct H as [[->|H]|(H & _)]; [split; assumption| |].
        * exact (colls_dom gi s m HF (or_introl H)).
        * exact (colls_dom gi s m HF (or_intror H)).
    - destruct (Cr k eq_refl) as (Cp & Cu & Cf & Csc).
      apply (FCore_same gi s s' Hwf HF (Hrb ltac:(discriminate)) Csc Cf).
      + rewrite Cp. apply NoDup_coll_remove, NoDup_coll_add. exact Hndp.
      + rewrite Cu. apply NoDup_coll_add, NoDup_coll_remove. exact Hndu.
      + intros x. rewrite Cp, (coll_remove_add_notin _ _ Hnp). tauto.
      + intros x. rewrite Cu, In_coll_add, In_coll_remove.
        destruct (Nat.eq_dec x (mv_unit mv)) as [->|Hne]; tauto.
  Qed.

  Lemma FCore_exec_checked (s s' : state) (mv : move) (r : result) :
    FCore gi s -> move_ok inp s mv -> g_exec_checked gi s mv = (s', r) ->
    r <> UndoFailed /\ FCore gi s' /\ (r <> Done -> st_routes s' = st_routes s).
  Proof.
    intros HF Hmv Hex. unfold g_exec_checked in Hex. destruct (g_move_executable gi s mv).
    - destruct (FCore_exec_move s s' mv r HF Hmv Hex) as (A & B & C & _). auto.
    - injection Hex as <- <-. split; [discriminate|]. split; [exact HF|reflexivity].
  Qed.

  Lemma FCore_unplan_unit (s s' : state) (u : nat) (r : result) :
    FCore gi s -> g_unplan_unit gi s u = (s', r) ->
    r <> UndoFailed /\ FCore gi s' /\ (r <> Done -> st_routes s' = st_routes s) /\
    (unit_fixed gi u = true -> r = NotExecutable /\ s' = s).
  Proof.
    intros HF Hex. pose proof HF as (Hok & Hcp & Hfe & Hfh & Hfree & Hsc).
    destruct (g_unplan_unit_colls gi s s' u r Hex) as (Cn & Cd & Cr).
    assert (Hfixed_case : unit_fixed gi u = true -> r = NotExecutable /\ s' = s).
    { intros H. rewrite (g_unplan_unit_fixed gi s u H) in Hex. injection Hex as <- <-. auto. }
    destruct (result_eq_ne r) as [->|Hrn].
    { pose proof (Cn eq_refl) as ->. split; [discriminate|]. split; [exact HF|]. split; [reflexivity|auto]. }
    pose proof (g_unplan_unit_done_was_planned gi s s' u r Hex Hrn) as Hplu.
    pose proof (unit_planned_lt _ _ _ Hplu) as Hu.
    destruct (g_unplan_unit_routes gi s s' u r Hwf Hok Hu Hex) as (Hnu & Hok' & Hrb & Hd).
    split; [exact Hnu|]. split; [|split; [exact Hrb|exact Hfixed_case]].
    assert (Hfx : unit_fixed gi u = false).
    { destruct (unit_fixed gi u) eqn:E; [|reflexivity]. destruct (Hfixed_case eq_refl). congruence. }
    assert (Hinp : In u (st_planned s)) by (apply (Hfree u Hu Hfx); exact Hplu).
    assert (Hnun : ~ In u (st_unplanned s)).
    { intros H. apply (free_unplanned_iff gi s u Hwf HF Hu Hfx) in H. congruence. }
    rewrite (top_of_flat gi u (wg_no_groups gi Hwg)) in Cd.
    destruct Hcp as (Hndp & Hndu & _).
    destruct r as [|k| |]; [| |congruence|congruence].
    - destruct (Cd eq_refl) as (Cp & Cu & Cf & Csc).
      destruct (Hd eq_refl) as (v & Hv & Hall & Hfil & Hoth).
      apply (FCore_transfer gi s s' Hwf HF Hok' Csc Cf).
      + rewrite Cp. apply NoDup_coll_remove. exact Hndp.
      + rewrite Cu. apply NoDup_coll_add. exact Hndu.
      + intros u0 w y Hin0 _ Hy Hon. destruct (Nat.eq_dec w v) as [->|Hne].
        * rewrite Hfil. apply filter_In. split; [exact Hon|].
          apply negb_true_iff, mem_nat_false. intros Hyu.
          apply Hfe in Hin0. destruct Hin0 as (Hu0 & Hf0).
          assert (Hne : u0 <> u) by (intros ->; congruence).
          exact (units_disjoint inp u0 u y Hwf Hu0 Hu Hne Hy Hyu).
        * rewrite (Hoth w Hne). exact Hon.
      + intros m Hm Hf. rewrite Cp, Cu, In_coll_add, In_coll_remove.
        pose proof (g_unplan_unit_done_planned_iff gi s s' u Hwf Hok Hex m) as Hiff.
        rewrite (proj1 (Hfree m Hm Hf)), (free_unplanned_iff gi s m Hwf HF Hm Hf).
        split; [rewrite Hiff; tauto|].
        rewrite <- (not_true_iff_false (unit_planned inp s' m)), Hiff.
        destruct (unit_planned inp s m); destruct (Nat.eq_dec m u) as [E|Hne]; intuition congruence.
      + intros m H. rewrite Cp, Cu, In_coll_add, In_coll_remove in H.
        destruct H as [(H & _)|[->|H]]; [|split; assumption|].
        * exact (colls_dom gi s m HF (or_introl H)).
        * exact (colls_dom gi s m HF (or_intror H)).
    - destruct (Cr k eq_refl (member_group_flat gi u (wg_no_groups gi Hwg))) as (Cp & Cu & Cf & Csc).
      apply (FCore_same gi s s' Hwf HF (Hrb ltac:(discriminate)) Csc Cf).
      + rewrite Cp. apply NoDup_coll_add, NoDup_coll_remove. exact Hndp.
      + rewrite Cu. apply NoDup_coll_remove, NoDup_coll_add. exact Hndu.
      + intros x. rewrite Cp, In_coll_add, In_coll_remove.
        destruct (Nat.eq_dec x u) as [->|Hne]; tauto.
      + intros x. rewrite Cu, (coll_remove_add_notin _ _ Hnun). tauto.
  Qed.

End Ops.

(* ================================================================== *)
(* Part 4b.  The un-plan of a vehicle                                  *)
(* ================================================================== *)

Lemma firstn_length_app {A} (a b : list A) : firstn (length a) (a ++ b) = a.
Proof. induction a as [|x a IH]; [reflexivity|]. cbn [length app firstn]. rewrite IH. reflexivity. Qed.

Lemma filter_shape (inp : input) (v : nat) (keep : nat -> bool) (old : list nat) :
  route_shape inp v old -> (forall x, nstops inp <= x -> keep x = true) ->
  route_shape inp v (filter keep old).
Proof.
  intros (mid & -> & Hmid) Hends. exists (filter keep mid). split.
  - cbn [filter]. rewrite (Hends _ (first_stop_ge inp v)).
    rewrite filter_app. cbn [filter]. rewrite (Hends _ (last_stop_ge inp v)). reflexivity.
  - apply Forall_forall. intros x Hx. apply filter_In in Hx. rewrite Forall_forall in Hmid.
    exact (Hmid x (proj1 Hx)).
Qed.

(* the bookkeeping loops of the vehicle un-plan *)
Definition unbook (units : list nat) (s : state) : state :=
  fold_left (fun st u => with_colls st (coll_remove u (st_planned st)) (coll_add u (st_unplanned st))
                                    (st_fixed st)) units s.
Definition rebook (units : list nat) (s : state) : state :=
  fold_left (fun st u => with_colls st (coll_add u (st_planned st)) (coll_remove u (st_unplanned st))
                                    (st_fixed st)) units s.

Lemma unbook_cons (u : nat) (units : list nat) (s : state) :
  unbook (u :: units) s
  = unbook units (with_colls s (coll_remove u (st_planned s)) (coll_add u (st_unplanned s)) (st_fixed s)).
Proof. reflexivity. Qed.
Lemma rebook_cons (u : nat) (units : list nat) (s : state) :
  rebook (u :: units) s
  = rebook units (with_colls s (coll_add u (st_planned s)) (coll_remove u (st_unplanned s)) (st_fixed s)).
Proof. reflexivity. Qed.

Lemma unbook_spec (units : list nat) : forall s,
  st_routes (unbook units s) = st_routes s /\ st_fixed (unbook units s) = st_fixed s /\
  (forall x, In x (st_planned (unbook units s)) <-> In x (st_planned s) /\ ~ In x units) /\
  (forall x, In x (st_unplanned (unbook units s)) <-> In x (st_unplanned s) \/ In x units) /\
  (NoDup (st_planned s) -> NoDup (st_planned (unbook units s))) /\
  (NoDup (st_unplanned s) -> NoDup (st_unplanned (unbook units s))).
Proof.
  induction units as [|u units IH]; intros s.
  - cbn. repeat split; tauto.
  - rewrite unbook_cons.
    match goal with |- context [unbook units ?a] => destruct (IH a) as (A & B & C & D & E & F) end.
    unfold with_colls in A, B, C, D, E, F. cbn [st_routes st_planned st_unplanned st_fixed] in A, B, C, D, E, F.
    split; [exact A|]. split; [exact B|]. split; [|split; [|split]].
    + intros x. rewrite C, In_coll_remove. cbn [In]. intuition congruence.
    + intros x. rewrite D, In_coll_add. cbn [In]. intuition congruence.
    + intros H. apply E. apply NoDup_coll_remove. exact H.
    + intros H. apply F. apply NoDup_coll_add. exact H.
Qed.

Lemma rebook_spec (units : list nat) : forall s,
  st_routes (rebook units s) = st_routes s /\ st_fixed (rebook units s) = st_fixed s /\
  (forall x, In x (st_planned (rebook units s)) <-> In x (st_planned s) \/ In x units) /\
  (forall x, In x (st_unplanned (rebook units s)) <-> In x (st_unplanned s) /\ ~ In x units) /\
  (NoDup (st_planned s) -> NoDup (st_planned (rebook units s))) /\
  (NoDup (st_unplanned s) -> NoDup (st_unplanned (rebook units s))).
Proof.
  induction units as [|u units IH]; intros s.
  - cbn. repeat split; tauto.
  - rewrite rebook_cons.
    match goal with |- context [rebook units ?a] => destruct (IH a) as (A & B & C & D & E & F) end.
    unfold with_colls in A, B, C, D, E, F. cbn [st_routes st_planned st_unplanned st_fixed] in A, B, C, D, E, F.
    split; [exact A|]. split; [exact B|]. split; [|split; [|split]].
    + intros x. rewrite C, In_coll_add. cbn [In]. intuition congruence.
    + intros x. rewrite D, In_coll_remove. cbn [In]. intuition congruence.
    + intros H. apply E. apply NoDup_coll_add. exact H.
    + intros H. apply F. apply NoDup_coll_remove. exact H.
Qed.

(* the stops the un-plan of vehicle v takes off the route *)
Definition vinner (gi : ginput) (s : state) (v : nat) : list nat :=
  filter (fun x => is_input_stop (gi_inp gi) x && negb (unit_fixed gi (unit_of_stop (gi_inp gi) x)))
         (filter (fun x => negb (stop_fixed gi x)) (route_stops (get_route s v))).

Lemma g_unplan_vehicle_eq (gi : ginput) (s : state) (v : nat) :
  g_unplan_vehicle gi s v =
  let inp := gi_inp gi in
  let old_stops := route_stops (get_route s v) in
  let inner := vinner gi s v in
  match inner with
  | [] => (s, NotExecutable)
  | _ =>
      let units := map (unit_of_stop inp) inner in
      let s1 := unbook units s in
      let new_stops := filter (fun x => negb (mem_nat x inner)) old_stops in
      let idx := index_in (hd 0 inner) old_stops - 1 in
      match g_is_feasible gi s1 v idx new_stops true with
      | inl s2 => (s2, Done)
      | inr k =>
          let s2 := rebook units s1 in
          match g_is_feasible gi (with_colls s (st_planned s2) (st_unplanned s2) (st_fixed s2))
                              v idx old_stops true with
          | inl s3 => (s3, Rejected k)
          | inr _ => (s2, UndoFailed)
          end
      end
  end.
Proof. reflexivity. Qed.

Section Vehicle.
  Variable gi : ginput.
  Hypothesis Hwf : wf_input (gi_inp gi).
  Hypothesis Hwg : wf_ginput_fixed gi.
  Local Notation inp := (gi_inp gi).

  Lemma vinner_iff (s : state) (v x : nat) :
    In x (vinner gi s v) <->
    In x (route_stops (get_route s v)) /\ x < nstops inp /\
    unit_fixed gi (unit_of_stop inp x) = false.
  Proof.
    unfold vinner. rewrite !filter_In, andb_true_iff, !negb_true_iff.
    unfold is_input_stop. rewrite Nat.ltb_lt. split; [tauto|].
    intros (A & B & C). split; [split; [exact A|]|tauto].
    destruct (stop_in_unit inp x Hwf B) as (u & Hu & Hxu).
    rewrite (unit_of_stop_eq inp u x Hwf Hu Hxu) in C.
    exact (unit_fixed_false_stop gi u x C Hxu).
  Qed.

  Lemma FCore_unplan_vehicle (s s' : state) (v : nat) (r : result) :
    FCore gi s -> g_unplan_vehicle gi s v = (s', r) ->
    r <> UndoFailed /\ FCore gi s' /\ (r <> Done -> st_routes s' = st_routes s) /\
    (r = NotExecutable -> s' = s) /\
    (r = Done ->
       route_stops (get_route s' v)
       = filter (fun x => negb (mem_nat x (vinner gi s v))) (route_stops (get_route s v)) /\
       forall w, w <> v -> get_route s' w = get_route s w).
  Proof.
    intros HF Hex. pose proof HF as (Hok & Hcp & Hfe & Hfh & Hfree & Hsc).
    rewrite g_unplan_vehicle_eq in Hex. cbv zeta in Hex.
    destruct (vinner gi s v) as [|x0 rest] eqn:Ein.
    { injection Hex as <- <-. split; [discriminate|]. split; [exact HF|].
      split; [reflexivity|]. split; [reflexivity|discriminate]. }
    cbv iota in Hex. rewrite <- Ein in Hex.
    pose proof Hok as (Hc & Hf & Hnd & Hper & Ht).
    assert (HRS : RS inp s) by (apply routes_ok_RS in Hok; exact (proj1 Hok)).
    pose proof Hc as (Hlen & Hc').
    set (old := route_stops (get_route s v)) in *.
    set (inner := vinner gi s v) in *.
    set (units := map (unit_of_stop inp) inner) in *.
    set (keep := fun x : nat => negb (mem_nat x inner)) in *.
    assert (F1 : forall x, In x inner <-> In x old /\ x < nstops inp /\
                                          unit_fixed gi (unit_of_stop inp x) = false)
      by (intros x; apply vinner_iff).
    assert (Hx0 : In x0 inner) by (rewrite Ein; left; reflexivity).
    assert (Hv : v < nveh inp).
    { destruct (Nat.lt_ge_cases v (nveh inp)) as [H|H]; [exact H|exfalso].
      apply F1 in Hx0. destruct Hx0 as (Hx0 & _). unfold old, get_route in Hx0.
      rewrite nth_overflow in Hx0 by (rewrite Hlen; exact H). destruct Hx0. }
    destruct (Hc' v Hv) as (Hshape_old & Hcache).
    assert (Hkeep_iff : forall x, keep x = true <-> ~ In x inner).
    { intros x. unfold keep. rewrite negb_true_iff. apply mem_nat_false. }
    assert (F2 : forall x, nstops inp <= x -> keep x = true).
    { intros x Hx. apply Hkeep_iff. intros H. apply F1 in H. lia. }
    assert (F3' : forall u x y, u < nunits inp -> In x (iu_stops (get_unit inp u)) ->
                    In y (iu_stops (get_unit inp u)) -> In x inner -> In y inner).
    { intros u x y Hu Hx Hy Hin. apply F1 in Hin. destruct Hin as (Hon & _ & Hfx).
      rewrite (unit_of_stop_eq inp u x Hwf Hu Hx) in Hfx.
      destruct (RS_unit_on inp s u x v Hwf HRS Hu Hv Hx Hon) as (_ & Hall & _).
      apply F1. split; [exact (Hall y Hy)|]. split; [exact (unit_stops_lt inp u y Hwf Hu Hy)|].
      rewrite (unit_of_stop_eq inp u y Hwf Hu Hy). exact Hfx. }
    assert (F3 : forall u x y, u < nunits inp -> In x (iu_stops (get_unit inp u)) ->
                   In y (iu_stops (get_unit inp u)) -> keep x = keep y).
    { intros u x y Hu Hx Hy. apply eq_true_iff_eq. rewrite !Hkeep_iff.
      split; intros H H'; apply H; [exact (F3' u y x Hu Hy Hx H')|exact (F3' u x y Hu Hx Hy H')]. }
    (* the units taken off *)
    assert (F4 : forall m, In m units ->
                   m < nunits inp /\ unit_fixed gi m = false /\ unit_planned inp s m = true /\
                   (forall y, In y (iu_stops (get_unit inp m)) -> In y inner /\ In y old)).
    { intros m Hm. unfold units in Hm. apply in_map_iff in Hm. destruct Hm as (x & <- & Hx).
      pose proof (proj1 (F1 x) Hx) as (Hon & Hlt & Hfx).
      destruct (stop_in_unit inp x Hwf Hlt) as (u & Hu & Hxu).
      rewrite (unit_of_stop_eq inp u x Hwf Hu Hxu) in *.
      destruct (RS_unit_on inp s u x v Hwf HRS Hu Hv Hxu Hon) as (Hpl & Hall & _).
      split; [exact Hu|]. split; [exact Hfx|]. split; [exact Hpl|].
      intros y Hy. split; [exact (F3' u x y Hu Hxu Hy Hx)|exact (Hall y Hy)]. }
    assert (F5 : forall m x, m < nunits inp -> In x (iu_stops (get_unit inp m)) -> In x inner ->
                   In m units).
    { intros m x Hm Hx Hin. unfold units. apply in_map_iff. exists x. split; [|exact Hin].
      exact (unit_of_stop_eq inp m x Hwf Hm Hx). }
    (* the prefix in front of the first stop taken off *)
    assert (Hpre : exists pre post, old = pre ++ x0 :: post /\ pre <> [] /\
                     (forall y, In y pre -> keep y = true) /\ ~ In x0 pre).
    { pose proof Ein as Ein'. unfold inner, vinner in Ein'. rewrite filter_filter' in Ein'.
      destruct (filter_hd_split _ _ _ _ Ein') as (pre & post & Hsplit & Hpre & Hx0t & _).
      exists pre, post. fold old in Hsplit. split; [exact Hsplit|]. split; [|split].
      - intros ->. destruct Hshape_old as (mid & Hold & _). fold old in Hold.
        rewrite Hold in Hsplit. cbn [app] in Hsplit. injection Hsplit as Hfirst _.
        apply F1 in Hx0. pose proof (first_stop_ge inp v). lia.
      - intros y Hy. apply Hkeep_iff. intros Hin. unfold inner, vinner in Hin.
        rewrite filter_filter' in Hin. apply filter_In in Hin. rewrite (Hpre y Hy) in Hin.
        destruct Hin; discriminate.
      - intros Hin. rewrite (Hpre x0 Hin) in Hx0t. discriminate. }
    destruct Hpre as (pre & post & Hsplit & Hprene & Hprekeep & Hx0pre).
    set (idx := index_in (hd 0 inner) old - 1) in *.
    assert (Hidx : S idx = length pre).
    { unfold idx. rewrite Ein. cbn [hd]. rewrite Hsplit, (index_in_first x0 pre post Hx0pre).
      destruct pre; [congruence|]. cbn [length]. lia. }
    set (new := filter keep old) in *.
    assert (Hfirstn : firstn (S idx) new = firstn (S idx) old).
    { rewrite Hidx. unfold new. rewrite Hsplit, filter_app, (filter_all_true keep pre Hprekeep).
      rewrite !firstn_length_app. reflexivity. }
    assert (Hshape : route_shape inp v new) by exact (filter_shape inp v keep old Hshape_old F2).
    destruct (unbook_spec units s) as (U1 & U2 & U3 & U4 & U5 & U6).
    set (s1 := unbook units s) in *.
    destruct Hcp as (Hndp & Hndu & Hndf & D1 & D2 & D3 & Hcov).
    assert (Hunits_pl : forall m, In m units -> In m (st_planned s)).
    { intros m Hm. destruct (F4 m Hm) as (A & B & C & _). apply (Hfree m A B). exact C. }
    pose proof (g_is_feasible_proj gi s1 s1 v idx new true eq_refl) as P1.
    destruct (g_is_feasible gi s1 v idx new true) as [s2|k] eqn:E1.
    - (* Done *)
      destruct (is_feasible inp s1 v idx new true) as [b2|k'] eqn:Eb; [|contradiction].
      destruct P1 as (Pr & Pp & Pu & Pf). injection Hex as <- <-.
      destruct (update_ok inp s s1 b2 v idx new Hc Hf Hv U1 Hshape Hfirstn Eb)
        as (_ & Hr2 & _ & Hf2 & _).
      rewrite <- Pr in Hr2.
      destruct (RS_filter inp s s2 v keep Hwf HRS Hv F2 F3 Hr2) as (HRS2 & Hgv & Hgo).
      assert (Hok2 : routes_ok inp s2).
      { apply routes_ok_RS. split; [exact HRS2|]. exact (feasible_ext inp b2 s2 Pr Hf2). }
      pose proof (proj1 HRS2) as Hc2.
      assert (Hin2 : forall w x, In x (route_stops (get_route s2 w)) <->
                                 In x (route_stops (get_route s w)) /\ (w = v -> keep x = true)).
      { intros w x. destruct (Nat.eq_dec w v) as [->|Hne].
        - rewrite Hgv. fold old. rewrite filter_In. tauto.
        - rewrite (Hgo w Hne). tauto. }
      assert (Hpl2 : forall m, m < nunits inp ->
                (unit_planned inp s2 m = true <-> unit_planned inp s m = true /\ ~ In m units)).
      { intros m Hm. rewrite !unit_planned_iff. split.
        - intros (Hne & Hon). split; [split; [exact Hne|]|].
          + intros x Hx. specialize (Hon x Hx). apply (on_route_iff inp s2 x Hc2) in Hon.
            destruct Hon as (w & Hw & Hin). apply Hin2 in Hin.
            apply (on_route_iff inp s x Hc). exists w. tauto.
          + intros Hmu. destruct (nonempty_has_elem _ Hne) as (x & Hx).
            destruct (F4 m Hmu) as (_ & _ & _ & Hall). destruct (Hall x Hx) as (Hxin & Hxold).
            specialize (Hon x Hx). apply (on_route_iff inp s2 x Hc2) in Hon.
            destruct Hon as (w & Hw & Hin). apply Hin2 in Hin. destruct Hin as (Hin & Hk).
            destruct (RS_unit_on inp s m x v Hwf HRS Hm Hv Hx Hxold) as (_ & _ & Huniq).
            pose proof (Huniq x w Hx Hw Hin) as ->. specialize (Hk eq_refl).
            apply Hkeep_iff in Hk. exact (Hk Hxin).
        - intros ((Hne & Hon) & Hmu). split; [exact Hne|]. intros x Hx.
          specialize (Hon x Hx). apply (on_route_iff inp s x Hc) in Hon. destruct Hon as (w & Hw & Hin).
          apply (on_route_iff inp s2 x Hc2). exists w. split; [exact Hw|]. apply Hin2.
          split; [exact Hin|]. intros _. apply Hkeep_iff. intros Hxin. apply Hmu.
          exact (F5 m x Hm Hx Hxin). }
      split; [discriminate|]. split; [|split; [congruence|split; [discriminate|]]].
      2:{ intros _. split; [rewrite Hgv; unfold keep; rewrite Ein; reflexivity|exact Hgo]. }
      apply (FCore_transfer gi s s2 Hwf HF Hok2 (proj2 (proj2 (proj2 (g_is_feasible_inl gi _ _ _ _ _ _ E1))))).
      + rewrite Pf. exact U2.
      + rewrite Pp. exact (U5 Hndp).
      + rewrite Pu. exact (U6 Hndu).
      + intros u0 w y Hin0 Hw Hy Hon. apply Hin2. split; [exact Hon|]. intros _.
        apply Hkeep_iff. intros Hyin. apply Hfe in Hin0. destruct Hin0 as (Hu0 & Hf0).
        apply F1 in Hyin. destruct Hyin as (_ & _ & Hff).
        rewrite (unit_of_stop_eq inp u0 y Hwf Hu0 Hy) in Hff. congruence.
      + intros m Hm Hfm. rewrite Pp, Pu, U3, U4, (Hpl2 m Hm).
        rewrite (proj1 (Hfree m Hm Hfm)), (free_unplanned_iff gi s m Hwf HF Hm Hfm).
        split; [tauto|]. rewrite <- (not_true_iff_false (unit_planned inp s2 m)), (Hpl2 m Hm).
        destruct (unit_planned inp s m); destruct (in_dec Nat.eq_dec m units); intuition congruence.
      + intros m H. rewrite Pp, Pu, U3, U4 in H. destruct H as [(H & _)|[H|H]].
        * exact (colls_dom gi s m HF (or_introl H)).
        * exact (colls_dom gi s m HF (or_intror H)).
        * destruct (F4 m H) as (A & B & _). split; assumption.
    - (* rejected: the old stops are put back *)
      destruct (is_feasible inp s1 v idx new true) as [b2|k'] eqn:Eb; [contradiction|]. subst k'.
      destruct (rebook_spec units s1) as (R1 & R2 & R3 & R4 & R5 & R6).
      set (s2r := rebook units s1) in *.
      set (sc := with_colls s (st_planned s2r) (st_unplanned s2r) (st_fixed s2r)) in *.
      assert (Hrc : st_routes sc = st_routes s) by reflexivity.
      pose proof (g_is_feasible_proj gi sc s v idx old true Hrc) as P2.
      destruct (rollback_ok inp s s v idx Hc Hf Hv eq_refl) as (Hrb & Hrr).
      fold old in Hrb. rewrite Hrb in P2.
      destruct (g_is_feasible gi sc v idx old true) as [s3|k2] eqn:E2; [|contradiction].
      destruct P2 as (Pr & Pp & Pu & Pf). injection Hex as <- <-.
      rewrite Hrr in Pr.
      split; [discriminate|]. split; [|split; [intros _; exact Pr|split; discriminate]].
      apply (FCore_same gi s s3 Hwf HF Pr (proj2 (proj2 (proj2 (g_is_feasible_inl gi _ _ _ _ _ _ E2))))).
      + rewrite Pf. unfold sc, with_colls. cbn [st_fixed]. rewrite R2. exact U2.
      + rewrite Pp. unfold sc, with_colls. cbn [st_planned]. exact (R5 (U5 Hndp)).
      + rewrite Pu. unfold sc, with_colls. cbn [st_unplanned]. exact (R6 (U6 Hndu)).
      + intros m. rewrite Pp. unfold sc, with_colls. cbn [st_planned]. rewrite R3, U3.
        destruct (in_dec Nat.eq_dec m units) as [Hi|Hn]; [|tauto].
        pose proof (Hunits_pl m Hi). tauto.
      + intros m. rewrite Pu. unfold sc, with_colls. cbn [st_unplanned]. rewrite R4, U4.
        split; [tauto|]. intros H. split; [left; exact H|]. intros Hi.
        exact (D1 m (Hunits_pl m Hi) H).
  Qed.

  (* fixed units keep ALL their stops, flagged or not *)
  Lemma unplan_vehicle_keeps_fixed (s s' : state) (v : nat) (r : result) :
    FCore gi s -> g_unplan_vehicle gi s v = (s', r) ->
    forall u y w, u < nunits inp -> unit_fixed gi u = true ->
      In y (iu_stops (get_unit inp u)) ->
      In y (route_stops (get_route s w)) -> In y (route_stops (get_route s' w)).
  Proof.
    intros HF Hex u y w Hu Hfx Hy Hon.
    destruct (FCore_unplan_vehicle s s' v r HF Hex) as (_ & _ & Hrb & _ & Hd).
    destruct r as [|k| |]; try (rewrite (get_route_ext s s' w (Hrb ltac:(discriminate))); exact Hon).
    destruct (Hd eq_refl) as (Hgv & Hgo). destruct (Nat.eq_dec w v) as [->|Hne].
    - rewrite Hgv. apply filter_In. split; [exact Hon|]. apply negb_true_iff, mem_nat_false.
      intros Hin. apply vinner_iff in Hin. destruct Hin as (_ & _ & Hff).
      rewrite (unit_of_stop_eq inp u y Hwf Hu Hy) in Hff. congruence.
    - rewrite (Hgo w Hne). exact Hon.
  Qed.

End Vehicle.

(* ================================================================== *)
(* Part 3.  The start solution                                         *)
(* ================================================================== *)

(* ---- 3.1 lists: dedup_nat, the gaps of the initial stops -------------- *)

Lemma In_dedup_nat (l : list nat) (x : nat) : In x (dedup_nat l) <-> In x l.
Proof.
  induction l as [|a l IH]; [tauto|]. cbn [dedup_nat In]. rewrite filter_In, IH, negb_true_iff, Nat.eqb_neq.
  destruct (Nat.eq_dec a x); tauto.
Qed.

Lemma NoDup_dedup_nat (l : list nat) : NoDup (dedup_nat l).
Proof.
  induction l as [|a l IH]; [constructor|]. cbn [dedup_nat]. constructor.
  - intros H. apply filter_In in H. destruct H as (_ & H). rewrite Nat.eqb_refl in H. discriminate.
  - apply NoDup_filter. exact IH.
Qed.

Lemma Forall_HdRel_le (a : nat) (l : list nat) : Forall (fun k => a <= k) l -> HdRel le a l.
Proof. intros H. destruct l; constructor. inversion H; assumption. Qed.

(* the gaps place_units computes: non-decreasing, between 1 and 1 + the number
   of listed stops already on the route *)
Lemma pb_sorted (on f : nat -> bool) (ini : list nat) :
  NoDup ini ->
  forall (l pre : list nat), ini = pre ++ l ->
    let g := fun x => S (length (filter on (firstn (index_in x ini) ini))) in
    Sorted le (map g (filter f l)) /\
    Forall (fun k => S (length (filter on pre)) <= k /\ k <= S (length (filter on ini)))
           (map g (filter f l)).
Proof.
  intros Hnd. induction l as [|a l IH]; intros pre Hini g.
  - cbn. split; constructor.
  - assert (Hini' : ini = (pre ++ [a]) ++ l) by (rewrite <- app_assoc; exact Hini).
    destruct (IH (pre ++ [a]) Hini') as (Hs & Hb). fold g in Hs, Hb.
    assert (Hb' : Forall (fun k => S (length (filter on pre)) <= k /\ k <= S (length (filter on ini)))
                         (map g (filter f l))).
    { eapply Forall_impl; [|exact Hb]. cbv beta. intros k (A & B). split; [|exact B].
      rewrite filter_app, app_length in A. lia. }
    cbn [filter]. destruct (f a); [|split; assumption].
    assert (Hga : g a = S (length (filter on pre))).
    { unfold g. assert (Hna : ~ In a pre).
      { rewrite Hini in Hnd. apply NoDup_app_iff in Hnd. destruct Hnd as (_ & _ & Hd).
        intros H. exact (Hd a H (or_introl eq_refl)). }
      rewrite Hini at 1 2. rewrite (index_in_first a pre l Hna), firstn_length_app. reflexivity. }
    cbn [map]. split.
    + constructor; [exact Hs|]. apply Forall_HdRel_le. rewrite Hga.
      eapply Forall_impl; [|exact Hb']. cbv beta. intros k (A & _). exact A.
    + constructor; [|exact Hb']. rewrite Hga. split; [lia|].
      rewrite Hini, filter_app, app_length. lia.
Qed.

(* inserting stops at sorted gaps inside the route keeps the shape *)
Lemma insert_shape (inp : input) (v : nat) (old : list nat) (places : list (nat * nat)) :
  route_shape inp v old -> places <> [] -> Sorted le (map snd places) ->
  Forall (fun g => 1 <= g /\ g <= length old - 1) (map snd places) ->
  Forall (fun x => x < nstops inp) (map fst places) ->
  route_shape inp v (insert_places 0 old places) /\
  firstn (S (first_gap places - 1)) (insert_places 0 old places)
  = firstn (S (first_gap places - 1)) old /\
  Permutation (insert_places 0 old places) (old ++ map fst places) /\
  Permutation (removelast (tl (insert_places 0 old places)))
              (removelast (tl old) ++ map fst places).
Proof.
  intros (mid & Hold & Hmid) Hne Hsorted Hgaps Hlt.
  assert (Hlenold : length old = S (length mid + 1)).
  { rewrite Hold. cbn [length]. rewrite app_length. cbn [length]. lia. }
  assert (Hg : Forall (fun p => 1 <= snd p /\ snd p <= 1 + length mid) places).
  { rewrite Forall_map in Hgaps. eapply Forall_impl; [|exact Hgaps]. cbv beta. intros p. rewrite Hlenold. lia. }
  destruct (insert_places_last mid 1 places (last_stop inp v)) as (mid' & Hins & Hpm).
  { eapply Forall_impl; [|exact Hg]. cbv beta; intros; lia. }
  assert (Hnew : insert_places 0 old places = first_stop inp v :: mid' ++ [last_stop inp v]).
  { rewrite Hold. rewrite insert_places_head; [rewrite Hins; reflexivity|].
    eapply Forall_impl; [|exact Hg]. cbv beta; intros; lia. }
  split; [|split; [|split]].
  - exists mid'. split; [exact Hnew|]. apply (Permutation_Forall (Permutation_sym Hpm)).
    apply Forall_app. split; assumption.
  - assert (Hfg : 1 <= first_gap places /\ first_gap places <= 1 + length mid).
    { destruct places as [|[x g] rest]; [congruence|]. inversion Hg; subst. cbn in *. assumption. }
    replace (S (first_gap places - 1)) with (first_gap places) by lia.
    apply insert_places_firstn; [lia|]. cbn [Nat.add]. apply first_gap_le_all. exact Hsorted.
  - apply insert_places_perm.
  - rewrite Hnew, Hold. cbn [tl]. rewrite !removelast_snoc. exact Hpm.
Qed.

Lemma fold_left_ext' {A B} (f g : A -> B -> A) (l : list B) :
  (forall a b, f a b = g a b) -> forall a, fold_left f l a = fold_left g l a.
Proof. intros H. induction l as [|b l IH]; intros a; [reflexivity|]. cbn [fold_left]. rewrite H. apply IH. Qed.

(* ---- 3.2 first_violation, the walk back ------------------------------- *)

Lemma first_violation_bound (inp : input) (v : nat) (t : bool) :
  forall (rest : list nat) (p : cell) (pos q : nat),
    first_violation inp v t p rest pos = Some q -> pos <= q /\ q < pos + length rest.
Proof.
  induction rest as [|x rest IH]; intros p pos q H; cbn [first_violation] in H; [discriminate|].
  destruct (stop_violation inp v t (next_cell inp v p x)).
  - injection H as <-. cbn [length]. lia.
  - apply IH in H. cbn [length]. lia.
Qed.

Lemma first_violation_none (inp : input) (v : nat) (t : bool) :
  forall (rest : list nat) (p : cell) (pos : nat),
    first_violation inp v t p rest pos = None ->
    Forall (fun c => stop_violation inp v t c = None) (cells_from inp v p rest).
Proof.
  induction rest as [|x rest IH]; intros p pos H; cbn [first_violation cells_from] in *; [constructor|].
  destruct (stop_violation inp v t (next_cell inp v p x)) eqn:E; [discriminate|].
  constructor; [exact E|]. exact (IH _ _ H).
Qed.

Definition back_walk (gi : ginput) (stops : list nat) : nat -> nat -> option nat :=
  fix back (k : nat) (p : nat) : option nat :=
    match k with
    | O => None
    | S k' =>
        if Nat.eqb p 0 then None
        else
          let x := nth p stops 0 in
          if is_last_stop (gi_inp gi) x || top_fixed gi (top_of gi (unit_of_stop (gi_inp gi) x))
          then back k' (p - 1) else Some p
    end.

Lemma back_walk_S (gi : ginput) (stops : list nat) (k p : nat) :
  back_walk gi stops (S k) p =
  if Nat.eqb p 0 then None
  else if is_last_stop (gi_inp gi) (nth p stops 0)
          || top_fixed gi (top_of gi (unit_of_stop (gi_inp gi) (nth p stops 0)))
       then back_walk gi stops k (p - 1) else Some p.
Proof. reflexivity. Qed.

Lemma back_walk_some (gi : ginput) (stops : list nat) :
  forall (k p q : nat), back_walk gi stops k p = Some q ->
    1 <= q /\ q <= p /\
    is_last_stop (gi_inp gi) (nth q stops 0) = false /\
    top_fixed gi (top_of gi (unit_of_stop (gi_inp gi) (nth q stops 0))) = false.
Proof.
  induction k as [|k IH]; intros p q H; [discriminate|]. rewrite back_walk_S in H.
  destruct (Nat.eqb p 0) eqn:Ep; [discriminate|]. apply Nat.eqb_neq in Ep.
  destruct (is_last_stop (gi_inp gi) (nth p stops 0)
            || top_fixed gi (top_of gi (unit_of_stop (gi_inp gi) (nth p stops 0)))) eqn:E.
  - apply IH in H. destruct H as (A & B & C). split; [exact A|]. split; [lia|exact C].
  - injection H as <-. apply orb_false_iff in E. split; [lia|]. split; [lia|exact E].
Qed.

(* the detach loop of prune_route *)
Definition prune_step (gi : ginput) (v : nat) (s : state) (gone : list nat) : state :=
  fold_left (fun st w =>
     if Nat.eqb w v
     then set_route st w (from_scratch (gi_inp gi) w
                            (filter (fun x => negb (mem_nat x gone)) (route_stops (get_route st w))))
     else set_route st w (filter (fun c => negb (mem_nat (c_stop c) gone)) (get_route st w)))
    (seqn (length (st_routes s))) s.

Lemma prune_route_S (fuel : nat) (gi : ginput) (v : nat) (s : state) (infeasible : list nat) :
  prune_route (S fuel) gi v s infeasible =
  let inp := gi_inp gi in
  let r := get_route s v in
  let stops := route_stops r in
  match first_violation inp v true (hd (last_cell r) r) (tl stops) 1 with
  | None => InitOk s infeasible
  | Some pos =>
      match back_walk gi stops (S pos) pos with
      | None => InitError
      | Some p =>
          let root := top_of gi (unit_of_stop inp (nth p stops 0)) in
          let gone := flat_map (fun m => if unit_planned inp s m then iu_stops (get_unit inp m) else [])
                               (members_of gi root) in
          prune_route fuel gi v (prune_step gi v s gone) (coll_add root infeasible)
      end
  end.
Proof. reflexivity. Qed.

Definition place_places (inp : input) (initial on_route : list nat) (u : nat) : list (nat * nat) :=
  map (fun x => (x, S (length (filter (fun y => mem_nat y on_route)
                                      (firstn (index_in x initial) initial)))))
      (filter (fun x => mem_nat x (iu_stops (get_unit inp u))) initial).

Lemma place_units_cons (gi : ginput) (v : nat) (initial : list nat) (u : nat) (rest : list nat)
      (s : state) (inf : list nat) :
  place_units gi v initial (u :: rest) s inf =
  let on_route := route_stops (get_route s v) in
  let places := place_places (gi_inp gi) initial on_route u in
  if nontemporal_estimate_violated (gi_inp gi) s (mkMove u v places) then
    (if top_fixed gi (top_of gi u) then InitError
     else place_units gi v initial rest s (coll_add (top_of gi u) inf))
  else
    match g_is_feasible gi s v (first_gap places - 1) (insert_places 0 on_route places) false with
    | inl s' => place_units gi v initial rest s' inf
    | inr _ => if unit_fixed gi u then InitError
               else place_units gi v initial rest s (coll_add (top_of gi u) inf)
    end.
Proof. reflexivity. Qed.

(* ---- 3.3 one route replaced through g_is_feasible, any pass ----------- *)

Lemma fold_set_route (G : nat -> list cell -> list cell) :
  forall (n : nat) (s : state), n <= length (st_routes s) ->
    let s' := fold_left (fun st w => set_route st w (G w (get_route st w))) (seqn n) s in
    length (st_routes s') = length (st_routes s) /\
    st_planned s' = st_planned s /\ st_unplanned s' = st_unplanned s /\ st_fixed s' = st_fixed s /\
    forall w, get_route s' w = if w <? n then G w (get_route s w) else get_route s w.
Proof.
  induction n as [|n IH]; intros s Hn; cbn [seqn].
  - cbn. repeat split.
  - rewrite fold_left_app. cbn [fold_left].
    destruct (IH s ltac:(lia)) as (L & P & U & F & R).
    set (s1 := fold_left (fun st w => set_route st w (G w (get_route st w))) (seqn n) s) in *.
    cbv zeta. split; [|split; [exact P|split; [exact U|split; [exact F|]]]].
    + cbn [set_route st_routes]. rewrite length_set_nth. exact L.
    + intros w. destruct (Nat.eq_dec w n) as [->|Hne].
      * rewrite (get_route_upd_eq s1 (set_route s1 n (G n (get_route s1 n))) n
                   (G n (get_route s1 n)) eq_refl) by lia.
        rewrite R, Nat.ltb_irrefl. rewrite (proj2 (Nat.ltb_lt n (S n))) by lia. reflexivity.
      * rewrite (get_route_upd_neq s1 (set_route s1 n (G n (get_route s1 n))) n w
                   (G n (get_route s1 n)) eq_refl Hne), R.
        destruct (Nat.ltb_spec w n), (Nat.ltb_spec w (S n)); try reflexivity; lia.
Qed.

Section Start.
  Variable gi : ginput.
  Hypothesis Hwf : wf_input (gi_inp gi).
  Hypothesis Hwg : wf_ginput_fixed gi.
  Local Notation inp := (gi_inp gi).

  Lemma g_feasible_update (s s2 : state) (v idx : nat) (new : list nat) (t : bool) :
    caches_ok inp s -> v < nveh inp -> route_shape inp v new ->
    firstn (S idx) new = firstn (S idx) (route_stops (get_route s v)) ->
    g_is_feasible gi s v idx new t = inl s2 ->
    st_routes s2 = set_nth (st_routes s) v (from_scratch inp v new) /\
    st_planned s2 = st_planned s /\ st_unplanned s2 = st_unplanned s /\ st_fixed s2 = st_fixed s /\
    scores_fresh gi s2.
  Proof.
    intros Hc Hv Hshape Hpre E. pose proof Hc as (_ & Hc'). destruct (Hc' v Hv) as (_ & Hcache).
    destruct (g_is_feasible_inl gi s s2 v idx new t E) as (A & B & C & D).
    pose proof (g_is_feasible_proj gi s s v idx new t eq_refl) as P. rewrite E in P.
    destruct (is_feasible inp s v idx new t) as [b|k] eqn:Eb; [|contradiction].
    destruct (is_feasible_spec inp s v idx _ new t Hcache (route_shape_ne inp v _ Hshape) Hpre)
      as (Hspec & _).
    destruct (Hspec b Eb) as (Hb & _). destruct P as (Pr & _).
    split; [rewrite Pr, Hb; reflexivity|]. split; [exact A|]. split; [exact B|]. split; [exact C|exact D].
  Qed.

  Lemma prune_step_routes (s : state) (v : nat) (gone : list nat) :
    caches_ok inp s -> v < nveh inp ->
    (forall w c, w < nveh inp -> w <> v -> In c (get_route s w) -> ~ In (c_stop c) gone) ->
    st_routes (prune_step gi v s gone)
    = set_nth (st_routes s) v
        (from_scratch inp v (filter (fun x => negb (mem_nat x gone)) (route_stops (get_route s v)))) /\
    st_planned (prune_step gi v s gone) = st_planned s /\
    st_unplanned (prune_step gi v s gone) = st_unplanned s /\
    st_fixed (prune_step gi v s gone) = st_fixed s.
  Proof.
    intros (Hlen & _) Hv Hclean. unfold prune_step.
    set (G := fun (w : nat) (r : list cell) =>
                if Nat.eqb w v
                then from_scratch inp w (filter (fun x => negb (mem_nat x gone)) (route_stops r))
                else filter (fun c => negb (mem_nat (c_stop c) gone)) r).
    rewrite (fold_left_ext' _ (fun st w => set_route st w (G w (get_route st w)))).
    2:{ intros a b. unfold G. destruct (Nat.eqb b v); reflexivity. }
    destruct (fold_set_route G (length (st_routes s)) s (le_n _)) as (L & P & U & F & R).
    set (s' := fold_left (fun st w => set_route st w (G w (get_route st w)))
                         (seqn (length (st_routes s))) s) in *.
    split; [|split; [exact P|split; [exact U|exact F]]].
    apply (nth_ext _ _ [] []); [rewrite length_set_nth; exact L|].
    intros w Hw. rewrite L in Hw. change (nth w (st_routes s') []) with (get_route s' w).
    rewrite R, (proj2 (Nat.ltb_lt _ _) Hw). unfold G.
    destruct (Nat.eqb_spec w v) as [->|Hne].
    - rewrite nth_set_nth_eq by exact Hw. reflexivity.
    - rewrite nth_set_nth_neq by (intros e; apply Hne; symmetry; exact e).
      change (nth w (st_routes s) []) with (get_route s w).
      apply filter_all_true. intros c Hc. apply negb_true_iff, mem_nat_false.
      apply (Hclean w c); [rewrite <- Hlen; exact Hw|exact Hne|exact Hc].
  Qed.

  (* ---- 3.4 the initial stops of one vehicle --------------------------- *)

  Section OneVehicle.
    Variable v : nat.
    Variable sB : state.
    Hypothesis Hv : v < nveh inp.
    Hypothesis HRSB : RS inp sB.
    Hypothesis HoffB : forall x, In x (initial_of gi v) -> stop_on_route sB x = false.
    Hypothesis HemptyB : forall x, x < nstops inp -> ~ In x (route_stops (get_route sB v)).

    Let ini := initial_of gi v.
    Let units := dedup_nat (map (unit_of_stop inp) ini).

    Lemma listed_unit (x : nat) :
      In x ini ->
      unit_of_stop inp x < nunits inp /\ In x (iu_stops (get_unit inp (unit_of_stop inp x))) /\
      In (unit_of_stop inp x) units.
    Proof.
      intros Hx. destruct (stop_in_unit inp x Hwf (listed_lt gi Hwg v x Hx)) as (u & Hu & Hxu).
      rewrite (unit_of_stop_eq inp u x Hwf Hu Hxu). split; [exact Hu|]. split; [exact Hxu|].
      unfold units. apply (proj2 (In_dedup_nat _ _)). apply in_map_iff. exists x. split; [|exact Hx].
      exact (unit_of_stop_eq inp u x Hwf Hu Hxu).
    Qed.

    Lemma units_facts (u : nat) :
      In u units ->
      u < nunits inp /\
      (forall y, In y (iu_stops (get_unit inp u)) -> In y ini) /\
      (forall y, In y (iu_stops (get_unit inp u)) -> stop_on_route sB y = false).
    Proof.
      intros Hu. unfold units in Hu. apply (proj1 (In_dedup_nat _ _)) in Hu. apply in_map_iff in Hu.
      destruct Hu as (x & <- & Hx). destruct (listed_unit x Hx) as (Hlt & Hxu & _).
      split; [exact Hlt|].
      assert (Hall : forall y, In y (iu_stops (get_unit inp (unit_of_stop inp x))) -> In y ini).
      { intros y Hy. exact (listed_whole gi Hwg v _ x y Hlt Hxu Hy Hx). }
      split; [exact Hall|]. intros y Hy. exact (HoffB y (Hall y Hy)).
    Qed.

    Definition PI (s : state) (inf rest : list nat) : Prop :=
      RS inp s /\
      (forall w, w <> v -> get_route s w = get_route sB w) /\
      st_planned s = st_planned sB /\ st_unplanned s = st_unplanned sB /\ st_fixed s = st_fixed sB /\
      (forall x, x < nstops inp ->
         (In x (route_stops (get_route s v)) <->
          exists u, In u units /\ ~ In u rest /\ ~ In u inf /\ In x (iu_stops (get_unit inp u)))) /\
      (forall u, In u inf -> In u units /\ ~ In u rest /\ unit_fixed gi u = false).

    Lemma PI_base : PI sB [] units.
    Proof.
      split; [exact HRSB|]. split; [reflexivity|]. do 3 (split; [reflexivity|]). split.
      - intros x Hx. split; [intros H; exfalso; exact (HemptyB x Hx H)|].
        intros (u & A & B & _). exfalso. exact (B A).
      - intros u [].
    Qed.

    Lemma PI_skip (s : state) (inf rest : list nat) (u : nat) :
      PI s inf (u :: rest) -> NoDup (u :: rest) -> In u units -> unit_fixed gi u = false ->
      PI s (coll_add u inf) rest.
    Proof.
      intros (H1 & H2 & H3 & H4 & H5 & Hd & He) Hnd Hu Hfx.
      split; [exact H1|]. split; [exact H2|]. do 3 (split; [assumption|]). split.
      - intros x Hx. rewrite (Hd x Hx). split; intros (u' & A & B & C & D); exists u';
          (split; [exact A|]); rewrite In_coll_add in *; cbn [In] in *.
        + split; [tauto|]. split; [|exact D]. intros [->|H]; [apply B; left; reflexivity|exact (C H)].
        + split; [|split; [tauto|exact D]]. intros [->|H]; [apply C; left; reflexivity|exact (B H)].
      - intros u0 H. apply In_coll_add in H. destruct H as [->|H].
        + split; [exact Hu|]. split; [|exact Hfx]. inversion Hnd; assumption.
        + destruct (He u0 H) as (A & B & C). split; [exact A|]. split; [|exact C].
          intros H'. apply B. right; exact H'.
    Qed.

    Lemma PI_off (s : state) (inf rest : list nat) (u : nat) :
      PI s inf (u :: rest) -> In u units ->
      forall x, In x (iu_stops (get_unit inp u)) -> stop_on_route s x = false.
    Proof.
      intros (HRS & Hoth & _ & _ & _ & Hd & _) Hu x Hx.
      destruct (units_facts u Hu) as (Hlt & _ & Hoff).
      pose proof (proj1 HRS) as Hc. pose proof (proj1 HRSB) as HcB.
      destruct (stop_on_route s x) eqn:E; [exfalso|reflexivity].
      apply (on_route_iff inp s x Hc) in E. destruct E as (w & Hw & Hin).
      destruct (Nat.eq_dec w v) as [->|Hne].
      - apply (Hd x (unit_stops_lt inp u x Hwf Hlt Hx)) in Hin.
        destruct Hin as (u' & A & B & _ & D).
        destruct (Nat.eq_dec u' u) as [->|Hneu]; [apply B; left; reflexivity|].
        exact (units_disjoint inp u' u x Hwf (proj1 (units_facts u' A)) Hlt Hneu D Hx).
      - rewrite (Hoth w Hne) in Hin.
        exact (off_route_not_in inp sB x w HcB Hw (Hoff x Hx) Hin).
    Qed.

    Lemma place_move_facts (s : state) (inf rest : list nat) (u : nat) :
      PI s inf (u :: rest) -> In u units ->
      let old := route_stops (get_route s v) in
      let places := place_places inp ini old u in
      route_shape inp v (insert_places 0 old places) /\
      firstn (S (first_gap places - 1)) (insert_places 0 old places)
      = firstn (S (first_gap places - 1)) old /\
      Permutation (insert_places 0 old places) (old ++ iu_stops (get_unit inp u)) /\
      Permutation (removelast (tl (insert_places 0 old places)))
                  (removelast (tl old) ++ iu_stops (get_unit inp u)).
    Proof.
      intros HPI Hu old places. pose proof HPI as (HRS & _).
      destruct (units_facts u Hu) as (Hlt & Hlisted & _).
      pose proof (proj1 HRS) as Hc. destruct Hc as (_ & Hc').
      destruct (Hc' v Hv) as (Hshape & _). fold old in Hshape.
      set (us := filter (fun x => mem_nat x (iu_stops (get_unit inp u))) ini).
      set (g := fun x => S (length (filter (fun y => mem_nat y old) (firstn (index_in x ini) ini)))).
      assert (Hfst : map fst places = us).
      { unfold places, place_places. rewrite map_map. cbn [fst]. apply map_id. }
      assert (Hsnd : map snd places = map g us).
      { unfold places, place_places. rewrite map_map. reflexivity. }
      assert (Hperm : Permutation us (iu_stops (get_unit inp u))).
      { apply NoDup_Permutation.
        - apply NoDup_filter. exact (listed_NoDup gi Hwg v).
        - exact (unit_stops_NoDup inp u Hwf Hlt).
        - intros x. unfold us. rewrite filter_In, mem_nat_In. split; [tauto|].
          intros H. split; [exact (Hlisted x H)|exact H]. }
      assert (Hne : places <> []).
      { intros E. rewrite E in Hfst. cbn in Hfst. rewrite <- Hfst in Hperm.
        apply Permutation_nil in Hperm. exact (unit_stops_nonempty inp u Hwf Hlt Hperm). }
      destruct (pb_sorted (fun y => mem_nat y old) (fun x => mem_nat x (iu_stops (get_unit inp u)))
                  ini (listed_NoDup gi Hwg v) ini [] eq_refl) as (Hsorted & Hbounds).
      fold g us in Hsorted, Hbounds.
      assert (Hcount : S (length (filter (fun y => mem_nat y old) ini)) <= length old - 1).
      { destruct Hshape as (mid & Hold & Hmid).
        assert (Hincl : incl (filter (fun y => mem_nat y old) ini) mid).
        { intros y Hy. apply filter_In in Hy. destruct Hy as (Hy & Hm). apply mem_nat_In in Hm.
          assert (Hsh : route_shape inp v old) by (exists mid; split; assumption).
          pose proof (proj2 (route_shape_interior inp v old y Hsh)
                            (conj Hm (listed_lt gi Hwg v y Hy))) as H.
          rewrite Hold in H. cbn [tl] in H. rewrite removelast_snoc in H. exact H. }
        pose proof (NoDup_incl_length (NoDup_filter _ (listed_NoDup gi Hwg v)) Hincl) as Hle.
        assert (Hlo : length old = length mid + 2).
        { rewrite Hold. cbn [length]. rewrite app_length. cbn [length]. lia. }
        fold ini in Hle. lia. }
      destruct (insert_shape inp v old places Hshape Hne) as (A & B & C & D).
      - rewrite Hsnd. exact Hsorted.
      - rewrite Hsnd. eapply Forall_impl; [|exact Hbounds]. cbv beta. cbn [filter length].
        intros k (K1 & K2). lia.
      - rewrite Hfst. apply Forall_forall. intros x Hx. unfold us in Hx. apply filter_In in Hx.
        exact (listed_lt gi Hwg v x (proj1 Hx)).
      - rewrite Hfst in C, D. split; [exact A|]. split; [exact B|]. split.
        + transitivity (old ++ us); [exact C|]. apply Permutation_app_head. exact Hperm.
        + transitivity (removelast (tl old) ++ us); [exact D|]. apply Permutation_app_head. exact Hperm.
    Qed.

    Lemma PI_placed (s s' : state) (inf rest : list nat) (u : nat) (new : list nat) :
      PI s inf (u :: rest) -> NoDup (u :: rest) -> In u units ->
      RS inp s' -> route_stops (get_route s' v) = new ->
      (forall x, In x new <-> In x (route_stops (get_route s v)) \/ In x (iu_stops (get_unit inp u))) ->
      (forall w, w <> v -> get_route s' w = get_route s w) ->
      st_planned s' = st_planned s -> st_unplanned s' = st_unplanned s -> st_fixed s' = st_fixed s ->
      PI s' inf rest.
    Proof.
      intros (H1 & H2 & H3 & H4 & H5 & Hd & He) Hnd Hu HRS' Hgv Hnew Hgo Cp Cu Cf.
      split; [exact HRS'|]. split; [intros w Hne; rewrite (Hgo w Hne); exact (H2 w Hne)|].
      split; [congruence|]. split; [congruence|]. split; [congruence|]. split.
      - intros x Hx. rewrite Hgv, Hnew, (Hd x Hx). split.
        + intros [(u' & A & B & C & D)|Hxu].
          * exists u'. split; [exact A|]. split; [intros H; apply B; right; exact H|]. split; assumption.
          * exists u. split; [exact Hu|]. split; [inversion Hnd; assumption|]. split; [|exact Hxu].
            intros H. destruct (He u H) as (_ & B & _). apply B. left; reflexivity.
        + intros (u' & A & B & C & D). destruct (Nat.eq_dec u' u) as [->|Hne]; [right; exact D|left].
          exists u'. split; [exact A|]. split; [|split; assumption].
          intros [e|H]; [exact (Hne (eq_sym e))|exact (B H)].
      - intros u0 H. destruct (He u0 H) as (A & B & C). split; [exact A|]. split; [|exact C].
        intros H'. apply B. right; exact H'.
    Qed.

    Lemma place_units_spec :
      forall (rest : list nat) (s : state) (inf : list nat) (s' : state) (inf' : list nat),
        NoDup rest -> (forall u, In u rest -> In u units) -> PI s inf rest ->
        place_units gi v ini rest s inf = InitOk s' inf' -> PI s' inf' [].
    Proof.
      induction rest as [|u rest IH]; intros s inf s' inf' Hnd Hsub HPI Hex.
      - cbn [place_units] in Hex. injection Hex as <- <-. exact HPI.
      - rewrite place_units_cons in Hex. cbv zeta in Hex.
        assert (Hu : In u units) by (apply Hsub; left; reflexivity).
        destruct (units_facts u Hu) as (Hlt & _).
        rewrite (top_of_flat gi u (wg_no_groups gi Hwg)), (top_fixed_unit gi Hwg u Hlt) in Hex.
        assert (Hnd' : NoDup rest) by (inversion Hnd; assumption).
        assert (Hsub' : forall u0, In u0 rest -> In u0 units) by (intros u0 H; apply Hsub; right; exact H).
        assert (Hskip : unit_fixed gi u = false ->
                        place_units gi v ini rest s (coll_add u inf) = InitOk s' inf' -> PI s' inf' []).
        { intros Hfx H. exact (IH s (coll_add u inf) s' inf' Hnd' Hsub' (PI_skip s inf rest u HPI Hnd Hu Hfx) H). }
        destruct (place_move_facts s inf rest u HPI Hu) as (Hshape & Hpre & Hperm & Hpermmid).
        match type of Hex with (if ?c then _ else _) = _ => destruct c end.
        { destruct (unit_fixed gi u) eqn:Efx; [discriminate|]. exact (Hskip eq_refl Hex). }
        match type of Hex with match ?X with _ => _ end = _ => destruct X as [s1|k] eqn:E end.
        2:{ destruct (unit_fixed gi u) eqn:Efx; [discriminate|]. exact (Hskip eq_refl Hex). }
        pose proof HPI as (HRS & _).
        destruct (g_feasible_update s s1 v _ _ false (proj1 HRS) Hv Hshape Hpre E)
          as (Hr1 & Cp & Cu & Cf & _).
        destruct (RS_insert inp s s1 u v _ Hwf HRS Hlt Hv (PI_off s inf rest u HPI Hu)
                    Hshape Hperm Hpermmid Hr1) as (HRS1 & Hgv & Hgo).
        apply (IH s1 inf s' inf' Hnd' Hsub'); [|exact Hex].
        apply (PI_placed s s1 inf rest u _ HPI Hnd Hu HRS1 Hgv); try assumption.
        intros x. split.
        + intros H. apply (Permutation_in _ Hperm) in H. apply in_app_or in H. exact H.
        + intros H. apply (Permutation_in _ (Permutation_sym Hperm)). apply in_or_app. exact H.
    Qed.

    Lemma is_last_stop_last : is_last_stop inp (last_stop inp v) = true.
    Proof.
      unfold is_last_stop, is_input_stop, last_stop.
      replace (nstops inp + 2 * v + 1 <? nstops inp) with false by (symmetry; apply Nat.ltb_ge; lia).
      cbn [negb andb]. apply Nat.odd_spec. exists v. lia.
    Qed.

    Lemma prune_spec :
      forall (fuel : nat) (s : state) (inf : list nat) (s' : state) (inf' : list nat),
        PI s inf [] -> prune_route fuel gi v s inf = InitOk s' inf' ->
        PI s' inf' [] /\ Forall (cell_ok inp v) (tl (get_route s' v)).
    Proof.
      induction fuel as [|fuel IH]; intros s inf s' inf' HPI Hex; [discriminate|].
      rewrite prune_route_S in Hex. cbv zeta in Hex.
      pose proof HPI as (HRS & Hoth & Cp & Cu & Cf & Hd & He).
      pose proof (proj1 HRS) as Hc. pose proof Hc as (_ & Hc'). destruct (Hc' v Hv) as (Hshape & Hcache).
      set (r := get_route s v) in *. set (stops := route_stops r) in *.
      destruct Hshape as (mid & Hst & Hmid).
      destruct (first_violation inp v true (hd (last_cell r) r) (tl stops) 1) as [pos|] eqn:Efv.
      2:{ injection Hex as <- <-. split; [exact HPI|]. fold r.
          assert (Hr : r = first_cell inp v :: cells_from inp v (first_cell inp v) (tl stops)).
          { rewrite Hcache, Hst. reflexivity. }
          rewrite Hr in Efv |- *. cbn [hd tl] in Efv |- *.
          exact (first_violation_none inp v true _ _ _ Efv). }
      destruct (back_walk gi stops (S pos) pos) as [p|] eqn:Eb; [|discriminate].
      destruct (back_walk_some gi stops _ _ _ Eb) as (Hp1 & Hp2 & Hlast & Hfix).
      destruct (first_violation_bound inp v true _ _ _ _ Efv) as (_ & Hposlt).
      set (x := nth p stops 0) in *.
      assert (Hlenst : length stops = S (length mid + 1)).
      { rewrite Hst. cbn [length]. rewrite app_length. cbn [length]. lia. }
      assert (Hptl : p < length stops).
      { assert (length (tl stops) = length mid + 1) by (rewrite Hst; cbn [tl]; rewrite app_length; cbn [length]; lia).
        lia. }
      assert (Hxin : In x stops) by (apply nth_In; exact Hptl).
      assert (Hxlt : x < nstops inp).
      { unfold x in Hlast |- *. rewrite Hst in Hlast |- *. destruct p as [|p']; [lia|]. cbn [nth] in Hlast |- *.
        destruct (Nat.lt_ge_cases p' (length mid)) as [Hl|Hg].
        - rewrite app_nth1 by exact Hl. rewrite Forall_forall in Hmid. apply Hmid. apply nth_In. exact Hl.
        - exfalso. rewrite app_nth2 in Hlast by exact Hg.
          replace (p' - length mid) with 0 in Hlast by lia. cbn [nth] in Hlast.
          rewrite is_last_stop_last in Hlast. discriminate. }
      destruct (stop_in_unit inp x Hwf Hxlt) as (r0 & Hr0 & Hxr0).
      rewrite (unit_of_stop_eq inp r0 x Hwf Hr0 Hxr0), (top_of_flat gi r0 (wg_no_groups gi Hwg)) in Hex, Hfix.
      rewrite (top_fixed_unit gi Hwg r0 Hr0) in Hfix.
      assert (Hr0u : In r0 units /\ ~ In r0 inf).
      { apply (Hd x Hxlt) in Hxin. destruct Hxin as (u' & A & _ & C & D).
        destruct (Nat.eq_dec u' r0) as [->|Hne]; [split; assumption|exfalso].
        exact (units_disjoint inp u' r0 x Hwf (proj1 (units_facts u' A)) Hr0 Hne D Hxr0). }
      destruct (RS_unit_on inp s r0 x v Hwf HRS Hr0 Hv Hxr0 Hxin) as (Hpl & Hall & Huniq).
      rewrite (members_of_flat gi r0 (wg_no_groups gi Hwg)) in Hex.
      replace (nunits_of gi <=? r0) with false in Hex by (symmetry; apply Nat.leb_gt; exact Hr0).
      cbn [flat_map] in Hex. rewrite Hpl, app_nil_r in Hex.
      set (us := iu_stops (get_unit inp r0)) in *.
      destruct (prune_step_routes s v us Hc Hv) as (Hr' & Cp' & Cu' & Cf').
      { intros w c Hw Hne Hcin Hcu. apply Hne.
        apply (Huniq (c_stop c) w Hcu Hw). unfold route_stops. apply in_map. exact Hcin. }
      set (s1 := prune_step gi v s us) in *.
      set (keep := fun y : nat => negb (mem_nat y us)).
      assert (Hkeep : forall y, keep y = true <-> ~ In y us).
      { intros y. unfold keep. rewrite negb_true_iff. apply mem_nat_false. }
      destruct (RS_filter inp s s1 v keep Hwf HRS Hv) as (HRS1 & Hgv & Hgo).
      { intros y Hy. apply Hkeep. intros H. pose proof (unit_stops_lt inp r0 y Hwf Hr0 H). lia. }
      { intros u a b Hu Ha Hb. apply eq_true_iff_eq. rewrite !Hkeep.
        destruct (Nat.eq_dec u r0) as [->|Hne]; [tauto|].
        split; intros _ H; [exact (units_disjoint inp u r0 b Hwf Hu Hr0 Hne Hb H)
                           |exact (units_disjoint inp u r0 a Hwf Hu Hr0 Hne Ha H)]. }
      { exact Hr'. }
      apply (IH s1 (coll_add r0 inf) s' inf'); [|exact Hex].
      split; [exact HRS1|]. split; [intros w Hne; rewrite (Hgo w Hne); exact (Hoth w Hne)|].
      split; [congruence|]. split; [congruence|]. split; [congruence|]. split.
      - intros y Hy. rewrite Hgv. fold r stops. rewrite filter_In, Hkeep, (Hd y Hy). split.
        + intros ((u' & A & B & C & D) & Hn). exists u'. split; [exact A|]. split; [exact B|].
          split; [|exact D]. intros H. apply In_coll_add in H. destruct H as [->|H]; [exact (Hn D)|exact (C H)].
        + intros (u' & A & B & C & D). rewrite In_coll_add in C. split.
          * exists u'. split; [exact A|]. split; [exact B|]. split; [tauto|exact D].
          * intros Hyu. destruct (Nat.eq_dec u' r0) as [->|Hne]; [tauto|].
            exact (units_disjoint inp u' r0 y Hwf (proj1 (units_facts u' A)) Hr0 Hne D Hyu).
      - intros u0 H. apply In_coll_add in H. destruct H as [->|H].
        + split; [exact (proj1 Hr0u)|]. split; [intros []|exact Hfix].
        + exact (He u0 H).
    Qed.

  End OneVehicle.

  (* ---- 3.5 the booking of the kept units, all vehicles ------------------ *)

  Definition book (keep : list nat) (s : state) : state :=
    fold_left (fun st r =>
       if top_fixed gi r
       then with_colls st (st_planned st) (coll_remove r (st_unplanned st)) (coll_add r (st_fixed st))
       else with_colls st (coll_add r (st_planned st)) (coll_remove r (st_unplanned st)) (st_fixed st))
      keep s.

  Lemma book_cons (r : nat) (keep : list nat) (s : state) :
    book (r :: keep) s =
    book keep (if top_fixed gi r
               then with_colls s (st_planned s) (coll_remove r (st_unplanned s)) (coll_add r (st_fixed s))
               else with_colls s (coll_add r (st_planned s)) (coll_remove r (st_unplanned s)) (st_fixed s)).
  Proof. reflexivity. Qed.

  Lemma book_spec (keep : list nat) : forall s,
    st_routes (book keep s) = st_routes s /\
    (forall u, In u (st_fixed (book keep s)) <-> In u (st_fixed s) \/ (In u keep /\ top_fixed gi u = true)) /\
    (forall u, In u (st_planned (book keep s)) <-> In u (st_planned s) \/ (In u keep /\ top_fixed gi u = false)) /\
    (forall u, In u (st_unplanned (book keep s)) <-> In u (st_unplanned s) /\ ~ In u keep) /\
    (NoDup (st_planned s) -> NoDup (st_planned (book keep s))) /\
    (NoDup (st_unplanned s) -> NoDup (st_unplanned (book keep s))) /\
    (NoDup (st_fixed s) -> NoDup (st_fixed (book keep s))).
  Proof.
    induction keep as [|r keep IH]; intros s.
    - cbn. repeat split; tauto.
    - rewrite book_cons. destruct (top_fixed gi r) eqn:Er;
        match goal with |- context [book keep ?a] => destruct (IH a) as (A & B & C & D & E & F & G) end;
        unfold with_colls in A, B, C, D, E, F, G;
        cbn [st_routes st_planned st_unplanned st_fixed] in A, B, C, D, E, F, G;
        (split; [exact A|]); (split; [|split; [|split; [|split; [|split]]]]).
      + intros u. rewrite B, In_coll_add. cbn [In]. split; [|intuition congruence].
        intros [[->|H]|H]; [right; split; [left; reflexivity|exact Er]|left; exact H|right; tauto].
      + intros u. rewrite C. cbn [In]. split; [tauto|]. intros [H|([->|H] & H')]; [tauto|congruence|tauto].
      + intros u. rewrite D, In_coll_remove. cbn [In]. intuition congruence.
      + exact E.
      + intros H. apply F. apply NoDup_coll_remove. exact H.
      + intros H. apply G. apply NoDup_coll_add. exact H.
      + intros u. rewrite B. cbn [In]. split; [tauto|]. intros [H|([->|H] & H')]; [tauto|congruence|tauto].
      + intros u. rewrite C, In_coll_add. cbn [In]. split; [|intuition congruence].
        intros [[->|H]|H]; [right; split; [left; reflexivity|exact Er]|left; exact H|right; tauto].
      + intros u. rewrite D, In_coll_remove. cbn [In]. intuition congruence.
      + intros H. apply E. apply NoDup_coll_add. exact H.
      + intros H. apply F. apply NoDup_coll_remove. exact H.
      + exact G.
  Qed.

  Lemma init_vehicles_cons (v : nat) (rest : list nat) (s : state) :
    init_vehicles gi (v :: rest) s =
    let initial := initial_of gi v in
    match initial with
    | [] => init_vehicles gi rest s
    | _ =>
        let units := dedup_nat (map (unit_of_stop inp) initial) in
        let roots := dedup_nat (map (top_of gi) units) in
        match place_units gi v initial units s [] with
        | InitError => None
        | InitOk s1 inf1 =>
            match prune_route (S (length initial)) gi v s1 inf1 with
            | InitError => None
            | InitOk s2 inf2 =>
                let keep := filter (fun r => negb (mem_nat r inf2)) roots in
                let s3 := book keep s2 in
                init_vehicles gi rest
                  (g_refresh gi (set_route s3 v (from_scratch inp v (route_stops (get_route s3 v)))))
            end
        end
    end.
  Proof. reflexivity. Qed.

  (* the invariant of the loop over the vehicles; [done]: the vehicles whose
     initial stops have been added *)
  Definition IInv (done : list nat) (s : state) : Prop :=
    routes_ok inp s /\ colls_part gi s /\ scores_fresh gi s /\
    (forall u, In u (st_fixed s) ->
       unit_fixed gi u = true /\
       exists w, In w done /\ w < nveh inp /\
         forall y, In y (iu_stops (get_unit inp u)) ->
                   In y (initial_of gi w) /\ In y (route_stops (get_route s w))) /\
    (forall u, In u (st_planned s) -> unit_fixed gi u = false /\ unit_planned inp s u = true) /\
    (forall u, In u (st_unplanned s) ->
       forall x, In x (iu_stops (get_unit inp u)) -> stop_on_route s x = false) /\
    (forall w x, w < nveh inp -> x < nstops inp -> In x (route_stops (get_route s w)) ->
       In w done /\ In x (initial_of gi w)) /\
    (forall w x u, In w done -> In x (initial_of gi w) -> u < nunits inp ->
       In x (iu_stops (get_unit inp u)) -> unit_fixed gi u = true -> In u (st_fixed s)).

  Lemma IInv_done_ext (done done' : list nat) (s : state) :
    (forall w, In w done -> In w done') ->
    (forall w, In w done' -> ~ In w done -> initial_of gi w = []) ->
    IInv done s -> IInv done' s.
  Proof.
    intros Hsub Hnew (A & B & C & I4f & I4p & I4u & I5 & I6).
    split; [exact A|]. split; [exact B|]. split; [exact C|]. split; [|split; [exact I4p|split; [exact I4u|split]]].
    - intros u Hu. destruct (I4f u Hu) as (F & w & Hw & R). split; [exact F|]. exists w. split; [exact (Hsub w Hw)|exact R].
    - intros w x Hw Hx Hin. destruct (I5 w x Hw Hx Hin) as (D & L). split; [exact (Hsub w D)|exact L].
    - intros w x u Hw Hx Hu Hxu Hf. destruct (in_dec Nat.eq_dec w done) as [Hd|Hd].
      + exact (I6 w x u Hd Hx Hu Hxu Hf).
      + rewrite (Hnew w Hw Hd) in Hx. destruct Hx.
  Qed.

  Lemma vehicle_step (done : list nat) (v : nat) (sB s1 s2 : state) (inf1 inf2 : list nat) :
    IInv done sB -> v < nveh inp -> ~ In v done ->
    place_units gi v (initial_of gi v) (dedup_nat (map (unit_of_stop inp) (initial_of gi v))) sB []
    = InitOk s1 inf1 ->
    prune_route (S (length (initial_of gi v))) gi v s1 inf1 = InitOk s2 inf2 ->
    let units := dedup_nat (map (unit_of_stop inp) (initial_of gi v)) in
    let keep := filter (fun r => negb (mem_nat r inf2)) (dedup_nat (map (top_of gi) units)) in
    let s3 := book keep s2 in
    IInv (v :: done)
         (g_refresh gi (set_route s3 v (from_scratch inp v (route_stops (get_route s3 v))))).
  Proof.
    intros HI Hv Hvd Epl Epr units keep s3.
    pose proof HI as (Hok & Hcp & Hsc & I4f & I4p & I4u & I5 & I6).
    assert (HRSB : RS inp sB) by (apply routes_ok_RS in Hok; exact (proj1 Hok)).
    pose proof (proj1 HRSB) as HcB.
    assert (HoffB : forall x, In x (initial_of gi v) -> stop_on_route sB x = false).
    { intros x Hx. destruct (stop_on_route sB x) eqn:E; [exfalso|reflexivity].
      apply (on_route_iff inp sB x HcB) in E. destruct E as (w & Hw & Hin).
      destruct (I5 w x Hw (listed_lt gi Hwg v x Hx) Hin) as (Hd & Hl).
      rewrite (listed_unique gi Hwg v w x Hx Hl) in Hvd. exact (Hvd Hd). }
    assert (HemptyB : forall x, x < nstops inp -> ~ In x (route_stops (get_route sB v))).
    { intros x Hx Hin. exact (Hvd (proj1 (I5 v x Hv Hx Hin))). }
    pose proof (place_units_spec v sB Hv HRSB HoffB units sB [] s1 inf1 (NoDup_dedup_nat _)
                  (fun u H => H) (PI_base v sB HRSB HemptyB) Epl) as PI1.
    destruct (prune_spec v sB Hv HoffB _ s1 inf1 s2 inf2 PI1 Epr) as (PI2 & Hfeasv).
    destruct PI2 as (HRS2 & Hoth2 & Cp2 & Cu2 & Cf2 & Hd2 & He2).
    pose proof (proj1 HRS2) as Hc2.
    assert (Hfacts : forall u, In u units ->
              u < nunits inp /\
              (forall y, In y (iu_stops (get_unit inp u)) -> In y (initial_of gi v)) /\
              (forall y, In y (iu_stops (get_unit inp u)) -> stop_on_route sB y = false))
      by exact (units_facts v sB HoffB).
    assert (Hkeep : forall r, In r keep <-> In r units /\ ~ In r inf2).
    { intros r. unfold keep. rewrite filter_In, negb_true_iff, mem_nat_false, In_dedup_nat.
      rewrite (map_ext (top_of gi) (fun u => u)) by (intros u; apply top_of_flat; exact (wg_no_groups gi Hwg)).
      rewrite map_id. tauto. }
    assert (Hon_v : forall x, x < nstops inp ->
              (In x (route_stops (get_route s2 v)) <->
               exists u, In u keep /\ In x (iu_stops (get_unit inp u)))).
    { intros x Hx. rewrite (Hd2 x Hx). split.
      - intros (u & A & _ & C & D). exists u. split; [apply Hkeep; split; assumption|exact D].
      - intros (u & A & D). apply Hkeep in A. exists u. split; [tauto|]. split; [intros []|tauto]. }
    destruct (book_spec keep s2) as (B1 & Bf & Bp & Bu & Np & Nu & Nf). fold s3 in B1, Bf, Bp, Bu, Np, Nu, Nf.
    set (sF := g_refresh gi (set_route s3 v (from_scratch inp v (route_stops (get_route s3 v))))).
    assert (HrF : st_routes sF = st_routes s2).
    { unfold sF, g_refresh, set_route. cbn [st_routes]. unfold get_route. rewrite B1.
      change (nth v (st_routes s2) []) with (get_route s2 v).
      destruct Hc2 as (_ & Hc2'). rewrite <- (proj2 (Hc2' v Hv)). apply set_nth_same. }
    assert (HpF : st_planned sF = st_planned s3) by reflexivity.
    assert (HuF : st_unplanned sF = st_unplanned s3) by reflexivity.
    assert (HfF : st_fixed sF = st_fixed s3) by reflexivity.
    destruct Hcp as (Hndp & Hndu & Hndf & D1 & D2 & D3 & Hcov).
    (* a kept unit: booked unplanned so far, now whole on route v *)
    assert (Hkept : forall r, In r keep ->
              r < nunits inp /\ top_fixed gi r = unit_fixed gi r /\ In r (st_unplanned sB) /\
              ~ In r (st_planned sB) /\ ~ In r (st_fixed sB) /\
              forall y, In y (iu_stops (get_unit inp r)) ->
                        In y (initial_of gi v) /\ In y (route_stops (get_route s2 v))).
    { intros r Hr. pose proof (proj1 (Hkeep r) Hr) as (Hru & _).
      destruct (Hfacts r Hru) as (Hlt & Hlisted & Hoff).
      destruct (nonempty_has_elem _ (unit_stops_nonempty inp r Hwf Hlt)) as (y0 & Hy0).
      assert (Hnp : ~ In r (st_planned sB)).
      { intros H. destruct (I4p r H) as (_ & Hpl). apply unit_planned_iff in Hpl.
        pose proof (proj2 Hpl y0 Hy0) as H1. rewrite (Hoff y0 Hy0) in H1. discriminate. }
      assert (Hnf : ~ In r (st_fixed sB)).
      { intros H. destruct (I4f r H) as (_ & w & _ & Hw & Hall).
        exact (off_route_not_in inp sB y0 w HcB Hw (Hoff y0 Hy0) (proj2 (Hall y0 Hy0))). }
      split; [exact Hlt|]. split; [exact (top_fixed_unit gi Hwg r Hlt)|]. split; [|split; [exact Hnp|split; [exact Hnf|]]].
      - destruct (proj1 (Hcov r) Hlt) as [H|[H|H]]; [tauto|exact H|tauto].
      - intros y Hy. split; [exact (Hlisted y Hy)|].
        apply (Hon_v y (unit_stops_lt inp r y Hwf Hlt Hy)). exists r. split; assumption. }
    assert (HgF : forall w, get_route sF w = get_route s2 w) by (intros w; exact (get_route_ext s2 sF w HrF)).
    assert (HRSF : RS inp sF) by exact (RS_ext inp s2 sF HrF HRS2).
    pose proof (proj1 HRSF) as HcF.
    (* stops on the other routes are where they were *)
    assert (Hother : forall w x, w <> v -> (In x (route_stops (get_route sF w)) <-> In x (route_stops (get_route sB w)))).
    { intros w x Hne. rewrite HgF, (Hoth2 w Hne). tauto. }
    assert (HokF : routes_ok inp sF).
    { apply routes_ok_RS. split; [exact HRSF|]. intros w Hw. rewrite HgF.
      destruct (Nat.eq_dec w v) as [->|Hne]; [exact Hfeasv|].
      rewrite (Hoth2 w Hne). destruct Hok as (_ & Hf & _). exact (Hf w Hw). }
    split; [exact HokF|]. split; [|split; [apply scores_fresh_refresh|]].
    { (* colls_part *)
      unfold colls_part. rewrite HpF, HuF, HfF.
      split; [apply Np; rewrite Cp2; exact Hndp|]. split; [apply Nu; rewrite Cu2; exact Hndu|].
      split; [apply Nf; rewrite Cf2; exact Hndf|]. split; [|split; [|split]].
      - intros u H1 H2. apply Bp in H1. apply Bu in H2. rewrite Cp2 in H1. rewrite Cu2 in H2.
        destruct H1 as [H1|(H1 & _)]; [exact (D1 u H1 (proj1 H2))|tauto].
      - intros u H1 H2. apply Bp in H1. apply Bf in H2. rewrite Cp2 in H1. rewrite Cf2 in H2.
        destruct H1 as [H1|(H1 & E1)], H2 as [H2|(H2 & E2)].
        + exact (D2 u H1 H2).
        + destruct (Hkept u H2) as (_ & _ & _ & A & _). exact (A H1).
        + destruct (Hkept u H1) as (_ & _ & _ & _ & A & _). exact (A H2).
        + congruence.
      - intros u H1 H2. apply Bu in H1. apply Bf in H2. rewrite Cu2 in H1. rewrite Cf2 in H2.
        destruct H2 as [H2|(H2 & _)]; [exact (D3 u (proj1 H1) H2)|tauto].
      - intros u. rewrite Bp, Bu, Bf, Cp2, Cu2, Cf2, (Hcov u). split.
        + intros [H|[H|H]]; [tauto| |tauto].
          destruct (in_dec Nat.eq_dec u keep) as [Hk|Hk]; [|tauto].
          destruct (top_fixed gi u); tauto.
        + intros [[H|(H & _)]|[(H & _)|[H|(H & _)]]]; try tauto;
            right; left; exact (proj1 (proj2 (proj2 (Hkept u H)))). }
    split; [|split; [|split; [|split]]].
    - (* fixed units *)
      intros u Hu. rewrite HfF in Hu. apply Bf in Hu. rewrite Cf2 in Hu. destruct Hu as [Hu|(Hu & Etf)].
      + destruct (I4f u Hu) as (Hfx & w & Hwd & Hw & Hall). split; [exact Hfx|].
        exists w. split; [right; exact Hwd|]. split; [exact Hw|]. intros y Hy.
        destruct (Hall y Hy) as (A & B). split; [exact A|]. apply Hother; [|exact B].
        intros ->. exact (Hvd Hwd).
      + destruct (Hkept u Hu) as (_ & Etf' & _ & _ & _ & Hall). split; [congruence|].
        exists v. split; [left; reflexivity|]. split; [exact Hv|]. intros y Hy.
        destruct (Hall y Hy) as (A & B). split; [exact A|]. rewrite HgF. exact B.
    - (* planned units *)
      intros u Hu. rewrite HpF in Hu. apply Bp in Hu. rewrite Cp2 in Hu. destruct Hu as [Hu|(Hu & Etf)].
      + destruct (I4p u Hu) as (Hfx & Hpl). split; [exact Hfx|].
        apply unit_planned_iff in Hpl. destruct Hpl as (Hne & Hon). apply unit_planned_iff.
        split; [exact Hne|]. intros y Hy. specialize (Hon y Hy).
        apply (on_route_iff inp sB y HcB) in Hon. destruct Hon as (w & Hw & Hin).
        assert (Hlt : u < nunits inp) by (apply Hcov; tauto).
        destruct (I5 w y Hw (unit_stops_lt inp u y Hwf Hlt Hy) Hin) as (Hwd & _).
        apply (on_route_iff inp sF y HcF). exists w. split; [exact Hw|]. apply Hother; [|exact Hin].
        intros ->. exact (Hvd Hwd).
      + destruct (Hkept u Hu) as (Hlt & Etf' & _ & _ & _ & Hall). split; [congruence|].
        apply unit_planned_iff. split; [exact (unit_stops_nonempty inp u Hwf Hlt)|]. intros y Hy.
        apply (on_route_iff inp sF y HcF). exists v. split; [exact Hv|]. rewrite HgF. exact (proj2 (Hall y Hy)).
    - (* unplanned units *)
      intros u Hu x Hx. rewrite HuF in Hu. apply Bu in Hu. rewrite Cu2 in Hu. destruct Hu as (Hu & Hnk).
      assert (Hlt : u < nunits inp) by (apply Hcov; tauto).
      destruct (stop_on_route sF x) eqn:E; [exfalso|reflexivity].
      apply (on_route_iff inp sF x HcF) in E. destruct E as (w & Hw & Hin).
      destruct (Nat.eq_dec w v) as [->|Hne].
      + rewrite HgF in Hin. apply (Hon_v x (unit_stops_lt inp u x Hwf Hlt Hx)) in Hin.
        destruct Hin as (u' & Hk & Hxu'). destruct (Nat.eq_dec u' u) as [->|Hneu]; [exact (Hnk Hk)|].
        exact (units_disjoint inp u' u x Hwf (proj1 (Hkept u' Hk)) Hlt Hneu Hxu' Hx).
      + apply (Hother w x Hne) in Hin. exact (off_route_not_in inp sB x w HcB Hw (I4u u Hu x Hx) Hin).
    - (* every input stop on a route is listed by that vehicle *)
      intros w x Hw Hx Hin. destruct (Nat.eq_dec w v) as [->|Hne].
      + split; [left; reflexivity|]. rewrite HgF in Hin. apply (Hon_v x Hx) in Hin.
        destruct Hin as (u & Hk & Hxu). exact (proj1 (proj2 (proj2 (proj2 (proj2 (proj2 (Hkept u Hk))))) x Hxu)).
      + apply (Hother w x Hne) in Hin. destruct (I5 w x Hw Hx Hin) as (A & B). split; [right; exact A|exact B].
    - (* fixed units of the vehicles done are booked *)
      intros w x u Hw Hx Hu Hxu Hfx. rewrite HfF. apply Bf. rewrite Cf2. destruct Hw as [<-|Hw].
      + right. destruct (listed_unit v x Hx) as (_ & Hxu' & Hin).
        assert (Hueq : unit_of_stop inp x = u) by exact (unit_of_stop_eq inp u x Hwf Hu Hxu).
        rewrite Hueq in Hin. fold units in Hin.
        assert (Hk : In u keep).
        { apply Hkeep. split; [exact Hin|]. intros H. destruct (He2 u H) as (_ & _ & F). congruence. }
        split; [exact Hk|]. rewrite (top_fixed_unit gi Hwg u Hu). exact Hfx.
      + left. exact (I6 w x u Hw Hx Hu Hxu Hfx).
  Qed.

  Lemma init_vehicles_spec :
    forall (vs done : list nat) (s s' : state),
      NoDup vs -> (forall w, In w vs -> w < nveh inp /\ ~ In w done) ->
      IInv done s -> init_vehicles gi vs s = Some s' -> IInv (rev vs ++ done) s'.
  Proof.
    induction vs as [|v vs IH]; intros done s s' Hnd Hvs HI Hex.
    - cbn in Hex. injection Hex as <-. exact HI.
    - rewrite init_vehicles_cons in Hex. cbv zeta in Hex.
      destruct (Hvs v (or_introl eq_refl)) as (Hv & Hvd).
      assert (Hnd' : NoDup vs) by (inversion Hnd; assumption).
      assert (Hvs' : forall w, In w vs -> w < nveh inp /\ ~ In w (v :: done)).
      { intros w Hw. destruct (Hvs w (or_intror Hw)) as (A & B). split; [exact A|].
        intros [<-|H]; [inversion Hnd; contradiction|exact (B H)]. }
      cbn [rev]. rewrite <- app_assoc. cbn [app].
      destruct (initial_of gi v) as [|a l] eqn:Eini.
      + apply (IH (v :: done) s s' Hnd' Hvs'); [|exact Hex].
        apply (IInv_done_ext done (v :: done) s); [intros w H; right; exact H| |exact HI].
        intros w [<-|H] Hn; [exact Eini|contradiction].
      + cbv iota in Hex. rewrite <- Eini in Hex.
        destruct (place_units gi v (initial_of gi v)
                    (dedup_nat (map (unit_of_stop inp) (initial_of gi v))) s []) as [s1 inf1|] eqn:Epl;
          [|discriminate].
        destruct (prune_route (S (length (initial_of gi v))) gi v s1 inf1) as [s2 inf2|] eqn:Epr;
          [|discriminate].
        exact (IH (v :: done) _ s' Hnd' Hvs' (vehicle_step done v s s1 s2 inf1 inf2 HI Hv Hvd Epl Epr) Hex).
  Qed.

  Lemma IInv_FCore (done : list nat) (s : state) :
    (forall w, w < nveh inp -> In w done) -> IInv done s -> FCore gi s.
  Proof.
    intros Hall (Hok & Hcp & Hsc & I4f & I4p & I4u & I5 & I6).
    pose proof Hcp as (_ & _ & _ & D1 & D2 & D3 & Hcov).
    split; [exact Hok|]. split; [exact Hcp|]. split; [|split; [|split; [|exact Hsc]]].
    - intros u. split.
      + intros H. split; [apply Hcov; tauto|exact (proj1 (I4f u H))].
      + intros (Hu & Hfx). apply unit_fixed_iff in Hfx. destruct Hfx as (x & Hxu & Hsf).
        apply stop_fixed_iff in Hsf. destruct Hsf as (w & Hw).
        pose proof (flagged_listed gi w x true Hw) as Hl.
        apply (I6 w x u (Hall w (listed_veh gi Hwg w x Hl)) Hl Hu Hxu).
        apply unit_fixed_iff. exists x. split; [exact Hxu|]. apply stop_fixed_iff. exists w. exact Hw.
    - intros u H. destruct (I4f u H) as (_ & w & _ & Hw & R). exists w. split; [exact Hw|exact R].
    - intros u Hu Hfx. split; split.
      + intros H. exact (proj2 (I4p u H)).
      + intros Hpl. destruct (proj1 (Hcov u) Hu) as [H|[H|H]]; [exact H|exfalso|exfalso].
        * pose proof (proj2 (planned_or_off inp s u Hwf Hok Hu) (I4u u H)). congruence.
        * destruct (I4f u H). congruence.
      + exact (I4u u).
      + intros Hoff. destruct (proj1 (Hcov u) Hu) as [H|[H|H]]; [exfalso|exact H|exfalso].
        * destruct (I4p u H) as (_ & Hpl). pose proof (proj2 (planned_or_off inp s u Hwf Hok Hu) Hoff). congruence.
        * destruct (I4f u H). congruence.
  Qed.

  Lemma FCore_start (s0 : state) : g_new_solution gi = Some s0 -> FCore gi s0.
  Proof.
    intros Hns. unfold g_new_solution in Hns. cbv zeta in Hns.
    destruct (new_solution inp) as [c0|] eqn:E0; [|discriminate].
    pose proof (wg_no_groups gi Hwg) as Hg. unfold no_groups in Hg.
    rewrite Hg in Hns. cbn [length seqn map] in Hns. rewrite app_nil_r in Hns.
    rewrite filter_true_id in Hns by (intros x; rewrite (member_group_flat gi x Hg); reflexivity).
    change (nunits_of gi) with (nunits inp) in Hns. change (length (in_vehicles inp)) with (nveh inp) in Hns.
    set (si := g_refresh gi (mkState (st_routes c0) [] (seqn (nunits inp)) [] [] 0%Z)) in *.
    pose proof (new_solution_invT inp c0 Hwf E0) as HT.
    assert (Hoki : routes_ok inp si) by exact (invT_routes_ok inp c0 si HT eq_refl).
    assert (Hun0 : st_unplanned c0 = seqn (nunits inp)).
    { unfold new_solution in E0. cbv zeta in E0.
      destruct (all_some (map (empty_route inp) (seqn (length (in_vehicles inp))))); [|discriminate].
      injection E0 as <-. reflexivity. }
    assert (Hoff : forall m, m < nunits inp ->
              forall x, In x (iu_stops (get_unit inp m)) -> stop_on_route si x = false).
    { intros m Hm x Hx. rewrite (stop_on_route_ext c0 si x eq_refl).
      destruct HT as ((_ & _ & _ & (_ & _ & _ & _ & Hper & _)) & _).
      destruct (Hper m Hm) as (_ & B & C).
      assert (Hf : unit_planned inp c0 m = false) by (apply B; rewrite Hun0; apply In_seqn; exact Hm).
      destruct C as [C|C]; [congruence|exact (C x Hx)]. }
    assert (HIi : IInv [] si).
    { split; [exact Hoki|]. split; [|split; [apply scores_fresh_refresh|]].
      - unfold colls_part, si, g_refresh. cbn [st_planned st_unplanned st_fixed].
        split; [constructor|]. split; [apply NoDup_seqn|]. split; [constructor|].
        split; [intros u []|]. split; [intros u []|]. split; [intros u _ []|].
        intros u. rewrite In_seqn. cbn [In]. tauto.
      - split; [intros u []|]. split; [intros u []|]. split; [|split].
        + intros u Hu. unfold si, g_refresh in Hu. cbn [st_unplanned] in Hu. apply In_seqn in Hu.
          exact (Hoff u Hu).
        + intros w x Hw Hx Hin. exfalso. destruct (stop_in_unit inp x Hwf Hx) as (u & Hu & Hxu).
          exact (off_route_not_in inp si x w (proj1 Hoki) Hw (Hoff u Hu x Hxu) Hin).
        + intros w x u []. }
    pose proof (init_vehicles_spec (seqn (nveh inp)) [] si s0 (NoDup_seqn _)) as H.
    apply (IInv_FCore (rev (seqn (nveh inp)) ++ []) s0).
    - intros w Hw. apply in_or_app. left. apply in_rev. rewrite rev_involutive. apply In_seqn. exact Hw.
    - apply H; [|exact HIi|exact Hns]. intros w Hw. apply In_seqn in Hw. split; [exact Hw|intros []].
  Qed.

End Start.

(* ================================================================== *)
(* Part 5.  Histories                                                  *)
(* ================================================================== *)

Inductive fop :=
| FPlan (mv : move) | FChecked (mv : move) | FUnplanUnit (u : nat) | FUnplanVehicle (v : nat).

Definition fop_step (gi : ginput) (s : state) (o : fop) : state * result :=
  match o with
  | FPlan mv => g_exec_move gi s mv
  | FChecked mv => g_exec_checked gi s mv
  | FUnplanUnit u => g_unplan_unit gi s u
  | FUnplanVehicle v => g_unplan_vehicle gi s v
  end.

(* moves are well formed for the state they are executed on (move_ok of
   Proofs/Engine_inv.v); un-plans: any unit, any vehicle *)
Definition fop_ok (gi : ginput) (s : state) (o : fop) : Prop :=
  match o with
  | FPlan mv | FChecked mv => move_ok (gi_inp gi) s mv
  | FUnplanUnit _ | FUnplanVehicle _ => True
  end.

Fixpoint fops_ok (gi : ginput) (s : state) (h : list fop) : Prop :=
  match h with [] => True | o :: h' => fop_ok gi s o /\ fops_ok gi (fst (fop_step gi s o)) h' end.
Fixpoint fops_run (gi : ginput) (s : state) (h : list fop) : list state :=
  match h with [] => [s] | o :: h' => s :: fops_run gi (fst (fop_step gi s o)) h' end.
Fixpoint fops_answers (gi : ginput) (s : state) (h : list fop) : list result :=
  match h with [] => [] | o :: h' => snd (fop_step gi s o) :: fops_answers gi (fst (fop_step gi s o)) h' end.

Definition f_reachable (gi : ginput) (s : state) : Prop :=
  exists s0 h, g_new_solution gi = Some s0 /\ fops_ok gi s0 h /\ In s (fops_run gi s0 h).

Section History.
  Variable gi : ginput.
  Hypothesis Hwf : wf_input (gi_inp gi).
  Hypothesis Hwg : wf_ginput_fixed gi.
  Local Notation inp := (gi_inp gi).

  Lemma FCore_step (s : state) (o : fop) :
    FCore gi s -> fop_ok gi s o ->
    snd (fop_step gi s o) <> UndoFailed /\ FCore gi (fst (fop_step gi s o)).
  Proof.
    intros HF Hok. destruct (fop_step gi s o) as [s' r] eqn:E. cbn [fst snd].
    destruct o as [mv|mv|u|v]; cbn [fop_step fop_ok] in E, Hok.
    - destruct (FCore_exec_move gi Hwf Hwg s s' mv r HF Hok E) as (A & B & _). auto.
    - destruct (FCore_exec_checked gi Hwf Hwg s s' mv r HF Hok E) as (A & B & _). auto.
    - destruct (FCore_unplan_unit gi Hwf Hwg s s' u r HF E) as (A & B & _). auto.
    - destruct (FCore_unplan_vehicle gi Hwf s s' v r HF E) as (A & B & _). auto.
  Qed.

  Lemma FCore_history :
    forall (h : list fop) (s : state), FCore gi s -> fops_ok gi s h ->
      Forall (FCore gi) (fops_run gi s h) /\
      Forall (fun r => r <> UndoFailed) (fops_answers gi s h).
  Proof.
    induction h as [|o h IH]; intros s HF Hok; cbn [fops_run fops_answers fops_ok] in *.
    - split; constructor; [exact HF|constructor].
    - destruct Hok as (Ho & Hh). destruct (FCore_step s o HF Ho) as (A & B).
      destruct (IH _ B Hh) as (C & D). split; constructor; assumption.
  Qed.

  Lemma FInv_history_proof (s0 : state) (h : list fop) :
    g_new_solution gi = Some s0 -> fops_ok gi s0 h ->
    Forall (FInv gi) (fops_run gi s0 h) /\
    Forall (fun r => r <> UndoFailed) (fops_answers gi s0 h).
  Proof.
    intros Hns Hok. destruct (FCore_history h s0 (FCore_start gi Hwf Hwg s0 Hns) Hok) as (A & B).
    split; [|exact B]. eapply Forall_impl; [|exact A]. intros s. exact (FCore_FInv gi s Hwf).
  Qed.

  (* stated directly on the routes *)
  Lemma FInv_fixed_on_route (s : state) :
    FInv gi s ->
    forall x v, stop_fixed gi x = true -> In x (initial_of gi v) ->
                In x (route_stops (get_route s v)).
  Proof.
    intros ((_ & _ & Hfe & Hfh & _) & _) x v Hsf Hl.
    destruct (stop_in_unit inp x Hwf (listed_lt gi Hwg v x Hl)) as (u & Hu & Hxu).
    assert (Hfx : unit_fixed gi u = true) by (apply unit_fixed_iff; exists x; split; assumption).
    destruct (Hfh u (proj2 (Hfe u) (conj Hu Hfx))) as (w & _ & Hall).
    destruct (Hall x Hxu) as (Hlw & Hon).
    rewrite (listed_unique gi Hwg v w x Hl Hlw). exact Hon.
  Qed.

  Lemma f_reachable_FInv (s : state) : f_reachable gi s -> FInv gi s.
  Proof.
    intros (s0 & h & Hns & Hok & Hin). destruct (FInv_history_proof s0 h Hns Hok) as (A & _).
    rewrite Forall_forall in A. exact (A s Hin).
  Qed.

  Lemma f_reachable_fixed_on_route (s : state) :
    f_reachable gi s ->
    forall x v, stop_fixed gi x = true -> In x (initial_of gi v) ->
                In x (route_stops (get_route s v)).
  Proof. intros H. exact (FInv_fixed_on_route s (f_reachable_FInv s H)). Qed.

  Lemma f_reachable_flagged_on_route (s : state) :
    f_reachable gi s ->
    forall x v, In (x, true) (nth v (gi_initial gi) []) -> In x (route_stops (get_route s v)).
  Proof.
    intros H x v Hp. apply (f_reachable_fixed_on_route s H).
    - apply stop_fixed_iff. exists v. exact Hp.
    - exact (flagged_listed gi v x true Hp).
  Qed.

End History.

(* ---- the statements of Props/FixedInv.v ------------------------------- *)

Lemma wf_ginput_fixed_unfold_proof : forall gi,
  wf_ginput_fixed gi <->
  gi_groups gi = [] /\
  length (gi_initial gi) <= nveh (gi_inp gi) /\
  Forall (fun x => x < nstops (gi_inp gi)) (concat (map (map fst) (gi_initial gi))) /\
  NoDup (concat (map (map fst) (gi_initial gi))) /\
  (forall v u x y, u < nunits (gi_inp gi) ->
     In x (iu_stops (get_unit (gi_inp gi) u)) -> In y (iu_stops (get_unit (gi_inp gi) u)) ->
     In x (map fst (nth v (gi_initial gi) [])) -> In y (map fst (nth v (gi_initial gi) []))).
Proof. intros gi. reflexivity. Qed.

Lemma FInv_unfold_proof : forall gi s,
  FInv gi s <->
  ((* engine *) routes_ok (gi_inp gi) s /\
   (* collections *)
   (NoDup (st_planned s) /\ NoDup (st_unplanned s) /\ NoDup (st_fixed s) /\
    (forall u, In u (st_planned s) -> In u (st_unplanned s) -> False) /\
    (forall u, In u (st_planned s) -> In u (st_fixed s) -> False) /\
    (forall u, In u (st_unplanned s) -> In u (st_fixed s) -> False) /\
    (forall u, u < nunits (gi_inp gi) <->
               In u (st_planned s) \/ In u (st_unplanned s) \/ In u (st_fixed s))) /\
   (* a *) (forall u, In u (st_fixed s) <-> u < nunits (gi_inp gi) /\ unit_fixed gi u = true) /\
   (* b *) (forall u, In u (st_fixed s) ->
              exists v, v < nveh (gi_inp gi) /\
                forall y, In y (iu_stops (get_unit (gi_inp gi) u)) ->
                          In y (map fst (nth v (gi_initial gi) [])) /\
                          In y (route_stops (get_route s v))) /\
   (* c *) (forall u, u < nunits (gi_inp gi) -> unit_fixed gi u = false ->
              (In u (st_planned s) <-> unit_planned (gi_inp gi) s u = true) /\
              (In u (st_unplanned s) <->
               forall x, In x (iu_stops (get_unit (gi_inp gi) u)) -> stop_on_route s x = false)) /\
   (* scores *) (st_scores s = g_score_terms gi s /\ st_total s = sumZ (g_score_terms gi s))) /\
  (* d *) (forall x, In x (interior_stops s) ->
             exists u, u < nunits (gi_inp gi) /\ In x (iu_stops (get_unit (gi_inp gi) u)) /\
                       (In u (st_planned s) \/ In u (st_fixed s))).
Proof. intros gi s. reflexivity. Qed.

Lemma fop_unfold_proof : forall gi s,
  (forall mv, fop_step gi s (FPlan mv) = g_exec_move gi s mv /\
              (fop_ok gi s (FPlan mv) <-> move_ok (gi_inp gi) s mv)) /\
  (forall mv, fop_step gi s (FChecked mv) = g_exec_checked gi s mv /\
              (fop_ok gi s (FChecked mv) <-> move_ok (gi_inp gi) s mv)) /\
  (forall u, fop_step gi s (FUnplanUnit u) = g_unplan_unit gi s u /\
             (fop_ok gi s (FUnplanUnit u) <-> True)) /\
  (forall v, fop_step gi s (FUnplanVehicle v) = g_unplan_vehicle gi s v /\
             (fop_ok gi s (FUnplanVehicle v) <-> True)).
Proof. intros gi s. split; [|split; [|split]]; intros x; (split; [reflexivity|cbn; tauto]). Qed.

Lemma fops_unfold_proof : forall gi s o h,
  (fops_ok gi s [] <-> True) /\
  (fops_ok gi s (o :: h) <-> fop_ok gi s o /\ fops_ok gi (fst (fop_step gi s o)) h) /\
  fops_run gi s [] = [s] /\
  fops_run gi s (o :: h) = s :: fops_run gi (fst (fop_step gi s o)) h /\
  fops_answers gi s [] = [] /\
  fops_answers gi s (o :: h) = snd (fop_step gi s o) :: fops_answers gi (fst (fop_step gi s o)) h.
Proof. intros gi s o h. cbn [fops_ok fops_run fops_answers]. repeat (split; [tauto || reflexivity|]). reflexivity. Qed.

Lemma f_reachable_unfold_proof : forall gi s,
  f_reachable gi s <->
  exists s0 h, g_new_solution gi = Some s0 /\ fops_ok gi s0 h /\ In s (fops_run gi s0 h).
Proof. intros gi s. reflexivity. Qed.

(* ================================================================== *)
(* Part 6.  Non-vacuity; the vehicle un-plan before its repair         *)
(* ================================================================== *)

(* ---- a boolean check of wf_ginput_fixed (sound) ----------------------- *)

Fixpoint nodupb (l : list nat) : bool :=
  match l with [] => true | x :: r => negb (mem_nat x r) && nodupb r end.

Lemma nodupb_NoDup (l : list nat) : nodupb l = true -> NoDup l.
Proof.
  induction l as [|x r IH]; intros H; [constructor|]. cbn [nodupb] in H.
  apply andb_true_iff in H. destruct H as (H1 & H2). constructor; [|exact (IH H2)].
  apply mem_nat_false. apply negb_true_iff. exact H1.
Qed.

Definition wf_ginput_fixedb (gi : ginput) : bool :=
  let inp := gi_inp gi in
  let listed := concat (map (map fst) (gi_initial gi)) in
  (match gi_groups gi with [] => true | _ => false end) &&
  (length (gi_initial gi) <=? length (in_vehicles inp)) &&
  forallb (fun x => x <? nstops inp) listed &&
  nodupb listed &&
  forallb (fun l =>
     forallb (fun u => negb (existsb (fun x => mem_nat x (map fst l)) (iu_stops u))
                       || forallb (fun y => mem_nat y (map fst l)) (iu_stops u))
             (in_units inp))
    (gi_initial gi).

Lemma wf_ginput_fixedb_sound (gi : ginput) : wf_ginput_fixedb gi = true -> wf_ginput_fixed gi.
Proof.
  unfold wf_ginput_fixedb. cbv zeta. rewrite !andb_true_iff.
  intros ((((H1 & H2) & H3) & H4) & H5).
  split; [destruct (gi_groups gi); [reflexivity|discriminate]|].
  split; [apply Nat.leb_le; exact H2|].
  split; [|split; [exact (nodupb_NoDup _ H4)|]].
  - apply Forall_forall. intros x Hx. rewrite forallb_forall in H3. apply Nat.ltb_lt. exact (H3 x Hx).
  - intros v u x y Hu Hx Hy Hl. unfold initial_of in *.
    assert (Hv : v < length (gi_initial gi)).
    { destruct (Nat.lt_ge_cases v (length (gi_initial gi))) as [H|H]; [exact H|].
      rewrite nth_overflow in Hl by exact H. destruct Hl. }
    rewrite forallb_forall in H5. specialize (H5 _ (nth_In _ [] Hv)).
    rewrite forallb_forall in H5. specialize (H5 _ (get_unit_In (gi_inp gi) u Hu)).
    apply orb_true_iff in H5. destruct H5 as [H5|H5].
    + exfalso. apply negb_true_iff in H5.
      assert (Ht : existsb (fun x0 => mem_nat x0 (map fst (nth v (gi_initial gi) [])))
                           (iu_stops (get_unit (gi_inp gi) u)) = true).
      { apply existsb_exists. exists x. split; [exact Hx|]. apply mem_nat_In. exact Hl. }
      congruence.
    + rewrite forallb_forall in H5. apply mem_nat_In. exact (H5 y Hy).
Qed.

(* ---- the example -------------------------------------------------------- *)

(* f_gi: three stops, two vehicles (first / last stops 3 4 and 5 6), no
   constraints; unit 0 = stops [0; 1], unit 1 = stop [2]; vehicle 0 lists the
   initial stops 0 (not fixed) and 1 (fixed), vehicle 1 none *)
Definition f_mat : list (list Z) := map (fun _ => [1;1;1;1;1;1;1]%Z) [0;0;0;0;0;0;0].
Definition f_stop (p : Z) : istop := mkIStop [] 0%Z [] None p [] None 0%Z 0%Z.
Definition f_veh : ivehicle := mkIVehicle None [] 0%Z None None None None None [] 0%Z true true 0%Z 0%Z 1%Z 1%Z.
Definition f_inp : input :=
  mkInput [] [f_stop 10%Z; f_stop 10%Z; f_stop 7%Z] [f_veh; f_veh]
          [mkIUnit [0; 1] [(0, 1, false)]; mkIUnit [2] []]
          f_mat f_mat 0 w_opts [].
Definition f_gi : ginput := mkGInput f_inp [] [[(0, false); (1, true)]; []].
Definition f_s0 : state :=
  Eval vm_compute in match g_new_solution f_gi with Some s => s | None => w_dummy end.
Definition f_mv : move := mkMove 1 0 [(2, 2)].     (* stop 2 between the stops 0 and 1 *)
Definition f_s1 : state := Eval vm_compute in fst (g_exec_move f_gi f_s0 f_mv).
Definition f_s2 : state := Eval vm_compute in fst (g_unplan_vehicle f_gi f_s1 0).

Lemma f_wf : wf_input f_inp.
Proof.
  split; [|split; [|split; [|split; [exact (Forall_nil _)|mult_wf]]]].
  - vm_compute. constructor; [simpl; lia|]. constructor; [simpl; lia|]. constructor; [simpl; tauto|constructor].
  - intros x. vm_compute. lia.
  - intros u Hu. vm_compute in Hu. destruct Hu as [<-|[<-|[]]]; discriminate.
Qed.

Lemma f_wfg : wf_ginput_fixed f_gi.
Proof. apply wf_ginput_fixedb_sound. vm_compute. reflexivity. Qed.

Lemma f_flags :
  stop_fixed f_gi 0 = false /\ stop_fixed f_gi 1 = true /\
  unit_fixed f_gi 0 = true /\ unit_fixed f_gi 1 = false.
Proof. vm_compute. repeat split. Qed.

Lemma f_new : g_new_solution f_gi = Some f_s0.
Proof. vm_compute. reflexivity. Qed.

Lemma f_s0_shape :
  map route_stops (st_routes f_s0) = [[3; 0; 1; 4]; [5; 6]] /\
  st_planned f_s0 = [] /\ st_unplanned f_s0 = [1] /\ st_fixed f_s0 = [0].
Proof. vm_compute. repeat split. Qed.

Lemma f_s0_FInv : FInv f_gi f_s0.
Proof. exact (FCore_FInv f_gi f_s0 f_wf (FCore_start f_gi f_wf f_wfg f_s0 f_new)). Qed.

(* right after the start nothing can be taken off vehicle 0 *)
Lemma f_unplan_vehicle_start : g_unplan_vehicle f_gi f_s0 0 = (f_s0, NotExecutable).
Proof. vm_compute. reflexivity. Qed.

Lemma f_unplan_fixed_unit : g_unplan_unit f_gi f_s0 0 = (f_s0, NotExecutable).
Proof. vm_compute. reflexivity. Qed.

Lemma f_mv_ok : move_ok f_inp f_s0 f_mv.
Proof.
  unfold move_ok. vm_compute.
  split; [lia|]. split; [lia|]. split; [apply Permutation_refl|]. split; [discriminate|].
  split; [repeat constructor|]. repeat constructor.
Qed.

Lemma f_plan : g_exec_move f_gi f_s0 f_mv = (f_s1, Done).
Proof. vm_compute. reflexivity. Qed.

Lemma f_s1_shape :
  map route_stops (st_routes f_s1) = [[3; 0; 2; 1; 4]; [5; 6]] /\
  st_planned f_s1 = [1] /\ st_unplanned f_s1 = [] /\ st_fixed f_s1 = [0].
Proof. vm_compute. repeat split. Qed.

(* the un-plan of vehicle 0 takes stop 2 off and leaves BOTH stops of the fixed
   unit: stop 1 (flagged) and stop 0 (not flagged) *)
Lemma f_unplan_vehicle : g_unplan_vehicle f_gi f_s1 0 = (f_s2, Done).
Proof. vm_compute. reflexivity. Qed.

Lemma f_s2_shape :
  map route_stops (st_routes f_s2) = [[3; 0; 1; 4]; [5; 6]] /\
  st_planned f_s2 = [] /\ st_unplanned f_s2 = [1] /\ st_fixed f_s2 = [0].
Proof. vm_compute. repeat split. Qed.

Definition f_h : list fop := [FPlan f_mv; FUnplanUnit 0; FUnplanVehicle 0; FUnplanVehicle 0].

Lemma f_history_ok : fops_ok f_gi f_s0 f_h.
Proof. cbn [f_h fops_ok fop_ok]. split; [exact f_mv_ok|]. repeat split. Qed.

Lemma f_history_run :
  fops_run f_gi f_s0 f_h = [f_s0; f_s1; f_s1; f_s2; f_s2] /\
  fops_answers f_gi f_s0 f_h = [Done; NotExecutable; Done; NotExecutable].
Proof. vm_compute. split; reflexivity. Qed.

Lemma f_history_FInv : Forall (FInv f_gi) [f_s0; f_s1; f_s1; f_s2; f_s2].
Proof.
  destruct (FInv_history_proof f_gi f_wf f_wfg f_s0 f_h f_new f_history_ok) as (A & _).
  rewrite (proj1 f_history_run) in A. exact A.
Qed.

(* ---- the vehicle un-plan as it was before its repair ------------------ *)

(* g_unplan_vehicle of Model/Units.v with the filter on the stop's own flag only *)
Definition g_unplan_vehicle_old (gi : ginput) (s : state) (v : nat) : state * result :=
  let inp := gi_inp gi in
  let old := get_route s v in
  let old_stops := route_stops old in
  let removable := filter (fun x => negb (stop_fixed gi x)) old_stops in
  let inner := filter (fun x => is_input_stop inp x) removable in
  match inner with
  | [] => (s, NotExecutable)
  | _ =>
      let units := map (unit_of_stop inp) inner in
      let s1 := fold_left (fun st u => with_colls st (coll_remove u (st_planned st)) (coll_add u (st_unplanned st)) (st_fixed st)) units s in
      let new_stops := filter (fun x => negb (mem_nat x inner)) old_stops in
      let idx := (index_in (hd 0%nat inner) old_stops - 1)%nat in
      match g_is_feasible gi s1 v idx new_stops true with
      | inl s2 => (s2, Done)
      | inr k =>
          let s2 := fold_left (fun st u => with_colls st (coll_add u (st_planned st)) (coll_remove u (st_unplanned st)) (st_fixed st)) units s1 in
          match g_is_feasible gi (with_colls s (st_planned s2) (st_unplanned s2) (st_fixed s2)) v idx old_stops true with
          | inl s3 => (s3, Rejected k)
          | inr _ => (s2, UndoFailed)
          end
      end
  end.

Definition f_bad : state := Eval vm_compute in fst (g_unplan_vehicle_old f_gi f_s0 0).

Lemma f_old_run : g_unplan_vehicle_old f_gi f_s0 0 = (f_bad, Done).
Proof. vm_compute. reflexivity. Qed.

Lemma f_bad_shape :
  map route_stops (st_routes f_bad) = [[3; 1; 4]; [5; 6]] /\
  st_planned f_bad = [] /\ st_unplanned f_bad = [1; 0] /\ st_fixed f_bad = [0].
Proof. vm_compute. repeat split. Qed.

Lemma f_bad_not_FInv : ~ FInv f_gi f_bad.
Proof.
  intros ((_ & (_ & _ & _ & _ & _ & D3 & _) & _) & _).
  apply (D3 0); vm_compute; auto.
Qed.

Theorem unplan_vehicle_old_refuted_proof :
  exists gi s s',
    wf_input (gi_inp gi) /\ wf_ginput_fixed gi /\ g_new_solution gi = Some s /\ FInv gi s /\
    g_unplan_vehicle_old gi s 0 = (s', Done) /\
    (* unit 0 = stops [0; 1] is fixed through the flag of stop 1 only *)
    iu_stops (get_unit (gi_inp gi) 0) = [0; 1] /\
    stop_fixed gi 0 = false /\ stop_fixed gi 1 = true /\ In 0 (st_fixed s') /\
    (* the unit is split: stop 0 left the route, the flagged stop 1 stays *)
    stop_on_route s 0 = true /\ stop_on_route s' 0 = false /\ stop_on_route s' 1 = true /\
    (* and the bookkeeping says both "fixed" and "unplanned" *)
    In 0 (st_unplanned s') /\
    ~ FInv gi s'.
Proof.
  exists f_gi, f_s0, f_bad.
  split; [exact f_wf|]. split; [exact f_wfg|]. split; [exact f_new|]. split; [exact f_s0_FInv|].
  split; [exact f_old_run|]. split; [reflexivity|]. split; [reflexivity|]. split; [reflexivity|].
  split; [vm_compute; auto|]. split; [reflexivity|]. split; [reflexivity|]. split; [reflexivity|].
  split; [vm_compute; auto|]. exact f_bad_not_FInv.
Qed.

(* ================================================================== *)
(* Part 7.  The statements at the level of FInv                        *)
(* ================================================================== *)

(* the fixed collection is literally the same list after every operation *)
Lemma g_unplan_vehicle_fixed (gi : ginput) (s : state) (v : nat) :
  st_fixed (fst (g_unplan_vehicle gi s v)) = st_fixed s.
Proof.
  rewrite g_unplan_vehicle_eq. cbv zeta. destruct (vinner gi s v) as [|x0 rest]; [reflexivity|].
  set (units := map (unit_of_stop (gi_inp gi)) (x0 :: rest)).
  destruct (unbook_spec units s) as (_ & U2 & _). destruct (rebook_spec units (unbook units s)) as (_ & R2 & _).
  match goal with |- context [g_is_feasible gi ?a ?w ?i ?st true] =>
    destruct (g_is_feasible gi a w i st true) as [s2|k] eqn:E1 end.
  - cbn [fst]. destruct (g_is_feasible_colls gi _ _ _ _ _ _ E1) as (_ & _ & F). rewrite F. exact U2.
  - match goal with |- context [g_is_feasible gi ?a ?w ?i ?st true] =>
      destruct (g_is_feasible gi a w i st true) as [s3|k2] eqn:E2 end; cbn [fst].
    + destruct (g_is_feasible_colls gi _ _ _ _ _ _ E2) as (_ & _ & F). rewrite F.
      unfold with_colls. cbn [st_fixed]. rewrite R2. exact U2.
    + rewrite R2. exact U2.
Qed.

Lemma fop_step_fixed (gi : ginput) (s : state) (o : fop) :
  wf_input (gi_inp gi) -> wf_ginput_fixed gi -> FInv gi s -> fop_ok gi s o ->
  st_fixed (fst (fop_step gi s o)) = st_fixed s.
Proof.
  intros Hwf Hwg (HF & _) Hok.
  pose proof (member_group_flat gi) as Hmg. specialize (fun u => Hmg u (wg_no_groups gi Hwg)).
  assert (Hmove : forall mv, move_ok (gi_inp gi) s mv -> st_fixed (fst (g_exec_move gi s mv)) = st_fixed s).
  { intros mv Hmv. destruct (g_exec_move gi s mv) as [s' r] eqn:E. cbn [fst].
    destruct (FCore_exec_move gi Hwf Hwg s s' mv r HF Hmv E) as (Hnu & _).
    destruct (g_exec_move_nonmember_colls gi s s' mv r (Hmg _) E) as (Cn & Cd & Cr).
    destruct r as [|k| |]; [exact (proj1 (proj2 (proj2 (Cd eq_refl))))|exact (proj1 (proj2 (proj2 (Cr k eq_refl))))
                           |rewrite (Cn eq_refl); reflexivity|congruence]. }
  destruct o as [mv|mv|u|v]; cbn [fop_step fop_ok] in *.
  - exact (Hmove mv Hok).
  - unfold g_exec_checked. destruct (g_move_executable gi s mv); [exact (Hmove mv Hok)|reflexivity].
  - destruct (g_unplan_unit gi s u) as [s' r] eqn:E. cbn [fst].
    destruct (FCore_unplan_unit gi Hwf Hwg s s' u r HF E) as (Hnu & _).
    destruct (g_unplan_unit_colls gi s s' u r E) as (Cn & Cd & Cr).
    destruct r as [|k| |]; [exact (proj1 (proj2 (proj2 (Cd eq_refl))))
                           |exact (proj1 (proj2 (proj2 (Cr k eq_refl (Hmg u)))))
                           |rewrite (Cn eq_refl); reflexivity|congruence].
  - apply g_unplan_vehicle_fixed.
Qed.

Section Statements.
  Variable gi : ginput.
  Hypothesis Hwf : wf_input (gi_inp gi).
  Hypothesis Hwg : wf_ginput_fixed gi.
  Local Notation inp := (gi_inp gi).

  Lemma FInv_start_stmt (s0 : state) : g_new_solution gi = Some s0 -> FInv gi s0.
  Proof. intros H. exact (FCore_FInv gi s0 Hwf (FCore_start gi Hwf Hwg s0 H)). Qed.

  Lemma FInv_exec_move_stmt (s s' : state) (mv : move) (r : result) :
    FInv gi s -> move_ok inp s mv -> g_exec_move gi s mv = (s', r) ->
    r <> UndoFailed /\ FInv gi s' /\ (r <> Done -> st_routes s' = st_routes s) /\
    (unit_planned inp s (mv_unit mv) = true \/ unit_fixed gi (mv_unit mv) = true ->
     r = NotExecutable /\ s' = s).
  Proof.
    intros (HF & _) Hmv Hex. destruct (FCore_exec_move gi Hwf Hwg s s' mv r HF Hmv Hex) as (A & B & C & D).
    split; [exact A|]. split; [exact (FCore_FInv gi s' Hwf B)|]. split; assumption.
  Qed.

  Lemma FInv_exec_checked_stmt (s s' : state) (mv : move) (r : result) :
    FInv gi s -> move_ok inp s mv -> g_exec_checked gi s mv = (s', r) ->
    r <> UndoFailed /\ FInv gi s' /\ (r <> Done -> st_routes s' = st_routes s).
  Proof.
    intros (HF & _) Hmv Hex. destruct (FCore_exec_checked gi Hwf Hwg s s' mv r HF Hmv Hex) as (A & B & C).
    split; [exact A|]. split; [exact (FCore_FInv gi s' Hwf B)|exact C].
  Qed.

  Lemma FInv_unplan_unit_stmt (s s' : state) (u : nat) (r : result) :
    FInv gi s -> g_unplan_unit gi s u = (s', r) ->
    r <> UndoFailed /\ FInv gi s' /\ (r <> Done -> st_routes s' = st_routes s) /\
    (unit_fixed gi u = true -> r = NotExecutable /\ s' = s).
  Proof.
    intros (HF & _) Hex. destruct (FCore_unplan_unit gi Hwf Hwg s s' u r HF Hex) as (A & B & C & D).
    split; [exact A|]. split; [exact (FCore_FInv gi s' Hwf B)|]. split; assumption.
  Qed.

  Lemma FInv_unplan_vehicle_stmt (s s' : state) (v : nat) (r : result) :
    FInv gi s -> g_unplan_vehicle gi s v = (s', r) ->
    r <> UndoFailed /\ FInv gi s' /\ (r <> Done -> st_routes s' = st_routes s) /\
    (r = NotExecutable -> s' = s) /\
    (* a fixed unit keeps every stop, flagged or not, on its vehicle *)
    (forall u y w, u < nunits inp -> unit_fixed gi u = true ->
       In y (iu_stops (get_unit inp u)) ->
       In y (route_stops (get_route s w)) -> In y (route_stops (get_route s' w))) /\
    (* what is taken off: the input stops of vehicle v whose unit is not fixed *)
    (r = Done ->
       route_stops (get_route s' v)
       = filter (fun x => negb (is_input_stop inp x && negb (unit_fixed gi (unit_of_stop inp x))))
                (route_stops (get_route s v)) /\
       forall w, w <> v -> get_route s' w = get_route s w).
  Proof.
    intros (HF & _) Hex.
    destruct (FCore_unplan_vehicle gi Hwf s s' v r HF Hex) as (A & B & C & D & E).
    split; [exact A|]. split; [exact (FCore_FInv gi s' Hwf B)|]. split; [exact C|]. split; [exact D|].
    split; [exact (unplan_vehicle_keeps_fixed gi Hwf s s' v r HF Hex)|].
    intros Hd. destruct (E Hd) as (E1 & E2). split; [|exact E2]. rewrite E1.
    apply filter_ext_in'. intros x Hx. f_equal. apply eq_true_iff_eq.
    rewrite mem_nat_In, (vinner_iff gi Hwf s v x), andb_true_iff, negb_true_iff.
    unfold is_input_stop. rewrite Nat.ltb_lt. tauto.
  Qed.

  Lemma FInv_fixed_constant_stmt (s s' : state) :
    FInv gi s -> FInv gi s' -> forall u, In u (st_fixed s) <-> In u (st_fixed s').
  Proof.
    intros ((_ & _ & A & _) & _) ((_ & _ & B & _) & _) u. rewrite (A u), (B u). tauto.
  Qed.

  Lemma FInv_history_fixed_stmt :
    forall (h : list fop) (s : state), FInv gi s -> fops_ok gi s h ->
      Forall (fun s' => st_fixed s' = st_fixed s) (fops_run gi s h).
  Proof.
    induction h as [|o h IH]; intros s HF Hok; cbn [fops_run fops_ok] in *.
    - constructor; [reflexivity|constructor].
    - destruct Hok as (Ho & Hh). constructor; [reflexivity|].
      pose proof (fop_step_fixed gi s o Hwf Hwg HF Ho) as Hfx.
      destruct (FCore_step gi Hwf Hwg s o (proj1 HF) Ho) as (_ & B).
      specialize (IH _ (FCore_FInv gi _ Hwf B) Hh).
      eapply Forall_impl; [|exact IH]. cbv beta. intros a Ha. congruence.
  Qed.

End Statements.

Lemma wf_ginput_fixedb_unfold_proof : forall gi,
  wf_ginput_fixedb gi =
  (match gi_groups gi with [] => true | _ => false end) &&
  (length (gi_initial gi) <=? length (in_vehicles (gi_inp gi))) &&
  forallb (fun x => x <? nstops (gi_inp gi)) (concat (map (map fst) (gi_initial gi))) &&
  nodupb (concat (map (map fst) (gi_initial gi))) &&
  forallb (fun l =>
     forallb (fun u => negb (existsb (fun x => mem_nat x (map fst l)) (iu_stops u))
                       || forallb (fun y => mem_nat y (map fst l)) (iu_stops u))
             (in_units (gi_inp gi)))
    (gi_initial gi).
Proof. intros gi. reflexivity. Qed.

Lemma nodupb_unfold_proof : forall x r,
  nodupb [] = true /\ nodupb (x :: r) = negb (mem_nat x r) && nodupb r.
Proof. intros x r. split; reflexivity. Qed.

Lemma g_unplan_vehicle_old_unfold_proof : forall gi s v,
  g_unplan_vehicle_old gi s v =
  let inp := gi_inp gi in
  let old_stops := route_stops (get_route s v) in
  let removable := filter (fun x => negb (stop_fixed gi x)) old_stops in
  let inner := filter (fun x => is_input_stop inp x) removable in
  match inner with
  | [] => (s, NotExecutable)
  | _ =>
      let units := map (unit_of_stop inp) inner in
      let s1 := fold_left (fun st u => with_colls st (coll_remove u (st_planned st)) (coll_add u (st_unplanned st)) (st_fixed st)) units s in
      let new_stops := filter (fun x => negb (mem_nat x inner)) old_stops in
      let idx := index_in (hd 0 inner) old_stops - 1 in
      match g_is_feasible gi s1 v idx new_stops true with
      | inl s2 => (s2, Done)
      | inr k =>
          let s2 := fold_left (fun st u => with_colls st (coll_add u (st_planned st)) (coll_remove u (st_unplanned st)) (st_fixed st)) units s1 in
          match g_is_feasible gi (with_colls s (st_planned s2) (st_unplanned s2) (st_fixed s2)) v idx old_stops true with
          | inl s3 => (s3, Rejected k)
          | inr _ => (s2, UndoFailed)
          end
      end
  end.
Proof. intros gi s v. reflexivity. Qed.

(* ---- the hypotheses on the initial stops cannot be dropped ------------- *)

(* on the stops / units / vehicles of f_inp:
   f_part  lists only stop 1 of unit [0; 1] (not fixed);
   f_twice lists stop 2 on both vehicles;
   f_many  has a third list (flag set) for a vehicle that does not exist *)
Definition f_part : ginput := mkGInput f_inp [] [[(1, false)]; []].
Definition f_twice : ginput := mkGInput f_inp [] [[(2, false)]; [(2, false)]].
Definition f_many : ginput := mkGInput f_inp [] [[]; []; [(2, true)]].
Definition f_part_s0 : state :=
  Eval vm_compute in match g_new_solution f_part with Some s => s | None => w_dummy end.
Definition f_twice_s0 : state :=
  Eval vm_compute in match g_new_solution f_twice with Some s => s | None => w_dummy end.
Definition f_many_s0 : state :=
  Eval vm_compute in match g_new_solution f_many with Some s => s | None => w_dummy end.

Theorem wf_ginput_fixed_needed_proof :
  (* a unit listed in part: booked planned with one stop on the route, one off *)
  (g_new_solution f_part = Some f_part_s0 /\
   map route_stops (st_routes f_part_s0) = [[3; 1; 4]; [5; 6]] /\
   st_planned f_part_s0 = [0] /\ st_unplanned f_part_s0 = [1] /\ st_fixed f_part_s0 = [] /\
   unit_planned f_inp f_part_s0 0 = false /\ ~ FInv f_part f_part_s0) /\
  (* a stop listed by two vehicles: on both routes *)
  (g_new_solution f_twice = Some f_twice_s0 /\
   map route_stops (st_routes f_twice_s0) = [[3; 2; 4]; [5; 2; 6]] /\ ~ FInv f_twice f_twice_s0) /\
  (* a flag in a list without vehicle: the unit counts as fixed, nothing is placed or booked *)
  (g_new_solution f_many = Some f_many_s0 /\ unit_fixed f_many 1 = true /\
   map route_stops (st_routes f_many_s0) = [[3; 4]; [5; 6]] /\ st_fixed f_many_s0 = [] /\
   ~ FInv f_many f_many_s0).
Proof.
  split; [|split].
  - split; [vm_compute; reflexivity|]. do 5 (split; [reflexivity|]).
    intros ((_ & _ & _ & _ & Hfree & _) & _).
    destruct (Hfree 0 ltac:(vm_compute; lia) eq_refl) as (A & _).
    assert (H : unit_planned f_inp f_part_s0 0 = true) by (apply A; left; reflexivity).
    vm_compute in H. discriminate.
  - split; [vm_compute; reflexivity|]. split; [reflexivity|].
    intros (((_ & _ & Hnd & _) & _) & _). vm_compute in Hnd.
    inversion Hnd as [|a l Hn _]. apply Hn. left; reflexivity.
  - split; [vm_compute; reflexivity|]. do 3 (split; [reflexivity|]).
    intros ((_ & _ & Hfe & _) & _).
    assert (H : In 1 (st_fixed f_many_s0)).
    { apply Hfe. split; [vm_compute; lia|reflexivity]. }
    destruct H.
Qed.
