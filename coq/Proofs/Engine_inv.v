(* Invariants of the route engine model (Model/Engine.v).

   next_cell, stop_violation, temporal_values, score_terms and first_cell are
   treated as opaque below the marked line: the only facts used about them are
     c_stop_first_cell, c_stop_next_cell, score_terms_ext.                     *)

From Coq Require Import List ZArith Bool Arith Lia Permutation Sorted.
From NR Require Import Model.Engine Proofs.Engine_lists.
Import ListNotations.
Local Open Scope nat_scope.

(* ================================================================== *)
(* Definitions                                                         *)
(* ================================================================== *)

Definition nveh (inp : input) := length (in_vehicles inp).
Definition nunits (inp : input) := length (in_units inp).

(* input well-formedness: every input stop belongs to exactly one unit; the
   members of the duration groups are input stops (never a vehicle's first or
   last stop); every vehicle's stop duration multiplier is a non-negative
   fraction with a positive denominator *)
Definition wf_input (inp : input) : Prop :=
  NoDup (concat (map iu_stops (in_units inp))) /\
  (forall x, In x (concat (map iu_stops (in_units inp))) <-> (x < nstops inp)%nat) /\
  (forall u, In u (in_units inp) -> iu_stops u <> []) /\
  Forall (fun g => Forall (fun x => (x < nstops inp)%nat) (fst g)) (in_dgroups inp) /\
  Forall (fun ve => (0 < iv_mult_den ve)%Z /\ (0 <= iv_mult_num ve)%Z) (in_vehicles inp).

Definition route_shape (inp : input) (v : nat) (stops : list nat) : Prop :=
  exists mid, stops = first_stop inp v :: mid ++ [last_stop inp v] /\
              Forall (fun x => (x < nstops inp)%nat) mid.

Definition caches_ok (inp : input) (s : state) : Prop :=
  length (st_routes s) = nveh inp /\
  forall v, (v < nveh inp)%nat ->
    route_shape inp v (route_stops (get_route s v)) /\
    get_route s v = from_scratch inp v (route_stops (get_route s v)).

Definition cell_ok (inp : input) (v : nat) (c : cell) : Prop := stop_violation inp v true c = None.
Definition feasible (inp : input) (s : state) : Prop :=
  forall v, (v < nveh inp)%nat -> Forall (cell_ok inp v) (tl (get_route s v)).

Definition scores_ok (inp : input) (s : state) : Prop :=
  st_scores s = score_terms inp s /\ st_total s = sumZ (st_scores s).

Definition interior_stops (s : state) : list nat :=
  concat (map (fun r => removelast (tl (route_stops r))) (st_routes s)).

Definition colls_ok (inp : input) (s : state) : Prop :=
  NoDup (interior_stops s) /\
  NoDup (st_planned s) /\ NoDup (st_unplanned s) /\ st_fixed s = [] /\
  (forall u, (u < nunits inp)%nat ->
      (In u (st_planned s) <-> unit_planned inp s u = true) /\
      (In u (st_unplanned s) <-> unit_planned inp s u = false) /\
      (unit_planned inp s u = true \/
       forall x, In x (iu_stops (get_unit inp u)) -> stop_on_route s x = false)) /\
  (forall u, In u (st_planned s) \/ In u (st_unplanned s) -> (u < nunits inp)%nat).

Definition Inv (inp : input) (s : state) : Prop :=
  caches_ok inp s /\ feasible inp s /\ scores_ok inp s /\ colls_ok inp s.

(* a move as the engine builds them: all stops of the unit, each exactly once,
   gaps non-decreasing and inside the route *)
Definition move_ok (inp : input) (s : state) (mv : move) : Prop :=
  (mv_unit mv < nunits inp)%nat /\ (mv_vehicle mv < nveh inp)%nat /\
  Permutation (map fst (mv_places mv)) (iu_stops (get_unit inp (mv_unit mv))) /\
  mv_places mv <> [] /\
  Sorted le (map snd (mv_places mv)) /\
  Forall (fun g => (1 <= g /\ g <= length (get_route s (mv_vehicle mv)) - 1)%nat) (map snd (mv_places mv)).

Definition same_set (a b : list nat) : Prop := forall x, In x a <-> In x b.
(* what a caller can observe *)
Definition same_obs (a b : state) : Prop :=
  st_routes a = st_routes b /\ same_set (st_planned a) (st_planned b) /\
  same_set (st_unplanned a) (st_unplanned b) /\ same_set (st_fixed a) (st_fixed b) /\
  st_scores a = st_scores b /\ st_total a = st_total b.

Inductive op := OpPlan (mv : move) | OpUnplan (u : nat).
Definition step (inp : input) (s : state) (o : op) : state * result :=
  match o with OpPlan mv => exec_move inp s mv | OpUnplan u => unplan_unit inp s u end.
Definition op_ok (inp : input) (s : state) (o : op) : Prop :=
  match o with OpPlan mv => move_ok inp s mv | OpUnplan u => (u < nunits inp)%nat end.
(* a fresh history: every op is well-formed for the state it is executed on *)
Fixpoint fresh (inp : input) (s : state) (h : list op) : Prop :=
  match h with [] => True | o :: h' => op_ok inp s o /\ fresh inp (fst (step inp s o)) h' end.
Fixpoint run (inp : input) (s : state) (h : list op) : list state :=
  match h with [] => [s] | o :: h' => s :: run inp (fst (step inp s o)) h' end.

(* ---- additional definitions (not in the task statement) ---------- *)

(* The stops of unit u are never split over two routes: a route that holds
   one of them holds all of them.  Inv alone does NOT imply this and without it
   unplan_unit does not preserve Inv (see unplan_unit_inv_refuted). *)
Definition unit_together (inp : input) (s : state) (u : nat) : Prop :=
  forall v x y, (v < nveh inp)%nat ->
    In x (iu_stops (get_unit inp u)) -> In y (iu_stops (get_unit inp u)) ->
    In x (route_stops (get_route s v)) -> In y (route_stops (get_route s v)).

Definition together (inp : input) (s : state) : Prop :=
  forall u, (u < nunits inp)%nat -> unit_together inp s u.

(* the inductive invariant *)
Definition InvT (inp : input) (s : state) : Prop := Inv inp s /\ together inp s.

(* the filter un-plan applies to the route *)
Notation not_in us := (fun x : nat => negb (mem_nat x us)).

(* ================================================================== *)
(* The only facts that look inside first_cell / next_cell / score_terms *)
(* ================================================================== *)

Lemma c_stop_first_cell (inp : input) (v : nat) : c_stop (first_cell inp v) = first_stop inp v.
Proof. unfold first_cell. reflexivity. Qed.

Lemma c_stop_next_cell (inp : input) (v : nat) (p : cell) (s : nat) :
  c_stop (next_cell inp v p s) = s.
Proof.
  unfold next_cell.
  destruct (temporal_values inp v (c_end p) (c_stop p) s) as [[[tr ar] st] en].
  reflexivity.
Qed.

Lemma score_terms_ext (inp : input) (a b : state) :
  st_routes a = st_routes b -> Permutation (st_unplanned a) (st_unplanned b) ->
  score_terms inp a = score_terms inp b.
Proof.
  intros Hr Hu.
  unfold score_terms, obj_activation, obj_travel_duration, obj_vehicles_duration, obj_unplanned,
    obj_early, obj_late, obj_min_stops, obj_stop_balance, cap_obj_terms, obj_capacity_excess.
  rewrite Hr. rewrite (sumZ_map_perm (unit_penalty inp) _ _ Hu). reflexivity.
Qed.

(* ------------------------------------------------------------------ *)
(* OPAQUE from here on                                                 *)
(* ------------------------------------------------------------------ *)
Local Opaque next_cell stop_violation temporal_values score_terms first_cell.

(* ================================================================== *)
(* 1. propagate versus the independent recomputation                   *)
(* ================================================================== *)

Lemma propagate_inl (inp : input) (v : nat) (t : bool) :
  forall (rest : list nat) (p : cell) (cs : list cell),
    propagate inp v t p rest = inl cs ->
    cs = cells_from inp v p rest /\
    Forall (fun c => stop_violation inp v t c = None) cs.
Proof.
  induction rest as [|s rest IH]; intros p cs H; cbn [propagate cells_from] in *.
  - injection H as <-. split; [reflexivity|constructor].
  - destruct (stop_violation inp v t (next_cell inp v p s)) eqn:Ev; [discriminate|].
    destruct (propagate inp v t (next_cell inp v p s) rest) as [cs'|k] eqn:Ep; [|discriminate].
    injection H as <-. destruct (IH _ _ Ep) as (Hcs & Hall).
    split; [rewrite Hcs; reflexivity|]. constructor; assumption.
Qed.

Lemma propagate_complete (inp : input) (v : nat) (t : bool) :
  forall (rest : list nat) (p : cell),
    Forall (fun c => stop_violation inp v t c = None) (cells_from inp v p rest) ->
    propagate inp v t p rest = inl (cells_from inp v p rest).
Proof.
  induction rest as [|s rest IH]; intros p H; cbn [propagate cells_from] in *; [reflexivity|].
  inversion H as [|c l Hc Hl]; subst.
  rewrite Hc. rewrite (IH _ Hl). reflexivity.
Qed.

Theorem propagate_cells_from (inp : input) (v : nat) (t : bool) (p : cell) (rest : list nat) :
  (forall cs, propagate inp v t p rest = inl cs ->
      cs = cells_from inp v p rest /\
      Forall (fun c => stop_violation inp v t c = None) cs) /\
  (Forall (fun c => stop_violation inp v t c = None) (cells_from inp v p rest) ->
      propagate inp v t p rest = inl (cells_from inp v p rest)).
Proof.
  split; [intros cs; apply propagate_inl|apply propagate_complete].
Qed.

(* ================================================================== *)
(* cells_from / from_scratch                                           *)
(* ================================================================== *)

Lemma cells_from_firstn (inp : input) (v : nat) :
  forall (k : nat) (rest : list nat) (p : cell),
    firstn k (cells_from inp v p rest) = cells_from inp v p (firstn k rest).
Proof.
  induction k as [|k IH]; intros rest p; [reflexivity|].
  destruct rest as [|s rest]; [reflexivity|].
  cbn [cells_from firstn]. rewrite IH. reflexivity.
Qed.

Lemma cells_from_split (inp : input) (v : nat) :
  forall (k : nat) (rest : list nat) (p : cell),
    cells_from inp v p rest =
    firstn k (cells_from inp v p rest) ++
    cells_from inp v (last (firstn k (cells_from inp v p rest)) p) (skipn k rest).
Proof.
  induction k as [|k IH]; intros rest p; [reflexivity|].
  destruct rest as [|s rest]; [reflexivity|].
  cbn [cells_from firstn skipn]. rewrite last_cons_default.
  rewrite <- app_comm_cons. f_equal. apply IH.
Qed.

Lemma from_scratch_firstn (inp : input) (v : nat) (k : nat) (l : list nat) :
  firstn (S k) (from_scratch inp v l) = from_scratch inp v (firstn (S k) l).
Proof.
  destruct l as [|x r]; [reflexivity|].
  cbn [from_scratch firstn]. rewrite cells_from_firstn. reflexivity.
Qed.

Lemma from_scratch_split (inp : input) (v : nat) (k : nat) (l : list nat) :
  l <> [] ->
  from_scratch inp v l =
  firstn (S k) (from_scratch inp v l) ++
  cells_from inp v (last_cell (firstn (S k) (from_scratch inp v l))) (skipn (S k) l).
Proof.
  intros Hl. destruct l as [|x r]; [congruence|].
  cbn [from_scratch firstn skipn]. unfold last_cell. rewrite last_cons_default.
  rewrite <- app_comm_cons. f_equal. apply cells_from_split.
Qed.

Lemma route_stops_cells_from (inp : input) (v : nat) :
  forall (rest : list nat) (p : cell), route_stops (cells_from inp v p rest) = rest.
Proof.
  unfold route_stops. induction rest as [|s rest IH]; intros p; [reflexivity|].
  cbn [cells_from map]. rewrite c_stop_next_cell, IH. reflexivity.
Qed.

Lemma route_stops_from_scratch (inp : input) (v : nat) (l : list nat) :
  hd_error l = Some (first_stop inp v) -> route_stops (from_scratch inp v l) = l.
Proof.
  destruct l as [|x r]; [discriminate|]. simpl. intros H. injection H as ->.
  fold (route_stops (cells_from inp v (first_cell inp v) r)).
  rewrite c_stop_first_cell, route_stops_cells_from. reflexivity.
Qed.

(* ================================================================== *)
(* is_feasible                                                         *)
(* ================================================================== *)

Lemma is_feasible_spec (inp : input) (s : state) (v idx : nat)
      (old_stops new_stops : list nat) (t : bool) :
  get_route s v = from_scratch inp v old_stops ->
  new_stops <> [] ->
  firstn (S idx) new_stops = firstn (S idx) old_stops ->
  (forall s', is_feasible inp s v idx new_stops t = inl s' ->
     s' = refresh_scores inp (set_route s v (from_scratch inp v new_stops)) /\
     Forall (fun c => stop_violation inp v t c = None)
            (skipn (S idx) (from_scratch inp v new_stops))) /\
  (Forall (fun c => stop_violation inp v t c = None)
          (skipn (S idx) (from_scratch inp v new_stops)) ->
   is_feasible inp s v idx new_stops t
   = inl (refresh_scores inp (set_route s v (from_scratch inp v new_stops)))).
Proof.
  intros Hroute Hne Hpre.
  unfold is_feasible. rewrite Hroute.
  assert (Hp : firstn (S idx) (from_scratch inp v old_stops)
               = firstn (S idx) (from_scratch inp v new_stops)).
  { rewrite !from_scratch_firstn, Hpre. reflexivity. }
  rewrite Hp.
  pose proof (from_scratch_split inp v idx new_stops Hne) as Hsplit.
  set (pre := firstn (S idx) (from_scratch inp v new_stops)) in *.
  set (tailc := cells_from inp v (last_cell pre) (skipn (S idx) new_stops)) in *.
  assert (Hsk : skipn (S idx) (from_scratch inp v new_stops) = tailc).
  { pose proof (firstn_skipn (S idx) (from_scratch inp v new_stops)) as Hfs.
    fold pre in Hfs. rewrite Hsplit in Hfs at 2. apply app_inv_head in Hfs. exact Hfs. }
  rewrite Hsk. split.
  - intros s' H.
    destruct (propagate inp v t (last_cell pre) (skipn (S idx) new_stops)) as [cs|k] eqn:Ep;
      [|discriminate].
    injection H as <-. apply propagate_inl in Ep. destruct Ep as (Hcs & Hall).
    fold tailc in Hcs. subst cs. rewrite <- Hsplit. split; [reflexivity|exact Hall].
  - intros Hall. unfold tailc in Hall. rewrite (propagate_complete _ _ _ _ _ Hall).
    fold tailc. rewrite <- Hsplit. reflexivity.
Qed.

(* ================================================================== *)
(* State access                                                        *)
(* ================================================================== *)

Lemma get_route_upd_eq (s s' : state) (v : nat) (r : list cell) :
  st_routes s' = set_nth (st_routes s) v r -> v < length (st_routes s) -> get_route s' v = r.
Proof. intros Hr Hv. unfold get_route. rewrite Hr. apply nth_set_nth_eq. exact Hv. Qed.

Lemma get_route_upd_neq (s s' : state) (v v' : nat) (r : list cell) :
  st_routes s' = set_nth (st_routes s) v r -> v' <> v -> get_route s' v' = get_route s v'.
Proof. intros Hr Hne. unfold get_route. rewrite Hr. apply nth_set_nth_neq. auto. Qed.

Lemma get_route_ext (s s' : state) (v : nat) :
  st_routes s' = st_routes s -> get_route s' v = get_route s v.
Proof. intros Hr. unfold get_route. rewrite Hr. reflexivity. Qed.

Lemma length_route_stops (r : list cell) : length (route_stops r) = length r.
Proof. unfold route_stops. apply map_length. Qed.

Lemma stop_on_route_iff (s : state) (x : nat) :
  stop_on_route s x = true <->
  exists v, v < length (st_routes s) /\ In x (route_stops (get_route s v)).
Proof.
  unfold stop_on_route. rewrite existsb_exists. split.
  - intros (r & Hr & Hm). apply mem_nat_In in Hm.
    destruct (In_nth _ _ [] Hr) as (v & Hv & Hn).
    exists v. split; [exact Hv|]. unfold get_route. rewrite Hn. exact Hm.
  - intros (v & Hv & Hin). exists (get_route s v). split.
    + unfold get_route. apply nth_In. exact Hv.
    + apply mem_nat_In. exact Hin.
Qed.

Lemma stop_on_route_ext (s s' : state) (x : nat) :
  st_routes s' = st_routes s -> stop_on_route s' x = stop_on_route s x.
Proof. intros Hr. unfold stop_on_route. rewrite Hr. reflexivity. Qed.

Lemma unit_planned_iff (inp : input) (s : state) (u : nat) :
  unit_planned inp s u = true <->
  iu_stops (get_unit inp u) <> [] /\
  forall x, In x (iu_stops (get_unit inp u)) -> stop_on_route s x = true.
Proof.
  unfold unit_planned. destruct (iu_stops (get_unit inp u)) as [|a l].
  - split; [discriminate|]. intros (H & _). congruence.
  - rewrite forallb_forall. split.
    + intros H. split; [discriminate|exact H].
    + intros (_ & H). exact H.
Qed.

Lemma unit_planned_congr (inp : input) (s s' : state) (u : nat) :
  (forall x, In x (iu_stops (get_unit inp u)) -> stop_on_route s' x = stop_on_route s x) ->
  unit_planned inp s' u = unit_planned inp s u.
Proof.
  intros Hs. apply eq_true_iff_eq. rewrite !unit_planned_iff.
  split; intros (Hne & H); (split; [exact Hne|]); intros x Hx.
  - rewrite <- (Hs x Hx). exact (H x Hx).
  - rewrite (Hs x Hx). exact (H x Hx).
Qed.

Lemma unit_planned_ext (inp : input) (s s' : state) (u : nat) :
  st_routes s' = st_routes s -> unit_planned inp s' u = unit_planned inp s u.
Proof. intros Hr. apply unit_planned_congr. intros x _. apply stop_on_route_ext. exact Hr. Qed.

(* ================================================================== *)
(* Facts from wf_input                                                 *)
(* ================================================================== *)

Lemma get_unit_In (inp : input) (u : nat) :
  u < nunits inp -> In (get_unit inp u) (in_units inp).
Proof. intros Hu. unfold get_unit. apply nth_In. exact Hu. Qed.

Lemma unit_stops_lt (inp : input) (u x : nat) :
  wf_input inp -> u < nunits inp -> In x (iu_stops (get_unit inp u)) -> x < nstops inp.
Proof.
  intros (_ & Hcover & _) Hu Hx. apply Hcover. apply in_concat.
  exists (iu_stops (get_unit inp u)). split; [|exact Hx]. apply in_map. apply get_unit_In. exact Hu.
Qed.

Lemma unit_stops_nonempty (inp : input) (u : nat) :
  wf_input inp -> u < nunits inp -> iu_stops (get_unit inp u) <> [].
Proof. intros (_ & _ & Hne & _) Hu. apply Hne. apply get_unit_In. exact Hu. Qed.

Lemma unit_stops_NoDup (inp : input) (u : nat) :
  wf_input inp -> u < nunits inp -> NoDup (iu_stops (get_unit inp u)).
Proof.
  intros (Hnd & _ & _) Hu. apply (NoDup_concat_elem _ _ Hnd). apply in_map. apply get_unit_In. exact Hu.
Qed.

Lemma units_disjoint (inp : input) (u u' x : nat) :
  wf_input inp -> u < nunits inp -> u' < nunits inp -> u <> u' ->
  In x (iu_stops (get_unit inp u)) -> In x (iu_stops (get_unit inp u')) -> False.
Proof.
  intros (Hnd & _ & _) Hu Hu' Hne Hx Hx'. unfold get_unit in *.
  exact (NoDup_concat_nth iu_stops (mkIUnit [] []) (in_units inp) u u' x Hnd Hu Hu' Hne Hx Hx').
Qed.

(* a vehicle's first / last stop is in no duration group: it pays no group
   duration (but an input stop visited right after it does) *)
Lemma dgroup_find_not_input (n x : nat) (gs : list (list nat * Z)) :
  Forall (fun g => Forall (fun y => y < n) (fst g)) gs -> n <= x ->
  forall i, dgroup_find gs i x = None.
Proof.
  intros H Hx. induction H as [|[ss d] gs Hg _ IH]; intros i; cbn [dgroup_find]; [reflexivity|].
  cbn [fst] in Hg. destruct (existsb (Nat.eqb x) ss) eqn:E; [|apply IH].
  apply existsb_exists in E. destruct E as (y & Hy & E). apply Nat.eqb_eq in E. subst y.
  rewrite Forall_forall in Hg. specialize (Hg x Hy). lia.
Qed.

Lemma dgroup_of_not_input (inp : input) (x : nat) :
  wf_input inp -> nstops inp <= x -> dgroup_of inp x = None.
Proof.
  intros (_ & _ & _ & Hg & _) Hx. unfold dgroup_of. exact (dgroup_find_not_input _ x _ Hg Hx 0).
Qed.

Lemma stop_duration_at_not_input (inp : input) (p x : nat) :
  wf_input inp -> nstops inp <= x -> stop_duration_at inp p x = 0%Z.
Proof.
  intros Hwf Hx. unfold stop_duration_at, dgroup_extra, stop_duration.
  rewrite (dgroup_of_not_input inp x Hwf Hx).
  replace (is_input_stop inp x) with false by (symmetry; apply Nat.ltb_ge; exact Hx).
  destruct (o_dis_durations (in_opts inp)), (o_dis_dgroups (in_opts inp)); reflexivity.
Qed.

(* the multiplier of a vehicle (of any index: the default vehicle has 1/1) *)
Lemma wf_mult (inp : input) (v : nat) :
  wf_input inp ->
  (0 < iv_mult_den (get_vehicle inp v))%Z /\ (0 <= iv_mult_num (get_vehicle inp v))%Z.
Proof.
  intros (_ & _ & _ & _ & Hm). unfold get_vehicle.
  destruct (Nat.lt_ge_cases v (length (in_vehicles inp))) as [Hv|Hv].
  - rewrite Forall_forall in Hm. apply Hm. apply nth_In. exact Hv.
  - rewrite nth_overflow by exact Hv. cbn. lia.
Qed.

Lemma scale_duration_0 (inp : input) (v : nat) : scale_duration inp v 0%Z = 0%Z.
Proof.
  unfold scale_duration. destruct (o_dis_multipliers (in_opts inp)); [reflexivity|].
  cbv zeta. destruct (iv_mult_den (get_vehicle inp v) <=? 0)%Z; reflexivity.
Qed.

(* scaled values of non-negative durations are non-negative *)
Lemma scale_duration_nonneg (inp : input) (v : nat) (d : Z) :
  wf_input inp -> (0 <= d)%Z -> (0 <= scale_duration inp v d)%Z.
Proof.
  intros Hwf Hd. destruct (wf_mult inp v Hwf) as (H1 & H2).
  unfold scale_duration. destruct (o_dis_multipliers (in_opts inp)); [exact Hd|].
  cbv zeta. destruct (iv_mult_den (get_vehicle inp v) <=? 0)%Z; [exact Hd|].
  apply Z.div_pos; [apply Z.mul_nonneg_nonneg; assumption|exact H1].
Qed.

Lemma stop_duration_on_not_input (inp : input) (v p x : nat) :
  wf_input inp -> nstops inp <= x -> stop_duration_on inp v p x = 0%Z.
Proof.
  intros Hwf Hx. pose proof (stop_duration_at_not_input inp p x Hwf Hx) as H.
  unfold stop_duration_at in H. unfold stop_duration_on.
  assert (E1 : stop_duration inp x = 0%Z).
  { unfold stop_duration.
    replace (is_input_stop inp x) with false by (symmetry; apply Nat.ltb_ge; exact Hx).
    destruct (o_dis_durations (in_opts inp)); reflexivity. }
  rewrite E1 in *. rewrite Z.add_0_l in H. rewrite H, scale_duration_0. reflexivity.
Qed.

(* decidable form of the multiplier conjunct of wf_input (for concrete inputs) *)
Definition mult_ok_b (inp : input) : bool :=
  forallb (fun ve => (0 <? iv_mult_den ve)%Z && (0 <=? iv_mult_num ve)%Z) (in_vehicles inp).
Lemma mult_ok_b_ok (inp : input) :
  mult_ok_b inp = true ->
  Forall (fun ve => (0 < iv_mult_den ve)%Z /\ (0 <= iv_mult_num ve)%Z) (in_vehicles inp).
Proof.
  unfold mult_ok_b. intros H. rewrite forallb_forall in H. apply Forall_forall. intros ve Hve.
  specialize (H ve Hve). apply andb_true_iff in H. destruct H as (H1 & H2).
  apply Z.ltb_lt in H1. apply Z.leb_le in H2. split; assumption.
Qed.
Ltac mult_wf := apply mult_ok_b_ok; vm_compute; reflexivity.

(* multiplier 1 (or multipliers disabled): the unscaled time *)
Lemma stop_duration_on_unit (inp : input) (v p x : nat) :
  o_dis_multipliers (in_opts inp) = true \/
  (iv_mult_num (get_vehicle inp v) = 1%Z /\ iv_mult_den (get_vehicle inp v) = 1%Z) ->
  stop_duration_on inp v p x = stop_duration_at inp p x.
Proof.
  intros H. unfold stop_duration_on, stop_duration_at, scale_duration.
  destruct H as [H|(H1 & H2)]; [rewrite H; reflexivity|].
  destruct (o_dis_multipliers (in_opts inp)); [reflexivity|]. cbv zeta. rewrite H1, H2.
  cbn [Z.leb Z.compare]. rewrite !Z.mul_1_r, !Z.div_1_r. reflexivity.
Qed.

(* ================================================================== *)
(* route_shape                                                         *)
(* ================================================================== *)

Lemma route_shape_hd (inp : input) (v : nat) (l : list nat) :
  route_shape inp v l -> hd_error l = Some (first_stop inp v).
Proof. intros (mid & -> & _). reflexivity. Qed.

Lemma route_shape_ne (inp : input) (v : nat) (l : list nat) : route_shape inp v l -> l <> [].
Proof. intros (mid & -> & _). discriminate. Qed.

Lemma first_stop_ge (inp : input) (v : nat) : nstops inp <= first_stop inp v.
Proof. unfold first_stop. lia. Qed.
Lemma last_stop_ge (inp : input) (v : nat) : nstops inp <= last_stop inp v.
Proof. unfold last_stop. lia. Qed.

Lemma route_shape_interior (inp : input) (v : nat) (l : list nat) (x : nat) :
  route_shape inp v l -> (In x (removelast (tl l)) <-> In x l /\ x < nstops inp).
Proof.
  intros (mid & -> & Hmid). cbn [tl]. rewrite removelast_snoc.
  pose proof (first_stop_ge inp v) as Hf. pose proof (last_stop_ge inp v) as Hl.
  rewrite Forall_forall in Hmid. split.
  - intros Hx. split; [|exact (Hmid x Hx)]. right. apply in_or_app. left; exact Hx.
  - intros ([Hx|Hx] & Hlt); [lia|]. apply in_app_or in Hx. destruct Hx as [Hx|[Hx|[]]]; [exact Hx|lia].
Qed.

Definition interior (r : list cell) : list nat := removelast (tl (route_stops r)).

Lemma interior_stops_eq (s : state) : interior_stops s = concat (map interior (st_routes s)).
Proof. reflexivity. Qed.

Lemma In_interior_stops (inp : input) (s : state) (x : nat) :
  caches_ok inp s ->
  (In x (interior_stops s) <->
   x < nstops inp /\ exists v, v < nveh inp /\ In x (route_stops (get_route s v))).
Proof.
  intros (Hlen & Hc). rewrite interior_stops_eq, in_concat. split.
  - intros (l & Hl & Hx). apply in_map_iff in Hl. destruct Hl as (r & <- & Hr).
    destruct (In_nth _ _ [] Hr) as (v & Hv & Hn). rewrite Hlen in Hv.
    destruct (Hc v Hv) as (Hshape & _). unfold get_route in Hshape. rewrite Hn in Hshape.
    apply (route_shape_interior inp v _ x Hshape) in Hx. destruct Hx as (Hx & Hlt).
    split; [exact Hlt|]. exists v. split; [exact Hv|]. unfold get_route. rewrite Hn. exact Hx.
  - intros (Hlt & v & Hv & Hx). destruct (Hc v Hv) as (Hshape & _).
    exists (interior (get_route s v)). split.
    + apply in_map. unfold get_route. apply nth_In. rewrite Hlen. exact Hv.
    + apply (route_shape_interior inp v _ x Hshape). split; assumption.
Qed.

(* a stop of a unit sits on at most one route *)
Lemma interior_unique (inp : input) (s : state) (x v v' : nat) :
  caches_ok inp s -> NoDup (interior_stops s) ->
  v < nveh inp -> v' < nveh inp -> x < nstops inp ->
  In x (route_stops (get_route s v)) -> In x (route_stops (get_route s v')) -> v = v'.
Proof.
  intros Hc Hnd Hv Hv' Hlt Hx Hx'. destruct Hc as (Hlen & Hc).
  destruct (Nat.eq_dec v v') as [E|Hne]; [exact E|exfalso].
  rewrite interior_stops_eq in Hnd.
  apply (NoDup_concat_nth interior [] (st_routes s) v v' x Hnd); try (rewrite Hlen; assumption);
    try exact Hne.
  - apply (route_shape_interior inp v _ x (proj1 (Hc v Hv))). split; assumption.
  - apply (route_shape_interior inp v' _ x (proj1 (Hc v' Hv'))). split; assumption.
Qed.

(* ================================================================== *)
(* Extensionality of the invariant parts in the routes                 *)
(* ================================================================== *)

Lemma caches_ok_ext (inp : input) (s s' : state) :
  st_routes s' = st_routes s -> caches_ok inp s -> caches_ok inp s'.
Proof. unfold caches_ok, get_route. intros ->. tauto. Qed.

Lemma feasible_ext (inp : input) (s s' : state) :
  st_routes s' = st_routes s -> feasible inp s -> feasible inp s'.
Proof. unfold feasible, get_route. intros ->. tauto. Qed.

Lemma together_ext (inp : input) (s s' : state) :
  st_routes s' = st_routes s -> together inp s -> together inp s'.
Proof. unfold together, unit_together, get_route. intros ->. tauto. Qed.

Lemma colls_ok_ext (inp : input) (s s' : state) :
  st_routes s' = st_routes s -> st_fixed s' = st_fixed s ->
  same_set (st_planned s') (st_planned s) -> same_set (st_unplanned s') (st_unplanned s) ->
  NoDup (st_planned s') -> NoDup (st_unplanned s') ->
  colls_ok inp s -> colls_ok inp s'.
Proof.
  intros Hr Hfx Hp Hu Hnp Hnu (Hni & _ & _ & Hf & Hper & Hb).
  unfold colls_ok. unfold interior_stops. rewrite Hr, Hfx.
  split; [exact Hni|]. split; [exact Hnp|]. split; [exact Hnu|]. split; [exact Hf|]. split.
  - intros u Hlt. destruct (Hper u Hlt) as (A & B & C).
    rewrite (unit_planned_ext inp s s' u Hr). rewrite (Hp u), (Hu u).
    split; [exact A|]. split; [exact B|]. destruct C as [C|C]; [left; exact C|right].
    intros x Hx. rewrite (stop_on_route_ext s s' x Hr). exact (C x Hx).
  - intros u. rewrite (Hp u), (Hu u). apply Hb.
Qed.

Lemma scores_ok_refresh (inp : input) (s : state) : scores_ok inp (refresh_scores inp s).
Proof.
  unfold scores_ok, refresh_scores. cbn [st_scores st_total]. split; [|reflexivity].
  apply score_terms_ext; reflexivity.
Qed.

(* ================================================================== *)
(* Updating one route through is_feasible                              *)
(* ================================================================== *)

Lemma caches_ok_update (inp : input) (s s' : state) (v : nat) (new_stops : list nat) :
  caches_ok inp s -> v < nveh inp -> route_shape inp v new_stops ->
  st_routes s' = set_nth (st_routes s) v (from_scratch inp v new_stops) -> caches_ok inp s'.
Proof.
  intros (Hlen & Hc) Hv Hshape Hr. split.
  - rewrite Hr, length_set_nth. exact Hlen.
  - intros v' Hv'. destruct (Nat.eq_dec v' v) as [->|Hne].
    + rewrite (get_route_upd_eq s s' v _ Hr) by (rewrite Hlen; exact Hv).
      rewrite route_stops_from_scratch by (apply (route_shape_hd inp v); exact Hshape).
      split; [exact Hshape|reflexivity].
    + rewrite (get_route_upd_neq s s' v v' _ Hr Hne). apply Hc. exact Hv'.
Qed.

Lemma feasible_update (inp : input) (s s' : state) (v : nat) (r : list cell) :
  feasible inp s -> v < length (st_routes s) -> Forall (cell_ok inp v) (tl r) ->
  st_routes s' = set_nth (st_routes s) v r -> feasible inp s'.
Proof.
  intros Hf Hv Hr Hs v' Hv'. destruct (Nat.eq_dec v' v) as [->|Hne].
  - rewrite (get_route_upd_eq s s' v _ Hs Hv). exact Hr.
  - rewrite (get_route_upd_neq s s' v v' _ Hs Hne). apply Hf. exact Hv'.
Qed.

Lemma update_ok (inp : input) (s s1 s2 : state) (v idx : nat) (new_stops : list nat) :
  caches_ok inp s -> feasible inp s -> v < nveh inp ->
  st_routes s1 = st_routes s ->
  route_shape inp v new_stops ->
  firstn (S idx) new_stops = firstn (S idx) (route_stops (get_route s v)) ->
  is_feasible inp s1 v idx new_stops true = inl s2 ->
  s2 = refresh_scores inp (set_route s1 v (from_scratch inp v new_stops)) /\
  st_routes s2 = set_nth (st_routes s) v (from_scratch inp v new_stops) /\
  caches_ok inp s2 /\ feasible inp s2 /\ scores_ok inp s2.
Proof.
  intros Hc Hf Hv Hr1 Hshape Hpre Hfeas.
  pose proof Hc as (Hlen & Hc').
  destruct (Hc' v Hv) as (Hshape_old & Hcache).
  assert (Hroute1 : get_route s1 v = from_scratch inp v (route_stops (get_route s v))).
  { rewrite (get_route_ext s s1 v Hr1). exact Hcache. }
  destruct (is_feasible_spec inp s1 v idx _ new_stops true Hroute1
              (route_shape_ne inp v _ Hshape) Hpre) as (Hspec & _).
  destruct (Hspec s2 Hfeas) as (Hs2 & Hall).
  assert (Hroutes : st_routes s2 = set_nth (st_routes s) v (from_scratch inp v new_stops)).
  { rewrite Hs2. cbn [refresh_scores set_route st_routes]. rewrite Hr1. reflexivity. }
  split; [exact Hs2|]. split; [exact Hroutes|]. split; [|split].
  - exact (caches_ok_update inp s s2 v new_stops Hc Hv Hshape Hroutes).
  - apply (feasible_update inp s s2 v (from_scratch inp v new_stops) Hf); [rewrite Hlen; exact Hv| |exact Hroutes].
    apply (Forall_tl_split (cell_ok inp v) idx _ (get_route s v)).
    + rewrite Hcache at 1. rewrite !from_scratch_firstn, Hpre. reflexivity.
    + apply Hf. exact Hv.
    + exact Hall.
  - rewrite Hs2. apply scores_ok_refresh.
Qed.

(* putting the old stop sequence back always succeeds and restores the routes *)
Lemma rollback_ok (inp : input) (s s3 : state) (v idx : nat) :
  caches_ok inp s -> feasible inp s -> v < nveh inp -> st_routes s3 = st_routes s ->
  is_feasible inp s3 v idx (route_stops (get_route s v)) true
  = inl (refresh_scores inp (set_route s3 v (get_route s v))) /\
  st_routes (refresh_scores inp (set_route s3 v (get_route s v))) = st_routes s.
Proof.
  intros (Hlen & Hc) Hf Hv Hr3.
  destruct (Hc v Hv) as (Hshape & Hcache).
  assert (Hroute3 : get_route s3 v = from_scratch inp v (route_stops (get_route s v))).
  { rewrite (get_route_ext s s3 v Hr3). exact Hcache. }
  destruct (is_feasible_spec inp s3 v idx _ _ true Hroute3
              (route_shape_ne inp v _ Hshape) eq_refl) as (_ & Hspec).
  rewrite <- Hcache in Hspec. split.
  - apply Hspec. specialize (Hf v Hv). unfold cell_ok in Hf.
    destruct (get_route s v) as [|c r]; [constructor|].
    cbn [tl skipn] in *. apply Forall_skipn'. exact Hf.
  - cbn [refresh_scores set_route st_routes]. rewrite Hr3. unfold get_route. apply set_nth_same.
Qed.

(* a state with the old routes, the old collections up to order and refreshed
   scores is as good as the old state and observably the same *)
Lemma restore_inv (inp : input) (s s4 : state) :
  Inv inp s -> st_routes s4 = st_routes s -> st_fixed s4 = st_fixed s ->
  same_set (st_planned s4) (st_planned s) -> NoDup (st_planned s4) ->
  Permutation (st_unplanned s4) (st_unplanned s) ->
  scores_ok inp s4 ->
  Inv inp s4 /\ same_obs s4 s.
Proof.
  intros (Hc & Hf & (Hsc & Htot) & Hco) Hr Hfx Hp Hnp Hu (Hsc4 & Htot4).
  assert (Hscores : st_scores s4 = st_scores s).
  { rewrite Hsc4, Hsc. apply score_terms_ext; assumption. }
  assert (Hus : same_set (st_unplanned s4) (st_unplanned s)).
  { intros x. split; apply Permutation_in; [exact Hu|symmetry; exact Hu]. }
  split.
  - split; [exact (caches_ok_ext inp s s4 Hr Hc)|].
    split; [exact (feasible_ext inp s s4 Hr Hf)|].
    split; [split; assumption|].
    apply (colls_ok_ext inp s s4 Hr Hfx Hp Hus Hnp); [|exact Hco].
    apply (Permutation_NoDup (l := st_unplanned s)); [symmetry; exact Hu|].
    destruct Hco as (_ & _ & H & _). exact H.
  - split; [exact Hr|]. split; [exact Hp|]. split; [exact Hus|]. split.
    + rewrite Hfx. intros x; tauto.
    + split; [exact Hscores|]. rewrite Htot4, Htot, Hscores. reflexivity.
Qed.

Lemma same_obs_refl (s : state) : same_obs s s.
Proof. unfold same_obs, same_set. repeat split; auto. Qed.

(* ================================================================== *)
(* exec_move                                                           *)
(* ================================================================== *)

(* bookkeeping after a successful plan of unit u on vehicle v *)
Lemma exec_colls (inp : input) (s s2 : state) (u v : nat) (new_stops : list nat) :
  wf_input inp -> caches_ok inp s -> colls_ok inp s ->
  u < nunits inp -> v < nveh inp ->
  unit_planned inp s u = false ->
  st_routes s2 = set_nth (st_routes s) v (from_scratch inp v new_stops) ->
  route_shape inp v new_stops ->
  Permutation new_stops (route_stops (get_route s v) ++ iu_stops (get_unit inp u)) ->
  Permutation (removelast (tl new_stops))
              (removelast (tl (route_stops (get_route s v))) ++ iu_stops (get_unit inp u)) ->
  st_planned s2 = coll_add u (st_planned s) ->
  st_unplanned s2 = coll_remove u (st_unplanned s) ->
  st_fixed s2 = st_fixed s ->
  colls_ok inp s2 /\ (together inp s -> together inp s2).
Proof.
  intros Hwf Hc Hco Hu Hv Hpl Hr Hshape Hperm Hpermmid Hp2 Hu2 Hf2.
  pose proof Hc as (Hlen & Hc').
  destruct Hco as (Hni & Hnp & Hnu & Hfx & Hper & Hb).
  set (us := iu_stops (get_unit inp u)) in *.
  assert (Hoff : forall x, In x us -> stop_on_route s x = false).
  { destruct (Hper u Hu) as (_ & _ & [C|C]); [congruence|exact C]. }
  assert (Hvl : v < length (st_routes s)) by (rewrite Hlen; exact Hv).
  assert (Hhd : hd_error new_stops = Some (first_stop inp v))
    by (apply (route_shape_hd inp v); exact Hshape).
  assert (Hgv : route_stops (get_route s2 v) = new_stops).
  { rewrite (get_route_upd_eq s s2 v _ Hr Hvl). apply route_stops_from_scratch. exact Hhd. }
  assert (Hgo : forall v', v' <> v -> get_route s2 v' = get_route s v').
  { intros v' Hne. exact (get_route_upd_neq s s2 v v' _ Hr Hne). }
  assert (Hlen2 : length (st_routes s2) = length (st_routes s)).
  { rewrite Hr. apply length_set_nth. }
  assert (Hnew : forall x, In x new_stops <-> In x (route_stops (get_route s v)) \/ In x us).
  { intros x. split.
    - intros H. apply (Permutation_in _ Hperm) in H. apply in_app_or in H. exact H.
    - intros H. apply (Permutation_in _ (Permutation_sym Hperm)). apply in_or_app. exact H. }
  assert (Hon : forall x, stop_on_route s2 x = true <-> stop_on_route s x = true \/ In x us).
  { intros x. rewrite !stop_on_route_iff. split.
    - intros (v' & Hv' & Hin). destruct (Nat.eq_dec v' v) as [->|Hne].
      + rewrite Hgv in Hin. apply Hnew in Hin.
        destruct Hin as [Hin|Hin]; [left; exists v; auto|right; exact Hin].
      + rewrite (Hgo v' Hne) in Hin. left. exists v'. rewrite <- Hlen2. auto.
    - intros [(v' & Hv' & Hin)|Hin].
      + destruct (Nat.eq_dec v' v) as [->|Hne].
        * exists v. rewrite Hlen2, Hgv. split; [exact Hvl|]. apply Hnew. left; exact Hin.
        * exists v'. rewrite Hlen2, (Hgo v' Hne). auto.
      + exists v. rewrite Hlen2, Hgv. split; [exact Hvl|]. apply Hnew. right; exact Hin. }
  assert (Hplanned2 : unit_planned inp s2 u = true).
  { apply unit_planned_iff. split; [exact (unit_stops_nonempty inp u Hwf Hu)|].
    intros x Hx. apply Hon. right; exact Hx. }
  assert (Hsame : forall u', u' < nunits inp -> u' <> u ->
            forall x, In x (iu_stops (get_unit inp u')) -> stop_on_route s2 x = stop_on_route s x).
  { intros u' Hu' Hne x Hx. apply eq_true_iff_eq. rewrite Hon. split; [|auto].
    intros [H|H]; [exact H|]. exfalso.
    exact (units_disjoint inp u u' x Hwf Hu Hu' (fun e => Hne (eq_sym e)) H Hx). }
  split.
  - unfold colls_ok. rewrite Hp2, Hu2, Hf2. split; [|split; [|split; [|split; [|split]]]].
    + (* interior stops stay duplicate-free *)
      rewrite interior_stops_eq, Hr.
      destruct (concat_map_set_nth interior (st_routes s) v (from_scratch inp v new_stops) [] Hvl)
        as (R & P1 & P2).
      apply (Permutation_NoDup (Permutation_sym P2)).
      rewrite interior_stops_eq in Hni.
      pose proof (Permutation_NoDup P1 Hni) as Hni'.
      assert (Hint : interior (from_scratch inp v new_stops) = removelast (tl new_stops)).
      { unfold interior. rewrite route_stops_from_scratch by exact Hhd. reflexivity. }
      rewrite Hint.
      apply (Permutation_NoDup (l := us ++ (interior (get_route s v) ++ R))).
      * symmetry.
        transitivity ((removelast (tl (route_stops (get_route s v))) ++ us) ++ R).
        -- apply Permutation_app_tail. exact Hpermmid.
        -- rewrite <- app_assoc. apply Permutation_app_swap_app.
      * apply NoDup_app_iff. split; [exact (unit_stops_NoDup inp u Hwf Hu)|].
        split; [exact Hni'|].
        intros x Hx Hxi. apply (Permutation_in _ (Permutation_sym P1)) in Hxi.
        rewrite <- interior_stops_eq in Hxi.
        apply (In_interior_stops inp s x Hc) in Hxi. destruct Hxi as (_ & v' & Hv' & Hin).
        specialize (Hoff x Hx).
        assert (Hon' : stop_on_route s x = true)
          by (apply stop_on_route_iff; exists v'; rewrite Hlen; auto).
        congruence.
    + apply NoDup_coll_add; exact Hnp.
    + apply NoDup_coll_remove; exact Hnu.
    + exact Hfx.
    + intros u' Hu'. destruct (Nat.eq_dec u' u) as [->|Hne].
      * rewrite Hplanned2. split; [|split].
        -- split; [reflexivity|]. intros _. apply In_coll_add. left; reflexivity.
        -- split; [|discriminate]. intros H. apply In_coll_remove in H. destruct H as (_ & H). congruence.
        -- left; reflexivity.
      * rewrite (unit_planned_congr inp s s2 u' (Hsame u' Hu' Hne)).
        destruct (Hper u' Hu') as (A & B & C). split; [|split].
        -- rewrite In_coll_add. rewrite <- A. split; [intros [H|H]; [congruence|exact H]|auto].
        -- rewrite In_coll_remove. rewrite <- B. split; [tauto|]. intros H; split; [exact H|exact Hne].
        -- destruct C as [C|C]; [left; exact C|right]. intros x Hx.
           rewrite (Hsame u' Hu' Hne x Hx). exact (C x Hx).
    + intros u' [H|H].
      * apply In_coll_add in H. destruct H as [->|H]; [exact Hu|apply Hb; left; exact H].
      * apply In_coll_remove in H. apply Hb. right. tauto.
  - intros Ht u' Hu' v' x y Hv' Hx Hy Hin.
    destruct (Nat.eq_dec v' v) as [->|Hnev].
    + rewrite Hgv in Hin |- *. apply Hnew in Hin. apply Hnew. destruct Hin as [Hin|Hin].
      * left. exact (Ht u' Hu' v x y Hv Hx Hy Hin).
      * right. destruct (Nat.eq_dec u' u) as [->|Hneu]; [exact Hy|]. exfalso.
        exact (units_disjoint inp u u' x Hwf Hu Hu' (fun e => Hneu (eq_sym e)) Hin Hx).
    + rewrite (Hgo v' Hnev) in Hin |- *. exact (Ht u' Hu' v' x y Hv' Hx Hy Hin).
Qed.

Lemma exec_move_core (inp : input) (s s' : state) (mv : move) (r : result) :
  wf_input inp -> Inv inp s -> move_ok inp s mv -> exec_move inp s mv = (s', r) ->
  r <> UndoFailed /\ Inv inp s' /\ (together inp s -> together inp s') /\
  (r <> Done -> same_obs s' s) /\
  (r = Done ->
     route_stops (get_route s' (mv_vehicle mv))
     = insert_places 0 (route_stops (get_route s (mv_vehicle mv))) (mv_places mv) /\
     forall v, v <> mv_vehicle mv -> get_route s' v = get_route s v).
Proof.
  intros Hwf HI Hmv Hex.
  pose proof HI as (Hc & Hf & Hsc & Hco).
  destruct Hmv as (Hu & Hv & Hperm & Hne & Hsorted & Hgaps).
  unfold exec_move in Hex. cbv zeta in Hex.
  destruct (unit_planned inp s (mv_unit mv)) eqn:Epl.
  { injection Hex as <- <-. split; [discriminate|]. split; [exact HI|]. split; [auto|]. split.
    - intros _. apply same_obs_refl.
    - discriminate. }
  set (u := mv_unit mv) in *. set (v := mv_vehicle mv) in *. set (places := mv_places mv) in *.
  clearbody u v places.
  pose proof Hc as (Hlen & Hc').
  destruct (Hc' v Hv) as ((mid & Hold & Hmid) & Hcache).
  set (old_stops := route_stops (get_route s v)) in *.
  assert (Hlenold : length (get_route s v) = S (length mid + 1)).
  { rewrite <- length_route_stops. fold old_stops. rewrite Hold. simpl. rewrite app_length. simpl. lia. }
  assert (Hg : Forall (fun p => 1 <= snd p /\ snd p <= 1 + length mid) places).
  { rewrite Forall_map in Hgaps. eapply Forall_impl; [|exact Hgaps]. simpl. intros p. rewrite Hlenold. lia. }
  destruct (insert_places_last mid 1 places (last_stop inp v)) as (mid' & Hins & Hpm).
  { eapply Forall_impl; [|exact Hg]. simpl; intros; lia. }
  set (new_stops := insert_places 0 old_stops places) in *.
  assert (Hnew : new_stops = first_stop inp v :: mid' ++ [last_stop inp v]).
  { unfold new_stops. rewrite Hold. rewrite insert_places_head; [rewrite Hins; reflexivity|].
    eapply Forall_impl; [|exact Hg]. simpl; intros; lia. }
  assert (Hus_lt : Forall (fun x => x < nstops inp) (map fst places)).
  { apply Forall_forall. intros x Hx. apply (unit_stops_lt inp u x Hwf Hu).
    apply (Permutation_in _ Hperm). exact Hx. }
  assert (Hshape : route_shape inp v new_stops).
  { exists mid'. split; [exact Hnew|]. apply (Permutation_Forall (Permutation_sym Hpm)).
    apply Forall_app. split; assumption. }
  assert (Hfg : 1 <= first_gap places /\ first_gap places <= 1 + length mid).
  { destruct places as [|[x g] rest]; [congruence|]. inversion Hg; subst. simpl in *. assumption. }
  assert (Hpre : firstn (S (first_gap places - 1)) new_stops
                 = firstn (S (first_gap places - 1)) old_stops).
  { replace (S (first_gap places - 1)) with (first_gap places) by lia.
    unfold new_stops. apply insert_places_firstn.
    - rewrite Hold. simpl. rewrite app_length. simpl. lia.
    - simpl. apply first_gap_le_all. exact Hsorted. }
  destruct Hco as (Hni & Hnp & Hnu & Hfx & Hper & Hb).
  assert (Hin_unpl : In u (st_unplanned s)) by (apply (Hper u Hu); exact Epl).
  assert (Hnot_pl : ~ In u (st_planned s)).
  { intros H. apply (Hper u Hu) in H. congruence. }
  match type of Hex with (match ?X with _ => _ end) = _ => destruct X as [s2|k] eqn:E1 end.
  - (* the new route passes: Done *)
    injection Hex as <- <-.
    match type of E1 with is_feasible inp ?a v ?i new_stops true = _ =>
      destruct (update_ok inp s a s2 v i new_stops Hc Hf Hv eq_refl Hshape Hpre E1)
        as (Hs2 & Hr2 & Hc2 & Hf2 & Hsc2) end.
    assert (Hcolls : colls_ok inp s2 /\ (together inp s -> together inp s2)).
    { apply (exec_colls inp s s2 u v new_stops Hwf Hc (proj2 (proj2 (proj2 HI))) Hu Hv Epl Hr2 Hshape).
      - fold old_stops. transitivity (old_stops ++ map fst places).
        + apply insert_places_perm.
        + apply Permutation_app_head. exact Hperm.
      - fold old_stops. rewrite Hnew, Hold. cbn [tl]. rewrite !removelast_snoc.
        transitivity (mid ++ map fst places); [exact Hpm|]. apply Permutation_app_head. exact Hperm.
      - rewrite Hs2. reflexivity.
      - rewrite Hs2. reflexivity.
      - rewrite Hs2. reflexivity. }
    destruct Hcolls as (Hco2 & Htog2).
    split; [discriminate|]. split; [exact (conj Hc2 (conj Hf2 (conj Hsc2 Hco2)))|]. split; [exact Htog2|]. split.
    + intros H. congruence.
    + intros _. split.
      * rewrite (get_route_upd_eq s s2 v _ Hr2) by (rewrite Hlen; exact Hv).
        apply route_stops_from_scratch. apply (route_shape_hd inp v). exact Hshape.
      * intros v' Hne'. exact (get_route_upd_neq s s2 v v' _ Hr2 Hne').
  - (* violation: roll back *)
    match type of Hex with context [is_feasible inp ?a v ?i old_stops true] =>
      destruct (rollback_ok inp s a v i Hc Hf Hv eq_refl) as (Hrb & Hrr) end.
    fold old_stops in Hrb. rewrite Hrb in Hex. injection Hex as <- <-.
    match type of Hrr with st_routes ?a = _ => set (s4 := a) in * end.
    assert (Hres : Inv inp s4 /\ same_obs s4 s).
    { apply (restore_inv inp s s4 HI Hrr).
      - reflexivity.
      - intros x. unfold s4. cbn [refresh_scores set_route st_planned].
        rewrite In_coll_remove, In_coll_add. split.
        + intros ([->|H] & Hx); [congruence|exact H].
        + intros H. split; [right; exact H|]. intros ->. exact (Hnot_pl H).
      - unfold s4. cbn [refresh_scores set_route st_planned].
        apply NoDup_coll_remove, NoDup_coll_add. exact Hnp.
      - unfold s4. cbn [refresh_scores set_route st_unplanned].
        apply coll_add_remove_perm; assumption.
      - apply scores_ok_refresh. }
    destruct Hres as (HI4 & Hobs).
    split; [discriminate|]. split; [exact HI4|]. split.
    + intros Ht. exact (together_ext inp s s4 Hrr Ht).
    + split; [intros _; exact Hobs|discriminate].
Qed.

(* 3 *)
Theorem exec_move_inv (inp : input) (s s' : state) (mv : move) (r : result) :
  wf_input inp -> Inv inp s -> move_ok inp s mv -> exec_move inp s mv = (s', r) ->
  r <> UndoFailed /\ Inv inp s'.
Proof.
  intros Hwf HI Hmv Hex.
  destruct (exec_move_core inp s s' mv r Hwf HI Hmv Hex) as (A & B & _). split; assumption.
Qed.

(* 4 *)
Theorem exec_move_all_or_nothing (inp : input) (s s' : state) (mv : move) (r : result) :
  wf_input inp -> Inv inp s -> move_ok inp s mv -> exec_move inp s mv = (s', r) ->
  (r <> Done -> same_obs s' s) /\
  (r = Done ->
     route_stops (get_route s' (mv_vehicle mv))
     = insert_places 0 (route_stops (get_route s (mv_vehicle mv))) (mv_places mv) /\
     forall v, v <> mv_vehicle mv -> get_route s' v = get_route s v).
Proof.
  intros Hwf HI Hmv Hex.
  destruct (exec_move_core inp s s' mv r Hwf HI Hmv Hex) as (_ & _ & _ & A & B). split; assumption.
Qed.

Lemma exec_move_invT (inp : input) (s s' : state) (mv : move) (r : result) :
  wf_input inp -> InvT inp s -> move_ok inp s mv -> exec_move inp s mv = (s', r) -> InvT inp s'.
Proof.
  intros Hwf (HI & Ht) Hmv Hex.
  destruct (exec_move_core inp s s' mv r Hwf HI Hmv Hex) as (_ & B & C & _). split; auto.
Qed.

(* ================================================================== *)
(* unplan_unit                                                         *)
(* ================================================================== *)

Lemma coll_remove_add_notin (x : nat) (l : list nat) :
  ~ In x l -> coll_remove x (coll_add x l) = l.
Proof.
  intros Hn. unfold coll_add. rewrite (proj2 (mem_nat_false x l) Hn).
  unfold coll_remove. rewrite filter_app. cbn [filter]. rewrite Nat.eqb_refl. cbn [negb].
  rewrite app_nil_r. apply coll_remove_notin. exact Hn.
Qed.

Lemma nonempty_has_elem {A} (l : list A) : l <> [] -> exists x, In x l.
Proof. destruct l as [|a l]; [congruence|]. intros _. exists a. left; reflexivity. Qed.

Lemma vehicle_of_unit_some (inp : input) (s : state) (u v : nat) :
  vehicle_of_unit inp s u = Some v ->
  v < length (st_routes s) /\
  exists x0, In x0 (iu_stops (get_unit inp u)) /\ In x0 (route_stops (get_route s v)).
Proof.
  unfold vehicle_of_unit. destruct (iu_stops (get_unit inp u)) as [|x0 l]; [discriminate|].
  intros H. apply find_some in H. destruct H as (Hin & Hm).
  apply In_seqn in Hin. apply mem_nat_In in Hm.
  split; [exact Hin|]. exists x0. split; [left; reflexivity|exact Hm].
Qed.

(* bookkeeping after a successful un-plan of unit u, all of whose stops are on vehicle v *)
Lemma unplan_colls (inp : input) (s s2 : state) (u v : nat) (new_stops : list nat) :
  wf_input inp -> caches_ok inp s -> colls_ok inp s ->
  u < nunits inp -> v < nveh inp ->
  (forall y, In y (iu_stops (get_unit inp u)) -> In y (route_stops (get_route s v))) ->
  st_routes s2 = set_nth (st_routes s) v (from_scratch inp v new_stops) ->
  route_shape inp v new_stops ->
  (forall x, In x new_stops <->
             In x (route_stops (get_route s v)) /\ ~ In x (iu_stops (get_unit inp u))) ->
  removelast (tl new_stops)
  = filter (not_in (iu_stops (get_unit inp u))) (removelast (tl (route_stops (get_route s v)))) ->
  st_planned s2 = coll_remove u (st_planned s) ->
  st_unplanned s2 = coll_add u (st_unplanned s) ->
  st_fixed s2 = st_fixed s ->
  colls_ok inp s2 /\
  (forall x, In x (iu_stops (get_unit inp u)) -> stop_on_route s2 x = false) /\
  (together inp s -> together inp s2).
Proof.
  intros Hwf Hc Hco Hu Hv Hall Hr Hshape Hnew Hmid Hp2 Hu2 Hf2.
  pose proof Hc as (Hlen & Hc').
  destruct Hco as (Hni & Hnp & Hnu & Hfx & Hper & Hb).
  remember (iu_stops (get_unit inp u)) as us eqn:Hus.
  assert (Hvl : v < length (st_routes s)) by (rewrite Hlen; exact Hv).
  assert (Hhd : hd_error new_stops = Some (first_stop inp v))
    by (apply (route_shape_hd inp v); exact Hshape).
  assert (Hgv : route_stops (get_route s2 v) = new_stops).
  { rewrite (get_route_upd_eq s s2 v _ Hr Hvl). apply route_stops_from_scratch. exact Hhd. }
  assert (Hgo : forall v', v' <> v -> get_route s2 v' = get_route s v').
  { intros v' Hne. exact (get_route_upd_neq s s2 v v' _ Hr Hne). }
  assert (Hlen2 : length (st_routes s2) = length (st_routes s)).
  { rewrite Hr. apply length_set_nth. }
  assert (Huslt : forall x, In x us -> x < nstops inp).
  { intros x Hx. apply (unit_stops_lt inp u x Hwf Hu). rewrite <- Hus. exact Hx. }
  assert (Huniq : forall x v', In x us -> v' < nveh inp ->
                    In x (route_stops (get_route s v')) -> v' = v).
  { intros x v' Hx Hv' Hin.
    exact (interior_unique inp s x v' v Hc Hni Hv' Hv (Huslt x Hx) Hin (Hall x Hx)). }
  assert (Hoff2 : forall x, In x us -> stop_on_route s2 x = false).
  { intros x Hx. destruct (stop_on_route s2 x) eqn:E; [exfalso|reflexivity].
    apply stop_on_route_iff in E. destruct E as (v' & Hv' & Hin).
    rewrite Hlen2, Hlen in Hv'.
    destruct (Nat.eq_dec v' v) as [->|Hne].
    - rewrite Hgv in Hin. apply Hnew in Hin. destruct Hin as (_ & Hn). exact (Hn Hx).
    - rewrite (Hgo v' Hne) in Hin. exact (Hne (Huniq x v' Hx Hv' Hin)). }
  assert (Hother : forall x, ~ In x us -> stop_on_route s2 x = stop_on_route s x).
  { intros x Hx. apply eq_true_iff_eq. rewrite !stop_on_route_iff.
    split; intros (v' & Hv' & Hin); exists v'.
    - rewrite <- Hlen2. split; [exact Hv'|].
      destruct (Nat.eq_dec v' v) as [->|Hne].
      + rewrite Hgv in Hin. apply Hnew in Hin. tauto.
      + rewrite (Hgo v' Hne) in Hin. exact Hin.
    - rewrite Hlen2. split; [exact Hv'|].
      destruct (Nat.eq_dec v' v) as [->|Hne].
      + rewrite Hgv. apply Hnew. tauto.
      + rewrite (Hgo v' Hne). exact Hin. }
  assert (Hplanned2 : unit_planned inp s2 u = false).
  { destruct (unit_planned inp s2 u) eqn:E; [exfalso|reflexivity].
    apply unit_planned_iff in E. destruct E as (Hne & H). rewrite <- Hus in Hne, H.
    destruct (nonempty_has_elem us Hne) as (x0 & Hx0).
    specialize (H x0 Hx0). rewrite (Hoff2 x0 Hx0) in H. discriminate. }
  assert (Hsame : forall u', u' < nunits inp -> u' <> u ->
            forall x, In x (iu_stops (get_unit inp u')) -> stop_on_route s2 x = stop_on_route s x).
  { intros u' Hu' Hne x Hx. apply Hother. intros Hxu. rewrite Hus in Hxu.
    exact (units_disjoint inp u u' x Hwf Hu Hu' (fun e => Hne (eq_sym e)) Hxu Hx). }
  split; [|split; [exact Hoff2|]].
  - unfold colls_ok. rewrite Hp2, Hu2, Hf2. split; [|split; [|split; [|split; [|split]]]].
    + rewrite interior_stops_eq, Hr.
      destruct (concat_map_set_nth interior (st_routes s) v (from_scratch inp v new_stops) [] Hvl)
        as (R & P1 & P2).
      apply (Permutation_NoDup (Permutation_sym P2)).
      rewrite interior_stops_eq in Hni.
      pose proof (Permutation_NoDup P1 Hni) as Hni'.
      assert (Hint : interior (from_scratch inp v new_stops) = removelast (tl new_stops)).
      { unfold interior. rewrite route_stops_from_scratch by exact Hhd. reflexivity. }
      rewrite Hint, Hmid. apply NoDup_filter_app. exact Hni'.
    + apply NoDup_coll_remove; exact Hnp.
    + apply NoDup_coll_add; exact Hnu.
    + exact Hfx.
    + intros u' Hu'. destruct (Nat.eq_dec u' u) as [->|Hne].
      * rewrite Hplanned2. split; [|split].
        -- split; [|discriminate]. intros H. apply In_coll_remove in H. destruct H as (_ & H). congruence.
        -- split; [reflexivity|]. intros _. apply In_coll_add. left; reflexivity.
        -- right. rewrite <- Hus. exact Hoff2.
      * rewrite (unit_planned_congr inp s s2 u' (Hsame u' Hu' Hne)).
        destruct (Hper u' Hu') as (A & B & C). split; [|split].
        -- rewrite In_coll_remove. rewrite <- A. split; [tauto|]. intros H; split; [exact H|exact Hne].
        -- rewrite In_coll_add. rewrite <- B. split; [intros [H|H]; [congruence|exact H]|auto].
        -- destruct C as [C|C]; [left; exact C|right]. intros x Hx.
           rewrite (Hsame u' Hu' Hne x Hx). exact (C x Hx).
    + intros u' [H|H].
      * apply In_coll_remove in H. apply Hb. left. tauto.
      * apply In_coll_add in H. destruct H as [->|H]; [exact Hu|apply Hb; right; exact H].
  - intros Ht u' Hu' v' x y Hv' Hx Hy Hin.
    destruct (Nat.eq_dec v' v) as [->|Hnev].
    + rewrite Hgv in Hin |- *. apply Hnew in Hin. destruct Hin as (Hin & Hnx). apply Hnew.
      destruct (Nat.eq_dec u' u) as [->|Hneu]; [exfalso; apply Hnx; rewrite Hus; exact Hx|].
      split; [exact (Ht u' Hu' v x y Hv Hx Hy Hin)|].
      intros Hyu. rewrite Hus in Hyu.
      exact (units_disjoint inp u u' y Hwf Hu Hu' (fun e => Hneu (eq_sym e)) Hyu Hy).
    + rewrite (Hgo v' Hnev) in Hin |- *. exact (Ht u' Hu' v' x y Hv' Hx Hy Hin).
Qed.

Lemma unplan_unit_core (inp : input) (s s' : state) (u : nat) (r : result) :
  wf_input inp -> Inv inp s -> u < nunits inp -> unit_together inp s u ->
  unplan_unit inp s u = (s', r) ->
  r <> UndoFailed /\ Inv inp s' /\ (together inp s -> together inp s') /\
  (r <> Done -> same_obs s' s) /\
  (r = Done ->
     exists v, v < nveh inp /\ vehicle_of_unit inp s u = Some v /\
       (forall x, In x (iu_stops (get_unit inp u)) -> In x (route_stops (get_route s v))) /\
       route_stops (get_route s' v)
       = filter (not_in (iu_stops (get_unit inp u))) (route_stops (get_route s v)) /\
       (forall v', v' <> v -> get_route s' v' = get_route s v') /\
       (forall x, In x (iu_stops (get_unit inp u)) -> stop_on_route s' x = false)).
Proof.
  intros Hwf HI Hu Htog Hex.
  pose proof HI as (Hc & Hf & Hsc & Hco).
  unfold unplan_unit in Hex. cbv zeta in Hex.
  assert (Htriv : forall r0, r0 = NotExecutable -> (s, r0) = (s', r) ->
     r <> UndoFailed /\ Inv inp s' /\ (together inp s -> together inp s') /\
     (r <> Done -> same_obs s' s) /\
     (r = Done ->
       exists v, v < nveh inp /\ vehicle_of_unit inp s u = Some v /\
       (forall x, In x (iu_stops (get_unit inp u)) -> In x (route_stops (get_route s v))) /\
       route_stops (get_route s' v)
       = filter (not_in (iu_stops (get_unit inp u))) (route_stops (get_route s v)) /\
       (forall v', v' <> v -> get_route s' v' = get_route s v') /\
       (forall x, In x (iu_stops (get_unit inp u)) -> stop_on_route s' x = false))).
  { intros r0 -> H. injection H as <- <-. split; [discriminate|]. split; [exact HI|].
    split; [auto|]. split; [intros _; apply same_obs_refl|discriminate]. }
  destruct (unit_planned inp s u) eqn:Epl; cbn [negb] in Hex; [|exact (Htriv _ eq_refl Hex)].
  destruct (vehicle_of_unit inp s u) as [v|] eqn:Ev; [|exact (Htriv _ eq_refl Hex)].
  clear Htriv.
  pose proof Hc as (Hlen & Hc').
  destruct (vehicle_of_unit_some inp s u v Ev) as (Hvl & x0 & Hx0 & Hx0v).
  assert (Hv : v < nveh inp) by (rewrite <- Hlen; exact Hvl).
  remember (iu_stops (get_unit inp u)) as us eqn:Hus.
  assert (Hall : forall y, In y us -> In y (route_stops (get_route s v))).
  { intros y Hy. rewrite Hus in Hy, Hx0. exact (Htog v x0 y Hv Hx0 Hy Hx0v). }
  destruct (Hc' v Hv) as ((mid & Hold & Hmid) & Hcache).
  set (old_stops := route_stops (get_route s v)) in *.
  assert (Huslt : forall x, In x us -> x < nstops inp).
  { intros x Hx. apply (unit_stops_lt inp u x Hwf Hu). rewrite <- Hus. exact Hx. }
  assert (Hfirst : mem_nat (first_stop inp v) us = false).
  { apply mem_nat_false. intros H. apply Huslt in H. pose proof (first_stop_ge inp v) as Hfg. lia. }
  assert (Hlast : mem_nat (last_stop inp v) us = false).
  { apply mem_nat_false. intros H. apply Huslt in H. pose proof (last_stop_ge inp v) as Hlg. lia. }
  set (new_stops := filter (not_in us) old_stops) in *.
  assert (Hnew : new_stops = first_stop inp v :: filter (not_in us) mid ++ [last_stop inp v]).
  { unfold new_stops. rewrite Hold. cbn [filter]. rewrite Hfirst. cbn [negb].
    rewrite filter_app. cbn [filter]. rewrite Hlast. reflexivity. }
  assert (Hshape : route_shape inp v new_stops).
  { exists (filter (not_in us) mid). split; [exact Hnew|].
    apply Forall_forall. intros x Hx. apply filter_In in Hx. destruct Hx as (Hx & _).
    rewrite Forall_forall in Hmid. exact (Hmid x Hx). }
  assert (Hpre : firstn (S (first_gap (places_of us 0 old_stops) - 1)) new_stops
                 = firstn (S (first_gap (places_of us 0 old_stops) - 1)) old_stops).
  { unfold new_stops. rewrite Hold.
    exact (places_of_firstn us (first_stop inp v) (mid ++ [last_stop inp v]) Hfirst). }
  destruct Hco as (Hni & Hnp & Hnu & Hfx & Hper & Hb).
  assert (Hin_pl : In u (st_planned s)) by (apply (Hper u Hu); exact Epl).
  assert (Hnot_unpl : ~ In u (st_unplanned s)).
  { intros H. apply (Hper u Hu) in H. congruence. }
  match type of Hex with (match ?X with _ => _ end) = _ => destruct X as [s2|k] eqn:E1 end.
  - (* the route without the unit passes: Done *)
    injection Hex as <- <-.
    match type of E1 with is_feasible inp ?a v ?i new_stops true = _ =>
      destruct (update_ok inp s a s2 v i new_stops Hc Hf Hv eq_refl Hshape Hpre E1)
        as (Hs2 & Hr2 & Hc2 & Hf2 & Hsc2) end.
    assert (Hcolls : colls_ok inp s2 /\
              (forall x, In x (iu_stops (get_unit inp u)) -> stop_on_route s2 x = false) /\
              (together inp s -> together inp s2)).
    { apply (unplan_colls inp s s2 u v new_stops Hwf Hc (proj2 (proj2 (proj2 HI))) Hu Hv).
      - rewrite <- Hus. exact Hall.
      - exact Hr2.
      - exact Hshape.
      - rewrite <- Hus. fold old_stops. intros x. unfold new_stops. rewrite filter_In.
        rewrite negb_true_iff, mem_nat_false. tauto.
      - rewrite <- Hus. fold old_stops. rewrite Hnew, Hold. cbn [tl]. rewrite !removelast_snoc.
        reflexivity.
      - rewrite Hs2. reflexivity.
      - rewrite Hs2. reflexivity.
      - rewrite Hs2. reflexivity. }
    destruct Hcolls as (Hco2 & Hoff2 & Htog2).
    split; [discriminate|]. split; [exact (conj Hc2 (conj Hf2 (conj Hsc2 Hco2)))|].
    split; [exact Htog2|]. split.
    + intros H. congruence.
    + intros _. exists v. split; [exact Hv|]. split; [reflexivity|]. split; [exact Hall|]. split.
      * rewrite (get_route_upd_eq s s2 v _ Hr2) by exact Hvl.
        apply route_stops_from_scratch. apply (route_shape_hd inp v). exact Hshape.
      * split; [|rewrite Hus; exact Hoff2].
        intros v' Hne'. exact (get_route_upd_neq s s2 v v' _ Hr2 Hne').
  - (* violation: put the unit back *)
    match type of Hex with context [is_feasible inp ?a v ?i old_stops true] =>
      destruct (rollback_ok inp s a v i Hc Hf Hv eq_refl) as (Hrb & Hrr) end.
    fold old_stops in Hrb. rewrite Hrb in Hex. injection Hex as <- <-.
    match type of Hrr with st_routes ?a = _ => set (s4 := a) in * end.
    assert (Hres : Inv inp s4 /\ same_obs s4 s).
    { apply (restore_inv inp s s4 HI Hrr).
      - reflexivity.
      - unfold s4. cbn [refresh_scores set_route st_planned].
        pose proof (coll_add_remove_perm u (st_planned s) Hnp Hin_pl) as P.
        intros x. split; apply Permutation_in; [exact P|symmetry; exact P].
      - unfold s4. cbn [refresh_scores set_route st_planned].
        apply NoDup_coll_add, NoDup_coll_remove. exact Hnp.
      - unfold s4. cbn [refresh_scores set_route st_unplanned].
        rewrite (coll_remove_add_notin u _ Hnot_unpl). reflexivity.
      - apply scores_ok_refresh. }
    destruct Hres as (HI4 & Hobs).
    split; [discriminate|]. split; [exact HI4|]. split.
    + intros Ht. exact (together_ext inp s s4 Hrr Ht).
    + split; [intros _; exact Hobs|discriminate].
Qed.

(* 5.  FULL statement wanted (FALSE for the model, see unplan_unit_inv_refuted below):
     wf_input inp -> Inv inp s -> (u < nunits inp)%nat -> unplan_unit inp s u = (s', r) ->
     r <> UndoFailed /\ Inv inp s'
   Proved under the extra hypothesis [unit_together inp s u]: no route holds only
   part of the unit's stops.  Inv says "a unit is either completely on routes or
   not at all", but not "on ONE route"; un-plan only cleans the route of the
   unit's first stop.  For reachable states the hypothesis holds (InvT, run_invT). *)
Theorem unplan_unit_inv_partial (inp : input) (s s' : state) (u : nat) (r : result) :
  wf_input inp -> Inv inp s -> u < nunits inp -> unit_together inp s u ->
  unplan_unit inp s u = (s', r) ->
  r <> UndoFailed /\ Inv inp s'.
Proof.
  intros Hwf HI Hu Ht Hex.
  destruct (unplan_unit_core inp s s' u r Hwf HI Hu Ht Hex) as (A & B & _). split; assumption.
Qed.

Theorem unplan_unit_all_or_nothing_partial (inp : input) (s s' : state) (u : nat) (r : result) :
  wf_input inp -> Inv inp s -> u < nunits inp -> unit_together inp s u ->
  unplan_unit inp s u = (s', r) ->
  (r <> Done -> same_obs s' s) /\
  (r = Done ->
     exists v, v < nveh inp /\ vehicle_of_unit inp s u = Some v /\
       (forall x, In x (iu_stops (get_unit inp u)) -> In x (route_stops (get_route s v))) /\
       route_stops (get_route s' v)
       = filter (not_in (iu_stops (get_unit inp u))) (route_stops (get_route s v)) /\
       (forall v', v' <> v -> get_route s' v' = get_route s v') /\
       (forall x, In x (iu_stops (get_unit inp u)) -> stop_on_route s' x = false)).
Proof.
  intros Hwf HI Hu Ht Hex.
  destruct (unplan_unit_core inp s s' u r Hwf HI Hu Ht Hex) as (_ & _ & _ & A & B). split; assumption.
Qed.

(* the same two theorems at full strength for the inductive invariant InvT *)
Theorem unplan_unit_invT (inp : input) (s s' : state) (u : nat) (r : result) :
  wf_input inp -> InvT inp s -> u < nunits inp -> unplan_unit inp s u = (s', r) ->
  r <> UndoFailed /\ InvT inp s'.
Proof.
  intros Hwf (HI & Ht) Hu Hex.
  destruct (unplan_unit_core inp s s' u r Hwf HI Hu (Ht u Hu) Hex) as (A & B & C & _).
  split; [exact A|]. split; auto.
Qed.

Theorem unplan_unit_all_or_nothingT (inp : input) (s s' : state) (u : nat) (r : result) :
  wf_input inp -> InvT inp s -> u < nunits inp -> unplan_unit inp s u = (s', r) ->
  (r <> Done -> same_obs s' s) /\
  (r = Done ->
     exists v, v < nveh inp /\ vehicle_of_unit inp s u = Some v /\
       (forall x, In x (iu_stops (get_unit inp u)) -> In x (route_stops (get_route s v))) /\
       route_stops (get_route s' v)
       = filter (not_in (iu_stops (get_unit inp u))) (route_stops (get_route s v)) /\
       (forall v', v' <> v -> get_route s' v' = get_route s v') /\
       (forall x, In x (iu_stops (get_unit inp u)) -> stop_on_route s' x = false)).
Proof.
  intros Hwf (HI & Ht) Hu Hex.
  exact (unplan_unit_all_or_nothing_partial inp s s' u r Hwf HI Hu (Ht u Hu) Hex).
Qed.

Theorem exec_move_invT_full (inp : input) (s s' : state) (mv : move) (r : result) :
  wf_input inp -> InvT inp s -> move_ok inp s mv -> exec_move inp s mv = (s', r) ->
  r <> UndoFailed /\ InvT inp s'.
Proof.
  intros Hwf HI Hmv Hex. split.
  - exact (proj1 (exec_move_inv inp s s' mv r Hwf (proj1 HI) Hmv Hex)).
  - exact (exec_move_invT inp s s' mv r Hwf HI Hmv Hex).
Qed.

(* ================================================================== *)
(* 2. new_solution                                                     *)
(* ================================================================== *)

Lemma empty_route_spec (inp : input) (v : nat) (r : list cell) :
  empty_route inp v = Some r ->
  r = from_scratch inp v [first_stop inp v; last_stop inp v] /\ Forall (cell_ok inp v) (tl r).
Proof.
  unfold empty_route.
  destruct (propagate inp v true (first_cell inp v) [last_stop inp v]) as [cs|k] eqn:E; [|discriminate].
  intros H. injection H as <-. apply propagate_inl in E. destruct E as (-> & Hall).
  split; [reflexivity|exact Hall].
Qed.

Lemma new_solution_invT (inp : input) (s : state) :
  wf_input inp -> new_solution inp = Some s -> InvT inp s.
Proof.
  intros Hwf Hns. unfold new_solution in Hns.
  destruct (all_some (map (empty_route inp) (seqn (length (in_vehicles inp))))) as [routes|] eqn:Ea;
    [|discriminate].
  injection Hns as <-.
  destruct (all_some_map_spec _ _ _ Ea) as (Hlen & Hnth). rewrite length_seqn in Hlen, Hnth.
  set (s0 := mkState routes [] (seqn (length (in_units inp))) [] [] 0%Z).
  assert (Hroute : forall v, v < nveh inp ->
            get_route s0 v = from_scratch inp v [first_stop inp v; last_stop inp v] /\
            Forall (cell_ok inp v) (tl (get_route s0 v))).
  { intros v Hv. specialize (Hnth v 0 [] Hv). rewrite nth_seqn in Hnth by exact Hv.
    apply empty_route_spec in Hnth. exact Hnth. }
  assert (Hstops : forall v, v < nveh inp ->
            route_stops (get_route s0 v) = [first_stop inp v; last_stop inp v]).
  { intros v Hv. rewrite (proj1 (Hroute v Hv)). apply route_stops_from_scratch. reflexivity. }
  assert (Hc0 : caches_ok inp s0).
  { split; [exact Hlen|]. intros v Hv. rewrite (Hstops v Hv). split.
    - exists []. split; [reflexivity|constructor].
    - exact (proj1 (Hroute v Hv)). }
  assert (Hnone : forall x v, x < nstops inp -> v < nveh inp ->
            ~ In x (route_stops (get_route s0 v))).
  { intros x v Hx Hv Hin. rewrite (Hstops v Hv) in Hin.
    pose proof (first_stop_ge inp v) as Hfg. pose proof (last_stop_ge inp v) as Hlg.
    destruct Hin as [H|[H|[]]]; lia. }
  assert (Hoff : forall x, x < nstops inp -> stop_on_route s0 x = false).
  { intros x Hx. destruct (stop_on_route s0 x) eqn:E; [exfalso|reflexivity].
    apply stop_on_route_iff in E. destruct E as (v & Hv & Hin).
    change (length (st_routes s0)) with (length routes) in Hv. rewrite Hlen in Hv.
    exact (Hnone x v Hx Hv Hin). }
  assert (Hunpl : forall u, u < nunits inp -> unit_planned inp s0 u = false).
  { intros u Hu. destruct (unit_planned inp s0 u) eqn:E; [exfalso|reflexivity].
    apply unit_planned_iff in E. destruct E as (Hne & H).
    destruct (nonempty_has_elem _ Hne) as (x0 & Hx0).
    specialize (H x0 Hx0). rewrite (Hoff x0 (unit_stops_lt inp u x0 Hwf Hu Hx0)) in H. discriminate. }
  assert (Hco0 : colls_ok inp s0).
  { unfold colls_ok. cbn [st_planned st_unplanned st_fixed s0].
    split; [|split; [|split; [|split; [|split]]]].
    - assert (Hemp : forall x, ~ In x (interior_stops s0)).
      { intros x Hx. apply (In_interior_stops inp s0 x Hc0) in Hx.
        destruct Hx as (Hlt & v & Hv & Hin). exact (Hnone x v Hlt Hv Hin). }
      destruct (interior_stops s0) as [|a l]; [constructor|].
      exfalso. apply (Hemp a). left; reflexivity.
    - constructor.
    - apply NoDup_seqn.
    - reflexivity.
    - intros u Hu. rewrite (Hunpl u Hu). split; [|split].
      + split; [intros []|discriminate].
      + split; [reflexivity|]. intros _. apply In_seqn. exact Hu.
      + right. intros x Hx. apply Hoff. exact (unit_stops_lt inp u x Hwf Hu Hx).
    - intros u [[]|H]. apply In_seqn in H. exact H. }
  assert (Hr : st_routes (refresh_scores inp s0) = st_routes s0) by reflexivity.
  split.
  - split; [exact (caches_ok_ext inp s0 _ Hr Hc0)|]. split; [|split].
    + apply (feasible_ext inp s0 _ Hr). intros v Hv. exact (proj2 (Hroute v Hv)).
    + apply scores_ok_refresh.
    + apply (colls_ok_ext inp s0 _ Hr); try reflexivity; try (intros x; tauto).
      * constructor.
      * apply NoDup_seqn.
      * exact Hco0.
  - apply (together_ext inp s0 _ Hr).
    intros u Hu v x y Hv Hx Hy Hin. exfalso.
    exact (Hnone x v (unit_stops_lt inp u x Hwf Hu Hx) Hv Hin).
Qed.

Theorem new_solution_inv (inp : input) (s : state) :
  wf_input inp -> new_solution inp = Some s -> Inv inp s.
Proof. intros Hwf Hns. exact (proj1 (new_solution_invT inp s Hwf Hns)). Qed.

(* ================================================================== *)
(* 6. every reachable state                                            *)
(* ================================================================== *)

Lemma step_invT (inp : input) (s : state) (o : op) :
  wf_input inp -> InvT inp s -> op_ok inp s o -> InvT inp (fst (step inp s o)).
Proof.
  intros Hwf HI Hok. destruct o as [mv|u]; cbn [step op_ok] in *.
  - destruct (exec_move inp s mv) as [s' r] eqn:E.
    exact (exec_move_invT inp s s' mv r Hwf HI Hok E).
  - destruct (unplan_unit inp s u) as [s' r] eqn:E.
    exact (proj2 (unplan_unit_invT inp s s' u r Hwf HI Hok E)).
Qed.

Lemma run_invT_from (inp : input) :
  wf_input inp -> forall (h : list op) (s : state),
    InvT inp s -> fresh inp s h -> Forall (InvT inp) (run inp s h).
Proof.
  intros Hwf. induction h as [|o h IH]; intros s HI Hfr; cbn [run fresh] in *.
  - constructor; [exact HI|constructor].
  - destruct Hfr as (Hok & Hfr). constructor; [exact HI|].
    apply IH; [|exact Hfr]. exact (step_invT inp s o Hwf HI Hok).
Qed.

Theorem run_invT (inp : input) (s0 : state) (h : list op) :
  wf_input inp -> new_solution inp = Some s0 -> fresh inp s0 h ->
  Forall (InvT inp) (run inp s0 h).
Proof.
  intros Hwf Hns Hfr. exact (run_invT_from inp Hwf h s0 (new_solution_invT inp s0 Hwf Hns) Hfr).
Qed.

Theorem run_inv (inp : input) (s0 : state) (h : list op) :
  wf_input inp -> new_solution inp = Some s0 -> fresh inp s0 h ->
  Forall (Inv inp) (run inp s0 h).
Proof.
  intros Hwf Hns Hfr. eapply Forall_impl; [|exact (run_invT inp s0 h Hwf Hns Hfr)].
  intros s (HI & _). exact HI.
Qed.

(* ================================================================== *)
(* 7. cached schedules depend only on the routes                       *)
(* ================================================================== *)

Theorem caches_history_independent (inp : input) (s1 s2 : state) :
  Inv inp s1 -> Inv inp s2 ->
  map route_stops (st_routes s1) = map route_stops (st_routes s2) ->
  st_routes s1 = st_routes s2.
Proof.
  intros ((Hl1 & Hc1) & _) ((Hl2 & Hc2) & _) Hm.
  apply (nth_ext _ _ [] []); [congruence|]. intros v Hv. rewrite Hl1 in Hv.
  assert (Hst : route_stops (get_route s1 v) = route_stops (get_route s2 v)).
  { pose proof (map_nth route_stops (st_routes s1) [] v) as E1.
    pose proof (map_nth route_stops (st_routes s2) [] v) as E2.
    rewrite Hm in E1. unfold get_route. congruence. }
  change (get_route s1 v = get_route s2 v).
  transitivity (from_scratch inp v (route_stops (get_route s1 v))); [exact (proj2 (Hc1 v Hv))|].
  rewrite Hst. symmetry. exact (proj2 (Hc2 v Hv)).
Qed.

(* ================================================================== *)
(* Non-vacuity: a concrete run exercising Done and the rollback branch *)
(* ================================================================== *)

Definition ex_opts : options :=
  mkOptions false false false false false false false false false false false 0%Z 1%Z 0%Z 1%Z false 0%Z 0%Z 0%Z 0%Z false [].
Definition ex_mat : list (list Z) :=
  [[0;60;60;60];[60;0;60;60];[60;60;0;60];[60;60;60;0]]%Z.
(* 2 stops (each picks up 1, stop 0 has a time window), 1 vehicle of capacity 1,
   one unit per stop *)
Definition ex_inp : input :=
  mkInput [] [mkIStop [(-1)%Z] 10%Z [(0%Z, 3600%Z)] None 100%Z [] None 0%Z 0%Z;
           mkIStop [(-1)%Z] 10%Z [] None 100%Z [] None 0%Z 0%Z]
          [mkIVehicle (Some [1%Z]) [0%Z] 0%Z None None None None None [] 0%Z true true 0%Z 0%Z 1%Z 1%Z]
          [mkIUnit [0] []; mkIUnit [1] []]
          ex_mat ex_mat 1 ex_opts [].
Definition ex_dummy : state := mkState [] [] [] [] [] 0%Z.
Definition ex_s0 : state :=
  Eval vm_compute in match new_solution ex_inp with Some s => s | None => ex_dummy end.
Definition ex_mv1 : move := mkMove 0 0 [(0, 1)].
Definition ex_mv2 : move := mkMove 1 0 [(1, 1)].
Definition ex_s1 : state := Eval vm_compute in fst (exec_move ex_inp ex_s0 ex_mv1).

Example ex_wf : wf_input ex_inp.
Proof.
  split; [|split; [|split; [|split; [exact (Forall_nil _)|mult_wf]]]].
  - vm_compute. constructor; [simpl; lia|]. constructor; [simpl; tauto|constructor].
  - intros x. vm_compute. lia.
  - intros u Hu. vm_compute in Hu. destruct Hu as [<-|[<-|[]]]; discriminate.
Qed.

Example ex_new : new_solution ex_inp = Some ex_s0.
Proof. vm_compute. reflexivity. Qed.

Example ex_move1_ok : move_ok ex_inp ex_s0 ex_mv1.
Proof.
  unfold move_ok. vm_compute.
  split; [lia|]. split; [lia|]. split; [apply Permutation_refl|]. split; [discriminate|].
  split; [repeat constructor|]. repeat constructor.
Qed.

Example ex_move1_done : exec_move ex_inp ex_s0 ex_mv1 = (ex_s1, Done).
Proof. vm_compute. reflexivity. Qed.

Example ex_move2_ok : move_ok ex_inp ex_s1 ex_mv2.
Proof.
  unfold move_ok. vm_compute.
  split; [lia|]. split; [lia|]. split; [apply Permutation_refl|]. split; [discriminate|].
  split; [repeat constructor|]. repeat constructor.
Qed.

(* capacity is violated: the rollback branch runs and restores the state *)
Example ex_move2_rejected : exec_move ex_inp ex_s1 ex_mv2 = (ex_s1, Rejected (KCapacity 0)).
Proof. vm_compute. reflexivity. Qed.

Example ex_unplan_done : snd (unplan_unit ex_inp ex_s1 0) = Done.
Proof. vm_compute. reflexivity. Qed.

(* the theorems apply to this run *)
Example ex_inv_s1 : Inv ex_inp ex_s1.
Proof.
  exact (proj2 (exec_move_inv ex_inp ex_s0 ex_s1 ex_mv1 Done ex_wf
                  (new_solution_inv ex_inp ex_s0 ex_wf ex_new) ex_move1_ok ex_move1_done)).
Qed.

Example ex_fresh :
  fresh ex_inp ex_s0 [OpPlan ex_mv1; OpPlan ex_mv2; OpUnplan 0].
Proof.
  cbn [fresh op_ok step]. rewrite ex_move1_done. cbn [fst].
  split; [exact ex_move1_ok|].
  split; [exact ex_move2_ok|]. split; [vm_compute; lia|exact I].
Qed.

(* ================================================================== *)
(* unplan_unit does not preserve Inv alone                             *)
(* ================================================================== *)

(* 2 vehicles, one unit {0,1}; stop 0 on vehicle 0, stop 1 on vehicle 1.
   (Not reachable through exec_move, but it satisfies Inv.) *)
Definition cx_inp : input :=
  mkInput [] [mkIStop [] 0%Z [] None 0%Z [] None 0%Z 0%Z; mkIStop [] 0%Z [] None 0%Z [] None 0%Z 0%Z]
          [dflt_vehicle; dflt_vehicle]
          [mkIUnit [0; 1] []]
          [] [] 0 ex_opts [].
Definition cx_s : state :=
  Eval vm_compute in
  refresh_scores cx_inp
    (mkState [from_scratch cx_inp 0 [2; 0; 3]; from_scratch cx_inp 1 [4; 1; 5]] [0] [] [] [] 0%Z).
Definition cx_s' : state := Eval vm_compute in fst (unplan_unit cx_inp cx_s 0).

Lemma cx_wf : wf_input cx_inp.
Proof.
  split; [|split; [|split; [|split; [exact (Forall_nil _)|mult_wf]]]].
  - vm_compute. constructor; [simpl; lia|]. constructor; [simpl; tauto|constructor].
  - intros x. vm_compute. lia.
  - intros u Hu. vm_compute in Hu. destruct Hu as [<-|[]]; discriminate.
Qed.

Lemma cx_inv : Inv cx_inp cx_s.
Proof.
  split; [|split; [|split]].
  - split; [reflexivity|]. intros v Hv. change (nveh cx_inp) with 2 in Hv.
    destruct v as [|[|v]]; [| |lia].
    + split; [|vm_compute; reflexivity]. exists [0]. split; [vm_compute; reflexivity|].
      constructor; [vm_compute; lia|constructor].
    + split; [|vm_compute; reflexivity]. exists [1]. split; [vm_compute; reflexivity|].
      constructor; [vm_compute; lia|constructor].
  - intros v Hv. change (nveh cx_inp) with 2 in Hv.
    destruct v as [|[|v]]; [| |lia]; repeat constructor.
  - split; vm_compute; reflexivity.
  - unfold colls_ok. split; [|split; [|split; [|split; [|split]]]].
    + vm_compute. constructor; [simpl; lia|]. constructor; [simpl; tauto|constructor].
    + vm_compute. constructor; [simpl; tauto|constructor].
    + constructor.
    + reflexivity.
    + intros u Hu. change (nunits cx_inp) with 1 in Hu. assert (u = 0) by lia. subst u.
      split; [|split].
      * vm_compute. tauto.
      * vm_compute. split; [tauto|discriminate].
      * left. vm_compute. reflexivity.
    + intros u Hu. vm_compute in Hu. vm_compute. lia.
Qed.

Theorem unplan_unit_inv_refuted :
  exists inp s u s' r,
    wf_input inp /\ Inv inp s /\ u < nunits inp /\ unplan_unit inp s u = (s', r) /\
    r = Done /\ ~ Inv inp s'.
Proof.
  exists cx_inp, cx_s, 0, cx_s', Done.
  split; [exact cx_wf|]. split; [exact cx_inv|]. split; [vm_compute; lia|].
  split; [vm_compute; reflexivity|]. split; [reflexivity|].
  intros (_ & _ & _ & (_ & _ & _ & _ & Hper & _)).
  assert (H0 : 0 < nunits cx_inp) by (vm_compute; lia).
  destruct (Hper 0 H0) as (_ & _ & [H|H]).
  - vm_compute in H. discriminate.
  - specialize (H 1 (or_intror (or_introl eq_refl))). vm_compute in H. discriminate.
Qed.

(* the missing hypothesis is exactly what fails on the witness *)
Example cx_not_together : ~ unit_together cx_inp cx_s 0.
Proof.
  intros H.
  assert (Hv : 0 < nveh cx_inp) by (vm_compute; lia).
  specialize (H 0 0 1 Hv (or_introl eq_refl) (or_intror (or_introl eq_refl))).
  vm_compute in H. specialize (H (or_intror (or_introl eq_refl))).
  destruct H as [H|[H|[H|[]]]]; discriminate.
Qed.

Example ex_run_inv :
  Forall (Inv ex_inp) (run ex_inp ex_s0 [OpPlan ex_mv1; OpPlan ex_mv2; OpUnplan 0]).
Proof. exact (run_inv ex_inp ex_s0 _ ex_wf ex_new ex_fresh). Qed.

(* ================================================================== *)
(* Assumptions                                                         *)
(* ================================================================== *)

Print Assumptions propagate_cells_from.
Print Assumptions new_solution_inv.
Print Assumptions exec_move_inv.
Print Assumptions exec_move_all_or_nothing.
Print Assumptions unplan_unit_inv_partial.
Print Assumptions unplan_unit_all_or_nothing_partial.
Print Assumptions unplan_unit_inv_refuted.
Print Assumptions unplan_unit_invT.
Print Assumptions unplan_unit_all_or_nothingT.
Print Assumptions exec_move_invT_full.
Print Assumptions run_invT.
Print Assumptions run_inv.
Print Assumptions caches_history_independent.
Print Assumptions insert_places_places_of0.
Print Assumptions ex_move2_rejected.
Print Assumptions ex_run_inv.
