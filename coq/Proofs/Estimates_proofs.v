(* C09: the fast feasibility ESTIMATES (Model/Estimates.v) against the exact
   checks of the engine (Model/Engine.v).

   Question: when [move_executable inp s mv = true], does [exec_move] succeed?

   Answer, constraint by constraint (new cells = cells_from p nsuf, p the cached
   cell in front of the first position, nsuf the new stop sequence after it):

     est_max_stops, est_attributes   no exact check exists in stop_violation:
                                     nothing to contradict
     est_latest_start / _end         SOUND (full forward simulation)
     est_capacity                    SOUND (all four branches, incl. the
                                     downstream early exit); the end-level
                                     shortcut needs 0 <= start level, which
                                     every reachable state has
     est_distance                    SOUND when the distance matrix has no
                                     negative entry (hypothesis distances_nonneg)
     est_max_wait_stop               SOUND as the code is now (the early break
                                     is harmless: equal arrival AND equal end
                                     at a planned stop => the rest of the
                                     schedule is the old one, duration groups
                                     or not: the next stop has the same
                                     predecessor as before)
     est_max_wait_vehicle            SOUND as the code is now: the early break
                                     is moreover guarded by "the wait
                                     accumulated in front of the stop is not
                                     larger than the cached one", so downstream
                                     accumulated waits can only shrink.
     est_max_wait_*_arrival_only     (Model/Estimates.v: the break BEFORE the
                                     repair of the duration-group defect,
                                     arrival only) NOT SOUND with duration
                                     groups: the time spent at the stop depends
                                     on the stop in front of it (section 8:
                                     dg_break_refuted, dg_break_refuted_vehicle;
                                     the witness replayed on the real code and
                                     led to the repair).  Sound, and equal to
                                     the repaired estimates, when the groups
                                     are inert (C09_check_end_equivalent_
                                     without_groups_proof).
     est_max_wait_vehicle_prefix     (the estimate BEFORE the fix of the guard:
                                     the code as it is now without the guard,
                                     defined here) NOT SOUND: the break forgot
                                     that the accumulated wait downstream
                                     includes the waits of the inserted stops
                                     (C09_max_wait_vehicle_refuted_proof; the
                                     witness replayed on the real code and led
                                     to the fix).  It was sound only for metric
                                     travel durations and stop and group
                                     durations >= 0.

   Main results: C09_executable_executes_proof (full strength, current code),
   C09_prefix_executable_executes_partial_proof / _refuted_proof and
   C09_max_wait_vehicle_refuted_proof (code before the fix of the guard),
   C09_fixed_estimate_rejects_witness_proof, C09_fix_only_stricter_proof,
   dg_break_refuted / dg_break_refuted_vehicle / dg_repaired_rejects (code
   before / after the repair of the duration-group defect). *)

From Coq Require Import List ZArith Bool Arith Lia Permutation Sorted.
From NR Require Import Model.Engine Model.Estimates
     Proofs.Engine_lists Proofs.Engine_inv Proofs.Engine_spec.
Import ListNotations.
Open Scope Z_scope.

(* ================================================================== *)
(* 0. The clauses of the exact check, one per constraint               *)
(* ================================================================== *)

Definition cl_capacity (inp : input) (v : nat) (c : cell) : Prop :=
  has_capacity inp = true -> forall r, (r < in_nres inp)%nat ->
  0 <= nthZ (c_levels c) r <= capacity inp v r.
Definition cl_distance (inp : input) (v : nat) (c : cell) : Prop :=
  has_distance_limit inp = true -> forall d, iv_max_distance (get_vehicle inp v) = Some d ->
  0 <= c_cumdist c <= d.
Definition cl_latest_end (inp : input) (v : nat) (c : cell) : Prop :=
  has_latest_end inp = true -> is_last_stop inp (c_stop c) = true ->
  forall l, latest_end inp v = Some l -> c_end c <= l.
Definition cl_latest_start (inp : input) (v : nat) (c : cell) : Prop :=
  has_latest_start inp = true -> forall l, latest_start inp (c_stop c) = Some l -> c_start c <= l.
Definition cl_max_wait_stop (inp : input) (v : nat) (c : cell) : Prop :=
  has_max_wait_stop inp = true -> is_input_stop inp (c_stop c) = true ->
  forall w, is_max_wait (get_stop inp (c_stop c)) = Some w -> c_start c - c_arrival c <= w.
Definition cl_max_wait_vehicle (inp : input) (v : nat) (c : cell) : Prop :=
  has_max_wait_vehicle inp = true -> forall w, iv_max_wait (get_vehicle inp v) = Some w ->
  c_wait_acc c <= w.

Definition cell_passes (inp : input) (v : nat) (c : cell) : Prop :=
  stop_violation inp v true c = None.

(* a cell that passes the exact check satisfies every clause *)
Lemma passes_clauses (inp : input) (v : nat) (c : cell) :
  cell_passes inp v c ->
  cl_capacity inp v c /\ cl_distance inp v c /\ cl_latest_end inp v c /\
  cl_latest_start inp v c /\ cl_max_wait_stop inp v c /\ cl_max_wait_vehicle inp v c.
Proof.
  intros Hok. repeat split.
  - apply (sv_capacity inp v c Hok r); assumption.
  - apply (sv_capacity inp v c Hok r); assumption.
  - apply (sv_distance inp v c Hok d); assumption.
  - apply (sv_distance inp v c Hok d); assumption.
  - intros Hh Hl l E. exact (sv_latest_end inp v c Hok l Hh Hl E).
  - intros Hh l E. exact (sv_latest_start inp v c Hok l Hh E).
  - intros Hh Hi w E. exact (sv_max_wait_stop inp v c Hok w Hh Hi E).
  - intros Hh w E. exact (sv_max_wait_vehicle inp v c Hok w Hh E).
Qed.

Lemma find_none_intro {A} (f : A -> bool) (l : list A) :
  (forall x, In x l -> f x = false) -> find f l = None.
Proof.
  induction l as [|a l IH]; intros H; [reflexivity|]. cbn [find].
  rewrite (H a (or_introl eq_refl)). apply IH. intros x Hx. apply H. right; exact Hx.
Qed.

(* ... and conversely: without user constraints the six clauses ARE the exact check *)
Lemma clauses_pass (inp : input) (v : nat) (c : cell) :
  in_user inp = [] ->
  cl_capacity inp v c -> cl_distance inp v c -> cl_latest_end inp v c ->
  cl_latest_start inp v c -> cl_max_wait_stop inp v c -> cl_max_wait_vehicle inp v c ->
  cell_passes inp v c.
Proof.
  intros Hu H1 H2 H3 H4 H5 H6. unfold cell_passes, stop_violation. rewrite Hu. cbn [user_violation].
  assert (Hb : builtin_violation inp v true c = None); [|rewrite Hb; reflexivity].
  unfold builtin_violation. cbv zeta. cbn [negb].
  assert (Hcap : (if has_capacity inp
                  then find (fun r => (capacity inp v r <? nthZ (c_levels c) r) || (nthZ (c_levels c) r <? 0))
                            (seqn (in_nres inp))
                  else None) = None).
  { destruct (has_capacity inp) eqn:E; [|reflexivity]. apply find_none_intro.
    intros r Hr. apply In_seqn in Hr. specialize (H1 E r Hr).
    apply orb_false_iff. split; apply Z.ltb_ge; lia. }
  rewrite Hcap.
  assert (E2 : has_distance_limit inp &&
     match iv_max_distance (get_vehicle inp v) with
     | Some d => (d <? c_cumdist c) || (c_cumdist c <? 0) | None => false end = false).
  { destruct (has_distance_limit inp) eqn:E; [|reflexivity]. cbn [andb].
    destruct (iv_max_distance (get_vehicle inp v)) as [d|] eqn:Ed; [|reflexivity].
    specialize (H2 E d Ed). apply orb_false_iff. split; apply Z.ltb_ge; lia. }
  rewrite E2.
  assert (E3 : has_latest_end inp &&
     match (if is_last_stop inp (c_stop c) then latest_end inp v else None) with
     | Some l => l <? c_end c | None => false end = false).
  { destruct (has_latest_end inp) eqn:E; [|reflexivity]. cbn [andb].
    destruct (is_last_stop inp (c_stop c)) eqn:El; [|reflexivity].
    destruct (latest_end inp v) as [l|] eqn:Ee; [|reflexivity].
    specialize (H3 E El l Ee). apply Z.ltb_ge; lia. }
  rewrite E3.
  assert (E4 : has_latest_start inp &&
     match latest_start inp (c_stop c) with Some l => l <? c_start c | None => false end = false).
  { destruct (has_latest_start inp) eqn:E; [|reflexivity]. cbn [andb].
    destruct (latest_start inp (c_stop c)) as [l|] eqn:Ee; [|reflexivity].
    specialize (H4 E l Ee). apply Z.ltb_ge; lia. }
  rewrite E4.
  assert (E5 : has_max_wait_stop inp &&
     match (if is_input_stop inp (c_stop c) then is_max_wait (get_stop inp (c_stop c)) else None) with
     | Some w => w <? c_start c - c_arrival c | None => false end = false).
  { destruct (has_max_wait_stop inp) eqn:E; [|reflexivity]. cbn [andb].
    destruct (is_input_stop inp (c_stop c)) eqn:El; [|reflexivity].
    destruct (is_max_wait (get_stop inp (c_stop c))) as [w|] eqn:Ee; [|reflexivity].
    specialize (H5 E El w Ee). apply Z.ltb_ge; lia. }
  rewrite E5.
  assert (E6 : has_max_wait_vehicle inp &&
     match iv_max_wait (get_vehicle inp v) with
     | Some w => w <? c_wait_acc c | None => false end = false).
  { destruct (has_max_wait_vehicle inp) eqn:E; [|reflexivity]. cbn [andb].
    destruct (iv_max_wait (get_vehicle inp v)) as [w|] eqn:Ee; [|reflexivity].
    specialize (H6 E w Ee). apply Z.ltb_ge; lia. }
  rewrite E6. reflexivity.
Qed.

(* ================================================================== *)
(* 1. One step of the forward pass, as the estimates see it            *)
(* ================================================================== *)

Lemma tv_next_cell (inp : input) (v : nat) (p : cell) (x : nat) :
  temporal_values inp v (c_end p) (c_stop p) x =
  (c_travel (next_cell inp v p x), c_arrival (next_cell inp v p x),
   c_start (next_cell inp v p x), c_end (next_cell inp v p x)).
Proof.
  unfold next_cell.
  destruct (temporal_values inp v (c_end p) (c_stop p) x) as [[[tr ar] st] en]. reflexivity.
Qed.

(* the vehicle's last stop never waits: the wait the max-wait estimates add
   there is the 0 the engine adds *)
Lemma last_stop_no_wait (inp : input) (v : nat) (p : cell) (x : nat) :
  is_last_stop inp x = true ->
  c_start (next_cell inp v p x) = c_arrival (next_cell inp v p x).
Proof.
  intros Hl. rewrite nc_start.
  assert (E : stop_windows inp x = []).
  { unfold stop_windows. unfold is_last_stop in Hl. apply andb_true_iff in Hl.
    destruct Hl as (Hl & _). apply negb_true_iff in Hl. rewrite Hl.
    destruct (o_dis_windows (in_opts inp)); reflexivity. }
  rewrite E. cbn [to_earliest_start]. apply Z.max_id.
Qed.

Lemma nc_wait_eq (inp : input) (v : nat) (p : cell) (x : nat) :
  c_wait_acc (next_cell inp v p x) =
  c_wait_acc p + (c_start (next_cell inp v p x) - c_arrival (next_cell inp v p x)).
Proof.
  rewrite nc_wait. destruct (is_last_stop inp x) eqn:E; [|reflexivity].
  rewrite (last_stop_no_wait inp v p x E). lia.
Qed.

(* the temporal fields of the next cell depend on the predecessor only through
   its stop and its end; the start depends on the arrival only, the end on the
   arrival and on the duration-group part of the time spent at the stop (which
   looks at the predecessor's stop) *)
Lemma nc_start_of_arrival (inp : input) (v : nat) (p q : cell) (x : nat) :
  dgroup_extra inp (c_stop p) x = dgroup_extra inp (c_stop q) x ->
  c_arrival (next_cell inp v p x) = c_arrival (next_cell inp v q x) ->
  c_start (next_cell inp v p x) = c_start (next_cell inp v q x) /\
  c_end (next_cell inp v p x) = c_end (next_cell inp v q x).
Proof.
  intros Eg E. assert (Es : c_start (next_cell inp v p x) = c_start (next_cell inp v q x)).
  { rewrite !nc_start, E. reflexivity. }
  split; [exact Es|]. rewrite !nc_end, Es. unfold stop_duration_on. rewrite Eg. reflexivity.
Qed.

(* the start depends on the arrival only *)
Lemma nc_start_eq (inp : input) (v : nat) (p q : cell) (x : nat) :
  c_arrival (next_cell inp v p x) = c_arrival (next_cell inp v q x) ->
  c_start (next_cell inp v p x) = c_start (next_cell inp v q x).
Proof. intros E. rewrite !nc_start, E. reflexivity. Qed.

(* equal arrival and equal end: equal (scaled) group part of the time spent at
   the stop -- the scaled values, not the group durations: truncation is not
   injective *)
Lemma nc_extra_of_end (inp : input) (v : nat) (p q : cell) (x : nat) :
  c_arrival (next_cell inp v p x) = c_arrival (next_cell inp v q x) ->
  c_end (next_cell inp v p x) = c_end (next_cell inp v q x) ->
  scale_duration inp v (dgroup_extra inp (c_stop p) x) =
  scale_duration inp v (dgroup_extra inp (c_stop q) x).
Proof.
  intros Ea Ee. pose proof (nc_start_eq inp v p q x Ea) as Es.
  rewrite !nc_end, Es in Ee. unfold stop_duration_on in Ee. lia.
Qed.

(* what the estimates compute for the end, against the cached cell: when the
   group part does not depend on the predecessor, equal arrival gives equal end *)
Lemma tv_end_of_arrival (inp : input) (v : nat) (po : cell) (x : nat) (endv : Z) (prev : nat) :
  dgroup_extra inp prev x = dgroup_extra inp (c_stop po) x ->
  forall tr ar st en, temporal_values inp v endv prev x = (tr, ar, st, en) ->
  ar = c_arrival (next_cell inp v po x) -> en = c_end (next_cell inp v po x).
Proof.
  intros Eg tr ar st en E Ea. unfold temporal_values in E. injection E as _ Ear Est Een.
  rewrite <- Een, nc_end, nc_start, <- Ea, <- Ear. unfold stop_duration_on. rewrite Eg. reflexivity.
Qed.

Local Opaque next_cell temporal_values.

(* two chains over the same stops, related cell by cell *)
Lemma cells_from_rel (inp : input) (v : nat) (R : cell -> cell -> Prop) :
  (forall c1 c2 x, R c1 c2 -> R (next_cell inp v c1 x) (next_cell inp v c2 x)) ->
  forall l c1 c2, R c1 c2 -> Forall2 R (cells_from inp v c1 l) (cells_from inp v c2 l).
Proof.
  intros Hstep. induction l as [|x l IH]; intros c1 c2 H; cbn [cells_from]; constructor.
  - apply Hstep. exact H.
  - apply IH. apply Hstep. exact H.
Qed.

Lemma Forall2_transfer {A} (R : A -> A -> Prop) (P Q : A -> Prop) (l1 l2 : list A) :
  Forall2 R l1 l2 -> (forall a b, R a b -> P b -> Q a) -> Forall P l2 -> Forall Q l1.
Proof.
  intros H HR. induction H as [|a b l1 l2 Hab _ IH]; intros HP; constructor;
    inversion HP; subst; eauto.
Qed.

(* temporal agreement *)
Definition teq (c1 c2 : cell) : Prop :=
  c_stop c1 = c_stop c2 /\ c_arrival c1 = c_arrival c2 /\
  c_start c1 = c_start c2 /\ c_end c1 = c_end c2.

Lemma teq_step (inp : input) (v : nat) (c1 c2 : cell) (x : nat) :
  teq c1 c2 -> teq (next_cell inp v c1 x) (next_cell inp v c2 x).
Proof.
  intros (Hs & _ & _ & He).
  assert (Ea : c_arrival (next_cell inp v c1 x) = c_arrival (next_cell inp v c2 x)).
  { rewrite !nc_arrival, !nc_travel, Hs, He. reflexivity. }
  destruct (nc_start_of_arrival inp v c1 c2 x (f_equal (fun a => dgroup_extra inp a x) Hs) Ea)
    as (E1 & E2).
  unfold teq. rewrite !nc_stop. auto.
Qed.

(* ... plus a constant shift of the accumulated wait *)
Definition weq (d : Z) (c1 c2 : cell) : Prop := teq c1 c2 /\ c_wait_acc c1 = c_wait_acc c2 + d.

Lemma weq_step (inp : input) (v : nat) (d : Z) (c1 c2 : cell) (x : nat) :
  weq d c1 c2 -> weq d (next_cell inp v c1 x) (next_cell inp v c2 x).
Proof.
  intros (Ht & Hw). pose proof (teq_step inp v c1 c2 x Ht) as Ht'.
  split; [exact Ht'|]. destruct Ht' as (_ & Ea & Es & _).
  rewrite !nc_wait_eq, Ea, Es, Hw. lia.
Qed.

(* agreement of one resource level *)
Definition leq (r : nat) (c1 c2 : cell) : Prop := nthZ (c_levels c1) r = nthZ (c_levels c2) r.

Lemma leq_step (inp : input) (v : nat) (r : nat) (c1 c2 : cell) (x : nat) :
  (r < in_nres inp)%nat -> leq r c1 c2 -> leq r (next_cell inp v c1 x) (next_cell inp v c2 x).
Proof. intros Hr H. unfold leq in *. rewrite !nc_levels by exact Hr. rewrite H. reflexivity. Qed.

(* constant shift of the cumulative distance *)
Definition deq (d : Z) (c1 c2 : cell) : Prop :=
  c_stop c1 = c_stop c2 /\ c_cumdist c1 = c_cumdist c2 + d.

Lemma deq_step (inp : input) (v : nat) (d : Z) (c1 c2 : cell) (x : nat) :
  deq d c1 c2 -> deq d (next_cell inp v c1 x) (next_cell inp v c2 x).
Proof.
  intros (Hs & Hd). unfold deq. rewrite !nc_stop, !nc_cumdist, Hs, Hd. split; [reflexivity|lia].
Qed.

(* ================================================================== *)
(* 2. Lists: the shape of the new stop sequence                        *)
(* ================================================================== *)

Local Open Scope nat_scope.

Lemma insert_places_nil (route : list nat) (pos : nat) : insert_places pos route [] = route.
Proof.
  revert pos. induction route as [|x rest IH]; intros pos; [reflexivity|].
  cbn [insert_places filter map app]. rewrite IH. reflexivity.
Qed.

Lemma filter_length_partition {A} (p : A -> bool) (l : list A) :
  length (filter p l) + length (filter (fun x => negb (p x)) l) = length l.
Proof.
  induction l as [|a l IH]; [reflexivity|]. cbn [filter]. destruct (p a); cbn [negb length]; lia.
Qed.

(* all gaps at most pos + k: the route from its k-th stop on is untouched and
   exactly the placed stops and the first k old stops are in front of it *)
Lemma insert_places_split (d : nat) :
  forall (route : list nat) (pos : nat) (places : list (nat * nat)) (k : nat),
    Forall (fun pl => pos <= snd pl <= pos + k) places -> k < length route ->
    exists A', insert_places pos route places = A' ++ nth k route d :: skipn (S k) route /\
               length A' = k + length places.
Proof.
  induction route as [|x rest IH]; intros pos places k Hg Hk; [cbn in Hk; lia|].
  cbn [insert_places].
  set (here := filter (fun p => Nat.eqb (snd p) pos) places).
  set (later := filter (fun p => negb (Nat.eqb (snd p) pos)) places).
  assert (Hlen : length here + length later = length places)
    by apply (filter_length_partition (fun p => Nat.eqb (snd p) pos)).
  destruct k as [|k].
  - assert (Hl : later = []).
    { unfold later. clear -Hg. induction Hg as [|p l Hp _ IH]; [reflexivity|]. cbn [filter].
      replace (Nat.eqb (snd p) pos) with true by (symmetry; apply Nat.eqb_eq; lia).
      cbn [negb]. exact IH. }
    assert (Hh : here = places).
    { unfold here. clear -Hg. induction Hg as [|p l Hp _ IH]; [reflexivity|]. cbn [filter].
      replace (Nat.eqb (snd p) pos) with true by (symmetry; apply Nat.eqb_eq; lia).
      rewrite IH. reflexivity. }
    rewrite Hl, Hh, insert_places_nil. exists (map fst places). split; [reflexivity|].
    rewrite map_length. reflexivity.
  - assert (Hlater : Forall (fun pl => S pos <= snd pl <= S pos + k) later).
    { apply Forall_forall. intros p Hp. unfold later in Hp. apply filter_In in Hp.
      destruct Hp as (Hp & Hne). rewrite Forall_forall in Hg. specialize (Hg p Hp).
      apply negb_true_iff, Nat.eqb_neq in Hne. lia. }
    destruct (IH (S pos) later k Hlater) as (A'' & E & HlA); [cbn [length] in Hk; lia|].
    rewrite E. exists (map fst here ++ x :: A''). split.
    + rewrite <- app_assoc. reflexivity.
    + rewrite app_length, map_length. cbn [length]. lia.
Qed.

(* removing the placed stops gives the old route back *)
Lemma filter_insert_places (q : nat -> bool) :
  forall (route : list nat) (pos : nat) (places : list (nat * nat)),
    (forall x, In x route -> q x = true) -> (forall pl, In pl places -> q (fst pl) = false) ->
    filter q (insert_places pos route places) = route.
Proof.
  assert (Hnone : forall l : list (nat * nat), (forall pl, In pl l -> q (fst pl) = false) ->
                                               filter q (map fst l) = []).
  { induction l as [|a l IH]; intros H; [reflexivity|]. cbn [map filter].
    rewrite (H a (or_introl eq_refl)). apply IH. intros pl Hp. apply H. right; exact Hp. }
  induction route as [|x rest IH]; intros pos places Hr Hp.
  - cbn [insert_places]. apply Hnone. exact Hp.
  - cbn [insert_places]. rewrite filter_app. cbn [filter]. rewrite (Hr x (or_introl eq_refl)).
    rewrite Hnone, IH; [reflexivity| | |].
    + intros y Hy. apply Hr. right; exact Hy.
    + intros pl Hpl. apply filter_In in Hpl. apply Hp. tauto.
    + intros pl Hpl. apply filter_In in Hpl. apply Hp. tauto.
Qed.

Lemma sorted_le_last (l : list nat) (d : nat) : Sorted le l -> Forall (fun g => g <= last l d) l.
Proof.
  intros Hs. apply Sorted_StronglySorted in Hs; [|intros a b c; lia].
  induction Hs as [|a l Hs IH Ha]; [constructor|].
  destruct l as [|b l]; [repeat constructor|].
  change (last (a :: b :: l) d) with (last (b :: l) d).
  constructor; [|exact IH].
  inversion Ha; subst. inversion IH; subst. lia.
Qed.

Lemma filter_all {A} (p : A -> bool) (l : list A) :
  (forall x, In x l -> p x = true) -> filter p l = l.
Proof.
  induction l as [|a l IH]; intros H; [reflexivity|]. cbn [filter].
  rewrite (H a (or_introl eq_refl)), IH; [reflexivity|]. intros x Hx. apply H. right; exact Hx.
Qed.

Lemma filter_nil_iff {A} (p : A -> bool) (l : list A) :
  filter p l = [] -> forall x, In x l -> p x = false.
Proof.
  induction l as [|a l IH]; intros H x Hx; [destruct Hx|]. cbn [filter] in H.
  destruct (p a) eqn:E; [discriminate|]. destruct Hx as [<-|Hx]; [exact E|exact (IH H x Hx)].
Qed.

Lemma find_stop_unique (l1 l2 : list cell) (c : cell) :
  NoDup (map c_stop (l1 ++ c :: l2)) ->
  find (fun c' => Nat.eqb (c_stop c') (c_stop c)) (l1 ++ c :: l2) = Some c.
Proof.
  induction l1 as [|a l1 IH]; intros Hnd.
  - cbn [app find]. rewrite Nat.eqb_refl. reflexivity.
  - cbn [app find map] in *. inversion Hnd as [|? ? Hnotin Hnd']; subst.
    destruct (Nat.eqb (c_stop a) (c_stop c)) eqn:E.
    + exfalso. apply Hnotin. apply Nat.eqb_eq in E. rewrite E.
      rewrite map_app. apply in_or_app. right. left. reflexivity.
    + exact (IH Hnd').
Qed.

Local Close Scope nat_scope.

(* more list facts *)
Lemma filter_count_partition {A} (q : nat -> bool) (g : A -> bool) (f : A -> nat) (l : list A) :
  (length (filter q (map f (filter g l))) + length (filter q (map f (filter (fun x => negb (g x)) l)))
   = length (filter q (map f l)))%nat.
Proof.
  induction l as [|a l IH]; [reflexivity|]. cbn [filter map].
  destruct (g a); cbn [negb map filter]; destruct (q (f a)); cbn [length]; lia.
Qed.

Lemma filter_count_insert (q : nat -> bool) :
  forall (route : list nat) (pos : nat) (places : list (nat * nat)),
    (length (filter q (insert_places pos route places))
     = length (filter q route) + length (filter q (map fst places)))%nat.
Proof.
  induction route as [|x rest IH]; intros pos places; [reflexivity|].
  cbn [insert_places]. rewrite filter_app, app_length. cbn [filter].
  pose proof (filter_count_partition q (fun p => Nat.eqb (snd p) pos) fst places) as Hp.
  destruct (q x); cbn [length]; rewrite IH; lia.
Qed.

Lemma Forall_tl_suffix {A} (P : A -> Prop) (l pre rest : list A) :
  Forall P (tl l) -> l = pre ++ rest -> pre <> [] -> Forall P rest.
Proof.
  intros H E Hne. subst l. destruct pre as [|a pre]; [congruence|].
  cbn [app tl] in H. apply Forall_app in H. exact (proj2 H).
Qed.

(* ================================================================== *)
(* 2b. The simulations of the estimates walk the chain of cells_from   *)
(* ================================================================== *)

Lemma sim_all_false (inp : input) (v : nat) (check : Z -> Z -> Z -> nat -> bool) :
  forall (stops : list nat) (pc : cell) (endv : Z) (prev : nat),
    endv = c_end pc -> prev = c_stop pc ->
    sim_all inp v endv prev stops check = false ->
    Forall (fun c => check (c_arrival c) (c_start c) (c_end c) (c_stop c) = false)
           (cells_from inp v pc stops).
Proof.
  induction stops as [|x rest IH]; intros pc endv prev -> -> H; cbn [cells_from]; [constructor|].
  cbn [sim_all] in H. rewrite (tv_next_cell inp v pc x) in H.
  set (c := next_cell inp v pc x) in *.
  assert (Hx : c_stop c = x) by apply nc_stop.
  destruct (check (c_arrival c) (c_start c) (c_end c) x) eqn:E; [discriminate|].
  constructor; [rewrite Hx; exact E|].
  apply (IH c (c_end c) x eq_refl (eq_sym Hx) H).
Qed.

(* walk_levels over a whole list follows a field g of the chain that grows by
   f (previous stop) (stop): every value reached is inside [0, maxv] *)
Lemma walk_cells (inp : input) (v : nat) (f : nat -> nat -> Z) (g : cell -> Z) (maxv : Z) :
  (forall c x, g (next_cell inp v c x) = g c + f (c_stop c) x) ->
  forall (stops : list nat) (pc : cell) (level : Z) (prev : nat) (level' : Z) (lastx : nat),
    level = g pc -> prev = c_stop pc ->
    walk_levels f maxv level prev stops (length stops) = (false, level', lastx) ->
    Forall (fun c => 0 <= g c <= maxv) (cells_from inp v pc stops) /\
    level' = g (last (cells_from inp v pc stops) pc) /\
    lastx = last stops (c_stop pc).
Proof.
  intros Hg. induction stops as [|x rest IH]; intros pc level prev level' lastx -> -> H;
    cbn [length walk_levels cells_from] in *.
  - injection H as <- <-. cbn [last]. split; [constructor|]. split; reflexivity.
  - rewrite <- Hg in H. set (c := next_cell inp v pc x) in *.
    destruct ((maxv <? g c) || (g c <? 0)) eqn:E; [discriminate|].
    apply orb_false_iff in E. destruct E as (E1 & E2). apply Z.ltb_ge in E1. apply Z.ltb_ge in E2.
    assert (Hx : x = c_stop c) by (symmetry; apply nc_stop).
    destruct (IH c (g c) x level' lastx eq_refl Hx H) as (H1 & H2 & H3).
    split; [constructor; [lia|exact H1]|]. rewrite !last_cons_default.
    split; [exact H2|]. rewrite H3, <- Hx. reflexivity.
Qed.

Lemma walk_levels_prev_irrel (f : nat -> nat -> Z) (maxv level : Z) (prev prev' : nat)
      (stops : list nat) (n : nat) :
  (forall a b x, f a x = f b x) ->
  fst (walk_levels f maxv level prev stops n) = fst (walk_levels f maxv level prev' stops n).
Proof.
  intros Hf. destruct n as [|n], stops as [|x rest]; try reflexivity.
  cbn [walk_levels]. rewrite (Hf prev prev' x). reflexivity.
Qed.

(* a field that grows by non-negative amounts is monotone along the chain *)
Lemma chain_mono (inp : input) (v : nat) (f : nat -> nat -> Z) (g : cell -> Z) :
  (forall c x, g (next_cell inp v c x) = g c + f (c_stop c) x) ->
  (forall a x, 0 <= f a x) ->
  forall (l : list nat) (c : cell),
    g c <= g (last (cells_from inp v c l) c) /\
    Forall (fun c' => g c <= g c' <= g (last (cells_from inp v c l) c)) (cells_from inp v c l).
Proof.
  intros Hg Hf. induction l as [|x l IH]; intros c; cbn [cells_from].
  - cbn [last]. split; [lia|constructor].
  - rewrite last_cons_default. destruct (IH (next_cell inp v c x)) as (H1 & H2).
    pose proof (Hg c x) as E. pose proof (Hf (c_stop c) x) as F.
    split; [lia|]. constructor; [lia|].
    eapply Forall_impl; [|exact H2]. cbn beta. intros c' Hc'. lia.
Qed.

Lemma chain_last (inp : input) (v : nat) (f : nat -> nat -> Z) (g : cell -> Z) :
  (forall c x, g (next_cell inp v c x) = g c + f (c_stop c) x) ->
  forall (l : list nat) (c : cell),
    g (last (cells_from inp v c l) c) = g c + path_sum f (c_stop c) l.
Proof.
  intros Hg. induction l as [|x l IH]; intros c; cbn [cells_from path_sum]; [cbn [last]; lia|].
  rewrite last_cons_default, IH, Hg, nc_stop. lia.
Qed.

Lemma path_sum_const (h : nat -> Z) (l : list nat) (a : nat) :
  path_sum (fun _ x => h x) a l = sumZ (map h l).
Proof.
  revert a. induction l as [|x l IH]; intros a; cbn [path_sum map sumZ fold_right]; [reflexivity|].
  rewrite IH. reflexivity.
Qed.

Lemma last_app_default {A} (l1 l2 : list A) (d : A) : last (l1 ++ l2) d = last l2 (last l1 d).
Proof.
  revert d. induction l1 as [|a l1 IH]; intros d; [reflexivity|].
  change ((a :: l1) ++ l2) with (a :: l1 ++ l2). rewrite !last_cons_default. apply IH.
Qed.

Lemma last_skipn {A} (l : list A) (k : nat) (d : A) :
  (k < length l)%nat -> last (skipn k l) d = last l d.
Proof.
  intros Hk. rewrite <- (firstn_skipn k l) at 2. rewrite last_app_default.
  destruct (skipn k l) as [|a r] eqn:E.
  - apply (f_equal (@length A)) in E. rewrite skipn_length in E. cbn [length] in E. lia.
  - rewrite !last_cons_default. reflexivity.
Qed.

Lemma Forall_last {A} (P : A -> Prop) (l : list A) (d : A) : Forall P l -> l <> [] -> P (last l d).
Proof.
  intros H Hne. rewrite Forall_forall in H. apply H. apply last_In. exact Hne.
Qed.

(* walking n = length a stops of a ++ b is walking a *)
Lemma walk_levels_app (f : nat -> nat -> Z) (maxv : Z) (b : list nat) :
  forall (a : list nat) (level : Z) (prev : nat),
    walk_levels f maxv level prev (a ++ b) (length a) = walk_levels f maxv level prev a (length a).
Proof.
  induction a as [|x a IH]; intros level prev; cbn [app length walk_levels].
  - destruct b; reflexivity.
  - destruct ((maxv <? level + f prev x) || (level + f prev x <? 0)); [reflexivity|apply IH].
Qed.

(* inserting stops that do not change a level: every new level is an old one *)
Lemma zero_insert_levels (inp : input) (v r : nat) (us : list nat) (P : Z -> Prop) :
  (r < in_nres inp)%nat ->
  forall (stops : list nat) (pc po : cell),
    (forall x, In x stops -> mem_nat x us = true -> resource_value inp v r x = 0) ->
    nthZ (c_levels pc) r = nthZ (c_levels po) r -> P (nthZ (c_levels po) r) ->
    Forall (fun c => P (nthZ (c_levels c) r)) (cells_from inp v po (filter (not_in us) stops)) ->
    Forall (fun c => P (nthZ (c_levels c) r)) (cells_from inp v pc stops).
Proof.
  intros Hr. induction stops as [|x rest IH]; intros pc po Hz He HP Hold; cbn [cells_from]; [constructor|].
  assert (Hz' : forall y, In y rest -> mem_nat y us = true -> resource_value inp v r y = 0).
  { intros y Hy. apply Hz. right; exact Hy. }
  cbn [filter] in Hold. destruct (mem_nat x us) eqn:Em; cbn [negb] in Hold.
  - assert (E : nthZ (c_levels (next_cell inp v pc x)) r = nthZ (c_levels po) r).
    { rewrite nc_levels by exact Hr. rewrite (Hz x (or_introl eq_refl) Em). lia. }
    constructor; [rewrite E; exact HP|]. exact (IH _ po Hz' E HP Hold).
  - cbn [cells_from] in Hold. inversion Hold as [|c l Hc Hl]; subst.
    assert (E : nthZ (c_levels (next_cell inp v pc x)) r = nthZ (c_levels (next_cell inp v po x)) r).
    { rewrite !nc_levels by exact Hr. rewrite He. reflexivity. }
    constructor; [rewrite E; exact Hc|]. exact (IH _ _ Hz' E Hc Hl).
Qed.

(* the accumulated wait cached in front of a stop of a duplicate-free route *)
Lemma prev_acc_aux_unique (l2 : list cell) (p c : cell) :
  forall (l1 : list cell) (a : cell),
    ~ In (c_stop c) (map c_stop l1) -> c_stop p <> c_stop c ->
    prev_acc_aux a (l1 ++ p :: c :: l2) (c_stop c) = c_wait_acc p.
Proof.
  induction l1 as [|b l1 IH]; intros a Hn Hp; cbn [app prev_acc_aux].
  - rewrite (proj2 (Nat.eqb_neq _ _) Hp), Nat.eqb_refl. reflexivity.
  - cbn [map] in Hn. destruct (Nat.eqb (c_stop b) (c_stop c)) eqn:E.
    + apply Nat.eqb_eq in E. exfalso. apply Hn. left. exact E.
    + apply IH; [|exact Hp]. intros H. apply Hn. right. exact H.
Qed.

Lemma prev_acc_unique (l1 l2 : list cell) (p c : cell) :
  NoDup (map c_stop (l1 ++ p :: c :: l2)) ->
  prev_acc (l1 ++ p :: c :: l2) (c_stop c) = c_wait_acc p.
Proof.
  intros Hnd.
  assert (Hp : c_stop p <> c_stop c).
  { rewrite map_app in Hnd. apply NoDup_app_iff in Hnd. destruct Hnd as (_ & Hnd & _).
    cbn [map] in Hnd. inversion Hnd as [|? ? Hnot _]; subst. intros E. apply Hnot. left. symmetry. exact E. }
  destruct l1 as [|a l1]; cbn [app prev_acc].
  - cbn [prev_acc_aux]. rewrite Nat.eqb_refl. reflexivity.
  - apply prev_acc_aux_unique; [|exact Hp].
    cbn [app map] in Hnd. inversion Hnd as [|? ? _ Hnd']; subst.
    rewrite map_app in Hnd'. apply NoDup_app_iff in Hnd'. destruct Hnd' as (_ & _ & Hd).
    intros H. apply (Hd _ H). cbn [map]. right. left. reflexivity.
Qed.

(* The max-wait simulation with its early break.  [J pc po] is whatever the
   caller wants to know about the pair (new cell, old cell) reached so far;
   [Hbreak] is what must hold when the simulation stops early. *)
Section SimWait.
  Variables (check_end : bool) (inp : input) (v : nat) (us : list nat) (old : list cell).
  Variable violated : Z -> Z -> nat -> bool.
  Variable guard : Z -> nat -> bool.
  Variable K : Z.
  Variable Q : cell -> Prop.
  Variable J : cell -> cell -> Prop.
  Variable dom : nat -> Prop.
  Hypothesis Hnd : NoDup (map c_stop old).
  Hypothesis Hviol : forall c,
    violated (c_wait_acc c + K) (c_start c - c_arrival c) (c_stop c) = false -> Q c.
  Hypothesis Jins : forall pc po x, dom x -> mem_nat x us = true -> J pc po ->
    J (next_cell inp v pc x) po.
  Hypothesis Jboth : forall pc po x, dom x -> J pc po ->
    J (next_cell inp v pc x) (next_cell inp v po x).
  Hypothesis Hbreak : forall pc po x rest, J pc po -> dom x -> Forall dom rest ->
    c_arrival (next_cell inp v pc x) = c_arrival (next_cell inp v po x) ->
    (check_end = true -> c_end (next_cell inp v pc x) = c_end (next_cell inp v po x)) ->
    guard (c_wait_acc pc + K) x = true -> prev_acc old x = c_wait_acc po ->
    Forall (cell_passes inp v) (next_cell inp v po x :: cells_from inp v (next_cell inp v po x) rest) ->
    Forall Q (next_cell inp v pc x :: cells_from inp v (next_cell inp v pc x) rest).

  Lemma sim_wait_sound :
    forall (stops : list nat) (pc po : cell) (pre : list cell) (to_place : nat) (acc endv : Z) (prev : nat),
      Forall dom stops ->
      old = (pre ++ [po]) ++ cells_from inp v po (filter (not_in us) stops) ->
      Forall (cell_passes inp v) (cells_from inp v po (filter (not_in us) stops)) ->
      to_place = length (filter (fun x => mem_nat x us) stops) ->
      acc = c_wait_acc pc + K -> endv = c_end pc -> prev = c_stop pc -> J pc po ->
      sim_wait check_end inp v us old endv prev stops to_place acc violated guard = false ->
      Forall Q (cells_from inp v pc stops).
  Proof.
    induction stops as [|x rest IH]; intros pc po pre to_place acc endv prev Hdom Hold Hok -> -> -> -> HJ H;
      cbn [cells_from]; [constructor|].
    cbn [sim_wait] in H. rewrite (tv_next_cell inp v pc x) in H.
    set (c := next_cell inp v pc x) in *.
    assert (Hx : c_stop c = x) by apply nc_stop.
    assert (Hacc : c_wait_acc pc + K + (c_start c - c_arrival c) = c_wait_acc c + K).
    { unfold c. rewrite (nc_wait_eq inp v pc x). lia. }
    inversion Hdom as [|x0 l0 Hdx Hdr]; subst x0 l0.
    cbn [filter] in *. destruct (mem_nat x us) eqn:Em; cbn [negb] in *.
    - (* a stop of the unit: no break possible *)
      rewrite andb_false_r in H. cbn [andb] in H. rewrite Hacc in H.
      destruct (violated (c_wait_acc c + K) (c_start c - c_arrival c) x) eqn:Ev; [discriminate|].
      constructor; [apply Hviol; rewrite Hx; exact Ev|].
      cbn [length] in H. rewrite Nat.sub_1_r in H. cbn [Nat.pred] in H.
      apply (IH c po pre _ _ _ _ Hdr Hold Hok eq_refl eq_refl eq_refl (eq_sym Hx)); [|exact H].
      apply Jins; assumption.
    - (* a planned stop *)
      cbn [cells_from] in Hold, Hok. set (co := next_cell inp v po x) in *.
      destruct ((Nat.eqb (length (filter (fun x0 => mem_nat x0 us) rest)) 0 && true &&
                 (c_arrival c =? c_arrival (cell_of_stop old x)) &&
                 (negb check_end || (c_end c =? c_end (cell_of_stop old x))) &&
                 guard (c_wait_acc pc + K) x)%bool) eqn:Eb.
      + (* the early break *)
        apply andb_true_iff in Eb. destruct Eb as (Eb & Eg).
        apply andb_true_iff in Eb. destruct Eb as (Eb & Ee).
        apply andb_true_iff in Eb. destruct Eb as (Eb & Ea). apply andb_true_iff in Eb.
        destruct Eb as (Eb & _). apply Nat.eqb_eq in Eb. apply Z.eqb_eq in Ea.
        apply length_zero_iff_nil in Eb.
        assert (Hrest : filter (not_in us) rest = rest).
        { apply filter_all. intros z Hz. apply negb_true_iff. exact (filter_nil_iff _ _ Eb z Hz). }
        rewrite Hrest in Hold, Hok.
        assert (Hco : cell_of_stop old x = co).
        { unfold cell_of_stop. rewrite <- (nc_stop inp v po x). fold co. rewrite Hold at 1.
          rewrite find_stop_unique; [reflexivity|]. rewrite <- Hold. exact Hnd. }
        rewrite Hco in Ea, Ee.
        assert (Ee' : check_end = true -> c_end c = c_end co).
        { intros Ec. rewrite Ec in Ee. cbn [negb orb] in Ee. apply Z.eqb_eq. exact Ee. }
        assert (Hpa : prev_acc old x = c_wait_acc po).
        { assert (Hold2 : old = pre ++ po :: co :: cells_from inp v co rest)
            by (rewrite Hold, <- app_assoc; reflexivity).
          rewrite <- (nc_stop inp v po x). fold co. rewrite Hold2 at 1.
          apply prev_acc_unique. rewrite <- Hold2. exact Hnd. }
        exact (Hbreak pc po x rest HJ Hdx Hdr Ea Ee' Eg Hpa Hok).
      + rewrite Hacc in H.
        destruct (violated (c_wait_acc c + K) (c_start c - c_arrival c) x) eqn:Ev; [discriminate|].
        constructor; [apply Hviol; rewrite Hx; exact Ev|].
        inversion Hok as [|c0 l0 Hc0 Hl0]; subst c0 l0.
        assert (Hold' : old = ((pre ++ [po]) ++ [co]) ++ cells_from inp v co (filter (not_in us) rest))
          by (rewrite <- (app_assoc (pre ++ [po])); exact Hold).
        apply (IH c co (pre ++ [po]) _ _ _ _ Hdr Hold' Hl0 eq_refl eq_refl eq_refl (eq_sym Hx)); [|exact H].
        apply Jboth; assumption.
  Qed.
End SimWait.

(* when the group part of the time spent at a stop does not depend on the stop
   in front of it, comparing the ends at the break is redundant: the two
   versions of the simulation are the same function *)
Lemma sim_wait_check_end_irrel (inp : input) (v : nat) (us : list nat) (old : list cell)
      (violated : Z -> Z -> nat -> bool) (guard : Z -> nat -> bool) :
  NoDup (map c_stop old) ->
  (forall a b x, dgroup_extra inp a x = dgroup_extra inp b x) ->
  forall (stops : list nat) (po : cell) (pre : list cell) (to_place : nat) (acc endv : Z) (prev : nat),
    old = (pre ++ [po]) ++ cells_from inp v po (filter (not_in us) stops) ->
    sim_wait true inp v us old endv prev stops to_place acc violated guard =
    sim_wait false inp v us old endv prev stops to_place acc violated guard.
Proof.
  intros Hnd Hg. induction stops as [|x rest IH]; intros po pre to_place acc endv prev Hold; [reflexivity|].
  cbn [sim_wait].
  destruct (temporal_values inp v endv prev x) as [[[tr ar] st] en] eqn:Etv.
  cbn [filter] in Hold. destruct (mem_nat x us) eqn:Em; cbn [negb orb] in *.
  - rewrite (IH po pre _ _ _ _ Hold). rewrite !andb_false_r. reflexivity.
  - cbn [cells_from] in Hold. set (co := next_cell inp v po x) in *.
    assert (Hco : cell_of_stop old x = co).
    { unfold cell_of_stop. rewrite <- (nc_stop inp v po x). fold co. rewrite Hold at 1.
      rewrite find_stop_unique; [reflexivity|]. rewrite <- Hold. exact Hnd. }
    rewrite Hco.
    assert (Hold' : old = ((pre ++ [po]) ++ [co]) ++ cells_from inp v co (filter (not_in us) rest))
      by (rewrite <- (app_assoc (pre ++ [po])); exact Hold).
    rewrite (IH co (pre ++ [po]) _ _ _ _ Hold').
    destruct (ar =? c_arrival co) eqn:Ea.
    + apply Z.eqb_eq in Ea.
      rewrite (tv_end_of_arrival inp v po x endv prev (Hg _ _ _) tr ar st en Etv Ea).
      fold co. rewrite Z.eqb_refl. reflexivity.
    + rewrite !andb_false_r. reflexivity.
Qed.

Lemma Forall_last_default {A} (P : A -> Prop) (l : list A) (d : A) :
  Forall P l -> P d -> P (last l d).
Proof.
  intros H. revert d. induction H as [|a l Ha _ IH]; intros d Hd; [exact Hd|].
  rewrite last_cons_default. apply IH. exact Ha.
Qed.

Lemma last_split_eq {A} (l pre rest : list A) (d : A) :
  l = pre ++ rest -> last l d = last rest (last pre d).
Proof. intros ->. apply last_app_default. Qed.

Lemma nil_or_snoc {A} (l : list A) : l = [] \/ exists l' a, l = l' ++ [a].
Proof.
  destruct l as [|x l]; [left; reflexivity|right].
  destruct (@exists_last A (x :: l)) as (l' & a & E); [discriminate|]. exists l', a. exact E.
Qed.

Lemma cell_of_stop_nth (old : list cell) (k : nat) :
  NoDup (map c_stop old) -> (k < length old)%nat ->
  cell_of_stop old (c_stop (nth k old dummy_cell)) = nth k old dummy_cell.
Proof.
  intros Hnd Hk. destruct (nth_split old dummy_cell Hk) as (l1 & l2 & El & _).
  remember (nth k old dummy_cell) as nx eqn:Enx. clear Enx. subst old.
  unfold cell_of_stop. rewrite (find_stop_unique l1 l2 nx Hnd). reflexivity.
Qed.

(* ------------------------------------------------------------------ *)
(* Side conditions on the input (all decidable by inspection of the    *)
(* matrices and the stops)                                             *)
(* ------------------------------------------------------------------ *)

(* no negative entry in the distance matrix *)
Definition distances_nonneg (inp : input) : Prop :=
  Forall (Forall (fun z => 0 <= z)) (in_distance inp).

(* no negative stop duration *)
Definition stop_durations_nonneg (inp : input) : Prop :=
  Forall (fun st => 0 <= is_duration st) (in_stops inp).

(* duration groups play no role: they are disabled, or every group duration is 0
   (in particular: there are no groups) *)
Definition dgroups_inert (inp : input) : Prop :=
  o_dis_dgroups (in_opts inp) = true \/ Forall (fun g => snd g = 0) (in_dgroups inp).

Lemma dgroup_extra_inert (inp : input) (a x : nat) : dgroups_inert inp -> dgroup_extra inp a x = 0.
Proof.
  intros [H|H]; unfold dgroup_extra; [rewrite H; reflexivity|].
  destruct (o_dis_dgroups (in_opts inp)); [reflexivity|].
  assert (Hd : forall g, dgroup_duration inp g = 0).
  { intros g. unfold dgroup_duration.
    destruct (Nat.lt_ge_cases g (length (in_dgroups inp))) as [Hg|Hg].
    - rewrite Forall_forall in H. apply H. apply nth_In. exact Hg.
    - rewrite nth_overflow by exact Hg. reflexivity. }
  destruct (dgroup_of inp x) as [g|]; [|reflexivity].
  destruct (dgroup_of inp a) as [g'|]; [|apply Hd].
  destruct (Nat.eqb g g'); [reflexivity|apply Hd].
Qed.

(* no negative group duration (or the groups are disabled): needed only for the
   vehicle max-wait estimate BEFORE the fix of its guard, next to
   stop_durations_nonneg *)
Definition dgroups_nonneg (inp : input) : Prop :=
  o_dis_dgroups (in_opts inp) = true \/ Forall (fun g => 0 <= snd g) (in_dgroups inp).

Lemma dgroups_inert_nonneg (inp : input) : dgroups_inert inp -> dgroups_nonneg inp.
Proof.
  intros [H|H]; [left; exact H|right]. eapply Forall_impl; [|exact H]. cbv beta. intros g E. lia.
Qed.

Lemma dgroup_duration_nonneg (inp : input) (g : nat) :
  Forall (fun g => 0 <= snd g) (in_dgroups inp) -> 0 <= dgroup_duration inp g.
Proof.
  intros H. unfold dgroup_duration.
  destruct (Nat.lt_ge_cases g (length (in_dgroups inp))) as [Hg|Hg].
  - rewrite Forall_forall in H. apply H. apply nth_In. exact Hg.
  - rewrite nth_overflow by exact Hg. cbn [snd]. lia.
Qed.

Lemma dgroup_extra_nonneg (inp : input) (a x : nat) : dgroups_nonneg inp -> 0 <= dgroup_extra inp a x.
Proof.
  intros [H|H]; unfold dgroup_extra; [rewrite H; lia|].
  destruct (o_dis_dgroups (in_opts inp)); [lia|].
  pose proof (dgroup_duration_nonneg inp) as Hd.
  destruct (dgroup_of inp x) as [g|]; [|lia].
  destruct (dgroup_of inp a) as [g'|]; [|apply Hd; exact H].
  destruct (Nat.eqb g g'); [lia|apply Hd; exact H].
Qed.

(* the group part of the time spent at a stop satisfies a triangle inequality:
   going through a third stop never saves a group duration *)
Lemma dgroup_extra_triangle (inp : input) (a u z : nat) :
  dgroups_nonneg inp -> dgroup_extra inp a z <= dgroup_extra inp a u + dgroup_extra inp u z.
Proof.
  intros Hn. pose proof (dgroup_extra_nonneg inp a u Hn) as H1.
  pose proof (dgroup_extra_nonneg inp u z Hn) as H2. revert H1 H2.
  destruct Hn as [H|H]; unfold dgroup_extra; [rewrite H; lia|].
  destruct (o_dis_dgroups (in_opts inp)); [lia|].
  pose proof (dgroup_duration_nonneg inp) as Hd.
  destruct (dgroup_of inp z) as [g|]; [|lia].
  destruct (dgroup_of inp u) as [gu|].
  - destruct (Nat.eqb g gu) eqn:E.
    + apply Nat.eqb_eq in E. subst gu. destruct (dgroup_of inp a) as [ga|]; [|lia].
      destruct (Nat.eqb g ga); lia.
    + destruct (dgroup_of inp a) as [ga|].
      * destruct (Nat.eqb g ga), (Nat.eqb gu ga); lia.
      * lia.
  - destruct (dgroup_of inp a) as [ga|]; [destruct (Nat.eqb g ga)|]; lia.
Qed.

(* ... and so does the scaled group part, on every vehicle: the group part
   behind a is 0, or the one behind a at u, or the one behind u at z -- the
   SAME value is scaled on both sides, so truncation loses nothing here *)
Lemma dgroup_extra_cases (inp : input) (a u z : nat) :
  dgroup_extra inp a z = 0 \/ dgroup_extra inp a z = dgroup_extra inp a u \/
  dgroup_extra inp a z = dgroup_extra inp u z.
Proof.
  unfold dgroup_extra. destruct (o_dis_dgroups (in_opts inp)); [left; reflexivity|].
  destruct (dgroup_of inp z) as [g|]; [|left; reflexivity].
  destruct (dgroup_of inp u) as [gu|].
  - destruct (Nat.eqb g gu) eqn:E.
    + apply Nat.eqb_eq in E. subst gu. right. left. reflexivity.
    + destruct (dgroup_of inp a) as [ga|]; [|right; right; reflexivity].
      destruct (Nat.eqb g ga); [left|right; right]; reflexivity.
  - destruct (dgroup_of inp a) as [ga|]; [|right; right; reflexivity].
    destruct (Nat.eqb g ga); [left|right; right]; reflexivity.
Qed.

Lemma scaled_extra_nonneg (inp : input) (v a x : nat) :
  wf_input inp -> dgroups_nonneg inp -> 0 <= scale_duration inp v (dgroup_extra inp a x).
Proof. intros Hwf Hn. apply scale_duration_nonneg; [exact Hwf|apply dgroup_extra_nonneg; exact Hn]. Qed.

Lemma scaled_extra_triangle (inp : input) (v a u z : nat) :
  wf_input inp -> dgroups_nonneg inp ->
  scale_duration inp v (dgroup_extra inp a z)
  <= scale_duration inp v (dgroup_extra inp a u) + scale_duration inp v (dgroup_extra inp u z).
Proof.
  intros Hwf Hn. pose proof (scaled_extra_nonneg inp v a u Hwf Hn) as H1.
  pose proof (scaled_extra_nonneg inp v u z Hwf Hn) as H2.
  destruct (dgroup_extra_cases inp a u z) as [E|[E|E]]; rewrite E; [rewrite scale_duration_0|..]; lia.
Qed.

Lemma stop_duration_at_inert (inp : input) (a x : nat) :
  dgroups_inert inp -> stop_duration_at inp a x = stop_duration inp x.
Proof. intros H. unfold stop_duration_at. rewrite (dgroup_extra_inert inp a x H). lia. Qed.

(* travel durations (as the engine sees them: 0 from/to a missing vehicle
   location) satisfy the triangle inequality on the model's stops *)
Definition nmodel_stops (inp : input) : nat := (nstops inp + 2 * nveh inp)%nat.
Definition durations_metric (inp : input) : Prop :=
  forall a b c, (a < nmodel_stops inp)%nat -> (b < nmodel_stops inp)%nat -> (c < nmodel_stops inp)%nat ->
    travel_duration inp a c <= travel_duration inp a b + travel_duration inp b c.

Lemma distance_value_nonneg (inp : input) (v a b : nat) :
  distances_nonneg inp -> 0 <= distance_value inp v a b.
Proof.
  intros H. unfold distance_value. destruct (iv_max_distance (get_vehicle inp v)); [|lia].
  unfold travel_distance, mat, nthZ.
  assert (Hrow : Forall (fun z => 0 <= z) (nth a (in_distance inp) [])).
  { destruct (Nat.lt_ge_cases a (length (in_distance inp))) as [Ha|Ha].
    - unfold distances_nonneg in H. rewrite Forall_forall in H. apply H. apply nth_In. exact Ha.
    - rewrite nth_overflow by exact Ha. constructor. }
  destruct (Nat.lt_ge_cases b (length (nth a (in_distance inp) []))) as [Hb|Hb].
  - rewrite Forall_forall in Hrow. apply Hrow. apply nth_In. exact Hb.
  - rewrite nth_overflow by exact Hb. lia.
Qed.

Lemma stop_duration_nonneg (inp : input) (x : nat) :
  stop_durations_nonneg inp -> 0 <= stop_duration inp x.
Proof.
  intros H. unfold stop_duration. destruct (o_dis_durations (in_opts inp)); [lia|].
  destruct (is_input_stop inp x) eqn:E; [|lia].
  unfold is_input_stop in E. apply Nat.ltb_lt in E.
  unfold stop_durations_nonneg in H. rewrite Forall_forall in H. apply H.
  unfold get_stop. apply nth_In. exact E.
Qed.

(* a resource without negative contributions *)
Lemma no_neg_value (inp : input) (v r x : nat) :
  res_has_neg inp r = false -> 0 <= resource_value inp v r x.
Proof.
  intros H. unfold resource_value. destruct (is_input_stop inp x) eqn:E; [|lia].
  unfold is_input_stop in E. apply Nat.ltb_lt in E.
  unfold res_has_neg in H.
  assert (Hin : In (get_stop inp x) (in_stops inp)) by (unfold get_stop; apply nth_In; exact E).
  destruct (0 <? nthZ (is_quantity (get_stop inp x)) r) eqn:Eq.
  - assert (existsb (fun st => 0 <? nthZ (is_quantity st) r) (in_stops inp) = true).
    { apply existsb_exists. exists (get_stop inp x). split; assumption. }
    congruence.
  - apply Z.ltb_ge in Eq. lia.
Qed.

(* time spent travelling and serving up to the end of a cell *)
Definition busy (c : cell) : Z := c_end c - c_wait_acc c.

Lemma busy_step (inp : input) (v : nat) (p : cell) (x : nat) :
  busy (next_cell inp v p x)
  = busy p + travel_duration inp (c_stop p) x + stop_duration_on inp v (c_stop p) x.
Proof.
  unfold busy. rewrite nc_end, nc_wait_eq, nc_arrival, nc_travel. lia.
Qed.

Lemma firstn_S_nth {A} (l : list A) (k : nat) (d : A) :
  (k < length l)%nat -> firstn (S k) l = firstn k l ++ [nth k l d].
Proof.
  revert k. induction l as [|a l IH]; intros k Hk; [cbn in Hk; lia|].
  destruct k as [|k]; [reflexivity|]. cbn [length] in Hk.
  change (firstn (S (S k)) (a :: l)) with (a :: firstn (S k) l).
  rewrite (IH k) by lia. reflexivity.
Qed.

(* ------------------------------------------------------------------ *)
(* The vehicle max-wait estimate BEFORE the fix (the early break had no  *)
(* guard on the accumulated wait): kept to document the defect.  It is  *)
(* the estimate of the code as it is now (the break compares arrival    *)
(* AND end) with the guard removed, so that it isolates that defect.    *)
(* ------------------------------------------------------------------ *)

Definition est_max_wait_vehicle_prefix (inp : input) (s : state) (mv : move) : bool :=
  let h := hypo_of inp s mv in
  let us := unit_stops inp (mv_unit mv) in
  match iv_max_wait (get_vehicle inp (mv_vehicle mv)) with
  | None => false
  | Some w =>
      sim_wait true inp (mv_vehicle mv) us (h_old h) (c_end (h_prev h)) (c_stop (h_prev h)) (h_suffix h) (length us)
               (c_wait_acc (h_prev h)) (fun acc _ _ => w <? acc) (fun _ _ => true)
  end.

Definition estimate_violated_prefix (inp : input) (s : state) (mv : move) : bool :=
  (has_attributes inp && est_attributes inp s mv) ||
  (has_capacity inp && existsb (est_capacity inp s mv) (seqn (in_nres inp))) ||
  (has_distance_limit inp && est_distance inp s mv) ||
  (has_latest_end inp && est_latest_end inp s mv) ||
  (has_latest_start inp && est_latest_start inp s mv) ||
  (has_max_stops inp && est_max_stops inp s mv) ||
  (has_max_wait_stop inp && est_max_wait_stop inp s mv) ||
  (has_max_wait_vehicle inp && est_max_wait_vehicle_prefix inp s mv).

Definition move_executable_prefix (inp : input) (s : state) (mv : move) : bool :=
  negb (unit_planned inp s (mv_unit mv)) && negb (estimate_violated_prefix inp s mv).

Definition exec_checked_prefix (inp : input) (s : state) (mv : move) : state * result :=
  if move_executable_prefix inp s mv then exec_move inp s mv else (s, NotExecutable).

(* ================================================================== *)
(* 3. The context of a well-formed move on a state with the invariant  *)
(* ================================================================== *)

Section Ctx.
  Variables (inp : input) (s : state) (mv : move).
  Hypothesis Hwf : wf_input inp.
  Hypothesis HI : InvT inp s.
  Hypothesis Hmv : move_ok inp s mv.
  Hypothesis Hnp : unit_planned inp s (mv_unit mv) = false.

  Local Notation vv := (mv_vehicle mv).
  Local Notation uu := (mv_unit mv).
  Local Notation PL := (mv_places mv).
  Local Notation US := (unit_stops inp (mv_unit mv)).
  Local Notation OLD := (get_route s (mv_vehicle mv)).
  Local Notation OST := (route_stops (get_route s (mv_vehicle mv))).
  Local Notation NST := (insert_places 0 (route_stops (get_route s (mv_vehicle mv))) (mv_places mv)).
  Local Notation IDX := (first_gap (mv_places mv) - 1)%nat.
  Local Notation LG := (last_gap (mv_places mv)).
  Local Notation PC := (nth (first_gap (mv_places mv) - 1) (get_route s (mv_vehicle mv)) dummy_cell).
  Local Notation OSUF := (skipn (S (first_gap (mv_places mv) - 1)) (route_stops (get_route s (mv_vehicle mv)))).
  Local Notation NSUF := (skipn (S (first_gap (mv_places mv) - 1))
                            (insert_places 0 (route_stops (get_route s (mv_vehicle mv))) (mv_places mv))).
  Local Notation BB := (skipn (S (last_gap (mv_places mv))) (route_stops (get_route s (mv_vehicle mv)))).
  Local Notation YY := (nth (last_gap (mv_places mv)) (route_stops (get_route s (mv_vehicle mv))) 0%nat).

  Lemma ctx_v : (vv < nveh inp)%nat.
  Proof. destruct Hmv as (_ & H & _). exact H. Qed.

  Lemma ctx_u : (uu < nunits inp)%nat.
  Proof. destruct Hmv as (H & _). exact H. Qed.

  Lemma ctx_shape : exists mid, OST = first_stop inp vv :: mid ++ [last_stop inp vv] /\
                                Forall (fun x => (x < nstops inp)%nat) mid.
  Proof. exact (route_has_shape inp s vv HI ctx_v). Qed.

  Lemma ctx_cache : OLD = from_scratch inp vv OST.
  Proof. exact (route_is_from_scratch inp s vv HI ctx_v). Qed.

  Lemma ctx_len : length OST = length OLD.
  Proof. apply length_route_stops. Qed.

  Lemma ctx_gaps :
    (1 <= first_gap PL)%nat /\ (first_gap PL <= LG)%nat /\ (LG < length OLD)%nat /\
    Forall (fun pl => (first_gap PL <= snd pl <= LG)%nat) PL.
  Proof.
    destruct Hmv as (_ & _ & _ & Hne & Hsorted & Hgaps).
    pose proof (first_gap_le_all PL Hsorted) as Hlo.
    pose proof (sorted_le_last (map snd PL) 1%nat Hsorted) as Hhi.
    change (last (map snd PL) 1%nat) with LG in Hhi.
    assert (Hin : In LG (map snd PL)).
    { unfold last_gap. apply last_In. intros E. apply map_eq_nil in E. contradiction. }
    rewrite Forall_forall in Hgaps. pose proof (Hgaps LG Hin) as HLG.
    assert (Hfg : In (first_gap PL) (map snd PL)).
    { destruct PL as [|[x g] rest]; [contradiction|]. left. reflexivity. }
    pose proof (Hgaps _ Hfg) as HFG.
    rewrite Forall_forall in Hhi. pose proof (Hhi _ Hfg) as HFL.
    split; [lia|]. split; [exact HFL|]. split; [lia|].
    apply Forall_forall. intros pl Hpl. rewrite Forall_forall in Hlo. split; [exact (Hlo pl Hpl)|].
    apply Hhi. apply in_map. exact Hpl.
  Qed.

  Lemma ctx_idx : (S IDX = first_gap PL)%nat /\ (IDX < LG)%nat /\ (LG < length OLD)%nat.
  Proof. destruct ctx_gaps as (A & B0 & C & _). lia. Qed.

  Lemma ctx_pre : firstn (S IDX) NST = firstn (S IDX) OST.
  Proof.
    destruct ctx_gaps as (A & B0 & C & D). destruct ctx_idx as (E & _). rewrite E.
    apply insert_places_firstn; [rewrite ctx_len; lia|].
    eapply Forall_impl; [|exact D]. cbn beta. intros; lia.
  Qed.

  Lemma ctx_us :
    Permutation (map fst PL) US /\ NoDup US /\ (forall x, In x US -> ~ In x OST) /\
    (forall x, In x US -> (x < nstops inp)%nat).
  Proof.
    destruct Hmv as (Hu & Hv & Hperm & _).
    split; [exact Hperm|]. split; [exact (unit_stops_NoDup inp uu Hwf Hu)|]. split.
    - intros x Hx Hin.
      destruct HI as (((Hlen & _) & _ & _ & Hco) & _).
      destruct Hco as (_ & _ & _ & _ & Hper & _).
      destruct (Hper uu Hu) as (_ & _ & [C|C]); [congruence|].
      specialize (C x Hx).
      assert (Hon : stop_on_route s x = true).
      { apply stop_on_route_iff. exists vv. rewrite Hlen. split; [exact Hv|exact Hin]. }
      congruence.
    - intros x Hx. exact (unit_stops_lt inp uu x Hwf Hu Hx).
  Qed.

  Lemma ctx_nodup : NoDup OST.
  Proof.
    destruct ctx_shape as (mid & E & Hmid).
    assert (Hnm : NoDup mid).
    { destruct HI as (((Hlen & _) & _ & _ & Hco) & _). destruct Hco as (Hni & _).
      rewrite interior_stops_eq in Hni.
      assert (Hin : In (interior OLD) (map interior (st_routes s))).
      { apply in_map. unfold get_route. apply nth_In. rewrite Hlen. exact ctx_v. }
      pose proof (NoDup_concat_elem _ _ Hni Hin) as H. unfold interior in H.
      rewrite E in H. cbn [tl] in H. rewrite removelast_snoc in H. exact H. }
    rewrite Forall_forall in Hmid.
    rewrite E. constructor.
    - intros Hin. apply in_app_or in Hin. destruct Hin as [Hin|[Hin|[]]].
      + specialize (Hmid _ Hin). unfold first_stop in Hmid. lia.
      + unfold first_stop, last_stop in Hin. lia.
    - apply NoDup_app_iff. split; [exact Hnm|]. split; [repeat constructor; intros []|].
      intros x Hx [<-|[]]. specialize (Hmid _ Hx). unfold last_stop in Hmid. lia.
  Qed.

  Lemma ctx_nsuf_split :
    exists A1, NSUF = (A1 ++ [YY]) ++ BB /\ length (A1 ++ [YY]) = (LG + length PL - IDX)%nat.
  Proof.
    destruct ctx_gaps as (A & B0 & C & D). destruct ctx_idx as (E & F & _).
    destruct (insert_places_split 0%nat OST 0%nat PL LG) as (A0 & HA0 & HlA0).
    - eapply Forall_impl; [|exact D]. cbn beta. intros; lia.
    - rewrite ctx_len. exact C.
    - assert (Hpl : (1 <= length PL)%nat).
      { destruct Hmv as (_ & _ & _ & Hne & _). destruct PL; [contradiction|cbn; lia]. }
      exists (skipn (S IDX) A0). rewrite HA0. split.
      + rewrite skipn_app. replace (S IDX - length A0)%nat with 0%nat by lia.
        cbn [skipn]. rewrite <- app_assoc. reflexivity.
      + rewrite app_length, skipn_length. cbn [length]. lia.
  Qed.

  Lemma ctx_filter : filter (not_in US) NSUF = OSUF.
  Proof.
    destruct ctx_us as (Hperm & _ & Hoff & _).
    assert (Hall : filter (not_in US) NST = OST).
    { apply filter_insert_places.
      - intros x Hx. apply negb_true_iff. apply mem_nat_false. intros Hu. exact (Hoff x Hu Hx).
      - intros pl Hpl. apply negb_false_iff. apply mem_nat_In.
        apply (Permutation_in _ Hperm). apply in_map. exact Hpl. }
    rewrite <- (firstn_skipn (S IDX) NST) in Hall. rewrite filter_app, ctx_pre in Hall.
    rewrite filter_all in Hall.
    - rewrite <- (firstn_skipn (S IDX) OST) in Hall at 3. apply app_inv_head in Hall. exact Hall.
    - intros x Hx. apply negb_true_iff. apply mem_nat_false. intros Hu.
      apply (Hoff x Hu). rewrite <- (firstn_skipn (S IDX) OST). apply in_or_app. left; exact Hx.
  Qed.

  Lemma ctx_cnt : length (filter (fun x => mem_nat x US) NSUF) = length US.
  Proof.
    destruct ctx_us as (Hperm & _ & Hoff & _).
    pose proof (filter_count_insert (fun x => mem_nat x US) OST 0%nat PL) as Hc.
    rewrite <- (firstn_skipn (S IDX) NST) in Hc. rewrite filter_app, app_length, ctx_pre in Hc.
    assert (Hnone : forall l, (forall x, In x l -> In x OST) -> filter (fun x => mem_nat x US) l = []).
    { induction l as [|a l IH]; intros H; [reflexivity|]. cbn [filter].
      destruct (mem_nat a US) eqn:E.
      - apply mem_nat_In in E. exfalso. apply (Hoff a E). apply H. left; reflexivity.
      - apply IH. intros x Hx. apply H. right; exact Hx. }
    rewrite (Hnone (firstn (S IDX) OST)) in Hc.
    2:{ intros x Hx. rewrite <- (firstn_skipn (S IDX) OST). apply in_or_app. left; exact Hx. }
    rewrite (Hnone OST) in Hc by auto.
    rewrite (filter_all _ (map fst PL)) in Hc.
    - cbn [length] in Hc. rewrite !Nat.add_0_l in Hc. rewrite Hc, map_length.
      rewrite <- (map_length fst). apply Permutation_length. exact Hperm.
    - intros x Hx. apply mem_nat_In. apply (Permutation_in _ Hperm). exact Hx.
  Qed.

  Lemma ctx_old_split (k : nat) :
    (k < length OLD)%nat ->
    OLD = firstn (S k) OLD ++ cells_from inp vv (nth k OLD dummy_cell) (skipn (S k) OST).
  Proof.
    intros Hk.
    assert (Hne : OST <> []).
    { intros E. pose proof ctx_len as Hl. rewrite E in Hl. cbn in Hl. lia. }
    pose proof (from_scratch_split inp vv k OST Hne) as H.
    rewrite <- ctx_cache in H.
    rewrite (nth_last_firstn OLD k dummy_cell Hk). exact H.
  Qed.

  Lemma ctx_old_ok (k : nat) :
    (k < length OLD)%nat ->
    Forall (cell_passes inp vv) (cells_from inp vv (nth k OLD dummy_cell) (skipn (S k) OST)).
  Proof.
    intros Hk. destruct HI as ((_ & Hf & _) & _). specialize (Hf vv ctx_v).
    apply (Forall_tl_suffix _ _ _ _ Hf (ctx_old_split k Hk)).
    intros E. apply (f_equal (@length cell)) in E. rewrite firstn_length in E. cbn [length] in E. lia.
  Qed.

  Lemma ctx_cell_ok (k : nat) :
    (1 <= k < length OLD)%nat -> cell_passes inp vv (nth k OLD dummy_cell).
  Proof.
    intros Hk. apply (route_cell_ok inp s vv _ HI ctx_v). apply nth_In_tl. exact Hk.
  Qed.

  Lemma ctx_stop_nth (k : nat) : c_stop (nth k OLD dummy_cell) = nth k OST 0%nat.
  Proof. unfold route_stops. symmetry. exact (map_nth c_stop OLD dummy_cell k). Qed.

  Lemma ctx_pc_last : last_cell (firstn (S IDX) OLD) = PC.
  Proof.
    destruct ctx_idx as (_ & A & B0). symmetry.
    apply (nth_last_firstn OLD IDX dummy_cell). lia.
  Qed.

  (* the cached cell in front of the first position has levels inside the
     capacity: it is an old checked cell, or the vehicle's first cell, whose
     levels are the start levels, checked when the start solution was built *)
  Lemma ctx_pc_levels :
    (exists s0, new_solution inp = Some s0) -> has_capacity inp = true ->
    forall r, (r < in_nres inp)%nat -> 0 <= nthZ (c_levels PC) r <= capacity inp vv r.
  Proof.
    intros (s0 & Hns) Hc r Hr. destruct ctx_idx as (_ & A & B0).
    destruct (first_gap PL - 1)%nat as [|n] eqn:E.
    - destruct (route_first_cell inp s vv HI ctx_v) as (cs & Ecs & _). rewrite Ecs. cbn [nth].
      rewrite first_cell_levels by exact Hr.
      destruct (C01_start_solution_proof inp s0 vv Hwf Hns ctx_v) as (_ & H & _). exact (H Hc r Hr).
    - assert (Hk : (1 <= S n < length OLD)%nat) by lia.
      exact (sv_capacity inp vv _ (ctx_cell_ok (S n) Hk) r Hc Hr).
  Qed.


  Lemma ctx_last_old (k : nat) :
    (k < length OLD)%nat ->
    last_cell OLD = last (cells_from inp vv (nth k OLD dummy_cell) (skipn (S k) OST))
                         (nth k OLD dummy_cell).
  Proof.
    intros Hk. unfold last_cell. etransitivity.
    { apply (last_split_eq _ _ _ _ (ctx_old_split k Hk)). }
    f_equal. symmetry. exact (nth_last_firstn OLD k dummy_cell Hk).
  Qed.

  Lemma ctx_sum (val : nat -> Z) :
    sumZ (map val NSUF) = sumZ (map val OSUF) + sumZ (map val US).
  Proof.
    destruct ctx_us as (Hperm & _).
    pose proof (sumZ_map_perm val _ _ (insert_places_perm OST 0%nat PL)) as H.
    assert (E1 : sumZ (map val NST) = sumZ (map val (firstn (S IDX) OST)) + sumZ (map val NSUF)).
    { rewrite <- ctx_pre, <- sumZ_app, <- map_app, firstn_skipn. reflexivity. }
    assert (E3 : sumZ (map val OST) = sumZ (map val (firstn (S IDX) OST)) + sumZ (map val OSUF)).
    { rewrite <- sumZ_app, <- map_app, firstn_skipn. reflexivity. }
    rewrite map_app, sumZ_app in H.
    pose proof (sumZ_map_perm val _ _ Hperm) as E4. lia.
  Qed.

  Lemma ctx_dom : Forall (fun x => (x < nmodel_stops inp)%nat) NSUF.
  Proof.
    destruct ctx_us as (_ & _ & _ & Hlt). destruct ctx_shape as (mid & E & Hmid).
    pose proof ctx_v as Hv. apply Forall_forall. intros x Hx. unfold nmodel_stops.
    destruct (mem_nat x US) eqn:Em.
    - apply mem_nat_In in Em. specialize (Hlt x Em). lia.
    - assert (Hin : In x OSUF).
      { rewrite <- ctx_filter. apply filter_In. split; [exact Hx|]. rewrite Em. reflexivity. }
      assert (Hin' : In x OST).
      { rewrite <- (firstn_skipn (S IDX) OST). apply in_or_app. right; exact Hin. }
      rewrite E in Hin'. destruct Hin' as [<-|Hin'].
      + unfold first_stop. lia.
      + apply in_app_or in Hin'. destruct Hin' as [Hin'|[<-|[]]].
        * rewrite Forall_forall in Hmid. specialize (Hmid x Hin'). lia.
        * unfold last_stop. lia.
  Qed.

  (* ---------------------------------------------------------------- *)
  (* latest start, latest end: full forward simulation                *)
  (* ---------------------------------------------------------------- *)

  Lemma est_latest_start_sound :
    est_latest_start inp s mv = false ->
    Forall (cl_latest_start inp vv) (cells_from inp vv PC NSUF).
  Proof.
    intros H. cbv beta zeta iota delta [est_latest_start hypo_of h_prev h_suffix] in H.
    pose proof (sim_all_false inp vv _ NSUF PC _ _ eq_refl eq_refl H) as HF.
    eapply Forall_impl; [|exact HF]. cbv beta. intros c Hc _ l El.
    rewrite El in Hc. apply Z.ltb_ge in Hc. exact Hc.
  Qed.

  Lemma est_latest_end_sound :
    est_latest_end inp s mv = false ->
    Forall (cl_latest_end inp vv) (cells_from inp vv PC NSUF).
  Proof.
    intros H. cbv beta zeta iota delta [est_latest_end hypo_of h_prev h_suffix] in H.
    pose proof (sim_all_false inp vv _ NSUF PC _ _ eq_refl eq_refl H) as HF.
    eapply Forall_impl; [|exact HF]. cbv beta. intros c Hc _ Hl l El.
    rewrite Hl, El in Hc. apply Z.ltb_ge in Hc. exact Hc.
  Qed.

  (* ---------------------------------------------------------------- *)
  (* max wait per stop: the early break is harmless                   *)
  (* ---------------------------------------------------------------- *)

  Lemma ctx_old_nodup : NoDup (map c_stop OLD).
  Proof. exact ctx_nodup. Qed.

  (* the common set-up of the three max-wait simulations *)
  Lemma ctx_sim_wait (check_end : bool) (violated : Z -> Z -> nat -> bool) (guard : Z -> nat -> bool) (K : Z)
        (Q : cell -> Prop) (J : cell -> cell -> Prop) (dom : nat -> Prop) (acc0 : Z) :
    (forall c, violated (c_wait_acc c + K) (c_start c - c_arrival c) (c_stop c) = false -> Q c) ->
    (forall pc po x, dom x -> mem_nat x US = true -> J pc po -> J (next_cell inp vv pc x) po) ->
    (forall pc po x, dom x -> J pc po -> J (next_cell inp vv pc x) (next_cell inp vv po x)) ->
    (forall pc po x rest, J pc po -> dom x -> Forall dom rest ->
       c_arrival (next_cell inp vv pc x) = c_arrival (next_cell inp vv po x) ->
       (check_end = true -> c_end (next_cell inp vv pc x) = c_end (next_cell inp vv po x)) ->
       guard (c_wait_acc pc + K) x = true -> prev_acc OLD x = c_wait_acc po ->
       Forall (cell_passes inp vv)
              (next_cell inp vv po x :: cells_from inp vv (next_cell inp vv po x) rest) ->
       Forall Q (next_cell inp vv pc x :: cells_from inp vv (next_cell inp vv pc x) rest)) ->
    Forall dom NSUF -> J PC PC -> acc0 = c_wait_acc PC + K ->
    sim_wait check_end inp vv US OLD (c_end PC) (c_stop PC) NSUF (length US) acc0 violated guard = false ->
    Forall Q (cells_from inp vv PC NSUF).
  Proof.
    intros Hviol Jins Jboth Hbreak Hdom HJ Hacc H.
    destruct ctx_idx as (_ & HIL & HLL).
    assert (HIDX : (IDX < length OLD)%nat) by lia.
    refine (sim_wait_sound check_end inp vv US OLD violated guard K Q J dom ctx_old_nodup Hviol Jins Jboth Hbreak
              NSUF PC PC (firstn IDX OLD) _ _ _ _ Hdom _ _ _ Hacc eq_refl eq_refl HJ H).
    - rewrite ctx_filter, <- (firstn_S_nth OLD IDX dummy_cell HIDX). exact (ctx_old_split IDX HIDX).
    - rewrite ctx_filter. exact (ctx_old_ok IDX HIDX).
    - symmetry. exact ctx_cnt.
  Qed.

  Lemma ctx_check_end_irrel (violated : Z -> Z -> nat -> bool) (guard : Z -> nat -> bool) (acc0 : Z) :
    dgroups_inert inp ->
    sim_wait true inp vv US OLD (c_end PC) (c_stop PC) NSUF (length US) acc0 violated guard =
    sim_wait false inp vv US OLD (c_end PC) (c_stop PC) NSUF (length US) acc0 violated guard.
  Proof.
    intros Hdg. destruct ctx_idx as (_ & HIL & HLL).
    assert (HIDX : (IDX < length OLD)%nat) by lia.
    apply (sim_wait_check_end_irrel inp vv US OLD violated guard ctx_old_nodup) with (po := PC) (pre := firstn IDX OLD).
    - intros a b x. rewrite !dgroup_extra_inert by exact Hdg. reflexivity.
    - rewrite ctx_filter, <- (firstn_S_nth OLD IDX dummy_cell HIDX). exact (ctx_old_split IDX HIDX).
  Qed.

  Lemma est_max_wait_check_end_irrel :
    dgroups_inert inp ->
    est_max_wait_stop_arrival_only inp s mv = est_max_wait_stop inp s mv /\
    est_max_wait_vehicle_arrival_only inp s mv = est_max_wait_vehicle inp s mv.
  Proof.
    intros Hdg.
    unfold est_max_wait_stop_arrival_only, est_max_wait_stop, est_max_wait_vehicle_arrival_only,
      est_max_wait_vehicle.
    cbv beta zeta iota delta [est_max_wait_stop_gen est_max_wait_vehicle_gen hypo_of h_prev h_suffix h_old].
    split.
    - symmetry. apply ctx_check_end_irrel. exact Hdg.
    - destruct (iv_max_wait (get_vehicle inp vv)); [|reflexivity].
      symmetry. apply ctx_check_end_irrel. exact Hdg.
  Qed.

  (* a break point where arrival and end are those of the old cell: the rest of
     the new chain has the temporal values of the old one *)
  Lemma break_teq (pc po : cell) (x : nat) (rest : list nat) :
    c_arrival (next_cell inp vv pc x) = c_arrival (next_cell inp vv po x) ->
    c_end (next_cell inp vv pc x) = c_end (next_cell inp vv po x) ->
    Forall2 teq (next_cell inp vv pc x :: cells_from inp vv (next_cell inp vv pc x) rest)
                (next_cell inp vv po x :: cells_from inp vv (next_cell inp vv po x) rest).
  Proof.
    intros Ea Ee. pose proof (nc_start_eq inp vv pc po x Ea) as Es.
    assert (Ht : teq (next_cell inp vv pc x) (next_cell inp vv po x)).
    { unfold teq. rewrite !nc_stop. auto. }
    constructor; [exact Ht|]. exact (cells_from_rel inp vv teq (teq_step inp vv) rest _ _ Ht).
  Qed.

  Lemma max_wait_stop_break (pc po : cell) (x : nat) (rest : list nat) :
    c_arrival (next_cell inp vv pc x) = c_arrival (next_cell inp vv po x) ->
    c_end (next_cell inp vv pc x) = c_end (next_cell inp vv po x) ->
    Forall (cell_passes inp vv)
           (next_cell inp vv po x :: cells_from inp vv (next_cell inp vv po x) rest) ->
    Forall (cl_max_wait_stop inp vv)
           (next_cell inp vv pc x :: cells_from inp vv (next_cell inp vv pc x) rest).
  Proof.
    intros Ea Ee Hok.
    apply (Forall2_transfer teq (cell_passes inp vv) (cl_max_wait_stop inp vv) _ _
             (break_teq pc po x rest Ea Ee)); [|exact Hok].
    intros a b (E1 & E2 & E3 & _) Hb.
    destruct (passes_clauses inp vv b Hb) as (_ & _ & _ & _ & H5 & _).
    unfold cl_max_wait_stop in *. rewrite E1, E2, E3. exact H5.
  Qed.

  (* both versions of the stop estimate; the one that compares the arrival only
     needs the group part of the time spent at a stop to be independent of the
     stop in front of it *)
  Lemma est_max_wait_stop_gen_sound (check_end : bool) :
    (check_end = false -> dgroups_inert inp) ->
    est_max_wait_stop_gen check_end inp s mv = false ->
    Forall (cl_max_wait_stop inp vv) (cells_from inp vv PC NSUF).
  Proof.
    intros Hdg H. cbv beta zeta iota delta [est_max_wait_stop_gen hypo_of h_prev h_suffix h_old] in H.
    refine (ctx_sim_wait check_end _ _ (- c_wait_acc PC) (cl_max_wait_stop inp vv)
              (fun _ _ => True) (fun _ => True) 0 _ _ _ _ _ I _ H).
    - intros c Hc _ Hi w Ew. cbv beta in Hc. rewrite Hi, Ew in Hc. apply Z.ltb_ge in Hc. exact Hc.
    - auto.
    - auto.
    - intros pc po x rest _ _ _ Ea Ee _ _ Hok.
      apply (max_wait_stop_break pc po x rest Ea); [|exact Hok].
      destruct check_end; [exact (Ee eq_refl)|].
      assert (Eg : dgroup_extra inp (c_stop pc) x = dgroup_extra inp (c_stop po) x)
        by (rewrite !dgroup_extra_inert by exact (Hdg eq_refl); reflexivity).
      exact (proj2 (nc_start_of_arrival inp vv pc po x Eg Ea)).
    - apply Forall_forall. auto.
    - lia.
  Qed.

  (* the estimate of the code as it is now: sound, no side condition *)
  Lemma est_max_wait_stop_sound :
    est_max_wait_stop inp s mv = false ->
    Forall (cl_max_wait_stop inp vv) (cells_from inp vv PC NSUF).
  Proof. intros H. apply (est_max_wait_stop_gen_sound true); [discriminate|exact H]. Qed.

  (* ---------------------------------------------------------------- *)
  (* max wait per vehicle                                             *)
  (* ---------------------------------------------------------------- *)

  (* at a break point: equal arrival and no more wait accumulated in front of
     the stop than on the old route => no more accumulated wait anywhere
     downstream, and the old cells passed *)
  Lemma wait_vehicle_break (pc po : cell) (x : nat) (rest : list nat) :
    c_arrival (next_cell inp vv pc x) = c_arrival (next_cell inp vv po x) ->
    c_end (next_cell inp vv pc x) = c_end (next_cell inp vv po x) ->
    c_wait_acc pc <= c_wait_acc po ->
    Forall (cell_passes inp vv)
           (next_cell inp vv po x :: cells_from inp vv (next_cell inp vv po x) rest) ->
    Forall (cl_max_wait_vehicle inp vv)
           (next_cell inp vv pc x :: cells_from inp vv (next_cell inp vv pc x) rest).
  Proof.
    intros Ea Ee Hacc Hok.
    pose proof (nc_start_eq inp vv pc po x Ea) as Es.
    assert (Ht : teq (next_cell inp vv pc x) (next_cell inp vv po x)).
    { unfold teq. rewrite !nc_stop. auto. }
    set (d := c_wait_acc (next_cell inp vv pc x) - c_wait_acc (next_cell inp vv po x)).
    assert (Hd : d <= 0).
    { unfold d. rewrite !nc_wait_eq, Ea, Es. lia. }
    assert (Hw : weq d (next_cell inp vv pc x) (next_cell inp vv po x)).
    { split; [exact Ht|]. unfold d. lia. }
    pose proof (cells_from_rel inp vv (weq d) (weq_step inp vv d) rest _ _ Hw) as HF2.
    apply (Forall2_transfer (weq d) (cell_passes inp vv) (cl_max_wait_vehicle inp vv) _ _
             (Forall2_cons _ _ Hw HF2)); [|exact Hok].
    intros a b (_ & Eab) Hb.
    destruct (passes_clauses inp vv b Hb) as (_ & _ & _ & _ & _ & H6).
    intros Hh w' Ew'. specialize (H6 Hh w' Ew'). lia.
  Qed.

  (* both versions of the guarded estimate (the break is guarded by "the wait
     accumulated so far is not larger than the cached one") *)
  Lemma est_max_wait_vehicle_gen_sound (check_end : bool) :
    (check_end = false -> dgroups_inert inp) ->
    est_max_wait_vehicle_gen check_end inp s mv = false ->
    Forall (cl_max_wait_vehicle inp vv) (cells_from inp vv PC NSUF).
  Proof.
    intros Hdg H.
    cbv beta zeta iota delta [est_max_wait_vehicle_gen hypo_of h_prev h_suffix h_old] in H.
    destruct (iv_max_wait (get_vehicle inp vv)) as [w|] eqn:Ew.
    2:{ apply Forall_forall. intros c _ _ w' E. congruence. }
    refine (ctx_sim_wait check_end _ _ 0 (cl_max_wait_vehicle inp vv)
              (fun _ _ => True) (fun _ => True) _ _ _ _ _ _ I _ H).
    - intros c Hc _ w' Ew'. cbv beta in Hc. rewrite Ew in Ew'. injection Ew' as <-.
      apply Z.ltb_ge in Hc. lia.
    - auto.
    - auto.
    - intros pc po x rest _ _ _ Ea Ee Hg Hpa Hok. cbv beta in Hg. apply Z.leb_le in Hg.
      apply (wait_vehicle_break pc po x rest Ea); [|lia|exact Hok].
      destruct check_end; [exact (Ee eq_refl)|].
      assert (Eg : dgroup_extra inp (c_stop pc) x = dgroup_extra inp (c_stop po) x)
        by (rewrite !dgroup_extra_inert by exact (Hdg eq_refl); reflexivity).
      exact (proj2 (nc_start_of_arrival inp vv pc po x Eg Ea)).
    - apply Forall_forall. auto.
    - lia.
  Qed.

  (* the estimate of the code as it is now: sound, no side condition *)
  Lemma est_max_wait_vehicle_sound :
    est_max_wait_vehicle inp s mv = false ->
    Forall (cl_max_wait_vehicle inp vv) (cells_from inp vv PC NSUF).
  Proof. intros H. apply (est_max_wait_vehicle_gen_sound true); [discriminate|exact H]. Qed.

  (* the estimate before the fix of the guard: sound only for metric travel
     durations and non-negative stop and group durations.  Invariant: reaching
     any stop z and paying its group duration takes the new chain at least as
     much busy time (travel + service) as the old one. *)
  Lemma est_max_wait_vehicle_prefix_sound :
    durations_metric inp -> stop_durations_nonneg inp -> dgroups_nonneg inp ->
    est_max_wait_vehicle_prefix inp s mv = false ->
    Forall (cl_max_wait_vehicle inp vv) (cells_from inp vv PC NSUF).
  Proof.
    intros Hmet Hdur Hdg H.
    cbv beta zeta iota delta [est_max_wait_vehicle_prefix hypo_of h_prev h_suffix h_old] in H.
    destruct (iv_max_wait (get_vehicle inp vv)) as [w|] eqn:Ew.
    2:{ apply Forall_forall. intros c _ _ w' E. congruence. }
    destruct ctx_idx as (_ & HIL & HLL).
    assert (HIDX : (IDX < length OLD)%nat) by lia.
    assert (HPCdom : (c_stop PC < nmodel_stops inp)%nat).
    { rewrite ctx_stop_nth. destruct ctx_shape as (mid & E & Hmid). pose proof ctx_v as Hv.
      assert (Hall : forall z, In z OST -> (z < nmodel_stops inp)%nat).
      { intros z Hin. unfold nmodel_stops. rewrite E in Hin. destruct Hin as [<-|Hin].
        - unfold first_stop. lia.
        - apply in_app_or in Hin. destruct Hin as [Hin|[<-|[]]].
          + rewrite Forall_forall in Hmid. specialize (Hmid _ Hin). lia.
          + unfold last_stop. lia. }
      apply Hall. apply nth_In. rewrite ctx_len. exact HIDX. }
    set (N := nmodel_stops inp) in *.
    set (J := fun pc po : cell =>
                (c_stop pc < N)%nat /\ (c_stop po < N)%nat /\
                forall z, (z < N)%nat ->
                  busy po + travel_duration inp (c_stop po) z
                  + scale_duration inp vv (dgroup_extra inp (c_stop po) z)
                  <= busy pc + travel_duration inp (c_stop pc) z
                     + scale_duration inp vv (dgroup_extra inp (c_stop pc) z)).
    refine (ctx_sim_wait true _ _ 0 (cl_max_wait_vehicle inp vv)
              J (fun x => (x < N)%nat) _ _ _ _ _ ctx_dom _ _ H).
    - intros c Hc _ w' Ew'. cbv beta in Hc. rewrite Ew in Ew'. injection Ew' as <-.
      apply Z.ltb_ge in Hc. lia.
    - (* an inserted stop: the new chain gets later *)
      intros pc po x Hx _ (J1 & J2 & J3). unfold J. rewrite nc_stop.
      split; [exact Hx|]. split; [exact J2|]. intros z Hz.
      rewrite busy_step. unfold stop_duration_on.
      pose proof (J3 z Hz). pose proof (Hmet (c_stop pc) x z J1 Hx Hz).
      pose proof (scale_duration_nonneg inp vv _ Hwf (stop_duration_nonneg inp x Hdur)).
      pose proof (scaled_extra_triangle inp vv (c_stop pc) x z Hwf Hdg). lia.
    - intros pc po x Hx (J1 & J2 & J3). unfold J. rewrite !nc_stop.
      split; [exact Hx|]. split; [exact Hx|]. intros z Hz.
      rewrite !busy_step. unfold stop_duration_on.
      pose proof (J3 x Hx). lia.
    - (* the break: equal arrival and equal end mean the new chain has waited no more *)
      intros pc po x rest (J1 & J2 & J3) Hx _ Ea Ee _ _ Hok. specialize (Ee eq_refl).
      apply (wait_vehicle_break pc po x rest Ea Ee); [|exact Hok].
      pose proof (nc_extra_of_end inp vv pc po x Ea Ee) as Eg.
      pose proof (J3 x Hx) as Hj. unfold busy in Hj. rewrite !nc_arrival, !nc_travel in Ea. lia.
    - unfold J. split; [exact HPCdom|]. split; [exact HPCdom|]. intros z _. lia.
    - lia.
  Qed.

  (* ---------------------------------------------------------------- *)
  (* distance limit                                                   *)
  (* ---------------------------------------------------------------- *)

  Lemma ctx_walk_nonempty (A1 : list nat) (c : cell) :
    cells_from inp vv c (A1 ++ [YY]) <> [].
  Proof.
    intros E. apply (f_equal route_stops) in E. rewrite route_stops_cells_from in E.
    destruct A1; discriminate.
  Qed.

  Lemma est_distance_sound :
    distances_nonneg inp ->
    est_distance inp s mv = false ->
    Forall (cl_distance inp vv) (cells_from inp vv PC NSUF).
  Proof.
    intros Hdn H. cbv beta zeta delta [est_distance] in H.
    destruct (iv_max_distance (get_vehicle inp vv)) as [maxv|] eqn:Emax.
    2:{ apply Forall_forall. intros c _ _ d E. congruence. }
    cut (Forall (fun c => 0 <= c_cumdist c <= maxv) (cells_from inp vv PC NSUF)).
    { intros HF. eapply Forall_impl; [|exact HF]. cbv beta. intros c Hc _ d E.
      rewrite Emax in E. injection E as <-. exact Hc. }
    cbv beta zeta iota delta [hypo_of h_prev h_suffix h_upto h_old] in H.
    destruct ctx_idx as (_ & HIL & HLG).
    set (f := distance_value inp vv) in *.
    assert (Hg : forall c x, c_cumdist (next_cell inp vv c x) = c_cumdist c + f (c_stop c) x).
    { intros c x. apply nc_cumdist. }
    assert (Hf : forall a x, 0 <= f a x).
    { intros a x. apply distance_value_nonneg. exact Hdn. }
    destruct ctx_nsuf_split as (A1 & EN & ELEN). rewrite EN in H |- *. rewrite <- ELEN in H.
    rewrite walk_levels_app in H.
    destruct (walk_levels f maxv (c_cumdist PC) (c_stop PC) (A1 ++ [YY]) (length (A1 ++ [YY])))
      as [[viol level] lastx] eqn:Ew.
    destruct viol; [discriminate|]. apply Z.ltb_ge in H.
    destruct (walk_cells inp vv f c_cumdist maxv Hg (A1 ++ [YY]) PC _ _ level lastx eq_refl eq_refl Ew)
      as (W1 & W2 & W3).
    rewrite last_last in W3. subst lastx.
    set (cY := last (cells_from inp vv PC (A1 ++ [YY])) PC) in *.
    set (nxt := nth LG OLD dummy_cell) in *.
    assert (HcY : 0 <= c_cumdist cY <= maxv).
    { unfold cY. apply (Forall_last (fun c => 0 <= c_cumdist c <= maxv)); [exact W1|apply ctx_walk_nonempty]. }
    assert (HsY : c_stop cY = YY).
    { unfold cY. destruct (last_cells_from inp vv (A1 ++ [YY]) PC) as (E & _). rewrite E.
      apply last_last. }
    assert (Hsn : c_stop nxt = YY) by apply ctx_stop_nth.
    assert (Hcs : cell_of_stop OLD YY = nxt).
    { rewrite <- Hsn. unfold nxt. apply cell_of_stop_nth; [exact ctx_old_nodup|exact HLG]. }
    rewrite Hcs in H. rewrite (ctx_last_old LG HLG) in H. fold nxt in H.
    rewrite cells_from_app. fold cY. apply Forall_app. split; [exact W1|].
    set (d := level - c_cumdist nxt) in *.
    assert (Hdeq : deq d cY nxt).
    { split; [rewrite HsY, Hsn; reflexivity|]. unfold d. lia. }
    pose proof (cells_from_rel inp vv (deq d) (deq_step inp vv d) BB _ _ Hdeq) as HF2.
    destruct (chain_mono inp vv f c_cumdist Hg Hf BB nxt) as (_ & Hm).
    apply (Forall2_transfer (deq d)
             (fun c' => c_cumdist nxt <= c_cumdist c' <= c_cumdist (last (cells_from inp vv nxt BB) nxt))
             (fun c => 0 <= c_cumdist c <= maxv) _ _ HF2); [|exact Hm].
    intros a b (_ & E) Hb. cbv beta in Hb. rewrite E. unfold d. lia.
  Qed.

  (* ---------------------------------------------------------------- *)
  (* capacity of one resource                                         *)
  (* ---------------------------------------------------------------- *)

  Lemma ctx_last_of_BB (l' : list nat) (a : nat) :
    BB = l' ++ [a] -> a = last_stop inp vv.
  Proof.
    intros E. destruct ctx_shape as (mid & Es & _).
    assert (Hk : (S LG < length OST)%nat).
    { apply (f_equal (@length nat)) in E. rewrite skipn_length, app_length in E. cbn [length] in E. lia. }
    pose proof (last_skipn OST (S LG) 0%nat Hk) as Hl. rewrite E, last_last in Hl.
    rewrite Hl, Es. rewrite app_comm_cons. apply last_last.
  Qed.

  Lemma est_capacity_sound (r : nat) :
    (exists s0, new_solution inp = Some s0) -> has_capacity inp = true -> (r < in_nres inp)%nat ->
    est_capacity inp s mv r = false ->
    Forall (fun c => 0 <= nthZ (c_levels c) r <= capacity inp vv r) (cells_from inp vv PC NSUF).
  Proof.
    intros Hns Hcap Hr H.
    destruct ctx_idx as (_ & HIL & HLG).
    assert (HIDX : (IDX < length OLD)%nat) by lia.
    pose proof (ctx_pc_levels Hns Hcap r Hr) as Hpc.
    set (maxv := capacity inp vv r) in *.
    set (val := resource_value inp vv r).
    set (f := fun (_ : nat) (x : nat) => val x).
    set (g := fun c : cell => nthZ (c_levels c) r).
    assert (Hold : forall k, (k < length OLD)%nat ->
              Forall (fun c => 0 <= g c <= maxv)
                     (cells_from inp vv (nth k OLD dummy_cell) (skipn (S k) OST))).
    { intros k Hk. eapply Forall_impl; [|exact (ctx_old_ok k Hk)].
      intros c Hc. exact (sv_capacity inp vv c Hc r Hcap Hr). }
    assert (Hg : forall c x, g (next_cell inp vv c x) = g c + f (c_stop c) x).
    { intros c x. unfold g, f, val. apply nc_levels. exact Hr. }
    cbv beta zeta delta [est_capacity] in H.
    change (fun x : nat => resource_value inp vv r x) with val in H.
    match type of H with (if ?b then _ else _) = _ => destruct b eqn:Ea end.
    { (* no effect: the stops of the unit contribute 0 *)
      apply andb_true_iff in Ea. destruct Ea as (_ & Ez). rewrite forallb_forall in Ez.
      apply (zero_insert_levels inp vv r US (fun z => 0 <= z <= maxv) Hr NSUF PC PC);
        [|reflexivity|exact Hpc|rewrite ctx_filter; exact (Hold IDX HIDX)].
      intros x _ Hm. apply mem_nat_In in Hm. apply Z.eqb_eq. exact (Ez x Hm). }
    match type of H with (if ?b then _ else _) = _ => destruct b eqn:Eb end; [discriminate|].
    cbv beta zeta iota delta [hypo_of h_prev h_suffix h_upto h_old] in H.
    destruct (res_has_neg inp r) eqn:En; cbn [negb] in H.
    2:{ (* end-level shortcut: levels only grow *)
      apply Z.ltb_ge in H.
      assert (Hf : forall a x, 0 <= f a x).
      { intros a x. unfold f, val. apply no_neg_value. exact En. }
      destruct (chain_mono inp vv f g Hg Hf NSUF PC) as (_ & Hm).
      pose proof (chain_last inp vv f g Hg NSUF PC) as Hl.
      pose proof (chain_last inp vv f g Hg OSUF PC) as Hlo.
      unfold f in Hl, Hlo. rewrite path_sum_const in Hl, Hlo. rewrite (ctx_sum val) in Hl.
      rewrite (ctx_last_old IDX HIDX) in H. fold (g (last (cells_from inp vv PC OSUF) PC)) in H.
      eapply Forall_impl; [|exact Hm]. cbv beta. intros c' Hc'. fold (g c'). fold (g PC) in Hpc. lia. }
    (* general walk up to the stop after the last position ... *)
    fold maxv in H. change (fun _ : nat => val) with f in H. fold (g PC) in H.
    destruct ctx_nsuf_split as (A1 & EN & ELEN). rewrite EN in H |- *. rewrite <- ELEN in H.
    rewrite walk_levels_app in H.
    destruct (walk_levels f maxv (g PC) (c_stop PC) (A1 ++ [YY]) (length (A1 ++ [YY])))
      as [[viol level] lastx] eqn:Ew.
    destruct viol; [discriminate|].
    destruct (walk_cells inp vv f g maxv Hg (A1 ++ [YY]) PC _ _ level lastx eq_refl eq_refl Ew)
      as (W1 & W2 & _).
    set (cY := last (cells_from inp vv PC (A1 ++ [YY])) PC) in *.
    set (nxt := nth LG OLD dummy_cell) in *.
    assert (HcY : 0 <= g cY <= maxv).
    { unfold cY. apply (Forall_last_default (fun c => 0 <= g c <= maxv)); [exact W1|exact Hpc]. }
    rewrite cells_from_app. fold cY. apply Forall_app. split; [exact W1|].
    fold (g nxt) in H.
    destruct (g nxt =? level) eqn:Eq.
    { (* ... level unchanged there: downstream levels are the old ones *)
      apply Z.eqb_eq in Eq.
      assert (Hleq : leq r cY nxt) by (unfold leq; fold (g cY); fold (g nxt); lia).
      pose proof (cells_from_rel inp vv (leq r)
                    (fun c1 c2 x => leq_step inp vv r c1 c2 x Hr) BB _ _ Hleq) as HF2.
      apply (Forall2_transfer (leq r) (fun c => 0 <= g c <= maxv) (fun c => 0 <= g c <= maxv)
               _ _ HF2); [|exact (Hold LG HLG)].
      intros a b Hab Hb. unfold leq in Hab. unfold g in *. rewrite Hab. exact Hb. }
    (* ... level changed: walk to the stop before the vehicle's last stop *)
    destruct (walk_levels f maxv level 0%nat (removelast BB) (length (removelast BB)))
      as [[viol2 l2] x2] eqn:Ew2.
    subst viol2.
    pose proof (walk_levels_prev_irrel f maxv level 0%nat (c_stop cY) (removelast BB)
                  (length (removelast BB)) (fun a b x => eq_refl)) as Hirr.
    rewrite Ew2 in Hirr. cbn [fst] in Hirr.
    destruct (walk_levels f maxv level (c_stop cY) (removelast BB) (length (removelast BB)))
      as [[v3 l3] x3] eqn:Ew3.
    cbn [fst] in Hirr. injection Hirr as <- <-.
    destruct (walk_cells inp vv f g maxv Hg (removelast BB) cY _ _ l2 x3 W2 eq_refl Ew3)
      as (D1 & _ & _).
    destruct (nil_or_snoc BB) as [E|(l' & a & E)]; rewrite E in D1 |- *; [constructor|].
    rewrite removelast_snoc in D1. rewrite cells_from_app. apply Forall_app. split; [exact D1|].
    cbn [cells_from]. constructor; [|constructor].
    change (0 <= g (next_cell inp vv (last (cells_from inp vv cY l') cY) a) <= maxv).
    rewrite Hg. unfold f, val.
    rewrite (ctx_last_of_BB l' a E).
    assert (E0 : resource_value inp vv r (last_stop inp vv) = 0).
    { unfold resource_value, is_input_stop, last_stop.
      rewrite (proj2 (Nat.ltb_ge _ _)) by lia. reflexivity. }
    rewrite E0, Z.add_0_r.
    apply (Forall_last_default (fun c => 0 <= g c <= maxv)); [exact D1|exact HcY].
  Qed.

  (* ---------------------------------------------------------------- *)
  (* all estimates together: every new cell passes the exact check    *)
  (* ---------------------------------------------------------------- *)

  (* generic in the answer [ev8] of the vehicle max-wait estimate *)
  Lemma all_new_cells_pass_gen (ev8 : bool) :
    in_user inp = [] -> distances_nonneg inp -> (exists s0, new_solution inp = Some s0) ->
    (has_max_wait_vehicle inp = true -> ev8 = false ->
     Forall (cl_max_wait_vehicle inp vv) (cells_from inp vv PC NSUF)) ->
    (has_attributes inp && est_attributes inp s mv) ||
    (has_capacity inp && existsb (est_capacity inp s mv) (seqn (in_nres inp))) ||
    (has_distance_limit inp && est_distance inp s mv) ||
    (has_latest_end inp && est_latest_end inp s mv) ||
    (has_latest_start inp && est_latest_start inp s mv) ||
    (has_max_stops inp && est_max_stops inp s mv) ||
    (has_max_wait_stop inp && est_max_wait_stop inp s mv) ||
    (has_max_wait_vehicle inp && ev8) = false ->
    Forall (cell_passes inp vv) (cells_from inp vv PC NSUF).
  Proof.
    intros Hu Hdn Hns Hside Hev.
    apply orb_false_iff in Hev. destruct Hev as (Hev & E8).
    apply orb_false_iff in Hev. destruct Hev as (Hev & E7).
    apply orb_false_iff in Hev. destruct Hev as (Hev & _).     (* max stops: no exact check *)
    apply orb_false_iff in Hev. destruct Hev as (Hev & E5).
    apply orb_false_iff in Hev. destruct Hev as (Hev & E4).
    apply orb_false_iff in Hev. destruct Hev as (Hev & E3).
    apply orb_false_iff in Hev. destruct Hev as (_ & E2).     (* attributes: no exact check *)
    assert (F2 : Forall (cl_capacity inp vv) (cells_from inp vv PC NSUF)).
    { destruct (has_capacity inp) eqn:Eh.
      - cbn [andb] in E2. apply Forall_forall. intros c Hc _ r Hr.
        assert (Ee : est_capacity inp s mv r = false).
        { destruct (est_capacity inp s mv r) eqn:Ee; [|reflexivity].
          assert (existsb (est_capacity inp s mv) (seqn (in_nres inp)) = true).
          { apply existsb_exists. exists r. split; [apply In_seqn; exact Hr|exact Ee]. }
          congruence. }
        pose proof (est_capacity_sound r Hns Eh Hr Ee) as HF. rewrite Forall_forall in HF.
        exact (HF c Hc).
      - apply Forall_forall. intros c _. red. intros Habs. congruence. }
    assert (F3 : Forall (cl_distance inp vv) (cells_from inp vv PC NSUF)).
    { destruct (has_distance_limit inp) eqn:Eh.
      - cbn [andb] in E3. exact (est_distance_sound Hdn E3).
      - apply Forall_forall. intros c _. red. intros Habs. congruence. }
    assert (F4 : Forall (cl_latest_end inp vv) (cells_from inp vv PC NSUF)).
    { destruct (has_latest_end inp) eqn:Eh.
      - cbn [andb] in E4. exact (est_latest_end_sound E4).
      - apply Forall_forall. intros c _. red. intros Habs. congruence. }
    assert (F5 : Forall (cl_latest_start inp vv) (cells_from inp vv PC NSUF)).
    { destruct (has_latest_start inp) eqn:Eh.
      - cbn [andb] in E5. exact (est_latest_start_sound E5).
      - apply Forall_forall. intros c _. red. intros Habs. congruence. }
    assert (F7 : Forall (cl_max_wait_stop inp vv) (cells_from inp vv PC NSUF)).
    { destruct (has_max_wait_stop inp) eqn:Eh.
      - cbn [andb] in E7. exact (est_max_wait_stop_sound E7).
      - apply Forall_forall. intros c _. red. intros Habs. congruence. }
    assert (F8 : Forall (cl_max_wait_vehicle inp vv) (cells_from inp vv PC NSUF)).
    { destruct (has_max_wait_vehicle inp) eqn:Eh.
      - cbn [andb] in E8. exact (Hside eq_refl E8).
      - apply Forall_forall. intros c _. red. intros Habs. congruence. }
    rewrite Forall_forall in F2, F3, F4, F5, F7, F8.
    apply Forall_forall. intros c Hc. apply clauses_pass; auto.
  Qed.

  (* the estimates of the code as it is now: no side condition on the durations *)
  Lemma all_new_cells_pass :
    in_user inp = [] -> distances_nonneg inp -> (exists s0, new_solution inp = Some s0) ->
    estimate_violated inp s mv = false ->
    Forall (cell_passes inp vv) (cells_from inp vv PC NSUF).
  Proof.
    intros Hu Hdn Hns Hev. unfold estimate_violated in Hev.
    apply (all_new_cells_pass_gen (est_max_wait_vehicle inp s mv) Hu Hdn Hns); [|exact Hev].
    intros Hh E. exact (est_max_wait_vehicle_sound E).
  Qed.

  (* the estimates before the fix *)
  Lemma all_new_cells_pass_prefix :
    in_user inp = [] -> distances_nonneg inp -> (exists s0, new_solution inp = Some s0) ->
    (has_max_wait_vehicle inp = false \/
     (durations_metric inp /\ stop_durations_nonneg inp /\ dgroups_nonneg inp)) ->
    estimate_violated_prefix inp s mv = false ->
    Forall (cell_passes inp vv) (cells_from inp vv PC NSUF).
  Proof.
    intros Hu Hdn Hns Hside Hev. unfold estimate_violated_prefix in Hev.
    apply (all_new_cells_pass_gen (est_max_wait_vehicle_prefix inp s mv) Hu Hdn Hns); [|exact Hev].
    intros Hh E. destruct Hside as [Hs|(Hm & Hd & Hg)]; [congruence|].
    exact (est_max_wait_vehicle_prefix_sound Hm Hd Hg E).
  Qed.

  (* if every new cell passes, Execute succeeds *)
  Lemma exec_done :
    Forall (cell_passes inp vv) (cells_from inp vv PC NSUF) ->
    exists s', exec_move inp s mv = (s', Done).
  Proof.
    intros HF. unfold exec_move. rewrite Hnp. cbv zeta. unfold is_feasible.
    assert (Hgr : forall s1, st_routes s1 = st_routes s -> get_route s1 vv = OLD).
    { intros s1 E. unfold get_route. rewrite E. reflexivity. }
    match goal with |- context [get_route ?s1 vv] =>
      lazymatch s1 with s => fail | _ => rewrite (Hgr s1 eq_refl) end end.
    rewrite ctx_pc_last.
    rewrite (propagate_complete inp vv true NSUF PC HF). eexists. reflexivity.
  Qed.

End Ctx.

(* ================================================================== *)
(* 4. C09                                                              *)
(* ================================================================== *)

Definition matrices_nonneg (inp : input) : Prop :=
  Forall (Forall (fun z => 0 <= z)) (in_duration inp) /\ distances_nonneg inp.

Definition wait_vehicle_side (inp : input) : Prop :=
  has_max_wait_vehicle inp = false \/
  (durations_metric inp /\ stop_durations_nonneg inp /\ dgroups_nonneg inp).

(* the property, for the estimates of the code as it is now (after the fix of
   the vehicle max-wait estimate).  Of [matrices_nonneg] only the distance part
   is needed; user constraints are excluded (their estimate is optimistic by
   design). *)
Theorem C09_executable_executes_proof : forall inp s mv s' r,
  wf_input inp -> distances_nonneg inp -> reachable inp s -> move_ok inp s mv ->
  (forall u, In u (in_user inp) -> False) ->
  move_executable inp s mv = true ->
  exec_checked inp s mv = (s', r) -> r = Done.
Proof.
  intros inp s mv s' r Hwf Hdn Hreach Hmv Huser Hme Hex.
  unfold exec_checked in Hex. rewrite Hme in Hex.
  unfold move_executable in Hme. apply andb_true_iff in Hme. destruct Hme as (Hnp & Hev).
  apply negb_true_iff in Hnp. apply negb_true_iff in Hev.
  pose proof (reachable_invT inp s Hwf Hreach) as HI.
  assert (Hns : exists s0, new_solution inp = Some s0).
  { destruct Hreach as (s0 & h & Hns & _). exists s0. exact Hns. }
  assert (Hu : in_user inp = []).
  { destruct (in_user inp) as [|a l]; [reflexivity|]. exfalso. apply (Huser a). left. reflexivity. }
  pose proof (all_new_cells_pass inp s mv Hwf HI Hmv Hnp Hu Hdn Hns Hev) as HF.
  destruct (exec_done inp s mv Hmv Hnp HF) as (s2 & E).
  rewrite E in Hex. injection Hex as _ <-. reflexivity.
Qed.

(* the same for the estimates BEFORE the fix: only under [wait_vehicle_side]
   (without it: C09_prefix_executable_executes_refuted_proof) *)
Theorem C09_prefix_executable_executes_partial_proof : forall inp s mv s' r,
  wf_input inp -> distances_nonneg inp -> reachable inp s -> move_ok inp s mv ->
  (forall u, In u (in_user inp) -> False) ->
  wait_vehicle_side inp ->
  move_executable_prefix inp s mv = true ->
  exec_checked_prefix inp s mv = (s', r) -> r = Done.
Proof.
  intros inp s mv s' r Hwf Hdn Hreach Hmv Huser Hside Hme Hex.
  unfold exec_checked_prefix in Hex. rewrite Hme in Hex.
  unfold move_executable_prefix in Hme. apply andb_true_iff in Hme. destruct Hme as (Hnp & Hev).
  apply negb_true_iff in Hnp. apply negb_true_iff in Hev.
  pose proof (reachable_invT inp s Hwf Hreach) as HI.
  assert (Hns : exists s0, new_solution inp = Some s0).
  { destruct Hreach as (s0 & h & Hns & _). exists s0. exact Hns. }
  assert (Hu : in_user inp = []).
  { destruct (in_user inp) as [|a l]; [reflexivity|]. exfalso. apply (Huser a). left. reflexivity. }
  pose proof (all_new_cells_pass_prefix inp s mv Hwf HI Hmv Hnp Hu Hdn Hns Hside Hev) as HF.
  destruct (exec_done inp s mv Hmv Hnp HF) as (s2 & E).
  rewrite E in Hex. injection Hex as _ <-. reflexivity.
Qed.

(* the cells that exec_move recomputes *)
Definition new_cells (inp : input) (s : state) (mv : move) : list cell :=
  let old := get_route s (mv_vehicle mv) in
  let idx := (first_gap (mv_places mv) - 1)%nat in
  cells_from inp (mv_vehicle mv) (nth idx old dummy_cell)
             (skipn (S idx) (insert_places 0 (route_stops old) (mv_places mv))).

(* a move not offered as executable is not executed *)
Theorem C09_not_executable_not_executed_proof : forall inp s mv,
  move_executable inp s mv = false -> exec_checked inp s mv = (s, NotExecutable).
Proof. intros inp s mv H. unfold exec_checked. rewrite H. reflexivity. Qed.

(* a successful checked execution is a successful execution of an executable move *)
Theorem C09_done_was_executable_proof : forall inp s mv s',
  exec_checked inp s mv = (s', Done) ->
  move_executable inp s mv = true /\ exec_move inp s mv = (s', Done).
Proof.
  intros inp s mv s' H. unfold exec_checked in H.
  destruct (move_executable inp s mv); [split; [reflexivity|exact H]|discriminate].
Qed.

(* ------------------------------------------------------------------ *)
(* The side conditions are decidable: boolean checkers                 *)
(* ------------------------------------------------------------------ *)

Definition distances_nonneg_b (inp : input) : bool :=
  forallb (forallb (fun z => 0 <=? z)) (in_distance inp).
Definition stop_durations_nonneg_b (inp : input) : bool :=
  forallb (fun st => 0 <=? is_duration st) (in_stops inp).
Definition durations_metric_b (inp : input) : bool :=
  let ids := seqn (nmodel_stops inp) in
  forallb (fun a => forallb (fun b => forallb (fun c =>
    travel_duration inp a c <=? travel_duration inp a b + travel_duration inp b c) ids) ids) ids.

Definition dgroups_inert_b (inp : input) : bool :=
  o_dis_dgroups (in_opts inp) || forallb (fun g => snd g =? 0) (in_dgroups inp).
Definition dgroups_nonneg_b (inp : input) : bool :=
  o_dis_dgroups (in_opts inp) || forallb (fun g => 0 <=? snd g) (in_dgroups inp).

Lemma dgroups_inert_b_ok (inp : input) : dgroups_inert_b inp = true -> dgroups_inert inp.
Proof.
  unfold dgroups_inert_b, dgroups_inert. intros H. apply orb_true_iff in H.
  destruct H as [H|H]; [left; exact H|right].
  rewrite forallb_forall in H. apply Forall_forall. intros g Hg. apply Z.eqb_eq. exact (H g Hg).
Qed.

Lemma dgroups_nonneg_b_ok (inp : input) : dgroups_nonneg_b inp = true -> dgroups_nonneg inp.
Proof.
  unfold dgroups_nonneg_b, dgroups_nonneg. intros H. apply orb_true_iff in H.
  destruct H as [H|H]; [left; exact H|right].
  rewrite forallb_forall in H. apply Forall_forall. intros g Hg. apply Z.leb_le. exact (H g Hg).
Qed.

Lemma distances_nonneg_b_ok (inp : input) : distances_nonneg_b inp = true -> distances_nonneg inp.
Proof.
  unfold distances_nonneg_b, distances_nonneg. intros H. rewrite forallb_forall in H.
  apply Forall_forall. intros row Hrow. specialize (H row Hrow). rewrite forallb_forall in H.
  apply Forall_forall. intros z Hz. apply Z.leb_le. exact (H z Hz).
Qed.

Lemma stop_durations_nonneg_b_ok (inp : input) :
  stop_durations_nonneg_b inp = true -> stop_durations_nonneg inp.
Proof.
  unfold stop_durations_nonneg_b, stop_durations_nonneg. intros H. rewrite forallb_forall in H.
  apply Forall_forall. intros st Hst. apply Z.leb_le. exact (H st Hst).
Qed.

Lemma durations_metric_b_ok (inp : input) : durations_metric_b inp = true -> durations_metric inp.
Proof.
  unfold durations_metric_b, durations_metric. cbv zeta. intros H a b c Ha Hb Hc.
  rewrite forallb_forall in H. specialize (H a (proj2 (In_seqn _ _) Ha)).
  rewrite forallb_forall in H. specialize (H b (proj2 (In_seqn _ _) Hb)).
  rewrite forallb_forall in H. specialize (H c (proj2 (In_seqn _ _) Hc)).
  apply Z.leb_le. exact H.
Qed.

(* ------------------------------------------------------------------ *)
(* The per-constraint statements on reachable states                   *)
(* ------------------------------------------------------------------ *)

Section PerConstraint.
  Variables (inp : input) (s : state) (mv : move).
  Hypothesis Hwf : wf_input inp.
  Hypothesis Hreach : reachable inp s.
  Hypothesis Hmv : move_ok inp s mv.
  Hypothesis Hnp : unit_planned inp s (mv_unit mv) = false.

  Let HI : InvT inp s := reachable_invT inp s Hwf Hreach.

  Theorem C09_est_latest_start_sound_proof :
    est_latest_start inp s mv = false ->
    Forall (cl_latest_start inp (mv_vehicle mv)) (new_cells inp s mv).
  Proof. exact (est_latest_start_sound inp s mv). Qed.

  Theorem C09_est_latest_end_sound_proof :
    est_latest_end inp s mv = false ->
    Forall (cl_latest_end inp (mv_vehicle mv)) (new_cells inp s mv).
  Proof. exact (est_latest_end_sound inp s mv). Qed.

  Theorem C09_est_capacity_sound_proof :
    (forall r, (r < in_nres inp)%nat -> est_capacity inp s mv r = false) ->
    Forall (cl_capacity inp (mv_vehicle mv)) (new_cells inp s mv).
  Proof.
    intros H. apply Forall_forall. intros c Hc Hcap r Hr.
    assert (Hns : exists s0, new_solution inp = Some s0).
    { pose proof Hreach as (s0 & h & Hns & _). exists s0. exact Hns. }
    assert (HF : Forall (fun c => 0 <= nthZ (c_levels c) r <= capacity inp (mv_vehicle mv) r) (new_cells inp s mv))
      by (eapply est_capacity_sound; eauto).
    rewrite Forall_forall in HF. exact (HF c Hc).
  Qed.

  Theorem C09_est_distance_sound_proof :
    distances_nonneg inp -> est_distance inp s mv = false ->
    Forall (cl_distance inp (mv_vehicle mv)) (new_cells inp s mv).
  Proof. intros; eapply est_distance_sound; eassumption. Qed.

  Theorem C09_est_max_wait_stop_sound_proof :
    est_max_wait_stop inp s mv = false ->
    Forall (cl_max_wait_stop inp (mv_vehicle mv)) (new_cells inp s mv).
  Proof. intros; eapply est_max_wait_stop_sound; eassumption. Qed.

  Theorem C09_est_max_wait_vehicle_sound_proof :
    est_max_wait_vehicle inp s mv = false ->
    Forall (cl_max_wait_vehicle inp (mv_vehicle mv)) (new_cells inp s mv).
  Proof. intros; eapply est_max_wait_vehicle_sound; eassumption. Qed.

  (* before the fix *)
  Theorem C09_prefix_est_max_wait_vehicle_sound_partial_proof :
    durations_metric inp -> stop_durations_nonneg inp -> dgroups_nonneg inp ->
    est_max_wait_vehicle_prefix inp s mv = false ->
    Forall (cl_max_wait_vehicle inp (mv_vehicle mv)) (new_cells inp s mv).
  Proof. intros; eapply est_max_wait_vehicle_prefix_sound; eassumption. Qed.

  (* the estimates BEFORE the repair of the duration-group defect (arrival only):
     sound when the groups are inert *)
  Theorem C09_arrival_only_est_max_wait_stop_sound_proof :
    dgroups_inert inp ->
    est_max_wait_stop_arrival_only inp s mv = false ->
    Forall (cl_max_wait_stop inp (mv_vehicle mv)) (new_cells inp s mv).
  Proof.
    intros Hdg H. unfold est_max_wait_stop_arrival_only in H.
    eapply est_max_wait_stop_gen_sound with (check_end := false); try eassumption.
    intros _. exact Hdg.
  Qed.

  Theorem C09_arrival_only_est_max_wait_vehicle_sound_proof :
    dgroups_inert inp ->
    est_max_wait_vehicle_arrival_only inp s mv = false ->
    Forall (cl_max_wait_vehicle inp (mv_vehicle mv)) (new_cells inp s mv).
  Proof.
    intros Hdg H. unfold est_max_wait_vehicle_arrival_only in H.
    eapply est_max_wait_vehicle_gen_sound with (check_end := false); try eassumption.
    intros _. exact Hdg.
  Qed.

  (* and the exact check is nothing but the six clauses *)
  Theorem C09_new_cells_pass_proof :
    (forall u, In u (in_user inp) -> False) -> distances_nonneg inp ->
    estimate_violated inp s mv = false ->
    Forall (fun c => stop_violation inp (mv_vehicle mv) true c = None) (new_cells inp s mv).
  Proof.
    intros Huser Hdn Hev.
    assert (Hns : exists s0, new_solution inp = Some s0).
    { pose proof Hreach as (s0 & h & Hns & _). exists s0. exact Hns. }
    assert (Hu : in_user inp = []).
    { destruct (in_user inp) as [|a l]; [reflexivity|]. exfalso. apply (Huser a). left. reflexivity. }
    eapply all_new_cells_pass; eassumption.
  Qed.
End PerConstraint.

(* without (active) duration groups the repair changes nothing: the estimates
   that compare the arrival only and the repaired ones are the same functions
   on every state the engine can reach; so are the gates built on them (for
   these the unit need not be unplanned: a planned unit is refused by both) *)
Theorem C09_check_end_equivalent_without_groups_proof : forall inp s mv,
  wf_input inp -> reachable inp s -> move_ok inp s mv -> dgroups_inert inp ->
  (unit_planned inp s (mv_unit mv) = false ->
   est_max_wait_stop_arrival_only inp s mv = est_max_wait_stop inp s mv /\
   est_max_wait_vehicle_arrival_only inp s mv = est_max_wait_vehicle inp s mv /\
   estimate_violated_arrival_only inp s mv = estimate_violated inp s mv) /\
  move_executable_arrival_only inp s mv = move_executable inp s mv /\
  exec_checked_arrival_only inp s mv = exec_checked inp s mv.
Proof.
  intros inp s mv Hwf Hreach Hmv Hdg.
  pose proof (reachable_invT inp s Hwf Hreach) as HI.
  assert (Hest : unit_planned inp s (mv_unit mv) = false ->
     est_max_wait_stop_arrival_only inp s mv = est_max_wait_stop inp s mv /\
     est_max_wait_vehicle_arrival_only inp s mv = est_max_wait_vehicle inp s mv /\
     estimate_violated_arrival_only inp s mv = estimate_violated inp s mv).
  { intros Hnp. destruct (est_max_wait_check_end_irrel inp s mv Hwf HI Hmv Hnp Hdg) as (E1 & E2).
    split; [exact E1|]. split; [exact E2|].
    unfold estimate_violated_arrival_only, estimate_violated. rewrite E1, E2. reflexivity. }
  assert (Hme : move_executable_arrival_only inp s mv = move_executable inp s mv).
  { unfold move_executable_arrival_only, move_executable.
    destruct (unit_planned inp s (mv_unit mv)) eqn:Hnp; [reflexivity|].
    destruct (Hest eq_refl) as (_ & _ & E). rewrite E. reflexivity. }
  split; [exact Hest|]. split; [exact Hme|].
  unfold exec_checked_arrival_only, exec_checked. rewrite Hme. reflexivity.
Qed.

(* max stops and attributes have an estimate but NO exact check: whatever their
   estimates answer, the exact check of a cell does not depend on them *)
Theorem C09_no_exact_check_for_max_stops_and_attributes_proof : forall inp v c,
  in_user inp = [] ->
  (stop_violation inp v true c = None <->
   cl_capacity inp v c /\ cl_distance inp v c /\ cl_latest_end inp v c /\
   cl_latest_start inp v c /\ cl_max_wait_stop inp v c /\ cl_max_wait_vehicle inp v c).
Proof.
  intros inp v c Hu. split.
  - apply passes_clauses.
  - intros (H1 & H2 & H3 & H4 & H5 & H6). apply clauses_pass; assumption.
Qed.

(* ================================================================== *)
(* 5. The refutation: vehicle max wait                                 *)
(* ================================================================== *)

(* Two stops X (0) and Y (1), one vehicle (first stop 2, last stop 3), start
   time 0, vehicle max wait 2400 s.  X opens at 3000, Y opens at 6600, no
   service durations.  Travel durations (seconds), NOT metric:
       first -> Y : 6000        first -> X : 600        X -> Y : 3000
   Route before the move: first, Y, last.  Y is reached at 6000 and waits 600
   (accumulated wait 600 <= 2400).
   Move: X between first and Y.  X is reached at 600 and waits 2400 for its
   window (accumulated 2400 <= 2400: the estimate does not complain), leaves at
   3000 and reaches Y at 6000: the arrival at Y is UNCHANGED, all stops of the
   unit are placed, the estimate breaks and answers "not violated".
   Exact check: Y still waits 600, accumulated wait 3000 > 2400: the move is
   rejected by the vehicle max-wait constraint and rolled back. *)
Definition w_opts : options :=
  mkOptions false false false false false false false false false false false 0 1 0 1 false 0 0 0 0 false [].
Definition w_X : istop := mkIStop [] 0 [(3000, 100020)] None 10 [] None 0 0.
Definition w_Y : istop := mkIStop [] 0 [(6600, 100020)] None 10 [] None 0 0.
Definition w_veh : ivehicle :=
  mkIVehicle None [] 0 None None None None (Some 2400) [] 0 true true 0 0 1 1.
Definition w_mat : list (list Z) :=
  [[0; 3000; 600; 600]; [3000; 0; 6000; 0]; [600; 6000; 0; 0]; [600; 0; 0; 0]].
Definition w_inp : input :=
  mkInput [] [w_X; w_Y] [w_veh] [mkIUnit [0%nat] []; mkIUnit [1%nat] []] w_mat w_mat 0 w_opts [].
Definition w_dummy : state := mkState [] [] [] [] [] 0.
Definition w_s0 : state :=
  Eval vm_compute in match new_solution w_inp with Some s => s | None => w_dummy end.
Definition w_mvY : move := mkMove 1 0 [(1, 1)]%nat.
Definition w_mvX : move := mkMove 0 0 [(0, 1)]%nat.
Definition w_s1 : state := Eval vm_compute in fst (exec_move w_inp w_s0 w_mvY).
Definition w_s2 : state := Eval vm_compute in fst (exec_checked_prefix w_inp w_s1 w_mvX).

Lemma w_wf : wf_input w_inp.
Proof.
  split; [|split; [|split; [|split; [exact (Forall_nil _)|mult_wf]]]].
  - vm_compute. repeat (constructor; [simpl; lia|]). constructor.
  - intros x. vm_compute. lia.
  - intros u Hu. vm_compute in Hu. destruct Hu as [<-|[<-|[]]]; discriminate.
Qed.

Lemma w_windows : input_windows_ok w_inp.
Proof.
  unfold input_windows_ok, w_inp. cbn [in_stops].
  repeat constructor; cbn; try lia; reflexivity.
Qed.

Lemma w_nonneg : matrices_nonneg w_inp /\ stop_durations_nonneg w_inp.
Proof.
  split; [split|].
  - unfold w_inp. cbn [in_duration]. unfold w_mat. repeat constructor; lia.
  - apply distances_nonneg_b_ok. vm_compute. reflexivity.
  - apply stop_durations_nonneg_b_ok. vm_compute. reflexivity.
Qed.

Lemma w_new : new_solution w_inp = Some w_s0.
Proof. vm_compute. reflexivity. Qed.

Lemma w_mvY_ok : move_ok w_inp w_s0 w_mvY.
Proof.
  unfold move_ok. vm_compute.
  split; [lia|]. split; [lia|]. split; [apply Permutation_refl|]. split; [discriminate|].
  split; repeat constructor.
Qed.

Lemma w_mvY_done : exec_move w_inp w_s0 w_mvY = (w_s1, Done).
Proof. vm_compute. reflexivity. Qed.

Lemma w_mvX_ok : move_ok w_inp w_s1 w_mvX.
Proof.
  unfold move_ok. vm_compute.
  split; [lia|]. split; [lia|]. split; [apply Permutation_refl|]. split; [discriminate|].
  split; repeat constructor.
Qed.

Lemma w_reachable : reachable w_inp w_s1.
Proof.
  exists w_s0, [OpPlan w_mvY]. split; [exact w_new|]. split.
  - cbn [fresh op_ok]. split; [exact w_mvY_ok|exact I].
  - cbn [run step]. rewrite w_mvY_done. cbn [fst]. right. left. reflexivity.
Qed.

(* the route before the move and what the exact recomputation of the new route says *)
Example w_route_before :
  route_stops (get_route w_s1 0) = [2; 1; 3]%nat /\
  map c_arrival (get_route w_s1 0) = [0; 6000; 6600] /\
  map c_wait_acc (get_route w_s1 0) = [0; 600; 600].
Proof. vm_compute. repeat split. Qed.

Example w_route_after :
  map c_stop (from_scratch w_inp 0 [2; 0; 1; 3]%nat) = [2; 0; 1; 3]%nat /\
  map c_arrival (from_scratch w_inp 0 [2; 0; 1; 3]%nat) = [0; 600; 6000; 6600] /\
  map c_start (from_scratch w_inp 0 [2; 0; 1; 3]%nat) = [0; 3000; 6600; 6600] /\
  map c_wait_acc (from_scratch w_inp 0 [2; 0; 1; 3]%nat) = [0; 2400; 3000; 3000].
Proof. vm_compute. repeat split. Qed.

(* BEFORE THE FIX: the estimate lets the move through, Execute rejects it *)
Theorem C09_max_wait_vehicle_refuted_proof :
  exists inp s mv,
    wf_input inp /\ input_windows_ok inp /\ matrices_nonneg inp /\ stop_durations_nonneg inp /\
    (forall u, In u (in_user inp) -> False) /\
    reachable inp s /\ move_ok inp s mv /\
    has_max_wait_vehicle inp = true /\ est_max_wait_vehicle_prefix inp s mv = false /\
    move_executable_prefix inp s mv = true /\
    snd (exec_checked_prefix inp s mv) = Rejected KMaxWaitVehicle /\
    same_obs (fst (exec_checked_prefix inp s mv)) s.
Proof.
  exists w_inp, w_s1, w_mvX.
  split; [exact w_wf|]. split; [exact w_windows|].
  split; [exact (proj1 w_nonneg)|]. split; [exact (proj2 w_nonneg)|].
  split; [intros u Hu; exact Hu|].
  split; [exact w_reachable|]. split; [exact w_mvX_ok|].
  split; [vm_compute; reflexivity|]. split; [vm_compute; reflexivity|].
  split; [vm_compute; reflexivity|]. split; [vm_compute; reflexivity|].
  vm_compute. repeat split; intros H; exact H.
Qed.

(* BEFORE THE FIX the property was false *)
Theorem C09_prefix_executable_executes_refuted_proof :
  exists inp s mv s' r,
    wf_input inp /\ matrices_nonneg inp /\ reachable inp s /\ move_ok inp s mv /\
    (forall u, In u (in_user inp) -> False) /\
    move_executable_prefix inp s mv = true /\
    exec_checked_prefix inp s mv = (s', r) /\ r = Rejected KMaxWaitVehicle.
Proof.
  exists w_inp, w_s1, w_mvX, w_s2, (Rejected KMaxWaitVehicle).
  split; [exact w_wf|]. split; [exact (proj1 w_nonneg)|].
  split; [exact w_reachable|]. split; [exact w_mvX_ok|].
  split; [intros u Hu; exact Hu|].
  split; [vm_compute; reflexivity|]. split; [vm_compute; reflexivity|reflexivity].
Qed.

(* AFTER THE FIX, on the same witness: the wait accumulated in front of Y is
   2400 on the new route and 0 on the old one, the break is not taken, the
   simulation goes on to Y (accumulated 3000 > 2400) and the estimate answers
   "violated": the move is not offered and the solution is left alone *)
Theorem C09_fixed_estimate_rejects_witness_proof :
  est_max_wait_vehicle_prefix w_inp w_s1 w_mvX = false /\
  est_max_wait_vehicle w_inp w_s1 w_mvX = true /\
  move_executable w_inp w_s1 w_mvX = false /\
  exec_checked w_inp w_s1 w_mvX = (w_s1, NotExecutable).
Proof. repeat split; vm_compute; reflexivity. Qed.

(* the fix only makes the estimate stricter: whatever the old estimate
   rejected the new one rejects *)
Lemma sim_wait_guard_mono (ce : bool) (inp : input) (v : nat) (us : list nat) (old : list cell)
      (violated : Z -> Z -> nat -> bool) (g1 g2 : Z -> nat -> bool) :
  (forall a x, g2 a x = true -> g1 a x = true) ->
  forall stops endv prev to_place acc,
    sim_wait ce inp v us old endv prev stops to_place acc violated g1 = true ->
    sim_wait ce inp v us old endv prev stops to_place acc violated g2 = true.
Proof.
  intros Hg. induction stops as [|x rest IH]; intros endv prev to_place acc H; cbn [sim_wait] in *;
    [discriminate|].
  destruct (temporal_values inp v endv prev x) as [[[tr ar] st] en].
  match type of H with (if ?b && g1 acc x then _ else _) = _ => destruct b eqn:Eb end; cbn [andb] in *.
  - destruct (g1 acc x) eqn:E1; [discriminate|].
    destruct (g2 acc x) eqn:E2; [rewrite (Hg _ _ E2) in E1; discriminate|].
    destruct (violated (acc + (st - ar)) (st - ar) x); [reflexivity|]. apply IH. exact H.
  - destruct (violated (acc + (st - ar)) (st - ar) x); [reflexivity|]. apply IH. exact H.
Qed.

Theorem C09_fix_only_stricter_proof : forall inp s mv,
  est_max_wait_vehicle_prefix inp s mv = true -> est_max_wait_vehicle inp s mv = true.
Proof.
  intros inp s mv. unfold est_max_wait_vehicle_prefix, est_max_wait_vehicle, est_max_wait_vehicle_gen. cbv zeta.
  destruct (iv_max_wait (get_vehicle inp (mv_vehicle mv))); [|discriminate].
  apply sim_wait_guard_mono. reflexivity.
Qed.

(* the witness is outside the side condition of the partial theorem, as it must be *)
Example w_not_metric : ~ durations_metric w_inp.
Proof.
  intros H. specialize (H 2%nat 0%nat 1%nat). vm_compute in H.
  apply H; [lia|lia|lia|reflexivity].
Qed.

(* The partial theorem for the estimate before the fix also asks for group
   durations >= 0 (dgroups_nonneg); a negative one is as bad as a negative
   stop duration.  U (0, window opens 300) is alone in a duration group of
   -300 s, Y (1) opens at 900, vehicle max wait 500; first, last and U are at
   one place, Y is 600 s away (metric).  Route first Y last: Y is reached at
   600 and waits 300.  Move: U in front of Y.  U waits 300 and ends at
   300 + (-300) = 0, Y is reached at 600 and ends at 900 as before: the
   unguarded estimate breaks; the accumulated wait at Y is 600 > 500. *)
Definition ng_mat : list (list Z) :=
  [[0; 600; 0; 0]; [600; 0; 600; 600]; [0; 600; 0; 0]; [0; 600; 0; 0]].
Definition ng_inp : input :=
  mkInput [] [mkIStop [] 0 [(300, 100020)] None 10 [] None 0 0; mkIStop [] 0 [(900, 100020)] None 10 [] None 0 0]
          [mkIVehicle None [] 0 None None None None (Some 500) [] 0 true true 0 0 1 1]
          [mkIUnit [0%nat] []; mkIUnit [1%nat] []] ng_mat ng_mat 0 w_opts [([0%nat], -300)].
Definition ng_s0 : state :=
  Eval vm_compute in match new_solution ng_inp with Some s => s | None => w_dummy end.
Definition ng_s1 : state := Eval vm_compute in fst (exec_move ng_inp ng_s0 w_mvY).

Lemma ng_wf : wf_input ng_inp.
Proof.
  split; [|split; [|split]].
  - vm_compute. repeat (constructor; [simpl; lia|]). constructor.
  - intros x. vm_compute. lia.
  - intros u Hu. vm_compute in Hu. destruct Hu as [<-|[<-|[]]]; discriminate.
  - split; [vm_compute; repeat constructor|mult_wf].
Qed.

Lemma ng_mvY_ok : move_ok ng_inp ng_s0 w_mvY.
Proof.
  unfold move_ok. vm_compute.
  split; [lia|]. split; [lia|]. split; [apply Permutation_refl|]. split; [discriminate|].
  split; repeat constructor.
Qed.

Lemma ng_mvX_ok : move_ok ng_inp ng_s1 w_mvX.
Proof.
  unfold move_ok. vm_compute.
  split; [lia|]. split; [lia|]. split; [apply Permutation_refl|]. split; [discriminate|].
  split; repeat constructor.
Qed.

Lemma ng_reachable : reachable ng_inp ng_s1.
Proof.
  exists ng_s0, [OpPlan w_mvY]. split; [vm_compute; reflexivity|]. split.
  - cbn [fresh op_ok]. split; [exact ng_mvY_ok|exact I].
  - cbn [run step]. replace (exec_move ng_inp ng_s0 w_mvY) with (ng_s1, Done) by (vm_compute; reflexivity).
    cbn [fst]. right. left. reflexivity.
Qed.

Theorem prefix_negative_group_duration_refuted :
  exists inp s mv,
    wf_input inp /\ input_windows_ok inp /\ matrices_nonneg inp /\ stop_durations_nonneg inp /\
    durations_metric inp /\ (forall u, In u (in_user inp) -> False) /\
    reachable inp s /\ move_ok inp s mv /\
    has_max_wait_vehicle inp = true /\ est_max_wait_vehicle_prefix inp s mv = false /\
    move_executable_prefix inp s mv = true /\
    snd (exec_checked_prefix inp s mv) = Rejected KMaxWaitVehicle /\
    ~ dgroups_nonneg inp /\
    (* the guarded estimate of the code as it is now refuses the move *)
    est_max_wait_vehicle inp s mv = true /\ move_executable inp s mv = false.
Proof.
  exists ng_inp, ng_s1, w_mvX.
  split; [exact ng_wf|].
  split; [unfold input_windows_ok, ng_inp; cbn [in_stops]; repeat constructor; cbn; try lia; reflexivity|].
  split; [split; [|apply distances_nonneg_b_ok; vm_compute; reflexivity]|].
  { unfold ng_inp. cbn [in_duration]. unfold ng_mat. repeat constructor; lia. }
  split; [apply stop_durations_nonneg_b_ok; vm_compute; reflexivity|].
  split; [apply durations_metric_b_ok; vm_compute; reflexivity|].
  split; [intros u Hu; exact Hu|].
  split; [exact ng_reachable|]. split; [exact ng_mvX_ok|].
  split; [vm_compute; reflexivity|]. split; [vm_compute; reflexivity|].
  split; [vm_compute; reflexivity|]. split; [vm_compute; reflexivity|].
  split.
  { intros [H|H].
    - vm_compute in H. discriminate.
    - unfold ng_inp in H. cbn [in_dgroups] in H. inversion H as [|? ? H1 _]; subst.
      cbn [snd] in H1. lia. }
  split; vm_compute; reflexivity.
Qed.

(* ================================================================== *)
(* 6. Non-vacuity of the partial theorem                               *)
(* ================================================================== *)

(* Engine_spec's ex2: 3 stops, 2 resources, 2 vehicles, every built-in
   constraint installed (capacity, distance limit, windows, end time, max
   duration, max wait per stop and per vehicle); metric matrix.  The second
   move is offered as executable and the theorem applies to it. *)
Example ex2_hyps :
  wf_input ex2_inp /\ distances_nonneg ex2_inp /\ reachable ex2_inp ex2_s1 /\
  move_ok ex2_inp ex2_s1 ex2_mv2 /\ (forall u, In u (in_user ex2_inp) -> False) /\
  has_max_wait_vehicle ex2_inp = true /\
  move_executable ex2_inp ex2_s1 ex2_mv2 = true.
Proof.
  split; [exact ex2_wf|].
  split; [apply distances_nonneg_b_ok; vm_compute; reflexivity|].
  split.
  { exists ex2_s0, [OpPlan ex2_mv1]. split; [exact ex2_new|]. split.
    - cbn [fresh op_ok]. split; [exact ex2_move1_ok|exact I].
    - cbn [run step]. rewrite ex2_move1_done. cbn [fst]. right. left. reflexivity. }
  split; [exact ex2_move2_ok|].
  split; [intros u Hu; exact Hu|].
  split; vm_compute; reflexivity.
Qed.

Example ex2_applies : snd (exec_checked ex2_inp ex2_s1 ex2_mv2) = Done.
Proof.
  destruct ex2_hyps as (H1 & H2 & H3 & H4 & H5 & _ & H8).
  destruct (exec_checked ex2_inp ex2_s1 ex2_mv2) as [s' r] eqn:E.
  exact (C09_executable_executes_proof _ _ _ _ _ H1 H2 H3 H4 H5 H8 E).
Qed.

(* a NON-metric input with a waiting inserted stop on which the (guarded)
   break is not taken and the move is executed: the witness with vehicle max
   wait 3000 instead of 2400 *)
Definition w3_inp : input :=
  mkInput [] [w_X; w_Y]
          [mkIVehicle None [] 0 None None None None (Some 3000) [] 0 true true 0 0 1 1]
          [mkIUnit [0%nat] []; mkIUnit [1%nat] []] w_mat w_mat 0 w_opts [].
Definition w3_s0 : state :=
  Eval vm_compute in match new_solution w3_inp with Some s => s | None => w_dummy end.
Definition w3_s1 : state := Eval vm_compute in fst (exec_move w3_inp w3_s0 w_mvY).

Example w3_non_metric_executes :
  new_solution w3_inp = Some w3_s0 /\ exec_move w3_inp w3_s0 w_mvY = (w3_s1, Done) /\
  has_max_wait_vehicle w3_inp = true /\
  move_executable w3_inp w3_s1 w_mvX = true /\
  snd (exec_checked w3_inp w3_s1 w_mvX) = Done /\
  map c_wait_acc (get_route (fst (exec_checked w3_inp w3_s1 w_mvX)) 0) = [0; 2400; 3000; 3000].
Proof. repeat split; vm_compute; reflexivity. Qed.

(* an estimate that does say "violated": Engine_inv's ex (capacity 1, two
   pick-ups): the move is not offered and exec_checked leaves the state alone *)
Example ex_not_offered :
  move_executable ex_inp ex_s1 ex_mv2 = false /\
  exec_checked ex_inp ex_s1 ex_mv2 = (ex_s1, NotExecutable).
Proof. split; vm_compute; reflexivity. Qed.

(* ================================================================== *)
(* 7. The hypothesis distances_nonneg cannot be dropped (in the model)  *)
(* ================================================================== *)

(* est_distance models the branch the code takes for an expression WITHOUT
   negative values (model_maximum.go: !hasNegativeValues): it looks at the
   cumulative value at the vehicle's last stop only.  With a negative matrix
   entry (Z -> last = -50) the maximum sits in the middle of the route and the
   estimate misses it.  This is outside the domain in which est_distance is a
   model of the code (there the code walks every downstream stop), so it is
   NOT a candidate defect; it only shows the hypothesis is used. *)
Definition n_st : istop := mkIStop [] 0 [] None 10 [] None 0 0.
Definition n_veh : ivehicle :=
  mkIVehicle None [] 0 None None None (Some 100) None [] 0 true true 0 0 1 1.
Definition n_dur : list (list Z) := map (fun _ => [0; 0; 0; 0; 0]) (seqn 5).
Definition n_dist : list (list Z) :=
  [[0; 5; 0; 0; 0]; [0; 0; 90; 0; 0]; [0; 0; 0; 0; -50]; [15; 10; 0; 0; 0]; [0; 0; 0; 0; 0]].
Definition n_inp : input :=
  mkInput [] [n_st; n_st; n_st] [n_veh] [mkIUnit [0%nat] []; mkIUnit [1%nat; 2%nat] []]
          n_dur n_dist 0 w_opts [].
Definition n_s0 : state :=
  Eval vm_compute in match new_solution n_inp with Some s => s | None => w_dummy end.
Definition n_mvYZ : move := mkMove 1 0 [(1, 1); (2, 1)]%nat.
Definition n_mvX : move := mkMove 0 0 [(0, 1)]%nat.
Definition n_s1 : state := Eval vm_compute in fst (exec_move n_inp n_s0 n_mvYZ).

Example distances_nonneg_needed :
  new_solution n_inp = Some n_s0 /\ exec_move n_inp n_s0 n_mvYZ = (n_s1, Done) /\
  map c_cumdist (get_route n_s1 0) = [0; 10; 100; 50] /\
  move_executable n_inp n_s1 n_mvX = true /\
  snd (exec_checked n_inp n_s1 n_mvX) = Rejected KDistance /\
  ~ distances_nonneg n_inp.
Proof.
  repeat split; try (vm_compute; reflexivity).
  intros H. unfold distances_nonneg, n_inp in H. cbn [in_distance] in H. unfold n_dist in H.
  inversion H as [|? ? _ H1]; subst. inversion H1 as [|? ? _ H2]; subst.
  inversion H2 as [|? ? H3 _]; subst.
  inversion H3 as [|? ? _ H4]; subst. inversion H4 as [|? ? _ H5]; subst.
  inversion H5 as [|? ? _ H6]; subst. inversion H6 as [|? ? _ H7]; subst.
  inversion H7 as [|? ? H8 _]; subst. lia.
Qed.

(* ================================================================== *)
(* 8. Duration groups: the estimates BEFORE the repair (the early break  *)
(*    compared the arrival only) were not sound                         *)
(* ================================================================== *)

(* Stops A (0), X (1), Z (2), U (3), all at one place (every travel duration
   is 0: metric), no own durations.  A and X form a duration group of 600 s.
   Z has the windows [60, 900) and [3600, 7200) and a max wait of 60 s.  One
   vehicle (first stop 4, last stop 5), start time 0.
   Route before the move: first, A, X, Z, last.  A pays the group duration
   (0 -> 600), X comes from A and does not (arrival 600, end 600), Z is
   reached at 600, inside its first window: no wait.
   Move: U between A and X.  U leaves at 600, X is reached at 600: the
   arrival at X is UNCHANGED and every stop of the unit is placed, so the
   max-wait estimates that compare the arrival only (the code before the
   repair) stop there and answer "not violated".  But X now comes from U,
   which is not in its group: it pays the 600 s again and ends at 1200; Z is
   reached at 1200, between its windows, and waits 2400 s > 60 s: the exact
   check rejects the move (and it is rolled back).  The repaired estimates
   also compare the END of X (1200 against the cached 600), do not stop, go
   on to Z and answer "violated". *)
Definition dg_opts : options :=
  mkOptions false false false false false false false false false false false 0 1 0 1 false 0 0 0 0 false [].
Definition dg_plain : istop := mkIStop [] 0 [] None 10 [] None 0 0.
Definition dg_Z : istop := mkIStop [] 0 [(60, 900); (3600, 7200)] (Some 60) 10 [] None 0 0.
Definition dg_veh : ivehicle := mkIVehicle None [] 0 None None None None None [] 0 true true 0 0 1 1.
Definition dg_mat : list (list Z) :=
  [[0; 0; 0; 0; 0; 0]; [0; 0; 0; 0; 0; 0]; [0; 0; 0; 0; 0; 0];
   [0; 0; 0; 0; 0; 0]; [0; 0; 0; 0; 0; 0]; [0; 0; 0; 0; 0; 0]].
Definition dg_inp : input :=
  mkInput [] [dg_plain; dg_plain; dg_Z; dg_plain] [dg_veh]
          [mkIUnit [0; 1; 2]%nat []; mkIUnit [3%nat] []]
          dg_mat dg_mat 0 dg_opts [([0; 1]%nat, 600)].
Definition dg_s0 : state :=
  Eval vm_compute in match new_solution dg_inp with Some s => s | None => w_dummy end.
Definition dg_mvAXZ : move := mkMove 0 0 [(0, 1); (1, 1); (2, 1)]%nat.
Definition dg_mvU : move := mkMove 1 0 [(3, 2)]%nat.
Definition dg_s1 : state := Eval vm_compute in fst (exec_move dg_inp dg_s0 dg_mvAXZ).
Definition dg_s2 : state := Eval vm_compute in fst (exec_checked_arrival_only dg_inp dg_s1 dg_mvU).

Lemma dg_wf : wf_input dg_inp.
Proof.
  split; [|split; [|split]].
  - vm_compute. repeat (constructor; [simpl; lia|]). constructor.
  - intros x. vm_compute. lia.
  - intros u Hu. vm_compute in Hu. destruct Hu as [<-|[<-|[]]]; discriminate.
  - split; [vm_compute; repeat constructor|mult_wf].
Qed.

Lemma dg_new : new_solution dg_inp = Some dg_s0.
Proof. vm_compute. reflexivity. Qed.

Lemma dg_mvAXZ_ok : move_ok dg_inp dg_s0 dg_mvAXZ.
Proof.
  unfold move_ok. vm_compute.
  split; [lia|]. split; [lia|]. split; [apply Permutation_refl|]. split; [discriminate|].
  split; repeat constructor.
Qed.

Lemma dg_mvAXZ_done : exec_move dg_inp dg_s0 dg_mvAXZ = (dg_s1, Done).
Proof. vm_compute. reflexivity. Qed.

Lemma dg_mvU_ok : move_ok dg_inp dg_s1 dg_mvU.
Proof.
  unfold move_ok. vm_compute.
  split; [lia|]. split; [lia|]. split; [apply Permutation_refl|]. split; [discriminate|].
  split; repeat constructor.
Qed.

Lemma dg_reachable : reachable dg_inp dg_s1.
Proof.
  exists dg_s0, [OpPlan dg_mvAXZ]. split; [exact dg_new|]. split.
  - cbn [fresh op_ok]. split; [exact dg_mvAXZ_ok|exact I].
  - cbn [run step]. rewrite dg_mvAXZ_done. cbn [fst]. right. left. reflexivity.
Qed.

Example dg_route_before :
  route_stops (get_route dg_s1 0) = [4; 0; 1; 2; 5]%nat /\
  map c_arrival (get_route dg_s1 0) = [0; 0; 600; 600; 600] /\
  map c_start (get_route dg_s1 0) = [0; 0; 600; 600; 600] /\
  map c_end (get_route dg_s1 0) = [0; 600; 600; 600; 600].
Proof. vm_compute. repeat split. Qed.

Example dg_route_after :
  map c_arrival (from_scratch dg_inp 0 [4; 0; 3; 1; 2; 5]%nat) = [0; 0; 600; 600; 1200; 3600] /\
  map c_start (from_scratch dg_inp 0 [4; 0; 3; 1; 2; 5]%nat) = [0; 0; 600; 600; 3600; 3600] /\
  map c_end (from_scratch dg_inp 0 [4; 0; 3; 1; 2; 5]%nat) = [0; 600; 600; 1200; 3600; 3600].
Proof. vm_compute. repeat split. Qed.

(* every hypothesis of C09_executable_executes holds, travel durations are
   metric, nothing is negative, windows are well formed: BEFORE THE REPAIR the
   move was offered as executable and Execute rejected it *)
Theorem dg_break_refuted :
  exists inp s mv s' r,
    wf_input inp /\ input_windows_ok inp /\ matrices_nonneg inp /\ stop_durations_nonneg inp /\
    Forall (fun g => 0 <= snd g) (in_dgroups inp) /\ durations_metric inp /\
    (forall u, In u (in_user inp) -> False) /\
    reachable inp s /\ move_ok inp s mv /\
    has_max_wait_stop inp = true /\ est_max_wait_stop_arrival_only inp s mv = false /\
    move_executable_arrival_only inp s mv = true /\
    exec_checked_arrival_only inp s mv = (s', r) /\ r = Rejected KMaxWaitStop /\ same_obs s' s /\
    exec_move inp s mv = (s', r) /\
    ~ dgroups_inert inp.
Proof.
  exists dg_inp, dg_s1, dg_mvU, dg_s2, (Rejected KMaxWaitStop).
  split; [exact dg_wf|].
  split; [unfold input_windows_ok, dg_inp; cbn [in_stops]; repeat constructor; cbn; try lia; reflexivity|].
  split; [split; [|apply distances_nonneg_b_ok; vm_compute; reflexivity]|].
  { unfold dg_inp. cbn [in_duration]. unfold dg_mat. repeat constructor; lia. }
  split; [apply stop_durations_nonneg_b_ok; vm_compute; reflexivity|].
  split; [vm_compute; repeat constructor; discriminate|].
  split; [apply durations_metric_b_ok; vm_compute; reflexivity|].
  split; [intros u Hu; exact Hu|].
  split; [exact dg_reachable|]. split; [exact dg_mvU_ok|].
  split; [vm_compute; reflexivity|]. split; [vm_compute; reflexivity|].
  split; [vm_compute; reflexivity|]. split; [vm_compute; reflexivity|].
  split; [reflexivity|].
  split; [vm_compute; repeat split; intros H; exact H|].
  split; [vm_compute; reflexivity|].
  intros [H|H].
  - vm_compute in H. discriminate.
  - unfold dg_inp in H. cbn [in_dgroups] in H. inversion H as [|? ? H1 _]; subst.
    cbn [snd] in H1. discriminate.
Qed.

(* the vehicle max-wait estimate (with its guard) stopped at the same place:
   the wait accumulated in front of X did not grow.  The same input with a
   vehicle max wait of 60 s instead of Z's *)
Definition dgv_inp : input :=
  mkInput [] [dg_plain; dg_plain; mkIStop [] 0 [(60, 900); (3600, 7200)] None 10 [] None 0 0; dg_plain]
          [mkIVehicle None [] 0 None None None None (Some 60) [] 0 true true 0 0 1 1]
          [mkIUnit [0; 1; 2]%nat []; mkIUnit [3%nat] []]
          dg_mat dg_mat 0 dg_opts [([0; 1]%nat, 600)].
Definition dgv_s0 : state :=
  Eval vm_compute in match new_solution dgv_inp with Some s => s | None => w_dummy end.
Definition dgv_s1 : state := Eval vm_compute in fst (exec_move dgv_inp dgv_s0 dg_mvAXZ).
Definition dgv_s2 : state := Eval vm_compute in fst (exec_checked_arrival_only dgv_inp dgv_s1 dg_mvU).

Lemma dgv_wf : wf_input dgv_inp.
Proof.
  split; [|split; [|split]].
  - vm_compute. repeat (constructor; [simpl; lia|]). constructor.
  - intros x. vm_compute. lia.
  - intros u Hu. vm_compute in Hu. destruct Hu as [<-|[<-|[]]]; discriminate.
  - split; [vm_compute; repeat constructor|mult_wf].
Qed.

Lemma dgv_new : new_solution dgv_inp = Some dgv_s0.
Proof. vm_compute. reflexivity. Qed.

Lemma dgv_mvAXZ_ok : move_ok dgv_inp dgv_s0 dg_mvAXZ.
Proof.
  unfold move_ok. vm_compute.
  split; [lia|]. split; [lia|]. split; [apply Permutation_refl|]. split; [discriminate|].
  split; repeat constructor.
Qed.

Lemma dgv_mvAXZ_done : exec_move dgv_inp dgv_s0 dg_mvAXZ = (dgv_s1, Done).
Proof. vm_compute. reflexivity. Qed.

Lemma dgv_mvU_ok : move_ok dgv_inp dgv_s1 dg_mvU.
Proof.
  unfold move_ok. vm_compute.
  split; [lia|]. split; [lia|]. split; [apply Permutation_refl|]. split; [discriminate|].
  split; repeat constructor.
Qed.

Lemma dgv_reachable : reachable dgv_inp dgv_s1.
Proof.
  exists dgv_s0, [OpPlan dg_mvAXZ]. split; [exact dgv_new|]. split.
  - cbn [fresh op_ok]. split; [exact dgv_mvAXZ_ok|exact I].
  - cbn [run step]. rewrite dgv_mvAXZ_done. cbn [fst]. right. left. reflexivity.
Qed.

Theorem dg_break_refuted_vehicle :
  exists inp s mv s' r,
    wf_input inp /\ input_windows_ok inp /\ matrices_nonneg inp /\ stop_durations_nonneg inp /\
    Forall (fun g => 0 <= snd g) (in_dgroups inp) /\ durations_metric inp /\
    (forall u, In u (in_user inp) -> False) /\
    reachable inp s /\ move_ok inp s mv /\
    has_max_wait_vehicle inp = true /\ est_max_wait_vehicle_arrival_only inp s mv = false /\
    move_executable_arrival_only inp s mv = true /\
    exec_checked_arrival_only inp s mv = (s', r) /\ r = Rejected KMaxWaitVehicle /\ same_obs s' s /\
    exec_move inp s mv = (s', r) /\
    ~ dgroups_inert inp.
Proof.
  exists dgv_inp, dgv_s1, dg_mvU, dgv_s2, (Rejected KMaxWaitVehicle).
  split; [exact dgv_wf|].
  split; [unfold input_windows_ok, dgv_inp; cbn [in_stops]; repeat constructor; cbn; try lia; reflexivity|].
  split; [split; [|apply distances_nonneg_b_ok; vm_compute; reflexivity]|].
  { unfold dgv_inp. cbn [in_duration]. unfold dg_mat. repeat constructor; lia. }
  split; [apply stop_durations_nonneg_b_ok; vm_compute; reflexivity|].
  split; [vm_compute; repeat constructor; discriminate|].
  split; [apply durations_metric_b_ok; vm_compute; reflexivity|].
  split; [intros u Hu; exact Hu|].
  split; [exact dgv_reachable|]. split; [exact dgv_mvU_ok|].
  split; [vm_compute; reflexivity|]. split; [vm_compute; reflexivity|].
  split; [vm_compute; reflexivity|]. split; [vm_compute; reflexivity|].
  split; [reflexivity|].
  split; [vm_compute; repeat split; intros H; exact H|].
  split; [vm_compute; reflexivity|].
  intros [H|H].
  - vm_compute in H. discriminate.
  - unfold dgv_inp in H. cbn [in_dgroups] in H. inversion H as [|? ? H1 _]; subst.
    cbn [snd] in H1. discriminate.
Qed.

(* AFTER THE REPAIR, on the same witnesses: the end of X is 1200 on the new
   route and 600 on the old one, the break is not taken, the simulation goes
   on to Z (wait 2400 > 60) and the estimates answer "violated": the moves are
   not offered any more and the solutions are left alone *)
Theorem dg_repaired_rejects :
  est_max_wait_stop_arrival_only dg_inp dg_s1 dg_mvU = false /\
  est_max_wait_stop dg_inp dg_s1 dg_mvU = true /\
  move_executable dg_inp dg_s1 dg_mvU = false /\
  exec_checked dg_inp dg_s1 dg_mvU = (dg_s1, NotExecutable) /\
  est_max_wait_vehicle_arrival_only dgv_inp dgv_s1 dg_mvU = false /\
  est_max_wait_vehicle dgv_inp dgv_s1 dg_mvU = true /\
  move_executable dgv_inp dgv_s1 dg_mvU = false /\
  exec_checked dgv_inp dgv_s1 dg_mvU = (dgv_s1, NotExecutable).
Proof. repeat split; vm_compute; reflexivity. Qed.

(* with the groups switched off (dgroups_inert holds) the same move is offered
   by both versions of the estimates and executed *)
Definition dg_off_inp : input :=
  mkInput [] [dg_plain; dg_plain; dg_Z; dg_plain] [dg_veh]
          [mkIUnit [0; 1; 2]%nat []; mkIUnit [3%nat] []]
          dg_mat dg_mat 0
          (mkOptions false false false false false false false false false false false 0 1 0 1 true 0 0 0 0 false [])
          [([0; 1]%nat, 600)].
Definition dg_off_s0 : state :=
  Eval vm_compute in match new_solution dg_off_inp with Some s => s | None => w_dummy end.
Definition dg_off_s1 : state := Eval vm_compute in fst (exec_move dg_off_inp dg_off_s0 dg_mvAXZ).

Example dg_off_executes :
  dgroups_inert dg_off_inp /\
  new_solution dg_off_inp = Some dg_off_s0 /\
  exec_move dg_off_inp dg_off_s0 dg_mvAXZ = (dg_off_s1, Done) /\
  move_executable_arrival_only dg_off_inp dg_off_s1 dg_mvU = true /\
  move_executable dg_off_inp dg_off_s1 dg_mvU = true /\
  snd (exec_checked dg_off_inp dg_off_s1 dg_mvU) = Done.
Proof.
  split; [apply dgroups_inert_b_ok; vm_compute; reflexivity|].
  repeat split; vm_compute; reflexivity.
Qed.

(* a move behind which the arrival at X is unchanged AND the end of X is
   unchanged, in the presence of an active group: U (3) inserted between A and
   X where U is in the group of A and X (the group is not paid again).  The
   repaired estimates take the break and the move is executed. *)
Definition dgk_inp : input :=
  mkInput [] [dg_plain; dg_plain; dg_Z; dg_plain] [dg_veh]
          [mkIUnit [0; 1; 2]%nat []; mkIUnit [3%nat] []]
          dg_mat dg_mat 0 dg_opts [([0; 1; 3]%nat, 600)].
Definition dgk_s0 : state :=
  Eval vm_compute in match new_solution dgk_inp with Some s => s | None => w_dummy end.
Definition dgk_s1 : state := Eval vm_compute in fst (exec_move dgk_inp dgk_s0 dg_mvAXZ).

Example dg_groups_on_executes :
  ~ dgroups_inert dgk_inp /\
  new_solution dgk_inp = Some dgk_s0 /\
  exec_move dgk_inp dgk_s0 dg_mvAXZ = (dgk_s1, Done) /\
  has_max_wait_stop dgk_inp = true /\
  move_executable dgk_inp dgk_s1 dg_mvU = true /\
  snd (exec_checked dgk_inp dgk_s1 dg_mvU) = Done.
Proof.
  split.
  { intros [H|H].
    - vm_compute in H. discriminate.
    - unfold dgk_inp in H. cbn [in_dgroups] in H. inversion H as [|? ? H1 _]; subst.
      cbn [snd] in H1. discriminate. }
  repeat split; vm_compute; reflexivity.
Qed.
