(* Lemmas behind Props/C18.v: executing a move and immediately un-planning the
   unit (the probe of check/check.go) restores the solution. *)

From Coq Require Import List ZArith Bool Arith Lia Permutation Sorted.
From NR Require Import Model.Engine Proofs.Engine_lists Proofs.Engine_inv Proofs.Engine_spec
     Proofs.C19_proofs.
Import ListNotations.
Local Open Scope nat_scope.

Local Opaque next_cell stop_violation temporal_values score_terms first_cell.

(* ================================================================== *)
(* List facts                                                          *)
(* ================================================================== *)

Lemma Forall_filter' {A} (P : A -> Prop) (f : A -> bool) (l : list A) :
  Forall P l -> Forall P (filter f l).
Proof.
  intros H. apply Forall_forall. intros x Hx. apply filter_In in Hx.
  rewrite Forall_forall in H. exact (H x (proj1 Hx)).
Qed.

Lemma filter_map_fst_nil (p : nat -> bool) (l : list (nat * nat)) :
  Forall (fun q => p (fst q) = false) l -> filter p (map fst l) = [].
Proof.
  induction 1 as [|q l Hq Hl IH]; [reflexivity|]. cbn [map filter]. rewrite Hq. exact IH.
Qed.

(* filtering the inserted stops out again gives the filtered old route *)
Lemma filter_insert_places (p : nat -> bool) :
  forall (route : list nat) (pos : nat) (places : list (nat * nat)),
    Forall (fun q => p (fst q) = false) places ->
    filter p (insert_places pos route places) = filter p route.
Proof.
  induction route as [|x rest IH]; intros pos places Hp; cbn [insert_places].
  - apply filter_map_fst_nil. exact Hp.
  - rewrite filter_app. rewrite filter_map_fst_nil by (apply Forall_filter'; exact Hp).
    cbn [app filter]. rewrite IH by (apply Forall_filter'; exact Hp). reflexivity.
Qed.

Lemma filter_true_all {A} (p : A -> bool) (l : list A) :
  (forall x, In x l -> p x = true) -> filter p l = l.
Proof.
  induction l as [|a l IH]; intros H; [reflexivity|]. cbn [filter].
  rewrite (H a (or_introl eq_refl)). rewrite IH; [reflexivity|].
  intros x Hx. apply H. right; exact Hx.
Qed.

(* ================================================================== *)
(* Two states with the invariant and the same routes look the same     *)
(* ================================================================== *)

Lemma same_routes_same_obs (inp : input) (a b : state) :
  Inv inp a -> Inv inp b -> st_routes a = st_routes b -> same_obs a b.
Proof.
  intros (_ & _ & (Hsa & Hta) & (_ & _ & Hnua & Hfa & Hpera & Hba))
         (_ & _ & (Hsb & Htb) & (_ & _ & Hnub & Hfb & Hperb & Hbb)) Hr.
  assert (Hpl : same_set (st_planned a) (st_planned b)).
  { intros u. split; intros H.
    - assert (Hu : u < nunits inp) by (apply Hba; left; exact H).
      apply (Hperb u Hu). rewrite <- (unit_planned_ext inp b a u Hr). apply (Hpera u Hu). exact H.
    - assert (Hu : u < nunits inp) by (apply Hbb; left; exact H).
      apply (Hpera u Hu). rewrite (unit_planned_ext inp b a u Hr). apply (Hperb u Hu). exact H. }
  assert (Hun : same_set (st_unplanned a) (st_unplanned b)).
  { intros u. split; intros H.
    - assert (Hu : u < nunits inp) by (apply Hba; right; exact H).
      apply (Hperb u Hu). rewrite <- (unit_planned_ext inp b a u Hr). apply (Hpera u Hu). exact H.
    - assert (Hu : u < nunits inp) by (apply Hbb; right; exact H).
      apply (Hpera u Hu). rewrite (unit_planned_ext inp b a u Hr). apply (Hperb u Hu). exact H. }
  assert (Hsc : st_scores a = st_scores b).
  { rewrite Hsa, Hsb. apply score_terms_ext; [exact Hr|].
    apply NoDup_Permutation; assumption. }
  split; [exact Hr|]. split; [exact Hpl|]. split; [exact Hun|]. split.
  - rewrite Hfa, Hfb. intros x; tauto.
  - split; [exact Hsc|]. rewrite Hta, Htb, Hsc. reflexivity.
Qed.

Lemma same_obs_trans (a b c : state) : same_obs a b -> same_obs b c -> same_obs a c.
Proof.
  intros (A1 & A2 & A3 & A4 & A5 & A6) (B1 & B2 & B3 & B4 & B5 & B6).
  unfold same_obs, same_set in *.
  split; [congruence|]. split; [intros x; rewrite (A2 x); apply B2|].
  split; [intros x; rewrite (A3 x); apply B3|]. split; [intros x; rewrite (A4 x); apply B4|].
  split; congruence.
Qed.

Lemma same_obs_sym (a b : state) : same_obs a b -> same_obs b a.
Proof.
  intros (A1 & A2 & A3 & A4 & A5 & A6). unfold same_obs, same_set in *.
  split; [congruence|]. split; [intros x; symmetry; apply A2|].
  split; [intros x; symmetry; apply A3|]. split; [intros x; symmetry; apply A4|].
  split; congruence.
Qed.

(* move_ok only looks at the routes *)
Lemma move_ok_routes (inp : input) (a b : state) (mv : move) :
  st_routes a = st_routes b -> move_ok inp a mv -> move_ok inp b mv.
Proof. unfold move_ok, get_route. intros ->. tauto. Qed.

(* ================================================================== *)
(* Truthfulness of Done                                                *)
(* ================================================================== *)

Lemma exec_done_was_unplanned (inp : input) (s s1 : state) (mv : move) :
  exec_move inp s mv = (s1, Done) -> unit_planned inp s (mv_unit mv) = false.
Proof.
  unfold exec_move. destruct (unit_planned inp s (mv_unit mv)); [discriminate|reflexivity].
Qed.

Lemma exec_done_unit_on_vehicle (inp : input) (s s1 : state) (mv : move) :
  wf_input inp -> InvT inp s -> move_ok inp s mv -> exec_move inp s mv = (s1, Done) ->
  forall x, In x (iu_stops (get_unit inp (mv_unit mv))) ->
            In x (route_stops (get_route s1 (mv_vehicle mv))).
Proof.
  intros Hwf HI Hmv Hex x Hx.
  destruct (exec_move_all_or_nothing inp s s1 mv Done Hwf (proj1 HI) Hmv Hex) as (_ & HD).
  destruct (HD eq_refl) as (Hst & _). rewrite Hst.
  destruct Hmv as (_ & _ & Hperm & _).
  apply (Permutation_in _ (Permutation_sym (insert_places_perm _ 0 (mv_places mv)))).
  apply in_or_app. right. apply (Permutation_in _ (Permutation_sym Hperm)). exact Hx.
Qed.

Lemma exec_done_is_planned (inp : input) (s s1 : state) (mv : move) :
  wf_input inp -> InvT inp s -> move_ok inp s mv -> exec_move inp s mv = (s1, Done) ->
  unit_planned inp s1 (mv_unit mv) = true.
Proof.
  intros Hwf HI Hmv Hex.
  pose proof (exec_move_invT inp s s1 mv Done Hwf HI Hmv Hex) as (((Hlen1 & _) & _) & _).
  apply unit_planned_iff. split; [exact (unit_stops_nonempty inp _ Hwf (proj1 Hmv))|].
  intros x Hx. apply stop_on_route_iff. exists (mv_vehicle mv). split.
  - rewrite Hlen1. exact (proj1 (proj2 Hmv)).
  - exact (exec_done_unit_on_vehicle inp s s1 mv Hwf HI Hmv Hex x Hx).
Qed.

Theorem C18_truthful_proof : forall inp s mv s1,
  exec_move inp s mv = (s1, Done) ->
  unit_planned inp s (mv_unit mv) = false /\
  (wf_input inp -> reachable inp s -> move_ok inp s mv ->
   unit_planned inp s1 (mv_unit mv) = true /\
   In (mv_unit mv) (st_unplanned s) /\ In (mv_unit mv) (st_planned s1)).
Proof.
  intros inp s mv s1 Hex. pose proof (exec_done_was_unplanned inp s s1 mv Hex) as H0.
  split; [exact H0|]. intros Hwf Hr Hmv.
  pose proof (reachable_invT inp s Hwf Hr) as HI.
  pose proof (exec_done_is_planned inp s s1 mv Hwf HI Hmv Hex) as H1.
  pose proof (exec_move_invT inp s s1 mv Done Hwf HI Hmv Hex) as HI1.
  split; [exact H1|].
  destruct HI as ((_ & _ & _ & (_ & _ & _ & _ & Hper & _)) & _).
  destruct HI1 as ((_ & _ & _ & (_ & _ & _ & _ & Hper1 & _)) & _).
  split.
  - apply (Hper _ (proj1 Hmv)). exact H0.
  - apply (Hper1 _ (proj1 Hmv)). exact H1.
Qed.

(* ================================================================== *)
(* vehicle_of_unit finds the vehicle                                   *)
(* ================================================================== *)

Lemma vehicle_of_unit_complete (inp : input) (s : state) (u v : nat) :
  v < length (st_routes s) -> iu_stops (get_unit inp u) <> [] ->
  (forall x, In x (iu_stops (get_unit inp u)) -> In x (route_stops (get_route s v))) ->
  exists v', vehicle_of_unit inp s u = Some v'.
Proof.
  intros Hv Hne Hall. unfold vehicle_of_unit.
  destruct (iu_stops (get_unit inp u)) as [|x0 l]; [congruence|].
  destruct (find (fun v0 => mem_nat x0 (route_stops (get_route s v0)))
                 (seqn (length (st_routes s)))) as [v'|] eqn:Ef; [exists v'; reflexivity|].
  exfalso. pose proof (find_none _ _ Ef v (proj2 (In_seqn _ _) Hv)) as Hf. cbv beta in Hf.
  apply mem_nat_false in Hf. apply Hf. apply Hall. left; reflexivity.
Qed.

(* ================================================================== *)
(* Execute then un-plan                                                *)
(* ================================================================== *)

Lemma exec_then_unplan (inp : input) (s s1 : state) (mv : move) :
  wf_input inp -> InvT inp s -> move_ok inp s mv -> exec_move inp s mv = (s1, Done) ->
  exists s2, unplan_unit inp s1 (mv_unit mv) = (s2, Done) /\ st_routes s2 = st_routes s.
Proof.
  intros Hwf HI Hmv Hex.
  pose proof (exec_move_invT inp s s1 mv Done Hwf HI Hmv Hex) as HI1.
  pose proof (exec_done_was_unplanned inp s s1 mv Hex) as Hunpl.
  pose proof (exec_done_is_planned inp s s1 mv Hwf HI Hmv Hex) as Hpl1.
  pose proof (exec_done_unit_on_vehicle inp s s1 mv Hwf HI Hmv Hex) as Hallv.
  destruct (exec_move_all_or_nothing inp s s1 mv Done Hwf (proj1 HI) Hmv Hex) as (_ & HD).
  destruct (HD eq_refl) as (Hst1 & Hoth). clear HD.
  destruct Hmv as (Hu & Hv & Hperm & Hne & Hsorted & Hgaps).
  set (u := mv_unit mv) in *. set (v := mv_vehicle mv) in *. set (places := mv_places mv) in *.
  remember (iu_stops (get_unit inp u)) as us eqn:Hus.
  pose proof HI as ((Hc & Hf & _ & Hco) & _).
  pose proof HI1 as ((Hc1 & _ & _ & Hco1) & _).
  pose proof Hc as (Hlen & Hc'). pose proof Hc1 as (Hlen1 & Hc1').
  destruct (Hc' v Hv) as (Hshape & Hcache).
  destruct (Hc1' v Hv) as (Hshape1 & Hcache1).
  set (old_stops := route_stops (get_route s v)) in *.
  assert (Huslt : forall x, In x us -> x < nstops inp).
  { intros x Hx. apply (unit_stops_lt inp u x Hwf Hu). rewrite <- Hus. exact Hx. }
  (* the unit's stops were on no route of s *)
  assert (Hoff : forall x, In x us -> ~ In x old_stops).
  { intros x Hx Hin. destruct Hco as (_ & _ & _ & _ & Hper & _).
    destruct (Hper u Hu) as (_ & _ & [C|C]); [congruence|].
    rewrite <- Hus in C. specialize (C x Hx).
    assert (Hon : stop_on_route s x = true).
    { apply stop_on_route_iff. exists v. rewrite Hlen. split; assumption. }
    congruence. }
  (* un-plan looks at the vehicle the move used *)
  assert (Hveh : vehicle_of_unit inp s1 u = Some v).
  { destruct (vehicle_of_unit_complete inp s1 u v) as (v' & Ev).
    - rewrite Hlen1. exact Hv.
    - exact (unit_stops_nonempty inp u Hwf Hu).
    - rewrite <- Hus. exact Hallv.
    - rewrite Ev. f_equal.
      destruct (vehicle_of_unit_some inp s1 u v' Ev) as (Hv'l & x0 & Hx0 & Hx0v).
      rewrite <- Hus in Hx0. rewrite Hlen1 in Hv'l.
      destruct Hco1 as (Hni1 & _).
      exact (interior_unique inp s1 x0 v' v Hc1 Hni1 Hv'l Hv (Huslt x0 Hx0) Hx0v (Hallv x0 Hx0)). }
  (* filtering the unit out of the new route gives the old route *)
  assert (Hfilt : filter (not_in us) (route_stops (get_route s1 v)) = old_stops).
  { rewrite Hst1. fold old_stops. rewrite filter_insert_places.
    - apply filter_true_all. intros x Hx. apply negb_true_iff. apply mem_nat_false.
      intros Hxu. exact (Hoff x Hxu Hx).
    - apply Forall_forall. intros q Hq. apply negb_false_iff. apply mem_nat_In.
      apply (Permutation_in _ Hperm). apply (in_map fst). exact Hq. }
  set (R1 := route_stops (get_route s1 v)) in *.
  assert (Hpre : firstn (S (first_gap (places_of us 0 R1) - 1)) old_stops
                 = firstn (S (first_gap (places_of us 0 R1) - 1)) R1).
  { rewrite <- Hfilt. destruct Hshape1 as (mid1 & HR1 & _). rewrite HR1.
    apply places_of_firstn. apply mem_nat_false. intros H. apply Huslt in H.
    pose proof (first_stop_ge inp v). lia. }
  unfold unplan_unit. rewrite Hpl1. cbn [negb]. rewrite Hveh. cbv zeta.
  rewrite <- Hus. fold R1. rewrite Hfilt.
  match goal with |- context [is_feasible inp ?a v ?i old_stops true] =>
    destruct (is_feasible_spec inp a v i R1 old_stops true) as (_ & Hcomp);
      [exact Hcache1|exact (route_shape_ne inp v _ Hshape)|exact Hpre|];
    rewrite Hcomp
  end.
  - eexists. split; [reflexivity|]. cbn [refresh_scores set_route st_routes].
    rewrite <- Hcache.
    apply (nth_ext _ _ [] []); [rewrite length_set_nth; congruence|].
    intros n Hn. rewrite length_set_nth in Hn.
    destruct (Nat.eq_dec n v) as [->|Hnv].
    + rewrite nth_set_nth_eq by exact Hn. reflexivity.
    + rewrite nth_set_nth_neq by (intros E; apply Hnv; symmetry; exact E).
      exact (Hoth n Hnv).
  - rewrite <- Hcache. specialize (Hf v Hv). unfold cell_ok in Hf.
    destruct (get_route s v) as [|c r]; [constructor|].
    cbn [tl skipn] in *. apply Forall_skipn'. exact Hf.
Qed.

Theorem C18_execute_then_unplan_restores_proof : forall inp s mv s1,
  wf_input inp -> reachable inp s -> move_ok inp s mv ->
  exec_move inp s mv = (s1, Done) ->
  exists s2, unplan_unit inp s1 (mv_unit mv) = (s2, Done) /\ same_obs s2 s.
Proof.
  intros inp s mv s1 Hwf Hr Hmv Hex.
  pose proof (reachable_invT inp s Hwf Hr) as HI.
  destruct (exec_then_unplan inp s s1 mv Hwf HI Hmv Hex) as (s2 & Hun & Hroutes).
  exists s2. split; [exact Hun|].
  pose proof (exec_move_invT inp s s1 mv Done Hwf HI Hmv Hex) as HI1.
  pose proof (proj2 (unplan_unit_invT inp s1 s2 _ Done Hwf HI1 (proj1 Hmv) Hun)) as HI2.
  exact (same_routes_same_obs inp s2 s (proj1 HI2) (proj1 HI) Hroutes).
Qed.

(* ================================================================== *)
(* The probe of the solution checker                                   *)
(* ================================================================== *)

(* execute the move; when it completes, un-plan the unit again *)
Definition probe (inp : input) (s : state) (mv : move) : state :=
  match exec_move inp s mv with
  | (s1, Done) => fst (unplan_unit inp s1 (mv_unit mv))
  | (s1, _) => s1
  end.

Lemma probe_ok (inp : input) (s : state) (mv : move) :
  wf_input inp -> reachable inp s -> move_ok inp s mv ->
  reachable inp (probe inp s mv) /\ same_obs (probe inp s mv) s.
Proof.
  intros Hwf Hr Hmv. pose proof (reachable_invT inp s Hwf Hr) as HI.
  unfold probe. destruct (exec_move inp s mv) as [s1 r] eqn:Hex.
  pose proof (reachable_exec inp s s1 mv r Hr Hmv Hex) as Hr1.
  assert (Hrej : r <> Done -> reachable inp s1 /\ same_obs s1 s).
  { intros Hne. split; [exact Hr1|].
    exact (proj1 (exec_move_all_or_nothing inp s s1 mv r Hwf (proj1 HI) Hmv Hex) Hne). }
  destruct r; try (apply Hrej; discriminate).
  destruct (C18_execute_then_unplan_restores_proof inp s mv s1 Hwf Hr Hmv Hex)
    as (s2 & Hun & Hobs).
  rewrite Hun. cbn [fst]. split; [|exact Hobs].
  exact (reachable_unplan inp s1 s2 _ Done Hr1 (proj1 Hmv) Hun).
Qed.

Theorem C18_probe_preserves_proof : forall inp s mv,
  wf_input inp -> reachable inp s -> move_ok inp s mv ->
  reachable inp (probe inp s mv) /\ same_obs (probe inp s mv) s.
Proof. intros inp s mv. apply probe_ok. Qed.

Lemma probe_sequence_from (inp : input) (s : state) :
  wf_input inp ->
  forall (mvs : list move) (s' : state),
    reachable inp s' -> same_obs s' s -> Forall (move_ok inp s) mvs ->
    reachable inp (fold_left (probe inp) mvs s') /\ same_obs (fold_left (probe inp) mvs s') s.
Proof.
  intros Hwf. induction mvs as [|mv mvs IH]; intros s' Hr' Hobs Hall; cbn [fold_left].
  - split; assumption.
  - inversion Hall as [|mv' l Hmv Hrest]; subst.
    assert (Hmv' : move_ok inp s' mv).
    { apply (move_ok_routes inp s s' mv); [|exact Hmv]. symmetry. exact (proj1 Hobs). }
    destruct (probe_ok inp s' mv Hwf Hr' Hmv') as (Hr'' & Hobs'').
    apply IH; [exact Hr''| |exact Hrest].
    exact (same_obs_trans _ _ _ Hobs'' Hobs).
Qed.

Theorem C18_probe_sequence_preserves_proof : forall inp s mvs,
  wf_input inp -> reachable inp s -> Forall (move_ok inp s) mvs ->
  reachable inp (fold_left (probe inp) mvs s) /\ same_obs (fold_left (probe inp) mvs s) s.
Proof.
  intros inp s mvs Hwf Hr Hall.
  exact (probe_sequence_from inp s Hwf mvs s Hr (same_obs_refl s) Hall).
Qed.

(* the same with the moves required to be well formed for the state they are
   probed on (the checker computes each best move on the current solution) *)
Fixpoint probes_ok (inp : input) (s : state) (mvs : list move) : Prop :=
  match mvs with
  | [] => True
  | mv :: rest => move_ok inp s mv /\ probes_ok inp (probe inp s mv) rest
  end.

Theorem C18_probes_ok_unfold_proof : forall inp s mv rest,
  (probes_ok inp s [] <-> True) /\
  (probes_ok inp s (mv :: rest) <-> move_ok inp s mv /\ probes_ok inp (probe inp s mv) rest).
Proof. intros inp s mv rest. split; reflexivity. Qed.

Theorem C18_probe_sequence_stepwise_proof : forall inp s mvs,
  wf_input inp -> reachable inp s -> probes_ok inp s mvs ->
  reachable inp (fold_left (probe inp) mvs s) /\ same_obs (fold_left (probe inp) mvs s) s.
Proof.
  intros inp s mvs Hwf. revert s.
  induction mvs as [|mv mvs IH]; intros s Hr Hok; cbn [fold_left probes_ok] in *.
  - split; [exact Hr|apply same_obs_refl].
  - destruct Hok as (Hmv & Hok).
    destruct (probe_ok inp s mv Hwf Hr Hmv) as (Hr' & Hobs').
    destruct (IH _ Hr' Hok) as (Hr'' & Hobs'').
    split; [exact Hr''|]. exact (same_obs_trans _ _ _ Hobs'' Hobs').
Qed.

Theorem C18_move_ok_stable_proof : forall inp a b mv,
  same_obs a b -> (move_ok inp a mv <-> move_ok inp b mv).
Proof.
  intros inp a b mv (Hr & _). split; apply move_ok_routes; [exact Hr|symmetry; exact Hr].
Qed.

Theorem C18_probe_unfold_proof : forall inp s mv,
  probe inp s mv =
  match exec_move inp s mv with
  | (s1, Done) => fst (unplan_unit inp s1 (mv_unit mv))
  | (s1, _) => s1
  end.
Proof. reflexivity. Qed.

(* ================================================================== *)
(* Non-vacuity                                                         *)
(* ================================================================== *)

Example ex2_reachable_s1 : reachable ex2_inp ex2_s1.
Proof.
  exact (reachable_exec ex2_inp ex2_s0 ex2_s1 ex2_mv1 Done
           (reachable_start ex2_inp ex2_s0 ex2_new) ex2_move1_ok ex2_move1_done).
Qed.

(* the probe of unit 1 on ex2_s1 plans it (Done) and un-plans it again *)
Example ex18_probe_done :
  snd (exec_move ex2_inp ex2_s1 ex2_mv2) = Done /\
  snd (unplan_unit ex2_inp (fst (exec_move ex2_inp ex2_s1 ex2_mv2)) 1) = Done /\
  probe ex2_inp ex2_s1 ex2_mv2 = ex2_s1.
Proof. vm_compute. repeat split. Qed.

(* three successful probes in sequence (unit 1 on vehicle 0, on vehicle 1, on
   vehicle 0 again) *)
Example ex18_sequence :
  same_obs (fold_left (probe ex2_inp) [ex2_mv2; mkMove 1 1 [(2, 1)]; ex2_mv2] ex2_s1) ex2_s1.
Proof.
  apply (C18_probe_sequence_preserves_proof ex2_inp ex2_s1 _ ex2_wf ex2_reachable_s1).
  assert (H2 : move_ok ex2_inp ex2_s1 (mkMove 1 1 [(2, 1)])).
  { unfold move_ok. vm_compute.
    split; [lia|]. split; [lia|]. split; [apply Permutation_refl|]. split; [discriminate|].
    split; repeat constructor. }
  constructor; [exact ex2_move2_ok|]. constructor; [exact H2|].
  constructor; [exact ex2_move2_ok|constructor].
Qed.

(* a probe whose move is rejected (user constraint of ex19_inp): nothing to undo *)
Example ex18_probe_rejected :
  snd (exec_move ex19_inp ex19_s1 ex19_mv2) = Rejected (KUser 0) /\
  probe ex19_inp ex19_s1 ex19_mv2 = ex19_s1 /\
  same_obs (fold_left (probe ex19_inp) [ex19_mv2; ex19_mv2] ex19_s1) ex19_s1.
Proof.
  split; [vm_compute; reflexivity|]. split; [vm_compute; reflexivity|].
  apply (C18_probe_sequence_preserves_proof ex19_inp ex19_s1 _ ex19_wf ex19_reachable_s1).
  constructor; [exact ex19_move2_ok|]. constructor; [exact ex19_move2_ok|constructor].
Qed.

Example ex18_restores :
  exists s2, unplan_unit ex2_inp ex2_s2 1 = (s2, Done) /\ same_obs s2 ex2_s1.
Proof.
  exact (C18_execute_then_unplan_restores_proof ex2_inp ex2_s1 ex2_mv2 ex2_s2 ex2_wf
           ex2_reachable_s1 ex2_move2_ok ex2_move2_done).
Qed.

Print Assumptions C18_execute_then_unplan_restores_proof.
Print Assumptions C18_probe_preserves_proof.
Print Assumptions C18_probe_sequence_preserves_proof.
Print Assumptions C18_probe_sequence_stepwise_proof.
Print Assumptions C18_move_ok_stable_proof.
Print Assumptions C18_truthful_proof.
Print Assumptions ex18_sequence.
Print Assumptions ex18_restores.
Print Assumptions ex18_probe_rejected.
