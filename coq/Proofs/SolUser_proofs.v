(* Proofs behind Props/SolUser.v: the engine guarded by solution-level user
   rules (Model/SolUser.v). *)
From Coq Require Import List ZArith Bool Arith Lia Permutation.
From NR Require Import Model.Engine Model.SolUser Proofs.Engine_lists Proofs.Engine_inv Proofs.Engine_spec Proofs.C19_proofs.
Import ListNotations.
Open Scope Z_scope.

Definition sf_step (inp : input) (atoms : list satom) (s : state) (o : op) : state * result :=
  sol_guard atoms (length (in_user inp)) s (step inp s o).

(* states of the guarded engine *)
Inductive sf_reachable (inp : input) (atoms : list satom) : state -> Prop :=
| sfr_new : forall s0, sf_new_solution inp atoms = Some s0 -> sf_reachable inp atoms s0
| sfr_step : forall s o, sf_reachable inp atoms s -> op_ok inp s o ->
             sf_reachable inp atoms (fst (sf_step inp atoms s o)).

Lemma sf_new_solution_spec (inp : input) (atoms : list satom) (s0 : state) :
  sf_new_solution inp atoms = Some s0 -> new_solution inp = Some s0 /\ sol_ok atoms s0 = true.
Proof.
  unfold sf_new_solution. destruct (new_solution inp) as [s|]; [|discriminate].
  destruct (sol_ok atoms s) eqn:Hok; [|discriminate]. intros H. inversion H. subst. split; [reflexivity|exact Hok].
Qed.

(* what the guard can answer *)
Lemma sf_step_cases (inp : input) (atoms : list satom) (s : state) (o : op) :
  (sf_step inp atoms s o = step inp s o /\
   (snd (step inp s o) = Done -> sol_ok atoms (fst (step inp s o)) = true)) \/
  (exists i, snd (step inp s o) = Done /\ sol_violation atoms (fst (step inp s o)) 0 = Some i /\
             sf_step inp atoms s o = (s, Rejected (KUser (length (in_user inp) + i)))).
Proof.
  unfold sf_step, sol_guard, sol_ok.
  destruct (snd (step inp s o)) eqn:Hr.
  - destruct (sol_violation atoms (fst (step inp s o)) 0) as [i|] eqn:Hv.
    + right. exists i. repeat split; reflexivity.
    + left. split; [reflexivity|]. intros _. reflexivity.
  - left. split; [reflexivity|]. intros H. discriminate.
  - left. split; [reflexivity|]. intros H. discriminate.
  - left. split; [reflexivity|]. intros H. discriminate.
Qed.

(* T1: every state of the guarded engine is a state of the engine *)
Theorem sf_reachable_is_reachable_proof : forall inp atoms s,
  sf_reachable inp atoms s -> reachable inp s.
Proof.
  intros inp atoms s H. induction H as [s0 Hn|s o Hs IH Hok].
  - apply sf_new_solution_spec in Hn. destruct Hn as [Hn _].
    exists s0, []. split; [exact Hn|]. split; [exact I|]. left. reflexivity.
  - destruct (sf_step_cases inp atoms s o) as [[Heq _]|(i & _ & _ & Heq)]; rewrite Heq.
    + exact (reachable_step inp s o IH Hok).
    + exact IH.
Qed.

(* the rules read the routes only *)
Lemma sol_violation_routes (atoms : list satom) (a b : state) :
  st_routes a = st_routes b -> forall i, sol_violation atoms a i = sol_violation atoms b i.
Proof.
  intros Hr. induction atoms as [|x rest IH]; intros i; [reflexivity|].
  cbn [sol_violation].
  assert (Hx : satom_violated x a = satom_violated x b).
  { unfold satom_violated, route_sizes. rewrite Hr. reflexivity. }
  rewrite Hx. destruct (satom_violated x b); [reflexivity|apply IH].
Qed.

Lemma sol_ok_routes (atoms : list satom) (a b : state) :
  st_routes a = st_routes b -> sol_ok atoms a = sol_ok atoms b.
Proof. intros Hr. unfold sol_ok. rewrite (sol_violation_routes atoms a b Hr 0). reflexivity. Qed.

Lemma step_not_done_same_obs (inp : input) (s : state) (o : op) :
  wf_input inp -> reachable inp s -> op_ok inp s o ->
  snd (step inp s o) <> Done -> same_obs (fst (step inp s o)) s.
Proof.
  intros Hwf Hr Hok Hnd. destruct o as [mv|u]; cbn [step op_ok] in *.
  - destruct (exec_move inp s mv) as [s' r] eqn:Hex. cbn [fst snd] in *.
    exact (proj1 (C07_exec_move_all_or_nothing_proof inp s mv s' r Hwf Hr Hok Hex) Hnd).
  - destruct (unplan_unit inp s u) as [s' r] eqn:Hex. cbn [fst snd] in *.
    exact (proj1 (C07_unplan_all_or_nothing_proof inp s u s' r Hwf Hr Hok Hex) Hnd).
Qed.

(* T2: no state of the guarded engine violates a solution-level rule *)
Theorem sf_never_violated_proof : forall inp atoms s,
  wf_input inp -> sf_reachable inp atoms s -> sol_ok atoms s = true.
Proof.
  intros inp atoms s Hwf H. induction H as [s0 Hn|s o Hs IH Hok].
  - exact (proj2 (sf_new_solution_spec inp atoms s0 Hn)).
  - destruct (sf_step_cases inp atoms s o) as [[Heq Hd]|(i & _ & _ & Heq)]; rewrite Heq.
    + destruct (snd (step inp s o)) eqn:Hr.
      * exact (Hd eq_refl).
      * assert (Hnd : snd (step inp s o) <> Done) by (rewrite Hr; discriminate).
        pose proof (step_not_done_same_obs inp s o Hwf (sf_reachable_is_reachable_proof inp atoms s Hs) Hok Hnd) as Hso.
        rewrite (sol_ok_routes atoms _ s (proj1 Hso)). exact IH.
      * assert (Hnd : snd (step inp s o) <> Done) by (rewrite Hr; discriminate).
        pose proof (step_not_done_same_obs inp s o Hwf (sf_reachable_is_reachable_proof inp atoms s Hs) Hok Hnd) as Hso.
        rewrite (sol_ok_routes atoms _ s (proj1 Hso)). exact IH.
      * assert (Hnd : snd (step inp s o) <> Done) by (rewrite Hr; discriminate).
        pose proof (step_not_done_same_obs inp s o Hwf (sf_reachable_is_reachable_proof inp atoms s Hs) Hok Hnd) as Hso.
        rewrite (sol_ok_routes atoms _ s (proj1 Hso)). exact IH.
    + exact IH.
Qed.

(* T3: an operation that does not end Done - whoever rejected it - leaves the solution observably as it was *)
Theorem sf_rejection_restores_proof : forall inp atoms s o,
  wf_input inp -> sf_reachable inp atoms s -> op_ok inp s o ->
  snd (sf_step inp atoms s o) <> Done -> same_obs (fst (sf_step inp atoms s o)) s.
Proof.
  intros inp atoms s o Hwf Hs Hok Hnd.
  destruct (sf_step_cases inp atoms s o) as [[Heq _]|(i & _ & _ & Heq)]; rewrite Heq in *.
  - exact (step_not_done_same_obs inp s o Hwf (sf_reachable_is_reachable_proof inp atoms s Hs) Hok Hnd).
  - cbn [fst]. apply same_obs_refl.
Qed.

(* T4: without solution-level rules the guarded engine is the engine *)
Theorem sf_conservative_proof : forall inp s o, sf_step inp [] s o = step inp s o.
Proof.
  intros inp s o. unfold sf_step, sol_guard. cbn [sol_violation].
  destruct (step inp s o) as [s' r]. destruct r; reflexivity.
Qed.

(* T5: a rejection by a solution-level rule is genuine: the engine had completed the operation and the state it had reached violates the rule named *)
Theorem sf_rejection_is_genuine_proof : forall inp atoms s o i,
  snd (sf_step inp atoms s o) = Rejected (KUser (length (in_user inp) + i)) ->
  snd (step inp s o) <> Rejected (KUser (length (in_user inp) + i)) ->
  snd (step inp s o) = Done /\ sol_violation atoms (fst (step inp s o)) 0 = Some i /\
  fst (sf_step inp atoms s o) = s.
Proof.
  intros inp atoms s o i Hsf Hne.
  destruct (sf_step_cases inp atoms s o) as [[Heq _]|(j & Hd & Hv & Heq)].
  - rewrite Heq in Hsf. contradiction.
  - rewrite Heq in Hsf. cbn [snd] in Hsf. inversion Hsf as [Hij].
    assert (j = i) by lia. subst j. rewrite Heq. cbn [fst]. repeat split; assumption.
Qed.

(* ================================================================== *)
(* Non-vacuity: the two-vehicle input of the objective example          *)
(* (Engine_spec.mt_inp: stops 0 and 1, vehicles 0 and 1), rule           *)
(* "route sizes differ by at most 1"                                    *)
(* ================================================================== *)

Definition su_atoms : list satom := [SBalance 1].

Example su_start : sf_new_solution mt_inp su_atoms = Some mt_s0.
Proof. vm_compute. reflexivity. Qed.

(* stop 0 on vehicle 0: sizes 1, 0 - accepted, the engine's own answer *)
Example su_move1 : sf_step mt_inp su_atoms mt_s0 (OpPlan mt_mv1) = (mt_s1, Done).
Proof. vm_compute. reflexivity. Qed.

(* stop 1 behind it on the same vehicle: the engine completes the move (mt_s2, sizes 2, 0), the rule rejects it and
   the state is the one before the move *)
Example su_move2_engine : step mt_inp mt_s1 (OpPlan mt_mv2) = (mt_s2, Done) /\ route_sizes mt_s2 = [2; 0].
Proof. vm_compute. split; reflexivity. Qed.
Example su_move2_rejected : sf_step mt_inp su_atoms mt_s1 (OpPlan mt_mv2) = (mt_s1, Rejected (KUser 0)).
Proof. vm_compute. reflexivity. Qed.

Example su_reachable_s1 : sf_reachable mt_inp su_atoms mt_s1.
Proof.
  pose proof (sfr_step mt_inp su_atoms mt_s0 (OpPlan mt_mv1) (sfr_new mt_inp su_atoms mt_s0 su_start) mt_mv1_ok) as H.
  rewrite su_move1 in H. exact H.
Qed.

(* the guard is needed: without it the engine reaches a state that violates the rule *)
Example su_unguarded_violates :
  reachable mt_inp mt_s2 /\ sol_ok su_atoms mt_s2 = false.
Proof. split; [exact mt_reachable|vm_compute; reflexivity]. Qed.

Example SolUser_example_proof :
  wf_input mt_inp /\ sf_new_solution mt_inp su_atoms = Some mt_s0 /\
  sf_step mt_inp su_atoms mt_s0 (OpPlan mt_mv1) = (mt_s1, Done) /\ route_sizes mt_s1 = [1; 0] /\
  sf_reachable mt_inp su_atoms mt_s1 /\ move_ok mt_inp mt_s1 mt_mv2 /\
  step mt_inp mt_s1 (OpPlan mt_mv2) = (mt_s2, Done) /\ route_sizes mt_s2 = [2; 0] /\
  sf_step mt_inp su_atoms mt_s1 (OpPlan mt_mv2) = (mt_s1, Rejected (KUser 0)) /\
  reachable mt_inp mt_s2 /\ sol_ok su_atoms mt_s2 = false.
Proof.
  split; [exact mt_wf|]. split; [exact su_start|]. split; [exact su_move1|]. split; [vm_compute; reflexivity|].
  split; [exact su_reachable_s1|]. split; [exact mt_mv2_ok|]. split; [exact (proj1 su_move2_engine)|].
  split; [exact (proj2 su_move2_engine)|]. split; [exact su_move2_rejected|]. exact su_unguarded_violates.
Qed.
