(* C17 for EVERY set of time frames the library accepts: if all SetExpression
   calls of a list of well-formed frames (minute-aligned, non-empty, inside the
   horizon, a frame expression each) are answered ok - whatever their order -
   the expression is well-formed, hence durations are never negative and leaving
   later never arrives earlier.  No disjointness hypothesis: the repaired overlap
   test (Model/TimeDep.v set_expression) rejects every overlapping frame. *)
From Coq Require Import List ZArith QArith Bool Arith Lia Lqa.
From NR Require Import Model.TimeDep Proofs.TimeDep_proofs.
Import ListNotations.
Open Scope Z_scope.

(* an accepted call on a well-formed expression: the element the frame starts
   in is a gap that contains the whole frame, so the frame is disjoint from all
   frames present, and the week test has passed *)
Lemma accepted_conditions t s e k t' :
  wf_td t -> frame_ok (s, e, k) -> set_expression t s e k false = (t', SetOk) ->
  (forall a, In a (td_elems t) -> e_expr a <> 0%nat -> (e_end a <= s \/ e <= e_start a)) /\
  (new_latest t e - new_earliest t s <= week).
Proof.
  intros Hwf [(Hs0 & Hse & Hsm & Hem & Hemax) Hk] Hset.
  destruct (wf_first _ Hwf) as (f0 & r0 & Hf0 & Hf0s & Hf0k).
  destruct (find_split_spec s (td_elems t) []) as (pre & el & after & Hfs & Hl & Hpre & Hstop);
    [rewrite Hf0; discriminate|].
  unfold set_expression in Hset.
  assert (E1 : (s <? 0) = false) by (apply Z.ltb_ge; lia).
  assert (E2 : (e <? s) = false) by (apply Z.ltb_ge; lia).
  rewrite E1, E2, Hsm, Hem in Hset. cbn [Z.eqb negb] in Hset.
  fold (new_earliest t s) in Hset. fold (new_latest t e) in Hset.
  destruct (week <? new_latest t e - new_earliest t s) eqn:E3; [inversion Hset|].
  apply Z.ltb_ge in E3.
  rewrite Hf0 in Hset. rewrite <- Hf0 in Hset. rewrite Hfs in Hset.
  cbn [app] in Hset.
  destruct ((negb (Nat.eqb (e_expr el) 0) && (e_start el <? e)) ||
            (Nat.eqb (e_expr el) 0 && (e_end el <? e)))%bool eqn:E4; [inversion Hset|].
  apply orb_false_iff in E4. destruct E4 as [E4a E4b].
  (* e_start el <= s, as in split_elem_props *)
  pose proof (wf_chain _ Hwf) as Hc. rewrite Hl in Hc.
  assert (Hstart : e_start el <= s).
  { destruct (list_last_cases pre) as [->|(p & z & ->)].
    - rewrite Hl in Hf0. simpl in Hf0. injection Hf0 as -> _. lia.
    - rewrite <- app_assoc in Hc. simpl in Hc.
      destruct (chain_app_mid _ _ _ _ _ Hc) as [Hlk _].
      rewrite Forall_forall in Hpre.
      assert (e_end z <= s) by (apply Hpre; apply in_or_app; right; left; reflexivity).
      unfold link in Hlk. lia. }
  assert (Hk0 : e_expr el = 0%nat).
  { apply andb_false_iff in E4a. destruct E4a as [E|E].
    - apply negb_false_iff in E. apply Nat.eqb_eq in E. exact E.
    - apply Z.ltb_ge in E. lia. }
  assert (Hend : e <= e_end el).
  { rewrite Hk0 in E4b. cbn [Nat.eqb andb] in E4b. apply Z.ltb_ge in E4b. exact E4b. }
  split; [|exact E3].
  intros a Ha Hka. rewrite Hl in Ha. apply in_app_or in Ha. destruct Ha as [Ha|[<-|Ha]].
  - left. rewrite Forall_forall in Hpre. apply Hpre. exact Ha.
  - congruence.
  - right. pose proof (wf_contig _ Hwf) as Hct. rewrite Hl in Hct. apply contig_app_r in Hct.
    pose proof (contig_hd_le el after a Hct Ha). lia.
Qed.

Lemma accepted_wf_step t s e k t' :
  wf_td t -> frame_ok (s, e, k) -> set_expression t s e k false = (t', SetOk) -> wf_td t'.
Proof.
  intros Hwf Hok Hset.
  destruct (accepted_conditions t s e k t' Hwf Hok Hset) as [Hdis Hweek].
  destruct (set_expression_nonempty t s e k Hwf Hok Hdis Hweek) as (t'' & Hset' & Hwf' & _).
  rewrite Hset in Hset'. inversion Hset'. subst. exact Hwf'.
Qed.

Lemma accepted_wf_first s e k t' :
  frame_ok (s, e, k) -> set_expression td_empty s e k false = (t', SetOk) -> wf_td t'.
Proof.
  intros Hok Hset.
  assert (Hweek : e - s <= week).
  { destruct Hok as [(Hs0 & Hse & Hsm & Hem & Hemax) Hk].
    unfold set_expression in Hset.
    assert (E1 : (s <? 0) = false) by (apply Z.ltb_ge; lia).
    assert (E2 : (e <? s) = false) by (apply Z.ltb_ge; lia).
    rewrite E1, E2, Hsm, Hem in Hset. cbn [Z.eqb negb td_empty td_earliest td_latest] in Hset.
    rewrite !orb_true_r in Hset.
    destruct (week <? e - s) eqn:E3; [inversion Hset|]. apply Z.ltb_ge in E3. exact E3. }
  destruct (set_expression_empty s e k Hok Hweek) as (t'' & Hset' & Hwf' & _).
  rewrite Hset in Hset'. inversion Hset'. subst. exact Hwf'.
Qed.

Lemma accepted_wf_from t fs :
  wf_td t -> Forall frame_ok fs ->
  Forall (fun r => r = SetOk) (snd (set_expressions t fs)) ->
  wf_td (fst (set_expressions t fs)).
Proof.
  revert t. induction fs as [|[[s e] k] rest IH]; intros t Hwf Hok Hall; [exact Hwf|].
  inversion Hok as [|? ? Hok1 Hok2]; subst.
  cbn [set_expressions] in *.
  destruct (set_expression t s e k false) as [t1 r1] eqn:E1.
  destruct (set_expressions t1 rest) as [t2 rs] eqn:E2.
  cbn [fst snd] in *. inversion Hall as [|? ? Hr1 Hrs]; subst.
  pose proof (accepted_wf_step t s e k t1 Hwf Hok1 E1) as Hwf1.
  specialize (IH t1 Hwf1 Hok2). rewrite E2 in IH. cbn [fst snd] in IH. exact (IH Hrs).
Qed.

Theorem accepted_is_wf_proof : forall fs,
  Forall frame_ok fs ->
  Forall (fun r => r = SetOk) (snd (set_expressions td_empty fs)) ->
  (fs = [] /\ fst (set_expressions td_empty fs) = td_empty) \/ wf_td (fst (set_expressions td_empty fs)).
Proof.
  intros [|[[s e] k] rest] Hok Hall; [left; split; reflexivity|right].
  inversion Hok as [|? ? Hok1 Hok2]; subst.
  cbn [set_expressions] in *.
  destruct (set_expression td_empty s e k false) as [t1 r1] eqn:E1.
  destruct (set_expressions t1 rest) as [t2 rs] eqn:E2.
  cbn [fst snd] in *. inversion Hall as [|? ? Hr1 Hrs]; subst.
  pose proof (accepted_wf_first s e k t1 Hok1 E1) as Hwf1.
  pose proof (accepted_wf_from t1 rest Hwf1 Hok2) as H. rewrite E2 in H. cbn [fst snd] in H. exact (H Hrs).
Qed.

Open Scope Q_scope.

Theorem accepted_nonneg_proof : forall fs vals v x,
  Forall frame_ok fs -> Forall (fun r => r = SetOk) (snd (set_expressions td_empty fs)) ->
  vals_ok vals -> 0 <= v ->
  value_at_value (fst (set_expressions td_empty fs)) vals v = Val x -> 0 <= x.
Proof.
  intros fs vals v x Hok Hall Hv Hv0 H.
  destruct (accepted_is_wf_proof fs Hok Hall) as [[-> _]|Hwf].
  - simpl in H. injection H as <-. apply Hv.
  - exact (nonneg_wf _ vals v x Hwf Hv Hv0 H).
Qed.

Theorem accepted_fifo_proof : forall fs vals v1 v2 x1 x2,
  Forall frame_ok fs -> Forall (fun r => r = SetOk) (snd (set_expressions td_empty fs)) ->
  vals_ok vals -> 0 <= v1 -> v1 <= v2 ->
  value_at_value (fst (set_expressions td_empty fs)) vals v1 = Val x1 ->
  value_at_value (fst (set_expressions td_empty fs)) vals v2 = Val x2 ->
  v1 + x1 <= v2 + x2.
Proof.
  intros fs vals v1 v2 x1 x2 Hok Hall Hv Hv0 Hle H1 H2.
  destruct (accepted_is_wf_proof fs Hok Hall) as [[-> _]|Hwf].
  - simpl in H1, H2. injection H1 as <-. injection H2 as <-. lra.
  - exact (fifo_wf _ vals v1 v2 x1 x2 Hwf Hv Hv0 Hle H1 H2).
Qed.
