(* C12: proofs about the shared random stream model NR.Model.RandShare.
   The theorem statements are repeated in NR.Props.C12. *)
From Coq Require Import List Bool Arith ZArith Lia Permutation.
From NR Require Import Model.RandShare.
Import ListNotations.

(* ------------------------------------------------------------------ *)
(* The positions a phase hands out                                      *)
(* ------------------------------------------------------------------ *)

Lemma map_seq_split : forall (st : stream) pos d c,
  map st (seq pos d) ++ map st (seq (pos + d) c) = map st (seq pos (d + c)).
Proof.
  intros st pos d c. rewrite seq_app, map_app. reflexivity.
Qed.

Lemma C12_phase_positions_proof : forall st pos d c sched,
  let '(p, q, e) := run_phase st pos d c sched in
  e = pos + d + c /\ length p = d /\ length q = c /\
  Permutation (p ++ q) (map st (seq pos (d + c))).
Proof.
  intros st pos d c sched. revert pos d c.
  induction sched as [|b rest IH]; intros pos d c.
  - simpl. rewrite !map_length, !seq_length, map_seq_split.
    repeat split; auto.
  - destruct d as [|d']; destruct c as [|c'].
    + simpl. repeat split; auto; lia.
    + simpl. specialize (IH (S pos) 0 c').
      destruct (run_phase st (S pos) 0 c' rest) as [[p q] e].
      destruct IH as (He & Hp & Hq & Hperm).
      repeat split; simpl; try lia.
      simpl in Hperm. apply Permutation_sym, Permutation_cons_app.
      apply Permutation_sym. exact Hperm.
    + simpl. specialize (IH (S pos) d' 0).
      destruct (run_phase st (S pos) d' 0 rest) as [[p q] e].
      destruct IH as (He & Hp & Hq & Hperm).
      repeat split; simpl; try lia.
      apply perm_skip. exact Hperm.
    + cbn [run_phase]. destruct b.
      * specialize (IH (S pos) d' (S c')).
        destruct (run_phase st (S pos) d' (S c') rest) as [[p q] e].
        destruct IH as (He & Hp & Hq & Hperm).
        repeat split; simpl; try lia.
        apply perm_skip. exact Hperm.
      * specialize (IH (S pos) (S d') c').
        destruct (run_phase st (S pos) (S d') c' rest) as [[p q] e].
        destruct IH as (He & Hp & Hq & Hperm).
        repeat split; simpl; try lia.
        apply Permutation_sym, Permutation_cons_app. apply Permutation_sym.
        replace (S d' + c') with (d' + S c') in Hperm by lia. exact Hperm.
Qed.

(* ------------------------------------------------------------------ *)
(* Exclusive phases                                                     *)
(* ------------------------------------------------------------------ *)

Lemma run_phase_consumer_idle : forall st sched pos d,
  run_phase st pos d 0 sched = (map st (seq pos d), [], pos + d).
Proof.
  intros st sched. induction sched as [|b rest IH]; intros pos d.
  - simpl. f_equal. lia.
  - destruct d as [|d'].
    + simpl. f_equal. lia.
    + simpl. rewrite IH. f_equal. lia.
Qed.

Lemma run_phase_producer_idle : forall st sched pos c,
  run_phase st pos 0 c sched = ([], map st (seq pos c), pos + c).
Proof.
  intros st sched. induction sched as [|b rest IH]; intros pos c.
  - simpl. rewrite Nat.add_0_r. reflexivity.
  - destruct c as [|c'].
    + simpl. f_equal. lia.
    + simpl. rewrite IH. f_equal. lia.
Qed.

Lemma C12_exclusive_phase_deterministic_proof : forall st pos d c sched1 sched2,
  d = 0 \/ c = 0 ->
  run_phase st pos d c sched1 = run_phase st pos d c sched2.
Proof.
  intros st pos d c sched1 sched2 [Hd | Hc]; subst.
  - rewrite !run_phase_producer_idle. reflexivity.
  - rewrite !run_phase_consumer_idle. reflexivity.
Qed.

Lemma phase_exclusive_spec : forall d c,
  phase_exclusive (d, c) = true -> d = 0 \/ c = 0.
Proof.
  intros d c H. unfold phase_exclusive in H. simpl in H.
  apply orb_true_iff in H. destruct H as [H | H]; apply Nat.eqb_eq in H; auto.
Qed.

Lemma C12_deterministic_proof : forall st pos phases scheds1 scheds2,
  forallb phase_exclusive phases = true ->
  run_phases st pos phases scheds1 = run_phases st pos phases scheds2.
Proof.
  intros st pos phases. revert pos.
  induction phases as [|[d c] rest IH]; intros pos scheds1 scheds2 Hex.
  - reflexivity.
  - simpl in Hex. apply andb_true_iff in Hex. destruct Hex as [Hph Hrest].
    apply phase_exclusive_spec in Hph.
    simpl.
    rewrite (C12_exclusive_phase_deterministic_proof st pos d c
               (hd [] scheds1) (hd [] scheds2) Hph).
    destruct (run_phase st pos d c (hd [] scheds2)) as [[p q] e].
    rewrite (IH e (tl scheds1) (tl scheds2) Hrest). reflexivity.
Qed.

(* ------------------------------------------------------------------ *)
(* A phase in which both sides draw is schedule dependent               *)
(* ------------------------------------------------------------------ *)

(* the consumer's observations are the second component: [snd (fst r)] *)
Lemma C12_shared_stream_refuted_proof :
  exists (st : stream) (phases : list (nat * nat)) (scheds1 scheds2 : list (list bool)),
    (exists d c, In (d, c) phases /\ d >= 1 /\ c >= 1) /\
    snd (fst (run_phases st 0 phases scheds1)) <> snd (fst (run_phases st 0 phases scheds2)).
Proof.
  exists Z.of_nat, [(0, 2); (1, 1); (2, 0)], [[]; [true]; []], [[]; [false]; []].
  split.
  - exists 1, 1. split; [simpl; auto | lia].
  - vm_compute. discriminate.
Qed.

Lemma C12_shared_stream_any_phase_proof : forall (st : stream),
  (forall i j, st i = st j -> i = j) ->
  forall pos d c, 1 <= d -> 1 <= c ->
  exists sched1 sched2,
    snd (fst (run_phase st pos d c sched1)) <> snd (fst (run_phase st pos d c sched2)).
Proof.
  intros st Hinj pos d c Hd Hc.
  exists [], [false].
  destruct d as [|d']; [lia|]. destruct c as [|c']; [lia|].
  cbn [run_phase].
  destruct (run_phase st (S pos) (S d') c' []) as [[p q] e].
  cbn [fst snd seq map]. intro Heq.
  assert (Hhd : st (pos + S d') = st pos) by (injection Heq; auto).
  apply Hinj in Hhd. lia.
Qed.

(* ------------------------------------------------------------------ *)
(* Non-vacuity: the hypotheses are satisfiable on non-trivial instances *)
(* ------------------------------------------------------------------ *)

Example C12_ex_positions :
  run_phase Z.of_nat 5 2 3 [false; true; false; false; true]
  = ([6; 9]%Z, [5; 7; 8]%Z, 10).
Proof. vm_compute. reflexivity. Qed.

Example C12_ex_exclusive_phases :
  forallb phase_exclusive [(3, 0); (0, 2); (0, 0); (4, 0)] = true /\
  run_phases Z.of_nat 0 [(3, 0); (0, 2); (0, 0); (4, 0)] [[true; false]; [false]; []; [false; false]]
  = ([[0; 1; 2]; []; []; [5; 6; 7; 8]]%Z, [[]; [3; 4]; []; []]%Z, 9).
Proof. vm_compute. split; reflexivity. Qed.

Example C12_ex_injective_stream : forall i j, Z.of_nat i = Z.of_nat j -> i = j.
Proof. intros i j H. lia. Qed.
