(* C13: proofs about the deterministic parallel mode model NR.Model.ParallelDet.
   The theorem statements are repeated in NR.Props.C13. *)
From Coq Require Import List ZArith Bool Lia Permutation Sorted.
From NR Require Import Model.ParallelDet.
Import ListNotations.
Open Scope Z_scope.

(* ------------------------------------------------------------------ *)
(* Schedules                                                           *)
(* ------------------------------------------------------------------ *)

Definition is_start (a : dact) : bool :=
  match a with DStart _ => true | _ => false end.

(* a schedule in which no worker is started *)
Definition no_start (sched : list dact) : bool :=
  forallb (fun a => negb (is_start a)) sched.

(* a schedule of a cycle with the single worker [w]: one [DStart w] and, around
   it, forwards and comparisons in any order and number (actions that are not
   enabled are skipped by [drun]) *)
Definition one_worker_sched (w : worker) (sched : list dact) : Prop :=
  exists pre post,
    sched = pre ++ DStart w :: post /\ no_start pre = true /\ no_start post = true.

(* the state in which a cycle starts when the previous one ended quiescent *)
Definition fresh_state (b : Z) (out : list Z) : dstate := mkD b [] [] out.

Lemma drun_app : forall s1 s2 st, drun st (s1 ++ s2) = drun (drun st s1) s2.
Proof.
  induction s1 as [|a s1 IH]; intros s2 st; simpl.
  - reflexivity.
  - destruct (dstep st a); apply IH.
Qed.

Lemma no_start_app : forall s1 s2,
  no_start (s1 ++ s2) = no_start s1 && no_start s2.
Proof. intros. unfold no_start. apply forallb_app. Qed.

(* ------------------------------------------------------------------ *)
(* The result channel carries strictly improving scores                *)
(* ------------------------------------------------------------------ *)

Definition out_inv (st : dstate) : Prop :=
  (exists rest, d_out st = d_best st :: rest) /\ Sorted Z.lt (d_out st).

Lemma out_inv_init : forall s0, out_inv (dinit s0).
Proof.
  intros s0. split.
  - exists []. reflexivity.
  - simpl. repeat constructor.
Qed.

Lemma out_inv_step : forall st a st',
  out_inv st -> dstep st a = Some st' -> out_inv st'.
Proof.
  intros st a st' [[rest Hout] Hsort] Hstep.
  destruct a as [w | i |]; simpl in Hstep.
  - injection Hstep as <-. split; simpl; eauto.
  - destruct (nth_error (d_queue st) i) as [[|x q]|]; try discriminate.
    destruct (d_pending st); try discriminate.
    injection Hstep as <-. split; simpl; eauto.
  - destruct (d_pending st) as [|x t] eqn:Hp; try discriminate.
    injection Hstep as <-. unfold compare1.
    destruct (d_best st <=? x) eqn:Hle; split; simpl; eauto.
    apply Z.leb_gt in Hle.
    constructor; [exact Hsort|]. rewrite Hout. constructor. exact Hle.
Qed.

Lemma out_inv_run : forall sched st, out_inv st -> out_inv (drun st sched).
Proof.
  induction sched as [|a rest IH]; intros st Hinv; simpl.
  - exact Hinv.
  - destruct (dstep st a) as [st'|] eqn:Hstep.
    + apply IH. eapply out_inv_step; eauto.
    + apply IH. exact Hinv.
Qed.

Lemma StronglySorted_snoc : forall (R : Z -> Z -> Prop) l a,
  StronglySorted R l -> Forall (fun x => R x a) l -> StronglySorted R (l ++ [a]).
Proof.
  intros R l a Hs. induction Hs as [|x l Hs IH Hx]; intros Hall; simpl.
  - repeat constructor.
  - inversion Hall as [|? ? Hxa Hla]; subst.
    constructor.
    + apply IH. exact Hla.
    + apply Forall_app. split; [exact Hx | constructor; [exact Hxa | constructor]].
Qed.

Lemma StronglySorted_rev : forall (R : Z -> Z -> Prop) l,
  StronglySorted R l -> StronglySorted (fun a b => R b a) (rev l).
Proof.
  intros R l Hs. induction Hs as [|x l Hs IH Hx]; simpl.
  - constructor.
  - apply StronglySorted_snoc; [exact IH|].
    apply Forall_rev. exact Hx.
Qed.

Lemma C13_out_decreasing_proof : forall s0 sched,
  let st := drun (dinit s0) sched in
  StronglySorted Z.gt (rev (d_out st)) /\ d_best st = hd s0 (d_out st).
Proof.
  intros s0 sched st.
  destruct (out_inv_run sched (dinit s0) (out_inv_init s0)) as [[rest Hout] Hsort].
  fold st in Hout, Hsort. split.
  - apply Sorted_StronglySorted in Hsort.
    + apply StronglySorted_rev in Hsort.
      eapply StronglySorted_ind with (P := fun l => StronglySorted Z.gt l) in Hsort.
      * exact Hsort.
      * constructor.
      * intros a l _ IH Hall. constructor; [exact IH|].
        eapply Forall_impl; [|exact Hall]. intros b Hb. simpl in Hb. lia.
    + intros x y z Hxy Hyz. lia.
  - rewrite Hout. reflexivity.
Qed.

(* ------------------------------------------------------------------ *)
(* Once every worker has started, the final best is the minimum        *)
(* ------------------------------------------------------------------ *)

(* the minimum of the best and of everything still pending or queued *)
Definition dmin (st : dstate) : Z :=
  fold_left Z.min (d_pending st ++ concat (d_queue st)) (d_best st).

Lemma fold_min_perm : forall l l', Permutation l l' ->
  forall b, fold_left Z.min l b = fold_left Z.min l' b.
Proof.
  intros l l' Hp. induction Hp as [| x l l' Hp IH | x y l | l l' l'' H1 IH1 H2 IH2]; intros b; simpl.
  - reflexivity.
  - apply IH.
  - f_equal. lia.
  - rewrite IH1. apply IH2.
Qed.

Lemma set_q_perm : forall qs i x q,
  nth_error qs i = Some (x :: q) ->
  Permutation (concat qs) (x :: concat (set_q qs i q)).
Proof.
  induction qs as [|h t IH]; intros i x q Hn.
  - destruct i; discriminate.
  - destruct i as [|k]; simpl in Hn.
    + injection Hn as ->. simpl. apply Permutation_refl.
    + simpl. specialize (IH k x q Hn).
      eapply Permutation_trans.
      * apply Permutation_app_head. exact IH.
      * apply Permutation_sym. apply (Permutation_middle h (concat (set_q t k q)) x).
Qed.

Lemma dmin_step : forall st a st',
  is_start a = false -> dstep st a = Some st' -> dmin st' = dmin st.
Proof.
  intros st a st' Hns Hstep.
  destruct a as [w | i |]; simpl in Hns, Hstep; try discriminate.
  - destruct (nth_error (d_queue st) i) as [[|x q]|] eqn:Hn; try discriminate.
    destruct (d_pending st) as [|y t] eqn:Hp; try discriminate.
    injection Hstep as <-. unfold dmin. rewrite Hp. simpl.
    symmetry. apply (fold_min_perm _ _ (set_q_perm _ _ _ _ Hn)).
  - destruct (d_pending st) as [|x t] eqn:Hp; try discriminate.
    injection Hstep as <-. unfold dmin, compare1. rewrite Hp.
    destruct (d_best st <=? x) eqn:Hle; simpl.
    + apply Z.leb_le in Hle. f_equal. lia.
    + apply Z.leb_gt in Hle. f_equal. lia.
Qed.

Lemma dmin_run : forall sched st,
  no_start sched = true -> dmin (drun st sched) = dmin st.
Proof.
  induction sched as [|a rest IH]; intros st Hns; simpl.
  - reflexivity.
  - simpl in Hns. apply andb_true_iff in Hns. destruct Hns as [Ha Hrest].
    apply negb_true_iff in Ha.
    destruct (dstep st a) as [st'|] eqn:Hstep.
    + rewrite (IH st' Hrest). eapply dmin_step; eauto.
    + apply IH. exact Hrest.
Qed.

Lemma cycle_done_concat : forall qs,
  forallb (fun q : list Z => match q with [] => true | _ => false end) qs = true ->
  concat qs = [].
Proof.
  induction qs as [|q t IH]; intros H; simpl in *.
  - reflexivity.
  - apply andb_true_iff in H. destruct H as [Hq Ht].
    destruct q; try discriminate. simpl. apply IH. exact Ht.
Qed.

Lemma quiescent_spec : forall st,
  quiescent st = true -> d_pending st = [] /\ concat (d_queue st) = [].
Proof.
  intros st H. unfold quiescent in H. apply andb_true_iff in H.
  destruct H as [Hd Hp]. split.
  - destruct (d_pending st); [reflexivity | discriminate].
  - apply cycle_done_concat. exact Hd.
Qed.

Lemma quiescent_dmin : forall st, quiescent st = true -> dmin st = d_best st.
Proof.
  intros st H. apply quiescent_spec in H. destruct H as [Hp Hq].
  unfold dmin. rewrite Hp, Hq. reflexivity.
Qed.

(* any number of workers: after the last start, a run that ends quiescent ends
   with the minimum of everything that was in flight *)
Lemma C13_drain_min_proof : forall st sched,
  no_start sched = true ->
  quiescent (drun st sched) = true ->
  d_best (drun st sched) = dmin st.
Proof.
  intros st sched Hns Hq.
  rewrite <- (quiescent_dmin _ Hq). apply dmin_run. exact Hns.
Qed.

(* ------------------------------------------------------------------ *)
(* One worker per cycle                                                *)
(* ------------------------------------------------------------------ *)

Lemma no_start_from_fresh : forall pre b out,
  no_start pre = true -> drun (fresh_state b out) pre = fresh_state b out.
Proof.
  induction pre as [|a rest IH]; intros b out Hns; simpl.
  - reflexivity.
  - simpl in Hns. apply andb_true_iff in Hns. destruct Hns as [Ha Hrest].
    destruct a as [w | i |]; simpl in Ha; try discriminate.
    + simpl. destruct i; simpl; apply IH; exact Hrest.
    + simpl. apply IH. exact Hrest.
Qed.

Lemma one_worker_run : forall w sched b out,
  one_worker_sched w sched ->
  exists post, no_start post = true /\
    drun (fresh_state b out) sched = drun (mkD b [] [w b] out) post.
Proof.
  intros w sched b out (pre & post & -> & Hpre & Hpost).
  exists post. split; [exact Hpost|].
  rewrite drun_app, (no_start_from_fresh pre b out Hpre). reflexivity.
Qed.

Lemma one_worker_best : forall w sched b out,
  one_worker_sched w sched ->
  quiescent (drun (fresh_state b out) sched) = true ->
  d_best (drun (fresh_state b out) sched) = fold_left Z.min (w b) b.
Proof.
  intros w sched b out Hone Hq.
  destruct (one_worker_run w sched b out Hone) as (post & Hpost & Hrun).
  rewrite Hrun in *.
  rewrite (C13_drain_min_proof _ _ Hpost Hq).
  unfold dmin. simpl. rewrite app_nil_r. reflexivity.
Qed.

(* what the aggregator does with a sequence of results: best and channel *)
Fixpoint agg (b : Z) (out : list Z) (l : list Z) : Z * list Z :=
  match l with
  | [] => (b, out)
  | x :: r => if b <=? x then agg b out r else agg x (x :: out) r
  end.

Definition dagg (st : dstate) : Z * list Z :=
  agg (d_best st) (d_out st) (d_pending st ++ concat (d_queue st)).

Lemma dagg_step : forall st a st',
  length (d_queue st) = 1%nat -> is_start a = false -> dstep st a = Some st' ->
  dagg st' = dagg st /\ length (d_queue st') = 1%nat.
Proof.
  intros st a st' Hlen Hns Hstep.
  destruct (d_queue st) as [|q0 [|q1 t]] eqn:Hq; try discriminate.
  destruct a as [w | i |]; simpl in Hns, Hstep; try discriminate.
  - rewrite Hq in Hstep.
    destruct i as [|k]; simpl in Hstep.
    + destruct q0 as [|x q]; try discriminate.
      destruct (d_pending st) as [|y t] eqn:Hp; try discriminate.
      injection Hstep as <-. unfold dagg. simpl. rewrite Hp, Hq. simpl.
      split; reflexivity.
    + destruct k; discriminate.
  - destruct (d_pending st) as [|x t] eqn:Hp; try discriminate.
    injection Hstep as <-. unfold dagg, compare1. rewrite Hp.
    destruct (d_best st <=? x) eqn:Hle; simpl; rewrite Hle, Hq; split; reflexivity.
Qed.

Lemma dagg_run : forall sched st,
  length (d_queue st) = 1%nat -> no_start sched = true ->
  dagg (drun st sched) = dagg st.
Proof.
  induction sched as [|a rest IH]; intros st Hlen Hns; simpl.
  - reflexivity.
  - simpl in Hns. apply andb_true_iff in Hns. destruct Hns as [Ha Hrest].
    apply negb_true_iff in Ha.
    destruct (dstep st a) as [st'|] eqn:Hstep.
    + destruct (dagg_step st a st' Hlen Ha Hstep) as [Hd Hl].
      rewrite (IH st' Hl Hrest). exact Hd.
    + apply IH; assumption.
Qed.

Lemma quiescent_dagg : forall st,
  quiescent st = true -> dagg st = (d_best st, d_out st).
Proof.
  intros st H. apply quiescent_spec in H. destruct H as [Hp Hq].
  unfold dagg. rewrite Hp, Hq. reflexivity.
Qed.

Lemma one_worker_agg : forall w sched b out,
  one_worker_sched w sched ->
  quiescent (drun (fresh_state b out) sched) = true ->
  (d_best (drun (fresh_state b out) sched), d_out (drun (fresh_state b out) sched))
  = agg b out (w b).
Proof.
  intros w sched b out Hone Hq.
  destruct (one_worker_run w sched b out Hone) as (post & Hpost & Hrun).
  rewrite Hrun in *.
  rewrite <- (quiescent_dagg _ Hq).
  rewrite (dagg_run post (mkD b [] [w b] out) eq_refl Hpost).
  unfold dagg. simpl. rewrite app_nil_r. reflexivity.
Qed.

Lemma C13_single_run_single_cycle_proof : forall s0 w sched,
  one_worker_sched w sched ->
  quiescent (drun (dinit s0) sched) = true ->
  d_best (drun (dinit s0) sched) = fold_left Z.min (w s0) s0.
Proof.
  intros s0 w sched Hone Hq.
  exact (one_worker_best w sched s0 [s0] Hone Hq).
Qed.

(* also the sequence of improving solutions sent on the channel is fixed *)
Lemma C13_single_cycle_out_proof : forall s0 w sched,
  one_worker_sched w sched ->
  quiescent (drun (dinit s0) sched) = true ->
  d_out (drun (dinit s0) sched) = snd (agg s0 [s0] (w s0)).
Proof.
  intros s0 w sched Hone Hq.
  rewrite <- (one_worker_agg w sched s0 [s0] Hone Hq). reflexivity.
Qed.

Lemma one_worker_sched_app : forall w sched tail,
  one_worker_sched w sched -> no_start tail = true ->
  one_worker_sched w (sched ++ tail).
Proof.
  intros w sched tail (pre & post & -> & Hpre & Hpost) Htail.
  exists pre, (post ++ tail). repeat split.
  - rewrite <- app_assoc. reflexivity.
  - exact Hpre.
  - rewrite no_start_app, Hpost, Htail. reflexivity.
Qed.

Lemma C13_quiescent_cycle_deterministic_proof : forall s0 w1 c1 c1',
  one_worker_sched w1 c1 -> one_worker_sched w1 c1' ->
  quiescent (drun (dinit s0) c1) = true ->
  quiescent (drun (dinit s0) c1') = true ->
  let b1 := fold_left Z.min (w1 s0) s0 in
  d_best (drun (dinit s0) c1) = b1 /\
  d_best (drun (dinit s0) c1') = b1 /\
  (forall c2, two_cycles s0 c1 c2 = two_cycles s0 c1' c2) /\
  (forall w2 c2, one_worker_sched w2 c2 ->
     quiescent (two_cycles s0 c1 c2) = true ->
     d_best (two_cycles s0 c1 c2) = fold_left Z.min (w2 b1) b1).
Proof.
  intros s0 w1 c1 c1' H1 H1' Hq Hq' b1.
  pose proof (C13_single_run_single_cycle_proof s0 w1 c1 H1 Hq) as Hb.
  pose proof (C13_single_run_single_cycle_proof s0 w1 c1' H1' Hq') as Hb'.
  pose proof (one_worker_agg w1 c1 s0 [s0] H1 Hq) as Ha.
  pose proof (one_worker_agg w1 c1' s0 [s0] H1' Hq') as Ha'.
  change (fresh_state s0 [s0]) with (dinit s0) in Ha, Ha'.
  destruct (quiescent_spec _ Hq) as [Hp _].
  destruct (quiescent_spec _ Hq') as [Hp' _].
  assert (Hsame : forall c2, two_cycles s0 c1 c2 = two_cycles s0 c1' c2).
  { intros c2. unfold two_cycles. rewrite Hp, Hp'.
    rewrite <- Ha' in Ha. injection Ha as -> ->. reflexivity. }
  repeat split; try assumption.
  intros w2 c2 H2 Hq2. unfold two_cycles in *.
  rewrite Hp in *. rewrite Hb in *. fold b1 in Hq2 |- *.
  apply (one_worker_best w2 _ b1 (d_out (drun (dinit s0) c1))).
  - apply one_worker_sched_app; [exact H2 | reflexivity].
  - exact Hq2.
Qed.

(* ------------------------------------------------------------------ *)
(* The barrier is weaker than quiescence                               *)
(* ------------------------------------------------------------------ *)

Definition w_dec : worker := fun s => [s - 1].

Lemma C13_barrier_is_not_quiescence_refuted_proof :
  exists (s0 : Z) (w : worker) (c1 c2 c2' : list dact),
    one_worker_sched w c1 /\ one_worker_sched w c2 /\ one_worker_sched w c2' /\
    cycle_done (drun (dinit s0) c1) = true /\
    quiescent (drun (dinit s0) c1) = false /\
    d_best (two_cycles s0 c1 c2) <> d_best (two_cycles s0 c1 c2').
Proof.
  exists 10, w_dec, [DStart w_dec; DForward 0%nat].
  (* the aggregator compares the last result of cycle 1 before / after the
     worker of cycle 2 reads bestSolution *)
  exists [DCompare; DStart w_dec; DForward 0%nat; DCompare].
  exists [DStart w_dec; DCompare; DForward 0%nat; DCompare].
  split; [|split; [|split; [|split; [|split]]]].
  - exists [], [DForward 0%nat]. repeat split.
  - exists [DCompare], [DForward 0%nat; DCompare]. repeat split.
  - exists [], [DCompare; DForward 0%nat; DCompare]. repeat split.
  - vm_compute. reflexivity.
  - vm_compute. reflexivity.
  - vm_compute. discriminate.
Qed.

(* the same witness in detail: the barrier is passed, the state is not
   quiescent, both second cycles are one-worker cycles that end quiescent, and
   the final bests are 8 and 9 *)
Example C13_barrier_witness_detail :
  let c1 := [DStart w_dec; DForward 0] in
  let c2 := [DCompare; DStart w_dec; DForward 0; DCompare] in
  let c2' := [DStart w_dec; DCompare; DForward 0; DCompare] in
  cycle_done (drun (dinit 10) c1) = true /\
  quiescent (drun (dinit 10) c1) = false /\
  quiescent (two_cycles 10 c1 c2) = true /\
  quiescent (two_cycles 10 c1 c2') = true /\
  d_best (two_cycles 10 c1 c2) = 8 /\
  d_best (two_cycles 10 c1 c2') = 9.
Proof. vm_compute. repeat split; reflexivity. Qed.

(* Limitation (C13_two_workers_tie): the model only carries scores.  Two
   workers of ONE cycle that both produce a solution of score 5 from s0 = 9:
   whichever is forwarded first becomes bestSolution in the Go code (the
   second does not improve on it), so WHICH route is kept depends on the
   forwarding order; in this model both schedules give the same state, the
   difference is not observable here and no theorem is stated about it. *)
Definition w_five : worker := fun _ => [5].
Example C13_two_workers_tie_indistinguishable :
  let sa := [DStart w_five; DStart w_five; DForward 0; DCompare; DForward 1; DCompare] in
  let sb := [DStart w_five; DStart w_five; DForward 1; DCompare; DForward 0; DCompare] in
  d_out (drun (dinit 9) sa) = [5; 9] /\ d_out (drun (dinit 9) sb) = [5; 9] /\
  quiescent (drun (dinit 9) sa) = true /\ quiescent (drun (dinit 9) sb) = true.
Proof. vm_compute. repeat split; reflexivity. Qed.

(* ------------------------------------------------------------------ *)
(* Non-vacuity                                                         *)
(* ------------------------------------------------------------------ *)

Definition w_three : worker := fun s => [s - 1; s - 3; s - 2].

Definition sched_plain : list dact :=
  [DStart w_three; DForward 0; DCompare; DForward 0; DCompare; DForward 0; DCompare].
(* the same with actions that are not enabled sprinkled in *)
Definition sched_noisy : list dact :=
  [DCompare; DForward 0; DStart w_three; DForward 1; DForward 0; DForward 0; DCompare;
   DCompare; DForward 0; DCompare; DForward 0; DForward 3; DCompare; DCompare].

Example C13_ex_one_worker_plain : one_worker_sched w_three sched_plain.
Proof. exists [], (tl sched_plain). repeat split. Qed.

Example C13_ex_one_worker_noisy : one_worker_sched w_three sched_noisy.
Proof.
  exists [DCompare; DForward 0%nat].
  exists [DForward 1%nat; DForward 0%nat; DForward 0%nat; DCompare;
          DCompare; DForward 0%nat; DCompare; DForward 0%nat; DForward 3%nat; DCompare; DCompare].
  repeat split.
Qed.

Example C13_ex_quiescent :
  quiescent (drun (dinit 20) sched_plain) = true /\
  quiescent (drun (dinit 20) sched_noisy) = true /\
  d_best (drun (dinit 20) sched_plain) = 17 /\
  d_out (drun (dinit 20) sched_noisy) = [17; 19; 20] /\
  fold_left Z.min (w_three 20) 20 = 17.
Proof. vm_compute. repeat split; reflexivity. Qed.

Example C13_ex_second_cycle :
  quiescent (two_cycles 20 sched_noisy sched_plain) = true /\
  d_best (two_cycles 20 sched_noisy sched_plain) = 14.
Proof. vm_compute. repeat split; reflexivity. Qed.
