(* Order of a unit's stops on its route (the "ordered" part of C03).

   Model/Engine.v executes whatever placement a move carries; the order of a
   unit's stops (precedes / succeeds, direct adjacency) is established by the
   move generators (Model/Search.v): they only build placements that follow an
   allowed order of the unit and never use a gap between two stops that must
   stay direct neighbours.  This file proves that the engine PRESERVES the
   order when every executed move is of that kind:

     route_ordered / ordered   the property (per unit, per vehicle)
     move_ordered              what the generators guarantee about a move
     exec_move_ordered         exec_move preserves [ordered]   (any result)
     unplan_unit_ordered       unplan_unit preserves [ordered] (any result)
     new_solution_ordered      the start solution is [ordered]
     run_ordered               every state of an order-respecting history
     generated_move_ordered    placement_ok + order_ok  ==>  move_ok /\ move_ordered

   Extra input hypothesis (not part of wf_input): [wf_arcs], the endpoints of a
   unit's arcs are stops of that unit (units are the connected components of
   the precedence graph).  Without it the statements are false: an arc
   (x, x, false) with x a vehicle's first stop is violated by every route. *)

From Coq Require Import List ZArith Bool Arith Lia Permutation Sorted.
From NR Require Import Model.Engine Model.Search Proofs.Engine_lists Proofs.Engine_inv
                       Proofs.Engine_spec Proofs.Search_proofs.
Import ListNotations.
Local Open Scope nat_scope.

(* ================================================================== *)
(* Definitions                                                         *)
(* ================================================================== *)

(* the endpoints of the arcs of a unit are stops of the unit *)
Definition wf_arcs (inp : input) : Prop :=
  forall u, u < nunits inp -> forall a b d,
    In (a, b, d) (iu_arcs (get_unit inp u)) ->
    In a (iu_stops (get_unit inp u)) /\ In b (iu_stops (get_unit inp u)).

(* position = [index_of] of Model/Search.v (first occurrence; routes are
   duplicate-free, see route_NoDup) *)
Definition route_ordered (arcs : list (nat * nat * bool)) (r : list nat) : Prop :=
  forall a b d, In (a, b, d) arcs -> In a r -> In b r ->
    index_of a r < index_of b r /\ (d = true -> index_of b r = S (index_of a r)).

Definition ordered (inp : input) (s : state) : Prop :=
  forall u v, u < nunits inp -> v < nveh inp ->
    route_ordered (iu_arcs (get_unit inp u)) (route_stops (get_route s v)).

(* (x, y) is a direct arc *)
Definition direct_pair (arcs : list (nat * nat * bool)) (x y : nat) : bool :=
  existsb (fun a => let '(o, d, dir) := a in dir && Nat.eqb o x && Nat.eqb d y) arcs.

(* the [pair] argument of generate / placement_ok: stops k and k+1 of the order
   being placed are a direct pair of the unit *)
Definition pair_of (arcs : list (nat * nat * bool)) (od : list nat) (k : nat) : bool :=
  direct_pair arcs (nth k od 0) (nth (S k) od 0).

(* the [split] argument of generate / placement_ok: gap g (directly before the
   stop at route position g) lies between two stops that are a direct pair of
   some unit *)
Definition split_of (inp : input) (r : list nat) (g : nat) : bool :=
  existsb (fun u => direct_pair (iu_arcs u) (nth (g - 1) r 0) (nth g r 0)) (in_units inp).

(* an order-respecting move, for the state it is executed on:
   (i)   the stops are listed in an allowed order of the unit,
   (ii)  the two stops of a direct arc (neighbours in that order) go into the same gap,
   (iii) no gap used separates a direct pair already on the route *)
Definition move_ordered (inp : input) (s : state) (mv : move) : Prop :=
  let arcs := iu_arcs (get_unit inp (mv_unit mv)) in
  let od := map fst (mv_places mv) in
  let gaps := map snd (mv_places mv) in
  let r := route_stops (get_route s (mv_vehicle mv)) in
  order_ok arcs od = true /\
  pairs_together (pair_of arcs od) 0 gaps = true /\
  forallb (fun g => negb (split_of inp r g)) gaps = true.

Definition op_ordered (inp : input) (s : state) (o : op) : Prop :=
  match o with OpPlan mv => move_ordered inp s mv | OpUnplan _ => True end.

(* like [fresh]; additionally every planned move is order-respecting for the
   state it is executed on *)
Fixpoint fresh_ordered (inp : input) (s : state) (h : list op) : Prop :=
  match h with
  | [] => True
  | o :: h' => op_ok inp s o /\ op_ordered inp s o /\ fresh_ordered inp (fst (step inp s o)) h'
  end.

Definition reachable_ordered (inp : input) (s : state) : Prop :=
  exists s0 h, new_solution inp = Some s0 /\ fresh_ordered inp s0 h /\ In s (run inp s0 h).

(* ================================================================== *)
(* List facts                                                          *)
(* ================================================================== *)

Lemma direct_pair_true (arcs : list (nat * nat * bool)) (x y : nat) :
  direct_pair arcs x y = true <-> In (x, y, true) arcs.
Proof.
  unfold direct_pair. rewrite existsb_exists. split.
  - intros ([[o d] dir] & Hin & H).
    apply andb_true_iff in H. destruct H as (H & Hd).
    apply andb_true_iff in H. destruct H as (Hdir & Ho).
    apply Nat.eqb_eq in Ho. apply Nat.eqb_eq in Hd. subst. exact Hin.
  - intros Hin. exists (x, y, true). split; [exact Hin|].
    rewrite !Nat.eqb_refl. reflexivity.
Qed.

Lemma filter_none {A} (f : A -> bool) (l : list A) :
  (forall x, In x l -> f x = false) -> filter f l = [].
Proof.
  induction l as [|a l IH]; intros H; [reflexivity|]. cbn [filter].
  rewrite (H a (or_introl eq_refl)). apply IH. intros x Hx. apply H. right; exact Hx.
Qed.

Lemma filter_all {A} (f : A -> bool) (l : list A) :
  (forall x, In x l -> f x = true) -> filter f l = l.
Proof.
  induction l as [|a l IH]; intros H; [reflexivity|]. cbn [filter].
  rewrite (H a (or_introl eq_refl)). f_equal. apply IH. intros x Hx. apply H. right; exact Hx.
Qed.

(* filtering keeps the relative order of the elements that stay *)
Lemma index_of_filter_lt (f : nat -> bool) (x y : nat) :
  f x = true -> f y = true ->
  forall l, index_of x (filter f l) < index_of y (filter f l) <-> index_of x l < index_of y l.
Proof.
  intros Hx Hy. induction l as [|h t IH]; [reflexivity|].
  cbn [filter]. destruct (f h) eqn:Eh.
  - cbn [index_of]. destruct (Nat.eqb x h), (Nat.eqb y h); try lia.
  - cbn [index_of].
    destruct (Nat.eqb_spec x h) as [->|Hxh]; [congruence|].
    destruct (Nat.eqb_spec y h) as [->|Hyh]; [congruence|]. lia.
Qed.

(* ... and keeps neighbours that both stay neighbours *)
Lemma index_of_filter_succ (f : nat -> bool) (a b : nat) :
  f a = true -> f b = true ->
  forall l, In b l -> index_of b l = S (index_of a l) ->
    index_of b (filter f l) = S (index_of a (filter f l)).
Proof.
  intros Ha Hb. induction l as [|h t IH]; intros Hin Hidx; [destruct Hin|].
  cbn [index_of] in Hidx.
  destruct (Nat.eqb_spec a h) as [Eah|Nah], (Nat.eqb_spec b h) as [Ebh|Nbh]; try discriminate.
  - (* a is the head, b directly follows *)
    subst h. injection Hidx as Hidx.
    destruct Hin as [Hin|Hin]; [congruence|].
    destruct t as [|c t']; [destruct Hin|].
    apply index_of_head in Hidx. subst c.
    cbn [filter]. rewrite Ha, Hb. cbn [index_of]. rewrite Nat.eqb_refl.
    destruct (Nat.eqb_spec b a) as [E|_]; [congruence|]. rewrite Nat.eqb_refl. reflexivity.
  - injection Hidx as Hidx.
    destruct Hin as [Hin|Hin]; [congruence|].
    specialize (IH Hin Hidx).
    cbn [filter]. destruct (f h); [|exact IH].
    cbn [index_of].
    destruct (Nat.eqb_spec a h) as [E|_]; [congruence|].
    destruct (Nat.eqb_spec b h) as [E|_]; [congruence|]. rewrite IH. reflexivity.
Qed.

Lemma index_of_adj (l1 l2 : list nat) (a b : nat) :
  NoDup (l1 ++ a :: b :: l2) ->
  index_of b (l1 ++ a :: b :: l2) = S (index_of a (l1 ++ a :: b :: l2)).
Proof.
  intros Hnd. apply NoDup_app_iff in Hnd. destruct Hnd as (_ & Hr & Hd).
  assert (Ha : ~ In a l1) by (intros H; exact (Hd a H (or_introl eq_refl))).
  assert (Hb : ~ In b l1) by (intros H; exact (Hd b H (or_intror (or_introl eq_refl)))).
  assert (Hab : b <> a).
  { intros ->. inversion Hr as [|x l Hn _]; subst. apply Hn. left; reflexivity. }
  rewrite (index_of_app_notin a l1 _ Ha), (index_of_app_notin b l1 _ Hb).
  cbn [index_of]. rewrite !Nat.eqb_refl.
  destruct (Nat.eqb_spec b a) as [E|_]; [congruence|]. lia.
Qed.

Lemma split_at_two {A} (d : A) :
  forall (k : nat) (l : list A), S k < length l ->
    l = firstn k l ++ nth k l d :: nth (S k) l d :: skipn (S (S k)) l.
Proof.
  induction k as [|k IH]; intros l Hk.
  - destruct l as [|x [|y l]]; simpl in Hk; try lia. reflexivity.
  - destruct l as [|x l]; simpl in Hk; [lia|].
    cbn [firstn nth skipn]. rewrite <- app_comm_cons. f_equal. apply IH. lia.
Qed.

Lemma pairs_together_nth (pair : nat -> bool) :
  forall (l : list nat) (k0 i : nat),
    pairs_together pair k0 l = true -> S i < length l -> pair (k0 + i) = true ->
    nth i l 0 = nth (S i) l 0.
Proof.
  induction l as [|a l IH]; intros k0 i Hp Hi Hpair; [simpl in Hi; lia|].
  destruct l as [|b l]; [simpl in Hi; lia|].
  change (pairs_together pair k0 (a :: b :: l))
    with ((negb (pair k0) || Nat.eqb a b) && pairs_together pair (S k0) (b :: l)) in Hp.
  apply andb_true_iff in Hp. destruct Hp as (Hh & Ht).
  destruct i as [|i].
  - rewrite Nat.add_0_r in Hpair. rewrite Hpair in Hh. cbn [negb orb] in Hh.
    apply Nat.eqb_eq in Hh. exact Hh.
  - change (nth (S i) (a :: b :: l) 0) with (nth i (b :: l) 0).
    change (nth (S (S i)) (a :: b :: l) 0) with (nth (S i) (b :: l) 0).
    apply (IH (S k0) i Ht); [simpl in Hi |- *; lia|].
    replace (S k0 + i) with (k0 + S i) by lia. exact Hpair.
Qed.

(* ------------------------------------------------------------------ *)
(* sorted gaps                                                         *)
(* ------------------------------------------------------------------ *)

Definition gap_le (p q : nat * nat) : Prop := snd p <= snd q.

Lemma gaps_strongly_sorted (places : list (nat * nat)) :
  Sorted le (map snd places) -> StronglySorted gap_le places.
Proof.
  intros Hs. apply Sorted_StronglySorted in Hs; [|intros a b c; lia].
  induction places as [|p l IH]; [constructor|].
  cbn [map] in Hs. inversion Hs as [|a m Hss Hall]; subst.
  constructor; [exact (IH Hss)|].
  rewrite Forall_map in Hall. exact Hall.
Qed.

Lemma StronglySorted_filter {A} (R : A -> A -> Prop) (f : A -> bool) (l : list A) :
  StronglySorted R l -> StronglySorted R (filter f l).
Proof.
  induction 1 as [|a l Hss IH Hall]; cbn [filter]; [constructor|].
  destruct (f a); [|exact IH]. constructor; [exact IH|].
  rewrite Forall_forall in *. intros x Hx. apply filter_In in Hx. exact (Hall x (proj1 Hx)).
Qed.

(* with sorted gaps not before [pos], the stops for gap [pos] are a prefix *)
Lemma sorted_here_later (pos : nat) (places : list (nat * nat)) :
  StronglySorted gap_le places -> Forall (fun p => pos <= snd p) places ->
  places = filter (fun p => Nat.eqb (snd p) pos) places
           ++ filter (fun p => negb (Nat.eqb (snd p) pos)) places.
Proof.
  induction 1 as [|p l Hss IH Hall]; intros Hge; [reflexivity|].
  inversion Hge as [|p' l' Hp Hl]; subst.
  destruct (Nat.eqb_spec (snd p) pos) as [E|Hne].
  - cbn [filter]. rewrite (proj2 (Nat.eqb_eq _ _) E). cbn [negb].
    rewrite <- app_comm_cons. f_equal. exact (IH Hl).
  - assert (Hgt : Forall (fun q => pos < snd q) (p :: l)).
    { constructor; [lia|]. rewrite Forall_forall in *. intros q Hq.
      specialize (Hall q Hq). unfold gap_le in Hall. lia. }
    rewrite (filter_gap_eq_none pos _ Hgt), (filter_gap_ne_all pos _ Hgt). reflexivity.
Qed.

(* ------------------------------------------------------------------ *)
(* insert_places                                                       *)
(* ------------------------------------------------------------------ *)

(* the route is a subsequence of the result *)
Lemma insert_places_filter_route (f : nat -> bool) :
  forall (route : list nat) (pos : nat) (places : list (nat * nat)),
    (forall x, In x route -> f x = true) ->
    (forall p, In p places -> f (fst p) = false) ->
    filter f (insert_places pos route places) = route.
Proof.
  induction route as [|x rest IH]; intros pos places Hr Hp.
  - cbn [insert_places]. apply filter_none. intros y Hy.
    apply in_map_iff in Hy. destruct Hy as (p & <- & Hin). exact (Hp p Hin).
  - cbn [insert_places]. rewrite filter_app. cbn [filter].
    rewrite (Hr x (or_introl eq_refl)).
    rewrite filter_none.
    + cbn [app]. f_equal. apply IH.
      * intros y Hy. apply Hr. right; exact Hy.
      * intros p Hin. apply filter_In in Hin. exact (Hp p (proj1 Hin)).
    + intros y Hy. apply in_map_iff in Hy. destruct Hy as (p & <- & Hin).
      apply filter_In in Hin. exact (Hp p (proj1 Hin)).
Qed.

(* with sorted gaps the inserted stops appear in list order *)
Lemma insert_places_filter_places (f : nat -> bool) :
  forall (route : list nat) (pos : nat) (places : list (nat * nat)),
    StronglySorted gap_le places -> Forall (fun p => pos <= snd p) places ->
    (forall x, In x route -> f x = false) ->
    (forall p, In p places -> f (fst p) = true) ->
    filter f (insert_places pos route places) = map fst places.
Proof.
  induction route as [|x rest IH]; intros pos places Hss Hge Hr Hp.
  - cbn [insert_places]. apply filter_all. intros y Hy.
    apply in_map_iff in Hy. destruct Hy as (p & <- & Hin). exact (Hp p Hin).
  - cbn [insert_places]. rewrite filter_app. cbn [filter].
    rewrite (Hr x (or_introl eq_refl)).
    rewrite filter_all.
    + rewrite IH.
      * rewrite <- map_app. rewrite <- (sorted_here_later pos places Hss Hge). reflexivity.
      * apply StronglySorted_filter. exact Hss.
      * rewrite Forall_forall in *. intros p Hin. apply filter_In in Hin.
        destruct Hin as (Hin & Hne). specialize (Hge p Hin).
        apply negb_true_iff, Nat.eqb_neq in Hne. lia.
      * intros y Hy. apply Hr. right; exact Hy.
      * intros p Hin. apply filter_In in Hin. exact (Hp p (proj1 Hin)).
    + intros y Hy. apply in_map_iff in Hy. destruct Hy as (p & <- & Hin).
      apply filter_In in Hin. exact (Hp p (proj1 Hin)).
Qed.

(* two route neighbours stay neighbours when the gap between them is not used *)
Lemma insert_places_succ_route (a b : nat) :
  forall (route : list nat) (pos : nat) (places : list (nat * nat)),
    (forall p, In p places -> fst p <> a /\ fst p <> b) ->
    In b route -> index_of b route = S (index_of a route) ->
    (forall p, In p places -> snd p <> pos + index_of b route) ->
    index_of b (insert_places pos route places) = S (index_of a (insert_places pos route places)).
Proof.
  induction route as [|h t IH]; intros pos places Hd Hb Hidx Hgap; [destruct Hb|].
  cbn [insert_places].
  set (here := filter (fun p => Nat.eqb (snd p) pos) places).
  set (later := filter (fun p => negb (Nat.eqb (snd p) pos)) places).
  assert (Hlater : forall p, In p later -> In p places).
  { intros p Hp. unfold later in Hp. apply filter_In in Hp. exact (proj1 Hp). }
  assert (Hna : ~ In a (map fst here)).
  { intros H. apply in_map_iff in H. destruct H as (p & Hp & Hin).
    unfold here in Hin. apply filter_In in Hin. exact (proj1 (Hd p (proj1 Hin)) Hp). }
  assert (Hnb : ~ In b (map fst here)).
  { intros H. apply in_map_iff in H. destruct H as (p & Hp & Hin).
    unfold here in Hin. apply filter_In in Hin. exact (proj2 (Hd p (proj1 Hin)) Hp). }
  rewrite (index_of_app_notin a _ _ Hna), (index_of_app_notin b _ _ Hnb).
  cbn [index_of] in Hidx, Hgap |- *.
  destruct (Nat.eqb_spec a h) as [Eah|Nah], (Nat.eqb_spec b h) as [Ebh|Nbh]; try discriminate.
  - (* a is the head of the route, b the next stop *)
    injection Hidx as Hidx.
    destruct Hb as [Hb|Hb]; [congruence|].
    destruct t as [|c t']; [destruct Hb|].
    apply index_of_head in Hidx. subst c.
    cbn [insert_places].
    assert (Hnone : filter (fun p => Nat.eqb (snd p) (S pos)) later = []).
    { apply filter_none. intros p Hp. apply Nat.eqb_neq.
      specialize (Hgap p (Hlater p Hp)). cbn [index_of] in Hgap.
      rewrite Nat.eqb_refl in Hgap. lia. }
    rewrite Hnone. cbn [map app index_of]. rewrite Nat.eqb_refl. lia.
  - injection Hidx as Hidx.
    destruct Hb as [Hb|Hb]; [congruence|].
    rewrite (IH (S pos) later).
    + lia.
    + intros p Hp. exact (Hd p (Hlater p Hp)).
    + exact Hb.
    + exact Hidx.
    + intros p Hp. specialize (Hgap p (Hlater p Hp)). lia.
Qed.

(* two stops listed one after the other for the same gap end up neighbours *)
Lemma insert_places_adj_places (p q : nat * nat) :
  snd p = snd q ->
  forall (route : list nat) (pos : nat) (A C : list (nat * nat)),
    exists N1 N2, insert_places pos route (A ++ p :: q :: C) = N1 ++ fst p :: fst q :: N2.
Proof.
  intros Hpq. induction route as [|x rest IH]; intros pos A C.
  - cbn [insert_places]. rewrite map_app. cbn [map].
    exists (map fst A), (map fst C). reflexivity.
  - cbn [insert_places]. rewrite !filter_app. cbn [filter]. rewrite <- Hpq.
    destruct (Nat.eqb (snd p) pos); cbn [negb].
    + rewrite map_app. cbn [map].
      eexists. eexists. rewrite <- app_assoc. cbn [app]. reflexivity.
    + destruct (IH (S pos) (filter (fun p0 => negb (Nat.eqb (snd p0) pos)) A)
                           (filter (fun p0 => negb (Nat.eqb (snd p0) pos)) C)) as (N1 & N2 & HN).
      rewrite HN.
      exists (map fst (filter (fun p0 => Nat.eqb (snd p0) pos) A ++
                        filter (fun p0 => Nat.eqb (snd p0) pos) C) ++ x :: N1), N2.
      rewrite <- app_assoc. reflexivity.
Qed.

(* ================================================================== *)
(* Facts about states                                                  *)
(* ================================================================== *)

Lemma ordered_ext (inp : input) (s s' : state) :
  st_routes s' = st_routes s -> ordered inp s -> ordered inp s'.
Proof. unfold ordered, get_route. intros ->. tauto. Qed.

Lemma route_NoDup (inp : input) (s : state) (v : nat) :
  Inv inp s -> v < nveh inp -> NoDup (route_stops (get_route s v)).
Proof.
  intros ((Hlen & Hc) & _ & _ & (Hni & _)) Hv.
  destruct (Hc v Hv) as ((mid & Hold & Hmid) & _).
  assert (Hndm : NoDup mid).
  { rewrite interior_stops_eq in Hni.
    assert (Hin : In (interior (get_route s v)) (map interior (st_routes s))).
    { apply in_map. unfold get_route. apply nth_In. rewrite Hlen. exact Hv. }
    pose proof (NoDup_concat_elem _ _ Hni Hin) as H.
    unfold interior in H. rewrite Hold in H. cbn [tl] in H. rewrite removelast_snoc in H. exact H. }
  rewrite Hold. rewrite Forall_forall in Hmid.
  pose proof (first_stop_ge inp v) as Hf. pose proof (last_stop_ge inp v) as Hl.
  constructor.
  - intros H. apply in_app_or in H. destruct H as [H|[H|[]]].
    + specialize (Hmid _ H). lia.
    + unfold first_stop, last_stop in H. lia.
  - apply NoDup_app_iff. split; [exact Hndm|]. split.
    + constructor; [intros []|constructor].
    + intros x Hx [<-|[]]. specialize (Hmid _ Hx). lia.
Qed.

Lemma unplanned_off_route (inp : input) (s : state) (u v x : nat) :
  Inv inp s -> u < nunits inp -> v < nveh inp -> unit_planned inp s u = false ->
  In x (iu_stops (get_unit inp u)) -> ~ In x (route_stops (get_route s v)).
Proof.
  intros ((Hlen & _) & _ & _ & (_ & _ & _ & _ & Hper & _)) Hu Hv Hpl Hx Hin.
  destruct (Hper u Hu) as (_ & _ & [C|C]); [congruence|].
  specialize (C x Hx).
  assert (Hon : stop_on_route s x = true).
  { apply stop_on_route_iff. exists v. rewrite Hlen. split; assumption. }
  congruence.
Qed.

Lemma exec_move_done_unplanned (inp : input) (s s' : state) (mv : move) :
  exec_move inp s mv = (s', Done) -> unit_planned inp s (mv_unit mv) = false.
Proof.
  intros H. destruct (unit_planned inp s (mv_unit mv)) eqn:E; [|reflexivity].
  unfold exec_move in H. cbv zeta in H. rewrite E in H. discriminate.
Qed.

(* ================================================================== *)
(* exec_move                                                           *)
(* ================================================================== *)

Theorem exec_move_ordered (inp : input) (s : state) (mv : move) :
  wf_input inp -> wf_arcs inp -> InvT inp s -> ordered inp s ->
  move_ok inp s mv -> move_ordered inp s mv ->
  ordered inp (fst (exec_move inp s mv)).
Proof.
  intros Hwf Hwa (HI & Ht) Hord Hok Hmo.
  destruct (exec_move inp s mv) as [s' r] eqn:E. cbn [fst].
  destruct (exec_move_core inp s s' mv r Hwf HI Hok E) as (_ & HI' & _ & Hnd & Hd).
  assert (Hsame : r <> Done -> ordered inp s').
  { intros Hr. apply (ordered_ext inp s s'); [exact (proj1 (Hnd Hr))|exact Hord]. }
  destruct r; try (apply Hsame; discriminate).
  clear Hsame Hnd. destruct (Hd eq_refl) as (Hnew & Hoth). clear Hd.
  pose proof (exec_move_done_unplanned inp s s' mv E) as Hunpl.
  destruct Hok as (Hu & Hv & Hperm & Hne & Hsorted & Hgaps).
  destruct Hmo as (Hoo & Hpt & Hsp).
  set (u := mv_unit mv) in *. set (v := mv_vehicle mv) in *.
  set (places := mv_places mv) in *.
  set (old := route_stops (get_route s v)) in *.
  set (od := map fst places) in *.
  set (N := insert_places 0 old places) in *.
  intros u' v' Hu' Hv'.
  destruct (Nat.eq_dec v' v) as [->|Hnev];
    [|rewrite (Hoth v' Hnev); exact (Hord u' v' Hu' Hv')].
  rewrite Hnew.
  assert (HndN : NoDup N).
  { rewrite <- Hnew. exact (route_NoDup inp s' v HI' Hv). }
  assert (Hod_unit : forall x, In x od <-> In x (iu_stops (get_unit inp u))).
  { intros x. split; apply Permutation_in; [exact Hperm|symmetry; exact Hperm]. }
  assert (Hoff : forall x, In x od -> ~ In x old).
  { intros x Hx. apply (unplanned_off_route inp s u v x HI Hu Hv Hunpl). apply Hod_unit. exact Hx. }
  assert (HinN : forall x, In x N <-> In x old \/ In x od).
  { intros x. unfold N. split.
    - intros H. apply (Permutation_in _ (insert_places_perm old 0 places)) in H.
      apply in_app_or in H. exact H.
    - intros H. apply (Permutation_in _ (Permutation_sym (insert_places_perm old 0 places))).
      apply in_or_app. exact H. }
  intros a b d Harc Ha Hb.
  destruct (Hwa u' Hu' a b d Harc) as (Hau & Hbu).
  destruct (Nat.eq_dec u' u) as [->|Hneu].
  - (* the arcs of the unit being planned *)
    assert (Haod : In a od) by (apply Hod_unit; exact Hau).
    assert (Hbod : In b od) by (apply Hod_unit; exact Hbu).
    destruct (order_ok_arc _ _ a b d Hoo Harc) as (Hlt & Hdir).
    split.
    + set (f := fun x => mem_nat x od).
      assert (Hfil : filter f N = od).
      { unfold N. apply insert_places_filter_places.
        - apply gaps_strongly_sorted. exact Hsorted.
        - apply Forall_forall. intros p _. lia.
        - intros x Hx. unfold f. apply mem_nat_false. intros Hxo. exact (Hoff x Hxo Hx).
        - intros p Hp. unfold f. apply mem_nat_In. unfold od. apply in_map. exact Hp. }
      apply (index_of_filter_lt f a b).
      * unfold f. apply mem_nat_In. exact Haod.
      * unfold f. apply mem_nat_In. exact Hbod.
      * rewrite Hfil. exact Hlt.
    + intros ->. specialize (Hdir eq_refl).
      set (k := index_of a od) in *.
      assert (Hklen : S k < length od).
      { rewrite <- Hdir. apply index_of_lt_In. exact Hbod. }
      assert (Hka : nth k od 0 = a) by (apply nth_index_of; exact Haod).
      assert (Hkb : nth (S k) od 0 = b) by (rewrite <- Hdir; apply nth_index_of; exact Hbod).
      assert (Hlenp : length places = length od) by (unfold od; rewrite map_length; reflexivity).
      assert (Hpair : pair_of (iu_arcs (get_unit inp u)) od k = true).
      { unfold pair_of. rewrite Hka, Hkb. apply direct_pair_true. exact Harc. }
      assert (Hsame : nth k (map snd places) 0 = nth (S k) (map snd places) 0).
      { apply (pairs_together_nth _ _ 0 k Hpt); [rewrite map_length; lia|exact Hpair]. }
      pose proof (split_at_two (0, 0) k places ltac:(lia)) as Hdec.
      set (p := nth k places (0, 0)) in *. set (q := nth (S k) places (0, 0)) in *.
      assert (Hfp : fst p = a).
      { unfold p. rewrite <- Hka. unfold od. symmetry. exact (map_nth fst places (0, 0) k). }
      assert (Hfq : fst q = b).
      { unfold q. rewrite <- Hkb. unfold od. symmetry. exact (map_nth fst places (0, 0) (S k)). }
      assert (Hpq : snd p = snd q).
      { unfold p, q.
        rewrite <- (map_nth snd places (0, 0) k), <- (map_nth snd places (0, 0) (S k)). exact Hsame. }
      destruct (insert_places_adj_places p q Hpq old 0 (firstn k places) (skipn (S (S k)) places))
        as (N1 & N2 & HN).
      rewrite <- Hdec in HN. fold N in HN. rewrite Hfp, Hfq in HN.
      rewrite HN in HndN |- *. apply index_of_adj. exact HndN.
  - (* the arcs of the other units: both stops were on the route already *)
    assert (Hna : ~ In a od).
    { intros H. apply Hod_unit in H.
      exact (units_disjoint inp u u' a Hwf Hu Hu' (fun e => Hneu (eq_sym e)) H Hau). }
    assert (Hnb : ~ In b od).
    { intros H. apply Hod_unit in H.
      exact (units_disjoint inp u u' b Hwf Hu Hu' (fun e => Hneu (eq_sym e)) H Hbu). }
    assert (Hao : In a old) by (apply HinN in Ha; tauto).
    assert (Hbo : In b old) by (apply HinN in Hb; tauto).
    destruct (Hord u' v Hu' Hv a b d Harc Hao Hbo) as (Hlt & Hdir).
    change (index_of a old < index_of b old) in Hlt.
    change (d = true -> index_of b old = S (index_of a old)) in Hdir.
    split.
    + set (f := fun x => negb (mem_nat x od)).
      assert (Hfil : filter f N = old).
      { unfold N. apply insert_places_filter_route.
        - intros x Hx. unfold f. apply negb_true_iff. apply mem_nat_false.
          intros Hxo. exact (Hoff x Hxo Hx).
        - intros p Hp. unfold f. apply negb_false_iff. apply mem_nat_In.
          unfold od. apply in_map. exact Hp. }
      apply (index_of_filter_lt f a b).
      * unfold f. apply negb_true_iff. apply mem_nat_false. exact Hna.
      * unfold f. apply negb_true_iff. apply mem_nat_false. exact Hnb.
      * rewrite Hfil. exact Hlt.
    + intros ->. specialize (Hdir eq_refl).
      unfold N. apply insert_places_succ_route.
      * intros p Hp. assert (Hfo : In (fst p) od) by (unfold od; apply in_map; exact Hp).
        split; intros E'; rewrite E' in Hfo; tauto.
      * exact Hbo.
      * exact Hdir.
      * intros p Hp Hg. cbn [Nat.add] in Hg.
        rewrite forallb_forall in Hsp.
        assert (Hing : In (snd p) (map snd places)) by (apply in_map; exact Hp).
        specialize (Hsp _ Hing). apply negb_true_iff in Hsp.
        assert (Hsplit : split_of inp old (snd p) = true).
        { unfold split_of. apply existsb_exists. exists (get_unit inp u').
          split; [apply get_unit_In; exact Hu'|].
          apply direct_pair_true. rewrite Hg, Hdir.
          replace (S (index_of a old) - 1) with (index_of a old) by lia.
          rewrite <- Hdir.
          rewrite (nth_index_of a old Hao), (nth_index_of b old Hbo). exact Harc. }
        fold old in Hsp. congruence.
Qed.

(* ================================================================== *)
(* unplan_unit                                                         *)
(* ================================================================== *)

Theorem unplan_unit_ordered (inp : input) (s : state) (u : nat) :
  wf_input inp -> InvT inp s -> ordered inp s -> u < nunits inp ->
  ordered inp (fst (unplan_unit inp s u)).
Proof.
  intros Hwf HIT Hord Hu.
  destruct (unplan_unit inp s u) as [s' r] eqn:E. cbn [fst].
  destruct (unplan_unit_all_or_nothingT inp s s' u r Hwf HIT Hu E) as (Hnd & Hd).
  assert (Hsame : r <> Done -> ordered inp s').
  { intros Hr. apply (ordered_ext inp s s'); [exact (proj1 (Hnd Hr))|exact Hord]. }
  destruct r; try (apply Hsame; discriminate).
  clear Hsame Hnd.
  destruct (Hd eq_refl) as (v & Hv & _ & _ & Hnew & Hoth & _). clear Hd.
  intros u' v' Hu' Hv'.
  destruct (Nat.eq_dec v' v) as [->|Hnev];
    [|rewrite (Hoth v' Hnev); exact (Hord u' v' Hu' Hv')].
  rewrite Hnew.
  set (old := route_stops (get_route s v)) in *.
  set (f := fun x : nat => negb (mem_nat x (iu_stops (get_unit inp u)))).
  intros a b d Harc Ha Hb.
  apply filter_In in Ha. destruct Ha as (Hao & Hfa).
  apply filter_In in Hb. destruct Hb as (Hbo & Hfb).
  destruct (Hord u' v Hu' Hv a b d Harc Hao Hbo) as (Hlt & Hdir).
  split.
  - apply (index_of_filter_lt f a b Hfa Hfb). exact Hlt.
  - intros ->. exact (index_of_filter_succ f a b Hfa Hfb old Hbo (Hdir eq_refl)).
Qed.

(* ================================================================== *)
(* start solution                                                      *)
(* ================================================================== *)

Theorem new_solution_ordered (inp : input) (s0 : state) :
  wf_input inp -> wf_arcs inp -> new_solution inp = Some s0 -> ordered inp s0.
Proof.
  intros Hwf Hwa Hns u v Hu Hv a b d Harc Ha _.
  destruct (new_solution_routes inp s0 v Hns Hv) as (Hr & _).
  rewrite Hr in Ha. exfalso.
  destruct (Hwa u Hu a b d Harc) as (Hau & _).
  pose proof (unit_stops_lt inp u a Hwf Hu Hau) as Hlt.
  pose proof (first_stop_ge inp v) as Hf. pose proof (last_stop_ge inp v) as Hl.
  destruct Ha as [H|[H|[]]]; lia.
Qed.

(* ================================================================== *)
(* histories                                                           *)
(* ================================================================== *)

Lemma fresh_ordered_fresh (inp : input) :
  forall (h : list op) (s : state), fresh_ordered inp s h -> fresh inp s h.
Proof.
  induction h as [|o h IH]; intros s H; cbn [fresh fresh_ordered] in *; [exact I|].
  destruct H as (Hok & _ & H). split; [exact Hok|exact (IH _ H)].
Qed.

Lemma step_ordered (inp : input) (s : state) (o : op) :
  wf_input inp -> wf_arcs inp -> InvT inp s -> ordered inp s ->
  op_ok inp s o -> op_ordered inp s o -> ordered inp (fst (step inp s o)).
Proof.
  intros Hwf Hwa HI Hord Hok Hoo. destruct o as [mv|u]; cbn [step op_ok op_ordered] in *.
  - exact (exec_move_ordered inp s mv Hwf Hwa HI Hord Hok Hoo).
  - exact (unplan_unit_ordered inp s u Hwf HI Hord Hok).
Qed.

Lemma run_ordered_from (inp : input) :
  wf_input inp -> wf_arcs inp -> forall (h : list op) (s : state),
    InvT inp s -> ordered inp s -> fresh_ordered inp s h ->
    Forall (fun s' => ordered inp s' /\ InvT inp s') (run inp s h).
Proof.
  intros Hwf Hwa. induction h as [|o h IH]; intros s HI Hord Hfr; cbn [run fresh_ordered] in *.
  - constructor; [split; assumption|constructor].
  - destruct Hfr as (Hok & Hoo & Hfr). constructor; [split; assumption|].
    apply IH; [|exact (step_ordered inp s o Hwf Hwa HI Hord Hok Hoo)|exact Hfr].
    exact (step_invT inp s o Hwf HI Hok).
Qed.

Theorem run_ordered (inp : input) (s0 : state) (h : list op) :
  wf_input inp -> wf_arcs inp -> new_solution inp = Some s0 -> fresh_ordered inp s0 h ->
  Forall (fun s => ordered inp s /\ InvT inp s) (run inp s0 h).
Proof.
  intros Hwf Hwa Hns Hfr.
  exact (run_ordered_from inp Hwf Hwa h s0 (new_solution_invT inp s0 Hwf Hns)
           (new_solution_ordered inp s0 Hwf Hwa Hns) Hfr).
Qed.

Lemma reachable_ordered_reachable (inp : input) (s : state) :
  reachable_ordered inp s -> reachable inp s.
Proof.
  intros (s0 & h & Hns & Hfr & Hin). exists s0, h.
  split; [exact Hns|]. split; [exact (fresh_ordered_fresh inp h s0 Hfr)|exact Hin].
Qed.

Lemma reachable_ordered_ordered (inp : input) (s : state) :
  wf_input inp -> wf_arcs inp -> reachable_ordered inp s -> ordered inp s /\ InvT inp s.
Proof.
  intros Hwf Hwa (s0 & h & Hns & Hfr & Hin).
  pose proof (run_ordered inp s0 h Hwf Hwa Hns Hfr) as Hall.
  rewrite Forall_forall in Hall. exact (Hall s Hin).
Qed.

(* the user-facing corollary *)
Theorem unit_on_route_ordered (inp : input) (s : state) (u v a b : nat) (d : bool) :
  wf_input inp -> wf_arcs inp -> reachable_ordered inp s ->
  u < nunits inp -> v < nveh inp ->
  In (a, b, d) (iu_arcs (get_unit inp u)) ->
  In a (route_stops (get_route s v)) -> In b (route_stops (get_route s v)) ->
  index_of a (route_stops (get_route s v)) < index_of b (route_stops (get_route s v)) /\
  (d = true ->
   index_of b (route_stops (get_route s v)) = S (index_of a (route_stops (get_route s v)))).
Proof.
  intros Hwf Hwa Hr Hu Hv Harc Ha Hb.
  destruct (reachable_ordered_ordered inp s Hwf Hwa Hr) as (Hord & _).
  exact (Hord u v Hu Hv a b d Harc Ha Hb).
Qed.

(* the same, as a decomposition of the route *)
Lemma index_of_split (x : nat) (l : list nat) :
  In x l -> l = firstn (index_of x l) l ++ x :: skipn (S (index_of x l)) l.
Proof.
  induction l as [|h t IH]; intros Hin; [destruct Hin|].
  cbn [index_of]. destruct (Nat.eqb_spec x h) as [->|Hne]; [reflexivity|].
  destruct Hin as [Hin|Hin]; [congruence|].
  cbn [firstn skipn]. rewrite <- app_comm_cons. f_equal. exact (IH Hin).
Qed.

Lemma index_of_firstn_notin (x : nat) (l : list nat) : ~ In x (firstn (index_of x l) l).
Proof.
  induction l as [|h t IH]; [intros []|].
  cbn [index_of]. destruct (Nat.eqb_spec x h) as [->|Hne]; [intros []|].
  cbn [firstn]. intros [H|H]; [congruence|exact (IH H)].
Qed.

Lemma before_split (a b : nat) (l : list nat) :
  In a l -> In b l -> index_of a l < index_of b l ->
  exists pre mid post, l = pre ++ a :: mid ++ b :: post /\
    (index_of b l = S (index_of a l) -> mid = []).
Proof.
  intros Ha Hb Hlt.
  pose proof (index_of_split a l Ha) as Hl.
  set (pre := firstn (index_of a l) l) in *. set (rest := skipn (S (index_of a l)) l) in *.
  assert (Hlen : length pre = index_of a l).
  { unfold pre. apply firstn_length_le. apply Nat.lt_le_incl. apply index_of_lt_In. exact Ha. }
  assert (Hab : b <> a) by (intros ->; lia).
  assert (Hbpre : ~ In b pre).
  { intros H. pose proof (proj2 (index_of_lt_In b pre) H) as Hlt'.
    rewrite Hl in Hlt at 2. rewrite (index_of_app_in b pre _ H) in Hlt. lia. }
  assert (Hbrest : In b rest).
  { rewrite Hl in Hb. apply in_app_or in Hb. destruct Hb as [Hb|[Hb|Hb]]; [tauto|congruence|exact Hb]. }
  assert (Hidx : index_of b l = length pre + S (index_of b rest)).
  { rewrite Hl at 1. rewrite (index_of_app_notin b pre _ Hbpre). cbn [index_of].
    destruct (Nat.eqb_spec b a) as [E|_]; [congruence|]. reflexivity. }
  exists pre, (firstn (index_of b rest) rest), (skipn (S (index_of b rest)) rest).
  split.
  - rewrite <- (index_of_split b rest Hbrest). exact Hl.
  - intros Hs. assert (H0 : index_of b rest = 0) by lia. rewrite H0. reflexivity.
Qed.

Theorem unit_on_route_split (inp : input) (s : state) (u v a b : nat) (d : bool) :
  wf_input inp -> wf_arcs inp -> reachable_ordered inp s ->
  u < nunits inp -> v < nveh inp ->
  In (a, b, d) (iu_arcs (get_unit inp u)) ->
  In a (route_stops (get_route s v)) -> In b (route_stops (get_route s v)) ->
  exists pre mid post,
    route_stops (get_route s v) = pre ++ a :: mid ++ b :: post /\ (d = true -> mid = []).
Proof.
  intros Hwf Hwa Hr Hu Hv Harc Ha Hb.
  destruct (unit_on_route_ordered inp s u v a b d Hwf Hwa Hr Hu Hv Harc Ha Hb) as (Hlt & Hdir).
  destruct (before_split a b _ Ha Hb Hlt) as (pre & mid & post & Hl & Hm).
  exists pre, mid, post. split; [exact Hl|]. intros Hd. exact (Hm (Hdir Hd)).
Qed.

(* ================================================================== *)
(* Link to the generator model (Model/Search.v)                        *)
(* ================================================================== *)

Lemma nondecreasing_Sorted (l : list nat) : nondecreasing l = true -> Sorted le l.
Proof.
  induction l as [|a l IH]; intros H; [constructor|].
  destruct l as [|b l]; [constructor; constructor|].
  change (nondecreasing (a :: b :: l)) with ((a <=? b) && nondecreasing (b :: l)) in H.
  apply andb_true_iff in H. destruct H as (Hab & Ht).
  constructor; [exact (IH Ht)|]. constructor. apply Nat.leb_le. exact Hab.
Qed.

Lemma map_fst_combine {A B} : forall (l : list A) (l' : list B),
  length l = length l' -> map fst (combine l l') = l.
Proof.
  induction l as [|a l IH]; intros [|b l'] H; simpl in *; try discriminate; [reflexivity|].
  f_equal. apply IH. lia.
Qed.

Lemma map_snd_combine {A B} : forall (l : list A) (l' : list B),
  length l = length l' -> map snd (combine l l') = l'.
Proof.
  induction l as [|a l IH]; intros [|b l'] H; simpl in *; try discriminate; [reflexivity|].
  f_equal. apply IH. lia.
Qed.

(* a placement accepted by the generators' specification ([placement_ok], which
   by C10_generate_spec is exactly what [generate_all] enumerates), for an
   allowed order [od] of unit u ([order_ok], what the order sampler yields by
   C10_sequence_generator_sound / C10_all_orders_spec), with [split] / [pair]
   read off the route and the order, is a well-formed and order-respecting move *)
Theorem generated_move_ordered (inp : input) (s : state) (u v : nat) (od l : list nat) :
  u < nunits inp -> v < nveh inp ->
  Permutation od (iu_stops (get_unit inp u)) -> od <> [] ->
  order_ok (iu_arcs (get_unit inp u)) od = true ->
  placement_ok (split_of inp (route_stops (get_route s v)))
               (pair_of (iu_arcs (get_unit inp u)) od)
               (length od) (length (get_route s v) - 1) l = true ->
  move_ok inp s (mkMove u v (combine od l)) /\ move_ordered inp s (mkMove u v (combine od l)).
Proof.
  intros Hu Hv Hperm Hne Hoo Hpl.
  unfold placement_ok in Hpl.
  apply andb_true_iff in Hpl. destruct Hpl as (Hpl & Hpt).
  apply andb_true_iff in Hpl. destruct Hpl as (Hpl & Hnd).
  apply andb_true_iff in Hpl. destruct Hpl as (Hlen & Hall).
  apply Nat.eqb_eq in Hlen. symmetry in Hlen.
  pose proof (map_fst_combine od l Hlen) as Hfst.
  pose proof (map_snd_combine od l Hlen) as Hsnd.
  rewrite forallb_forall in Hall.
  split.
  - unfold move_ok. cbn [mv_unit mv_vehicle mv_places]. rewrite Hfst, Hsnd.
    split; [exact Hu|]. split; [exact Hv|]. split; [exact Hperm|]. split; [|split].
    + intros Hc. apply (f_equal (map fst)) in Hc. rewrite Hfst in Hc. exact (Hne Hc).
    + apply nondecreasing_Sorted. exact Hnd.
    + apply Forall_forall. intros g Hg. specialize (Hall g Hg).
      apply andb_true_iff in Hall. destruct Hall as (Hall & _).
      apply andb_true_iff in Hall. destruct Hall as (H1 & H2).
      apply Nat.leb_le in H1. apply Nat.leb_le in H2. split; assumption.
  - unfold move_ordered. cbn [mv_unit mv_vehicle mv_places]. rewrite Hfst, Hsnd.
    split; [exact Hoo|]. split; [exact Hpt|].
    apply forallb_forall. intros g Hg. specialize (Hall g Hg).
    apply andb_true_iff in Hall. exact (proj2 Hall).
Qed.

(* the same in terms of the enumerations themselves: [od] one of the allowed
   orders of the unit, [l] one of the gap lists [generate_all] builds for it *)
Theorem enumerated_move_ordered (inp : input) (s : state) (u v : nat) (od l : list nat) :
  wf_input inp -> u < nunits inp -> v < nveh inp ->
  In od (all_orders (iu_stops (get_unit inp u)) (iu_arcs (get_unit inp u))) ->
  In l (generate_all (split_of inp (route_stops (get_route s v)))
                     (pair_of (iu_arcs (get_unit inp u)) od)
                     (length od) (length (get_route s v) - 1)) ->
  move_ok inp s (mkMove u v (combine od l)) /\ move_ordered inp s (mkMove u v (combine od l)).
Proof.
  intros Hwf Hu Hv Hod Hl.
  apply C10_all_orders_spec_proof in Hod. destruct Hod as (Hperm & Hoo).
  apply C10_generate_spec_proof in Hl.
  apply (generated_move_ordered inp s u v od l Hu Hv Hperm); [|exact Hoo|exact Hl].
  intros ->. apply Permutation_nil in Hperm.
  exact (unit_stops_nonempty inp u Hwf Hu Hperm).
Qed.

(* [wf_arcs] is the first half of [arcs_wf] (Proofs/Search_proofs.v) for every unit *)
Lemma arcs_wf_wf_arcs (inp : input) :
  (forall u, u < nunits inp -> arcs_wf (iu_stops (get_unit inp u)) (iu_arcs (get_unit inp u))) ->
  wf_arcs inp.
Proof. intros H u Hu a b d Harc. exact (proj1 (H u Hu) a b d Harc). Qed.

(* ================================================================== *)
(* Non-vacuity                                                         *)
(* ================================================================== *)

(* one vehicle; unit 0 = stops 0 and 1 with the direct arc 0 -> 1; unit 1 = stop 2 *)
Definition ox_stop : istop := mkIStop [] 0%Z [] None 0%Z [] None 0%Z 0%Z.
Definition ox_inp : input :=
  mkInput [] [ox_stop; ox_stop; ox_stop] [dflt_vehicle]
          [mkIUnit [0; 1] [(0, 1, true)]; mkIUnit [2] []]
          [] [] 0 ex_opts [].
Definition ox_s0 : state :=
  Eval vm_compute in match new_solution ox_inp with Some s => s | None => ex_dummy end.
(* 0 and 1 into the same gap, in this order *)
Definition ox_mv_good : move := mkMove 0 0 [(0, 1); (1, 1)].
(* 1 before 0 *)
Definition ox_mv_rev : move := mkMove 0 0 [(1, 1); (0, 1)].
Definition ox_s1 : state := Eval vm_compute in fst (exec_move ox_inp ox_s0 ox_mv_good).
(* stop 2 between the planned direct pair 0, 1 *)
Definition ox_mv_split : move := mkMove 1 0 [(2, 2)].
(* stop 2 after the pair *)
Definition ox_mv_after : move := mkMove 1 0 [(2, 3)].

Example ox_wf : wf_input ox_inp.
Proof.
  split; [|split; [|split; [|split; [exact (Forall_nil _)|mult_wf]]]].
  - vm_compute. repeat (constructor; [simpl; lia|]). constructor.
  - intros x. vm_compute. lia.
  - intros u Hu. vm_compute in Hu. destruct Hu as [<-|[<-|[]]]; discriminate.
Qed.

Example ox_wf_arcs : wf_arcs ox_inp.
Proof.
  intros u Hu a b d Harc. change (nunits ox_inp) with 2 in Hu.
  destruct u as [|[|u]]; [| |lia]; vm_compute in Harc |- *.
  - destruct Harc as [H|[]]. injection H as <- <- <-. split; [left|right; left]; reflexivity.
  - destruct Harc.
Qed.

Example ox_new : new_solution ox_inp = Some ox_s0.
Proof. vm_compute. reflexivity. Qed.

Lemma ox_move_ok_intro (s : state) (mv : move) :
  (mv_unit mv <? nunits ox_inp) = true -> (mv_vehicle mv <? nveh ox_inp) = true ->
  Permutation (map fst (mv_places mv)) (iu_stops (get_unit ox_inp (mv_unit mv))) ->
  mv_places mv <> [] -> Sorted le (map snd (mv_places mv)) ->
  forallb (fun g => (1 <=? g) && (g <=? length (get_route s (mv_vehicle mv)) - 1))
          (map snd (mv_places mv)) = true ->
  move_ok ox_inp s mv.
Proof.
  intros H1 H2 H3 H4 H5 H6. unfold move_ok.
  apply Nat.ltb_lt in H1. apply Nat.ltb_lt in H2.
  repeat (split; [assumption|]).
  apply Forall_forall. intros g Hg. rewrite forallb_forall in H6. specialize (H6 g Hg).
  apply andb_true_iff in H6. destruct H6 as (A & B).
  apply Nat.leb_le in A. apply Nat.leb_le in B. split; assumption.
Qed.

Example ox_good_ok : move_ok ox_inp ox_s0 ox_mv_good.
Proof.
  apply ox_move_ok_intro;
    [reflexivity|reflexivity|apply Permutation_refl|discriminate|repeat constructor|reflexivity].
Qed.

Example ox_good_ordered : move_ordered ox_inp ox_s0 ox_mv_good.
Proof. unfold move_ordered. vm_compute. repeat split. Qed.

Example ox_good_done : exec_move ox_inp ox_s0 ox_mv_good = (ox_s1, Done).
Proof. vm_compute. reflexivity. Qed.

Example ox_good_route : route_stops (get_route ox_s1 0) = [3; 0; 1; 4].
Proof. vm_compute. reflexivity. Qed.

Example ox_invT_s0 : InvT ox_inp ox_s0.
Proof. exact (new_solution_invT ox_inp ox_s0 ox_wf ox_new). Qed.

Example ox_ordered_s0 : ordered ox_inp ox_s0.
Proof. exact (new_solution_ordered ox_inp ox_s0 ox_wf ox_wf_arcs ox_new). Qed.

(* the theorem applies: the move is order-respecting and the state reached is ordered *)
Example ox_ordered_s1 : ordered ox_inp ox_s1.
Proof.
  pose proof (exec_move_ordered ox_inp ox_s0 ox_mv_good ox_wf ox_wf_arcs ox_invT_s0
                ox_ordered_s0 ox_good_ok ox_good_ordered) as H.
  rewrite ox_good_done in H. exact H.
Qed.

Example ox_invT_s1 : InvT ox_inp ox_s1.
Proof. exact (exec_move_invT ox_inp ox_s0 ox_s1 ox_mv_good Done ox_wf ox_invT_s0 ox_good_ok ox_good_done). Qed.

(* ... and is not vacuously so: the arc's hypotheses hold on the route *)
Example ox_s1_arc_on_route :
  In (0, 1, true) (iu_arcs (get_unit ox_inp 0)) /\
  In 0 (route_stops (get_route ox_s1 0)) /\ In 1 (route_stops (get_route ox_s1 0)) /\
  index_of 1 (route_stops (get_route ox_s1 0)) = S (index_of 0 (route_stops (get_route ox_s1 0))).
Proof. vm_compute. repeat split; auto. Qed.

Lemma ox_not_ordered (s : state) :
  In 0 (route_stops (get_route s 0)) -> In 1 (route_stops (get_route s 0)) ->
  index_of 1 (route_stops (get_route s 0)) <> S (index_of 0 (route_stops (get_route s 0))) ->
  ~ ordered ox_inp s.
Proof.
  intros H0 H1 Hn Hord.
  assert (Hu : 0 < nunits ox_inp) by (vm_compute; lia).
  assert (Hv : 0 < nveh ox_inp) by (vm_compute; lia).
  destruct (Hord 0 0 Hu Hv 0 1 true (or_introl eq_refl) H0 H1) as (_ & Hd).
  exact (Hn (Hd eq_refl)).
Qed.

(* a move_ok move that lists the unit's stops against the arc: executed (Done),
   the state reached is not ordered *)
Example ox_rev_ok : move_ok ox_inp ox_s0 ox_mv_rev.
Proof.
  apply ox_move_ok_intro;
    [reflexivity|reflexivity|apply perm_swap|discriminate|repeat constructor|reflexivity].
Qed.

Theorem needs_move_ordered :
  exists inp s mv,
    wf_input inp /\ wf_arcs inp /\ InvT inp s /\ ordered inp s /\ move_ok inp s mv /\
    ~ move_ordered inp s mv /\ snd (exec_move inp s mv) = Done /\
    ~ ordered inp (fst (exec_move inp s mv)).
Proof.
  exists ox_inp, ox_s0, ox_mv_rev.
  split; [exact ox_wf|]. split; [exact ox_wf_arcs|]. split; [exact ox_invT_s0|].
  split; [exact ox_ordered_s0|]. split; [exact ox_rev_ok|]. split; [|split].
  - intros (H & _). vm_compute in H. discriminate.
  - vm_compute. reflexivity.
  - apply ox_not_ordered; vm_compute; [tauto|tauto|lia].
Qed.

(* a move_ok move of ANOTHER unit into the gap between the planned direct pair *)
Example ox_split_ok : move_ok ox_inp ox_s1 ox_mv_split.
Proof.
  apply ox_move_ok_intro;
    [reflexivity|reflexivity|apply Permutation_refl|discriminate|repeat constructor|reflexivity].
Qed.

Theorem needs_no_split :
  exists inp s mv,
    wf_input inp /\ wf_arcs inp /\ InvT inp s /\ ordered inp s /\ move_ok inp s mv /\
    order_ok (iu_arcs (get_unit inp (mv_unit mv))) (map fst (mv_places mv)) = true /\
    ~ move_ordered inp s mv /\ snd (exec_move inp s mv) = Done /\
    ~ ordered inp (fst (exec_move inp s mv)).
Proof.
  exists ox_inp, ox_s1, ox_mv_split.
  split; [exact ox_wf|]. split; [exact ox_wf_arcs|]. split; [exact ox_invT_s1|].
  split; [exact ox_ordered_s1|]. split; [exact ox_split_ok|].
  split; [vm_compute; reflexivity|]. split; [|split].
  - intros (_ & _ & H). vm_compute in H. discriminate.
  - vm_compute. reflexivity.
  - apply ox_not_ordered; vm_compute; [tauto|tauto|lia].
Qed.

(* a whole order-respecting history: plan unit 0, plan unit 1 behind it, un-plan unit 0 *)
Example ox_after_ok : move_ok ox_inp ox_s1 ox_mv_after.
Proof.
  apply ox_move_ok_intro;
    [reflexivity|reflexivity|apply Permutation_refl|discriminate|repeat constructor|reflexivity].
Qed.

Example ox_after_ordered : move_ordered ox_inp ox_s1 ox_mv_after.
Proof. unfold move_ordered. vm_compute. repeat split. Qed.

Definition ox_h : list op := [OpPlan ox_mv_good; OpPlan ox_mv_after; OpUnplan 0].

Example ox_fresh_ordered : fresh_ordered ox_inp ox_s0 ox_h.
Proof.
  unfold ox_h. cbn [fresh_ordered op_ok op_ordered step].
  rewrite ox_good_done. cbn [fst].
  split; [exact ox_good_ok|]. split; [exact ox_good_ordered|].
  split; [exact ox_after_ok|]. split; [exact ox_after_ordered|].
  split; [vm_compute; lia|]. split; exact I.
Qed.

Example ox_run_ordered :
  Forall (fun s => ordered ox_inp s /\ InvT ox_inp s) (run ox_inp ox_s0 ox_h).
Proof. exact (run_ordered ox_inp ox_s0 ox_h ox_wf ox_wf_arcs ox_new ox_fresh_ordered). Qed.

Example ox_run_routes :
  map (fun s => route_stops (get_route s 0)) (run ox_inp ox_s0 ox_h)
  = [[3; 4]; [3; 0; 1; 4]; [3; 0; 1; 2; 4]; [3; 2; 4]].
Proof. vm_compute. reflexivity. Qed.

(* the generator link applies to the good move: it is what placement_ok accepts *)
Example ox_generated :
  placement_ok (split_of ox_inp (route_stops (get_route ox_s0 0)))
               (pair_of (iu_arcs (get_unit ox_inp 0)) [0; 1])
               2 (length (get_route ox_s0 0) - 1) [1; 1] = true /\
  In [1; 1] (generate_all (split_of ox_inp (route_stops (get_route ox_s0 0)))
                          (pair_of (iu_arcs (get_unit ox_inp 0)) [0; 1])
                          2 (length (get_route ox_s0 0) - 1)) /\
  mkMove 0 0 (combine [0; 1] [1; 1]) = ox_mv_good.
Proof. vm_compute. repeat split; auto. Qed.

(* [wf_arcs] is needed: an arc whose endpoints are not stops of the unit (here
   a loop on the vehicle's first stop) is violated by the start solution *)
Definition ox_inp_bad : input :=
  mkInput [] [ox_stop; ox_stop; ox_stop] [dflt_vehicle]
          [mkIUnit [0; 1] [(3, 3, false)]; mkIUnit [2] []]
          [] [] 0 ex_opts [].
Definition ox_bad_s0 : state :=
  Eval vm_compute in match new_solution ox_inp_bad with Some s => s | None => ex_dummy end.

Theorem needs_wf_arcs :
  exists inp s0, wf_input inp /\ new_solution inp = Some s0 /\ ~ wf_arcs inp /\ ~ ordered inp s0.
Proof.
  exists ox_inp_bad, ox_bad_s0.
  assert (Hu : 0 < nunits ox_inp_bad) by (vm_compute; lia).
  assert (Hv : 0 < nveh ox_inp_bad) by (vm_compute; lia).
  split; [|split; [vm_compute; reflexivity|split]].
  - split; [|split; [|split; [|split; [exact (Forall_nil _)|mult_wf]]]].
    + vm_compute. repeat (constructor; [simpl; lia|]). constructor.
    + intros x. vm_compute. lia.
    + intros u Hin. vm_compute in Hin. destruct Hin as [<-|[<-|[]]]; discriminate.
  - intros Hwa. destruct (Hwa 0 Hu 3 3 false (or_introl eq_refl)) as (H & _).
    vm_compute in H. destruct H as [H|[H|[]]]; discriminate.
  - intros Hord.
    destruct (Hord 0 0 Hu Hv 3 3 false (or_introl eq_refl)) as (H & _);
      try (vm_compute; tauto).
    vm_compute in H. lia.
Qed.

(* ================================================================== *)
(* The statements of Props/Order.v                                     *)
(* ================================================================== *)

Theorem Order_exec_move_proof : forall inp s mv,
  wf_input inp -> wf_arcs inp -> InvT inp s -> ordered inp s ->
  move_ok inp s mv -> move_ordered inp s mv ->
  ordered inp (fst (exec_move inp s mv)).
Proof. exact exec_move_ordered. Qed.

Theorem Order_unplan_unit_proof : forall inp s u,
  wf_input inp -> InvT inp s -> ordered inp s -> u < nunits inp ->
  ordered inp (fst (unplan_unit inp s u)).
Proof. exact unplan_unit_ordered. Qed.

Theorem Order_start_proof : forall inp s0,
  wf_input inp -> wf_arcs inp -> new_solution inp = Some s0 -> ordered inp s0.
Proof. exact new_solution_ordered. Qed.

Theorem Order_reachable_proof : forall inp s0 h,
  wf_input inp -> wf_arcs inp -> new_solution inp = Some s0 -> fresh_ordered inp s0 h ->
  Forall (fun s => ordered inp s /\ InvT inp s) (run inp s0 h).
Proof. exact run_ordered. Qed.

Theorem Order_fresh_ordered_fresh_proof : forall inp s h,
  fresh_ordered inp s h -> fresh inp s h.
Proof. intros inp s h. exact (fresh_ordered_fresh inp h s). Qed.

Theorem Order_unit_on_route_proof : forall inp s0 h s u v a b d,
  wf_input inp -> wf_arcs inp ->
  new_solution inp = Some s0 -> fresh_ordered inp s0 h -> In s (run inp s0 h) ->
  u < nunits inp -> v < nveh inp ->
  In (a, b, d) (iu_arcs (get_unit inp u)) ->
  In a (route_stops (get_route s v)) -> In b (route_stops (get_route s v)) ->
  index_of a (route_stops (get_route s v)) < index_of b (route_stops (get_route s v)) /\
  (d = true ->
   index_of b (route_stops (get_route s v)) = S (index_of a (route_stops (get_route s v)))).
Proof.
  intros inp s0 h s u v a b d Hwf Hwa Hns Hfr Hin.
  apply (unit_on_route_ordered inp s u v a b d Hwf Hwa).
  exists s0, h. split; [exact Hns|]. split; [exact Hfr|exact Hin].
Qed.

Theorem Order_unit_on_route_split_proof : forall inp s0 h s u v a b d,
  wf_input inp -> wf_arcs inp ->
  new_solution inp = Some s0 -> fresh_ordered inp s0 h -> In s (run inp s0 h) ->
  u < nunits inp -> v < nveh inp ->
  In (a, b, d) (iu_arcs (get_unit inp u)) ->
  In a (route_stops (get_route s v)) -> In b (route_stops (get_route s v)) ->
  exists pre mid post,
    route_stops (get_route s v) = pre ++ a :: mid ++ b :: post /\ (d = true -> mid = []).
Proof.
  intros inp s0 h s u v a b d Hwf Hwa Hns Hfr Hin.
  apply (unit_on_route_split inp s u v a b d Hwf Hwa).
  exists s0, h. split; [exact Hns|]. split; [exact Hfr|exact Hin].
Qed.

Theorem Order_placement_ok_moves_proof : forall inp s u v od l,
  u < nunits inp -> v < nveh inp ->
  Permutation od (iu_stops (get_unit inp u)) -> od <> [] ->
  order_ok (iu_arcs (get_unit inp u)) od = true ->
  placement_ok (split_of inp (route_stops (get_route s v)))
               (pair_of (iu_arcs (get_unit inp u)) od)
               (length od) (length (get_route s v) - 1) l = true ->
  move_ok inp s (mkMove u v (combine od l)) /\ move_ordered inp s (mkMove u v (combine od l)).
Proof. exact generated_move_ordered. Qed.

Theorem Order_generated_moves_proof : forall inp s u v od l,
  wf_input inp -> u < nunits inp -> v < nveh inp ->
  In od (all_orders (iu_stops (get_unit inp u)) (iu_arcs (get_unit inp u))) ->
  In l (generate_all (split_of inp (route_stops (get_route s v)))
                     (pair_of (iu_arcs (get_unit inp u)) od)
                     (length od) (length (get_route s v) - 1)) ->
  move_ok inp s (mkMove u v (combine od l)) /\ move_ordered inp s (mkMove u v (combine od l)).
Proof. exact enumerated_move_ordered. Qed.

(* executing an enumerated move from an ordered state: everything together *)
Theorem Order_generated_exec_proof : forall inp s u v od l,
  wf_input inp -> wf_arcs inp -> InvT inp s -> ordered inp s ->
  u < nunits inp -> v < nveh inp ->
  In od (all_orders (iu_stops (get_unit inp u)) (iu_arcs (get_unit inp u))) ->
  In l (generate_all (split_of inp (route_stops (get_route s v)))
                     (pair_of (iu_arcs (get_unit inp u)) od)
                     (length od) (length (get_route s v) - 1)) ->
  ordered inp (fst (exec_move inp s (mkMove u v (combine od l)))) /\
  InvT inp (fst (exec_move inp s (mkMove u v (combine od l)))).
Proof.
  intros inp s u v od l Hwf Hwa HI Hord Hu Hv Hod Hl.
  destruct (enumerated_move_ordered inp s u v od l Hwf Hu Hv Hod Hl) as (Hok & Hmo).
  split; [exact (exec_move_ordered inp s _ Hwf Hwa HI Hord Hok Hmo)|].
  exact (step_invT inp s (OpPlan _) Hwf HI Hok).
Qed.

Theorem Order_example_proof :
  wf_input ox_inp /\ wf_arcs ox_inp /\ new_solution ox_inp = Some ox_s0 /\
  move_ok ox_inp ox_s0 ox_mv_good /\ move_ordered ox_inp ox_s0 ox_mv_good /\
  exec_move ox_inp ox_s0 ox_mv_good = (ox_s1, Done) /\
  route_stops (get_route ox_s1 0) = [3; 0; 1; 4] /\
  ordered ox_inp ox_s1 /\
  fresh_ordered ox_inp ox_s0 ox_h /\
  map (fun s => route_stops (get_route s 0)) (run ox_inp ox_s0 ox_h)
  = [[3; 4]; [3; 0; 1; 4]; [3; 0; 1; 2; 4]; [3; 2; 4]].
Proof.
  split; [exact ox_wf|]. split; [exact ox_wf_arcs|]. split; [exact ox_new|].
  split; [exact ox_good_ok|]. split; [exact ox_good_ordered|]. split; [exact ox_good_done|].
  split; [exact ox_good_route|]. split; [exact ox_ordered_s1|].
  split; [exact ox_fresh_ordered|exact ox_run_routes].
Qed.

(* ================================================================== *)
(* Assumptions                                                         *)
(* ================================================================== *)

Print Assumptions exec_move_ordered.
Print Assumptions unplan_unit_ordered.
Print Assumptions new_solution_ordered.
Print Assumptions run_ordered.
Print Assumptions unit_on_route_ordered.
Print Assumptions unit_on_route_split.
Print Assumptions generated_move_ordered.
Print Assumptions needs_move_ordered.
Print Assumptions needs_no_split.
Print Assumptions ox_run_ordered.
Print Assumptions enumerated_move_ordered.
Print Assumptions needs_wf_arcs.
Print Assumptions Order_generated_exec_proof.
Print Assumptions Order_example_proof.
