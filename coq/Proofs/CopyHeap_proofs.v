(* C11: proofs about the heap model of solutionImpl.Copy, NR.Model.CopyHeap.
   The theorem statements are repeated in NR.Props.C11. *)
From Coq Require Import String.
From Coq Require Import List Bool Arith ZArith Lia.
From NR Require Import Model.Discipline Model.CopyHeap.
Import ListNotations.

(* ------------------------------------------------------------------ *)
(* Heap primitives                                                     *)
(* ------------------------------------------------------------------ *)

Lemma read_alloc_old : forall h v l,
  l < h_next h -> read (fst (alloc h v)) l = read h l.
Proof.
  intros h v l Hl. unfold read, alloc. simpl.
  destruct (Nat.eqb_spec (h_next h) l) as [Heq | Hne]; [lia | reflexivity].
Qed.

Lemma read_alloc_new : forall h v, read (fst (alloc h v)) (snd (alloc h v)) = v.
Proof. intros h v. unfold read, alloc. simpl. rewrite Nat.eqb_refl. reflexivity. Qed.

Lemma read_store_same : forall h l v, read (store h l v) l = v.
Proof. intros h l v. unfold read, store. simpl. rewrite Nat.eqb_refl. reflexivity. Qed.

Lemma read_store_other : forall h l v l', l <> l' -> read (store h l v) l' = read h l'.
Proof.
  intros h l v l' Hne. unfold read, store. simpl.
  apply Nat.eqb_neq in Hne. rewrite Hne. reflexivity.
Qed.

(* two heaps agree on the locations of a solution *)
Definition agree (s : list loc) (h1 h2 : heap) : Prop :=
  forall l, In l s -> read h1 l = read h2 l.

Lemma agree_obs : forall s h1 h2, agree s h1 h2 -> obs h1 s = obs h2 s.
Proof. intros s h1 h2 H. unfold obs. apply map_ext_in. exact H. Qed.

Definition disjoint (s c : list loc) : Prop := forall l, In l c -> ~ In l s.

(* ------------------------------------------------------------------ *)
(* Copy                                                                *)
(* ------------------------------------------------------------------ *)

Lemma copy_fields_cons : forall f fr h l sr,
  copy_fields (f :: fr) h (l :: sr) =
  (let h1 := if f then fst (alloc h (read h l)) else h in
   let l1 := if f then h_next h else l in
   (fst (copy_fields fr h1 sr), l1 :: snd (copy_fields fr h1 sr))).
Proof.
  intros f fr h l sr. simpl. destruct f; simpl.
  - destruct (copy_fields fr _ sr); reflexivity.
  - destruct (copy_fields fr h sr); reflexivity.
Qed.

(* Copy only allocates: old locations keep their contents *)
Lemma copy_frame : forall fresh h s,
  h_next h <= h_next (fst (copy_fields fresh h s)) /\
  forall l, l < h_next h -> read (fst (copy_fields fresh h s)) l = read h l.
Proof.
  induction fresh as [|f fr IH]; intros h s.
  - simpl. split; auto.
  - destruct s as [|l0 sr]; [simpl; split; auto|].
    rewrite copy_fields_cons. cbn [fst snd].
    destruct f.
    + destruct (IH (fst (alloc h (read h l0))) sr) as [Hn Hr].
      change (h_next (fst (alloc h (read h l0)))) with (S (h_next h)) in Hn, Hr.
      split; [lia|].
      intros l Hl. rewrite Hr by lia. apply read_alloc_old. exact Hl.
    + apply IH.
Qed.

Lemma copy_obs_copy : forall fresh h s,
  length fresh = length s ->
  Forall (fun l => l < h_next h) s ->
  obs (fst (copy_fields fresh h s)) (snd (copy_fields fresh h s)) = obs h s.
Proof.
  induction fresh as [|f fr IH]; intros h s Hlen Hall.
  - destruct s; [reflexivity | discriminate].
  - destruct s as [|l0 sr]; [discriminate|].
    simpl in Hlen. injection Hlen as Hlen.
    inversion Hall as [|? ? Hl0 Hsr]; subst.
    rewrite copy_fields_cons. cbn [fst snd]. unfold obs. cbn [map]. fold (obs h sr).
    destruct f.
    + set (h1 := fst (alloc h (read h l0))).
      assert (Hsr1 : Forall (fun l => l < h_next h1) sr).
      { eapply Forall_impl; [|exact Hsr]. intros a Ha. unfold h1. simpl in *. lia. }
      f_equal.
      * destruct (copy_frame fr h1 sr) as [_ Hr].
        rewrite Hr by (unfold h1; simpl; lia).
        apply (read_alloc_new h (read h l0)).
      * fold (obs (fst (copy_fields fr h1 sr)) (snd (copy_fields fr h1 sr))).
        rewrite (IH h1 sr Hlen Hsr1).
        unfold obs. apply map_ext_in. intros a Ha.
        apply read_alloc_old. rewrite Forall_forall in Hsr. exact (Hsr a Ha).
    + f_equal.
      * destruct (copy_frame fr h sr) as [_ Hr]. apply Hr. exact Hl0.
      * exact (IH h sr Hlen Hsr).
Qed.

Lemma copy_obs_orig : forall fresh h s,
  Forall (fun l => l < h_next h) s ->
  obs (fst (copy_fields fresh h s)) s = obs h s.
Proof.
  intros fresh h s Hall. unfold obs. apply map_ext_in. intros a Ha.
  destruct (copy_frame fresh h s) as [_ Hr]. apply Hr.
  rewrite Forall_forall in Hall. exact (Hall a Ha).
Qed.

Lemma C11_copy_same_obs_proof : forall fresh h s,
  wf_sol h s -> length fresh = length s ->
  let '(h', c) := copy_fields fresh h s in
  obs h' c = obs h s /\ obs h' s = obs h s.
Proof.
  intros fresh h s [_ Hall] Hlen.
  pose proof (copy_obs_copy fresh h s Hlen Hall) as H1.
  pose proof (copy_obs_orig fresh h s Hall) as H2.
  destruct (copy_fields fresh h s) as [h' c]. split; assumption.
Qed.

(* with every field fresh the copy lives in newly allocated locations *)
Lemma copy_all_fresh : forall fresh h s,
  forallb (fun b : bool => b) fresh = true -> length fresh = length s ->
  snd (copy_fields fresh h s) = seq (h_next h) (length s) /\
  h_next (fst (copy_fields fresh h s)) = h_next h + length s.
Proof.
  induction fresh as [|f fr IH]; intros h s Hall Hlen.
  - destruct s; [simpl; split; [reflexivity | lia] | discriminate].
  - destruct s as [|l0 sr]; [discriminate|].
    simpl in Hlen. injection Hlen as Hlen.
    simpl in Hall. apply andb_true_iff in Hall. destruct Hall as [Hf Hfr]. subst f.
    rewrite copy_fields_cons. cbn [fst snd].
    destruct (IH (fst (alloc h (read h l0))) sr Hfr Hlen) as [Hc Hn].
    simpl in Hc, Hn. split.
    + simpl. f_equal. exact Hc.
    + simpl. rewrite Hn. lia.
Qed.

(* ------------------------------------------------------------------ *)
(* Writes through a solution touch that solution's locations only      *)
(* ------------------------------------------------------------------ *)

Lemma apply_w_frame : forall s h w l,
  ~ In l s -> read (apply_w s h w) l = read h l.
Proof.
  intros s h w l Hnot. unfold apply_w.
  destruct (nth_error s (w_field w)) as [l0|] eqn:Hn; [|reflexivity].
  apply read_store_other. intros ->. apply Hnot. eapply nth_error_In. exact Hn.
Qed.

Lemma apply_ws_frame : forall s ws h l,
  ~ In l s -> read (apply_ws s h ws) l = read h l.
Proof.
  intros s ws. induction ws as [|w r IH]; intros h l Hnot.
  - reflexivity.
  - unfold apply_ws in *. simpl. rewrite IH by exact Hnot. apply apply_w_frame. exact Hnot.
Qed.

Lemma apply_ws_other_obs : forall s c h ws,
  disjoint s c -> obs (apply_ws c h ws) s = obs h s.
Proof.
  intros s c h ws Hdis. unfold obs. apply map_ext_in. intros l Hl.
  apply apply_ws_frame. intros Hc. exact (Hdis l Hc Hl).
Qed.

Lemma disjoint_sym : forall s c, disjoint s c -> disjoint c s.
Proof. intros s c H l Hs Hc. exact (H l Hc Hs). Qed.

Lemma C11_independent_proof : forall fresh h s,
  wf_sol h s -> length fresh = length s ->
  forallb (fun b : bool => b) fresh = true ->
  let '(h', c) := copy_fields fresh h s in
  wf_sol h' c /\
  (forall l, In l c -> ~ In l s) /\
  (forall ws, obs (apply_ws c h' ws) s = obs h s) /\
  (forall ws, obs (apply_ws s h' ws) c = obs h s) /\
  (forall ws1 ws2,
     obs (apply_ws c (apply_ws s h' ws1) ws2) s = obs (apply_ws s h' ws1) s).
Proof.
  intros fresh h s Hwf Hlen Hfresh.
  pose proof (C11_copy_same_obs_proof fresh h s Hwf Hlen) as Hobs.
  destruct (copy_all_fresh fresh h s Hfresh Hlen) as [Hc Hn].
  destruct Hwf as [Hnd Hall].
  destruct (copy_fields fresh h s) as [h' c]. simpl in Hc, Hn.
  destruct Hobs as [Hoc Hos].
  assert (Hdis : disjoint s c).
  { intros l Hlc Hls. subst c. apply in_seq in Hlc.
    rewrite Forall_forall in Hall. specialize (Hall l Hls). lia. }
  split; [|split; [|split; [|split]]].
  - split.
    + subst c. apply seq_NoDup.
    + apply Forall_forall. intros l Hl. subst c. apply in_seq in Hl. lia.
  - exact Hdis.
  - intros ws. rewrite (apply_ws_other_obs s c h' ws Hdis). exact Hos.
  - intros ws. rewrite (apply_ws_other_obs c s h' ws (disjoint_sym _ _ Hdis)). exact Hoc.
  - intros ws1 ws2. apply apply_ws_other_obs. exact Hdis.
Qed.

(* ------------------------------------------------------------------ *)
(* Arbitrary interleavings of writes to the two sides                   *)
(* ------------------------------------------------------------------ *)

(* a write tagged [true] goes through the copy, [false] through the original *)
Definition apply_tagged (s c : list loc) (h : heap) (tws : list (bool * wop)) : heap :=
  fold_left (fun (h : heap) (tw : bool * wop) => if fst tw then apply_w c h (snd tw) else apply_w s h (snd tw)) tws h.

Definition own_writes (side : bool) (tws : list (bool * wop)) : list wop :=
  map snd (filter (fun tw : bool * wop => Bool.eqb (fst tw) side) tws).

Lemma apply_w_agree : forall s h1 h2 w,
  agree s h1 h2 -> agree s (apply_w s h1 w) (apply_w s h2 w).
Proof.
  intros s h1 h2 w Hag l Hl. unfold apply_w.
  destruct (nth_error s (w_field w)) as [l0|] eqn:Hn; [|exact (Hag l Hl)].
  assert (Hl0 : In l0 s) by (eapply nth_error_In; exact Hn).
  destruct (Nat.eq_dec l0 l) as [-> | Hne].
  - rewrite !read_store_same, (Hag l Hl). reflexivity.
  - rewrite !read_store_other by exact Hne. exact (Hag l Hl).
Qed.

Lemma apply_w_agree_other : forall s c h1 h2 w,
  disjoint s c -> agree s h1 h2 -> agree s (apply_w c h1 w) h2.
Proof.
  intros s c h1 h2 w Hdis Hag l Hl.
  rewrite apply_w_frame; [exact (Hag l Hl)|]. intros Hc. exact (Hdis l Hc Hl).
Qed.

Lemma apply_tagged_orig : forall s c tws h1 h2,
  disjoint s c -> agree s h1 h2 ->
  agree s (apply_tagged s c h1 tws) (apply_ws s h2 (own_writes false tws)).
Proof.
  intros s c tws. induction tws as [|[t w] r IH]; intros h1 h2 Hdis Hag.
  - exact Hag.
  - unfold apply_tagged, apply_ws, own_writes in *. destruct t; simpl.
    + apply IH; [exact Hdis|]. apply apply_w_agree_other; assumption.
    + apply IH; [exact Hdis|]. apply apply_w_agree. exact Hag.
Qed.

Lemma apply_tagged_copy : forall s c tws h1 h2,
  disjoint s c -> agree c h1 h2 ->
  agree c (apply_tagged s c h1 tws) (apply_ws c h2 (own_writes true tws)).
Proof.
  intros s c tws. induction tws as [|[t w] r IH]; intros h1 h2 Hdis Hag.
  - exact Hag.
  - unfold apply_tagged, apply_ws, own_writes in *. destruct t; simpl.
    + apply IH; [exact Hdis|]. apply apply_w_agree. exact Hag.
    + apply IH; [exact Hdis|].
      apply apply_w_agree_other; [apply disjoint_sym; exact Hdis | exact Hag].
Qed.

Lemma C11_interleaved_proof : forall fresh h s,
  wf_sol h s -> length fresh = length s ->
  forallb (fun b : bool => b) fresh = true ->
  let '(h', c) := copy_fields fresh h s in
  forall tws,
    obs (apply_tagged s c h' tws) s = obs (apply_ws s h' (own_writes false tws)) s /\
    obs (apply_tagged s c h' tws) c = obs (apply_ws c h' (own_writes true tws)) c.
Proof.
  intros fresh h s Hwf Hlen Hfresh.
  pose proof (C11_independent_proof fresh h s Hwf Hlen Hfresh) as Hind.
  destruct (copy_fields fresh h s) as [h' c].
  destruct Hind as (_ & Hdis & _).
  intros tws. split; apply agree_obs.
  - apply apply_tagged_orig; [exact Hdis | intros l _; reflexivity].
  - apply apply_tagged_copy; [exact Hdis | intros l _; reflexivity].
Qed.

(* ------------------------------------------------------------------ *)
(* The table discipline gives the all-fresh hypothesis                  *)
(* ------------------------------------------------------------------ *)

Lemma filter_nil_all : forall (A : Type) (f : A -> bool) l,
  filter f l = [] -> forall x, In x l -> f x = false.
Proof.
  intros A f l. induction l as [|a r IH]; intros H x Hx.
  - destruct Hx.
  - simpl in H. destruct (f a) eqn:Hfa; [discriminate|].
    destruct Hx as [<- | Hx]; [exact Hfa | exact (IH H x Hx)].
Qed.

Lemma C11_table_independent_proof : forall table,
  copy_violations table = [] ->
  forallb (fun b : bool => b) (treatments table) = true.
Proof.
  intros table Hv. unfold copy_violations in Hv.
  apply map_eq_nil in Hv.
  apply forallb_forall. intros b Hb. unfold treatments in Hb.
  apply in_map_iff in Hb. destruct Hb as (row & <- & Hrow).
  apply filter_In in Hrow. destruct Hrow as [Hin _].
  pose proof (filter_nil_all _ _ _ Hv row Hin) as Hok.
  apply negb_false_iff in Hok. exact Hok.
Qed.

(* ------------------------------------------------------------------ *)
(* One aliased field is enough to break independence                    *)
(* ------------------------------------------------------------------ *)

Definition ex_heap : heap := mkHeap 2 [(0, [1; 2]%Z); (1, [3]%Z)].
Definition ex_sol : list loc := [0; 1].

Lemma ex_wf : wf_sol ex_heap ex_sol.
Proof.
  split.
  - repeat constructor; simpl; intuition discriminate.
  - repeat constructor.
Qed.

Lemma C11_alias_refuted_proof :
  exists (fresh : list bool) (h : heap) (s : list loc) (ws : list wop),
    wf_sol h s /\ length fresh = length s /\
    forallb (fun b : bool => b) fresh = false /\
    let '(h', c) := copy_fields fresh h s in
    obs (apply_ws c h' ws) s <> obs h s.
Proof.
  exists [true; false], ex_heap, ex_sol, [mkW 1 0 9%Z].
  split; [exact ex_wf|]. split; [reflexivity|]. split; [reflexivity|].
  vm_compute. discriminate.
Qed.

(* ------------------------------------------------------------------ *)
(* Non-vacuity                                                         *)
(* ------------------------------------------------------------------ *)

(* the all-fresh copy of the example solution, and writes on both sides *)
Example C11_ex_copy :
  let '(h', c) := copy_fields [true; true] ex_heap ex_sol in
  c = [2; 3] /\ obs h' c = [[1; 2]; [3]]%Z /\
  obs (apply_ws c h' [mkW 1 0 9%Z; mkW 0 1 7%Z]) c = [[1; 7]; [9]]%Z /\
  obs (apply_ws c h' [mkW 1 0 9%Z; mkW 0 1 7%Z]) ex_sol = [[1; 2]; [3]]%Z.
Proof. vm_compute. repeat split; reflexivity. Qed.

Open Scope string_scope.
Definition ex_table : list (string * string * string) :=
  [("stops", "slice", "copyslice"); ("count", "int", "value");
   ("byId", "map", "make;elem:copyslice"); ("rng", "pointer", "call:rand.New")].
Definition ex_table_bad : list (string * string * string) :=
  [("stops", "slice", "copyslice"); ("byId", "map", "assign")].

Example C11_ex_table :
  copy_violations ex_table = [] /\ treatments ex_table = [true; true; true] /\
  copy_violations ex_table_bad = ["byId"] /\ treatments ex_table_bad = [true; false].
Proof. vm_compute. repeat split; reflexivity. Qed.
