(* C14: proofs about the lockset checker of NR.Model.Discipline, and a small
   generic mutex semantics that says what a common mutex buys.
   The theorem statements are repeated in NR.Props.C14. *)
From Coq Require Import List String Bool Arith Lia.
From NR Require Import Model.Skeleton Model.Discipline.
Import ListNotations.
Open Scope string_scope.
Open Scope list_scope.

(* ------------------------------------------------------------------ *)
(* The checker reports every unprotected conflicting pair               *)
(* ------------------------------------------------------------------ *)

Lemma mem_str_In : forall x l, mem_str x l = true <-> In x l.
Proof.
  intros x l. unfold mem_str. rewrite existsb_exists. split.
  - intros (y & Hy & Heq). apply String.eqb_eq in Heq. subst. exact Hy.
  - intros H. exists x. split; [exact H | apply String.eqb_refl].
Qed.

Lemma dedup_In : forall x l, In x l -> In x (dedup l).
Proof.
  intros x l. induction l as [|y r IH]; intros H; simpl in *.
  - exact H.
  - destruct (mem_str y r) eqn:Hm.
    + destruct H as [-> | H]; [|exact (IH H)].
      apply IH. apply mem_str_In. exact Hm.
    + destruct H as [-> | H]; [left; reflexivity | right; exact (IH H)].
Qed.

Lemma common_lock_spec : forall a b,
  common_lock a b = true -> exists m, In m (a_locks a) /\ In m (a_locks b).
Proof.
  intros a b H. unfold common_lock in H. apply existsb_exists in H.
  destruct H as (m & Hm & Hb). exists m. split; [exact Hm|].
  apply mem_str_In. exact Hb.
Qed.

Lemma C14_checker_complete_var_proof : forall body v,
  ~ In v (racy_vars body) ->
  forall a b, In a (accesses body) -> In b (accesses body) ->
  a_var a = v -> a_var b = v ->
  (a_gor a <> a_gor b \/ a_multi a = true) ->
  (a_write a = true \/ a_write b = true) ->
  a_init a = false -> a_init b = false ->
  exists m, In m (a_locks a) /\ In m (a_locks b).
Proof.
  intros body v Hnot a b Ha Hb Hva Hvb Hconc Hconf Hia Hib.
  destruct (common_lock a b) eqn:Hcl.
  - apply common_lock_spec. exact Hcl.
  - exfalso. apply Hnot. unfold racy_vars. apply dedup_In.
    apply in_flat_map. exists a. split; [exact Ha|].
    assert (Hex : existsb (unprotected_pair a) (accesses body) = true).
    { apply existsb_exists. exists b. split; [exact Hb|].
      unfold unprotected_pair. rewrite Hva, Hvb, String.eqb_refl, Hia, Hib, Hcl.
      assert (H1 : negb (Nat.eqb (a_gor a) (a_gor b)) || a_multi a = true).
      { destruct Hconc as [Hne | Hm].
        - apply Nat.eqb_neq in Hne. rewrite Hne. reflexivity.
        - rewrite Hm. apply orb_true_r. }
      assert (H2 : a_write a || a_write b = true).
      { destruct Hconf as [Hw | Hw]; rewrite Hw; [reflexivity | apply orb_true_r]. }
      rewrite H1, H2. reflexivity. }
    rewrite Hex. left. exact Hva.
Qed.

Lemma C14_checker_complete_proof : forall body,
  racy_vars body = [] ->
  forall a b, In a (accesses body) -> In b (accesses body) ->
  a_var a = a_var b ->
  (a_gor a <> a_gor b \/ a_multi a = true) ->
  (a_write a = true \/ a_write b = true) ->
  a_init a = false -> a_init b = false ->
  exists m, In m (a_locks a) /\ In m (a_locks b).
Proof.
  intros body Hnil a b Ha Hb Hv.
  apply (C14_checker_complete_var_proof body (a_var b)); auto.
  rewrite Hnil. intros [].
Qed.

(* ------------------------------------------------------------------ *)
(* A generic mutex semantics                                           *)
(* ------------------------------------------------------------------ *)

Inductive ev :=
| Acq (m : string)
| Rel (m : string)
| Acc (v : string) (w : bool).

(* a configuration: what each thread still has to execute, and the held
   mutexes with their owner *)
Record config := mkC { c_ts : nat -> list ev; c_held : list (string * nat) }.

Definition upd (ts : nat -> list ev) (i : nat) (r : list ev) : nat -> list ev :=
  fun j => if Nat.eqb j i then r else ts j.

Definition is_free (m : string) (held : list (string * nat)) : Prop :=
  forall o, ~ In (m, o) held.

(* releasing removes the (mutex, owner) entry *)
Definition release (m : string) (i : nat) (held : list (string * nat)) : list (string * nat) :=
  filter (fun p => negb (String.eqb (fst p) m && Nat.eqb (snd p) i)) held.

(* interleaving semantics: thread i executes its next event; [Acq m] can fire
   only when m is free *)
Inductive step : config -> config -> Prop :=
| step_acq : forall ts held i m r,
    ts i = Acq m :: r -> is_free m held ->
    step (mkC ts held) (mkC (upd ts i r) ((m, i) :: held))
| step_rel : forall ts held i m r,
    ts i = Rel m :: r ->
    step (mkC ts held) (mkC (upd ts i r) (release m i held))
| step_acc : forall ts held i v w r,
    ts i = Acc v w :: r ->
    step (mkC ts held) (mkC (upd ts i r) held).

Inductive reachable (ts0 : nat -> list ev) : config -> Prop :=
| reach_init : reachable ts0 (mkC ts0 [])
| reach_step : forall c c', reachable ts0 c -> step c c' -> reachable ts0 c'.

Definition holds (c : config) (i : nat) (m : string) : Prop := In (m, i) (c_held c).

(* thread i is about to access a variable while it holds m *)
Definition enabled_access_under (c : config) (i : nat) (m : string) : Prop :=
  (exists v w r, c_ts c i = Acc v w :: r) /\ holds c i m.

Lemma release_In : forall m i held p,
  In p (release m i held) <-> In p held /\ ~ (fst p = m /\ snd p = i).
Proof.
  intros m i held p. unfold release. rewrite filter_In.
  split; intros [H1 H2]; split; auto.
  - intros [Hm Hi]. rewrite Hm, Hi, String.eqb_refl, Nat.eqb_refl in H2. discriminate.
  - apply negb_true_iff. apply andb_false_iff.
    destruct (String.eqb (fst p) m) eqn:Hm; [|left; reflexivity].
    right. apply Nat.eqb_neq. intros Hi. apply H2.
    apply String.eqb_eq in Hm. auto.
Qed.

(* a mutex has at most one owner *)
Lemma C14_mutex_exclusion_proof : forall ts0 c,
  reachable ts0 c ->
  forall m i j, holds c i m -> holds c j m -> i = j.
Proof.
  intros ts0 c Hr. unfold holds.
  induction Hr as [|c c' Hr IH Hstep]; intros m0 i0 j0 Hi Hj.
  - destruct Hi.
  - destruct Hstep as [ts held i m r Hts Hfree | ts held i m r Hts | ts held i v w r Hts];
      simpl in *.
    + destruct Hi as [Hi | Hi]; destruct Hj as [Hj | Hj].
      * congruence.
      * injection Hi as <- <-. exfalso. exact (Hfree _ Hj).
      * injection Hj as <- <-. exfalso. exact (Hfree _ Hi).
      * exact (IH _ _ _ Hi Hj).
    + apply release_In in Hi. apply release_In in Hj.
      exact (IH _ _ _ (proj1 Hi) (proj1 Hj)).
    + exact (IH _ _ _ Hi Hj).
Qed.

(* hence two accesses made under a common mutex are never enabled together
   in two different threads *)
Lemma C14_guarded_accesses_exclusive_proof : forall ts0 c,
  reachable ts0 c ->
  forall m i j, enabled_access_under c i m -> enabled_access_under c j m -> i = j.
Proof.
  intros ts0 c Hr m i j [_ Hi] [_ Hj].
  exact (C14_mutex_exclusion_proof ts0 c Hr m i j Hi Hj).
Qed.

(* ------------------------------------------------------------------ *)
(* The static lockset (as walk_sk computes it) is really held          *)
(* ------------------------------------------------------------------ *)

(* the mutexes held after a prefix of a thread, computed as walk_sk does for
   SLock / SUnlock *)
Definition lock_step (locks : list string) (e : ev) : list string :=
  match e with
  | Acq m => m :: locks
  | Rel m => remove_str m locks
  | Acc _ _ => locks
  end.
Definition static_locks (prefix : list ev) : list string := fold_left lock_step prefix [].

Lemma remove_str_In : forall x m l, In x (remove_str m l) <-> In x l /\ x <> m.
Proof.
  intros x m l. unfold remove_str. rewrite filter_In. split; intros [H1 H2]; split; auto.
  - intros ->. rewrite String.eqb_refl in H2. discriminate.
  - apply negb_true_iff. apply String.eqb_neq. auto.
Qed.

Lemma static_locks_snoc : forall p e,
  static_locks (p ++ [e]) = lock_step (static_locks p) e.
Proof. intros. unfold static_locks. rewrite fold_left_app. reflexivity. Qed.

Definition prefix_inv (ts0 : nat -> list ev) (c : config) : Prop :=
  forall i, exists p, ts0 i = p ++ c_ts c i /\
    forall m, In m (static_locks p) -> In (m, i) (c_held c).

Lemma upd_same : forall ts i r, upd ts i r i = r.
Proof. intros. unfold upd. rewrite Nat.eqb_refl. reflexivity. Qed.
Lemma upd_other : forall ts i r j, j <> i -> upd ts i r j = ts j.
Proof. intros ts i r j H. unfold upd. apply Nat.eqb_neq in H. rewrite H. reflexivity. Qed.

Lemma prefix_inv_reachable : forall ts0 c, reachable ts0 c -> prefix_inv ts0 c.
Proof.
  intros ts0 c Hr. induction Hr as [|c c' Hr IH Hstep].
  - intros i. exists []. split; [reflexivity | intros m []].
  - intros k. destruct (IH k) as (p & Hp & Hlocks).
    destruct Hstep as [ts held i m r Hts Hfree | ts held i m r Hts | ts held i v w r Hts];
      simpl in *; destruct (Nat.eq_dec k i) as [-> | Hne].
    + exists (p ++ [Acq m]). rewrite upd_same, <- app_assoc. simpl.
      split; [rewrite Hp, Hts; reflexivity|].
      intros m'. rewrite static_locks_snoc. simpl.
      intros [<- | H]; [left; reflexivity | right; exact (Hlocks _ H)].
    + exists p. rewrite upd_other by exact Hne. split; [exact Hp|].
      intros m' H. right. exact (Hlocks _ H).
    + exists (p ++ [Rel m]). rewrite upd_same, <- app_assoc. simpl.
      split; [rewrite Hp, Hts; reflexivity|].
      intros m'. rewrite static_locks_snoc. simpl. rewrite remove_str_In.
      intros [H Hm]. apply release_In. split; [exact (Hlocks _ H)|].
      simpl. intros [Heq _]. exact (Hm Heq).
    + exists p. rewrite upd_other by exact Hne. split; [exact Hp|].
      intros m' H. apply release_In. split; [exact (Hlocks _ H)|].
      simpl. intros [_ Heq]. exact (Hne Heq).
    + exists (p ++ [Acc v w]). rewrite upd_same, <- app_assoc. simpl.
      split; [rewrite Hp, Hts; reflexivity|].
      intros m'. rewrite static_locks_snoc. simpl. apply Hlocks.
    + exists p. rewrite upd_other by exact Hne. split; [exact Hp|]. exact Hlocks.
Qed.

(* lockset soundness: two program points of two different threads whose static
   locksets share a mutex are never current together *)
Lemma C14_lockset_sound_proof : forall ts0 c,
  reachable ts0 c ->
  forall i j pi pj m,
    ts0 i = pi ++ c_ts c i -> ts0 j = pj ++ c_ts c j ->
    In m (static_locks pi) -> In m (static_locks pj) ->
    i = j.
Proof.
  intros ts0 c Hr i j pi pj m Hi Hj Hmi Hmj.
  pose proof (prefix_inv_reachable ts0 c Hr) as Hinv.
  destruct (Hinv i) as (qi & Hqi & Hli).
  destruct (Hinv j) as (qj & Hqj & Hlj).
  rewrite Hi in Hqi. apply app_inv_tail in Hqi. subst qi.
  rewrite Hj in Hqj. apply app_inv_tail in Hqj. subst qj.
  exact (C14_mutex_exclusion_proof ts0 c Hr m i j (Hli _ Hmi) (Hlj _ Hmj)).
Qed.

(* ------------------------------------------------------------------ *)
(* Examples                                                            *)
(* ------------------------------------------------------------------ *)

(* a looped goroutine reads x outside the lock and writes it under the lock *)
Definition sk_racy : list sk :=
  [SFor [SGo [SRead "x"; SLock "mu"; SWrite "x"; SUnlock "mu"]]].
(* both accesses under the lock *)
Definition sk_guarded : list sk :=
  [SFor [SGo [SLock "mu"; SRead "x"; SWrite "x"; SUnlock "mu"]]].

Example C14_ex_racy_reported : racy_vars sk_racy = ["x"].
Proof. vm_compute. reflexivity. Qed.

Example C14_ex_guarded_clean : racy_vars sk_guarded = [].
Proof. vm_compute. reflexivity. Qed.

(* non-vacuity of C14_checker_complete: sk_guarded has a conflicting pair that
   may run concurrently, and the theorem's conclusion is about it *)
Example C14_ex_guarded_pair :
  exists a b, In a (accesses sk_guarded) /\ In b (accesses sk_guarded) /\
    a_var a = a_var b /\ a_multi a = true /\ a_write b = true /\
    a_init a = false /\ a_init b = false /\
    a_locks a = ["mu"] /\ a_locks b = ["mu"].
Proof.
  exists (mkAccess 1 true "x" false ["mu"] false), (mkAccess 1 true "x" true ["mu"] false).
  vm_compute. repeat split; auto.
Qed.

(* a body goroutine and a started goroutine, one mutex, a second variable
   touched before the goroutine starts (init) *)
Definition sk_two : list sk :=
  [SWrite "cfg"; SGo [SRead "cfg"; SLock "mu"; SWrite "best"; SUnlock "mu"];
   SLock "mu"; SRead "best"; SUnlock "mu"].
Example C14_ex_two_clean : racy_vars sk_two = [].
Proof. vm_compute. reflexivity. Qed.

(* the mutex semantics is not empty: two threads that both lock mu around an
   access; a reachable configuration in which thread 0 is inside *)
Definition ts_ex : nat -> list ev := fun i =>
  match i with
  | 0 => [Acq "mu"; Acc "x" true; Rel "mu"]
  | 1 => [Acq "mu"; Acc "x" false; Rel "mu"]
  | _ => []
  end.

Example C14_ex_reachable :
  exists c, reachable ts_ex c /\ enabled_access_under c 0 "mu" /\
            c_ts c 1 = [Acq "mu"; Acc "x" false; Rel "mu"].
Proof.
  exists (mkC (upd ts_ex 0 [Acc "x" true; Rel "mu"]) [("mu", 0)]).
  split; [|split].
  - eapply reach_step; [apply reach_init|].
    apply (step_acq ts_ex [] 0 "mu" [Acc "x" true; Rel "mu"]); [reflexivity|].
    intros o [].
  - split; [exists "x", true, [Rel "mu"]; reflexivity | left; reflexivity].
  - reflexivity.
Qed.

Example C14_ex_static_locks :
  static_locks [Acq "a"; Acq "mu"; Acc "x" true; Rel "a"] = ["mu"].
Proof. vm_compute. reflexivity. Qed.
