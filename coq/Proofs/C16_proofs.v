(* Lemmas behind Props/C16.v: on reachable states the lookups of the model
   (Model/Engine.v) never fall back to their defaults. *)

From Coq Require Import List ZArith Bool Arith Lia Permutation Sorted.
From NR Require Import Model.Engine Proofs.Engine_lists Proofs.Engine_inv Proofs.Engine_spec
     Proofs.C20_proofs.
Import ListNotations.
Local Open Scope nat_scope.

(* ================================================================== *)
(* Dimensions                                                          *)
(* ================================================================== *)

(* number of model stops: the input stops, then a start and an end stop per
   vehicle *)
Definition nmodel (inp : input) : nat := nstops inp + 2 * nveh inp.

Definition square (m : list (list Z)) (n : nat) : Prop :=
  length m = n /\ Forall (fun row => length row = n) m.

Definition dims_ok (inp : input) : Prop :=
  square (in_duration inp) (nmodel inp) /\
  square (in_distance inp) (nmodel inp) /\
  (forall u x, In u (in_units inp) -> In x (iu_stops u) -> x < nstops inp).

Theorem C16_dims_ok_unfold_proof : forall inp,
  dims_ok inp <->
  (length (in_duration inp) = nstops inp + 2 * nveh inp /\
   Forall (fun row => length row = nstops inp + 2 * nveh inp) (in_duration inp)) /\
  (length (in_distance inp) = nstops inp + 2 * nveh inp /\
   Forall (fun row => length row = nstops inp + 2 * nveh inp) (in_distance inp)) /\
  (forall u x, In u (in_units inp) -> In x (iu_stops u) -> x < nstops inp).
Proof. intros inp. reflexivity. Qed.

(* a lookup inside a square matrix reads a real entry *)
Lemma square_lookup (m : list (list Z)) (n a b : nat) :
  square m n -> a < n -> b < n ->
  a < length m /\ b < length (nth a m []) /\
  exists row, nth_error m a = Some row /\ nth_error row b = Some (mat m a b).
Proof.
  intros (Hlen & Hrows) Ha Hb. rewrite Forall_forall in Hrows.
  assert (Ha' : a < length m) by (rewrite Hlen; exact Ha).
  assert (Hrow : length (nth a m []) = n) by (apply Hrows; apply nth_In; exact Ha').
  split; [exact Ha'|]. split; [rewrite Hrow; exact Hb|].
  exists (nth a m []). split; [apply nth_error_nth'; exact Ha'|].
  unfold mat, nthZ. apply nth_error_nth'. rewrite Hrow. exact Hb.
Qed.

(* ================================================================== *)
(* Stops of reachable routes                                           *)
(* ================================================================== *)

Lemma route_stop_cases (inp : input) (s : state) (v x : nat) :
  InvT inp s -> v < nveh inp -> In x (route_stops (get_route s v)) ->
  x < nstops inp \/ x = first_stop inp v \/ x = last_stop inp v.
Proof.
  intros HI Hv Hx. destruct (route_has_shape inp s v HI Hv) as (mid & Hst & Hmid).
  rewrite Hst in Hx. destruct Hx as [<-|Hx]; [right; left; reflexivity|].
  apply in_app_or in Hx. destruct Hx as [Hx|[<-|[]]]; [left|right; right; reflexivity].
  rewrite Forall_forall in Hmid. exact (Hmid x Hx).
Qed.

Lemma vehicle_of_end_first (inp : input) (v : nat) : vehicle_of_end inp (first_stop inp v) = v.
Proof.
  unfold vehicle_of_end, first_stop.
  replace (nstops inp + 2 * v - nstops inp) with (v * 2) by lia. apply Nat.div_mul. discriminate.
Qed.

Lemma vehicle_of_end_last (inp : input) (v : nat) : vehicle_of_end inp (last_stop inp v) = v.
Proof.
  unfold vehicle_of_end, last_stop.
  replace (nstops inp + 2 * v + 1 - nstops inp) with (1 + v * 2) by lia.
  rewrite Nat.div_add by discriminate. reflexivity.
Qed.

Theorem C16_route_stops_in_range_proof : forall inp s v x,
  wf_input inp -> reachable inp s -> v < nveh inp -> In x (route_stops (get_route s v)) ->
  x < nstops inp + 2 * nveh inp /\
  (* the vehicle whose start / end location is looked up for a non-input stop *)
  (nstops inp <= x -> vehicle_of_end inp x = v).
Proof.
  intros inp s v x Hwf Hr Hv Hx. pose proof (reachable_invT inp s Hwf Hr) as HI.
  destruct (route_stop_cases inp s v x HI Hv Hx) as [H|[->| ->]].
  - split; lia.
  - split; [unfold first_stop; lia|]. intros _. apply vehicle_of_end_first.
  - split; [unfold last_stop; lia|]. intros _. apply vehicle_of_end_last.
Qed.

(* ================================================================== *)
(* Matrix and list lookups                                             *)
(* ================================================================== *)

Theorem C16_matrix_lookups_in_range_proof : forall inp s v a b,
  wf_input inp -> dims_ok inp -> reachable inp s -> v < nveh inp ->
  In a (route_stops (get_route s v)) -> In b (route_stops (get_route s v)) ->
  (a < length (in_duration inp) /\ b < length (nth a (in_duration inp) []) /\
   exists row, nth_error (in_duration inp) a = Some row /\
               nth_error row b = Some (mat (in_duration inp) a b)) /\
  (a < length (in_distance inp) /\ b < length (nth a (in_distance inp) []) /\
   exists row, nth_error (in_distance inp) a = Some row /\
               nth_error row b = Some (mat (in_distance inp) a b)).
Proof.
  intros inp s v a b Hwf (Hdur & Hdist & _) Hr Hv Ha Hb.
  destruct (C16_route_stops_in_range_proof inp s v a Hwf Hr Hv Ha) as (Ha' & _).
  destruct (C16_route_stops_in_range_proof inp s v b Hwf Hr Hv Hb) as (Hb' & _).
  split; apply (square_lookup _ (nmodel inp)); assumption.
Qed.

(* in particular for the lookups the forward pass makes: consecutive stops,
   and the (first, first) entry read when a vehicle is created *)
Theorem C16_consecutive_lookups_proof : forall inp s v pre a b post,
  wf_input inp -> dims_ok inp -> reachable inp s -> v < nveh inp ->
  route_stops (get_route s v) = pre ++ a :: b :: post ->
  a < length (in_duration inp) /\ b < length (nth a (in_duration inp) []) /\
  a < length (in_distance inp) /\ b < length (nth a (in_distance inp) []).
Proof.
  intros inp s v pre a b post Hwf Hd Hr Hv E.
  destruct (C16_matrix_lookups_in_range_proof inp s v a b Hwf Hd Hr Hv) as
    ((A1 & A2 & _) & (B1 & B2 & _)).
  - rewrite E. apply in_or_app. right. left; reflexivity.
  - rewrite E. apply in_or_app. right. right. left; reflexivity.
  - auto.
Qed.

Lemma first_cell_levels_len (inp : input) (v : nat) :
  length (c_levels (first_cell inp v)) = in_nres inp.
Proof. unfold first_cell. cbn [c_levels]. rewrite map_length. apply length_seqn. Qed.

Lemma next_cell_levels_len (inp : input) (v : nat) (p : cell) (x : nat) :
  length (c_levels (next_cell inp v p x)) = in_nres inp.
Proof.
  unfold next_cell. destruct (temporal_values inp v (c_end p) (c_stop p) x) as [[[tr ar] st] en].
  cbn [c_levels]. rewrite map_length. apply length_seqn.
Qed.

Lemma cells_from_levels_len (inp : input) (v : nat) :
  forall (rest : list nat) (p : cell),
    Forall (fun c => length (c_levels c) = in_nres inp) (cells_from inp v p rest).
Proof.
  induction rest as [|x rest IH]; intros p; cbn [cells_from]; constructor; [|apply IH].
  apply next_cell_levels_len.
Qed.

Theorem C16_list_lookups_in_range_proof : forall inp s,
  wf_input inp -> reachable inp s ->
  (forall v, v < nveh inp ->
     nth_error (in_vehicles inp) v = Some (get_vehicle inp v) /\
     nth_error (st_routes s) v = Some (get_route s v) /\
     get_route s v <> [] /\
     (* one cached level per resource at every cell *)
     (forall c r, In c (get_route s v) -> r < in_nres inp -> r < length (c_levels c))) /\
  (forall x, In x (interior_stops s) -> nth_error (in_stops inp) x = Some (get_stop inp x)) /\
  (forall u, In u (st_planned s) \/ In u (st_unplanned s) ->
     nth_error (in_units inp) u = Some (get_unit inp u)).
Proof.
  intros inp s Hwf Hr. pose proof (reachable_invT inp s Hwf Hr) as HI.
  pose proof HI as ((Hc & _ & _ & (_ & _ & _ & _ & _ & Hb)) & _).
  pose proof Hc as (Hlen & _).
  split; [|split].
  - intros v Hv. split; [apply nth_error_nth'; exact Hv|].
    split; [apply nth_error_nth'; rewrite Hlen; exact Hv|].
    destruct (route_open inp s v HI Hv) as (rest & _ & E). rewrite E.
    split; [discriminate|]. intros c r Hin Hres.
    destruct Hin as [<-|Hin].
    + rewrite first_cell_levels_len. exact Hres.
    + pose proof (cells_from_levels_len inp v rest (first_cell inp v)) as Hall.
      rewrite Forall_forall in Hall. rewrite (Hall c Hin). exact Hres.
  - intros x Hx. apply (In_interior_stops inp s x Hc) in Hx.
    apply nth_error_nth'. exact (proj1 Hx).
  - intros u Hu. apply nth_error_nth'. exact (Hb u Hu).
Qed.

(* ================================================================== *)
(* new_solution                                                        *)
(* ================================================================== *)

Lemma all_some_map_none {A B} (f : A -> option B) :
  forall l : list A, all_some (map f l) = None -> exists x, In x l /\ f x = None.
Proof.
  induction l as [|a l IH]; cbn [map all_some]; [discriminate|].
  destruct (f a) as [b|] eqn:Ea; [|intros _; exists a; split; [left; reflexivity|exact Ea]].
  destruct (all_some (map f l)) as [xs|]; [discriminate|].
  intros _. destruct (IH eq_refl) as (x & Hx & Hf). exists x. split; [right; exact Hx|exact Hf].
Qed.

Theorem C16_new_solution_total_proof : forall inp,
  new_solution inp = None ->
  exists v k, v < nveh inp /\ empty_route inp v = None /\
    stop_violation inp v true (next_cell inp v (first_cell inp v) (last_stop inp v)) = Some k.
Proof.
  intros inp H. unfold new_solution in H.
  destruct (all_some (map (empty_route inp) (seqn (length (in_vehicles inp))))) as [routes|] eqn:Ea;
    [discriminate|].
  destruct (all_some_map_none _ _ Ea) as (v & Hv & He). apply In_seqn in Hv.
  exists v. unfold empty_route in He |- *. cbn [propagate] in He |- *.
  destruct (stop_violation inp v true (next_cell inp v (first_cell inp v) (last_stop inp v)))
    as [k|]; [|discriminate].
  exists k. split; [exact Hv|]. split; reflexivity.
Qed.

(* ================================================================== *)
(* Non-vacuity                                                         *)
(* ================================================================== *)

Example ex2_dims_ok : dims_ok ex2_inp.
Proof.
  split; [|split].
  - split; [reflexivity|]. vm_compute. repeat constructor.
  - split; [reflexivity|]. vm_compute. repeat constructor.
  - intros u x Hu Hx. vm_compute in Hu.
    destruct Hu as [<-|[<-|[]]]; vm_compute in Hx; vm_compute; lia.
Qed.

Example ex16_lookup_applies :
  forall a b, In a [3; 0; 1; 2; 4] -> In b [3; 0; 1; 2; 4] ->
    a < length (in_duration ex2_inp) /\ b < length (nth a (in_duration ex2_inp) []).
Proof.
  intros a b Ha Hb.
  assert (Hv : 0 < nveh ex2_inp) by (vm_compute; lia).
  rewrite <- ex2_route in Ha, Hb.
  destruct (C16_matrix_lookups_in_range_proof ex2_inp ex2_s2 0 a b ex2_wf ex2_dims_ok
              ex2_reachable_s2 Hv Ha Hb) as ((A1 & A2 & _) & _).
  split; assumption.
Qed.

(* a vehicle whose start level exceeds its capacity: no start solution *)
Definition ex16_inp : input :=
  mkInput [] []
          [mkIVehicle (Some [1%Z]) [2%Z] 0%Z None None None None None [] 0%Z true true 0%Z 0%Z 1%Z 1%Z]
          [] [[0%Z; 0%Z]; [0%Z; 0%Z]] [[0%Z; 0%Z]; [0%Z; 0%Z]] 1 ex_opts [].

Example ex16_no_start_solution :
  new_solution ex16_inp = None /\ empty_route ex16_inp 0 = None /\
  stop_violation ex16_inp 0 true (next_cell ex16_inp 0 (first_cell ex16_inp 0) (last_stop ex16_inp 0))
  = Some (KCapacity 0).
Proof. vm_compute. repeat split. Qed.

Print Assumptions C16_dims_ok_unfold_proof.
Print Assumptions C16_route_stops_in_range_proof.
Print Assumptions C16_matrix_lookups_in_range_proof.
Print Assumptions C16_consecutive_lookups_proof.
Print Assumptions C16_list_lookups_in_range_proof.
Print Assumptions C16_new_solution_total_proof.
Print Assumptions ex16_lookup_applies.
Print Assumptions ex16_no_start_solution.
