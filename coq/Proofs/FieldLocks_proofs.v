(* C14: the pairwise lockset condition on the translator's field access lists
   (Model/Discipline.v field_conflicts): if nothing is reported, two accesses of
   one field, one of them a write, outside the exempted methods, hold a common
   mutex - and with C14_mutex_exclusion (a mutex has one holder) they are never
   concurrent. *)
From Coq Require Import List String Bool.
From NR Require Import Model.Discipline.
Import ListNotations.
Open Scope string_scope.

Lemma flat_map_nil_all {A B : Type} (f : A -> list B) (l : list A) :
  flat_map f l = [] -> forall x, In x l -> f x = [].
Proof.
  induction l as [|a r IH]; intros H x Hx; [destruct Hx|].
  cbn [flat_map] in H. apply app_eq_nil in H. destruct H as [Ha Hr].
  destruct Hx as [<-|Hx]; [exact Ha | exact (IH Hr x Hx)].
Qed.

Lemma fa_common_lock_spec (a b : faccess) :
  fa_common_lock a b = true -> exists m, In m (fa_locks a) /\ In m (fa_locks b).
Proof.
  unfold fa_common_lock. intros H.
  apply existsb_exists in H. destruct H as (m & Hma & H).
  apply existsb_exists in H. destruct H as (m' & Hmb & He).
  apply String.eqb_eq in He. subst m'. exists m. split; assumption.
Qed.

Lemma field_lockset_complete_proof (exempt : string -> bool) (l : list faccess) :
  field_conflicts exempt l = [] ->
  forall a b, In a l -> In b l ->
    same_field a b = true -> fa_write a = true ->
    exempt (fa_method a) = false -> exempt (fa_method b) = false ->
    exists m, In m (fa_locks a) /\ In m (fa_locks b).
Proof.
  intros Hc a b Ha Hb Hs Hw Hea Heb.
  unfold field_conflicts in Hc.
  pose proof (flat_map_nil_all _ _ Hc a Ha) as H1. cbv beta in H1.
  pose proof (flat_map_nil_all _ _ H1 b Hb) as H2. cbv beta in H2.
  rewrite Hs, Hw, Hea, Heb in H2. cbn [andb negb] in H2.
  destruct (fa_common_lock a b) eqn:Hcl; [|discriminate].
  exact (fa_common_lock_spec a b Hcl).
Qed.

(* the condition is symmetric in who writes: a read racing with a write is found from the write's side *)
Lemma field_lockset_read_write_proof (exempt : string -> bool) (l : list faccess) :
  field_conflicts exempt l = [] ->
  forall a b, In a l -> In b l ->
    same_field a b = true -> fa_write b = true ->
    exempt (fa_method a) = false -> exempt (fa_method b) = false ->
    exists m, In m (fa_locks a) /\ In m (fa_locks b).
Proof.
  intros Hc a b Ha Hb Hs Hw Hea Heb.
  assert (Hs' : same_field b a = true).
  { unfold same_field in *. apply andb_true_iff in Hs. destruct Hs as [H1 H2].
    apply String.eqb_eq in H1. apply String.eqb_eq in H2. rewrite H1, H2, !String.eqb_refl. reflexivity. }
  destruct (field_lockset_complete_proof exempt l Hc b a Hb Ha Hs' Hw Heb Hea) as (m & H1 & H2).
  exists m. split; assumption.
Qed.

(* non-vacuity: the wrong mutex in one handler is reported, the consistent table is not *)
Definition fl_good : list faccess :=
  [("obs", "OnA", "data", true, ["mA"]); ("obs", "OnB", "data", false, ["mA"]); ("obs", "OnC", "other", true, ["mB"]);
   ("obs", "Report", "data", false, [])].
Definition fl_bad : list faccess :=
  [("obs", "OnA", "data", true, ["mA"]); ("obs", "OnB", "data", true, ["mB"]); ("obs", "OnC", "other", true, ["mB"])].
Example field_lockset_example_proof :
  field_conflicts (String.eqb "Report") fl_good = [] /\
  field_conflicts (fun _ => false) fl_good = [("obs", "data", "OnA", "Report")] /\
  field_conflicts (String.eqb "Report") fl_bad = [("obs", "data", "OnA", "OnB"); ("obs", "data", "OnB", "OnA")].
Proof. vm_compute. repeat split; reflexivity. Qed.
