(* Proofs for Props/Hints.v: the SkipVehicle hint of the constraint estimates
   is never wrong (Model/Hints.v, Model/Estimates.v). *)

From Coq Require Import List ZArith Bool Arith Lia Permutation Sorted.
Import ListNotations.
From NR.Model Require Import Engine Estimates Search Hints.
From NR.Proofs Require Import Search_proofs.
Open Scope Z_scope.

(* ------------------------------------------------------------------ *)
(* 1. per estimate                                                     *)
(* ------------------------------------------------------------------ *)

Lemma hint_capacity_sound : forall inp s mv mv' r,
  mv_unit mv' = mv_unit mv -> mv_vehicle mv' = mv_vehicle mv ->
  hint_capacity inp s mv r = true -> est_capacity inp s mv' r = true.
Proof.
  intros inp s mv mv' r Hu Hv. unfold hint_capacity, est_capacity.
  rewrite Hu, Hv. cbv zeta.
  destruct (negb (res_has_neg inp r) &&
            forallb (fun x => resource_value inp (mv_vehicle mv) r x =? 0)
                    (unit_stops inp (mv_unit mv))); [discriminate|].
  destruct (res_has_neg inp r && negb (res_has_pos inp r)); [reflexivity|].
  destruct (negb (res_has_neg inp r)); [|discriminate].
  unfold hypo_of. cbn [h_old]. rewrite Hv. auto.
Qed.

Lemma hint_capacity_only_when_violated : forall inp s mv r,
  hint_capacity inp s mv r = true -> est_capacity inp s mv r = true.
Proof.
  intros inp s mv r. apply hint_capacity_sound; reflexivity.
Qed.

Lemma hint_attributes_sound : forall inp s mv mv',
  mv_unit mv' = mv_unit mv -> mv_vehicle mv' = mv_vehicle mv ->
  est_attributes inp s mv = true -> est_attributes inp s mv' = true.
Proof.
  intros inp s mv mv' Hu Hv. unfold est_attributes. rewrite Hu, Hv. auto.
Qed.

Lemma hint_max_stops_sound : forall inp s mv mv',
  mv_vehicle mv' = mv_vehicle mv -> length (mv_places mv') = length (mv_places mv) ->
  est_max_stops inp s mv = true -> est_max_stops inp s mv' = true.
Proof.
  intros inp s mv mv' Hv Hl. unfold est_max_stops. rewrite Hv, Hl. auto.
Qed.

(* ------------------------------------------------------------------ *)
(* 2. what the searches see                                            *)
(* ------------------------------------------------------------------ *)

Lemma existsb_perm : forall (A : Type) (f : A -> bool) (l l' : list A),
  Permutation l l' -> existsb f l = existsb f l'.
Proof.
  intros A f l l' H. induction H; simpl.
  - reflexivity.
  - rewrite IHPermutation. reflexivity.
  - destruct (f x), (f y); reflexivity.
  - congruence.
Qed.

Lemma find_none_existsb : forall (A : Type) (f : A -> bool) (l : list A),
  find f l = None <-> existsb f l = false.
Proof.
  intros A f l. induction l as [|a l IH]; simpl.
  - tauto.
  - destruct (f a); simpl.
    + split; discriminate.
    + exact IH.
Qed.

Lemma existsb_block1 : forall (A : Type) (f : A -> bool) (h : bool) (x : A),
  existsb f (if h then [x] else []) = h && f x.
Proof. intros A f h x. destruct h; simpl; [apply orb_false_r|reflexivity]. Qed.

Lemma existsb_block_map : forall (A B : Type) (f : A -> bool) (g : B -> A) (h : bool) (l : list B),
  existsb f (if h then map g l else []) = h && existsb (fun b => f (g b)) l.
Proof.
  intros A B f g h l. destruct h; simpl; [|reflexivity].
  induction l as [|b l IH]; simpl; [reflexivity|]. rewrite IH. reflexivity.
Qed.

Lemma existsb_estimates : forall inp s mv,
  existsb (fun c : cname * bool * bool => snd (fst c)) (estimates_with_hints inp s mv) =
  estimate_violated inp s mv.
Proof.
  intros inp s mv. unfold estimates_with_hints, estimate_violated.
  rewrite !existsb_app, !existsb_block1, existsb_block_map. cbn [fst snd].
  rewrite !orb_assoc.
  replace (existsb (fun b : nat => est_capacity inp s mv b) (seqn (in_nres inp)))
    with (existsb (est_capacity inp s mv) (seqn (in_nres inp))) by reflexivity.
  reflexivity.
Qed.

Lemma first_violated_none : forall inp s mv l,
  Permutation l (estimates_with_hints inp s mv) ->
  (first_violated_hint l = None <-> estimate_violated inp s mv = false).
Proof.
  intros inp s mv l HP. rewrite <- existsb_estimates.
  rewrite <- (existsb_perm _ _ _ _ HP). rewrite <- find_none_existsb.
  unfold first_violated_hint.
  destruct (find (fun c : cname * bool * bool => snd (fst c)) l); split; congruence.
Qed.

Lemma in_block1 : forall (A : Type) (h : bool) (x c : A),
  In c (if h then [x] else []) -> h = true /\ c = x.
Proof. intros A h x c H. destruct h; simpl in H; [|tauto]. destruct H as [<-|[]]. auto. Qed.

Lemma violated_hint_sound : forall inp s mv mv' c,
  In c (estimates_with_hints inp s mv) ->
  snd (fst c) = true -> snd c = true ->
  same_target mv mv' ->
  estimate_violated inp s mv' = true.
Proof.
  intros inp s mv mv' c Hin Hviol Hhint (Hu & Hv & Hl).
  unfold estimates_with_hints in Hin.
  repeat (apply in_app_or in Hin; destruct Hin as [Hin|Hin]).
  - apply in_block1 in Hin. destruct Hin as [Hh ->]. cbn [fst snd] in *.
    unfold estimate_violated. rewrite Hh.
    rewrite (hint_attributes_sound inp s mv mv' Hu Hv Hhint). reflexivity.
  - destruct (has_capacity inp) eqn:Hh; [|destruct Hin].
    apply in_map_iff in Hin. destruct Hin as (r & <- & Hr). cbn [fst snd] in *.
    unfold estimate_violated. rewrite Hh.
    assert (E : existsb (est_capacity inp s mv') (seqn (in_nres inp)) = true).
    { apply existsb_exists. exists r. split; [exact Hr|].
      apply (hint_capacity_sound inp s mv mv' r Hu Hv Hhint). }
    rewrite E. cbn [andb]. rewrite ?orb_true_r. reflexivity.
  - apply in_block1 in Hin. destruct Hin as [_ ->]. discriminate.
  - apply in_block1 in Hin. destruct Hin as [_ ->]. discriminate.
  - apply in_block1 in Hin. destruct Hin as [_ ->]. discriminate.
  - apply in_block1 in Hin. destruct Hin as [Hh ->]. cbn [fst snd] in *.
    unfold estimate_violated. rewrite Hh.
    rewrite (hint_max_stops_sound inp s mv mv' Hv Hl Hhint).
    cbn [andb]. rewrite ?orb_true_r. reflexivity.
  - apply in_block1 in Hin. destruct Hin as [_ ->]. discriminate.
  - apply in_block1 in Hin. destruct Hin as [_ ->]. discriminate.
Qed.

Lemma skip_vehicle_sound : forall inp s mv mv' l,
  Permutation l (estimates_with_hints inp s mv) ->
  first_violated_hint l = Some true ->
  same_target mv mv' ->
  estimate_violated inp s mv' = true.
Proof.
  intros inp s mv mv' l HP Hf Hst. unfold first_violated_hint in Hf.
  destruct (find (fun c : cname * bool * bool => snd (fst c)) l) as [c|] eqn:Ef; [|discriminate].
  injection Hf as Hc. apply find_some in Ef. destruct Ef as [Hin Hv].
  eapply violated_hint_sound; eauto. eapply Permutation_in; eauto.
Qed.

(* the existsb form of the hint (Model/Hints.v skip_vehicle) is sound as well *)
Lemma skip_vehicle_existsb_sound : forall inp s mv mv',
  skip_vehicle inp s mv = true -> same_target mv mv' ->
  estimate_violated inp s mv' = true.
Proof.
  intros inp s mv mv' H Hst. unfold skip_vehicle in H.
  apply existsb_exists in H. destruct H as (c & Hin & Hc).
  apply andb_true_iff in Hc. destruct Hc as [Hv Hh].
  eapply violated_hint_sound; eauto.
Qed.

(* ------------------------------------------------------------------ *)
(* 3. the single-stop search without the hypothesis                    *)
(* ------------------------------------------------------------------ *)

Lemma single_move_same_target : forall u v x g g', same_target (single_move u v x g) (single_move u v x g').
Proof. intros. unfold same_target, single_move. cbn. auto. Qed.

Lemma hint_skip_sound :
  forall inp s u v x (m : nat) (order : move -> list (cname * bool * bool)),
  (forall g, Permutation (order (single_move u v x g)) (estimates_with_hints inp s (single_move u v x g))) ->
  let allowed := fun g => negb (estimate_violated inp s (single_move u v x g)) in
  let skip := fun g => match first_violated_hint (order (single_move u v x g)) with
                       | Some true => true | _ => false end in
  forall g, (1 <= g <= m)%nat -> allowed g = false -> skip g = true ->
  forall g', (1 <= g' <= m)%nat -> allowed g' = false.
Proof.
  intros inp s u v x m order Hord allowed skip g _ _ Hs g' _.
  unfold allowed. apply negb_false_iff. unfold skip in Hs.
  destruct (first_violated_hint (order (single_move u v x g))) as [[|]|] eqn:Ef; try discriminate.
  eapply skip_vehicle_sound; [apply Hord|exact Ef|apply single_move_same_target].
Qed.

Lemma hint_single_stop_executable_iff :
  forall inp s u v x m (order : move -> list (cname * bool * bool))
         (cost : nat -> Z) (coins : list bool) (sorted_by_cost : list nat -> list nat),
  (forall l, Permutation (sorted_by_cost l) l /\
             Sorted (fun a b => (cost a <= cost b)%Z) (sorted_by_cost l)) ->
  (forall g, Permutation (order (single_move u v x g)) (estimates_with_hints inp s (single_move u v x g))) ->
  let allowed := fun g => negb (estimate_violated inp s (single_move u v x g)) in
  let skip := fun g => match first_violated_hint (order (single_move u v x g)) with
                       | Some true => true | _ => false end in
  best_single_stop m allowed skip cost coins sorted_by_cost <> None <->
  exists g, (1 <= g <= m)%nat /\ allowed g = true.
Proof.
  intros inp s u v x m order cost coins sorted_by_cost Hsort Hord allowed skip.
  apply single_stop_executable_iff; [exact Hsort|].
  exact (hint_skip_sound inp s u v x m order Hord).
Qed.

Lemma hint_single_stop_minimal :
  forall inp s u v x m (order : move -> list (cname * bool * bool))
         (cost : nat -> Z) (coins : list bool) (sorted_by_cost : list nat -> list nat),
  (forall l, Permutation (sorted_by_cost l) l /\
             Sorted (fun a b => (cost a <= cost b)%Z) (sorted_by_cost l)) ->
  (forall g, Permutation (order (single_move u v x g)) (estimates_with_hints inp s (single_move u v x g))) ->
  let allowed := fun g => negb (estimate_violated inp s (single_move u v x g)) in
  let skip := fun g => match first_violated_hint (order (single_move u v x g)) with
                       | Some true => true | _ => false end in
  forall g, best_single_stop m allowed skip cost coins sorted_by_cost = Some g ->
  allowed g = true /\ (1 <= g <= m)%nat /\
  forall g', (1 <= g' <= m)%nat -> allowed g' = true -> (cost g <= cost g')%Z.
Proof.
  intros inp s u v x m order cost coins sorted_by_cost Hsort Hord allowed skip.
  apply single_stop_minimal; [exact Hsort|].
  exact (hint_skip_sound inp s u v x m order Hord).
Qed.

(* ------------------------------------------------------------------ *)
(* 4. the distance limit must not hint: a concrete instance            *)
(* ------------------------------------------------------------------ *)

(* Stops: P = 0, U = 1; vehicle 0: first = 2, last = 3, distance limit 5.
   Distances: first->P 1, P->last 1, P->U 1, U->last 1, first->U 10, U->P 10.
   Route before the move: first, P, last (distance 2).
   U in front of P: 10 + 10 + 1 = 21 > 5; U behind P: 1 + 1 + 1 = 3 <= 5.
   Only the distance limit is installed (no quantities, windows, limits). *)
Definition hd_opts : options :=
  mkOptions false false false false false false false false false false false 0 1 0 1 false 0 0 0 0 false [].
Definition hd_stop : istop := mkIStop [] 0 [] None 10 [] None 0 0.
Definition hd_veh : ivehicle :=
  mkIVehicle None [] 0 None None None (Some 5) None [] 0 true true 0 0 1 1.
Definition hd_dist : list (list Z) :=
  [[0; 1; 1; 1]; [10; 0; 10; 1]; [1; 10; 0; 0]; [1; 1; 0; 0]].
Definition hd_dur : list (list Z) :=
  [[0; 0; 0; 0]; [0; 0; 0; 0]; [0; 0; 0; 0]; [0; 0; 0; 0]].
Definition hd_inp : input :=
  mkInput [] [hd_stop; hd_stop] [hd_veh] [mkIUnit [0%nat] []; mkIUnit [1%nat] []]
          hd_dur hd_dist 0 hd_opts [].
Definition hd_dummy : state := mkState [] [] [] [] [] 0.
Definition hd_s0 : state :=
  Eval vm_compute in match new_solution hd_inp with Some s => s | None => hd_dummy end.
Definition hd_mvP : move := mkMove 0 0 [(0, 1)]%nat.
Definition hd_s1 : state := Eval vm_compute in fst (exec_move hd_inp hd_s0 hd_mvP).
Definition hd_mv : move := single_move 1 0 1 1.     (* U in front of P *)
Definition hd_mv' : move := single_move 1 0 1 2.    (* U behind P *)

Lemma hd_new : new_solution hd_inp = Some hd_s0.
Proof. vm_compute. reflexivity. Qed.

Lemma hd_mvP_done : exec_move hd_inp hd_s0 hd_mvP = (hd_s1, Done).
Proof. vm_compute. reflexivity. Qed.

Lemma hd_route : route_stops (get_route hd_s1 0) = [2; 0; 3]%nat.
Proof. vm_compute. reflexivity. Qed.

(* the placement behind P is really executed, the one in front of P is
   really rejected by the exact check of the distance limit *)
Lemma hd_mv'_done : snd (exec_move hd_inp hd_s1 hd_mv') = Done.
Proof. vm_compute. reflexivity. Qed.

Lemma hd_mv_rejected : snd (exec_move hd_inp hd_s1 hd_mv) = Rejected KDistance.
Proof. vm_compute. reflexivity. Qed.

Lemma hint_distance_would_be_wrong : exists inp s mv mv',
  same_target mv mv' /\
  has_distance_limit inp = true /\
  est_distance inp s mv = true /\ est_distance inp s mv' = false /\
  estimate_violated inp s mv' = false.
Proof.
  exists hd_inp, hd_s1, hd_mv, hd_mv'.
  split; [apply single_move_same_target|].
  repeat split; vm_compute; reflexivity.
Qed.

(* ------------------------------------------------------------------ *)
(* 5. a wrong hint loses moves                                         *)
(* ------------------------------------------------------------------ *)

(* the example of section 4 as the search sees it: two positions, the first
   violated (distance), the second allowed; a distance estimate that hinted
   SkipVehicle makes the search give the vehicle up *)
Lemma hint_wrong_hint_loses_moves :
  exists (m : nat) (allowed skip : nat -> bool) (cost : nat -> Z),
    (exists g, (1 <= g <= m)%nat /\ allowed g = true) /\
    best_single_stop m allowed skip cost [] (fun l => l) = None.
Proof.
  exists 2%nat, (fun g => Nat.eqb g 2), (fun g => Nat.eqb g 1), (fun _ => 0).
  split.
  - exists 2%nat. split; [lia|reflexivity].
  - reflexivity.
Qed.

(* the same with the functions of the example: allowed from the estimates of
   hd_inp / hd_s1, skip = "the distance estimate is violated" *)
Lemma hint_wrong_hint_loses_moves_example :
  let allowed := fun g => negb (estimate_violated hd_inp hd_s1 (single_move 1 0 1 g)) in
  let skip := fun g => est_distance hd_inp hd_s1 (single_move 1 0 1 g) in
  (exists g, (1 <= g <= 2)%nat /\ allowed g = true) /\
  best_single_stop 2 allowed skip (fun _ => 0) [] (fun l => l) = None.
Proof.
  split.
  - exists 2%nat. split; [lia|]. vm_compute. reflexivity.
  - vm_compute. reflexivity.
Qed.
