(* Proofs about the time-dependent duration model (Model/TimeDep.v).

   Part A: the walk (ValueAtValue) seen as a trip through a contiguous list of
           elements: non-negativity, FIFO, totality.
   Part B: the structure built by set_expression / set_expressions and the
           lookups (get_element, map_lookup) on it.
   Part C: the C17 theorems for [fst (set_expressions td_empty fs)]. *)

From Coq Require Import List ZArith QArith Qround Bool Lia Lqa Setoid Morphisms.
From NR Require Import Model.TimeDep.
Import ListNotations.
Open Scope Q_scope.

(* ------------------------------------------------------------------ *)
(** * Domain *)

Definition frame_ok (f : Z * Z * nat) : Prop :=
  let '(s, e, k) := f in
  (0 <= s /\ s < e /\ s mod 60 = 0 /\ e mod 60 = 0 /\ e < max_time)%Z /\ k <> 0%nat.

Definition frames_disjoint (f g : Z * Z * nat) : Prop :=
  let '(s1, e1, _) := f in let '(s2, e2, _) := g in (e1 <= s2 \/ e2 <= s1)%Z.

Definition layout_ok (fs : list (Z * Z * nat)) : Prop :=
  Forall frame_ok fs /\ ForallOrdPairs frames_disjoint fs /\
  (forall f g, In f fs -> In g fs -> (snd (fst g) - fst (fst f) <= week)%Z).

Definition vals_ok (vals : nat -> Q) : Prop := forall k, 0 <= vals k.

Definition in_frame (v : Q) (f : Z * Z * nat) : Prop :=
  let '(s, e, _) := f in inject_Z s <= v /\ v < inject_Z e.

(* ------------------------------------------------------------------ *)
(** * Results up to Qeq *)

Definition tdres_eq (a b : tdres) : Prop :=
  match a, b with
  | Val x, Val y => x == y
  | Panic, Panic => True
  | _, _ => False
  end.

Definition tdres_add (d : Q) (r : tdres) : tdres :=
  match r with Val x => Val (d + x) | Panic => Panic end.

Lemma tdres_eq_refl r : tdres_eq r r.
Proof. destruct r; simpl; auto. reflexivity. Qed.

Lemma tdres_eq_sym a b : tdres_eq a b -> tdres_eq b a.
Proof. destruct a, b; simpl; auto. intros H; symmetry; exact H. Qed.

Lemma tdres_eq_trans a b c : tdres_eq a b -> tdres_eq b c -> tdres_eq a c.
Proof. destruct a, b, c; simpl; auto; try tauto. intros H1 H2. rewrite H1. exact H2. Qed.

Lemma tdres_eq_val a x : tdres_eq a (Val x) -> exists y, a = Val y /\ y == x.
Proof. destruct a; simpl; [eauto | tauto]. Qed.

Lemma tdres_eq_val_l a x : tdres_eq (Val x) a -> exists y, a = Val y /\ x == y.
Proof. destruct a; simpl; [eauto | tauto]. Qed.

Lemma tdres_add_eq d d' a b : d == d' -> tdres_eq a b -> tdres_eq (tdres_add d a) (tdres_add d' b).
Proof. destruct a, b; simpl; auto. intros H1 H2. rewrite H1, H2. reflexivity. Qed.

Lemma Qeq_bool_spec x y : reflect (x == y) (Qeq_bool x y).
Proof.
  destruct (Qeq_bool x y) eqn:E; constructor.
  - apply Qeq_bool_iff; exact E.
  - apply Qeq_bool_neq; exact E.
Qed.

Lemma Qle_bool_spec x y : reflect (x <= y) (Qle_bool x y).
Proof.
  destruct (Qle_bool x y) eqn:E; constructor.
  - apply Qle_bool_iff; exact E.
  - intro H. apply Qle_bool_iff in H. congruence.
Qed.

(* ------------------------------------------------------------------ *)
(** * Part A.  The walk *)

Definition elen (e : elem) : Q := inject_Z (e_end e) - inject_Z (e_start e).

Lemma is_nil_false {A} (l : list A) : l <> [] -> is_nil l = false.
Proof. destruct l; [congruence|reflexivity]. Qed.

(* One step in an element of expression [k] of which [len] seconds are left,
   with fraction [fc] of the trip already done; [lst] tells that the element
   is the last one (no successor): it is then in force for as long as needed;
   [cont fc'] is the rest of the trip.  The result is the duration *added*
   from here on. *)
Definition hstep (vals : nat -> Q) (fc len : Q) (k : nat) (lst : bool) (cont : Q -> tdres) : tdres :=
  let req := (1 - fc) * vals k in
  if Qeq_bool req 0 then Val 0 else
  let can := len / req in
  if Qle_bool 1 can || lst then Val req else
  tdres_add (can * req) (cont (fc + can * (1 - fc))).

Fixpoint wk (vals : nat -> Q) (fc : Q) (l : list elem) : tdres :=
  match l with
  | [] => Panic
  | e :: r => hstep vals fc (elen e) (e_expr e) (is_nil r) (fun fc' => wk vals fc' r)
  end.

Definition walkH (vals : nat -> Q) (fc len : Q) (k : nat) (rest : list elem) : tdres :=
  hstep vals fc len k (is_nil rest) (fun fc' => wk vals fc' rest).

Lemma wk_cons vals fc e r : wk vals fc (e :: r) = walkH vals fc (elen e) (e_expr e) r.
Proof. reflexivity. Qed.

Lemma hstep_morph vals fc fc' len len' k lst cont cont' :
  fc == fc' -> len == len' ->
  (forall a b, a == b -> tdres_eq (cont a) (cont' b)) ->
  tdres_eq (hstep vals fc len k lst cont) (hstep vals fc' len' k lst cont').
Proof.
  intros Hfc Hlen Hcont. unfold hstep.
  assert (Hreq : (1 - fc) * vals k == (1 - fc') * vals k) by (rewrite Hfc; reflexivity).
  set (req := (1 - fc) * vals k) in *. set (req' := (1 - fc') * vals k) in *.
  assert (Hcan : len / req == len' / req') by (rewrite Hreq, Hlen; reflexivity).
  destruct (Qeq_bool_spec req 0) as [E|E], (Qeq_bool_spec req' 0) as [E'|E'].
  - simpl; reflexivity.
  - exfalso; apply E'; rewrite <- Hreq; exact E.
  - exfalso; apply E; rewrite Hreq; exact E'.
  - destruct (Qle_bool_spec 1 (len / req)) as [L|L], (Qle_bool_spec 1 (len' / req')) as [L'|L'].
    + simpl; exact Hreq.
    + exfalso; apply L'; rewrite <- Hcan; exact L.
    + exfalso; apply L; rewrite Hcan; exact L'.
    + destruct lst; cbn [orb].
      * simpl; exact Hreq.
      * apply tdres_add_eq.
        -- rewrite Hcan, Hreq; reflexivity.
        -- apply Hcont. rewrite Hcan, Hfc; reflexivity.
Qed.

Lemma wk_morph vals l : forall fc fc', fc == fc' -> tdres_eq (wk vals fc l) (wk vals fc' l).
Proof.
  induction l as [|e r IH]; intros fc fc' H; simpl; auto.
  apply hstep_morph; auto. reflexivity.
Qed.

Lemma walkH_morph vals fc fc' len len' k r :
  fc == fc' -> len == len' -> tdres_eq (walkH vals fc len k r) (walkH vals fc' len' k r).
Proof. intros H1 H2. apply hstep_morph; auto. apply wk_morph. Qed.

(* the model's walk is [dur +] the clean walk *)
Lemma walk_wk vals l : forall fc fc' dur dur', fc == fc' -> dur == dur' ->
  tdres_eq (walk vals fc dur l) (tdres_add dur' (wk vals fc' l)).
Proof.
  induction l as [|e r IH]; intros fc fc' dur dur' Hfc Hdur; [simpl; auto|].
  cbn [walk wk]. unfold hstep, elen.
  assert (Hreq : (1 - fc) * vals (e_expr e) == (1 - fc') * vals (e_expr e)) by (rewrite Hfc; reflexivity).
  set (req := (1 - fc) * vals (e_expr e)) in *. set (req' := (1 - fc') * vals (e_expr e)) in *.
  set (len := inject_Z (e_end e) - inject_Z (e_start e)).
  assert (Hcan : len / req == len / req') by (rewrite Hreq; reflexivity).
  destruct (Qeq_bool_spec req 0) as [E|E], (Qeq_bool_spec req' 0) as [E'|E'].
  - simpl. rewrite Hdur. ring.
  - exfalso; apply E'; rewrite <- Hreq; exact E.
  - exfalso; apply E; rewrite Hreq; exact E'.
  - destruct (Qle_bool_spec 1 (len / req)) as [L|L], (Qle_bool_spec 1 (len / req')) as [L'|L'].
    + simpl. rewrite Hdur, Hreq. reflexivity.
    + exfalso; apply L'; rewrite <- Hcan; exact L.
    + exfalso; apply L; rewrite Hcan; exact L'.
    + destruct (is_nil r) eqn:En; cbn [orb].
      * simpl. rewrite Hdur, Hreq. reflexivity.
      * eapply tdres_eq_trans.
        -- apply (IH _ (fc' + len / req' * (1 - fc')) _ (dur' + len / req' * req')).
           ++ rewrite Qred_correct, Hcan, Hfc. reflexivity.
           ++ rewrite Qred_correct, Hcan, Hreq, Hdur. reflexivity.
        -- destruct (wk vals (fc' + len / req' * (1 - fc')) r); simpl; auto. ring.
Qed.

(** ** Characterisation of one step *)

Lemma req_pos fc d : fc < 1 -> 0 < d -> 0 < (1 - fc) * d.
Proof. intros H1 H2. apply Qmult_lt_0_compat; lra. Qed.

Lemma req_nonneg fc d : fc < 1 -> 0 <= d -> 0 <= (1 - fc) * d.
Proof. intros H1 H2. apply Qmult_le_0_compat; lra. Qed.

Lemma hstep_zero vals fc len k lst cont : vals k == 0 -> hstep vals fc len k lst cont = Val 0.
Proof.
  intros H. unfold hstep.
  destruct (Qeq_bool_spec ((1 - fc) * vals k) 0) as [E|E]; auto.
  exfalso; apply E. rewrite H. ring.
Qed.

(* the trip ends in this element: there is room for what is left of it, or
   the element is the last one *)
Lemma hstep_fin vals fc len k lst cont :
  fc < 1 -> 0 < vals k -> (1 - fc) * vals k <= len \/ lst = true ->
  hstep vals fc len k lst cont = Val ((1 - fc) * vals k).
Proof.
  intros Hfc Hd Hle. unfold hstep.
  pose proof (req_pos fc (vals k) Hfc Hd) as Hreq.
  destruct (Qeq_bool_spec ((1 - fc) * vals k) 0) as [E|E]; [lra|].
  destruct (Qle_bool_spec 1 (len / ((1 - fc) * vals k))) as [L|L]; [reflexivity|].
  destruct Hle as [Hle| ->]; [|reflexivity].
  exfalso; apply L. apply Qle_shift_div_l; lra.
Qed.

Lemma hstep_over vals fc len k cont :
  fc < 1 -> 0 < vals k -> len < (1 - fc) * vals k ->
  hstep vals fc len k false cont =
  tdres_add (len / ((1 - fc) * vals k) * ((1 - fc) * vals k))
            (cont (fc + len / ((1 - fc) * vals k) * (1 - fc))).
Proof.
  intros Hfc Hd Hlt. unfold hstep.
  pose proof (req_pos fc (vals k) Hfc Hd) as Hreq.
  destruct (Qeq_bool_spec ((1 - fc) * vals k) 0) as [E|E]; [lra|].
  destruct (Qle_bool_spec 1 (len / ((1 - fc) * vals k))) as [L|L]; [|reflexivity].
  exfalso.
  assert (len / ((1 - fc) * vals k) < 1) by (apply Qlt_shift_div_r; lra).
  lra.
Qed.

Lemma over_len fc d len : fc < 1 -> 0 < d -> len / ((1 - fc) * d) * ((1 - fc) * d) == len.
Proof. intros H1 H2. field. split; lra. Qed.

Lemma over_fc fc d len : fc < 1 -> 0 < d -> fc + len / ((1 - fc) * d) * (1 - fc) == fc + len / d.
Proof. intros H1 H2. field. split; lra. Qed.

Lemma over_fc_lt fc d len : 0 < d -> len < (1 - fc) * d -> fc + len / d < 1.
Proof.
  intros H2 H3.
  assert (len / d < 1 - fc) by (apply Qlt_shift_div_r; lra). lra.
Qed.

Lemma div_nonneg len d : 0 <= len -> 0 < d -> 0 <= len / d.
Proof. intros H1 H2. apply Qle_shift_div_l; lra. Qed.

Lemma walkH_over vals fc len k r :
  r <> [] -> fc < 1 -> 0 < vals k -> len < (1 - fc) * vals k ->
  tdres_eq (walkH vals fc len k r) (tdres_add len (wk vals (fc + len / vals k) r)).
Proof.
  intros Hne Hfc Hd Hlt. unfold walkH. rewrite (is_nil_false r Hne).
  rewrite hstep_over by assumption.
  apply tdres_add_eq.
  - apply over_len; assumption.
  - apply wk_morph. apply over_fc; assumption.
Qed.

(* in the last element the trip always ends: what is left of it is driven at
   this element's duration, however little of the element is left (or even if
   the position is beyond its end) *)
Lemma walkH_inv_last vals fc len k x :
  vals_ok vals -> fc < 1 -> walkH vals fc len k [] = Val x -> x == (1 - fc) * vals k.
Proof.
  intros Hv Hfc H. unfold walkH in H. cbn [is_nil] in H.
  destruct (Qlt_le_dec 0 (vals k)) as [Hd|Hd].
  - rewrite hstep_fin in H by (try assumption; right; reflexivity).
    injection H as H. rewrite H. reflexivity.
  - assert (Hz : vals k == 0) by (pose proof (Hv k); lra).
    rewrite hstep_zero in H by assumption.
    injection H as H. rewrite <- H, Hz. ring.
Qed.

(* in an element that has a successor *)
Lemma walkH_inv vals fc len k r x :
  vals_ok vals -> fc < 1 -> r <> [] -> walkH vals fc len k r = Val x ->
  (vals k == 0 /\ x == 0) \/
  (0 < vals k /\ (1 - fc) * vals k <= len /\ x == (1 - fc) * vals k) \/
  (0 < vals k /\ len < (1 - fc) * vals k /\
   exists y, wk vals (fc + len / vals k) r = Val y /\ x == len + y).
Proof.
  intros Hv Hfc Hne H.
  destruct (Qlt_le_dec 0 (vals k)) as [Hd|Hd].
  - right. destruct (Qlt_le_dec len ((1 - fc) * vals k)) as [Hl|Hl].
    + right. split; [assumption|]. split; [assumption|].
      pose proof (walkH_over vals fc len k r Hne Hfc Hd Hl) as Ho.
      rewrite H in Ho.
      destruct (wk vals (fc + len / vals k) r) as [y|]; simpl in Ho; [|tauto].
      exists y. split; auto.
    + left. unfold walkH in H. rewrite hstep_fin in H by (try assumption; left; assumption).
      injection H as H. split; [assumption|]. split; [assumption|]. rewrite H. reflexivity.
  - left. assert (Hz : vals k == 0) by (pose proof (Hv k); lra).
    unfold walkH in H. rewrite hstep_zero in H by assumption.
    injection H as H. split; [assumption|]. rewrite <- H. reflexivity.
Qed.

Lemma cons_ne {A} (a : A) l : a :: l <> [].
Proof. discriminate. Qed.

(** ** Non-negativity *)

Definition lens_ok (l : list elem) : Prop := Forall (fun e => 0 <= elen e) l.

Lemma wk_nonneg vals (Hv : vals_ok vals) l : lens_ok l ->
  forall fc x, fc < 1 -> wk vals fc l = Val x -> 0 <= x.
Proof.
  induction l as [|e r IH]; intros Hl fc x Hfc H; [discriminate|].
  inversion Hl as [|? ? Hle Hlr]; subst.
  rewrite wk_cons in H.
  destruct r as [|e' r'].
  - pose proof (walkH_inv_last _ _ _ _ _ Hv Hfc H) as Hx.
    pose proof (req_nonneg fc _ Hfc (Hv (e_expr e))). lra.
  - destruct (walkH_inv _ _ _ _ _ _ Hv Hfc (cons_ne e' r') H)
      as [[_ Hx]|[(Hd & _ & Hx)|(Hd & Hlt & y & Hy & Hx)]].
    + lra.
    + pose proof (req_pos _ _ Hfc Hd). lra.
    + assert (0 <= y) by (eapply (IH Hlr); [|exact Hy]; apply over_fc_lt; assumption).
      lra.
Qed.

(* [len] may be negative in the last element only (departure after its end) *)
Lemma walkH_nonneg vals (Hv : vals_ok vals) fc len k r x :
  lens_ok r -> r = [] \/ 0 <= len -> fc < 1 -> walkH vals fc len k r = Val x -> 0 <= x.
Proof.
  intros Hlr Hlen Hfc H.
  destruct r as [|e' r'].
  - pose proof (walkH_inv_last _ _ _ _ _ Hv Hfc H) as Hx.
    pose proof (req_nonneg fc _ Hfc (Hv k)). lra.
  - destruct Hlen as [C|Hlen]; [discriminate|].
    destruct (walkH_inv _ _ _ _ _ _ Hv Hfc (cons_ne e' r') H)
      as [[_ Hx]|[(Hd & _ & Hx)|(Hd & Hlt & y & Hy & Hx)]].
    + lra.
    + pose proof (req_pos _ _ Hfc Hd). lra.
    + assert (0 <= y) by (eapply (wk_nonneg vals Hv _ Hlr); [|exact Hy]; apply over_fc_lt; assumption).
      lra.
Qed.

(** ** Contiguous lists of elements *)

Fixpoint chain {A : Type} (R : A -> A -> Prop) (l : list A) : Prop :=
  match l with
  | a :: (b :: _) as r => R a b /\ chain R r
  | _ => True
  end.

Definition contig (l : list elem) : Prop :=
  chain (fun a b => e_end a = e_start b) l /\
  Forall (fun e => (e_start e <= e_end e)%Z) l.

Lemma contig_tail e r : contig (e :: r) -> contig r.
Proof.
  intros [Hc Hf]. inversion Hf; subst. split; auto.
  destruct r; simpl in *; tauto.
Qed.

Lemma contig_hd e r : contig (e :: r) -> (e_start e <= e_end e)%Z.
Proof. intros [_ Hf]. inversion Hf; auto. Qed.

Lemma contig_link e e' r : contig (e :: e' :: r) -> e_end e = e_start e'.
Proof. intros [Hc _]. simpl in Hc. tauto. Qed.

Lemma contig_lens l : contig l -> lens_ok l.
Proof.
  intros [_ Hf]. unfold lens_ok. eapply Forall_impl; [|exact Hf].
  intros a Ha. unfold elen. simpl in Ha. rewrite Zle_Qle in Ha. lra.
Qed.

Lemma div_le_mono a b d : a <= b -> 0 < d -> a / d <= b / d.
Proof.
  intros H1 H2. unfold Qdiv. apply Qmult_le_compat_r; auto.
  apply Qinv_le_0_compat. lra.
Qed.

(** ** Monotonicity (FIFO) inside one element and beyond:
    trip 1 is at an earlier position with more of the trip done.
    In the last element the positions may be beyond its end. *)

Lemma walkH_mono vals (Hv : vals_ok vals) r : forall e, contig (e :: r) ->
  forall k fc1 fc2 p1 p2 x1 x2,
  fc2 <= fc1 -> fc1 < 1 -> p1 <= p2 -> r = [] \/ p2 <= inject_Z (e_end e) ->
  walkH vals fc1 (inject_Z (e_end e) - p1) k r = Val x1 ->
  walkH vals fc2 (inject_Z (e_end e) - p2) k r = Val x2 ->
  p1 + x1 <= p2 + x2.
Proof.
  induction r as [|e' r' IH]; intros e Hc k fc1 fc2 p1 p2 x1 x2 Hfc Hfc1 Hp Hp2 H1 H2;
  assert (Hfc2 : fc2 < 1) by lra;
  assert (Hmul : (1 - fc1) * vals k <= (1 - fc2) * vals k)
    by (apply Qmult_le_compat_r; [lra|apply Hv]).
  (* r = [] *)
  - pose proof (walkH_inv_last _ _ _ _ _ Hv Hfc1 H1) as Hx1.
    pose proof (walkH_inv_last _ _ _ _ _ Hv Hfc2 H2) as Hx2.
    lra.
  (* r = e' :: r' *)
  - destruct Hp2 as [C|Hp2]; [discriminate|].
    pose proof (contig_lens _ (contig_tail _ _ Hc)) as Hlr.
    set (E := inject_Z (e_end e)) in *.
    destruct (walkH_inv _ _ _ _ _ _ Hv Hfc1 (cons_ne e' r') H1)
      as [[Hd1 Hx1]|[(Hd1 & Hl1 & Hx1)|(Hd1 & Hl1 & y1 & Hy1 & Hx1)]];
    destruct (walkH_inv _ _ _ _ _ _ Hv Hfc2 (cons_ne e' r') H2)
      as [[Hd2 Hx2]|[(Hd2 & Hl2 & Hx2)|(Hd2 & Hl2 & y2 & Hy2 & Hx2)]];
    try lra.
    + assert (0 <= y2)
        by (eapply (wk_nonneg vals Hv _ Hlr); [|exact Hy2]; apply over_fc_lt; assumption).
      lra.
    + rewrite wk_cons in Hy1, Hy2. unfold elen in Hy1, Hy2.
      assert (Hle : inject_Z (e_start e') + y1 <= inject_Z (e_start e') + y2).
      { eapply (IH e' (contig_tail _ _ Hc) _ _ _ _ _ _ _); [| | | |exact Hy1|exact Hy2].
        - assert ((E - p2) / vals k <= (E - p1) / vals k) by (apply div_le_mono; lra). lra.
        - apply over_fc_lt; assumption.
        - lra.
        - right. pose proof (contig_hd _ _ (contig_tail _ _ Hc)) as Hh.
          rewrite Zle_Qle in Hh. exact Hh. }
      lra.
Qed.

Lemma contig_app_r pre l : contig (pre ++ l) -> contig l.
Proof. induction pre as [|a pre IH]; simpl; auto. intros H. apply IH. eapply contig_tail; eauto. Qed.

Lemma contig_app_le mid : forall e e2 r2,
  contig (e :: mid ++ e2 :: r2) -> (e_end e <= e_start e2)%Z.
Proof.
  induction mid as [|m mid IH]; intros e e2 r2 Hc; simpl in Hc.
  - rewrite (contig_link _ _ _ Hc). lia.
  - pose proof (contig_link _ _ _ Hc) as Hl.
    pose proof (contig_tail _ _ Hc) as Ht.
    pose proof (contig_hd _ _ Ht) as Hh.
    pose proof (IH _ _ _ Ht). lia.
Qed.

(** ** FIFO for departures in different elements (the second one possibly
    beyond the end of the last element) *)

Lemma fifo_suffix vals (Hv : vals_ok vals) mid : forall e k1 fc1 p1 e2 r2 v2 x1 x2,
  contig (e :: mid ++ e2 :: r2) -> 0 <= fc1 -> fc1 < 1 -> p1 <= inject_Z (e_end e) ->
  inject_Z (e_start e2) <= v2 -> r2 = [] \/ v2 <= inject_Z (e_end e2) ->
  walkH vals fc1 (inject_Z (e_end e) - p1) k1 (mid ++ e2 :: r2) = Val x1 ->
  walkH vals 0 (inject_Z (e_end e2) - v2) (e_expr e2) r2 = Val x2 ->
  p1 + x1 <= v2 + x2.
Proof.
  induction mid as [|m mid' IH]; intros e k1 fc1 p1 e2 r2 v2 x1 x2 Hc Hfc0 Hfc1 Hp1 Hv2s Hv2e H1 H2;
  pose proof (contig_app_le _ _ _ _ Hc) as Hle; rewrite Zle_Qle in Hle;
  assert (Hc2 : contig (e2 :: r2)) by (match type of Hc with contig (e :: ?l ++ _) => apply (contig_app_r (e :: l)) end; exact Hc);
  assert (Hx2 : 0 <= x2)
    by (eapply (walkH_nonneg vals Hv); [| | |exact H2];
        [apply contig_lens; eapply contig_tail; exact Hc2
        |destruct Hv2e as [Hv2e|Hv2e]; [left; exact Hv2e|right; lra]
        |lra]);
  match type of H1 with walkH _ _ _ _ ?l = _ =>
    assert (Hne : l <> []) by (intros C; apply app_eq_nil in C; destruct C as [_ C]; discriminate C)
  end;
  destruct (walkH_inv _ _ _ _ _ _ Hv Hfc1 Hne H1) as [[Hd1 Hx1]|[(Hd1 & Hl1 & Hx1)|(Hd1 & Hl1 & y1 & Hy1 & Hx1)]];
  try lra;
  assert (Hfc' : fc1 + (inject_Z (e_end e) - p1) / vals k1 < 1) by (apply over_fc_lt; assumption);
  assert (Hfc'0 : 0 <= fc1 + (inject_Z (e_end e) - p1) / vals k1)
    by (assert (0 <= (inject_Z (e_end e) - p1) / vals k1) by (apply div_nonneg; lra); lra).
  - simpl app in *. rewrite wk_cons in Hy1. unfold elen in Hy1.
    pose proof (contig_link _ _ _ Hc) as Hlk.
    assert (inject_Z (e_start e2) + y1 <= v2 + x2).
    { eapply (walkH_mono vals Hv r2 e2 Hc2); [| | | |exact Hy1|exact H2]; try lra. exact Hv2e. }
    rewrite Hlk in *. lra.
  - simpl app in *. rewrite wk_cons in Hy1. unfold elen in Hy1.
    pose proof (contig_link _ _ _ Hc) as Hlk.
    pose proof (contig_tail _ _ Hc) as Ht.
    pose proof (contig_hd _ _ Ht) as Hh. rewrite Zle_Qle in Hh.
    assert (inject_Z (e_start m) + y1 <= v2 + x2).
    { eapply (IH m _ _ _ e2 r2 v2 y1 x2 Ht); [| | | | |exact Hy1|exact H2]; try lra. exact Hv2e. }
    rewrite Hlk in *. lra.
Qed.

Definition dflt : elem := mkElem 0 0 0.

Lemma contig_last_le r : forall e, contig (e :: r) -> (e_end e <= e_end (last (e :: r) dflt))%Z.
Proof.
  induction r as [|e' r' IH]; intros e Hc.
  - simpl. lia.
  - change (last (e :: e' :: r') dflt) with (last (e' :: r') dflt).
    pose proof (contig_link _ _ _ Hc) as Hl.
    pose proof (contig_tail _ _ Hc) as Ht.
    pose proof (contig_hd _ _ Ht).
    pose proof (IH _ Ht). lia.
Qed.

(** ** Totality: the walk never runs off a non-empty list, because the last
    element always finishes the trip *)

Lemma hstep_total vals fc len k lst cont :
  (lst = false -> forall fc', exists y, cont fc' = Val y) ->
  exists x, hstep vals fc len k lst cont = Val x.
Proof.
  intros Hc. unfold hstep.
  destruct (Qeq_bool ((1 - fc) * vals k) 0); [eexists; reflexivity|].
  destruct (Qle_bool 1 (len / ((1 - fc) * vals k))); [eexists; reflexivity|].
  destruct lst; [eexists; reflexivity|]. cbn [orb].
  destruct (Hc eq_refl (fc + len / ((1 - fc) * vals k) * (1 - fc))) as [y Hy].
  rewrite Hy. eexists; reflexivity.
Qed.

Lemma wk_total vals l : l <> [] -> forall fc, exists x, wk vals fc l = Val x.
Proof.
  induction l as [|e r IH]; intros Hne fc; [congruence|].
  cbn [wk]. apply hstep_total. intros Hn fc'. apply IH.
  destruct r; [discriminate Hn|discriminate].
Qed.

Lemma walkH_total vals fc len k r : exists x, walkH vals fc len k r = Val x.
Proof.
  unfold walkH. apply hstep_total. intros Hn fc'. apply wk_total.
  destruct r; [discriminate Hn|discriminate].
Qed.

(** ** value_at_value on the located element *)

Lemma value_at_value_spec t vals v el rest :
  vals_ok vals -> map_is_empty t = false -> get_element t v = Some (el :: rest) ->
  tdres_eq (value_at_value t vals v)
           (walkH vals 0 (inject_Z (e_end el) - v) (e_expr el) rest).
Proof.
  intros Hv Hm Hg. unfold value_at_value. rewrite Hm, Hg.
  set (d := vals (e_expr el)). set (len := inject_Z (e_end el) - v).
  destruct (Qeq_bool_spec d 0) as [E|E].
  - unfold walkH. rewrite hstep_zero by exact E. simpl. reflexivity.
  - assert (Hd : 0 < d) by (pose proof (Hv (e_expr el)); fold d in H;
      destruct (Qlt_le_dec 0 d); [assumption|exfalso; apply E; lra]).
    destruct (Qle_bool_spec d 0) as [L0|L0]; [lra|].
    assert (H01 : 0 < 1) by lra.
    destruct (Qle_bool_spec 1 (Qred (len / d))) as [L|L].
    + rewrite Qred_correct in L.
      assert (Hle : (1 - 0) * d <= len).
      { assert (len == len / d * d) by (field; lra).
        assert (1 * d <= len / d * d) by (apply Qmult_le_compat_r; lra). lra. }
      unfold walkH. fold d in Hle. unfold d in Hle.
      rewrite hstep_fin by (try assumption; left; assumption). simpl. fold d. ring.
    + rewrite Qred_correct in L.
      destruct (is_nil rest) eqn:En; cbn [orb].
      * unfold walkH. rewrite En.
        rewrite hstep_fin by (try assumption; right; reflexivity). simpl. fold d. ring.
      * assert (Hne : rest <> []) by (intros ->; discriminate En).
        assert (Hlt : len < (1 - 0) * d).
        { destruct (Qlt_le_dec len ((1 - 0) * d)) as [|C]; [assumption|].
          exfalso; apply L. apply Qle_shift_div_l; lra. }
        apply tdres_eq_trans with (tdres_add len (wk vals (0 + len / d) rest)).
        -- apply walk_wk.
           ++ rewrite Qred_correct. ring.
           ++ rewrite Qred_correct, Qred_correct. field. lra.
        -- apply tdres_eq_sym. apply walkH_over; assumption.
Qed.

(* ------------------------------------------------------------------ *)
(** * Part B.  The structure built by set_expression *)

(** ** chain / last: list lemmas *)

Lemma chain_app_mid {A} (R : A -> A -> Prop) p : forall a b q,
  chain R (p ++ a :: b :: q) -> R a b.
Proof.
  induction p as [|x p IH]; intros a b q H.
  - simpl in H. tauto.
  - apply (IH a b q). simpl in H. destruct (p ++ a :: b :: q); [exact I|tauto].
Qed.

Lemma chain_tail {A} (R : A -> A -> Prop) a l : chain R (a :: l) -> chain R l.
Proof. destruct l; simpl; tauto. Qed.

Lemma chain_app_r {A} (R : A -> A -> Prop) p l : chain R (p ++ l) -> chain R l.
Proof. induction p as [|x p IH]; simpl app; auto. intros H. apply IH. eapply chain_tail; eauto. Qed.

Lemma chain_app_l {A} (R : A -> A -> Prop) p : forall a q, chain R (p ++ a :: q) -> chain R (p ++ [a]).
Proof.
  induction p as [|x p IH]; intros a q H.
  - simpl. exact I.
  - simpl app in *. pose proof (IH a q (chain_tail _ _ _ H)) as IH'.
    destruct p as [|y p]; simpl app in *.
    + simpl in *. tauto.
    + simpl in H. simpl. tauto.
Qed.

Lemma chain_app_join {A} (R : A -> A -> Prop) p : forall a q,
  chain R (p ++ [a]) -> chain R (a :: q) -> chain R (p ++ a :: q).
Proof.
  induction p as [|x p IH]; intros a q H1 H2.
  - exact H2.
  - simpl app in *. pose proof (IH a q (chain_tail _ _ _ H1) H2) as IH'.
    destruct p as [|y p]; simpl app in *.
    + simpl in *. tauto.
    + simpl in H1. simpl. tauto.
Qed.

Lemma chain_last_replace {A} (R : A -> A -> Prop) p : forall a a',
  (forall x, R x a -> R x a') -> chain R (p ++ [a]) -> chain R (p ++ [a']).
Proof.
  induction p as [|x p IH]; intros a a' Hr H.
  - exact I.
  - simpl app in *. pose proof (IH a a' Hr (chain_tail _ _ _ H)) as IH'.
    destruct p as [|y p]; simpl app in *.
    + simpl in *. split; [apply Hr; tauto|exact I].
    + simpl in H. simpl. tauto.
Qed.

Lemma last_app_cons {A} (p : list A) : forall x q d, last (p ++ x :: q) d = last (x :: q) d.
Proof.
  induction p as [|y p IH]; intros x q d; auto.
  simpl app. rewrite <- (IH x q d).
  destruct (p ++ x :: q) eqn:E; auto. destruct p; discriminate.
Qed.

Lemma last_cons_cons {A} (a b : A) q d : last (a :: b :: q) d = last (b :: q) d.
Proof. reflexivity. Qed.

(** ** The invariant *)

Definition link (a b : elem) : Prop :=
  e_end a = e_start b /\ (e_expr a = 0%nat -> e_expr b <> 0%nat).

Definition elem_ok (a : elem) : Prop :=
  (e_start a <= e_end a /\ e_start a mod 60 = 0 /\ e_end a mod 60 = 0)%Z /\
  (e_expr a <> 0%nat -> (e_start a < e_end a)%Z).

Record wf_td (t : td) : Prop := {
  wf_chain : chain link (td_elems t);
  wf_elems : Forall elem_ok (td_elems t);
  wf_first : exists f r, td_elems t = f :: r /\ e_start f = 0%Z /\ e_expr f = 0%nat;
  wf_last : e_end (last (td_elems t) dflt) = max_time /\ e_expr (last (td_elems t) dflt) = 0%nat;
  wf_endstart : td_endstart t = e_start (last (td_elems t) dflt);
  wf_map : map_is_empty t = false
}.

Lemma chain_impl {A} (R S : A -> A -> Prop) (H : forall a b, R a b -> S a b) l :
  chain R l -> chain S l.
Proof.
  induction l as [|a l IH]; intros Hc; [exact I|].
  destruct l as [|b r]; [exact I|].
  destruct Hc as [H1 H2]. split; [apply H; exact H1|apply IH; exact H2].
Qed.

Lemma chain_link_contig l : chain link l -> Forall elem_ok l -> contig l.
Proof.
  intros Hc Hf. split.
  - eapply chain_impl; [|exact Hc]. intros a b [H _]; exact H.
  - eapply Forall_impl; [|exact Hf]. intros a [[H _] _]. exact H.
Qed.

Lemma wf_contig t : wf_td t -> contig (td_elems t).
Proof. intros H. apply chain_link_contig; [apply wf_chain|apply wf_elems]; exact H. Qed.

Lemma max_time_mod : (max_time mod 60 = 0)%Z.
Proof. reflexivity. Qed.

Lemma max_time_val : max_time = 6307200000%Z.
Proof. reflexivity. Qed.

(** ** find_split *)

Lemma find_split_cons2 s before a b r :
  find_split s before (a :: b :: r) =
  if ((e_start a <? s) && (e_end a <=? s))%Z
  then find_split s (before ++ [a]) (b :: r) else (before, Some a, b :: r).
Proof. reflexivity. Qed.

Lemma find_split_spec s l : forall before, l <> [] ->
  exists pre el after,
    find_split s before l = (before ++ pre, Some el, after) /\
    l = pre ++ el :: after /\
    Forall (fun a => (e_end a <= s)%Z) pre /\
    (after = [] \/ ~ (e_start el < s /\ e_end el <= s)%Z).
Proof.
  induction l as [|a l IH]; intros before Hne; [congruence|].
  destruct l as [|b r].
  - exists [], a, []. simpl. rewrite app_nil_r. auto.
  - rewrite find_split_cons2.
    destruct ((e_start a <? s)%Z && (e_end a <=? s)%Z) eqn:E.
    + destruct (IH (before ++ [a])) as (pre & el & after & H1 & H2 & H3 & H4); [discriminate|].
      exists (a :: pre), el, after. rewrite H1, <- app_assoc. simpl.
      split; [reflexivity|]. split; [rewrite H2; reflexivity|]. split; [|exact H4].
      constructor; auto. apply andb_true_iff in E. lia.
    + exists [], a, (b :: r). rewrite app_nil_r. simpl.
      split; [reflexivity|]. split; [reflexivity|]. split; [constructor|].
      right. intros [C1 C2]. apply andb_false_iff in E. lia.
Qed.

Lemma list_last_cases {A} (l : list A) : l = [] \/ exists p z, l = p ++ [z].
Proof. induction l using rev_ind; [left; reflexivity|right; eauto]. Qed.

(** the element at which find_split stops is a default element that contains
    the whole new frame *)
Lemma split_elem_props t pre el after s e :
  wf_td t -> td_elems t = pre ++ el :: after ->
  Forall (fun a => (e_end a <= s)%Z) pre ->
  (after = [] \/ ~ (e_start el < s /\ e_end el <= s)%Z) ->
  (0 <= s)%Z -> (s < e)%Z -> (e < max_time)%Z ->
  (forall a, In a (td_elems t) -> e_expr a <> 0%nat -> (e_end a <= s \/ e <= e_start a)%Z) ->
  e_expr el = 0%nat /\ (e_start el <= s)%Z /\ (e <= e_end el)%Z.
Proof.
  intros Hwf Hl Hpre Hstop Hs Hse He Hdis.
  pose proof (wf_chain _ Hwf) as Hc. pose proof (wf_elems _ Hwf) as Hok.
  rewrite Hl in Hc, Hok.
  assert (Hel_ok : elem_ok el) by (rewrite Forall_forall in Hok; apply Hok; apply in_or_app; right; left; reflexivity).
  assert (Hstart : (e_start el <= s)%Z).
  { destruct (list_last_cases pre) as [->|(p & z & ->)].
    - destruct (wf_first _ Hwf) as (f & r & Hf & Hfs & _). rewrite Hl in Hf. simpl in Hf.
      injection Hf as -> _. lia.
    - rewrite <- app_assoc in Hc. simpl in Hc.
      destruct (chain_app_mid _ _ _ _ _ Hc) as [Hlk _].
      rewrite Forall_forall in Hpre.
      assert ((e_end z <= s)%Z) by (apply Hpre; apply in_or_app; right; left; reflexivity).
      lia. }
  destruct Hstop as [->|Hstop].
  - destruct (wf_last _ Hwf) as [Hle Hlk]. rewrite Hl, last_app_cons in Hle, Hlk. simpl in Hle, Hlk.
    split; [exact Hlk|]. split; [exact Hstart|lia].
  - destruct after as [|b q].
    + destruct (wf_last _ Hwf) as [Hle Hlk]. rewrite Hl, last_app_cons in Hle, Hlk. simpl in Hle, Hlk.
      split; [exact Hlk|]. split; [exact Hstart|lia].
    + destruct (chain_app_mid _ _ _ _ _ Hc) as [Hlk Hkk].
      assert (Hin_el : In el (td_elems t)) by (rewrite Hl; apply in_or_app; right; left; reflexivity).
      assert (Hin_b : In b (td_elems t)) by (rewrite Hl; apply in_or_app; right; right; left; reflexivity).
      destruct (Nat.eq_dec (e_expr el) 0) as [Hk0|Hk0].
      * split; [exact Hk0|]. split; [exact Hstart|].
        assert (Hb_ok : elem_ok b) by (rewrite Forall_forall in Hok; apply Hok; apply in_or_app; right; right; left; reflexivity).
        destruct Hb_ok as [_ Hbpos]. specialize (Hbpos (Hkk Hk0)).
        destruct (Hdis b Hin_b (Hkk Hk0)) as [D|D]; [|lia].
        exfalso. apply Hstop. destruct Hel_ok as [[? _] _]. lia.
      * exfalso. destruct Hel_ok as [_ Hpos]. specialize (Hpos Hk0).
        destruct (Hdis el Hin_el Hk0) as [D|D]; [|lia].
        apply Hstop. lia.
Qed.

(** ** update_map on a linked list *)

Lemma fix_first_id l : chain link l -> fix_first l = l.
Proof.
  destruct l as [|a [|b r]]; auto. intros [[H _] _]. simpl.
  destruct a as [sa ea ka]; simpl in *; subst; reflexivity.
Qed.

Lemma lme_cons2 x y r acc : last_middle_end (x :: y :: r) acc = last_middle_end (y :: r) (e_end x).
Proof. reflexivity. Qed.

Lemma lme_chain l : forall a, chain link (a :: l) -> l <> [] ->
  last_middle_end l (e_end a) = e_start (last l dflt).
Proof.
  induction l as [|x l IH]; intros a Hc Hne; [congruence|].
  destruct l as [|y r].
  - simpl. destruct Hc as [[H _] _]. exact H.
  - rewrite lme_cons2, last_cons_cons. apply IH; [|discriminate].
    eapply chain_tail; exact Hc.
Qed.

Lemma lme_tl l old : chain link l -> (3 <= length l)%nat ->
  last_middle_end (tl l) old = e_start (last l dflt).
Proof.
  destruct l as [|a [|x [|y r]]]; simpl length; try lia. intros Hc _.
  cbn [tl]. rewrite lme_cons2, !last_cons_cons.
  apply lme_chain; [|discriminate]. eapply chain_tail; exact Hc.
Qed.

Lemma mie_cons2 x y r :
  map_is_empty_mid (x :: y :: r) = ((e_end x <=? e_start x)%Z && map_is_empty_mid (y :: r)).
Proof. reflexivity. Qed.

Lemma mie_false f b q : (e_start f < e_end f)%Z -> forall p,
  map_is_empty_mid (p ++ f :: b :: q) = false.
Proof.
  intros Hf. induction p as [|x p IH].
  - simpl. apply andb_false_iff. left. apply Z.leb_gt. exact Hf.
  - simpl app. destruct (p ++ f :: b :: q) as [|y r] eqn:E; [destruct p; discriminate|].
    rewrite mie_cons2, IH. apply andb_false_r.
Qed.

(** ** Inserting a frame inside a default element keeps the invariant *)

Lemma insert_wf t pre el after s e k ea' la' :
  wf_td t -> td_elems t = pre ++ el :: after ->
  e_expr el = 0%nat -> (e_start el <= s)%Z -> (e <= e_end el)%Z -> (s < e)%Z ->
  (s mod 60 = 0)%Z -> (e mod 60 = 0)%Z -> k <> 0%nat ->
  let l' := pre ++ mkElem (e_start el) s (e_expr el) :: mkElem s e k ::
                   mkElem e (e_end el) (e_expr el) :: after in
  wf_td (mkTd l' (last_middle_end (tl l') (td_endstart t)) ea' la').
Proof.
  intros Hwf Hl Hk0 Hs He Hse Hsm Hem Hk l'.
  pose proof (wf_chain _ Hwf) as Hc. pose proof (wf_elems _ Hwf) as Hok.
  rewrite Hl in Hc, Hok.
  set (d1 := mkElem (e_start el) s (e_expr el)) in *.
  set (f := mkElem s e k) in *.
  set (d2 := mkElem e (e_end el) (e_expr el)) in *.
  assert (Hel_ok : elem_ok el) by (rewrite Forall_forall in Hok; apply Hok; apply in_or_app; right; left; reflexivity).
  assert (Hc' : chain link l').
  { unfold l'. apply chain_app_join.
    - apply (chain_last_replace link pre el d1); [|eapply chain_app_l; exact Hc].
      intros x Hx. exact Hx.
    - pose proof (chain_app_r _ _ _ Hc) as H2.
      split; [split; [reflexivity|intros _; exact Hk]|].
      split; [split; [reflexivity|intros C; simpl in C; congruence]|].
      destruct after as [|b q]; [exact I|].
      destruct H2 as [H2a H2b]. split; [exact H2a|exact H2b]. }
  assert (Hlen : (3 <= length l')%nat) by (unfold l'; rewrite app_length; simpl; lia).
  constructor; cbn [td_elems td_endstart].
  - exact Hc'.
  - unfold l'. apply Forall_app in Hok. destruct Hok as [Hok1 Hok2].
    inversion Hok2 as [|? ? _ Hok3]; subst.
    destruct Hel_ok as [(H1 & H2 & H3) H4].
    apply Forall_app. split; [exact Hok1|].
    constructor; [|constructor; [|constructor; [|exact Hok3]]].
    + split; [simpl; lia|]. simpl. intros C; congruence.
    + split; [simpl; lia|]. simpl. intros _; lia.
    + split; [simpl; lia|]. simpl. intros C; congruence.
  - destruct (wf_first _ Hwf) as (f0 & r0 & Hf0 & Hfs & Hfk). rewrite Hl in Hf0.
    unfold l'. destruct pre as [|x pre'].
    + simpl in Hf0. injection Hf0 as -> _.
      exists d1, (f :: d2 :: after). simpl. auto.
    + simpl in Hf0. injection Hf0 as -> _.
      eexists _, _. simpl. split; [reflexivity|auto].
  - destruct (wf_last _ Hwf) as [Hle Hlk]. rewrite Hl, last_app_cons in Hle, Hlk.
    unfold l'. rewrite last_app_cons, !last_cons_cons.
    destruct after as [|b q]; simpl in *; auto.
  - apply lme_tl; assumption.
  - unfold map_is_empty. cbn [td_elems]. unfold l'.
    destruct pre as [|x pre'].
    + simpl. apply andb_false_iff. left. apply Z.leb_gt. exact Hse.
    + simpl app. cbn [tl].
      change (pre' ++ d1 :: f :: d2 :: after) with (pre' ++ [d1] ++ f :: d2 :: after).
      rewrite app_assoc. apply mie_false. exact Hse.
Qed.

(** ** One SetExpression call on a non-empty structure *)

Definition new_earliest (t : td) (s : Z) : Z :=
  if ((s <? td_earliest t) || (td_earliest t =? 0))%Z then s else td_earliest t.
Definition new_latest (t : td) (e : Z) : Z :=
  if ((td_latest t <? e) || (td_latest t =? 0))%Z then e else td_latest t.

Lemma insert_in pre el after d1 f d2 :
  e_expr el = 0%nat -> e_expr d1 = 0%nat -> e_expr d2 = 0%nat ->
  let l := pre ++ el :: after in
  let l' := pre ++ d1 :: f :: d2 :: after in
  (forall a, In a l' -> e_expr a <> 0%nat -> a = f \/ In a l) /\
  In f l' /\
  (forall a, In a l -> e_expr a <> 0%nat -> In a l').
Proof.
  intros Hel Hd1 Hd2 l l'. unfold l, l'. repeat split.
  - intros a Ha Hk. apply in_app_or in Ha. destruct Ha as [Ha|[Ha|[Ha|[Ha|Ha]]]].
    + right. apply in_or_app. left; exact Ha.
    + subst a. congruence.
    + left. symmetry; exact Ha.
    + subst a. congruence.
    + right. apply in_or_app. right; right; exact Ha.
  - apply in_or_app. right; right; left; reflexivity.
  - intros a Ha Hk. apply in_app_or in Ha. destruct Ha as [Ha|[Ha|Ha]].
    + apply in_or_app. left; exact Ha.
    + subst a. congruence.
    + apply in_or_app. right; right; right; right; exact Ha.
Qed.

Lemma set_expression_nonempty t s e k :
  wf_td t -> frame_ok (s, e, k) ->
  (forall a, In a (td_elems t) -> e_expr a <> 0%nat -> (e_end a <= s \/ e <= e_start a)%Z) ->
  (new_latest t e - new_earliest t s <= week)%Z ->
  exists t', set_expression t s e k false = (t', SetOk) /\ wf_td t' /\
    td_earliest t' = new_earliest t s /\ td_latest t' = new_latest t e /\
    (forall a, In a (td_elems t') -> e_expr a <> 0%nat -> a = mkElem s e k \/ In a (td_elems t)) /\
    In (mkElem s e k) (td_elems t') /\
    (forall a, In a (td_elems t) -> e_expr a <> 0%nat -> In a (td_elems t')).
Proof.
  intros Hwf [(Hs0 & Hse & Hsm & Hem & Hemax) Hk] Hdis Hweek.
  destruct (wf_first _ Hwf) as (f0 & r0 & Hf0 & _ & _).
  destruct (find_split_spec s (td_elems t) []) as (pre & el & after & Hfs & Hl & Hpre & Hstop);
    [rewrite Hf0; discriminate|].
  destruct (split_elem_props t pre el after s e Hwf Hl Hpre Hstop Hs0 Hse Hemax Hdis)
    as (Hk0 & Hstart & Hend).
  pose proof (insert_wf t pre el after s e k (new_earliest t s) (new_latest t e)
                Hwf Hl Hk0 Hstart Hend Hse Hsm Hem Hk) as Hwf'.
  cbv zeta in Hwf'.
  pose proof (insert_in pre el after (mkElem (e_start el) s (e_expr el)) (mkElem s e k)
                (mkElem e (e_end el) (e_expr el)) Hk0 Hk0 Hk0) as Hin.
  cbv zeta in Hin. rewrite <- Hl in Hin.
  eexists. split; [|split; [exact Hwf'|]].
  - unfold set_expression.
    assert (E1 : (s <? 0)%Z = false) by (apply Z.ltb_ge; lia).
    assert (E2 : (e <? s)%Z = false) by (apply Z.ltb_ge; lia).
    assert (E3 : (week <? new_latest t e - new_earliest t s)%Z = false) by (apply Z.ltb_ge; lia).
    unfold new_latest, new_earliest in E3.
    rewrite E1, E2, Hsm, Hem. cbn [Z.eqb negb]. rewrite E3.
    rewrite Hfs. rewrite Hf0. rewrite <- Hf0.
    assert (E4 : ((negb (Nat.eqb (e_expr el) 0) && (e_start el <? e)%Z) ||
                  (Nat.eqb (e_expr el) 0 && (e_end el <? e)%Z)) = false).
    { rewrite Hk0. cbn [Nat.eqb negb andb orb]. apply Z.ltb_ge. lia. }
    rewrite E4. cbn [app].
    unfold update_map. rewrite fix_first_id by (exact (wf_chain _ Hwf')).
    reflexivity.
  - cbn [td_earliest td_latest td_elems]. split; [reflexivity|]. split; [reflexivity|].
    exact Hin.
Qed.

(** ** The first SetExpression call *)

Lemma set_expression_empty s e k :
  frame_ok (s, e, k) -> (e - s <= week)%Z ->
  exists t', set_expression td_empty s e k false = (t', SetOk) /\ wf_td t' /\
    td_earliest t' = s /\ td_latest t' = e /\
    td_elems t' = [mkElem 0 s 0; mkElem s e k; mkElem e max_time 0].
Proof.
  intros [(Hs0 & Hse & Hsm & Hem & Hemax) Hk] Hweek.
  eexists. split; [|split].
  - unfold set_expression.
    assert (E1 : (s <? 0)%Z = false) by (apply Z.ltb_ge; lia).
    assert (E2 : (e <? s)%Z = false) by (apply Z.ltb_ge; lia).
    assert (E3 : (week <? e - s)%Z = false) by (apply Z.ltb_ge; lia).
    rewrite E1, E2, Hsm, Hem. cbn [Z.eqb negb td_empty td_earliest td_latest td_elems].
    rewrite !orb_true_r, E3.
    unfold update_map. cbn [fix_first tl last_middle_end e_start e_end e_expr].
    reflexivity.
  - constructor; cbn [td_elems td_endstart].
    + simpl. unfold link; simpl. repeat split; congruence.
    + repeat constructor; simpl; try lia; try congruence; try reflexivity.
    + eexists _, _. split; [reflexivity|]. simpl. auto.
    + simpl. auto.
    + reflexivity.
    + unfold map_is_empty. simpl. apply andb_false_iff. left. apply Z.leb_gt. exact Hse.
  - simpl. auto.
Qed.

(** ** The invariant through a sequence of calls *)

Definition frame_of (a : elem) : Z * Z * nat := (e_start a, e_end a, e_expr a).

Definition frames_match (t : td) (done : list (Z * Z * nat)) : Prop :=
  (forall a, In a (td_elems t) -> e_expr a <> 0%nat -> In (frame_of a) done) /\
  (forall s e k, In (s, e, k) done -> In (mkElem s e k) (td_elems t) /\ k <> 0%nat).

Definition tracks (t : td) (done : list (Z * Z * nat)) : Prop :=
  (td_earliest t = 0%Z \/ exists f, In f done /\ fst (fst f) = td_earliest t) /\
  (td_latest t = 0%Z \/ exists g, In g done /\ snd (fst g) = td_latest t).

Definition Inv (t : td) (done : list (Z * Z * nat)) : Prop :=
  (done = [] /\ t = td_empty) \/ (wf_td t /\ frames_match t done /\ tracks t done).

Lemma set_expression_step t done s e k :
  Inv t done -> frame_ok (s, e, k) ->
  (forall g, In g done -> frames_disjoint g (s, e, k)) ->
  (forall f g, In f ((s, e, k) :: done) -> In g ((s, e, k) :: done) ->
               (snd (fst g) - fst (fst f) <= week)%Z) ->
  exists t', set_expression t s e k false = (t', SetOk) /\
    wf_td t' /\ frames_match t' ((s, e, k) :: done) /\ tracks t' ((s, e, k) :: done).
Proof.
  intros HI Hok Hdd Hweek.
  assert (Hk : k <> 0%nat) by (destruct Hok as [_ Hk]; exact Hk).
  destruct HI as [[-> ->]|(Hwf & [Hm1 Hm2] & [Ht1 Ht2])].
  - destruct (set_expression_empty s e k Hok) as (t' & Hse & Hwf' & Hea & Hla & Hel).
    { apply (Hweek (s, e, k) (s, e, k)); left; reflexivity. }
    exists t'. split; [exact Hse|]. split; [exact Hwf'|]. split; [split|split].
    + intros a Ha Hka. rewrite Hel in Ha. left.
      destruct Ha as [<-|[<-|[<-|[]]]]; simpl in Hka; try congruence. reflexivity.
    + intros s' e' k' [H|[]]. injection H as <- <- <-. split; [|exact Hk].
      rewrite Hel. right; left; reflexivity.
    + right. exists (s, e, k). split; [left; reflexivity|]. simpl. congruence.
    + right. exists (s, e, k). split; [left; reflexivity|]. simpl. congruence.
  - assert (He : exists f, In f ((s, e, k) :: done) /\ fst (fst f) = new_earliest t s).
    { unfold new_earliest. destruct ((s <? td_earliest t)%Z || (td_earliest t =? 0)%Z) eqn:E.
      - exists (s, e, k). split; [left; reflexivity|reflexivity].
      - apply orb_false_iff in E. destruct E as [_ E]. apply Z.eqb_neq in E.
        destruct Ht1 as [C|(f & Hf & Hfe)]; [congruence|].
        exists f. split; [right; exact Hf|exact Hfe]. }
    assert (Hl : exists g, In g ((s, e, k) :: done) /\ snd (fst g) = new_latest t e).
    { unfold new_latest. destruct ((td_latest t <? e)%Z || (td_latest t =? 0)%Z) eqn:E.
      - exists (s, e, k). split; [left; reflexivity|reflexivity].
      - apply orb_false_iff in E. destruct E as [_ E]. apply Z.eqb_neq in E.
        destruct Ht2 as [C|(g & Hg & Hge)]; [congruence|].
        exists g. split; [right; exact Hg|exact Hge]. }
    destruct (set_expression_nonempty t s e k Hwf Hok)
      as (t' & Hse & Hwf' & Hea & Hla & Hi1 & Hi2 & Hi3).
    { intros a Ha Hka. specialize (Hdd _ (Hm1 a Ha Hka)). exact Hdd. }
    { destruct He as (f & Hf & <-). destruct Hl as (g & Hg & <-). apply Hweek; assumption. }
    exists t'. split; [exact Hse|]. split; [exact Hwf'|]. split; [split|split].
    + intros a Ha Hka. destruct (Hi1 a Ha Hka) as [->|Ha'].
      * left; reflexivity.
      * right. apply Hm1; assumption.
    + intros s' e' k' [H|H].
      * injection H as <- <- <-. split; [exact Hi2|exact Hk].
      * destruct (Hm2 _ _ _ H) as [Hin Hk']. split; [|exact Hk']. apply Hi3; [exact Hin|exact Hk'].
    + right. rewrite Hea. exact He.
    + right. rewrite Hla. exact Hl.
Qed.

Lemma set_expressions_inv fs : forall t done,
  Inv t done -> Forall frame_ok fs -> ForallOrdPairs frames_disjoint fs ->
  (forall g f, In g done -> In f fs -> frames_disjoint g f) ->
  (forall f g, In f (done ++ fs) -> In g (done ++ fs) -> (snd (fst g) - fst (fst f) <= week)%Z) ->
  Forall (fun r => r = SetOk) (snd (set_expressions t fs)) /\
  Inv (fst (set_expressions t fs)) (rev fs ++ done).
Proof.
  induction fs as [|[[s e] k] rest IH]; intros t done HI Hok Hfop Hdd Hweek.
  - simpl. split; [constructor|exact HI].
  - inversion Hok as [|? ? Hok1 Hok2]; subst.
    inversion Hfop as [|? ? Hd1 Hd2]; subst.
    destruct (set_expression_step t done s e k HI Hok1) as (t' & Hse & Hwf' & Hm' & Ht').
    { intros g Hg. apply Hdd; [exact Hg|left; reflexivity]. }
    { intros f g Hf Hg. apply Hweek; apply in_or_app.
      - destruct Hf as [<-|Hf]; [right; left; reflexivity|left; exact Hf].
      - destruct Hg as [<-|Hg]; [right; left; reflexivity|left; exact Hg]. }
    destruct (IH t' ((s, e, k) :: done)) as [IH1 IH2].
    + right. auto.
    + exact Hok2.
    + exact Hd2.
    + intros g f [<-|Hg] Hf.
      * rewrite Forall_forall in Hd1. apply Hd1; exact Hf.
      * apply Hdd; [exact Hg|right; exact Hf].
    + intros f g Hf Hg. apply Hweek.
      * apply in_app_or in Hf. apply in_or_app.
        destruct Hf as [[<-|Hf]|Hf]; [right; left; reflexivity|left; exact Hf|right; right; exact Hf].
      * apply in_app_or in Hg. apply in_or_app.
        destruct Hg as [[<-|Hg]|Hg]; [right; left; reflexivity|left; exact Hg|right; right; exact Hg].
    + cbn [set_expressions]. rewrite Hse.
      destruct (set_expressions t' rest) as [t'' rs] eqn:E. cbn [fst snd] in *.
      split; [constructor; [reflexivity|exact IH1]|].
      simpl rev. rewrite <- app_assoc. exact IH2.
Qed.

Lemma frames_match_ext t d1 d2 :
  (forall f, In f d1 <-> In f d2) -> frames_match t d1 -> frames_match t d2.
Proof.
  intros H [H1 H2]. split.
  - intros a Ha Hk. apply H. apply H1; assumption.
  - intros s e k Hin. apply H2. apply H. exact Hin.
Qed.

(** what set_expressions builds from a good layout *)
Lemma build_inv fs : layout_ok fs ->
  Forall (fun r => r = SetOk) (snd (set_expressions td_empty fs)) /\
  ((fs = [] /\ fst (set_expressions td_empty fs) = td_empty) \/
   (wf_td (fst (set_expressions td_empty fs)) /\
    frames_match (fst (set_expressions td_empty fs)) fs)).
Proof.
  intros (Hok & Hfop & Hweek).
  destruct (set_expressions_inv fs td_empty []) as [H1 H2]; auto.
  - left; auto.
  - intros g f [].
  - split; [exact H1|]. rewrite app_nil_r in H2.
    destruct H2 as [[Hr Ht]|(Hwf & Hm & _)].
    + left. split; [|exact Ht].
      destruct fs as [|a fs']; [reflexivity|]. simpl in Hr. destruct (rev fs'); discriminate.
    + right. split; [exact Hwf|]. eapply frames_match_ext; [|exact Hm].
      intros f. symmetry. apply in_rev.
Qed.

(** ** minute_of *)

Lemma minute_of_le v : inject_Z (minute_of v) <= v.
Proof.
  unfold minute_of. rewrite inject_Z_mult.
  pose proof (Qfloor_le (v / 60)) as H.
  assert (E : v == 60 * (v / 60)) by (field; lra).
  set (q := v / 60) in *. change (inject_Z 60) with 60. lra.
Qed.

Lemma minute_of_lt v : v < inject_Z (minute_of v + 60).
Proof.
  unfold minute_of. rewrite inject_Z_plus, inject_Z_mult.
  pose proof (Qlt_floor (v / 60)) as H. rewrite inject_Z_plus in H.
  assert (E : v == 60 * (v / 60)) by (field; lra).
  set (q := v / 60) in *. change (inject_Z 60) with 60. change (inject_Z 1) with 1 in H. lra.
Qed.

Lemma minute_of_mod v : (minute_of v mod 60 = 0)%Z.
Proof. unfold minute_of. rewrite Z.mul_comm. apply Z_mod_mult. Qed.

Lemma mult60_gap a m : (a mod 60 = 0)%Z -> (m mod 60 = 0)%Z -> (m < a)%Z -> (m + 60 <= a)%Z.
Proof.
  intros Ha Hm Hlt.
  pose proof (Z.div_mod a 60). pose proof (Z.div_mod m 60). lia.
Qed.

Lemma minute_le_iff a v : (a mod 60 = 0)%Z -> (inject_Z a <= v <-> (a <= minute_of v)%Z).
Proof.
  intros Ha. split; intros H.
  - destruct (Z_le_gt_dec a (minute_of v)) as [|C]; [assumption|exfalso].
    assert (Hg : (minute_of v + 60 <= a)%Z) by (apply mult60_gap; [exact Ha|apply minute_of_mod|lia]).
    rewrite Zle_Qle in Hg. pose proof (minute_of_lt v). lra.
  - rewrite Zle_Qle in H. pose proof (minute_of_le v). lra.
Qed.

Lemma minute_lt_iff a v : (a mod 60 = 0)%Z -> (v < inject_Z a <-> (minute_of v < a)%Z).
Proof.
  intros Ha. split; intros H.
  - rewrite Zlt_Qlt. pose proof (minute_of_le v). lra.
  - assert (Hg : (minute_of v + 60 <= a)%Z) by (apply mult60_gap; [exact Ha|apply minute_of_mod|lia]).
    rewrite Zle_Qle in Hg. pose proof (minute_of_lt v). lra.
Qed.

(** ** map_lookup_mid *)

Lemma lookup_cons2 m a b q :
  map_lookup_mid m (a :: b :: q) =
  match map_lookup_mid m (b :: q) with
  | Some r => Some r
  | None => if in_map m a then Some (a :: b :: q) else None
  end.
Proof. reflexivity. Qed.

Lemma lookup_mid_spec m l : forall r, map_lookup_mid m l = Some r ->
  exists pre e rest, l = pre ++ r /\ r = e :: rest /\ rest <> [] /\ in_map m e = true.
Proof.
  induction l as [|a l IH]; intros r H; [discriminate|].
  destruct l as [|b q]; [discriminate|].
  rewrite lookup_cons2 in H.
  destruct (map_lookup_mid m (b :: q)) as [r'|] eqn:E.
  - injection H as <-. destruct (IH r' eq_refl) as (pre & e & rest & H1 & H2 & H3 & H4).
    exists (a :: pre), e, rest. simpl. rewrite <- H1. auto.
  - destruct (in_map m a) eqn:Ein; [|discriminate]. injection H as <-.
    exists [], a, (b :: q). repeat split; auto. discriminate.
Qed.

Lemma in_map_iff m e : (m mod 60 = 0)%Z -> (e_start e mod 60 = 0)%Z ->
  (in_map m e = true <-> (e_start e <= m < e_end e)%Z).
Proof.
  intros Hm Hs. unfold in_map.
  assert (E : ((m - e_start e) mod 60 =? 0)%Z = true)
    by (apply Z.eqb_eq; rewrite Zminus_mod, Hm, Hs; reflexivity).
  rewrite E, andb_true_r, andb_true_iff, Z.leb_le, Z.ltb_lt. tauto.
Qed.

Lemma lookup_mid_exists m (Hm : (m mod 60 = 0)%Z) l : forall a,
  chain link (a :: l) -> Forall elem_ok (a :: l) ->
  (e_start a <= m)%Z -> (m < e_start (last (a :: l) dflt))%Z ->
  map_lookup_mid m (a :: l) <> None.
Proof.
  induction l as [|b q IH]; intros a Hc Hok Hs He.
  - simpl in He. lia.
  - rewrite lookup_cons2. rewrite last_cons_cons in He.
    destruct (Z_le_gt_dec (e_start b) m) as [Hb|Hb].
    + assert (map_lookup_mid m (b :: q) <> None).
      { apply IH; [eapply chain_tail; exact Hc|inversion Hok; assumption|exact Hb|exact He]. }
      destruct (map_lookup_mid m (b :: q)); congruence.
    + destruct (map_lookup_mid m (b :: q)); [discriminate|].
      destruct Hc as [[Hl _] _]. inversion Hok as [|? ? [(_ & Hsa & _) _] _]; subst.
      assert (E : in_map m a = true) by (apply in_map_iff; [exact Hm|exact Hsa|lia]).
      rewrite E. discriminate.
Qed.

(** ** get_element finds the element that contains the departure *)

Lemma wf_last_elem t : wf_td t ->
  exists init, td_elems t = init ++ [mkElem (td_endstart t) max_time 0].
Proof.
  intros Hwf. destruct (wf_first _ Hwf) as (f0 & r0 & Hf0 & _).
  assert (Hne : td_elems t <> []) by (rewrite Hf0; discriminate).
  exists (removelast (td_elems t)).
  rewrite (app_removelast_last dflt Hne) at 1. f_equal.
  destruct (wf_last _ Hwf) as [H1 H2]. pose proof (wf_endstart _ Hwf) as H3.
  destruct (last (td_elems t) dflt) as [a b c]. simpl in *. subst. reflexivity.
Qed.

Lemma elem_ok_in t a : wf_td t -> In a (td_elems t) -> elem_ok a.
Proof. intros Hwf Ha. pose proof (wf_elems _ Hwf) as H. rewrite Forall_forall in H. auto. Qed.

Lemma get_element_spec t v : wf_td t -> 0 <= v -> v < inject_Z max_time ->
  exists pre el rest, td_elems t = pre ++ el :: rest /\
    get_element t v = Some (el :: rest) /\
    inject_Z (e_start el) <= v /\ v < inject_Z (e_end el).
Proof.
  intros Hwf Hv0 Hvmax.
  destruct (wf_first _ Hwf) as (f0 & r0 & Hf0 & Hfs & Hfk).
  pose proof (wf_chain _ Hwf) as Hc. pose proof (wf_elems _ Hwf) as Hok.
  unfold get_element. rewrite Hf0. rewrite <- Hf0.
  assert (Hf0ok : elem_ok f0) by (apply (elem_ok_in t); [exact Hwf|rewrite Hf0; left; reflexivity]).
  destruct (Z.ltb_spec (minute_of v) (e_end f0)) as [H1|H1].
  - exists [], f0, r0. split; [exact Hf0|]. split; [rewrite Hf0; reflexivity|].
    split; [rewrite Hfs; exact Hv0|].
    apply minute_lt_iff; [destruct Hf0ok as [(_ & _ & H) _]; exact H|exact H1].
  - destruct (wf_last_elem t Hwf) as (init & Hinit).
    destruct (Z.leb_spec (td_endstart t) (minute_of v)) as [H2|H2].
    + exists init, (mkElem (td_endstart t) max_time 0), []. split; [exact Hinit|].
      split; [reflexivity|]. simpl. split; [|exact Hvmax].
      assert (Hlok : elem_ok (mkElem (td_endstart t) max_time 0))
        by (apply (elem_ok_in t); [exact Hwf|rewrite Hinit; apply in_or_app; right; left; reflexivity]).
      apply minute_le_iff; [destruct Hlok as [(_ & H & _) _]; exact H|exact H2].
    + unfold map_lookup. rewrite Hf0. cbn [tl].
      rewrite (wf_endstart _ Hwf), Hf0 in H2. rewrite Hf0 in Hc, Hok.
      destruct r0 as [|b q].
      { exfalso. simpl in H2. destruct Hf0ok as [(? & _) _]. lia. }
      rewrite last_cons_cons in H2.
      destruct Hc as [[Hl _] Hc]. inversion Hok as [|? ? _ Hok']; subst.
      pose proof (lookup_mid_exists _ (minute_of_mod v) q b Hc Hok') as Hex.
      destruct (map_lookup_mid (minute_of v) (b :: q)) as [r|] eqn:E;
        [|exfalso; apply Hex; [lia|exact H2|reflexivity]].
      destruct (lookup_mid_spec _ _ _ E) as (pre & el & rest & Hp & Hr & _ & Hin).
      exists (f0 :: pre), el, rest. subst r.
      split; [simpl; rewrite <- Hp; reflexivity|]. split; [reflexivity|].
      assert (Helok : elem_ok el).
      { rewrite Forall_forall in Hok'. apply Hok'. rewrite Hp. apply in_or_app; right; left; reflexivity. }
      destruct Helok as [(_ & Hs & He) _].
      apply in_map_iff in Hin; [|apply minute_of_mod|exact Hs].
      split; [apply minute_le_iff; [exact Hs|lia]|apply minute_lt_iff; [exact He|lia]].
Qed.

Lemma get_element_late t v : wf_td t -> inject_Z max_time <= v ->
  get_element t v = Some [mkElem (td_endstart t) max_time 0].
Proof.
  intros Hwf Hv.
  destruct (wf_first _ Hwf) as (f0 & r0 & Hf0 & Hfs & Hfk).
  pose proof (wf_contig _ Hwf) as Hct. rewrite Hf0 in Hct.
  pose proof (contig_last_le _ _ Hct) as H1. rewrite <- Hf0 in H1.
  destruct (wf_last _ Hwf) as [Hle _]. rewrite Hle in H1.
  assert (Hm : (max_time <= minute_of v)%Z) by (apply minute_le_iff; [apply max_time_mod|exact Hv]).
  destruct (wf_last_elem t Hwf) as (init & Hinit).
  assert (Hlok : elem_ok (mkElem (td_endstart t) max_time 0))
    by (apply (elem_ok_in t); [exact Hwf|rewrite Hinit; apply in_or_app; right; left; reflexivity]).
  destruct Hlok as [(H2 & _) _]. simpl in H2.
  unfold get_element. rewrite Hf0.
  destruct (Z.ltb_spec (minute_of v) (e_end f0)) as [C|_]; [lia|].
  destruct (Z.leb_spec (td_endstart t) (minute_of v)) as [_|C]; [reflexivity|lia].
Qed.

(** ** value_at_value through the located element *)

Lemma vav_located t vals v el rest x :
  wf_td t -> vals_ok vals -> get_element t v = Some (el :: rest) ->
  value_at_value t vals v = Val x ->
  exists x', walkH vals 0 (inject_Z (e_end el) - v) (e_expr el) rest = Val x' /\ x == x'.
Proof.
  intros Hwf Hv Hg H.
  pose proof (value_at_value_spec t vals v el rest Hv (wf_map _ Hwf) Hg) as Hs.
  rewrite H in Hs. apply tdres_eq_val_l in Hs. exact Hs.
Qed.

(* the located element for any departure: after max_time it is the last
   element (which the departure is then beyond) *)
Lemma get_element_any t v : wf_td t -> 0 <= v ->
  exists pre el rest, td_elems t = pre ++ el :: rest /\
    get_element t v = Some (el :: rest) /\
    inject_Z (e_start el) <= v /\ (v < inject_Z (e_end el) \/ rest = []).
Proof.
  intros Hwf Hv0.
  destruct (Qlt_le_dec v (inject_Z max_time)) as [Hlt|Hge].
  - destruct (get_element_spec t v Hwf Hv0 Hlt) as (pre & el & rest & Hl & Hg & Hs & He).
    exists pre, el, rest. auto.
  - destruct (wf_last_elem t Hwf) as (init & Hinit).
    exists init, (mkElem (td_endstart t) max_time 0), [].
    split; [exact Hinit|]. split; [apply get_element_late; assumption|].
    split; [|right; reflexivity].
    assert (Hlok : elem_ok (mkElem (td_endstart t) max_time 0))
      by (apply (elem_ok_in t); [exact Hwf|rewrite Hinit; apply in_or_app; right; left; reflexivity]).
    destruct Hlok as [(H2 & _) _]. simpl in H2. rewrite Zle_Qle in H2. simpl. lra.
Qed.

(* a trip that starts in the last element takes that element's duration *)
Lemma vav_in_last t vals v el x :
  wf_td t -> vals_ok vals -> get_element t v = Some [el] ->
  value_at_value t vals v = Val x -> x == vals (e_expr el).
Proof.
  intros Hwf Hv Hg H.
  destruct (vav_located t vals v _ _ x Hwf Hv Hg H) as (x' & Hw & Hx).
  assert (H01 : 0 < 1) by lra.
  pose proof (walkH_inv_last _ _ _ _ _ Hv H01 Hw) as Hx'. lra.
Qed.

Lemma vav_late t vals v x :
  wf_td t -> vals_ok vals -> inject_Z max_time <= v ->
  value_at_value t vals v = Val x -> x == vals 0%nat.
Proof.
  intros Hwf Hv Hlate H.
  apply (vav_in_last t vals v _ x Hwf Hv (get_element_late t v Hwf Hlate) H).
Qed.

Lemma app_eq_cases {A} (p1 : list A) : forall l1 p2 l2, p1 ++ l1 = p2 ++ l2 ->
  (exists m, l1 = m ++ l2) \/ (exists m, l2 = m ++ l1).
Proof.
  induction p1 as [|a p1 IH]; intros l1 p2 l2 H.
  - left. exists p2. exact H.
  - destruct p2 as [|b p2].
    + right. exists (a :: p1). symmetry. exact H.
    + simpl in H. injection H as _ H. apply (IH _ _ _ H).
Qed.

Lemma contig_hd_le x r b : contig (x :: r) -> In b r -> (e_end x <= e_start b)%Z.
Proof.
  intros Hc Hb. apply in_split in Hb. destruct Hb as (p & q & ->).
  eapply contig_app_le. exact Hc.
Qed.

Lemma contig_unique l : contig l -> forall a b v, In a l -> In b l ->
  inject_Z (e_start a) <= v -> v < inject_Z (e_end a) ->
  inject_Z (e_start b) <= v -> v < inject_Z (e_end b) -> a = b.
Proof.
  induction l as [|x r IH]; intros Hc a b v Ha Hb Ha1 Ha2 Hb1 Hb2; [destruct Ha|].
  destruct Ha as [<-|Ha], Hb as [<-|Hb].
  - reflexivity.
  - exfalso. pose proof (contig_hd_le _ _ _ Hc Hb) as H. rewrite Zle_Qle in H. lra.
  - exfalso. pose proof (contig_hd_le _ _ _ Hc Ha) as H. rewrite Zle_Qle in H. lra.
  - apply (IH (contig_tail _ _ Hc) a b v); assumption.
Qed.

(** ** The theorems over any well-formed structure *)

Lemma nonneg_wf t vals v x :
  wf_td t -> vals_ok vals -> 0 <= v -> value_at_value t vals v = Val x -> 0 <= x.
Proof.
  intros Hwf Hv Hv0 H.
  destruct (get_element_any t v Hwf Hv0) as (pre & el & rest & Hl & Hg & Hs & He).
  destruct (vav_located _ _ _ _ _ _ Hwf Hv Hg H) as (x' & Hw & Hx).
  pose proof (wf_contig _ Hwf) as Hct. rewrite Hl in Hct. apply contig_app_r in Hct.
  assert (0 <= x').
  { eapply (walkH_nonneg vals Hv); [| | |exact Hw];
      [apply contig_lens; eapply contig_tail; exact Hct
      |destruct He as [He|He]; [right; lra|left; exact He]
      |lra]. }
  lra.
Qed.

Lemma fifo_wf t vals v1 v2 x1 x2 :
  wf_td t -> vals_ok vals -> 0 <= v1 -> v1 <= v2 ->
  value_at_value t vals v1 = Val x1 -> value_at_value t vals v2 = Val x2 ->
  v1 + x1 <= v2 + x2.
Proof.
  intros Hwf Hv Hv0 Hle H1 H2.
  assert (H01 : 0 < 1) by lra. assert (H00 : 0 <= 0) by lra.
  assert (Hv20 : 0 <= v2) by lra.
  destruct (get_element_any t v1 Hwf Hv0) as (pre1 & el1 & rest1 & Hl1 & Hg1 & Hs1 & He1).
  destruct (get_element_any t v2 Hwf Hv20) as (pre2 & el2 & rest2 & Hl2 & Hg2 & Hs2 & He2).
  destruct (vav_located _ _ _ _ _ _ Hwf Hv Hg1 H1) as (x1' & Hw1 & Hx1).
  destruct (vav_located _ _ _ _ _ _ Hwf Hv Hg2 H2) as (x2' & Hw2 & Hx2).
  pose proof (wf_contig _ Hwf) as Hct.
  assert (Hct1 : contig (el1 :: rest1)) by (rewrite Hl1 in Hct; apply contig_app_r in Hct; exact Hct).
  assert (Hct2 : contig (el2 :: rest2)) by (rewrite Hl2 in Hct; apply contig_app_r in Hct; exact Hct).
  assert (Heq : pre1 ++ el1 :: rest1 = pre2 ++ el2 :: rest2) by congruence.
  assert (Hgoal : v1 + x1' <= v2 + x2'); [|lra].
  destruct (app_eq_cases _ _ _ _ Heq) as [[m Hm]|[m Hm]].
  + destruct m as [|a m'].
    * (* same element *)
      simpl in Hm. injection Hm as <- <-.
      eapply (walkH_mono vals Hv rest1 el1 Hct1); [| | | |exact Hw1|exact Hw2]; try lra.
      destruct He2 as [He2|He2]; [right; lra|left; exact He2].
    * (* v2 in a later element *)
      simpl in Hm. injection Hm as <- ->.
      destruct He1 as [He1|He1]; [|destruct m'; discriminate He1].
      eapply (fifo_suffix vals Hv m' el1 _ 0 v1 el2 rest2 v2 x1' x2' Hct1); try lra;
        [|exact Hw1|exact Hw2].
      destruct He2 as [He2|He2]; [right; lra|left; exact He2].
  + destruct m as [|a m'].
    * simpl in Hm. injection Hm as <- <-.
      eapply (walkH_mono vals Hv rest2 el2 Hct2); [| | | |exact Hw1|exact Hw2]; try lra.
      destruct He2 as [He2|He2]; [right; lra|left; exact He2].
    * (* v2 in an earlier element: impossible *)
      exfalso. simpl in Hm. injection Hm as <- ->.
      destruct He2 as [He2|He2]; [|destruct m'; discriminate He2].
      pose proof (contig_app_le _ _ _ _ Hct2) as Hc. rewrite Zle_Qle in Hc. lra.
Qed.

Lemma inside_wf t vals s e k v x :
  wf_td t -> vals_ok vals -> In (mkElem s e k) (td_elems t) ->
  0 <= v -> v < inject_Z max_time ->
  inject_Z s <= v -> v < inject_Z e -> v + vals k <= inject_Z e ->
  value_at_value t vals v = Val x -> x == vals k.
Proof.
  intros Hwf Hv Hin Hv0 Hlt Hs He Hroom H.
  destruct (get_element_spec t v Hwf Hv0 Hlt) as (pre & el & rest & Hl & Hg & Hs' & He').
  destruct (vav_located _ _ _ _ _ _ Hwf Hv Hg H) as (x' & Hw & Hx).
  assert (Hel : el = mkElem s e k).
  { apply (contig_unique _ (wf_contig _ Hwf) el (mkElem s e k) v); auto.
    rewrite Hl. apply in_or_app; right; left; reflexivity. }
  subst el. simpl in Hw.
  assert (H01 : 0 < 1) by lra.
  destruct rest as [|b q].
  - pose proof (walkH_inv_last _ _ _ _ _ Hv H01 Hw) as Hx'. lra.
  - destruct (walkH_inv _ _ _ _ _ _ Hv H01 (cons_ne b q) Hw)
      as [[Hd Hx']|[(Hd & Hl' & Hx')|(Hd & Hl' & y & Hy & Hx')]]; lra.
Qed.

Lemma outside_wf t vals v x :
  wf_td t -> vals_ok vals -> 0 <= v ->
  (forall a, In a (td_elems t) -> e_expr a <> 0%nat ->
     ~ (inject_Z (e_start a) <= v /\ v < inject_Z (e_end a))) ->
  (forall a, In a (td_elems t) -> e_expr a <> 0%nat ->
     v <= inject_Z (e_start a) -> v + vals 0%nat <= inject_Z (e_start a)) ->
  value_at_value t vals v = Val x -> x == vals 0%nat.
Proof.
  intros Hwf Hv Hv0 Hout Hroom H.
  assert (H01 : 0 < 1) by lra.
  destruct (get_element_any t v Hwf Hv0) as (pre & el & rest & Hl & Hg & Hs & He).
  destruct (vav_located _ _ _ _ _ _ Hwf Hv Hg H) as (x' & Hw & Hx).
  assert (Hin : In el (td_elems t)) by (rewrite Hl; apply in_or_app; right; left; reflexivity).
  destruct rest as [|b q].
  - (* in (or beyond) the last element, which is a default one *)
    assert (Hk : e_expr el = 0%nat).
    { destruct (wf_last _ Hwf) as [_ Hlk]. rewrite Hl, last_app_cons in Hlk. exact Hlk. }
    rewrite Hk in Hw.
    pose proof (walkH_inv_last _ _ _ _ _ Hv H01 Hw) as Hx'. lra.
  - destruct He as [He|He]; [|discriminate He].
    assert (Hk : e_expr el = 0%nat).
    { destruct (Nat.eq_dec (e_expr el) 0) as [|C]; [assumption|].
      exfalso. apply (Hout el Hin C). split; assumption. }
    rewrite Hk in Hw.
    destruct (walkH_inv _ _ _ _ _ _ Hv H01 (cons_ne b q) Hw)
      as [[Hd Hx']|[(Hd & Hl' & Hx')|(Hd & Hl' & y & Hy & Hx')]];
      try lra.
    exfalso.
    pose proof (wf_chain _ Hwf) as Hc. rewrite Hl in Hc.
    destruct (chain_app_mid _ _ _ _ _ Hc) as [Hlk Hkk].
    assert (Hinb : In b (td_elems t)) by (rewrite Hl; apply in_or_app; right; right; left; reflexivity).
    pose proof (Hroom b Hinb (Hkk Hk)) as Hr. rewrite <- Hlk in Hr. lra.
Qed.

Lemma lookup_mid_some m f : in_map m f = true -> forall p q, q <> [] ->
  map_lookup_mid m (p ++ f :: q) <> None.
Proof.
  intros Hin p. induction p as [|x p IH]; intros q Hq.
  - destruct q as [|b q']; [congruence|]. simpl app. rewrite lookup_cons2, Hin.
    destruct (map_lookup_mid m (b :: q')); discriminate.
  - simpl app. specialize (IH q Hq).
    destruct (p ++ f :: q) as [|y r] eqn:E; [destruct p; discriminate|].
    rewrite lookup_cons2. destruct (map_lookup_mid m (y :: r)); [discriminate|congruence].
Qed.

Lemma lookup_located t v r :
  wf_td t -> map_lookup (minute_of v) t = Some r ->
  exists el rest, r = el :: rest /\ In el (td_elems t) /\
    inject_Z (e_start el) <= v /\ v < inject_Z (e_end el).
Proof.
  intros Hwf H. unfold map_lookup in H.
  destruct (lookup_mid_spec _ _ _ H) as (pre & el & rest & Hp & Hr & _ & Hin).
  exists el, rest. split; [exact Hr|].
  assert (Hel : In el (td_elems t)).
  { destruct (td_elems t) as [|f0 r0]; [destruct pre; discriminate|]. simpl in Hp.
    right. rewrite Hp, Hr. apply in_or_app; right; left; reflexivity. }
  split; [exact Hel|].
  destruct (elem_ok_in t el Hwf Hel) as [(_ & Hs & He) _].
  apply in_map_iff in Hin; [|apply minute_of_mod|exact Hs].
  split; [apply minute_le_iff; [exact Hs|lia]|apply minute_lt_iff; [exact He|lia]].
Qed.

Lemma lookup_frame_wf t v s e k :
  wf_td t -> In (mkElem s e k) (td_elems t) -> k <> 0%nat ->
  inject_Z s <= v -> v < inject_Z e -> expression_at_value t v = k.
Proof.
  intros Hwf Hin Hk Hs He.
  unfold expression_at_value. rewrite (wf_map _ Hwf).
  destruct (wf_first _ Hwf) as (f0 & r0 & Hf0 & Hfs & Hfk).
  assert (Hin0 : In (mkElem s e k) r0).
  { rewrite Hf0 in Hin. destruct Hin as [C|Hin]; [|exact Hin]. subst f0. simpl in Hfk. congruence. }
  apply in_split in Hin0. destruct Hin0 as (p & q & Hr0).
  assert (Hq : q <> []).
  { intros ->. destruct (wf_last _ Hwf) as [_ Hlk].
    rewrite Hf0, Hr0 in Hlk.
    change (f0 :: p ++ [mkElem s e k]) with ((f0 :: p) ++ [mkElem s e k]) in Hlk.
    rewrite last_app_cons in Hlk. simpl in Hlk. congruence. }
  destruct (elem_ok_in t _ Hwf Hin) as [(_ & Hsm & Hem) _]. simpl in Hsm, Hem.
  assert (Him : in_map (minute_of v) (mkElem s e k) = true).
  { apply in_map_iff; [apply minute_of_mod|exact Hsm|]. simpl.
    split; [apply minute_le_iff; assumption|apply minute_lt_iff; assumption]. }
  pose proof (lookup_mid_some _ _ Him p q Hq) as Hex.
  destruct (map_lookup (minute_of v) t) as [r|] eqn:E.
  - destruct (lookup_located t v r Hwf E) as (el & rest & -> & Hel & Hs' & He').
    assert (el = mkElem s e k)
      by (apply (contig_unique _ (wf_contig _ Hwf) el (mkElem s e k) v); auto).
    subst el. reflexivity.
  - exfalso. apply Hex. unfold map_lookup in E. rewrite Hf0, Hr0 in E. exact E.
Qed.

Lemma lookup_default_wf t v :
  wf_td t ->
  (forall a, In a (td_elems t) -> e_expr a <> 0%nat ->
     ~ (inject_Z (e_start a) <= v /\ v < inject_Z (e_end a))) ->
  expression_at_value t v = 0%nat.
Proof.
  intros Hwf Hout. unfold expression_at_value. rewrite (wf_map _ Hwf).
  destruct (map_lookup (minute_of v) t) as [r|] eqn:E; [|reflexivity].
  destruct (lookup_located t v r Hwf E) as (el & rest & -> & Hel & Hs' & He').
  destruct (Nat.eq_dec (e_expr el) 0) as [|C]; [assumption|].
  exfalso. apply (Hout el Hel C). split; assumption.
Qed.

(* no departure panics: an element is always found, and the walk from it
   always ends (at the latest in the last element) *)
Lemma total_wf t vals v :
  wf_td t -> vals_ok vals -> 0 <= v ->
  exists x, value_at_value t vals v = Val x.
Proof.
  intros Hwf Hv Hv0.
  destruct (get_element_any t v Hwf Hv0) as (pre & el & rest & Hl & Hg & Hs & He).
  destruct (walkH_total vals 0 (inject_Z (e_end el) - v) (e_expr el) rest) as [x Hx].
  pose proof (value_at_value_spec t vals v el rest Hv (wf_map _ Hwf) Hg) as Hsp.
  rewrite Hx in Hsp. destruct (tdres_eq_val _ _ Hsp) as (y & Hy & _). exists y; exact Hy.
Qed.

(* ------------------------------------------------------------------ *)
(** * Part C.  The C17 theorems for the structure built by set_expressions *)

Definition built (fs : list (Z * Z * nat)) : td := fst (set_expressions td_empty fs).

Lemma vav_empty vals v : value_at_value td_empty vals v = Val (vals 0%nat).
Proof. reflexivity. Qed.

Lemma frame_elem_not_in t fs v :
  frames_match t fs -> (forall f, In f fs -> ~ in_frame v f) ->
  forall a, In a (td_elems t) -> e_expr a <> 0%nat ->
    ~ (inject_Z (e_start a) <= v /\ v < inject_Z (e_end a)).
Proof.
  intros [Hm _] Hout a Ha Hk. specialize (Hout _ (Hm a Ha Hk)). exact Hout.
Qed.

Lemma C17_accepts_proof fs :
  layout_ok fs -> Forall (fun r => r = SetOk) (snd (set_expressions td_empty fs)).
Proof. intros H. apply (build_inv fs H). Qed.

Lemma C17_frame_lookup_proof fs v :
  layout_ok fs -> 0 <= v -> v < inject_Z max_time ->
  (forall s e k, In (s, e, k) fs -> in_frame v (s, e, k) ->
     expression_at_value (fst (set_expressions td_empty fs)) v = k) /\
  ((forall f, In f fs -> ~ in_frame v f) ->
     expression_at_value (fst (set_expressions td_empty fs)) v = 0%nat).
Proof.
  intros Hlay _ _.
  destruct (build_inv fs Hlay) as [_ [[-> Ht]|[Hwf Hm]]].
  - split; [intros s e k []|intros _; reflexivity].
  - split.
    + intros s e k Hin [Hs He]. destruct Hm as [_ Hm2]. destruct (Hm2 _ _ _ Hin) as [Hel Hk].
      apply (lookup_frame_wf _ v s e k Hwf Hel Hk Hs He).
    + intros Hout. apply (lookup_default_wf _ v Hwf).
      apply (frame_elem_not_in _ fs v Hm Hout).
Qed.

Lemma C17_nonneg_proof fs vals v x :
  layout_ok fs -> vals_ok vals -> 0 <= v ->
  value_at_value (fst (set_expressions td_empty fs)) vals v = Val x -> 0 <= x.
Proof.
  intros Hlay Hv Hv0 H.
  destruct (build_inv fs Hlay) as [_ [[-> Ht]|[Hwf Hm]]].
  - simpl in H. injection H as <-. apply Hv.
  - apply (nonneg_wf _ vals v x Hwf Hv Hv0 H).
Qed.

Lemma C17_fifo_proof fs vals v1 v2 x1 x2 :
  layout_ok fs -> vals_ok vals -> 0 <= v1 -> v1 <= v2 ->
  value_at_value (fst (set_expressions td_empty fs)) vals v1 = Val x1 ->
  value_at_value (fst (set_expressions td_empty fs)) vals v2 = Val x2 ->
  v1 + x1 <= v2 + x2.
Proof.
  intros Hlay Hv Hv0 Hle H1 H2.
  destruct (build_inv fs Hlay) as [_ [[-> Ht]|[Hwf Hm]]].
  - simpl in H1, H2. injection H1 as <-. injection H2 as <-. lra.
  - apply (fifo_wf _ vals v1 v2 x1 x2 Hwf Hv Hv0 Hle H1 H2).
Qed.

Lemma C17_inside_one_frame_proof fs vals s e k v x :
  layout_ok fs -> vals_ok vals -> In (s, e, k) fs ->
  inject_Z s <= v -> v < inject_Z e -> v + vals k <= inject_Z e ->
  value_at_value (fst (set_expressions td_empty fs)) vals v = Val x -> x == vals k.
Proof.
  intros Hlay Hv Hin Hs He Hroom H.
  destruct (build_inv fs Hlay) as [_ [[-> Ht]|[Hwf Hm]]]; [destruct Hin|].
  destruct Hlay as (Hok & _ & _). rewrite Forall_forall in Hok.
  destruct (Hok _ Hin) as [(Hs0 & _ & _ & _ & Hemax) _].
  rewrite Zle_Qle in Hs0. rewrite Zlt_Qlt in Hemax. change (inject_Z 0) with 0 in Hs0.
  destruct Hm as [_ Hm2]. destruct (Hm2 _ _ _ Hin) as [Hel _].
  apply (inside_wf _ vals s e k v x Hwf Hv Hel); try assumption; lra.
Qed.

Lemma C17_outside_frames_proof fs vals v x :
  layout_ok fs -> vals_ok vals -> 0 <= v ->
  (forall f, In f fs -> ~ in_frame v f) ->
  (forall s e k, In (s, e, k) fs -> v <= inject_Z s -> v + vals 0%nat <= inject_Z s) ->
  value_at_value (fst (set_expressions td_empty fs)) vals v = Val x -> x == vals 0%nat.
Proof.
  intros Hlay Hv Hv0 Hout Hroom H.
  destruct (build_inv fs Hlay) as [_ [[-> Ht]|[Hwf Hm]]].
  - simpl in H. injection H as <-. reflexivity.
  - apply (outside_wf _ vals v x Hwf Hv Hv0).
    + apply (frame_elem_not_in _ fs v Hm Hout).
    + intros a Ha Hk. destruct Hm as [Hm1 _]. apply (Hroom _ _ _ (Hm1 a Ha Hk)).
    + exact H.
Qed.

Lemma C17_total_proof fs vals v :
  layout_ok fs -> vals_ok vals -> 0 <= v ->
  exists x, value_at_value (fst (set_expressions td_empty fs)) vals v = Val x.
Proof.
  intros Hlay Hv Hv0.
  destruct (build_inv fs Hlay) as [_ [[-> Ht]|[Hwf Hm]]].
  - simpl. eexists; reflexivity.
  - apply (total_wf _ vals v Hwf Hv Hv0).
Qed.

(* ------------------------------------------------------------------ *)
(** * Non-vacuity: a concrete layout, inserted out of order, with one
      adjacent pair (3600-7200, 7200-10800) and one gap (10800-14400). *)

Definition ex_fs : list (Z * Z * nat) :=
  [(14400, 18000, 3%nat); (3600, 7200, 1%nat); (7200, 10800, 2%nat)]%Z.

Definition ex_vals (k : nat) : Q :=
  match k with 0%nat => 600 | 1%nat => 1200 | 2%nat => 2400 | _ => 300 end.

Example ex_layout_ok : layout_ok ex_fs.
Proof.
  split; [|split].
  - unfold ex_fs. repeat constructor; try (unfold max_time; lia); try reflexivity; discriminate.
  - unfold ex_fs. repeat constructor; simpl; lia.
  - intros f g Hf Hg. unfold ex_fs in Hf, Hg. simpl in Hf, Hg.
    destruct Hf as [<-|[<-|[<-|[]]]]; destruct Hg as [<-|[<-|[<-|[]]]]; simpl; unfold week; lia.
Qed.

Example ex_vals_ok : vals_ok ex_vals.
Proof. intros [|[|[|k]]]; simpl; lra. Qed.

Example ex_accepted : snd (set_expressions td_empty ex_fs) = [SetOk; SetOk; SetOk].
Proof. vm_compute. reflexivity. Qed.

(* the built list: default, frame 1, empty default, frame 2, default (the gap),
   frame 3, default up to max_time *)
Example ex_elems : td_elems (built ex_fs) =
  [mkElem 0 3600 0; mkElem 3600 7200 1; mkElem 7200 7200 0; mkElem 7200 10800 2;
   mkElem 10800 14400 0; mkElem 14400 18000 3; mkElem 18000 max_time 0]%Z.
Proof. vm_compute. reflexivity. Qed.

(* departure 7000 in frame 1 (200 s left = 1/6 of 1200), the other 5/6 at
   frame 2's 2400: 200 + 2000 *)
Example ex_stitch_adjacent : tdres_eq (value_at_value (built ex_fs) ex_vals 7000) (Val 2200).
Proof. vm_compute. reflexivity. Qed.

(* departure 10700 in frame 2 (100 s = 1/24 of 2400), the other 23/24 in the
   gap at the default 600: 100 + 575 *)
Example ex_stitch_gap : tdres_eq (value_at_value (built ex_fs) ex_vals 10700) (Val 675).
Proof. vm_compute. reflexivity. Qed.

(* departure 14300 in the gap (100 s = 1/6 of 600), the other 5/6 at frame 3's 300 *)
Example ex_stitch_into_frame : tdres_eq (value_at_value (built ex_fs) ex_vals 14300) (Val 350).
Proof. vm_compute. reflexivity. Qed.

Example ex_lookup :
  expression_at_value (built ex_fs) 7000 = 1%nat /\
  expression_at_value (built ex_fs) 7200 = 2%nat /\
  expression_at_value (built ex_fs) (21599 # 2) = 2%nat /\
  expression_at_value (built ex_fs) 12000 = 0%nat /\
  expression_at_value (built ex_fs) 14400 = 3%nat.
Proof. vm_compute. repeat split. Qed.

(* FIFO instance on real values: 7000 + 2200 <= 10700 + 675 *)
Example ex_fifo_instance : 7000 + 2200 <= 10700 + 675.
Proof. lra. Qed.

(* departure 17900 in frame 3 (100 s = 1/3 of 300), the other 2/3 in the last
   element at the default 600 *)
Example ex_stitch_into_last : tdres_eq (value_at_value (built ex_fs) ex_vals 17900) (Val 500).
Proof. vm_compute. reflexivity. Qed.

(* departures in the last element, 10 s before max_time and 5 s after it: the
   default duration, no panic *)
Example ex_last_element :
  tdres_eq (value_at_value (built ex_fs) ex_vals (inject_Z max_time - 10)) (Val 600) /\
  tdres_eq (value_at_value (built ex_fs) ex_vals (inject_Z max_time + 5)) (Val 600).
Proof. vm_compute. split; reflexivity. Qed.

(* the hypotheses of the theorems are satisfiable together: totality applied
   to the concrete layout, inside it and beyond max_time *)
Example ex_total_instance : exists x, value_at_value (built ex_fs) ex_vals 7000 = Val x.
Proof. apply (C17_total_proof ex_fs ex_vals 7000 ex_layout_ok ex_vals_ok). lra. Qed.

Example ex_total_instance_late :
  exists x, value_at_value (built ex_fs) ex_vals (inject_Z max_time + 5) = Val x.
Proof.
  apply (C17_total_proof ex_fs ex_vals _ ex_layout_ok ex_vals_ok).
  apply Qle_bool_iff. vm_compute. reflexivity.
Qed.

(* ------------------------------------------------------------------ *)
(** * Overlapping frames listed out of chronological order *)

(* default 100000 s, frame 2 = [54000, 54120) with 300000 s, then frame 1 =
   [18060, 54060) with 150000 s: the second frame starts in the gap in front of
   the first and reaches 60 s into it.  The code before the repair accepted it
   (the element the new frame STARTS in is a gap) and left an element of negative
   length behind: leaving at 53999.875 one arrives later than leaving at 54000.
   The repaired code answers the second call with the overlap error. *)
Definition ov_frames : list (Z * Z * nat) := [(54000, 54120, 2%nat); (18060, 54060, 1%nat)]%Z.
Definition ov_vals (k : nat) : Q :=
  match k with O => 100000 | S O => 150000 | _ => 300000 end.

Lemma ov_vals_ok : vals_ok ov_vals.
Proof. intros [|[|k]]; unfold ov_vals; unfold Qle; simpl; lia. Qed.

Example C17_overlap_accepted_refuted_proof :
  exists x1 x2,
    snd (set_expressions_lenient td_empty ov_frames) = [SetOk; SetOk] /\
    vals_ok ov_vals /\ 0 <= 431999 # 8 /\ 431999 # 8 <= 54000 /\
    value_at_value (fst (set_expressions_lenient td_empty ov_frames)) ov_vals (431999 # 8) = Val x1 /\
    value_at_value (fst (set_expressions_lenient td_empty ov_frames)) ov_vals 54000 = Val x2 /\
    54000 + x2 < (431999 # 8) + x1 /\
    (* the repaired code rejects the second frame and keeps the first *)
    snd (set_expressions td_empty ov_frames) = [SetOk; SetErr 7] /\
    td_elems (fst (set_expressions td_empty ov_frames)) = td_elems (fst (set_expressions td_empty [(54000, 54120, 2%nat)]%Z)).
Proof.
  eexists. eexists.
  split; [vm_compute; reflexivity|]. split; [exact ov_vals_ok|].
  split; [unfold Qle; simpl; lia|]. split; [unfold Qle; simpl; lia|].
  split; [vm_compute; reflexivity|]. split; [vm_compute; reflexivity|].
  split; [vm_compute; reflexivity|]. split; vm_compute; reflexivity.
Qed.
