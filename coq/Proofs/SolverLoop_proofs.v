(* Proofs about the solver-loop protocol models (NR.Model.SolverLoop).

   Part 1: single solver loop        (C06_single_...)
   Part 2: aggregator                (C06_aggregator_...)
   Part 3: parallel solver LTS       (C06_parallel..., C15_...)

   The property files Props/C06.v and Props/C15.v only restate the theorems
   proved here.  Scores are integers, LOWER is better. *)

From Coq Require Import List ZArith Bool Lia Arith Sorting.Sorted.
From NR Require Import Model.SolverLoop.
Import ListNotations.
Open Scope Z_scope.

(* ================================================================== *)
(* 0. Generic list facts                                               *)
(* ================================================================== *)

(* oldest first, strictly decreasing *)
Definition decreasing (l : list Z) : Prop := StronglySorted Z.gt l.

Lemma decreasing_snoc : forall l x,
  decreasing l -> Forall (fun y => y > x) l -> decreasing (l ++ [x]).
Proof.
  unfold decreasing. induction l as [|a l IH]; intros x Hs Hf; simpl.
  - constructor; constructor.
  - inversion Hs as [|? ? Hs' Ha]; subst. inversion Hf as [|? ? Hax Hf']; subst.
    constructor.
    + apply IH; assumption.
    + apply Forall_app. split; [assumption|]. constructor; [exact Hax|constructor].
Qed.

(* newest-first strictly increasing = oldest-first strictly decreasing *)
Lemma increasing_rev_decreasing : forall l,
  StronglySorted Z.lt l -> decreasing (rev l).
Proof.
  induction l as [|a l IH]; intros Hs; simpl.
  - constructor.
  - inversion Hs as [|? ? Hs' Ha]; subst.
    apply decreasing_snoc; [apply IH; assumption|].
    apply Forall_rev. eapply Forall_impl; [|exact Ha]. intros y Hy. simpl in Hy. lia.
Qed.

Lemma rev_last_first : forall (pre : list Z) x, rev (pre ++ [x]) = x :: rev pre.
Proof. intros. rewrite rev_app_distr. reflexivity. Qed.

(* z is below the running minimum iff it is below the seed and every element *)
Lemma le_fold_min : forall l b z,
  z <= fold_left Z.min l b <-> z <= b /\ Forall (Z.le z) l.
Proof.
  induction l as [|a l IH]; intros b z; simpl.
  - split; [intros H; split; [exact H|constructor] | intros [H _]; exact H].
  - rewrite IH, Forall_cons_iff, Z.min_glb_iff. tauto.
Qed.

Lemma eq_by_le : forall a b : Z, (forall z, z <= a <-> z <= b) -> a = b.
Proof.
  intros a b H. pose proof (proj1 (H a) (Z.le_refl a)). pose proof (proj2 (H b) (Z.le_refl b)). lia.
Qed.

Lemma fold_min_le_seed : forall l b, fold_left Z.min l b <= b.
Proof.
  intros l b. pose proof (proj1 (le_fold_min l b (fold_left Z.min l b)) (Z.le_refl _)) as [H _].
  exact H.
Qed.

(* ================================================================== *)
(* 1. Single solver                                                    *)
(* ================================================================== *)

Record SingleInv (start : Z) (st : sstate) : Prop := {
  si_sorted : StronglySorted Z.lt (s_sent st);             (* newest first: increasing *)
  si_lb     : Forall (fun x => s_best st <= x) (s_sent st);
  si_last   : exists pre, s_sent st = pre ++ [start]
}.

Lemma single_inv_init : forall start, SingleInv start (sinit start).
Proof.
  intros start. constructor; simpl.
  - constructor; constructor.
  - constructor; [lia|constructor].
  - exists []. reflexivity.
Qed.

Lemma sreset_sent : forall st x, s_sent (sreset st x) = s_sent st.
Proof. reflexivity. Qed.

Lemma sreset_best_le : forall st x, s_best (sreset st x) <= s_best st.
Proof. intros st x. simpl. destruct (Z.ltb_spec x (s_best st)); lia. Qed.

Lemma single_inv_reset : forall start st x, SingleInv start st -> SingleInv start (sreset st x).
Proof.
  intros start st x [Hs Hl Hp]. constructor; rewrite ?sreset_sent.
  - exact Hs.
  - eapply Forall_impl; [|exact Hl]. intros y Hy. simpl in Hy.
    pose proof (sreset_best_le st x). lia.
  - exact Hp.
Qed.

Lemma single_inv_resets : forall start xs st,
  SingleInv start st -> SingleInv start (fold_left sreset xs st).
Proof.
  induction xs as [|x xs IH]; intros st H; simpl; [exact H|].
  apply IH. apply single_inv_reset. exact H.
Qed.

Lemma single_inv_exec : forall start st e, SingleInv start st -> SingleInv start (sexec st e).
Proof.
  intros start st e H. unfold sexec.
  pose proof (single_inv_resets start (ex_resets e) st H) as [Hs Hl [pre Hp]].
  set (st1 := fold_left sreset (ex_resets e) st) in *.
  destruct (ex_can_improve e && (ex_work e <? s_best st1)) eqn:Hc.
  - apply andb_true_iff in Hc. destruct Hc as [_ Hlt]. apply Z.ltb_lt in Hlt.
    constructor; simpl.
    + constructor; [exact Hs|]. eapply Forall_impl; [|exact Hl]. intros y Hy. simpl in Hy. lia.
    + constructor; [lia|]. eapply Forall_impl; [|exact Hl]. intros y Hy. simpl in Hy. lia.
    + exists (ex_work e :: pre). rewrite Hp. reflexivity.
  - constructor; simpl; [exact Hs|exact Hl|exists pre; exact Hp].
Qed.

Lemma single_inv_fold : forall start es st,
  SingleInv start st -> SingleInv start (fold_left sexec es st).
Proof.
  induction es as [|e es IH]; intros st H; simpl; [exact H|].
  apply IH. apply single_inv_exec. exact H.
Qed.

Lemma single_inv_run : forall start es, SingleInv start (srun start es).
Proof. intros. unfold srun. apply single_inv_fold. apply single_inv_init. Qed.

Lemma C06_single_decreasing_proof : forall start es,
  decreasing (rev (s_sent (srun start es))).
Proof. intros. apply increasing_rev_decreasing. apply (single_inv_run start es). Qed.

Lemma C06_single_first_is_start_proof : forall start es,
  exists tl, rev (s_sent (srun start es)) = start :: tl.
Proof.
  intros. destruct (si_last _ _ (single_inv_run start es)) as [pre Hp].
  exists (rev pre). rewrite Hp. apply rev_last_first.
Qed.

Lemma C06_single_sent_ge_best_proof : forall start es,
  Forall (fun x => s_best (srun start es) <= x) (s_sent (srun start es)).
Proof. intros. apply (single_inv_run start es). Qed.

(* --- last sent = best, when no operator resets to something better --- *)

(* every reset value met while folding is not better than the best at that moment *)
Fixpoint benign_resets (st : sstate) (xs : list Z) : Prop :=
  match xs with
  | [] => True
  | x :: r => s_best st <= x /\ benign_resets (sreset st x) r
  end.

Fixpoint benign_from (st : sstate) (es : list exec) : Prop :=
  match es with
  | [] => True
  | e :: r => benign_resets st (ex_resets e) /\ benign_from (sexec st e) r
  end.

Definition benign (start : Z) (es : list exec) : Prop := benign_from (sinit start) es.

Definition head_is_best (st : sstate) : Prop := exists tl, s_sent st = s_best st :: tl.

Lemma benign_resets_keep : forall xs st,
  benign_resets st xs ->
  s_best (fold_left sreset xs st) = s_best st /\ s_sent (fold_left sreset xs st) = s_sent st.
Proof.
  induction xs as [|x xs IH]; intros st H; simpl; [split; reflexivity|].
  destruct H as [Hx Hr]. destruct (IH _ Hr) as [Hb Hs]. rewrite Hb, Hs. split; [|reflexivity].
  simpl. destruct (Z.ltb_spec x (s_best st)); [lia|reflexivity].
Qed.

Lemma head_is_best_exec : forall st e,
  benign_resets st (ex_resets e) -> head_is_best st -> head_is_best (sexec st e).
Proof.
  intros st e Hb [tl Ht]. unfold sexec. destruct (benign_resets_keep _ _ Hb) as [Hbest Hsent].
  destruct (ex_can_improve e && (ex_work e <? s_best (fold_left sreset (ex_resets e) st))).
  - eexists. simpl. reflexivity.
  - exists tl. simpl. rewrite Hbest, Hsent. exact Ht.
Qed.

Lemma head_is_best_fold : forall es st,
  benign_from st es -> head_is_best st -> head_is_best (fold_left sexec es st).
Proof.
  induction es as [|e es IH]; intros st Hb Hh; simpl; [exact Hh|].
  destruct Hb as [Hb1 Hb2]. apply IH; [exact Hb2|]. apply head_is_best_exec; assumption.
Qed.

Lemma C06_single_last_is_best_proof : forall start es,
  benign start es ->
  hd start (s_sent (srun start es)) = s_best (srun start es).
Proof.
  intros start es Hb. unfold srun.
  destruct (head_is_best_fold es (sinit start) Hb) as [tl Ht].
  - exists []. reflexivity.
  - rewrite Ht. reflexivity.
Qed.

Lemma no_resets_benign_from : forall es st,
  (forall e, In e es -> ex_resets e = []) -> benign_from st es.
Proof.
  induction es as [|e es IH]; intros st H; simpl; [exact I|]. split.
  - rewrite (H e (or_introl eq_refl)). exact I.
  - apply IH. intros e' He'. apply H. right. exact He'.
Qed.

Lemma no_resets_benign_proof : forall start es,
  (forall e, In e es -> ex_resets e = []) -> benign start es.
Proof. intros. apply no_resets_benign_from. assumption. Qed.

(* Without [benign] the statement is false: an operator that resets to a
   better solution updates [best] but nothing is sent. *)
Lemma C06_single_last_is_best_refuted_proof :
  exists start es, hd start (s_sent (srun start es)) <> s_best (srun start es).
Proof. exists 10, [mkExec [5] 7 true]. vm_compute. discriminate. Qed.

(* ================================================================== *)
(* 2. Aggregator                                                       *)
(* ================================================================== *)

Lemma ainit_fold : forall starts s0,
  fold_left (fun b x => if x <? b then x else b) starts s0 = fold_left Z.min starts s0.
Proof.
  induction starts as [|a l IH]; intros s0; simpl; [reflexivity|].
  rewrite IH. f_equal. destruct (Z.ltb_spec a s0); lia.
Qed.

Lemma ainit_best : forall s0 starts, a_best (ainit s0 starts) = fold_left Z.min starts s0.
Proof. intros. unfold ainit. simpl. apply ainit_fold. Qed.

Lemma ainit_out : forall s0 starts, a_out (ainit s0 starts) = [fold_left Z.min starts s0].
Proof. intros. unfold ainit. simpl. rewrite ainit_fold. reflexivity. Qed.

Record AggInv (b0 : Z) (st : astate) : Prop := {
  ai_sorted : StronglySorted Z.lt (a_out st);
  ai_lb     : Forall (fun x => a_best st <= x) (a_out st);
  ai_head   : exists tl, a_out st = a_best st :: tl;
  ai_last   : exists pre, a_out st = pre ++ [b0]
}.

Lemma agg_inv_init : forall s0 starts, AggInv (fold_left Z.min starts s0) (ainit s0 starts).
Proof.
  intros. constructor; rewrite ?ainit_out, ?ainit_best.
  - constructor; constructor.
  - constructor; [lia|constructor].
  - exists []. reflexivity.
  - exists []. reflexivity.
Qed.

Lemma agg_inv_recv : forall b0 st x, AggInv b0 st -> AggInv b0 (arecv st x).
Proof.
  intros b0 st x [Hs Hl Hh [pre Hp]]. unfold arecv.
  destruct (Z.leb_spec (a_best st) x) as [Hle|Hlt].
  - constructor; [exact Hs|exact Hl|exact Hh|exists pre; exact Hp].
  - constructor; simpl.
    + constructor; [exact Hs|]. eapply Forall_impl; [|exact Hl]. intros y Hy. simpl in Hy. lia.
    + constructor; [lia|]. eapply Forall_impl; [|exact Hl]. intros y Hy. simpl in Hy. lia.
    + eexists. reflexivity.
    + exists (x :: pre). rewrite Hp. reflexivity.
Qed.

Lemma agg_inv_fold : forall b0 l st, AggInv b0 st -> AggInv b0 (fold_left arecv l st).
Proof.
  induction l as [|x l IH]; intros st H; simpl; [exact H|]. apply IH. apply agg_inv_recv. exact H.
Qed.

Lemma arecv_best : forall st x, a_best (arecv st x) = Z.min (a_best st) x.
Proof. intros st x. unfold arecv. destruct (Z.leb_spec (a_best st) x); simpl; lia. Qed.

Lemma arecv_fold_best : forall l st,
  a_best (fold_left arecv l st) = fold_left Z.min l (a_best st).
Proof.
  induction l as [|x l IH]; intros st; simpl; [reflexivity|]. rewrite IH, arecv_best. reflexivity.
Qed.

Lemma agg_inv_run : forall s0 starts received,
  AggInv (fold_left Z.min starts s0) (arun s0 starts received).
Proof. intros. unfold arun. apply agg_inv_fold. apply agg_inv_init. Qed.

Lemma agg_inv_decreasing : forall b0 st, AggInv b0 st -> decreasing (rev (a_out st)).
Proof. intros b0 st H. apply increasing_rev_decreasing. apply H. Qed.

Lemma agg_inv_first : forall b0 st, AggInv b0 st -> exists tl, rev (a_out st) = b0 :: tl.
Proof.
  intros b0 st H. destruct (ai_last _ _ H) as [pre Hp]. exists (rev pre). rewrite Hp.
  apply rev_last_first.
Qed.

Lemma agg_inv_hd : forall b0 st d, AggInv b0 st -> hd d (a_out st) = a_best st.
Proof. intros b0 st d H. destruct (ai_head _ _ H) as [tl Ht]. rewrite Ht. reflexivity. Qed.

Lemma C06_aggregator_decreasing_proof : forall s0 starts received,
  decreasing (rev (a_out (arun s0 starts received))).
Proof. intros. eapply agg_inv_decreasing. apply agg_inv_run. Qed.

Lemma C06_aggregator_first_is_min_start_proof : forall s0 starts received,
  exists tl, rev (a_out (arun s0 starts received)) = fold_left Z.min starts s0 :: tl.
Proof. intros. eapply agg_inv_first. apply agg_inv_run. Qed.

Lemma C06_aggregator_last_is_min_proof : forall s0 starts received,
  hd s0 (a_out (arun s0 starts received)) = fold_left Z.min (starts ++ received) s0 /\
  a_best (arun s0 starts received) = fold_left Z.min (starts ++ received) s0.
Proof.
  intros. rewrite (agg_inv_hd _ _ s0 (agg_inv_run s0 starts received)).
  assert (a_best (arun s0 starts received) = fold_left Z.min (starts ++ received) s0) as E.
  { unfold arun. rewrite arecv_fold_best, ainit_best, fold_left_app. reflexivity. }
  split; exact E.
Qed.

(* ================================================================== *)
(* 3. Parallel solver                                                  *)
(* ================================================================== *)

(* ---------- 3.0 infrastructure ---------- *)

Definition sumZ (l : list Z) : Z := fold_right Z.add 0 l.

Lemma sumZ_app : forall l1 l2, sumZ (l1 ++ l2) = sumZ l1 + sumZ l2.
Proof. induction l1 as [|a l IH]; intros; simpl; [reflexivity|]. rewrite IH. lia. Qed.

Lemma sumZ_cons : forall a l, sumZ (a :: l) = a + sumZ l.
Proof. reflexivity. Qed.

(* replacing the r-th worker: the list splits around it *)
Lemma set_w_split : forall ws r w,
  nth_error ws r = Some w ->
  exists l1 l2, ws = l1 ++ w :: l2 /\ length l1 = r /\
                forall w', set_w ws r w' = l1 ++ w' :: l2.
Proof.
  induction ws as [|h t IH]; intros r w H; destruct r as [|k]; simpl in H; try discriminate.
  - inversion H; subst. exists [], t. repeat split.
  - destruct (IH _ _ H) as (l1 & l2 & E & L & S). exists (h :: l1), l2. subst t. repeat split.
    + simpl. rewrite L. reflexivity.
    + intros w'. simpl. rewrite S. reflexivity.
Qed.

Lemma nth_error_mid : forall (pre : list wphase) w t, nth_error (pre ++ w :: t) (length pre) = Some w.
Proof. induction pre; simpl; intros; [reflexivity|apply IHpre]. Qed.

Lemma set_w_mid : forall pre w t w', set_w (pre ++ w :: t) (length pre) w' = pre ++ w' :: t.
Proof. induction pre; simpl; intros; [reflexivity|rewrite IHpre; reflexivity]. Qed.

Lemma active_count_app : forall l1 l2,
  active_count (l1 ++ l2) = (active_count l1 + active_count l2)%nat.
Proof. intros. unfold active_count. rewrite filter_app, app_length. reflexivity. Qed.

Lemma active_count_cons : forall w l,
  active_count (w :: l) = ((if is_active w then 1 else 0) + active_count l)%nat.
Proof. intros. unfold active_count. simpl. destruct (is_active w); reflexivity. Qed.

Lemma active_count_zero_inactive : forall ws,
  active_count ws = 0%nat -> Forall (fun w => is_active w = false) ws.
Proof.
  induction ws as [|w ws IH]; intros H; [constructor|].
  rewrite active_count_cons in H. destruct (is_active w) eqn:E; [simpl in H; lia|].
  constructor; [exact E|apply IH; simpl in H; exact H].
Qed.

Ltac psimpl :=
  cbn [p_iterations p_runs p_deterministic p_left p_total p_cancelled p_workers
       p_in_cycle p_disp_done p_agg p_pending p_closed] in *.

(* invert [pstep st a = Some st'] into its enabled cases *)
Ltac step_inv H :=
  unfold pstep, upd_w in H; cbv zeta in H;
  repeat match type of H with
  | context [match ?x with _ => _ end] => destruct x eqn:?; try discriminate
  end;
  inversion H; subst; clear H; psimpl.

Ltac bool_hyps :=
  repeat match goal with
  | H : _ && _ = true |- _ => apply andb_true_iff in H; destruct H
  | H : _ || _ = false |- _ => apply orb_false_iff in H; destruct H
  | H : negb _ = true |- _ => apply negb_true_iff in H
  | H : negb _ = false |- _ => apply negb_false_iff in H
  | H : (_ <? _) = true |- _ => apply Z.ltb_lt in H
  | H : (_ <? _) = false |- _ => apply Z.ltb_ge in H
  | H : (_ <=? _) = true |- _ => apply Z.leb_le in H
  | H : (_ <=? _) = false |- _ => apply Z.leb_gt in H
  | H : (_ <? _)%nat = true |- _ => apply Nat.ltb_lt in H
  | H : (_ =? _)%nat = true |- _ => apply Nat.eqb_eq in H
  end.

(* expose the worker list around the worker touched by the action *)
Ltac split_w :=
  match goal with
  | H : nth_error (p_workers ?st) ?r = Some ?w |- _ =>
      let l1 := fresh "l1" in let l2 := fresh "l2" in
      let E := fresh "Ews" in let L := fresh "Len" in let S := fresh "Eset" in
      destruct (set_w_split _ _ _ H) as (l1 & l2 & E & L & S);
      rewrite ?S in *; clear S H
  end.

(* run / enabledness over schedules *)
Lemma prun_app : forall k1 k2 st, prun st (k1 ++ k2) = prun (prun st k1) k2.
Proof.
  induction k1 as [|a k1 IH]; intros; simpl; [reflexivity|].
  destruct (pstep st a); apply IH.
Qed.

(* generic lifting of a step invariant to schedules *)
Lemma prun_invariant : forall (P : pstate -> Prop),
  (forall st a st', pstep st a = Some st' -> P st -> P st') ->
  forall sched st, P st -> P (prun st sched).
Proof.
  intros P Hstep. induction sched as [|a k IH]; intros st H; simpl; [exact H|].
  destruct (pstep st a) eqn:E; [apply IH; eapply Hstep; eauto|apply IH; exact H].
Qed.

(* ---------- 3.1 C06: the aggregator inside the parallel solver ---------- *)

Lemma pstep_agg : forall st a st',
  pstep st a = Some st' ->
  p_agg st' = p_agg st \/ exists x, p_agg st' = arecv (p_agg st) x.
Proof.
  intros st a st' H. destruct a; step_inv H; try (left; reflexivity).
  right. eexists. reflexivity.
Qed.

Lemma agg_inv_pstep : forall b0 st a st',
  pstep st a = Some st' -> AggInv b0 (p_agg st) -> AggInv b0 (p_agg st').
Proof.
  intros b0 st a st' H Hi. destruct (pstep_agg _ _ _ H) as [E|[x E]]; rewrite E.
  - exact Hi.
  - apply agg_inv_recv. exact Hi.
Qed.

Lemma agg_inv_prun : forall iters runs det s0 starts sched,
  AggInv (fold_left Z.min starts s0) (p_agg (prun (pinit iters runs det s0 starts) sched)).
Proof.
  intros. apply (prun_invariant (fun st => AggInv (fold_left Z.min starts s0) (p_agg st))).
  - intros st a st' H. apply agg_inv_pstep with (a := a). exact H.
  - simpl. apply agg_inv_init.
Qed.

Lemma C06_parallel_proof : forall iters runs det s0 starts sched,
  let st := prun (pinit iters runs det s0 starts) sched in
  decreasing (rev (a_out (p_agg st))) /\
  (exists tl, rev (a_out (p_agg st)) = fold_left Z.min starts s0 :: tl) /\
  hd s0 (a_out (p_agg st)) = a_best (p_agg st).
Proof.
  intros. pose proof (agg_inv_prun iters runs det s0 starts sched) as H. fold st in H.
  split; [eapply agg_inv_decreasing; exact H|].
  split; [eapply agg_inv_first; exact H|eapply agg_inv_hd; exact H].
Qed.

(* ---------- 3.2 structural invariant (no hypothesis on the budget) ---------- *)

Record StructInv (st : pstate) : Prop := {
  st_par    : (active_count (p_workers st) <= p_runs st)%nat;
  st_disp   : p_disp_done st = true ->
              active_count (p_workers st) = 0%nat /\ p_cancelled st = true;
  st_closed : p_closed st = true -> p_disp_done st = true /\ p_pending st = None
}.

Lemma struct_inv_init : forall iters runs det s0 starts,
  StructInv (pinit iters runs det s0 starts).
Proof.
  intros. constructor; simpl; intros; try discriminate. unfold active_count. simpl. lia.
Qed.

Ltac ac_norm :=
  repeat (rewrite ?active_count_app, ?active_count_cons in * );
  cbn [is_active] in *.

Lemma struct_inv_step : forall st a st',
  pstep st a = Some st' -> StructInv st -> StructInv st'.
Proof.
  intros st a st' H [Hp Hd Hc].
  destruct a; step_inv H; bool_hyps; try split_w;
    try match goal with E : p_workers _ = _ |- _ => rewrite E in * end;
    constructor; psimpl; ac_norm; intros;
    try discriminate; try congruence;
    repeat match goal with
    | H1 : ?b = true -> _, H2 : ?b = true |- _ => specialize (H1 H2)
    end;
    try (cbn [active_count filter length] in *; intuition (try congruence; try lia)).
Qed.

(* ---------- 3.3 budget invariant ---------- *)

Record BudgetInv (iters : Z) (st : pstate) : Prop := {
  bi_iters   : p_iterations st = iters;
  bi_workers : Forall (fun w => 0 <= w_done w <= w_granted w) (p_workers st);
  bi_total   : p_total st = sumZ (map w_done (p_workers st));
  bi_granted : sumZ (map w_granted (p_workers st)) <= iters - Z.max 0 (p_left st);
  bi_cancel  : 0 < iters -> iters <= p_total st -> p_cancelled st = true
}.

Lemma budget_inv_init : forall iters runs det s0 starts,
  0 <= iters -> BudgetInv iters (pinit iters runs det s0 starts).
Proof.
  intros. constructor; unfold pinit; psimpl; cbn [map sumZ fold_right].
  - reflexivity.
  - constructor.
  - reflexivity.
  - lia.
  - intros. lia.
Qed.

Ltac list_norm :=
  repeat (rewrite ?map_app, ?sumZ_app, ?Forall_app, ?Forall_cons_iff in * );
  cbn [map sumZ fold_right w_done w_granted] in *.

Lemma budget_inv_step : forall iters st a st',
  pstep st a = Some st' -> BudgetInv iters st -> BudgetInv iters st'.
Proof.
  intros iters st a st' H [Hi Hw Ht Hg Hc].
  destruct a; step_inv H; bool_hyps; try split_w;
    try match goal with E : p_workers _ = _ |- _ => rewrite E in * end;
    constructor; psimpl; list_norm; intros;
    try reflexivity; try assumption; try lia;
    try (intuition (try constructor; try lia)).
Qed.

Lemma struct_inv_prun : forall iters runs det s0 starts sched,
  StructInv (prun (pinit iters runs det s0 starts) sched).
Proof.
  intros. apply (prun_invariant StructInv).
  - intros st a st' H. apply struct_inv_step with (a := a). exact H.
  - apply struct_inv_init.
Qed.

Lemma budget_inv_prun : forall iters runs det s0 starts sched,
  0 <= iters -> BudgetInv iters (prun (pinit iters runs det s0 starts) sched).
Proof.
  intros. apply (prun_invariant (BudgetInv iters)).
  - intros st a st' Hs. apply budget_inv_step with (a := a). exact Hs.
  - apply budget_inv_init. assumption.
Qed.

Lemma sum_done_le_granted : forall ws,
  Forall (fun w => 0 <= w_done w <= w_granted w) ws ->
  sumZ (map w_done ws) <= sumZ (map w_granted ws).
Proof.
  induction 1 as [|w ws Hw _ IH]; simpl; lia.
Qed.

Lemma C15_budget_proof : forall iters runs det s0 starts sched,
  0 <= iters ->
  let st := prun (pinit iters runs det s0 starts) sched in
  p_total st <= iters.
Proof.
  intros iters runs det s0 starts sched Hi st.
  destruct (budget_inv_prun iters runs det s0 starts sched Hi) as [_ Hw Ht Hg _]. fold st in Hw, Ht, Hg.
  pose proof (sum_done_le_granted _ Hw). lia.
Qed.

Lemma C15_reported_equals_performed_proof : forall iters runs det s0 starts sched,
  0 <= iters ->
  let st := prun (pinit iters runs det s0 starts) sched in
  p_total st = fold_right Z.add 0 (map w_done (p_workers st)) /\
  Forall (fun w => 0 <= w_done w <= w_granted w) (p_workers st) /\
  fold_right Z.add 0 (map w_granted (p_workers st)) <= iters.
Proof.
  intros iters runs det s0 starts sched Hi st.
  destruct (budget_inv_prun iters runs det s0 starts sched Hi) as [_ Hw Ht Hg _]. fold st in Hw, Ht, Hg.
  split; [exact Ht|]. split; [exact Hw|]. unfold sumZ in Hg. lia.
Qed.

(* budget exhausted => the run is cancelled (the solver stops by itself) *)
Lemma C15_exhausted_cancels_proof : forall iters runs det s0 starts sched,
  0 < iters ->
  let st := prun (pinit iters runs det s0 starts) sched in
  p_total st = iters -> p_cancelled st = true.
Proof.
  intros iters runs det s0 starts sched Hi st Ht.
  assert (0 <= iters) as Hi' by lia.
  destruct (budget_inv_prun iters runs det s0 starts sched Hi') as [_ _ _ _ Hc]. fold st in Hc.
  apply Hc; lia.
Qed.

(* holds for every [runs], including 0 (then no worker is ever spawned) *)
Lemma C15_parallelism_bound_proof : forall iters runs det s0 starts sched,
  let st := prun (pinit iters runs det s0 starts) sched in
  (active_count (p_workers st) <= p_runs st)%nat /\ p_runs st = runs.
Proof.
  intros. split; [apply struct_inv_prun|].
  unfold st. apply (prun_invariant (fun st => p_runs st = runs)); [|reflexivity].
  intros st0 a st' H E. destruct a; step_inv H; reflexivity.
Qed.

Lemma C15_zero_runs_proof : forall iters det s0 starts sched,
  p_workers (prun (pinit iters 0%nat det s0 starts) sched) = [].
Proof.
  intros. apply (prun_invariant (fun st => p_runs st = 0%nat /\ p_workers st = [])); [|split; reflexivity].
  intros st a st' H [Er Ew]. destruct a; step_inv H; bool_hyps; try (split; assumption);
    try (rewrite Ew in *; destruct r; discriminate).
  rewrite Er in *. lia.
Qed.

(* ---------- 3.4 closed is final and absorbing ---------- *)

Lemma inactive_no_worker_action : forall ws r w,
  active_count ws = 0%nat -> nth_error ws r = Some w -> is_active w = false.
Proof.
  intros ws r w H Hn. apply active_count_zero_inactive in H.
  rewrite Forall_forall in H. apply H. eapply nth_error_In. exact Hn.
Qed.

Lemma closed_step_absorbing : forall st a st',
  StructInv st -> p_closed st = true -> pstep st a = Some st' -> st' = st.
Proof.
  intros st a st' [_ Hd Hc] Hcl H.
  destruct (Hc Hcl) as [Hdd Hpe]. destruct (Hd Hdd) as [Hac Hca].
  destruct a; step_inv H; bool_hyps;
    try congruence;
    try (match goal with Hn : nth_error _ _ = Some _ |- _ =>
           pose proof (inactive_no_worker_action _ _ _ Hac Hn) as Hx; simpl in Hx; discriminate end).
  all: try (rewrite Hdd in *; simpl in *; discriminate).
  rewrite <- Hca. destruct st; reflexivity.
Qed.

Lemma closed_prun_absorbing : forall k st,
  StructInv st -> p_closed st = true -> prun st k = st.
Proof.
  induction k as [|a k IH]; intros st Hi Hc; simpl; [reflexivity|].
  destruct (pstep st a) eqn:E; [|apply IH; assumption].
  rewrite (closed_step_absorbing _ _ _ Hi Hc E). apply IH; assumption.
Qed.

Lemma C15_closed_is_absorbing_proof : forall iters runs det s0 starts sched,
  let st := prun (pinit iters runs det s0 starts) sched in
  p_closed st = true -> forall k, prun st k = st.
Proof. intros. apply closed_prun_absorbing; [apply struct_inv_prun|assumption]. Qed.

Lemma C15_closed_is_final_proof : forall iters runs det s0 starts sched,
  let st := prun (pinit iters runs det s0 starts) sched in
  p_closed st = true ->
  (p_disp_done st = true /\ p_pending st = None /\ active_count (p_workers st) = 0%nat) /\
  (forall k, let st' := prun st k in
             p_agg st' = p_agg st /\ p_total st' = p_total st /\ p_closed st' = true).
Proof.
  intros iters runs det s0 starts sched st Hc.
  pose proof (struct_inv_prun iters runs det s0 starts sched) as Hi. fold st in Hi.
  pose proof Hi as [Hp Hd Hcl]. destruct (Hcl Hc) as [Hdd Hpe]. destruct (Hd Hdd) as [Hac _].
  split; [repeat split; assumption|].
  intros k st'. unfold st'.
  rewrite (closed_prun_absorbing k st Hi Hc).
  repeat split. exact Hc.
Qed.

(* ---------- 3.5 nothing is lost: every produced score is compared ---------- *)

(* ghost trace: the scores of the AProduce actions that were enabled, in order *)
Fixpoint ptrace (st : pstate) (sched : list action) : list Z :=
  match sched with
  | [] => []
  | a :: rest =>
      match pstep st a with
      | Some st' => match a with
                    | AProduce _ x => x :: ptrace st' rest
                    | _ => ptrace st' rest
                    end
      | None => ptrace st rest
      end
  end.

(* scores in flight: queued on a worker channel, or received and not yet compared *)
Definition wq (w : wphase) : list Z := match w with WRun _ _ q => q | _ => [] end.
Definition pend_list (p : option Z) : list Z := match p with Some x => [x] | None => [] end.
Definition in_flight (st : pstate) : list Z := flat_map wq (p_workers st) ++ pend_list (p_pending st).

(* min of the aggregator's best and everything in flight *)
Definition pmin (st : pstate) : Z := fold_left Z.min (in_flight st) (a_best (p_agg st)).

Lemma le_pmin : forall st z,
  z <= pmin st <->
  z <= a_best (p_agg st) /\ Forall (Z.le z) (flat_map wq (p_workers st)) /\
  Forall (Z.le z) (pend_list (p_pending st)).
Proof. intros. unfold pmin, in_flight. rewrite le_fold_min, Forall_app. tauto. Qed.

Lemma Forall_nil_true : forall (P : Z -> Prop), Forall P [] <-> True.
Proof. intros. split; [trivial|constructor]. Qed.

Lemma pmin_step : forall st a st',
  pstep st a = Some st' ->
  pmin st' = match a with AProduce _ x => Z.min (pmin st) x | _ => pmin st end.
Proof.
  intros st a st' H. apply eq_by_le. intros z.
  destruct a; rewrite ?Z.min_glb_iff, !le_pmin;
    step_inv H; try split_w;
    try match goal with E : p_workers _ = _ |- _ => rewrite E in * end;
    rewrite ?arecv_best, ?Z.min_glb_iff;
    repeat (rewrite ?flat_map_app, ?Forall_app, ?Forall_cons_iff, ?Forall_nil_true);
    cbn [flat_map wq pend_list app];
    repeat (rewrite ?flat_map_app, ?Forall_app, ?Forall_cons_iff, ?Forall_nil_true);
    try tauto.
  bool_hyps. destruct (p_pending st); [discriminate|].
  cbn [pend_list]. rewrite Forall_nil_true. tauto.
Qed.

Lemma pmin_prun : forall sched st,
  pmin (prun st sched) = fold_left Z.min (ptrace st sched) (pmin st).
Proof.
  induction sched as [|a k IH]; intros st; simpl; [reflexivity|].
  destruct (pstep st a) eqn:E; [|apply IH].
  rewrite IH, (pmin_step _ _ _ E). destruct a; reflexivity.
Qed.

Lemma inactive_no_queue : forall ws, active_count ws = 0%nat -> flat_map wq ws = [].
Proof.
  induction ws as [|w ws IH]; intros H; [reflexivity|].
  rewrite active_count_cons in H. destruct w; simpl in H; try lia.
  simpl. apply IH. exact H.
Qed.

Lemma C06_parallel_nothing_lost_proof : forall iters runs det s0 starts sched,
  let st := prun (pinit iters runs det s0 starts) sched in
  p_closed st = true ->
  a_best (p_agg st) =
    fold_left Z.min (starts ++ ptrace (pinit iters runs det s0 starts) sched) s0.
Proof.
  intros iters runs det s0 starts sched st Hc.
  destruct (C15_closed_is_final_proof iters runs det s0 starts sched Hc) as [(_ & Hpe & Hac) _].
  fold st in Hpe, Hac.
  assert (pmin st = a_best (p_agg st)) as E.
  { unfold pmin, in_flight. rewrite Hpe, (inactive_no_queue _ Hac). reflexivity. }
  rewrite <- E. unfold st. rewrite pmin_prun, fold_left_app. f_equal.
  unfold pmin, in_flight, pinit. psimpl. simpl. apply ainit_fold.
Qed.

(* at every moment (closed or not): best so far and everything in flight
   account exactly for the starts and everything produced *)
Lemma C06_parallel_accounting_proof : forall iters runs det s0 starts sched,
  let st := prun (pinit iters runs det s0 starts) sched in
  fold_left Z.min (in_flight st) (a_best (p_agg st)) =
    fold_left Z.min (starts ++ ptrace (pinit iters runs det s0 starts) sched) s0.
Proof.
  intros. change (pmin st = fold_left Z.min (starts ++ ptrace (pinit iters runs det s0 starts) sched) s0).
  unfold st. rewrite pmin_prun, fold_left_app. f_equal.
  unfold pmin, in_flight, pinit. psimpl. simpl. apply ainit_fold.
Qed.

(* ---------- 3.6 zero budget ---------- *)

Definition never_ran (w : wphase) : Prop := w = WNew \/ w = WParked \/ w = WDone 0 0.

Record ZeroInv (st : pstate) : Prop := {
  zi_left  : p_left st <= 0;
  zi_total : p_total st = 0;
  zi_ws    : Forall never_ran (p_workers st)
}.

Lemma zero_inv_step : forall st a st',
  pstep st a = Some st' -> ZeroInv st -> ZeroInv st'.
Proof.
  intros st a st' H [Hl Ht Hw].
  destruct a; step_inv H; bool_hyps; try split_w;
    try match goal with E : p_workers _ = _ |- _ => rewrite E in * end;
    repeat (rewrite ?Forall_app, ?Forall_cons_iff in * );
    try (exfalso; lia);
    try (exfalso; unfold never_ran in *; intuition discriminate);
    constructor; psimpl;
    repeat (rewrite ?Forall_app, ?Forall_cons_iff);
    try assumption; try lia;
    try (unfold never_ran in *; intuition (try constructor; auto)).
Qed.

Lemma C15_zero_budget_proof : forall iters runs det s0 starts sched,
  iters = 0 ->
  let st := prun (pinit iters runs det s0 starts) sched in
  p_total st = 0 /\ p_left st <= 0 /\ Forall never_ran (p_workers st).
Proof.
  intros iters runs det s0 starts sched Hi st.
  assert (ZeroInv st) as [Hl Ht Hw].
  { unfold st. apply (prun_invariant ZeroInv).
    - intros s a s' H. apply zero_inv_step with (a := a). exact H.
    - constructor; simpl; [lia|reflexivity|constructor]. }
  auto.
Qed.

(* step form: with no budget left a grabbing worker parks *)
Lemma grab_without_budget_parks_proof : forall st r opt st',
  p_left st <= 0 -> pstep st (AGrab r opt) = Some st' ->
  nth_error (p_workers st') r = Some WParked /\ p_total st' = p_total st.
Proof.
  intros st r opt st' Hl H. step_inv H; bool_hyps; try (exfalso; lia).
  split_w. subst r. split; [apply nth_error_mid|reflexivity].
Qed.

(* ---------- 3.7 barrier (deterministic mode) ---------- *)

Lemma C15_barrier_guard_proof : forall st st',
  p_deterministic st = true -> pstep st ACycleEnd = Some st' ->
  active_count (p_workers st) = 0%nat.
Proof.
  intros st st' Hd H. step_inv H. bool_hyps. rewrite Hd in *. simpl in *.
  match goal with H : (_ =? _)%nat = true |- _ => apply Nat.eqb_eq in H; exact H end.
Qed.

(* every worker spawned before the current cycle has returned *)
Definition earlier_cycles_done (st : pstate) : Prop :=
  forall r w, (r + p_in_cycle st < length (p_workers st))%nat ->
              nth_error (p_workers st) r = Some w -> is_active w = false.

Lemma nth_error_replaced : forall (l1 : list wphase) w w' l2 r x,
  nth_error (l1 ++ w' :: l2) r = Some x ->
  (r = length l1 /\ x = w') \/ (nth_error (l1 ++ w :: l2) r = Some x).
Proof.
  induction l1 as [|h l1 IH]; intros w w' l2 r x H; destruct r as [|r]; simpl in *.
  - left. inversion H. auto.
  - right. exact H.
  - right. exact H.
  - destruct (IH w w' l2 r x H) as [[E1 E2]|E]; [left; auto|right; exact E].
Qed.

Lemma earlier_replace : forall (l1 : list wphase) w w' l2 ic,
  is_active w = true ->
  (forall r x, (r + ic < length (l1 ++ w :: l2))%nat ->
               nth_error (l1 ++ w :: l2) r = Some x -> is_active x = false) ->
  (forall r x, (r + ic < length (l1 ++ w' :: l2))%nat ->
               nth_error (l1 ++ w' :: l2) r = Some x -> is_active x = false).
Proof.
  intros l1 w w' l2 ic Ha Hinv r x Hr Hn.
  assert (length (l1 ++ w' :: l2) = length (l1 ++ w :: l2)) as El
    by (rewrite !app_length; reflexivity).
  rewrite El in Hr.
  destruct (nth_error_replaced _ w _ _ _ _ Hn) as [[E1 E2]|E].
  - exfalso. assert (is_active w = false) as F; [|congruence].
    apply (Hinv r w); [exact Hr|]. rewrite E1. apply nth_error_mid.
  - apply (Hinv r x); assumption.
Qed.

Lemma pstep_deterministic : forall st a st',
  pstep st a = Some st' -> p_deterministic st' = p_deterministic st.
Proof. intros st a st' H. destruct a; step_inv H; reflexivity. Qed.

Lemma barrier_inv_step : forall st a st',
  pstep st a = Some st' -> p_deterministic st = true ->
  earlier_cycles_done st -> earlier_cycles_done st'.
Proof.
  intros st a st' H Hdet Hinv. unfold earlier_cycles_done in *.
  destruct a; step_inv H; bool_hyps; try exact Hinv;
    try (split_w; rewrite Ews in *; eapply earlier_replace; [|exact Hinv]; reflexivity).
  - (* ASpawn *)
    intros r w Hr Hn. rewrite app_length in Hr. simpl in Hr.
    apply (Hinv r w); [lia|]. rewrite nth_error_app1 in Hn by lia. exact Hn.
  - (* ACycleEnd *)
    intros r w _ Hn. rewrite Hdet in *. simpl in *.
    match goal with H : (active_count _ =? 0)%nat = true |- _ => apply Nat.eqb_eq in H;
      eapply inactive_no_worker_action; [exact H|exact Hn] end.
Qed.

Lemma C15_barrier_proof : forall iters runs s0 starts sched,
  let st := prun (pinit iters runs true s0 starts) sched in
  p_deterministic st = true /\ earlier_cycles_done st.
Proof.
  intros. unfold st.
  apply (prun_invariant (fun st => p_deterministic st = true /\ earlier_cycles_done st)).
  - intros s a s' H [Hd Hi]. split.
    + rewrite (pstep_deterministic _ _ _ H). exact Hd.
    + eapply barrier_inv_step; eauto.
  - split; [reflexivity|]. intros r w Hr. simpl in Hr. lia.
Qed.

(* ---------- 3.8 no deadlock: every state can be driven to closed ---------- *)

(* all actions of the continuation are enabled when taken *)
Fixpoint all_enabled (st : pstate) (k : list action) : Prop :=
  match k with
  | [] => True
  | a :: r => match pstep st a with Some st' => all_enabled st' r | None => False end
  end.

Definition drain_w (r : nat) (w : wphase) : list action :=
  match w with
  | WNew => [AGrab r 0; AFinish r]
  | WRun _ _ q => flat_map (fun _ => [AForward r; ACompare]) q ++ [AFinish r]
  | WParked => [AFinish r]
  | WDone _ _ => []
  end.

Fixpoint drain_from (r : nat) (ws : list wphase) : list action :=
  match ws with
  | [] => []
  | w :: t => drain_w r w ++ drain_from (S r) t
  end.

(* cancel; flush the pending result; drain every worker; dispatcher exit; close *)
Definition closing (st : pstate) : list action :=
  if p_closed st then [] else
  ACancel :: (match p_pending st with Some _ => [ACompare] | None => [] end)
  ++ drain_from 0 (p_workers st)
  ++ (if p_disp_done st then [] else [ADispatcherExit]) ++ [AClose].

Section Run.
  Variable P : pstate -> Prop.

  Lemma run_nil : forall st, P st -> all_enabled st [] /\ P (prun st []).
  Proof. intros. split; [exact I|assumption]. Qed.

  Lemma run_cons : forall st a st1 k,
    pstep st a = Some st1 ->
    all_enabled st1 k /\ P (prun st1 k) ->
    all_enabled st (a :: k) /\ P (prun st (a :: k)).
  Proof. intros st a st1 k H HK. simpl. rewrite H. exact HK. Qed.

  Lemma run_app : forall k1 k2 st,
    all_enabled st k1 ->
    all_enabled (prun st k1) k2 /\ P (prun (prun st k1) k2) ->
    all_enabled st (k1 ++ k2) /\ P (prun st (k1 ++ k2)).
  Proof.
    induction k1 as [|a k1 IH]; intros k2 st H1 H2; simpl in *; [exact H2|].
    destruct (pstep st a); [apply IH; assumption|contradiction].
  Qed.
End Run.

(* ready to drain: cancelled, aggregator idle, result channel open *)
Definition ready (st : pstate) : Prop :=
  p_cancelled st = true /\ p_pending st = None /\ p_closed st = false.

Definition drained (st0 : pstate) (ws : list wphase) (st : pstate) : Prop :=
  p_workers st = ws /\ ready st /\ p_disp_done st = p_disp_done st0.

Lemma step_forward : forall st pre g d x q t,
  p_workers st = pre ++ WRun g d (x :: q) :: t -> ready st ->
  exists st1, pstep st (AForward (length pre)) = Some st1 /\
    p_workers st1 = pre ++ WRun g d q :: t /\ p_pending st1 = Some x /\
    p_cancelled st1 = true /\ p_closed st1 = false /\ p_disp_done st1 = p_disp_done st.
Proof.
  intros st pre g d x q t Hw (Hc & Hp & Hcl). unfold pstep.
  rewrite Hw, nth_error_mid, Hp, Hcl, set_w_mid. eexists. split; [reflexivity|].
  psimpl. repeat split; assumption.
Qed.

Lemma step_compare : forall st x,
  p_pending st = Some x ->
  exists st1, pstep st ACompare = Some st1 /\
    p_workers st1 = p_workers st /\ p_pending st1 = None /\
    p_cancelled st1 = p_cancelled st /\ p_closed st1 = p_closed st /\
    p_disp_done st1 = p_disp_done st.
Proof.
  intros st x Hp. unfold pstep. rewrite Hp. eexists. split; [reflexivity|].
  psimpl. repeat split.
Qed.

Lemma step_finish_run : forall st pre g d t,
  p_workers st = pre ++ WRun g d [] :: t -> ready st ->
  exists st1, pstep st (AFinish (length pre)) = Some st1 /\
    drained st (pre ++ WDone g d :: t) st1.
Proof.
  intros st pre g d t Hw (Hc & Hp & Hcl). unfold pstep, upd_w.
  rewrite Hw, nth_error_mid, set_w_mid. eexists. split; [reflexivity|].
  unfold drained, ready. psimpl. repeat split; assumption.
Qed.

Lemma step_finish_parked : forall st pre t,
  p_workers st = pre ++ WParked :: t -> ready st ->
  exists st1, pstep st (AFinish (length pre)) = Some st1 /\
    drained st (pre ++ WDone 0 0 :: t) st1.
Proof.
  intros st pre t Hw (Hc & Hp & Hcl). unfold pstep, upd_w.
  rewrite Hw, nth_error_mid, Hc, set_w_mid. eexists. split; [reflexivity|].
  unfold drained, ready. psimpl. repeat split; assumption.
Qed.

Lemma step_grab0 : forall st pre t,
  p_workers st = pre ++ WNew :: t -> ready st ->
  exists st1 w, pstep st (AGrab (length pre) 0) = Some st1 /\
    (w = WParked \/ w = WRun 0 0 []) /\ drained st (pre ++ w :: t) st1.
Proof.
  intros st pre t Hw (Hc & Hp & Hcl). unfold pstep. cbv zeta.
  rewrite Hw, nth_error_mid, set_w_mid. change (0 <? 0) with false. cbv iota.
  eexists. eexists. split; [reflexivity|].
  split; [|unfold drained, ready; psimpl; repeat split; first [assumption|reflexivity]].
  destruct (p_left st - 0 + 0 <=? 0) eqn:E2; [left; reflexivity|].
  destruct (p_left st - 0 <? 0) eqn:E; [|right; reflexivity].
  apply Z.ltb_lt in E. apply Z.leb_gt in E2. lia.
Qed.

Lemma drained_rebase : forall st0 st1 ws s,
  p_disp_done st1 = p_disp_done st0 -> drained st1 ws s -> drained st0 ws s.
Proof. intros st0 st1 ws s E (A & B & C). repeat split; try apply B; try assumption. congruence. Qed.

Lemma drain_queue_ok : forall q st pre g d t,
  p_workers st = pre ++ WRun g d q :: t -> ready st ->
  let k := flat_map (fun _ : Z => [AForward (length pre); ACompare]) q in
  all_enabled st k /\ drained st (pre ++ WRun g d [] :: t) (prun st k).
Proof.
  induction q as [|x q IH]; intros st pre g d t Hw Hr k; unfold k.
  - apply run_nil. repeat split; try apply Hr. exact Hw.
  - cbn [flat_map app].
    destruct (step_forward _ _ _ _ _ _ _ Hw Hr) as (st1 & S1 & W1 & P1 & C1 & Cl1 & D1).
    apply (run_cons (drained st (pre ++ WRun g d [] :: t))) with st1; [exact S1|].
    destruct (step_compare st1 x P1) as (st2 & S2 & W2 & P2 & C2 & Cl2 & D2).
    apply (run_cons (drained st (pre ++ WRun g d [] :: t))) with st2; [exact S2|].
    assert (ready st2) as Hr2 by (repeat split; congruence).
    assert (p_workers st2 = pre ++ WRun g d q :: t) as Hw2 by congruence.
    destruct (IH st2 pre g d t Hw2 Hr2) as [A B]. split; [exact A|].
    eapply drained_rebase; [|exact B]. congruence.
Qed.

Lemma drain_w_ok : forall w st pre t,
  p_workers st = pre ++ w :: t -> ready st ->
  exists w', is_active w' = false /\
    all_enabled st (drain_w (length pre) w) /\
    drained st (pre ++ w' :: t) (prun st (drain_w (length pre) w)).
Proof.
  intros w st pre t Hw Hr. destruct w as [|g d q| |g d]; cbn [drain_w].
  - (* WNew *)
    destruct (step_grab0 _ _ _ Hw Hr) as (st1 & w1 & S1 & Hw1 & (W1 & R1 & D1)).
    destruct Hw1 as [E|E]; subst w1.
    + destruct (step_finish_parked _ _ _ W1 R1) as (st2 & S2 & (W2 & R2 & D2)).
      exists (WDone 0 0). split; [reflexivity|].
      apply (run_cons (drained st (pre ++ WDone 0 0 :: t))) with st1; [exact S1|].
      apply (run_cons (drained st (pre ++ WDone 0 0 :: t))) with st2; [exact S2|].
      apply run_nil. repeat split; try apply R2; try assumption. congruence.
    + destruct (step_finish_run _ _ _ _ _ W1 R1) as (st2 & S2 & (W2 & R2 & D2)).
      exists (WDone 0 0). split; [reflexivity|].
      apply (run_cons (drained st (pre ++ WDone 0 0 :: t))) with st1; [exact S1|].
      apply (run_cons (drained st (pre ++ WDone 0 0 :: t))) with st2; [exact S2|].
      apply run_nil. repeat split; try apply R2; try assumption. congruence.
  - (* WRun *)
    destruct (drain_queue_ok q st pre g d t Hw Hr) as [A (W1 & R1 & D1)].
    exists (WDone g d). split; [reflexivity|].
    apply (run_app (drained st (pre ++ WDone g d :: t))); [exact A|].
    destruct (step_finish_run _ _ _ _ _ W1 R1) as (st2 & S2 & (W2 & R2 & D2)).
    apply (run_cons (drained st (pre ++ WDone g d :: t))) with st2; [exact S2|].
    apply run_nil. repeat split; try apply R2; try assumption. congruence.
  - (* WParked *)
    destruct (step_finish_parked _ _ _ Hw Hr) as (st2 & S2 & (W2 & R2 & D2)).
    exists (WDone 0 0). split; [reflexivity|].
    apply (run_cons (drained st (pre ++ WDone 0 0 :: t))) with st2; [exact S2|].
    apply run_nil. repeat split; try apply R2; assumption.
  - (* WDone *)
    exists (WDone g d). split; [reflexivity|]. apply run_nil.
    repeat split; try apply Hr. exact Hw.
Qed.

Definition all_returned (st0 st : pstate) : Prop :=
  active_count (p_workers st) = 0%nat /\ ready st /\ p_disp_done st = p_disp_done st0.

Lemma drain_from_ok : forall ws st pre,
  p_workers st = pre ++ ws -> ready st -> active_count pre = 0%nat ->
  all_enabled st (drain_from (length pre) ws) /\
  all_returned st (prun st (drain_from (length pre) ws)).
Proof.
  induction ws as [|w t IH]; intros st pre Hw Hr Hpre; cbn [drain_from].
  - apply run_nil. repeat split; try apply Hr. rewrite Hw, app_nil_r. exact Hpre.
  - destruct (drain_w_ok w st pre t Hw Hr) as (w' & Hin & A & (W1 & R1 & D1)).
    apply (run_app (all_returned st)); [exact A|].
    set (st1 := prun st (drain_w (length pre) w)) in *.
    assert (p_workers st1 = (pre ++ [w']) ++ t) as W1' by (rewrite <- app_assoc; exact W1).
    assert (active_count (pre ++ [w']) = 0%nat) as Hpre'.
    { rewrite active_count_app, active_count_cons, Hin, Hpre. reflexivity. }
    destruct (IH st1 (pre ++ [w']) W1' R1 Hpre') as [A2 (B1 & B2 & B3)].
    assert (length (pre ++ [w']) = S (length pre)) as EL by (rewrite app_length; simpl; lia).
    rewrite EL in *. split; [exact A2|]. repeat split; try apply B2; try assumption. congruence.
Qed.

Lemma step_exit : forall st,
  p_cancelled st = true -> p_disp_done st = false -> active_count (p_workers st) = 0%nat ->
  exists st1, pstep st ADispatcherExit = Some st1 /\ p_disp_done st1 = true /\
    p_pending st1 = p_pending st /\ p_closed st1 = p_closed st.
Proof.
  intros st Hc Hd Ha. unfold pstep. rewrite Hc, Hd, Ha. eexists. split; [reflexivity|].
  psimpl. repeat split.
Qed.

Lemma step_close : forall st,
  p_disp_done st = true -> p_closed st = false -> p_pending st = None ->
  exists st1, pstep st AClose = Some st1 /\ p_closed st1 = true.
Proof.
  intros st Hd Hc Hp. unfold pstep. rewrite Hd, Hc, Hp. eexists. split; reflexivity.
Qed.

Lemma closing_ok : forall st,
  all_enabled st (closing st) /\ p_closed (prun st (closing st)) = true.
Proof.
  intros st. unfold closing. destruct (p_closed st) eqn:Hcl.
  - apply (run_nil (fun s => p_closed s = true)). exact Hcl.
  - (* ACancel *)
    set (P := fun s => p_closed s = true).
    assert (exists st1, pstep st ACancel = Some st1 /\ p_workers st1 = p_workers st /\
              p_pending st1 = p_pending st /\ p_cancelled st1 = true /\
              p_closed st1 = false /\ p_disp_done st1 = p_disp_done st)
      as (st1 & S1 & W1 & P1 & C1 & Cl1 & D1).
    { eexists. split; [reflexivity|]. psimpl. repeat split. exact Hcl. }
    apply (run_cons P) with st1; [exact S1|].
    (* flush the pending result *)
    assert (exists st2, all_enabled st1 (match p_pending st with Some _ => [ACompare] | None => [] end) /\
              prun st1 (match p_pending st with Some _ => [ACompare] | None => [] end) = st2 /\
              p_workers st2 = p_workers st /\ ready st2 /\ p_disp_done st2 = p_disp_done st)
      as (st2 & A2 & E2 & W2 & R2 & D2).
    { destruct (p_pending st) as [x|] eqn:Hp.
      - destruct (step_compare st1 x P1) as (s2 & S2 & W2 & P2 & C2 & Cl2 & D2).
        exists s2. cbn [all_enabled prun]. rewrite S2. repeat split; congruence.
      - exists st1. repeat split; congruence. }
    apply (run_app P); [exact A2|]. rewrite E2.
    (* drain all workers *)
    destruct (drain_from_ok (p_workers st) st2 [] W2 R2 eq_refl) as [A3 (B1 & (C3 & P3 & Cl3) & D3)].
    cbn [length] in A3, B1, C3, P3, Cl3, D3.
    apply (run_app P); [exact A3|].
    set (st3 := prun st2 (drain_from 0 (p_workers st))) in *.
    (* dispatcher exit (if it has not returned yet), then close *)
    destruct (p_disp_done st) eqn:Hdd; cbn [app].
    + assert (p_disp_done st3 = true) as D3' by congruence.
      destruct (step_close st3 D3' Cl3 P3) as (st5 & S5 & Cl5).
      apply (run_cons P) with st5; [exact S5|]. apply run_nil. exact Cl5.
    + assert (p_disp_done st3 = false) as D3' by congruence.
      destruct (step_exit st3 C3 D3' B1) as (st4 & S4 & D4 & P4 & Cl4).
      apply (run_cons P) with st4; [exact S4|].
      assert (p_closed st4 = false) as Cl4' by congruence.
      assert (p_pending st4 = None) as P4' by congruence.
      destruct (step_close st4 D4 Cl4' P4') as (st5 & S5 & Cl5).
      apply (run_cons P) with st5; [exact S5|]. apply run_nil. exact Cl5.
Qed.

(* length of the closing continuation *)
Definition queued (st : pstate) : nat := length (flat_map wq (p_workers st)).

Lemma length_forward_compare : forall r (q : list Z),
  length (flat_map (fun _ : Z => [AForward r; ACompare]) q) = (2 * length q)%nat.
Proof. induction q as [|x q IH]; simpl; [reflexivity|]. rewrite IH. lia. Qed.

Lemma length_drain_from : forall ws r,
  (length (drain_from r ws) <= 2 * length ws + 2 * length (flat_map wq ws))%nat.
Proof.
  induction ws as [|w t IH]; intros r; cbn [drain_from flat_map]; [simpl; lia|].
  rewrite !app_length. specialize (IH (S r)).
  destruct w; cbn [drain_w wq length]; rewrite ?app_length, ?length_forward_compare;
    cbn [length]; lia.
Qed.

Lemma length_closing : forall st,
  (length (closing st) <= 4 + 2 * length (p_workers st) + 2 * queued st)%nat.
Proof.
  intros st. unfold closing, queued. destruct (p_closed st); [simpl; lia|].
  cbn [length]. rewrite !app_length. pose proof (length_drain_from (p_workers st) 0).
  destruct (p_pending st); destruct (p_disp_done st); cbn [length]; lia.
Qed.

(* holds in EVERY state, reachable or not *)
Lemma C15_can_always_close_any_state_proof : forall st,
  exists k, all_enabled st k /\ p_closed (prun st k) = true /\
            (length k <= 4 + 2 * length (p_workers st) + 2 * queued st)%nat.
Proof.
  intros st. exists (closing st). destruct (closing_ok st) as [A B].
  split; [exact A|]. split; [exact B|apply length_closing].
Qed.

Lemma C15_can_always_close_proof : forall iters runs det s0 starts sched,
  let st := prun (pinit iters runs det s0 starts) sched in
  exists k, all_enabled st k /\ p_closed (prun st k) = true /\
            (length k <= 4 + 2 * length (p_workers st) + 2 * queued st)%nat.
Proof. intros. apply C15_can_always_close_any_state_proof. Qed.

(* ---------- 3.9 non-vacuity: concrete runs ---------- *)

(* budget 5, two workers: the first asks 3 and gets 3, the second asks 3 and
   gets the remaining 2; improving (80, 70) and non-improving (85) scores;
   the fifth iteration cancels the run; workers return; dispatcher exits;
   the aggregator closes. *)
Definition demo_sched : list action :=
  [ASpawn; ASpawn; ASpawn (* third spawn: disabled, runs = 2 *);
   AGrab 0 3; AGrab 1 3;
   AIterate 0; AProduce 0 80; AForward 0; ACompare;
   AIterate 1; AProduce 1 85; AForward 1; ACompare;
   AIterate 0; AIterate 0; AIterate 0 (* disabled: 3 of 3 done *);
   AClose (* disabled: dispatcher still running *);
   AIterate 1 (* fifth iteration: budget exhausted -> cancelled *);
   ASpawn (* disabled: cancelled *);
   AProduce 1 70; AForward 1; ACompare;
   AFinish 0; AFinish 1; ADispatcherExit; AClose].

Definition demo_init : pstate := pinit 5 2 false 100 [90; 95].
Definition demo_final : pstate := prun demo_init demo_sched.

Example demo_workers : p_workers demo_final = [WDone 3 3; WDone 2 2].
Proof. vm_compute. reflexivity. Qed.

Example demo_split_3_2 :
  p_workers (prun demo_init [ASpawn; ASpawn; AGrab 0 3; AGrab 1 3]) = [WRun 3 0 []; WRun 2 0 []]
  /\ p_left (prun demo_init [ASpawn; ASpawn; AGrab 0 3; AGrab 1 3]) = -1.
Proof. vm_compute. split; reflexivity. Qed.

Example demo_output : rev (a_out (p_agg demo_final)) = [90; 80; 70].
Proof. vm_compute. reflexivity. Qed.

Example demo_trace : ptrace demo_init demo_sched = [80; 85; 70].
Proof. vm_compute. reflexivity. Qed.

Example demo_counters :
  p_total demo_final = 5 /\ p_cancelled demo_final = true /\ p_closed demo_final = true /\
  a_best (p_agg demo_final) = 70.
Proof. vm_compute. repeat split; reflexivity. Qed.

(* a third worker in a later cycle finds no budget and parks *)
Example demo_park :
  p_workers (prun demo_init
     [ASpawn; ASpawn; AGrab 0 3; AGrab 1 3; AFinish 0; ACycleEnd; ASpawn; AGrab 2 4])
  = [WDone 3 0; WRun 2 0 []; WParked].
Proof. vm_compute. reflexivity. Qed.

(* explicit cancellation in the middle, then the generic closing continuation *)
Definition demo_mid : pstate :=
  prun demo_init [ASpawn; ASpawn; AGrab 0 3; AIterate 0; AProduce 0 80; AProduce 0 60;
                  AForward 0 (* 80 pending, 60 queued, worker 1 still WNew *)].

Example demo_mid_closing :
  closing demo_mid =
    [ACancel; ACompare; AForward 0; ACompare; AFinish 0; AGrab 1 0; AFinish 1;
     ADispatcherExit; AClose].
Proof. vm_compute. reflexivity. Qed.

Example demo_mid_closed :
  let st := prun demo_mid (closing demo_mid) in
  p_closed st = true /\ rev (a_out (p_agg st)) = [90; 80; 60] /\ p_total st = 1 /\
  p_workers st = [WDone 3 1; WDone 0 0].
Proof. vm_compute. repeat split; reflexivity. Qed.

(* deterministic mode: the cycle cannot end while a worker is active *)
Example demo_barrier :
  pstep (prun (pinit 5 2 true 100 []) [ASpawn; ASpawn; AGrab 0 3; AFinish 0]) ACycleEnd = None /\
  pstep (prun (pinit 5 2 false 100 []) [ASpawn; ASpawn; AGrab 0 3; AFinish 0]) ACycleEnd <> None.
Proof. vm_compute. split; [reflexivity|discriminate]. Qed.

(* single solver and aggregator runs *)
Example demo_single :
  rev (s_sent (srun 10 [mkExec [] 12 true; mkExec [] 8 true; mkExec [] 7 false; mkExec [] 6 true]))
  = [10; 8; 6].
Proof. vm_compute. reflexivity. Qed.

Example demo_aggregator : rev (a_out (arun 100 [90; 95] [80; 85; 70])) = [90; 80; 70].
Proof. vm_compute. reflexivity. Qed.
