(* Specification-level lemmas for the route engine model (Model/Engine.v).

   Proofs/Engine_inv.v proves the engine invariants (InvT on every reachable
   state) treating next_cell / stop_violation / score_terms as opaque.  This
   file opens those definitions and says what the cached values and the exact
   checks mean in terms of the INPUT:

     A1  next_cell_fields        one step of the forward pass
     A2  to_earliest_start_spec  window lookup (common/rangecheck.go)
     A3  from_scratch_*          cached values are prefix sums over the route
     A4  stop_violation_*        what "no violation" means per constraint

   and proves the lemmas behind Props/C01 C02 C03 C04 C05 C07 C08 (named
   C0x_..._proof).  Everything is closed under the global context. *)

From Coq Require Import List ZArith Bool Arith Lia Permutation Sorted.
From NR Require Import Model.Engine Proofs.Engine_lists Proofs.Engine_inv.
Import ListNotations.
Open Scope Z_scope.

(* ================================================================== *)
(* Reachable states                                                    *)
(* ================================================================== *)

(* a state met while executing a fresh history (every operation well formed
   for the state it is executed on) from the start solution *)
Definition reachable (inp : input) (s : state) : Prop :=
  exists s0 h, new_solution inp = Some s0 /\ fresh inp s0 h /\ In s (run inp s0 h).

Lemma reachable_invT (inp : input) (s : state) :
  wf_input inp -> reachable inp s -> InvT inp s.
Proof.
  intros Hwf (s0 & h & Hns & Hfr & Hin).
  pose proof (run_invT inp s0 h Hwf Hns Hfr) as Hall.
  rewrite Forall_forall in Hall. exact (Hall s Hin).
Qed.

Lemma reachable_start (inp : input) (s0 : state) :
  new_solution inp = Some s0 -> reachable inp s0.
Proof. intros H. exists s0, []. split; [exact H|]. split; [exact I|]. left; reflexivity. Qed.

(* ================================================================== *)
(* A1. One step of the forward pass                                    *)
(* ================================================================== *)

Lemma nthZ_map_seqn (f : nat -> Z) (n r : nat) :
  (r < n)%nat -> nthZ (map f (seqn n)) r = f r.
Proof.
  intros Hr. unfold nthZ.
  rewrite (nth_indep _ 0 (f 0%nat)) by (rewrite map_length, length_seqn; exact Hr).
  rewrite map_nth. rewrite nth_seqn by exact Hr. reflexivity.
Qed.

Section NextCell.
  Variables (inp : input) (v : nat) (p : cell) (s : nat).
  Let c := next_cell inp v p s.

  Lemma nc_stop : c_stop c = s. Proof. reflexivity. Qed.
  Lemma nc_travel : c_travel c = travel_duration inp (c_stop p) s. Proof. reflexivity. Qed.
  Lemma nc_arrival : c_arrival c = c_end p + c_travel c. Proof. reflexivity. Qed.
  Lemma nc_start :
    c_start c = Z.max (c_arrival c) (to_earliest_start (stop_windows inp s) (c_arrival c)).
  Proof. reflexivity. Qed.
  Lemma nc_end : c_end c = c_start c + stop_duration_on inp v (c_stop p) s. Proof. reflexivity. Qed.
  Lemma nc_cumtravel : c_cumtravel c = c_cumtravel p + c_travel c. Proof. reflexivity. Qed.
  Lemma nc_cumdist : c_cumdist c = c_cumdist p + distance_value inp v (c_stop p) s.
  Proof. reflexivity. Qed.
  Lemma nc_pos : c_pos c = S (c_pos p). Proof. reflexivity. Qed.
  Lemma nc_levels (r : nat) :
    (r < in_nres inp)%nat -> nthZ (c_levels c) r = nthZ (c_levels p) r + resource_value inp v r s.
  Proof.
    intros Hr. subst c. unfold next_cell, temporal_values. cbn [c_levels].
    exact (nthZ_map_seqn (fun r => nthZ (c_levels p) r + resource_value inp v r s) _ r Hr).
  Qed.
  Lemma nc_wait :
    c_wait_acc c = c_wait_acc p + (if is_last_stop inp s then 0 else c_start c - c_arrival c).
  Proof. reflexivity. Qed.

  (* A1 *)
  Theorem next_cell_fields :
    c_stop c = s /\
    c_travel c = travel_duration inp (c_stop p) s /\
    c_arrival c = c_end p + c_travel c /\
    c_start c = Z.max (c_arrival c) (to_earliest_start (stop_windows inp s) (c_arrival c)) /\
    c_end c = c_start c + stop_duration_on inp v (c_stop p) s /\
    c_cumtravel c = c_cumtravel p + c_travel c /\
    c_cumdist c = c_cumdist p + distance_value inp v (c_stop p) s /\
    c_pos c = S (c_pos p) /\
    (forall r, (r < in_nres inp)%nat ->
       nthZ (c_levels c) r = nthZ (c_levels p) r + resource_value inp v r s) /\
    c_wait_acc c = c_wait_acc p + (if is_last_stop inp s then 0 else c_start c - c_arrival c).
  Proof.
    repeat split; try reflexivity. exact nc_levels.
  Qed.
End NextCell.

(* ================================================================== *)
(* Routes of a reachable state                                         *)
(* ================================================================== *)

(* consecutive cells of a recomputed route are linked by next_cell *)
Lemma cells_from_consecutive (inp : input) (v : nat) :
  forall (rest : list nat) (p0 : cell) (pre post : list cell) (p c : cell),
    p0 :: cells_from inp v p0 rest = pre ++ p :: c :: post ->
    c = next_cell inp v p (c_stop c).
Proof.
  induction rest as [|x rest IH]; intros p0 pre post p c H; cbn [cells_from] in H.
  - destruct pre as [|a [|b pre]]; discriminate.
  - destruct pre as [|a pre].
    + cbn [app] in H. injection H as -> Hc _. subst c. rewrite c_stop_next_cell. reflexivity.
    + cbn [app] in H. injection H as _ H. exact (IH _ _ _ _ _ H).
Qed.

Lemma from_scratch_consecutive (inp : input) (v : nat) (stops : list nat)
      (pre post : list cell) (p c : cell) :
  from_scratch inp v stops = pre ++ p :: c :: post -> c = next_cell inp v p (c_stop c).
Proof.
  destruct stops as [|x rest]; cbn [from_scratch].
  - destruct pre; discriminate.
  - apply cells_from_consecutive.
Qed.

Lemma route_is_from_scratch (inp : input) (s : state) (v : nat) :
  InvT inp s -> (v < nveh inp)%nat ->
  get_route s v = from_scratch inp v (route_stops (get_route s v)).
Proof. intros (((_ & Hc) & _) & _) Hv. exact (proj2 (Hc v Hv)). Qed.

Lemma route_has_shape (inp : input) (s : state) (v : nat) :
  InvT inp s -> (v < nveh inp)%nat -> route_shape inp v (route_stops (get_route s v)).
Proof. intros (((_ & Hc) & _) & _) Hv. exact (proj1 (Hc v Hv)). Qed.

Lemma route_first_cell (inp : input) (s : state) (v : nat) :
  InvT inp s -> (v < nveh inp)%nat ->
  exists cs, get_route s v = first_cell inp v :: cs /\ cs <> [].
Proof.
  intros HI Hv. pose proof (route_is_from_scratch inp s v HI Hv) as Hfs.
  destruct (route_has_shape inp s v HI Hv) as (mid & Hst & _).
  rewrite Hst in Hfs. cbn [from_scratch] in Hfs. eexists. split; [exact Hfs|].
  destruct mid; discriminate.
Qed.

(* every non-first cell of a route is the successor of the cell before it *)
Lemma route_consecutive (inp : input) (s : state) (v : nat) (pre post : list cell) (p c : cell) :
  InvT inp s -> (v < nveh inp)%nat -> get_route s v = pre ++ p :: c :: post ->
  c = next_cell inp v p (c_stop c).
Proof.
  intros HI Hv H. rewrite (route_is_from_scratch inp s v HI Hv) in H.
  exact (from_scratch_consecutive inp v _ pre post p c H).
Qed.

(* a non-first cell has a predecessor *)
Lemma In_tl_split {A} (l : list A) (c : A) :
  In c (tl l) -> exists pre p post, l = pre ++ p :: c :: post.
Proof.
  destruct l as [|a l]; cbn [tl]; [intros []|]. revert a.
  induction l as [|b l IH]; intros a; [intros []|].
  intros [->|Hin].
  - exists [], a, l. reflexivity.
  - destruct (IH b Hin) as (pre & p & post & E). exists (a :: pre), p, post. rewrite E. reflexivity.
Qed.

Lemma route_cell_ok (inp : input) (s : state) (v : nat) (c : cell) :
  InvT inp s -> (v < nveh inp)%nat -> In c (tl (get_route s v)) ->
  stop_violation inp v true c = None.
Proof.
  intros ((_ & Hf & _) & _) Hv Hin. specialize (Hf v Hv). rewrite Forall_forall in Hf.
  exact (Hf c Hin).
Qed.

(* ================================================================== *)
(* C04 (part 1)                                                        *)
(* ================================================================== *)

Theorem C04_caches_are_from_scratch_proof : forall inp s v,
  wf_input inp -> reachable inp s -> (v < nveh inp)%nat ->
  get_route s v = from_scratch inp v (route_stops (get_route s v)).
Proof.
  intros inp s v Hwf Hr Hv. exact (route_is_from_scratch inp s v (reachable_invT inp s Hwf Hr) Hv).
Qed.

Theorem C04_history_independent_proof : forall inp s1 s2,
  wf_input inp -> reachable inp s1 -> reachable inp s2 ->
  map route_stops (st_routes s1) = map route_stops (st_routes s2) ->
  st_routes s1 = st_routes s2.
Proof.
  intros inp s1 s2 Hwf H1 H2.
  exact (caches_history_independent inp s1 s2 (proj1 (reachable_invT inp s1 Hwf H1))
           (proj1 (reachable_invT inp s2 Hwf H2))).
Qed.

Theorem C04_forward_walk_proof : forall inp s v,
  wf_input inp -> reachable inp s -> (v < nveh inp)%nat ->
  hd_error (get_route s v) = Some (first_cell inp v) /\
  forall pre p c post, get_route s v = pre ++ p :: c :: post ->
    c_travel c = travel_duration inp (c_stop p) (c_stop c) /\
    c_arrival c = c_end p + c_travel c /\
    c_start c = Z.max (c_arrival c)
                      (to_earliest_start (stop_windows inp (c_stop c)) (c_arrival c)) /\
    c_end c = c_start c + stop_duration_on inp v (c_stop p) (c_stop c) /\
    c_cumtravel c = c_cumtravel p + c_travel c /\
    c_cumdist c = c_cumdist p + distance_value inp v (c_stop p) (c_stop c) /\
    c_pos c = S (c_pos p) /\
    (forall r, (r < in_nres inp)%nat ->
       nthZ (c_levels c) r = nthZ (c_levels p) r + resource_value inp v r (c_stop c)) /\
    c_wait_acc c = c_wait_acc p +
                   (if is_last_stop inp (c_stop c) then 0 else c_start c - c_arrival c).
Proof.
  intros inp s v Hwf Hr Hv. pose proof (reachable_invT inp s Hwf Hr) as HI. split.
  - destruct (route_first_cell inp s v HI Hv) as (cs & E & _). rewrite E. reflexivity.
  - intros pre p c post E.
    pose proof (route_consecutive inp s v pre post p c HI Hv E) as Hc.
    destruct (next_cell_fields inp v p (c_stop c)) as (_ & F).
    rewrite <- Hc in F. exact F.
Qed.

(* ================================================================== *)
(* C07                                                                 *)
(* ================================================================== *)

Theorem C07_exec_move_all_or_nothing_proof : forall inp s mv s' r,
  wf_input inp -> reachable inp s -> move_ok inp s mv -> exec_move inp s mv = (s', r) ->
  (r <> Done -> same_obs s' s) /\
  (r = Done ->
     route_stops (get_route s' (mv_vehicle mv))
     = insert_places 0 (route_stops (get_route s (mv_vehicle mv))) (mv_places mv) /\
     forall v, v <> mv_vehicle mv -> get_route s' v = get_route s v).
Proof.
  intros inp s mv s' r Hwf Hr.
  exact (exec_move_all_or_nothing inp s s' mv r Hwf (proj1 (reachable_invT inp s Hwf Hr))).
Qed.

Theorem C07_unplan_all_or_nothing_proof : forall inp s u s' r,
  wf_input inp -> reachable inp s -> (u < nunits inp)%nat -> unplan_unit inp s u = (s', r) ->
  (r <> Done -> same_obs s' s) /\
  (r = Done ->
     exists v, (v < nveh inp)%nat /\ vehicle_of_unit inp s u = Some v /\
       (forall x, In x (iu_stops (get_unit inp u)) -> In x (route_stops (get_route s v))) /\
       route_stops (get_route s' v)
       = filter (fun x => negb (mem_nat x (iu_stops (get_unit inp u))))
                (route_stops (get_route s v)) /\
       (forall v', v' <> v -> get_route s' v' = get_route s v') /\
       (forall x, In x (iu_stops (get_unit inp u)) -> stop_on_route s' x = false)).
Proof.
  intros inp s u s' r Hwf Hr.
  exact (unplan_unit_all_or_nothingT inp s s' u r Hwf (reachable_invT inp s Hwf Hr)).
Qed.

Theorem C07_never_undo_failed_proof : forall inp s,
  wf_input inp -> reachable inp s ->
  (forall mv s' r, move_ok inp s mv -> exec_move inp s mv = (s', r) -> r <> UndoFailed) /\
  (forall u s' r, (u < nunits inp)%nat -> unplan_unit inp s u = (s', r) -> r <> UndoFailed).
Proof.
  intros inp s Hwf Hr. pose proof (reachable_invT inp s Hwf Hr) as HI. split.
  - intros mv s' r Hmv Hex. exact (proj1 (exec_move_inv inp s s' mv r Hwf (proj1 HI) Hmv Hex)).
  - intros u s' r Hu Hex. exact (proj1 (unplan_unit_invT inp s s' u r Hwf HI Hu Hex)).
Qed.

(* the unit is planned / unplanned in the bookkeeping after a Done *)
Lemma planned_of_on_routes (inp : input) (s : state) (u : nat) :
  wf_input inp -> InvT inp s -> (u < nunits inp)%nat ->
  (forall x, In x (iu_stops (get_unit inp u)) -> stop_on_route s x = true) ->
  In u (st_planned s) /\ ~ In u (st_unplanned s).
Proof.
  intros Hwf ((_ & _ & _ & (_ & _ & _ & _ & Hper & _)) & _) Hu Hall.
  destruct (Hper u Hu) as (A & B & _).
  assert (Hp : unit_planned inp s u = true).
  { apply unit_planned_iff. split; [exact (unit_stops_nonempty inp u Hwf Hu)|exact Hall]. }
  split; [apply A; exact Hp|]. intros H. apply B in H. congruence.
Qed.

Lemma unplanned_of_off_routes (inp : input) (s : state) (u : nat) :
  wf_input inp -> InvT inp s -> (u < nunits inp)%nat ->
  (forall x, In x (iu_stops (get_unit inp u)) -> stop_on_route s x = false) ->
  In u (st_unplanned s) /\ ~ In u (st_planned s).
Proof.
  intros Hwf ((_ & _ & _ & (_ & _ & _ & _ & Hper & _)) & _) Hu Hall.
  destruct (Hper u Hu) as (A & B & _).
  assert (Hp : unit_planned inp s u = false).
  { destruct (unit_planned inp s u) eqn:E; [exfalso|reflexivity].
    apply unit_planned_iff in E. destruct E as (Hne & H).
    destruct (nonempty_has_elem _ Hne) as (x0 & Hx0).
    specialize (H x0 Hx0). rewrite (Hall x0 Hx0) in H. discriminate. }
  split; [apply B; exact Hp|]. intros H. apply A in H. congruence.
Qed.

Theorem C07_success_is_complete_proof : forall inp s,
  wf_input inp -> reachable inp s ->
  (forall mv s', move_ok inp s mv -> exec_move inp s mv = (s', Done) ->
     route_stops (get_route s' (mv_vehicle mv))
     = insert_places 0 (route_stops (get_route s (mv_vehicle mv))) (mv_places mv) /\
     (forall x, In x (iu_stops (get_unit inp (mv_unit mv))) ->
                In x (route_stops (get_route s' (mv_vehicle mv)))) /\
     (forall v, v <> mv_vehicle mv -> get_route s' v = get_route s v) /\
     In (mv_unit mv) (st_planned s') /\ ~ In (mv_unit mv) (st_unplanned s')) /\
  (forall u s', (u < nunits inp)%nat -> unplan_unit inp s u = (s', Done) ->
     exists v, (v < nveh inp)%nat /\
       route_stops (get_route s' v)
       = filter (fun x => negb (mem_nat x (iu_stops (get_unit inp u))))
                (route_stops (get_route s v)) /\
       (forall v', v' <> v -> get_route s' v' = get_route s v') /\
       (forall x, In x (iu_stops (get_unit inp u)) -> stop_on_route s' x = false) /\
       In u (st_unplanned s') /\ ~ In u (st_planned s')).
Proof.
  intros inp s Hwf Hr. pose proof (reachable_invT inp s Hwf Hr) as HI. split.
  - intros mv s' Hmv Hex.
    destruct (exec_move_all_or_nothing inp s s' mv Done Hwf (proj1 HI) Hmv Hex) as (_ & HD).
    destruct (HD eq_refl) as (Hst & Hoth).
    pose proof (exec_move_invT inp s s' mv Done Hwf HI Hmv Hex) as HI'.
    pose proof Hmv as (Hu & Hv & Hperm & _).
    assert (Hall : forall x, In x (iu_stops (get_unit inp (mv_unit mv))) ->
                             In x (route_stops (get_route s' (mv_vehicle mv)))).
    { intros x Hx. rewrite Hst.
      apply (Permutation_in _ (Permutation_sym (insert_places_perm _ 0%nat (mv_places mv)))).
      apply in_or_app. right. apply (Permutation_in _ (Permutation_sym Hperm)). exact Hx. }
    split; [exact Hst|]. split; [exact Hall|]. split; [exact Hoth|].
    apply (planned_of_on_routes inp s' _ Hwf HI' Hu). intros x Hx.
    apply stop_on_route_iff. exists (mv_vehicle mv). split; [|exact (Hall x Hx)].
    destruct HI' as (((Hlen & _) & _) & _). rewrite Hlen. exact Hv.
  - intros u s' Hu Hex.
    destruct (unplan_unit_all_or_nothingT inp s s' u Done Hwf HI Hu Hex) as (_ & HD).
    destruct (HD eq_refl) as (v & Hv & _ & _ & Hst & Hoth & Hoff).
    pose proof (proj2 (unplan_unit_invT inp s s' u Done Hwf HI Hu Hex)) as HI'.
    exists v. split; [exact Hv|]. split; [exact Hst|]. split; [exact Hoth|]. split; [exact Hoff|].
    exact (unplanned_of_off_routes inp s' u Hwf HI' Hu Hoff).
Qed.

(* ================================================================== *)
(* C08                                                                 *)
(* ================================================================== *)

Theorem C08_partition_proof : forall inp s,
  wf_input inp -> reachable inp s ->
  (forall u, (u < nunits inp)%nat ->
     (In u (st_planned s) /\ ~ In u (st_unplanned s)) \/
     (~ In u (st_planned s) /\ In u (st_unplanned s))) /\
  st_fixed s = [] /\ NoDup (st_planned s) /\ NoDup (st_unplanned s) /\
  (forall u, In u (st_planned s) \/ In u (st_unplanned s) -> (u < nunits inp)%nat).
Proof.
  intros inp s Hwf Hr.
  destruct (reachable_invT inp s Hwf Hr) as ((_ & _ & _ & (_ & Hnp & Hnu & Hfx & Hper & Hb)) & _).
  split; [|auto].
  intros u Hu. destruct (Hper u Hu) as (A & B & _).
  destruct (unit_planned inp s u) eqn:E.
  - left. split; [apply A; reflexivity|]. intros H. apply B in H. discriminate.
  - right. split; [|apply B; reflexivity]. intros H. apply A in H. discriminate.
Qed.

Theorem C08_planned_iff_on_routes_proof : forall inp s u,
  wf_input inp -> reachable inp s -> (u < nunits inp)%nat ->
  (In u (st_planned s) <->
     forall x, In x (iu_stops (get_unit inp u)) -> stop_on_route s x = true) /\
  (In u (st_unplanned s) <->
     forall x, In x (iu_stops (get_unit inp u)) -> stop_on_route s x = false).
Proof.
  intros inp s u Hwf Hr Hu. pose proof (reachable_invT inp s Hwf Hr) as HI.
  pose proof HI as ((_ & _ & _ & (_ & _ & _ & _ & Hper & _)) & _).
  destruct (Hper u Hu) as (A & B & C). split; split.
  - intros H. apply A in H. apply unit_planned_iff in H. exact (proj2 H).
  - intros H. exact (proj1 (planned_of_on_routes inp s u Hwf HI Hu H)).
  - intros H. apply B in H. destruct C as [C|C]; [congruence|exact C].
  - intros H. exact (proj1 (unplanned_of_off_routes inp s u Hwf HI Hu H)).
Qed.

Theorem C08_unplanned_disjoint_from_routes_proof : forall inp s u x v,
  wf_input inp -> reachable inp s ->
  In u (st_unplanned s) -> In x (iu_stops (get_unit inp u)) -> (v < nveh inp)%nat ->
  ~ In x (route_stops (get_route s v)).
Proof.
  intros inp s u x v Hwf Hr Hun Hx Hv Hin.
  pose proof (reachable_invT inp s Hwf Hr) as HI.
  pose proof HI as (((Hlen & _) & _ & _ & (_ & _ & _ & _ & _ & Hb)) & _).
  assert (Hu : (u < nunits inp)%nat) by (apply Hb; right; exact Hun).
  destruct (C08_planned_iff_on_routes_proof inp s u Hwf Hr Hu) as (_ & Hiff).
  pose proof (proj1 Hiff Hun x Hx) as Hoff.
  assert (Hon : stop_on_route s x = true).
  { apply stop_on_route_iff. exists v. rewrite Hlen. split; assumption. }
  congruence.
Qed.

(* ================================================================== *)
(* C03                                                                 *)
(* ================================================================== *)

Theorem C03_exactly_once_proof : forall inp s,
  wf_input inp -> reachable inp s ->
  NoDup (interior_stops s) /\
  (forall x, In x (interior_stops s) -> (x < nstops inp)%nat) /\
  (forall v, (v < nveh inp)%nat ->
     exists mid, route_stops (get_route s v) = first_stop inp v :: mid ++ [last_stop inp v] /\
                 Forall (fun x => (x < nstops inp)%nat) mid).
Proof.
  intros inp s Hwf Hr. pose proof (reachable_invT inp s Hwf Hr) as HI.
  pose proof HI as ((Hc & _ & _ & (Hni & _)) & _).
  split; [exact Hni|]. split.
  - intros x Hx. apply (In_interior_stops inp s x Hc) in Hx. exact (proj1 Hx).
  - intros v Hv. exact (route_has_shape inp s v HI Hv).
Qed.

Theorem C03_unit_whole_and_together_proof : forall inp s u,
  wf_input inp -> reachable inp s -> (u < nunits inp)%nat ->
  (exists v, (v < nveh inp)%nat /\
     (forall x, In x (iu_stops (get_unit inp u)) -> In x (route_stops (get_route s v))) /\
     (forall v' x, (v' < nveh inp)%nat -> In x (iu_stops (get_unit inp u)) ->
                   In x (route_stops (get_route s v')) -> v' = v)) \/
  (forall v x, (v < nveh inp)%nat -> In x (iu_stops (get_unit inp u)) ->
               ~ In x (route_stops (get_route s v))).
Proof.
  intros inp s u Hwf Hr Hu. pose proof (reachable_invT inp s Hwf Hr) as HI.
  pose proof HI as ((Hc & _ & _ & (Hni & _ & _ & _ & Hper & _)) & Htog).
  pose proof Hc as (Hlen & _).
  destruct (Hper u Hu) as (_ & _ & [C|C]).
  - left. apply unit_planned_iff in C. destruct C as (Hne & Hall).
    destruct (nonempty_has_elem _ Hne) as (x0 & Hx0).
    pose proof (Hall x0 Hx0) as Hon. apply stop_on_route_iff in Hon.
    destruct Hon as (v & Hv & Hin). rewrite Hlen in Hv.
    assert (Hallv : forall x, In x (iu_stops (get_unit inp u)) -> In x (route_stops (get_route s v))).
    { intros x Hx. exact (Htog u Hu v x0 x Hv Hx0 Hx Hin). }
    exists v. split; [exact Hv|]. split; [exact Hallv|].
    intros v' x Hv' Hx Hin'.
    exact (interior_unique inp s x v' v Hc Hni Hv' Hv (unit_stops_lt inp u x Hwf Hu Hx) Hin' (Hallv x Hx)).
  - right. intros v x Hv Hx Hin. specialize (C x Hx).
    assert (Hon : stop_on_route s x = true).
    { apply stop_on_route_iff. exists v. rewrite Hlen. split; assumption. }
    congruence.
Qed.

(* ================================================================== *)
(* A3. Cached values are prefix sums over the route                    *)
(* ================================================================== *)

(* sum of f over the consecutive pairs of a :: l *)
Fixpoint path_sum (f : nat -> nat -> Z) (a : nat) (l : list nat) : Z :=
  match l with [] => 0 | b :: r => f a b + path_sum f b r end.

(* what the stops of l take out of resource r (JSON sign: negative = pick up);
   only input stops carry quantities *)
Definition quantity_sum (inp : input) (r : nat) (l : list nat) : Z :=
  sumZ (map (fun x => nthZ (is_quantity (get_stop inp x)) r) (filter (is_input_stop inp) l)).

(* waiting time of a cell as accumulated by maximumWaitVehicle: the vehicle's
   last stop does not count *)
Definition cell_wait (inp : input) (c : cell) : Z :=
  if is_last_stop inp (c_stop c) then 0 else c_start c - c_arrival c.

Lemma quantity_sum_cons (inp : input) (r x : nat) (l : list nat) :
  quantity_sum inp r (x :: l) = - resource_value inp 0%nat r x + quantity_sum inp r l.
Proof.
  unfold quantity_sum, resource_value, sumZ. cbn [filter].
  destruct (is_input_stop inp x); cbn [map fold_right]; lia.
Qed.

Lemma resource_value_indep (inp : input) (v v' r x : nat) :
  resource_value inp v r x = resource_value inp v' r x.
Proof. reflexivity. Qed.

(* the last cell of a recomputed tail *)
Lemma last_cells_from (inp : input) (v : nat) :
  forall (l : list nat) (p : cell),
    let c := last (cells_from inp v p l) p in
    c_stop c = last l (c_stop p) /\
    c_pos c = (c_pos p + length l)%nat /\
    c_cumtravel c = c_cumtravel p + path_sum (travel_duration inp) (c_stop p) l /\
    c_cumdist c = c_cumdist p + path_sum (distance_value inp v) (c_stop p) l /\
    (forall r, (r < in_nres inp)%nat ->
       nthZ (c_levels c) r = nthZ (c_levels p) r - quantity_sum inp r l) /\
    c_wait_acc c = c_wait_acc p + sumZ (map (cell_wait inp) (cells_from inp v p l)).
Proof.
  induction l as [|x l IH]; intros p; cbn zeta.
  - cbn [cells_from last length path_sum map sumZ fold_right].
    repeat split; try lia. intros r _. unfold quantity_sum. cbn. lia.
  - cbn [cells_from]. rewrite last_cons_default.
    specialize (IH (next_cell inp v p x)). cbn zeta in IH.
    destruct IH as (I1 & I2 & I3 & I4 & I5 & I6).
    set (c := last (cells_from inp v (next_cell inp v p x) l) (next_cell inp v p x)) in *.
    rewrite nc_stop in I1, I3, I4.
    split; [|split; [|split; [|split; [|split]]]].
    + rewrite I1. symmetry. apply last_cons_default.
    + rewrite I2, nc_pos. cbn [length]. lia.
    + rewrite I3, nc_cumtravel, nc_travel. cbn [path_sum]. lia.
    + rewrite I4, nc_cumdist. cbn [path_sum]. lia.
    + intros r Hr. rewrite (I5 r Hr), (nc_levels inp v p x r Hr), quantity_sum_cons.
      rewrite (resource_value_indep inp v 0%nat). lia.
    + rewrite I6, nc_wait. cbn [map sumZ fold_right]. unfold cell_wait at 2.
      rewrite nc_stop. fold (sumZ (map (cell_wait inp) (cells_from inp v (next_cell inp v p x) l))).
      lia.
Qed.

Lemma nth_last_firstn {A} (l : list A) (k : nat) (d : A) :
  (k < length l)%nat -> nth k l d = last (firstn (S k) l) d.
Proof.
  revert k. induction l as [|a l IH]; intros k Hk; [cbn in Hk; lia|].
  destruct k as [|k].
  - reflexivity.
  - cbn [nth]. change (firstn (S (S k)) (a :: l)) with (a :: firstn (S k) l).
    rewrite last_cons_default. cbn [length] in Hk. rewrite (IH k) by lia.
    destruct l as [|b l]; [cbn in Hk; lia|]. cbn [firstn].
    rewrite !last_cons_default. reflexivity.
Qed.

Lemma first_cell_levels (inp : input) (v r : nat) :
  (r < in_nres inp)%nat -> nthZ (c_levels (first_cell inp v)) r = start_level inp v r.
Proof. intros Hr. unfold first_cell. cbn [c_levels]. exact (nthZ_map_seqn _ _ r Hr). Qed.

(* A3: the k-th cell of a route recomputed from its stop sequence f :: rest *)
Theorem from_scratch_nth (inp : input) (v f : nat) (rest : list nat) (k : nat) (d : cell) :
  (k <= length rest)%nat ->
  let c := nth k (from_scratch inp v (f :: rest)) d in
  c_stop c = nth k (first_stop inp v :: rest) 0%nat /\
  c_pos c = k /\
  c_cumtravel c = path_sum (travel_duration inp) (first_stop inp v) (firstn k rest) /\
  c_cumdist c = distance_value inp v (first_stop inp v) (first_stop inp v)
                + path_sum (distance_value inp v) (first_stop inp v) (firstn k rest) /\
  (forall r, (r < in_nres inp)%nat ->
     nthZ (c_levels c) r = start_level inp v r - quantity_sum inp r (firstn k rest)) /\
  c_wait_acc c = sumZ (map (cell_wait inp) (firstn k (tl (from_scratch inp v (f :: rest))))).
Proof.
  intros Hk. cbn zeta.
  assert (Hlen : length (from_scratch inp v (f :: rest)) = S (length rest)).
  { cbn [from_scratch length]. f_equal. rewrite <- length_route_stops, route_stops_cells_from.
    reflexivity. }
  rewrite (nth_last_firstn _ k d) by (rewrite Hlen; lia).
  rewrite from_scratch_firstn. cbn [firstn from_scratch tl]. rewrite last_cons_default.
  rewrite cells_from_firstn.
  pose proof (last_cells_from inp v (firstn k rest) (first_cell inp v)) as H. cbn zeta in H.
  destruct H as (H1 & H2 & H3 & H4 & H5 & H6).
  set (c := last (cells_from inp v (first_cell inp v) (firstn k rest)) (first_cell inp v)) in *.
  rewrite c_stop_first_cell in H1, H3, H4.
  split; [|split; [|split; [|split; [|split]]]].
  - rewrite H1. clear -Hk. revert rest Hk. generalize (first_stop inp v).
    induction k as [|k IH]; intros a rest Hk; [reflexivity|].
    destruct rest as [|b rest]; [cbn in Hk; lia|].
    cbn [firstn nth]. rewrite last_cons_default.
    change (nth k (b :: rest) 0%nat) with (nth k (b :: rest) 0%nat).
    apply (IH b rest). cbn [length] in Hk. lia.
  - rewrite H2. unfold first_cell at 1. cbn [c_pos]. rewrite firstn_length. lia.
  - rewrite H3. unfold first_cell at 1. cbn [c_cumtravel]. lia.
  - rewrite H4. unfold first_cell at 1. cbn [c_cumdist]. reflexivity.
  - intros r Hr. rewrite (H5 r Hr), first_cell_levels by exact Hr. reflexivity.
  - rewrite H6. unfold first_cell at 1. cbn [c_wait_acc]. lia.
Qed.

(* the same for the route of a reachable state *)
Lemma route_nth (inp : input) (s : state) (v k : nat) (d : cell) :
  InvT inp s -> (v < nveh inp)%nat -> (k < length (get_route s v))%nat ->
  let c := nth k (get_route s v) d in
  let rest := tl (route_stops (get_route s v)) in
  c_stop c = nth k (route_stops (get_route s v)) 0%nat /\
  c_pos c = k /\
  c_cumtravel c = path_sum (travel_duration inp) (first_stop inp v) (firstn k rest) /\
  c_cumdist c = distance_value inp v (first_stop inp v) (first_stop inp v)
                + path_sum (distance_value inp v) (first_stop inp v) (firstn k rest) /\
  (forall r, (r < in_nres inp)%nat ->
     nthZ (c_levels c) r = start_level inp v r - quantity_sum inp r (firstn k rest)) /\
  c_wait_acc c = sumZ (map (cell_wait inp) (firstn k (tl (get_route s v)))).
Proof.
  intros HI Hv Hk. cbn zeta.
  pose proof (route_is_from_scratch inp s v HI Hv) as Hfs.
  destruct (route_has_shape inp s v HI Hv) as (mid & Hst & _).
  rewrite <- length_route_stops in Hk.
  set (st := route_stops (get_route s v)) in *.
  rewrite Hst in Hk |- *. cbn [tl]. cbn [length] in Hk.
  rewrite Hfs. fold st. rewrite Hst.
  apply (from_scratch_nth inp v (first_stop inp v) (mid ++ [last_stop inp v]) k d). lia.
Qed.

(* ================================================================== *)
(* A4. What "no violation" means                                       *)
(* ================================================================== *)

Lemma if_some_none {A} (b : bool) (x : A) (y : option A) :
  (if b then Some x else y) = None -> b = false /\ y = None.
Proof. destruct b; [discriminate|auto]. Qed.

Lemma stop_violation_none (inp : input) (v : nat) (c : cell) :
  stop_violation inp v true c = None ->
  (has_capacity inp = true ->
     find (fun r => (capacity inp v r <? nthZ (c_levels c) r) || (nthZ (c_levels c) r <? 0))
          (seqn (in_nres inp)) = None) /\
  (has_distance_limit inp &&
     match iv_max_distance (get_vehicle inp v) with
     | Some d => (d <? c_cumdist c) || (c_cumdist c <? 0) | None => false end = false) /\
  (has_latest_end inp &&
     match (if is_last_stop inp (c_stop c) then latest_end inp v else None) with
     | Some l => l <? c_end c | None => false end = false) /\
  (has_latest_start inp &&
     match latest_start inp (c_stop c) with Some l => l <? c_start c | None => false end = false) /\
  (has_max_wait_stop inp &&
     match (if is_input_stop inp (c_stop c) then is_max_wait (get_stop inp (c_stop c)) else None) with
     | Some w => w <? c_start c - c_arrival c | None => false end = false) /\
  (has_max_wait_vehicle inp &&
     match iv_max_wait (get_vehicle inp v) with
     | Some w => w <? c_wait_acc c | None => false end = false).
Proof.
  intros H0.
  assert (H : builtin_violation inp v true c = None).
  { unfold stop_violation in H0. destruct (builtin_violation inp v true c); [discriminate|reflexivity]. }
  clear H0. revert H. unfold builtin_violation. cbv zeta. cbn [negb].
  intros H.
  assert (Hcap : (if has_capacity inp
                  then find (fun r => (capacity inp v r <? nthZ (c_levels c) r) || (nthZ (c_levels c) r <? 0))
                            (seqn (in_nres inp))
                  else None) = None).
  { destruct (if has_capacity inp then _ else None); [discriminate|reflexivity]. }
  rewrite Hcap in H.
  apply if_some_none in H. destruct H as (H1 & H).
  apply if_some_none in H. destruct H as (H2 & H).
  apply if_some_none in H. destruct H as (H3 & H).
  apply if_some_none in H. destruct H as (H4 & H).
  apply if_some_none in H. destruct H as (H5 & _).
  split; [|auto 10].
  intros Hc. rewrite Hc in Hcap. exact Hcap.
Qed.

Section Violation.
  Variables (inp : input) (v : nat) (c : cell).
  Hypothesis Hok : stop_violation inp v true c = None.

  Lemma sv_capacity (r : nat) :
    has_capacity inp = true -> (r < in_nres inp)%nat ->
    0 <= nthZ (c_levels c) r <= capacity inp v r.
  Proof.
    intros Hc Hr. destruct (stop_violation_none inp v c Hok) as (H & _).
    specialize (H Hc).
    pose proof (find_none _ _ H r (proj2 (In_seqn _ _) Hr)) as Hf. cbv beta in Hf.
    apply orb_false_iff in Hf. destruct Hf as (A & B).
    apply Z.ltb_ge in A. apply Z.ltb_ge in B. lia.
  Qed.

  Lemma sv_distance (d : Z) :
    has_distance_limit inp = true -> iv_max_distance (get_vehicle inp v) = Some d ->
    0 <= c_cumdist c <= d.
  Proof.
    intros Hh Hd. destruct (stop_violation_none inp v c Hok) as (_ & H & _).
    rewrite Hh, Hd in H. cbn [andb] in H.
    apply orb_false_iff in H. destruct H as (A & B).
    apply Z.ltb_ge in A. apply Z.ltb_ge in B. lia.
  Qed.

  Lemma sv_latest_start (l : Z) :
    has_latest_start inp = true -> latest_start inp (c_stop c) = Some l -> c_start c <= l.
  Proof.
    intros Hh Hl. destruct (stop_violation_none inp v c Hok) as (_ & _ & _ & H & _).
    rewrite Hh, Hl in H. cbn [andb] in H. apply Z.ltb_ge in H. exact H.
  Qed.

  Lemma sv_latest_end (l : Z) :
    has_latest_end inp = true -> is_last_stop inp (c_stop c) = true ->
    latest_end inp v = Some l -> c_end c <= l.
  Proof.
    intros Hh Hlast Hl. destruct (stop_violation_none inp v c Hok) as (_ & _ & H & _).
    rewrite Hh, Hlast, Hl in H. cbn [andb] in H. apply Z.ltb_ge in H. exact H.
  Qed.

  Lemma sv_max_wait_stop (w : Z) :
    has_max_wait_stop inp = true -> is_input_stop inp (c_stop c) = true ->
    is_max_wait (get_stop inp (c_stop c)) = Some w -> c_start c - c_arrival c <= w.
  Proof.
    intros Hh Hin Hw. destruct (stop_violation_none inp v c Hok) as (_ & _ & _ & _ & H & _).
    rewrite Hh, Hin, Hw in H. cbn [andb] in H. apply Z.ltb_ge in H. exact H.
  Qed.

  Lemma sv_max_wait_vehicle (w : Z) :
    has_max_wait_vehicle inp = true -> iv_max_wait (get_vehicle inp v) = Some w ->
    c_wait_acc c <= w.
  Proof.
    intros Hh Hw. destruct (stop_violation_none inp v c Hok) as (_ & _ & _ & _ & _ & H).
    rewrite Hh, Hw in H. cbn [andb] in H. apply Z.ltb_ge in H. exact H.
  Qed.
End Violation.

(* the constraints are installed as soon as one vehicle / stop has the field *)
Lemma any_vehicle_intro {A} (f : ivehicle -> option A) (inp : input) (v : nat) (a : A) :
  (v < nveh inp)%nat -> f (get_vehicle inp v) = Some a -> any_vehicle f inp = true.
Proof.
  intros Hv Hf. unfold any_vehicle. apply existsb_exists. exists (get_vehicle inp v).
  split; [unfold get_vehicle; apply nth_In; exact Hv|]. rewrite Hf. reflexivity.
Qed.

Lemma any_stop_intro {A} (f : istop -> option A) (inp : input) (x : nat) (a : A) :
  (x < nstops inp)%nat -> f (get_stop inp x) = Some a -> any_stop f inp = true.
Proof.
  intros Hx Hf. unfold any_stop. apply existsb_exists. exists (get_stop inp x).
  split; [unfold get_stop; apply nth_In; exact Hx|]. rewrite Hf. reflexivity.
Qed.

(* ================================================================== *)
(* C01                                                                 *)
(* ================================================================== *)

Lemma nth_In_tl {A} (l : list A) (k : nat) (d : A) :
  (1 <= k < length l)%nat -> In (nth k l d) (tl l).
Proof.
  destruct l as [|a l]; cbn [length tl]; [lia|]. intros Hk.
  destruct k as [|k]; [lia|]. cbn [nth]. apply nth_In. lia.
Qed.

Lemma path_sum_ext (f g : nat -> nat -> Z) :
  (forall a b, f a b = g a b) -> forall l a, path_sum f a l = path_sum g a l.
Proof.
  intros H. induction l as [|b l IH]; intros a; cbn [path_sum]; [reflexivity|].
  rewrite H, IH. reflexivity.
Qed.

Theorem C01_capacity_every_prefix_proof : forall inp s v k r,
  wf_input inp -> reachable inp s -> (v < nveh inp)%nat ->
  (1 <= k < length (get_route s v))%nat ->
  has_capacity inp = true -> (r < in_nres inp)%nat ->
  0 <= start_level inp v r
       - quantity_sum inp r (firstn k (tl (route_stops (get_route s v))))
    <= capacity inp v r.
Proof.
  intros inp s v k r Hwf Hr Hv Hk Hcap Hres.
  pose proof (reachable_invT inp s Hwf Hr) as HI.
  set (d := first_cell inp v).
  pose proof (route_cell_ok inp s v (nth k (get_route s v) d) HI Hv (nth_In_tl _ k d Hk)) as Hok.
  pose proof (sv_capacity inp v _ Hok r Hcap Hres) as Hb.
  destruct (route_nth inp s v k d HI Hv (proj2 Hk)) as (_ & _ & _ & _ & Hlev & _).
  rewrite (Hlev r Hres) in Hb. exact Hb.
Qed.

Theorem C01_distance_every_prefix_proof : forall inp s v k d,
  wf_input inp -> reachable inp s -> (v < nveh inp)%nat ->
  (1 <= k < length (get_route s v))%nat ->
  has_distance_limit inp = true -> iv_max_distance (get_vehicle inp v) = Some d ->
  0 <= travel_distance inp (first_stop inp v) (first_stop inp v)
       + path_sum (travel_distance inp) (first_stop inp v)
                  (firstn k (tl (route_stops (get_route s v))))
    <= d.
Proof.
  intros inp s v k d Hwf Hr Hv Hk Hh Hd.
  pose proof (reachable_invT inp s Hwf Hr) as HI.
  set (d0 := first_cell inp v).
  pose proof (route_cell_ok inp s v (nth k (get_route s v) d0) HI Hv (nth_In_tl _ k d0 Hk)) as Hok.
  pose proof (sv_distance inp v _ Hok d Hh Hd) as Hb.
  destruct (route_nth inp s v k d0 HI Hv (proj2 Hk)) as (_ & _ & _ & Hcd & _).
  rewrite Hcd in Hb.
  assert (E : forall a b, distance_value inp v a b = travel_distance inp a b).
  { intros a b. unfold distance_value. rewrite Hd. reflexivity. }
  rewrite E, (path_sum_ext _ _ E) in Hb. exact Hb.
Qed.

Theorem C01_distance_limit_proof : forall inp s v d,
  wf_input inp -> reachable inp s -> (v < nveh inp)%nat ->
  has_distance_limit inp = true -> iv_max_distance (get_vehicle inp v) = Some d ->
  0 <= travel_distance inp (first_stop inp v) (first_stop inp v)
       + path_sum (travel_distance inp) (first_stop inp v) (tl (route_stops (get_route s v)))
    <= d.
Proof.
  intros inp s v d Hwf Hr Hv Hh Hd.
  pose proof (reachable_invT inp s Hwf Hr) as HI.
  destruct (route_has_shape inp s v HI Hv) as (mid & Hst & _).
  assert (Hlen : length (get_route s v) = S (length (tl (route_stops (get_route s v))))).
  { rewrite <- length_route_stops. rewrite Hst. reflexivity. }
  pose proof (C01_distance_every_prefix_proof inp s v
                (length (tl (route_stops (get_route s v)))) d Hwf Hr Hv) as H.
  rewrite firstn_all in H. apply H; [|exact Hh|exact Hd].
  rewrite Hlen. split; [|lia]. rewrite Hst. cbn [tl]. rewrite app_length. cbn [length]. lia.
Qed.

(* the start solution: every vehicle has the route [first; last] *)
Lemma new_solution_routes (inp : input) (s : state) (v : nat) :
  new_solution inp = Some s -> (v < nveh inp)%nat ->
  route_stops (get_route s v) = [first_stop inp v; last_stop inp v] /\
  st_planned s = [] /\ st_unplanned s = seqn (nunits inp).
Proof.
  intros Hns Hv. unfold new_solution in Hns.
  destruct (all_some (map (empty_route inp) (seqn (length (in_vehicles inp))))) as [routes|] eqn:Ea;
    [|discriminate].
  injection Hns as <-.
  destruct (all_some_map_spec _ _ _ Ea) as (Hlen & Hnth). rewrite length_seqn in Hlen, Hnth.
  specialize (Hnth v 0%nat [] Hv). rewrite nth_seqn in Hnth by exact Hv.
  apply empty_route_spec in Hnth. destruct Hnth as (Hrt & _).
  cbn [refresh_scores st_planned st_unplanned]. split; [|split; reflexivity].
  unfold get_route. cbn [refresh_scores st_routes]. rewrite Hrt.
  apply route_stops_from_scratch. reflexivity.
Qed.

Theorem C01_start_solution_proof : forall inp s0 v,
  wf_input inp -> new_solution inp = Some s0 -> (v < nveh inp)%nat ->
  route_stops (get_route s0 v) = [first_stop inp v; last_stop inp v] /\
  (has_capacity inp = true -> forall r, (r < in_nres inp)%nat ->
     0 <= start_level inp v r <= capacity inp v r) /\
  (has_distance_limit inp = true -> forall d, iv_max_distance (get_vehicle inp v) = Some d ->
     0 <= travel_distance inp (first_stop inp v) (first_stop inp v)
          + travel_distance inp (first_stop inp v) (last_stop inp v) <= d).
Proof.
  intros inp s0 v Hwf Hns Hv.
  pose proof (reachable_start inp s0 Hns) as Hr.
  destruct (new_solution_routes inp s0 v Hns Hv) as (Hst & _).
  assert (Hlen : length (get_route s0 v) = 2%nat).
  { rewrite <- length_route_stops, Hst. reflexivity. }
  split; [exact Hst|]. split.
  - intros Hc r Hres.
    pose proof (C01_capacity_every_prefix_proof inp s0 v 1 r Hwf Hr Hv) as H.
    rewrite Hst, Hlen in H. cbn [tl firstn] in H.
    unfold quantity_sum in H. cbn [filter] in H.
    assert (E : is_input_stop inp (last_stop inp v) = false).
    { unfold is_input_stop, last_stop. apply Nat.ltb_ge. lia. }
    rewrite E in H. cbn [map sumZ fold_right] in H. rewrite Z.sub_0_r in H.
    apply H; [lia|exact Hc|exact Hres].
  - intros Hh d Hd.
    pose proof (C01_distance_limit_proof inp s0 v d Hwf Hr Hv Hh Hd) as H.
    rewrite Hst in H. cbn [tl path_sum] in H. rewrite Z.add_0_r in H. exact H.
Qed.

(* ================================================================== *)
(* C05                                                                 *)
(* ================================================================== *)

Theorem C05_total_is_sum_proof : forall inp s,
  wf_input inp -> reachable inp s -> st_total s = sumZ (st_scores s).
Proof.
  intros inp s Hwf Hr. destruct (reachable_invT inp s Hwf Hr) as ((_ & _ & (_ & H) & _) & _).
  exact H.
Qed.

Theorem C05_terms_are_recomputation_proof : forall inp s,
  wf_input inp -> reachable inp s -> st_scores s = score_terms inp s.
Proof.
  intros inp s Hwf Hr. destruct (reachable_invT inp s Hwf Hr) as ((_ & _ & (H & _) & _) & _).
  exact H.
Qed.

(* the units that are not (completely) on routes, in index order *)
Definition units_off_routes (inp : input) (s : state) : list nat :=
  filter (fun u => negb (unit_planned inp s u)) (seqn (nunits inp)).

Lemma unplanned_perm (inp : input) (s : state) :
  InvT inp s -> Permutation (st_unplanned s) (units_off_routes inp s).
Proof.
  intros ((_ & _ & _ & (_ & _ & Hnu & _ & Hper & Hb)) & _).
  apply NoDup_Permutation; [exact Hnu|apply NoDup_filter, NoDup_seqn|].
  intros u. unfold units_off_routes. rewrite filter_In, In_seqn, negb_true_iff. split.
  - intros H. assert (Hu : (u < nunits inp)%nat) by (apply Hb; right; exact H).
    split; [exact Hu|]. apply (Hper u Hu). exact H.
  - intros (Hu & H). apply (Hper u Hu). exact H.
Qed.

Theorem C05_unplanned_is_routes_based_proof : forall inp s,
  wf_input inp -> reachable inp s ->
  Permutation (st_unplanned s) (units_off_routes inp s) /\
  obj_unplanned inp s = sumZ (map (unit_penalty inp) (units_off_routes inp s)).
Proof.
  intros inp s Hwf Hr. pose proof (unplanned_perm inp s (reachable_invT inp s Hwf Hr)) as P.
  split; [exact P|]. unfold obj_unplanned. exact (sumZ_map_perm _ _ _ P).
Qed.

Lemma units_off_routes_ext (inp : input) (s1 s2 : state) :
  st_routes s1 = st_routes s2 -> units_off_routes inp s1 = units_off_routes inp s2.
Proof.
  intros E. unfold units_off_routes. apply filter_ext. intros u.
  rewrite (unit_planned_ext inp s2 s1 u E). reflexivity.
Qed.

Theorem C05_history_independent_proof : forall inp s1 s2,
  wf_input inp -> reachable inp s1 -> reachable inp s2 ->
  map route_stops (st_routes s1) = map route_stops (st_routes s2) ->
  st_scores s1 = st_scores s2 /\ st_total s1 = st_total s2.
Proof.
  intros inp s1 s2 Hwf H1 H2 Hm.
  pose proof (reachable_invT inp s1 Hwf H1) as I1.
  pose proof (reachable_invT inp s2 Hwf H2) as I2.
  pose proof (caches_history_independent inp s1 s2 (proj1 I1) (proj1 I2) Hm) as Hr.
  assert (Hs : st_scores s1 = st_scores s2).
  { rewrite (C05_terms_are_recomputation_proof inp s1 Hwf H1),
            (C05_terms_are_recomputation_proof inp s2 Hwf H2).
    apply score_terms_ext; [exact Hr|].
    transitivity (units_off_routes inp s1); [exact (unplanned_perm inp s1 I1)|].
    rewrite (units_off_routes_ext inp s1 s2 Hr). symmetry. exact (unplanned_perm inp s2 I2). }
  split; [exact Hs|].
  rewrite (C05_total_is_sum_proof inp s1 Hwf H1), (C05_total_is_sum_proof inp s2 Hwf H2), Hs.
  reflexivity.
Qed.

(* ================================================================== *)
(* A2. Window lookup: common/rangecheck.go                             *)
(* ================================================================== *)

(* sorted, disjoint, minute aligned, non-empty windows, after the epoch *)
Definition windows_ok (ws : list (Z * Z)) : Prop :=
  Forall (fun w => 0 < fst w /\ fst w < snd w /\ fst w mod 60 = 0 /\ snd w mod 60 = 0) ws /\
  StronglySorted (fun a b => snd a <= fst b) ws.

(* the same, a window may open AT the epoch (second 0): enough for times >= 0 *)
Definition windows_ok0 (ws : list (Z * Z)) : Prop :=
  Forall (fun w => 0 <= fst w /\ fst w < snd w /\ fst w mod 60 = 0 /\ snd w mod 60 = 0) ws /\
  StronglySorted (fun a b => snd a <= fst b) ws.

Definition in_some_window (ws : list (Z * Z)) (t : Z) : Prop :=
  exists w, In w ws /\ fst w <= t < snd w.

(* o is the opening of the first window that opens after t *)
Definition next_opening (ws : list (Z * Z)) (t o : Z) : Prop :=
  exists w, In w ws /\ fst w = o /\ t < o /\ forall w', In w' ws -> t < fst w' -> o <= fst w'.

(* executable counterparts *)
Fixpoint in_window_b (ws : list (Z * Z)) (t : Z) : bool :=
  match ws with
  | [] => false
  | (mn, mx) :: r => ((mn <=? t) && (t <? mx)) || in_window_b r t
  end.
Fixpoint next_open (ws : list (Z * Z)) (t : Z) : option Z :=
  match ws with
  | [] => None
  | (mn, _) :: r => if t <? mn then Some mn else next_open r t
  end.
(* the specification of ToEarliestStartValue *)
Definition earliest_spec (ws : list (Z * Z)) (t : Z) : Z :=
  if in_window_b ws t then t else match next_open ws t with Some o => o | None => t end.

Lemma windows_ok_weaken (ws : list (Z * Z)) : windows_ok ws -> windows_ok0 ws.
Proof.
  intros (H & S). split; [|exact S]. eapply Forall_impl; [|exact H]. cbv beta. intros w. lia.
Qed.

Lemma in_window_b_iff (ws : list (Z * Z)) (t : Z) :
  in_window_b ws t = true <-> in_some_window ws t.
Proof.
  unfold in_some_window. induction ws as [|[mn mx] r IH]; cbn [in_window_b].
  - split; [discriminate|]. intros (w & [] & _).
  - rewrite orb_true_iff, andb_true_iff, Z.leb_le, Z.ltb_lt, IH. split.
    + intros [H|(w & Hw & Ht)].
      * exists (mn, mx). split; [left; reflexivity|exact H].
      * exists w. split; [right; exact Hw|exact Ht].
    + intros (w & [<-|Hw] & Ht); [left; exact Ht|right; exists w; auto].
Qed.

Lemma in_window_b_false (ws : list (Z * Z)) (t : Z) :
  (forall w, In w ws -> t < fst w \/ snd w <= t) -> in_window_b ws t = false.
Proof.
  intros H. destruct (in_window_b ws t) eqn:E; [exfalso|reflexivity].
  apply in_window_b_iff in E. destruct E as (w & Hw & Ht). destruct (H w Hw); lia.
Qed.

Lemma next_open_none (ws : list (Z * Z)) (t : Z) :
  next_open ws t = None <-> forall w, In w ws -> fst w <= t.
Proof.
  induction ws as [|[mn mx] r IH]; cbn [next_open].
  - split; [intros _ w []|reflexivity].
  - destruct (t <? mn) eqn:E.
    + split; [discriminate|]. intros H. apply Z.ltb_lt in E.
      specialize (H (mn, mx) (or_introl eq_refl)). cbn in H. lia.
    + apply Z.ltb_ge in E. rewrite IH. split.
      * intros H w [<-|Hw]; [exact E|exact (H w Hw)].
      * intros H w Hw. apply H. right; exact Hw.
Qed.

Section Sorted.
  Variable ws : list (Z * Z).
  Hypothesis Hlt : Forall (fun w => fst w < snd w) ws.
  Hypothesis Hsorted : StronglySorted (fun a b => snd a <= fst b) ws.

  (* every window opens at or after the first one and closes at or before the last *)
  Lemma first_min_le (w : Z * Z) : In w ws -> first_min ws <= fst w.
  Proof.
    destruct ws as [|a r]; [intros []|]. unfold first_min. cbn [hd].
    intros [<-|Hw]; [lia|].
    apply StronglySorted_inv in Hsorted. destruct Hsorted as (_ & Hall).
    rewrite Forall_forall in Hall. specialize (Hall w Hw).
    inversion Hlt; subst. lia.
  Qed.

  Lemma snd_le_last_max : forall w : Z * Z, In w ws -> snd w <= last_max ws.
  Proof.
    unfold last_max. revert Hlt Hsorted. induction ws as [|a r IH]; intros Hl Hs w; [intros []|].
    apply StronglySorted_inv in Hs. destruct Hs as (Hs & Hall).
    inversion Hl as [|a' r' Ha Hr]; subst.
    destruct r as [|b r].
    - intros [<-|[]]. cbn. lia.
    - change (last (a :: b :: r) (0, 0)) with (last (b :: r) (0, 0)).
      intros [<-|Hw]; [|exact (IH Hr Hs w Hw)].
      rewrite Forall_forall in Hall. specialize (Hall b (or_introl eq_refl)).
      inversion Hr; subst. specialize (IH Hr Hs b (or_introl eq_refl)). lia.
  Qed.

  Lemma next_open_some (t o : Z) : next_open ws t = Some o -> next_opening ws t o.
  Proof.
    unfold next_opening. revert Hlt Hsorted. induction ws as [|[mn mx] r IH]; intros Hl Hs; cbn [next_open].
    - discriminate.
    - apply StronglySorted_inv in Hs. destruct Hs as (Hs & Hall).
      inversion Hl as [|a' r' Ha Hr]; subst. cbn [fst snd] in Ha.
      destruct (t <? mn) eqn:E.
      + intros H. injection H as <-. apply Z.ltb_lt in E.
        exists (mn, mx). split; [left; reflexivity|]. split; [reflexivity|]. split; [exact E|].
        intros w' [<-|Hw'] _; [cbn; lia|].
        rewrite Forall_forall in Hall. specialize (Hall w' Hw'). cbn [snd] in Hall. lia.
      + intros H. apply Z.ltb_ge in E. destruct (IH Hr Hs H) as (w & Hw & Ho & Hto & Hmin).
        exists w. split; [right; exact Hw|]. split; [exact Ho|]. split; [exact Hto|].
        intros w' [<-|Hw'] Hlt'; [cbn [fst] in Hlt'; lia|exact (Hmin w' Hw' Hlt')].
  Qed.
End Sorted.

Lemma last_In {A} (l : list A) (d : A) : l <> [] -> In (last l d) l.
Proof.
  induction l as [|a l IH]; [congruence|]. intros _.
  destruct l as [|b l]; [left; reflexivity|].
  right. apply IH. discriminate.
Qed.

(* ---- slot_scan (toSlotInfo) -------------------------------------- *)

(* The scan over the windows for the slot starting at second s (minute index
   i >= 1).  The result does not depend on the number of windows passed as
   [nint]: when the literal third branch of the Go loop (guard i+1 < nint,
   minute index against number of intervals) fires it returns the opening of
   the next window, which is exactly what the second branch returns one
   iteration later when the guard is false. *)
Lemma slot_scan_spec :
  forall (ws : list (Z * Z)) (s i nint : Z) (prev : option Z),
    Forall (fun w => fst w < snd w) ws ->
    StronglySorted (fun a b => snd a <= fst b) ws ->
    1 <= i ->
    match prev with
    | Some pm => pm <= s
    | None => match ws with [] => True | w :: _ => fst w <= s end
    end ->
    slot_scan s i nint prev ws
    = if in_window_b ws s then (true, -1)
      else (false, match next_open ws s with Some o => o | None => -1 end).
Proof.
  induction ws as [|[mn mx] rest IH]; intros s i nint prev Hlt Hs Hi Hprev; [reflexivity|].
  apply StronglySorted_inv in Hs. destruct Hs as (Hs & Hall).
  inversion Hlt as [|a' r' Ha Hr]; subst. cbn [fst snd] in Ha.
  rewrite Forall_forall in Hall.
  assert (Hrest : forall w, In w rest -> mx <= fst w) by (intros w Hw; exact (Hall w Hw)).
  cbn [slot_scan in_window_b next_open].
  destruct (Z_lt_le_dec s mn) as [Hsm|Hsm].
  - (* s before this window: the previous one is closed (branch 2) *)
    assert (E1 : (mn <=? s) = false) by (apply Z.leb_gt; exact Hsm).
    assert (E2 : (s <? mn) = true) by (apply Z.ltb_lt; exact Hsm).
    assert (E3 : (0 <=? i - 1) = true) by (apply Z.leb_le; lia).
    rewrite E1, E2, E3. cbn [andb orb].
    destruct prev as [pm|]; [|cbn [fst] in Hprev; lia].
    assert (E4 : (pm <=? s) = true) by (apply Z.leb_le; exact Hprev).
    rewrite E4. rewrite in_window_b_false; [reflexivity|].
    intros w Hw. left. specialize (Hrest w Hw). lia.
  - assert (E1 : (mn <=? s) = true) by (apply Z.leb_le; exact Hsm).
    assert (E2 : (s <? mn) = false) by (apply Z.ltb_ge; exact Hsm).
    rewrite E1, E2. cbn [andb orb].
    destruct (s <? mx) eqn:E5; [reflexivity|]. cbn [andb orb]. apply Z.ltb_ge in E5.
    assert (E6 : (mx <=? s) = true) by (apply Z.leb_le; exact E5).
    rewrite E6. cbn [andb].
    assert (Hrec : slot_scan s i nint (Some mx) rest
                   = if in_window_b rest s then (true, -1)
                     else (false, match next_open rest s with Some o => o | None => -1 end)).
    { apply IH; assumption. }
    destruct (i + 1 <? nint); cbn [andb]; [|exact Hrec].
    destruct rest as [|[mn2 mx2] rest']; [exact Hrec|]. cbv iota.
    destruct (s <? mn2) eqn:E7; [|exact Hrec].
    (* the third branch fires: same answer as the recursion would give *)
    rewrite <- Hrec. cbn [slot_scan].
    apply Z.ltb_lt in E7.
    assert (F1 : (mn2 <=? s) = false) by (apply Z.leb_gt; exact E7).
    assert (F2 : (s <? mn2) = true) by (apply Z.ltb_lt; exact E7).
    assert (F3 : (0 <=? i - 1) = true) by (apply Z.leb_le; lia).
    rewrite F1, F2, F3, E6. reflexivity.
Qed.

(* ---- minute alignment -------------------------------------------- *)

Lemma quot60 (t : Z) : 0 <= t -> Z.quot t 60 = t / 60.
Proof. intros H. apply Z.quot_div_nonneg; lia. Qed.

Lemma align_le (m t : Z) : 0 <= t -> m mod 60 = 0 -> (m <= t <-> m <= Z.quot t 60 * 60).
Proof. intros Ht Hm. rewrite quot60 by exact Ht. Z.div_mod_to_equations. lia. Qed.

Lemma align_lt (m t : Z) : 0 <= t -> m mod 60 = 0 -> (t < m <-> Z.quot t 60 * 60 < m).
Proof. intros Ht Hm. rewrite quot60 by exact Ht. Z.div_mod_to_equations. lia. Qed.

Lemma in_window_b_align (ws : list (Z * Z)) (t : Z) :
  0 <= t -> Forall (fun w => fst w mod 60 = 0 /\ snd w mod 60 = 0) ws ->
  in_window_b ws (Z.quot t 60 * 60) = in_window_b ws t.
Proof.
  intros Ht. induction 1 as [|[mn mx] r (Ha & Hb) Hr IH]; [reflexivity|].
  cbn [in_window_b fst snd] in *. rewrite IH. f_equal. f_equal.
  - apply eq_true_iff_eq. rewrite !Z.leb_le. symmetry. apply align_le; assumption.
  - apply eq_true_iff_eq. rewrite !Z.ltb_lt. symmetry. apply align_lt; assumption.
Qed.

Lemma next_open_align (ws : list (Z * Z)) (t : Z) :
  0 <= t -> Forall (fun w => fst w mod 60 = 0 /\ snd w mod 60 = 0) ws ->
  next_open ws (Z.quot t 60 * 60) = next_open ws t.
Proof.
  intros Ht. induction 1 as [|[mn mx] r (Ha & Hb) Hr IH]; [reflexivity|].
  cbn [next_open fst snd] in *. rewrite IH.
  replace (Z.quot t 60 * 60 <? mn) with (t <? mn); [reflexivity|].
  apply eq_true_iff_eq. rewrite !Z.ltb_lt. apply align_lt; assumption.
Qed.

(* ---- Check(tf) ---------------------------------------------------- *)

Lemma windows_ok0_parts (ws : list (Z * Z)) :
  windows_ok0 ws ->
  Forall (fun w => fst w < snd w) ws /\
  Forall (fun w => fst w mod 60 = 0 /\ snd w mod 60 = 0) ws /\
  Forall (fun w => 0 <= fst w) ws /\
  StronglySorted (fun a b => snd a <= fst b) ws.
Proof.
  intros (H & S). repeat split; try exact S;
    (eapply Forall_impl; [|exact H]); cbv beta; intros w; tauto.
Qed.

Theorem window_check_spec (ws : list (Z * Z)) (t : Z) :
  windows_ok0 ws -> ws <> [] -> (0 <= t \/ 0 < first_min ws) ->
  window_check ws t
  = if in_window_b ws t then (true, -1)
    else (false, match next_open ws t with Some o => o | None => -1 end).
Proof.
  intros Hok Hne Hdom.
  destruct (windows_ok0_parts ws Hok) as (Hlt & Hal & Hnn & Hs).
  pose proof (first_min_le ws Hlt Hs) as Hfirst.
  pose proof (snd_le_last_max ws Hlt Hs) as Hlast.
  rewrite Forall_forall in Hlt, Hal, Hnn.
  assert (Hlw : In (last ws (0, 0)) ws) by (apply last_In; exact Hne).
  assert (Hhw : In (hd (0, 0) ws) ws) by (destruct ws; [congruence|left; reflexivity]).
  assert (Hfm : 0 <= first_min ws /\ first_min ws mod 60 = 0).
  { unfold first_min. split; [exact (Hnn _ Hhw)|exact (proj1 (Hal _ Hhw))]. }
  assert (Hlm : first_min ws < last_max ws /\ last_max ws mod 60 = 0).
  { unfold last_max. split; [|exact (proj2 (Hal _ Hlw))].
    pose proof (Hfirst _ Hlw). pose proof (Hlt _ Hlw). lia. }
  destruct Hfm as (Hfm0 & Hfma). destruct Hlm as (Hlm0 & Hlma).
  (* before the first window *)
  assert (Hbefore : t < first_min ws ->
            (if in_window_b ws t then (true, -1)
             else (false, match next_open ws t with Some o => o | None => -1 end))
            = (false, first_min ws)).
  { intros Hb. rewrite in_window_b_false by (intros w Hw; left; specialize (Hfirst w Hw); lia).
    destruct ws as [|[mn mx] r]; [congruence|]. unfold first_min in *. cbn [hd fst] in *.
    cbn [next_open]. rewrite (proj2 (Z.ltb_lt t mn) Hb). reflexivity. }
  unfold window_check. cbv zeta.
  destruct (Z_lt_le_dec t 0) as [Hneg|Hpos].
  { (* negative time: only with windows after the epoch *)
    assert (Hfm1 : 0 < first_min ws) by lia.
    assert (Hq : Z.quot t 60 <= 0).
    { pose proof (Z.quot_rem' t 60). pose proof (Z.rem_bound_pos_neg t 60 ltac:(lia) ltac:(lia)). lia. }
    assert (Hm : 1 <= Z.quot (first_min ws) 60).
    { rewrite quot60 by lia. Z.div_mod_to_equations. lia. }
    rewrite (proj2 (Z.ltb_lt _ 0)) by lia. rewrite Hbefore by lia. reflexivity. }
  destruct (Z.quot t 60 - Z.quot (first_min ws) 60 <? 0) eqn:E1.
  { apply Z.ltb_lt in E1. rewrite Hbefore; [reflexivity|].
    rewrite !quot60 in E1 by lia. Z.div_mod_to_equations. lia. }
  apply Z.ltb_ge in E1.
  destruct (Z.quot (last_max ws) 60 + 1 - Z.quot (first_min ws) 60
            <=? Z.quot t 60 - Z.quot (first_min ws) 60) eqn:E2.
  { (* a minute or more after the last close *)
    apply Z.leb_le in E2.
    assert (Hafter : last_max ws <= t).
    { rewrite !quot60 in E2 by lia. Z.div_mod_to_equations. lia. }
    rewrite in_window_b_false by (intros w Hw; right; specialize (Hlast w Hw); lia).
    rewrite (proj2 (next_open_none ws t)); [reflexivity|].
    intros w Hw. specialize (Hlast w Hw). specialize (Hlt w Hw). lia. }
  apply Z.leb_gt in E2.
  assert (Hsm : first_min ws <= Z.quot t 60 * 60).
  { rewrite !quot60 in * by lia. Z.div_mod_to_equations. lia. }
  assert (Hal' : Forall (fun w => fst w mod 60 = 0 /\ snd w mod 60 = 0) ws)
    by (apply Forall_forall; exact Hal).
  rewrite <- (in_window_b_align ws t Hpos Hal'), <- (next_open_align ws t Hpos Hal').
  destruct (Z_lt_le_dec (Z.quot t 60) 1) as [Hz|Hge1].
  - (* minute 0: the first window opens at the epoch and contains it *)
    assert (Hq0 : Z.quot t 60 = 0) by (rewrite quot60 in * by lia; Z.div_mod_to_equations; lia).
    rewrite Hq0 in *. cbn [Z.mul] in *.
    destruct ws as [|[mn mx] r]; [congruence|]. unfold first_min in *. cbn [hd fst] in *.
    assert (Hmn : mn = 0) by lia. subst mn.
    pose proof (Hlt (0, mx) (or_introl eq_refl)) as Hmx. cbn [fst snd] in Hmx.
    cbn [slot_scan in_window_b length]. rewrite (proj2 (Z.ltb_lt 0 mx) Hmx). reflexivity.
  - apply slot_scan_spec.
    + apply Forall_forall. exact Hlt.
    + exact Hs.
    + exact Hge1.
    + destruct ws as [|w r]; [exact I|]. unfold first_min in Hsm. exact Hsm.
Qed.

(* ---- ToEarliestStartValue ----------------------------------------- *)

Lemma to_earliest_start_nonempty (ws : list (Z * Z)) (t : Z) :
  ws <> [] ->
  to_earliest_start ws t
  = (let '(inw, opening) := window_check ws t in
     if inw then t else if 0 <? opening then opening else t).
Proof. destruct ws; [congruence|reflexivity]. Qed.

Theorem to_earliest_start_eq (ws : list (Z * Z)) (t : Z) :
  windows_ok0 ws -> (0 <= t \/ 0 < first_min ws) ->
  to_earliest_start ws t = earliest_spec ws t.
Proof.
  intros Hok Hdom. destruct (list_eq_dec (fun a b : Z * Z => ltac:(decide equality; apply Z.eq_dec)) ws [])
    as [->|Hne]; [reflexivity|].
  rewrite (to_earliest_start_nonempty ws t Hne).
  rewrite (window_check_spec ws t Hok Hne Hdom). unfold earliest_spec.
  destruct (in_window_b ws t); [reflexivity|].
  destruct (next_open ws t) as [o|] eqn:En; [|reflexivity].
  destruct (windows_ok0_parts ws Hok) as (Hlt & _ & Hnn & Hs).
  destruct (next_open_some ws Hlt Hs t o En) as (w & Hw & Ho & Hto & _).
  assert (Hpos : 0 < o).
  { destruct Hdom as [H|H]; [lia|]. pose proof (first_min_le ws Hlt Hs w Hw). lia. }
  rewrite (proj2 (Z.ltb_lt 0 o) Hpos). reflexivity.
Qed.

(* A2, in the words of the task.  [windows_ok] (windows after the epoch) makes
   the statement hold for every t, negative ones included; for t >= 0 a window
   opening at second 0 is fine as well (to_earliest_start_spec0). *)
Lemma earliest_spec_props (ws : list (Z * Z)) (t : Z) :
  windows_ok0 ws -> ws <> [] ->
  (in_some_window ws t -> earliest_spec ws t = t) /\
  (~ in_some_window ws t -> t < last_max ws -> next_opening ws t (earliest_spec ws t)) /\
  (last_max ws <= t -> earliest_spec ws t = t) /\
  t <= Z.max t (earliest_spec ws t) /\
  (in_some_window ws (Z.max t (earliest_spec ws t)) \/ last_max ws <= Z.max t (earliest_spec ws t)).
Proof.
  intros Hok Hne.
  destruct (windows_ok0_parts ws Hok) as (Hlt & _ & _ & Hs).
  pose proof (snd_le_last_max ws Hlt Hs) as Hlast.
  assert (Hlw : In (last ws (0, 0)) ws) by (apply last_In; exact Hne).
  unfold earliest_spec.
  split; [|split; [|split; [|split]]].
  - intros H. apply in_window_b_iff in H. rewrite H. reflexivity.
  - intros Hn Hb. destruct (in_window_b ws t) eqn:E; [apply in_window_b_iff in E; contradiction|].
    destruct (next_open ws t) as [o|] eqn:En; [exact (next_open_some ws Hlt Hs t o En)|].
    exfalso. apply Hn. exists (last ws (0, 0)). split; [exact Hlw|].
    pose proof (proj1 (next_open_none ws t) En _ Hlw). unfold last_max in Hb. lia.
  - intros Ha. rewrite in_window_b_false by (intros w Hw; right; specialize (Hlast w Hw); lia).
    rewrite (proj2 (next_open_none ws t)); [reflexivity|].
    intros w Hw. specialize (Hlast w Hw). rewrite Forall_forall in Hlt. specialize (Hlt w Hw). lia.
  - lia.
  - destruct (in_window_b ws t) eqn:E.
    + left. rewrite Z.max_id. apply in_window_b_iff. exact E.
    + destruct (next_open ws t) as [o|] eqn:En.
      * left. destruct (next_open_some ws Hlt Hs t o En) as (w & Hw & Ho & Hto & _).
        rewrite Z.max_r by lia. exists w. split; [exact Hw|].
        rewrite Forall_forall in Hlt. specialize (Hlt w Hw). lia.
      * right. rewrite Z.max_id.
        pose proof (proj1 (next_open_none ws t) En _ Hlw) as Hf.
        destruct (Z_lt_le_dec t (last_max ws)) as [Hb|Hb]; [exfalso|exact Hb].
        assert (Hin : in_some_window ws t).
        { exists (last ws (0, 0)). split; [exact Hlw|]. unfold last_max in Hb. lia. }
        apply in_window_b_iff in Hin. congruence.
Qed.

Theorem to_earliest_start_spec (ws : list (Z * Z)) (t : Z) :
  windows_ok ws -> ws <> [] ->
  (in_some_window ws t -> to_earliest_start ws t = t) /\
  (~ in_some_window ws t -> t < last_max ws -> next_opening ws t (to_earliest_start ws t)) /\
  (last_max ws <= t -> to_earliest_start ws t = t) /\
  t <= Z.max t (to_earliest_start ws t) /\
  (in_some_window ws (Z.max t (to_earliest_start ws t)) \/
   last_max ws <= Z.max t (to_earliest_start ws t)).
Proof.
  intros Hok Hne. pose proof (windows_ok_weaken ws Hok) as Hok0.
  rewrite (to_earliest_start_eq ws t Hok0).
  - exact (earliest_spec_props ws t Hok0 Hne).
  - right. destruct Hok as (H & _). destruct ws as [|w r]; [congruence|].
    inversion H; subst. unfold first_min. cbn [hd]. tauto.
Qed.

Theorem to_earliest_start_spec0 (ws : list (Z * Z)) (t : Z) :
  windows_ok0 ws -> ws <> [] -> 0 <= t ->
  (in_some_window ws t -> to_earliest_start ws t = t) /\
  (~ in_some_window ws t -> t < last_max ws -> next_opening ws t (to_earliest_start ws t)) /\
  (last_max ws <= t -> to_earliest_start ws t = t) /\
  t <= Z.max t (to_earliest_start ws t) /\
  (in_some_window ws (Z.max t (to_earliest_start ws t)) \/
   last_max ws <= Z.max t (to_earliest_start ws t)).
Proof.
  intros Hok Hne Ht. rewrite (to_earliest_start_eq ws t Hok (or_introl Ht)).
  exact (earliest_spec_props ws t Hok Hne).
Qed.

(* The literal third branch of toSlotInfo: for every minute index and every
   number of intervals the scan returns the same pair -- the guard compares a
   minute index with the number of windows, but the branch is redundant. *)
Theorem slot_scan_third_branch_harmless (ws : list (Z * Z)) (s i n1 n2 : Z) (prev : option Z) :
  Forall (fun w => fst w < snd w) ws ->
  StronglySorted (fun a b => snd a <= fst b) ws ->
  1 <= i ->
  match prev with
  | Some pm => pm <= s
  | None => match ws with [] => True | w :: _ => fst w <= s end
  end ->
  slot_scan s i n1 prev ws = slot_scan s i n2 prev ws.
Proof.
  intros Hlt Hs Hi Hp.
  rewrite (slot_scan_spec ws s i n1 prev Hlt Hs Hi Hp), (slot_scan_spec ws s i n2 prev Hlt Hs Hi Hp).
  reflexivity.
Qed.

(* ================================================================== *)
(* C02 and C04 (waiting)                                               *)
(* ================================================================== *)

(* every input stop's start time windows are sorted, disjoint, minute aligned,
   non-empty and after the epoch *)
Definition input_windows_ok (inp : input) : Prop :=
  Forall (fun st => windows_ok (is_windows st)) (in_stops inp).

Lemma windows_ok_nil : windows_ok [].
Proof. split; constructor. Qed.

Lemma stop_windows_ok (inp : input) (x : nat) :
  input_windows_ok inp -> windows_ok (stop_windows inp x).
Proof.
  intros H. unfold stop_windows. destruct (o_dis_windows (in_opts inp)); [exact windows_ok_nil|].
  destruct (is_input_stop inp x) eqn:E; [|exact windows_ok_nil].
  unfold input_windows_ok in H. rewrite Forall_forall in H. apply H.
  unfold get_stop. apply nth_In. apply Nat.ltb_lt. exact E.
Qed.

(* a stop with windows means the latest-start constraint is installed *)
Lemma has_latest_start_of_windows (inp : input) (x : nat) :
  stop_windows inp x <> [] -> has_latest_start inp = true.
Proof.
  unfold stop_windows, has_latest_start.
  destruct (o_dis_windows (in_opts inp)); [congruence|].
  destruct (is_input_stop inp x) eqn:E; [|congruence]. intros Hne. cbn [negb andb].
  apply existsb_exists. exists (get_stop inp x). split.
  - unfold get_stop. apply nth_In. apply Nat.ltb_lt. exact E.
  - destruct (is_windows (get_stop inp x)); [congruence|reflexivity].
Qed.

Lemma cell_start_eq (inp : input) (s : state) (v : nat) (c : cell) :
  InvT inp s -> (v < nveh inp)%nat -> In c (tl (get_route s v)) ->
  c_start c = Z.max (c_arrival c)
                    (to_earliest_start (stop_windows inp (c_stop c)) (c_arrival c)).
Proof.
  intros HI Hv Hin. destruct (In_tl_split _ c Hin) as (pre & p & post & E).
  pose proof (route_consecutive inp s v pre post p c HI Hv E) as Hc.
  rewrite Hc at 1 2 4. rewrite nc_start. reflexivity.
Qed.

Theorem C02_arrival_le_start_proof : forall inp s v c,
  wf_input inp -> reachable inp s -> (v < nveh inp)%nat -> In c (tl (get_route s v)) ->
  c_arrival c <= c_start c.
Proof.
  intros inp s v c Hwf Hr Hv Hin.
  rewrite (cell_start_eq inp s v c (reachable_invT inp s Hwf Hr) Hv Hin). lia.
Qed.

Theorem C04_waiting_is_window_wait_proof : forall inp s v c,
  wf_input inp -> reachable inp s -> input_windows_ok inp ->
  (v < nveh inp)%nat -> In c (tl (get_route s v)) ->
  let ws := stop_windows inp (c_stop c) in
  c_arrival c <= c_start c /\
  (c_arrival c < c_start c ->
     ~ in_some_window ws (c_arrival c) /\ c_arrival c < last_max ws /\
     next_opening ws (c_arrival c) (c_start c)) /\
  (ws = [] \/ in_some_window ws (c_arrival c) \/ last_max ws <= c_arrival c ->
     c_start c = c_arrival c).
Proof.
  intros inp s v c Hwf Hr Hw Hv Hin. cbv zeta.
  pose proof (cell_start_eq inp s v c (reachable_invT inp s Hwf Hr) Hv Hin) as Hst.
  set (ws := stop_windows inp (c_stop c)) in *. set (t := c_arrival c) in *.
  assert (Hnil : ws = [] -> c_start c = t).
  { intros E. rewrite Hst, E. cbn [to_earliest_start]. lia. }
  split; [lia|].
  destruct (list_eq_dec (fun a b : Z * Z => ltac:(decide equality; apply Z.eq_dec)) ws [])
    as [E|Hne].
  { split; [rewrite (Hnil E); lia|intros _; exact (Hnil E)]. }
  destruct (to_earliest_start_spec ws t (stop_windows_ok inp (c_stop c) Hw) Hne)
    as (S1 & S2 & S3 & _ & _).
  split.
  - intros Hgt.
    assert (Hn : ~ in_some_window ws t) by (intros H; rewrite (S1 H) in Hst; lia).
    assert (Hb : t < last_max ws).
    { destruct (Z_lt_le_dec t (last_max ws)) as [H|H]; [exact H|]. rewrite (S3 H) in Hst. lia. }
    split; [exact Hn|]. split; [exact Hb|].
    pose proof (S2 Hn Hb) as Hno. replace (c_start c) with (to_earliest_start ws t); [exact Hno|].
    destruct Hno as (_ & _ & _ & Hlt & _). lia.
  - intros [E|[H|H]]; [exact (Hnil E)|rewrite Hst, (S1 H); lia|rewrite Hst, (S3 H); lia].
Qed.

Theorem C02_start_in_window_proof : forall inp s v c,
  wf_input inp -> reachable inp s -> input_windows_ok inp ->
  (v < nveh inp)%nat -> In c (tl (get_route s v)) ->
  let ws := stop_windows inp (c_stop c) in
  ws <> [] ->
  has_latest_start inp = true /\
  (in_some_window ws (c_start c) \/ c_start c = last_max ws).
Proof.
  intros inp s v c Hwf Hr Hw Hv Hin. cbv zeta. intros Hne.
  pose proof (reachable_invT inp s Hwf Hr) as HI.
  pose proof (has_latest_start_of_windows inp (c_stop c) Hne) as Hh.
  split; [exact Hh|].
  pose proof (cell_start_eq inp s v c HI Hv Hin) as Hst.
  destruct (to_earliest_start_spec _ (c_arrival c) (stop_windows_ok inp (c_stop c) Hw) Hne)
    as (_ & _ & _ & _ & [S|S]); rewrite <- Hst in S; [left; exact S|right].
  pose proof (route_cell_ok inp s v c HI Hv Hin) as Hok.
  assert (Hl : latest_start inp (c_stop c) = Some (last_max (stop_windows inp (c_stop c)))).
  { unfold latest_start. destruct (stop_windows inp (c_stop c)); [congruence|reflexivity]. }
  pose proof (sv_latest_start inp v c Hok _ Hh Hl). lia.
Qed.

(* the last cell of a route *)
Lemma last_map {A B} (f : A -> B) (l : list A) (d : A) : last (map f l) (f d) = f (last l d).
Proof.
  induction l as [|a l IH]; [reflexivity|]. destruct l as [|b l]; [reflexivity|].
  change (last (map f (a :: b :: l)) (f d)) with (last (map f (b :: l)) (f d)).
  rewrite IH. reflexivity.
Qed.

Lemma last_cell_props (inp : input) (s : state) (v : nat) :
  InvT inp s -> (v < nveh inp)%nat ->
  In (last_cell (get_route s v)) (tl (get_route s v)) /\
  c_stop (last_cell (get_route s v)) = last_stop inp v.
Proof.
  intros HI Hv. destruct (route_first_cell inp s v HI Hv) as (cs & E & Hne).
  destruct (route_has_shape inp s v HI Hv) as (mid & Hst & _). split.
  - rewrite E. cbn [tl]. unfold last_cell. rewrite last_cons_default.
    apply last_In. exact Hne.
  - unfold last_cell.
    set (d := mkCell 0 0 0 0 0 0 [] 0 0 0).
    transitivity (last (route_stops (get_route s v)) (c_stop d)).
    + unfold route_stops. symmetry. apply last_map.
    + rewrite Hst. rewrite last_cons_default. apply last_last.
Qed.

Lemma is_last_stop_last (inp : input) (v : nat) : is_last_stop inp (last_stop inp v) = true.
Proof.
  unfold is_last_stop, is_input_stop, last_stop.
  rewrite (proj2 (Nat.ltb_ge _ _)) by lia. cbn [negb andb].
  replace (nstops inp + 2 * v + 1 - nstops inp)%nat with (S (2 * v)) by lia.
  rewrite Nat.odd_succ. apply Nat.even_spec. exists v. reflexivity.
Qed.

Lemma is_last_stop_input (inp : input) (x : nat) :
  (x < nstops inp)%nat -> is_last_stop inp x = false.
Proof.
  intros Hx. unfold is_last_stop, is_input_stop. rewrite (proj2 (Nat.ltb_lt _ _) Hx). reflexivity.
Qed.

Theorem C02_shift_end_proof : forall inp s v,
  wf_input inp -> reachable inp s -> (v < nveh inp)%nat ->
  let c := last_cell (get_route s v) in
  let veh := get_vehicle inp v in
  c_stop c = last_stop inp v /\
  (o_dis_end_time (in_opts inp) = false -> forall e, iv_end_time veh = Some e -> c_end c <= e) /\
  (o_dis_max_duration (in_opts inp) = false -> forall d, iv_max_duration veh = Some d ->
     c_end c <= (if o_dis_start_time (in_opts inp) then 0 else iv_start_time veh) + d).
Proof.
  intros inp s v Hwf Hr Hv. cbv zeta.
  pose proof (reachable_invT inp s Hwf Hr) as HI.
  destruct (last_cell_props inp s v HI Hv) as (Hin & Hstop).
  pose proof (route_cell_ok inp s v _ HI Hv Hin) as Hok.
  assert (Hlast : is_last_stop inp (c_stop (last_cell (get_route s v))) = true)
    by (rewrite Hstop; apply is_last_stop_last).
  split; [exact Hstop|]. split.
  - intros Hdis e He.
    assert (Hh : has_latest_end inp = true).
    { unfold has_latest_end. rewrite Hdis, (any_vehicle_intro iv_end_time inp v e Hv He). reflexivity. }
    assert (Hl : exists l, latest_end inp v = Some l /\ l <= e).
    { unfold latest_end. cbv zeta. rewrite Hdis, He.
      destruct (if o_dis_max_duration (in_opts inp) then None else _) as [b|];
        eexists; (split; [reflexivity|lia]). }
    destruct Hl as (l & Hl & Hle).
    pose proof (sv_latest_end inp v _ Hok l Hh Hlast Hl). lia.
  - intros Hdis d Hd.
    assert (Hh : has_latest_end inp = true).
    { unfold has_latest_end. rewrite Hdis, (any_vehicle_intro iv_max_duration inp v d Hv Hd).
      cbn [negb andb]. apply orb_true_r. }
    assert (Hl : exists l, latest_end inp v = Some l /\
               l <= (if o_dis_start_time (in_opts inp) then 0
                     else iv_start_time (get_vehicle inp v)) + d).
    { unfold latest_end. cbv zeta. rewrite Hdis, Hd.
      destruct (if o_dis_end_time (in_opts inp) then None else _) as [a|];
        eexists; (split; [reflexivity|lia]). }
    destruct Hl as (l & Hl & Hle).
    pose proof (sv_latest_end inp v _ Hok l Hh Hlast Hl). lia.
Qed.

Theorem C02_max_wait_stop_proof : forall inp s v c w,
  wf_input inp -> reachable inp s -> (v < nveh inp)%nat -> In c (tl (get_route s v)) ->
  o_dis_max_wait_stop (in_opts inp) = false ->
  (c_stop c < nstops inp)%nat -> is_max_wait (get_stop inp (c_stop c)) = Some w ->
  c_start c - c_arrival c <= w.
Proof.
  intros inp s v c w Hwf Hr Hv Hin Hdis Hx Hw.
  pose proof (reachable_invT inp s Hwf Hr) as HI.
  pose proof (route_cell_ok inp s v c HI Hv Hin) as Hok.
  apply (sv_max_wait_stop inp v c Hok w).
  - unfold has_max_wait_stop. rewrite Hdis, (any_stop_intro is_max_wait inp _ w Hx Hw). reflexivity.
  - unfold is_input_stop. apply Nat.ltb_lt. exact Hx.
  - exact Hw.
Qed.

Lemma cells_from_app (inp : input) (v : nat) :
  forall (a b : list nat) (p : cell),
    cells_from inp v p (a ++ b)
    = cells_from inp v p a ++ cells_from inp v (last (cells_from inp v p a) p) b.
Proof.
  induction a as [|x a IH]; intros b p; [reflexivity|].
  cbn [app cells_from]. rewrite last_cons_default, IH. reflexivity.
Qed.

Lemma sumZ_app (a b : list Z) : sumZ (a ++ b) = sumZ a + sumZ b.
Proof. unfold sumZ. induction a as [|x a IH]; cbn [app fold_right]; lia. Qed.

Theorem C02_max_wait_vehicle_proof : forall inp s v w,
  wf_input inp -> reachable inp s -> (v < nveh inp)%nat ->
  o_dis_max_wait_vehicle (in_opts inp) = false -> iv_max_wait (get_vehicle inp v) = Some w ->
  (forall c, In c (tl (get_route s v)) -> c_wait_acc c <= w) /\
  c_wait_acc (last_cell (get_route s v))
  = sumZ (map (fun c => c_start c - c_arrival c) (removelast (tl (get_route s v)))) /\
  sumZ (map (fun c => c_start c - c_arrival c) (removelast (tl (get_route s v)))) <= w.
Proof.
  intros inp s v w Hwf Hr Hv Hdis Hw.
  pose proof (reachable_invT inp s Hwf Hr) as HI.
  assert (Hh : has_max_wait_vehicle inp = true).
  { unfold has_max_wait_vehicle. rewrite Hdis, (any_vehicle_intro iv_max_wait inp v w Hv Hw). reflexivity. }
  assert (Hall : forall c, In c (tl (get_route s v)) -> c_wait_acc c <= w).
  { intros c Hin. exact (sv_max_wait_vehicle inp v c (route_cell_ok inp s v c HI Hv Hin) w Hh Hw). }
  assert (Hsum : c_wait_acc (last_cell (get_route s v))
    = sumZ (map (fun c => c_start c - c_arrival c) (removelast (tl (get_route s v))))).
  { pose proof (route_is_from_scratch inp s v HI Hv) as Hfs.
    destruct (route_has_shape inp s v HI Hv) as (mid & Hst & Hmid).
    rewrite Hst in Hfs. cbn [from_scratch] in Hfs. rewrite Hfs. cbn [tl].
    unfold last_cell. rewrite last_cons_default.
    pose proof (last_cells_from inp v (mid ++ [last_stop inp v]) (first_cell inp v)) as H.
    cbv zeta in H. destruct H as (_ & _ & _ & _ & _ & H6). rewrite H6.
    rewrite cells_from_app. cbn [cells_from]. rewrite removelast_snoc.
    rewrite map_app, sumZ_app. cbn [map sumZ fold_right].
    unfold cell_wait at 2. rewrite nc_stop, is_last_stop_last.
    unfold first_cell at 1. cbn [c_wait_acc].
    rewrite (map_ext_in (cell_wait inp) (fun c => c_start c - c_arrival c)); [lia|].
    intros c Hc. unfold cell_wait. rewrite is_last_stop_input; [reflexivity|].
    rewrite Forall_forall in Hmid. apply Hmid.
    rewrite <- (route_stops_cells_from inp v mid (first_cell inp v)).
    unfold route_stops. apply in_map. exact Hc. }
  split; [exact Hall|]. split; [exact Hsum|]. rewrite <- Hsum. apply Hall.
  exact (proj1 (last_cell_props inp s v HI Hv)).
Qed.

(* ================================================================== *)
(* Non-vacuity: the hypotheses hold on a non-trivial input             *)
(* ================================================================== *)

(* 3 stops, 2 resources, 2 vehicles with capacity, start level, start time,
   end time, max duration, max distance and max wait; stop 0 has two windows
   (after the epoch) and a max wait; units {0,1} and {2}; every constraint and
   the activation, travel, vehicles-duration and unplanned terms installed *)
Definition ex2_opts : options :=
  mkOptions false false false false false false false false false false false 1 1 1 1 false 0 0 0 0 false [].
Definition ex2_mat : list (list Z) :=
  map (fun i => map (fun j => if Nat.eqb i j then 0 else 60) (seqn 7)) (seqn 7).
Definition ex2_vehicle : ivehicle :=
  mkIVehicle (Some [2; 3]) [0; 0] 3000 (Some 20000) (Some 15000) None (Some 1000) (Some 5000)
             [] 10 true true 0 0 1 1.
Definition ex2_inp : input :=
  mkInput [] [mkIStop [-1; 0] 10 [(3600, 7200); (10800, 14400)] (Some 4000) 100 [] None 0 0;
           mkIStop [0; -2] 10 [] None 100 [] None 0 0;
           mkIStop [-1; -1] 10 [] None 100 [] None 0 0]
          [ex2_vehicle; ex2_vehicle]
          [mkIUnit [0; 1]%nat []; mkIUnit [2%nat] []]
          ex2_mat ex2_mat 2 ex2_opts [].
Definition ex2_s0 : state :=
  Eval vm_compute in match new_solution ex2_inp with Some s => s | None => ex_dummy end.
Definition ex2_mv1 : move := mkMove 0 0 [(0, 1); (1, 1)]%nat.
Definition ex2_mv2 : move := mkMove 1 0 [(2, 3)]%nat.
Definition ex2_s1 : state := Eval vm_compute in fst (exec_move ex2_inp ex2_s0 ex2_mv1).
Definition ex2_s2 : state := Eval vm_compute in fst (exec_move ex2_inp ex2_s1 ex2_mv2).
Definition ex2_h : list op := [OpPlan ex2_mv1; OpPlan ex2_mv2; OpUnplan 0].

Example ex2_wf : wf_input ex2_inp.
Proof.
  split; [|split; [|split; [|split; [exact (Forall_nil _)|mult_wf]]]].
  - vm_compute. repeat (constructor; [simpl; lia|]). constructor.
  - intros x. vm_compute. lia.
  - intros u Hu. vm_compute in Hu. destruct Hu as [<-|[<-|[]]]; discriminate.
Qed.

Example ex2_new : new_solution ex2_inp = Some ex2_s0.
Proof. vm_compute. reflexivity. Qed.

Example ex2_move1_done : exec_move ex2_inp ex2_s0 ex2_mv1 = (ex2_s1, Done).
Proof. vm_compute. reflexivity. Qed.

Example ex2_move2_done : exec_move ex2_inp ex2_s1 ex2_mv2 = (ex2_s2, Done).
Proof. vm_compute. reflexivity. Qed.

Example ex2_move1_ok : move_ok ex2_inp ex2_s0 ex2_mv1.
Proof.
  unfold move_ok. vm_compute.
  split; [lia|]. split; [lia|]. split; [apply Permutation_refl|]. split; [discriminate|].
  split; repeat constructor.
Qed.

Example ex2_move2_ok : move_ok ex2_inp ex2_s1 ex2_mv2.
Proof.
  unfold move_ok. vm_compute.
  split; [lia|]. split; [lia|]. split; [apply Permutation_refl|]. split; [discriminate|].
  split; repeat constructor.
Qed.

Example ex2_fresh : fresh ex2_inp ex2_s0 ex2_h.
Proof.
  unfold ex2_h. cbn [fresh op_ok step]. rewrite ex2_move1_done. cbn [fst].
  split; [exact ex2_move1_ok|]. split; [exact ex2_move2_ok|]. split; [vm_compute; lia|exact I].
Qed.

Example ex2_reachable_s2 : reachable ex2_inp ex2_s2.
Proof.
  exists ex2_s0, ex2_h. split; [exact ex2_new|]. split; [exact ex2_fresh|].
  unfold ex2_h. cbn [run step]. rewrite ex2_move1_done. cbn [fst]. rewrite ex2_move2_done. cbn [fst].
  right. right. left. reflexivity.
Qed.

Example ex2_windows_ok : input_windows_ok ex2_inp.
Proof.
  unfold input_windows_ok, ex2_inp. cbn [in_stops].
  constructor; [|constructor; [exact windows_ok_nil|constructor; [exact windows_ok_nil|constructor]]].
  cbn [is_windows]. split.
  - constructor; [cbn; repeat split; lia|]. constructor; [cbn; repeat split; lia|constructor].
  - constructor; [constructor; [constructor|constructor]|].
    constructor; [cbn; lia|constructor].
Qed.

(* every constraint whose meaning is stated in C01 / C02 is installed *)
Example ex2_constraints_installed :
  has_capacity ex2_inp = true /\ has_distance_limit ex2_inp = true /\
  has_latest_start ex2_inp = true /\ has_latest_end ex2_inp = true /\
  has_max_wait_stop ex2_inp = true /\ has_max_wait_vehicle ex2_inp = true.
Proof. vm_compute. repeat split. Qed.

(* the planned route of vehicle 0 is first, 0, 1, 2, last; the vehicle waits at
   stop 0 for its first window to open (arrival 3060, start 3600) *)
Example ex2_route : route_stops (get_route ex2_s2 0) = [3; 0; 1; 2; 4]%nat.
Proof. vm_compute. reflexivity. Qed.

Example ex2_waits :
  exists c, In c (tl (get_route ex2_s2 0)) /\ c_stop c = 0%nat /\
            c_arrival c = 3060 /\ c_start c = 3600.
Proof. eexists. split; [left; reflexivity|]. vm_compute. repeat split. Qed.

(* the specification theorems instantiated on this run *)
Example ex2_capacity_prefix :
  forall k r, (1 <= k < 5)%nat -> (r < 2)%nat ->
    0 <= start_level ex2_inp 0 r
         - quantity_sum ex2_inp r (firstn k (tl (route_stops (get_route ex2_s2 0))))
      <= capacity ex2_inp 0 r.
Proof.
  intros k r Hk Hr.
  apply (C01_capacity_every_prefix_proof ex2_inp ex2_s2 0 k r ex2_wf ex2_reachable_s2).
  - vm_compute. lia.
  - exact Hk.
  - vm_compute. reflexivity.
  - exact Hr.
Qed.

(* the bound is attained: both resources are full after the third stop *)
Example ex2_capacity_tight :
  map (fun r => start_level ex2_inp 0 r
                - quantity_sum ex2_inp r (firstn 3 (tl (route_stops (get_route ex2_s2 0)))))
      [0; 1]%nat = [2; 3] /\
  map (capacity ex2_inp 0) [0; 1]%nat = [2; 3].
Proof. vm_compute. split; reflexivity. Qed.

(* window lookup on concrete values: inside, in the gap, before, after *)
Example ex2_lookup :
  let ws := [(3600, 7200); (10800, 14400)] in
  to_earliest_start ws 3660 = 3660 /\ to_earliest_start ws 7200 = 10800 /\
  to_earliest_start ws 8000 = 10800 /\ to_earliest_start ws 100 = 3600 /\
  to_earliest_start ws (-5) = 3600 /\ to_earliest_start ws 14400 = 14400 /\
  to_earliest_start ws 20000 = 20000.
Proof. vm_compute. repeat split. Qed.

(* [reachable] unfolded, for readers of the Props files *)
Lemma reachable_unfold_proof : forall inp s,
  reachable inp s <->
  exists s0 h, new_solution inp = Some s0 /\ fresh inp s0 h /\ In s (run inp s0 h).
Proof. intros inp s. reflexivity. Qed.

(* the third branch of toSlotInfo does fire for small minute indices (i + 1 <
   number of windows) and then agrees with what the second branch returns one
   iteration later when the guard is false *)
Example third_branch_fires :
  let ws := [(60, 120); (180, 240); (300, 360); (420, 480)] in
  slot_scan 120 2 4 None ws = (false, 180) /\ slot_scan 120 2 3 None ws = (false, 180).
Proof. vm_compute. split; reflexivity. Qed.

(* C02 on the run: every cell of vehicle 0 whose stop has windows starts in a
   window or at the last close (ex2_waits exhibits such a cell) *)
Example ex2_start_in_window_applies : forall c,
  In c (tl (get_route ex2_s2 0)) -> stop_windows ex2_inp (c_stop c) <> [] ->
  in_some_window (stop_windows ex2_inp (c_stop c)) (c_start c) \/
  c_start c = last_max (stop_windows ex2_inp (c_stop c)).
Proof.
  intros c Hin Hne.
  assert (Hv : (0 < nveh ex2_inp)%nat) by (vm_compute; lia).
  exact (proj2 (C02_start_in_window_proof ex2_inp ex2_s2 0 c ex2_wf ex2_reachable_s2
                  ex2_windows_ok Hv Hin Hne)).
Qed.

Example ex2_shift_end_applies : c_end (last_cell (get_route ex2_s2 0)) <= 3000 + 15000.
Proof.
  assert (Hv : (0 < nveh ex2_inp)%nat) by (vm_compute; lia).
  destruct (C02_shift_end_proof ex2_inp ex2_s2 0 ex2_wf ex2_reachable_s2 Hv) as (_ & _ & H).
  exact (H eq_refl 15000 eq_refl).
Qed.

(* ================================================================== *)
(* Duration groups: a concrete route                                   *)
(* ================================================================== *)

(* Stops 0, 1, 2, 3 with own durations 10, 20, 5, 30; stops 0, 1 and 3 form a
   duration group of 300 s, stop 2 is in no group.  One vehicle (first stop 4,
   last stop 5), start time 0, 60 s between any two different stops.  One unit
   holds the four stops; one move plans them in the order 0 1 2 3.
     stop 0 comes from the vehicle's first stop:   10 + 300
     stop 1 comes from stop 0, of its group:       20         (the group is paid once)
     stop 2 is in no group:                        5
     stop 3 comes from stop 2, outside its group:  30 + 300   (paid again)
     the last stop is in no group:                 0 *)
Definition dgx_mat : list (list Z) :=
  map (fun i => map (fun j => if Nat.eqb i j then 0 else 60) (seqn 6)) (seqn 6).
Definition dgx_stops : list istop :=
  [mkIStop [] 10 [] None 100 [] None 0 0; mkIStop [] 20 [] None 100 [] None 0 0;
   mkIStop [] 5 [] None 100 [] None 0 0; mkIStop [] 30 [] None 100 [] None 0 0].
Definition dgx_inp : input :=
  mkInput [] dgx_stops [mkIVehicle None [] 0 None None None None None [] 0 true true 0 0 1 1]
          [mkIUnit [0; 1; 2; 3]%nat []] dgx_mat dgx_mat 0 ex_opts [([0; 1; 3]%nat, 300)].
Definition dgx_s0 : state :=
  Eval vm_compute in match new_solution dgx_inp with Some s => s | None => ex_dummy end.
Definition dgx_mv : move := mkMove 0 0 [(0, 1); (1, 1); (2, 1); (3, 1)]%nat.
Definition dgx_s1 : state := Eval vm_compute in fst (exec_move dgx_inp dgx_s0 dgx_mv).
(* the same input with the duration groups disabled *)
Definition dgx_off_inp : input :=
  mkInput [] dgx_stops [mkIVehicle None [] 0 None None None None None [] 0 true true 0 0 1 1]
          [mkIUnit [0; 1; 2; 3]%nat []] dgx_mat dgx_mat 0
          (mkOptions false false false false false false false false false false false 0 1 0 1 true 0 0 0 0 false [])
          [([0; 1; 3]%nat, 300)].

Example dgx_wf : wf_input dgx_inp.
Proof.
  split; [|split; [|split]].
  - vm_compute. repeat (constructor; [simpl; lia|]). constructor.
  - intros x. vm_compute. lia.
  - intros u Hu. vm_compute in Hu. destruct Hu as [<-|[]]; discriminate.
  - split; [vm_compute; repeat constructor|mult_wf].
Qed.

Example dgx_new : new_solution dgx_inp = Some dgx_s0.
Proof. vm_compute. reflexivity. Qed.

Example dgx_mv_ok : move_ok dgx_inp dgx_s0 dgx_mv.
Proof.
  unfold move_ok. vm_compute.
  split; [lia|]. split; [lia|]. split; [apply Permutation_refl|]. split; [discriminate|].
  split; repeat constructor.
Qed.

Example dgx_mv_done : exec_move dgx_inp dgx_s0 dgx_mv = (dgx_s1, Done).
Proof. vm_compute. reflexivity. Qed.

Example dgx_reachable : reachable dgx_inp dgx_s1.
Proof.
  exists dgx_s0, [OpPlan dgx_mv]. split; [exact dgx_new|]. split.
  - cbn [fresh op_ok]. split; [exact dgx_mv_ok|exact I].
  - cbn [run step]. rewrite dgx_mv_done. cbn [fst]. right. left. reflexivity.
Qed.

Example C04_duration_groups_example_proof :
  wf_input dgx_inp /\ reachable dgx_inp dgx_s1 /\
  in_dgroups dgx_inp = [([0; 1; 3]%nat, 300)] /\
  route_stops (get_route dgx_s1 0) = [4; 0; 1; 2; 3; 5]%nat /\
  (* time spent at each stop of the route *)
  map (fun c => c_end c - c_start c) (get_route dgx_s1 0) = [0; 10 + 300; 20; 5; 30 + 300; 0] /\
  stop_duration_on dgx_inp 0 4 0 = stop_duration dgx_inp 0 + 300 /\
  stop_duration_on dgx_inp 0 0 1 = stop_duration dgx_inp 1 /\
  stop_duration_on dgx_inp 0 1 2 = stop_duration dgx_inp 2 /\
  stop_duration_on dgx_inp 0 2 3 = stop_duration dgx_inp 3 + 300 /\
  map c_arrival (get_route dgx_s1 0) = [0; 60; 430; 510; 575; 965] /\
  map c_end (get_route dgx_s1 0) = [0; 370; 450; 515; 905; 965] /\
  (* duration groups disabled: own durations only *)
  map (fun c => c_end c - c_start c) (from_scratch dgx_off_inp 0 [4; 0; 1; 2; 3; 5]%nat)
  = [0; 10; 20; 5; 30; 0].
Proof.
  split; [exact dgx_wf|]. split; [exact dgx_reachable|].
  repeat split; vm_compute; reflexivity.
Qed.

(* ---- stop duration multipliers ------------------------------------ *)

(* Stops 0 and 1: stop 0 has own duration 7 and is the only member of a
   duration group of 5 s; stop 1 has own duration 4 and is in no group.  One
   vehicle (first stop 2, last stop 3) with stop duration multiplier 3/2, start
   time 0, 60 s between any two different stops.  One move plans stop 0, which
   is reached from the vehicle's first stop (outside the group):
     own part    floor (7 * 3 / 2) = 10
     group part  floor (5 * 3 / 2) = 7       separately truncated: 17,
   not floor ((7 + 5) * 3 / 2) = 18.  With the multipliers disabled: 7 + 5 = 12. *)
Definition mx_mat : list (list Z) :=
  map (fun i => map (fun j => if Nat.eqb i j then 0 else 60) (seqn 4)) (seqn 4).
Definition mx_stops : list istop :=
  [mkIStop [] 7 [] None 100 [] None 0 0; mkIStop [] 4 [] None 100 [] None 0 0].
Definition mx_veh : ivehicle :=
  mkIVehicle None [] 0 None None None None None [] 0 true true 0 0 3 2.
Definition mx_inp : input :=
  mkInput [] mx_stops [mx_veh] [mkIUnit [0%nat] []; mkIUnit [1%nat] []] mx_mat mx_mat 0 ex_opts
          [([0%nat], 5)].
Definition mx_s0 : state :=
  Eval vm_compute in match new_solution mx_inp with Some s => s | None => ex_dummy end.
Definition mx_mv : move := mkMove 0 0 [(0, 1)]%nat.
Definition mx_s1 : state := Eval vm_compute in fst (exec_move mx_inp mx_s0 mx_mv).
(* the same input with the stop duration multipliers disabled *)
Definition mx_off_inp : input :=
  mkInput [] mx_stops [mx_veh] [mkIUnit [0%nat] []; mkIUnit [1%nat] []] mx_mat mx_mat 0
          (mkOptions false false false false false false false false false false false 0 1 0 1 false 0 0 0 0 true [])
          [([0%nat], 5)].
Definition mx_off_s0 : state :=
  Eval vm_compute in match new_solution mx_off_inp with Some s => s | None => ex_dummy end.
Definition mx_off_s1 : state := Eval vm_compute in fst (exec_move mx_off_inp mx_off_s0 mx_mv).

Example mx_wf : wf_input mx_inp.
Proof.
  split; [|split; [|split]].
  - vm_compute. repeat (constructor; [simpl; lia|]). constructor.
  - intros x. vm_compute. lia.
  - intros u Hu. vm_compute in Hu. destruct Hu as [<-|[<-|[]]]; discriminate.
  - split; [vm_compute; repeat constructor|mult_wf].
Qed.

Example mx_off_wf : wf_input mx_off_inp.
Proof.
  split; [|split; [|split]].
  - vm_compute. repeat (constructor; [simpl; lia|]). constructor.
  - intros x. vm_compute. lia.
  - intros u Hu. vm_compute in Hu. destruct Hu as [<-|[<-|[]]]; discriminate.
  - split; [vm_compute; repeat constructor|mult_wf].
Qed.

Example mx_reachable : reachable mx_inp mx_s1.
Proof.
  exists mx_s0, [OpPlan mx_mv]. split; [vm_compute; reflexivity|]. split.
  - cbn [fresh op_ok]. split; [|exact I]. unfold move_ok. vm_compute.
    split; [lia|]. split; [lia|]. split; [apply Permutation_refl|]. split; [discriminate|].
    split; repeat constructor.
  - cbn [run step].
    replace (exec_move mx_inp mx_s0 mx_mv) with (mx_s1, Done) by (vm_compute; reflexivity).
    cbn [fst]. right. left. reflexivity.
Qed.

Example mx_off_reachable : reachable mx_off_inp mx_off_s1.
Proof.
  exists mx_off_s0, [OpPlan mx_mv]. split; [vm_compute; reflexivity|]. split.
  - cbn [fresh op_ok]. split; [|exact I]. unfold move_ok. vm_compute.
    split; [lia|]. split; [lia|]. split; [apply Permutation_refl|]. split; [discriminate|].
    split; repeat constructor.
  - cbn [run step].
    replace (exec_move mx_off_inp mx_off_s0 mx_mv) with (mx_off_s1, Done) by (vm_compute; reflexivity).
    cbn [fst]. right. left. reflexivity.
Qed.

Example C04_multiplier_example_proof :
  wf_input mx_inp /\ reachable mx_inp mx_s1 /\
  (iv_mult_num (get_vehicle mx_inp 0), iv_mult_den (get_vehicle mx_inp 0)) = (3, 2) /\
  stop_duration mx_inp 0 = 7 /\ in_dgroups mx_inp = [([0%nat], 5)] /\
  route_stops (get_route mx_s1 0) = [2; 0; 3]%nat /\
  (* time spent at each stop of the route: 7 and 5 are scaled separately *)
  map (fun c => c_end c - c_start c) (get_route mx_s1 0) = [0; 17; 0] /\
  stop_duration_on mx_inp 0 2 0 = 10 + 7 /\
  scale_duration mx_inp 0 7 = 10 /\ scale_duration mx_inp 0 5 = 7 /\
  scale_duration mx_inp 0 (7 + 5) = 18 /\
  stop_duration_at mx_inp 2 0 = 12 /\
  map c_arrival (get_route mx_s1 0) = [0; 60; 137] /\
  map c_end (get_route mx_s1 0) = [0; 77; 137] /\
  (* stop duration multipliers disabled: the unscaled time *)
  wf_input mx_off_inp /\ reachable mx_off_inp mx_off_s1 /\
  o_dis_multipliers (in_opts mx_off_inp) = true /\
  route_stops (get_route mx_off_s1 0) = [2; 0; 3]%nat /\
  map (fun c => c_end c - c_start c) (get_route mx_off_s1 0) = [0; 12; 0] /\
  stop_duration_on mx_off_inp 0 2 0 = 12.
Proof.
  split; [exact mx_wf|]. split; [exact mx_reachable|].
  do 12 (split; [vm_compute; reflexivity|]).
  split; [exact mx_off_wf|]. split; [exact mx_off_reachable|].
  repeat split; vm_compute; reflexivity.
Qed.

(* ================================================================== *)
(* C05: the early / late arrival, min stops and stop balance terms     *)
(* ================================================================== *)

(* Stops 0 and 1, own duration 10 each.  Stop 0: target arrival 500, early
   penalty 2, late penalty 3; stop 1: target arrival 100, the same penalties.
   Two vehicles (first / last stops 2 / 3 and 4 / 5), start time 0, activation
   penalty 1000, min_stops 3 with penalty 10; 60 s between any two different
   stops.  Factors: activation 1, travel 1, vehicles duration 1, unplanned 1,
   early 2, late 3, min stops 5, stop balance 7.  Two moves plan stop 0 and
   then stop 1 behind it on vehicle 0; vehicle 1 stays empty.
     arrivals on vehicle 0: 0, 60, 130, 200
     stop 0 is 440 s early: 2 * 440 = 880;  stop 1 is 30 s late: 3 * 30 = 90
     vehicle 0 has 2 stops of 3: 10 * 1 * 1; the empty vehicle 1 is free
     the largest vehicle has 2 stops *)
Definition mt_opts : options :=
  mkOptions false false false false false false false false false false false 1 1 1 1 false 2 3 5 7 false [].
Definition mt_mat : list (list Z) :=
  map (fun i => map (fun j => if Nat.eqb i j then 0 else 60) (seqn 6)) (seqn 6).
Definition mt_vehicle : ivehicle :=
  mkIVehicle None [] 0 None None None None None [] 1000 true true 3 10 1 1.
Definition mt_inp : input :=
  mkInput [] [mkIStop [] 10 [] None 100 [] (Some 500) 2 3; mkIStop [] 10 [] None 100 [] (Some 100) 2 3]
          [mt_vehicle; mt_vehicle]
          [mkIUnit [0%nat] []; mkIUnit [1%nat] []] mt_mat mt_mat 0 mt_opts [].
Definition mt_s0 : state :=
  Eval vm_compute in match new_solution mt_inp with Some s => s | None => ex_dummy end.
Definition mt_mv1 : move := mkMove 0 0 [(0, 1)]%nat.
Definition mt_s1 : state := Eval vm_compute in fst (exec_move mt_inp mt_s0 mt_mv1).
Definition mt_mv2 : move := mkMove 1 0 [(1, 2)]%nat.
Definition mt_s2 : state := Eval vm_compute in fst (exec_move mt_inp mt_s1 mt_mv2).

Example mt_wf : wf_input mt_inp.
Proof.
  split; [|split; [|split]].
  - vm_compute. repeat (constructor; [simpl; lia|]). constructor.
  - intros x. vm_compute. lia.
  - intros u Hu. vm_compute in Hu. destruct Hu as [<-|[<-|[]]]; discriminate.
  - split; [vm_compute; repeat constructor|mult_wf].
Qed.

Example mt_new : new_solution mt_inp = Some mt_s0.
Proof. vm_compute. reflexivity. Qed.

Example mt_mv1_ok : move_ok mt_inp mt_s0 mt_mv1.
Proof.
  unfold move_ok. vm_compute.
  split; [lia|]. split; [lia|]. split; [apply Permutation_refl|]. split; [discriminate|].
  split; repeat constructor.
Qed.

Example mt_mv2_ok : move_ok mt_inp mt_s1 mt_mv2.
Proof.
  unfold move_ok. vm_compute.
  split; [lia|]. split; [lia|]. split; [apply Permutation_refl|]. split; [discriminate|].
  split; repeat constructor.
Qed.

Example mt_mv1_done : exec_move mt_inp mt_s0 mt_mv1 = (mt_s1, Done).
Proof. vm_compute. reflexivity. Qed.

Example mt_mv2_done : exec_move mt_inp mt_s1 mt_mv2 = (mt_s2, Done).
Proof. vm_compute. reflexivity. Qed.

Example mt_reachable : reachable mt_inp mt_s2.
Proof.
  exists mt_s0, [OpPlan mt_mv1; OpPlan mt_mv2]. split; [exact mt_new|]. split.
  - cbn [fresh op_ok]. split; [exact mt_mv1_ok|]. cbn [step]. rewrite mt_mv1_done. cbn [fst].
    split; [exact mt_mv2_ok|exact I].
  - cbn [run step]. rewrite mt_mv1_done. cbn [fst run step]. rewrite mt_mv2_done. cbn [fst].
    right. right. left. reflexivity.
Qed.

Example C05_more_terms_example_proof :
  wf_input mt_inp /\ reachable mt_inp mt_s2 /\
  map route_stops (st_routes mt_s2) = [[2; 0; 1; 3]; [4; 5]]%nat /\
  map c_arrival (get_route mt_s2 0) = [0; 60; 130; 200] /\
  stop_target mt_inp 0 = Some 500 /\ stop_target mt_inp 1 = Some 100 /\
  obj_early mt_inp mt_s2 = 2 * (500 - 60) /\
  obj_late mt_inp mt_s2 = 3 * (130 - 100) /\
  obj_min_stops mt_inp mt_s2 = 10 * (3 - 2) * (3 - 2) /\
  obj_stop_balance mt_inp mt_s2 = 2 /\
  (* activation, travel, vehicles duration, unplanned, early, late, min stops, stop balance *)
  score_terms mt_inp mt_s2 = [1000; 240; 260; 0; 1760; 270; 50; 14] /\
  st_scores mt_s2 = [1000; 240; 260; 0; 1760; 270; 50; 14] /\
  st_total mt_s2 = 3594.
Proof.
  split; [exact mt_wf|]. split; [exact mt_reachable|].
  repeat split; vm_compute; reflexivity.
Qed.

(* ------------------------------------------------------------------ *)
(* Capacity excess as an objective (the constraint switched off)        *)
(* ------------------------------------------------------------------ *)

(* One resource.  Stop 0 picks up 3, stop 1 drops 1; one vehicle of capacity 1
   starting empty; the capacity constraint is switched off and the excess is
   penalised with factor 10 and offset 5.  Route start, 0, 1, end:
     levels 0, 3, 2, 2  -  excess 0 + 2 + 1 + 1 = 4 (the level the vehicle
     ARRIVES with at its last stop counts), + offset 5 = 9, times 10 = 90.
   Without a drop-off anywhere the excess would be taken at the last stop only. *)
Definition co_opts : options :=
  mkOptions true false false false false false false false false false false 0 1 0 1 false 0 0 0 0 false [(0%nat, (10, 5))].
Definition co_vehicle : ivehicle :=
  mkIVehicle (Some [1]) [0] 0 None None None None None [] 0 true true 0 0 1 1.
Definition co_inp : input :=
  mkInput [] [mkIStop [-3] 10 [] None 100 [] None 0 0; mkIStop [1] 10 [] None 100 [] None 0 0]
          [co_vehicle]
          [mkIUnit [0%nat] []; mkIUnit [1%nat] []]
          (map (fun i => map (fun j => if Nat.eqb i j then 0 else 60) (seqn 4)) (seqn 4))
          (map (fun i => map (fun j => if Nat.eqb i j then 0 else 60) (seqn 4)) (seqn 4)) 1 co_opts [].
Definition co_s0 : state :=
  Eval vm_compute in match new_solution co_inp with Some s => s | None => ex_dummy end.
Definition co_mv1 : move := mkMove 0 0 [(0, 1)]%nat.
Definition co_s1 : state := Eval vm_compute in fst (exec_move co_inp co_s0 co_mv1).
Definition co_mv2 : move := mkMove 1 0 [(1, 2)]%nat.
Definition co_s2 : state := Eval vm_compute in fst (exec_move co_inp co_s1 co_mv2).

Example co_wf : wf_input co_inp.
Proof.
  split; [|split; [|split]].
  - vm_compute. repeat (constructor; [simpl; lia|]). constructor.
  - intros x. vm_compute. lia.
  - intros u Hu. vm_compute in Hu. destruct Hu as [<-|[<-|[]]]; discriminate.
  - split; [vm_compute; repeat constructor|mult_wf].
Qed.

Example co_new : new_solution co_inp = Some co_s0.
Proof. vm_compute. reflexivity. Qed.

Example co_mv1_ok : move_ok co_inp co_s0 co_mv1.
Proof.
  unfold move_ok. vm_compute.
  split; [lia|]. split; [lia|]. split; [apply Permutation_refl|]. split; [discriminate|].
  split; repeat constructor.
Qed.

Example co_mv2_ok : move_ok co_inp co_s1 co_mv2.
Proof.
  unfold move_ok. vm_compute.
  split; [lia|]. split; [lia|]. split; [apply Permutation_refl|]. split; [discriminate|].
  split; repeat constructor.
Qed.

Example co_mv1_done : exec_move co_inp co_s0 co_mv1 = (co_s1, Done).
Proof. vm_compute. reflexivity. Qed.

Example co_mv2_done : exec_move co_inp co_s1 co_mv2 = (co_s2, Done).
Proof. vm_compute. reflexivity. Qed.

Example co_reachable : reachable co_inp co_s2.
Proof.
  exists co_s0, [OpPlan co_mv1; OpPlan co_mv2]. split; [exact co_new|]. split.
  - cbn [fresh op_ok]. split; [exact co_mv1_ok|]. cbn [step]. rewrite co_mv1_done. cbn [fst].
    split; [exact co_mv2_ok|exact I].
  - cbn [run step]. rewrite co_mv1_done. cbn [fst run step]. rewrite co_mv2_done. cbn [fst].
    right. right. left. reflexivity.
Qed.

Example C05_capacity_objective_example_proof :
  wf_input co_inp /\ reachable co_inp co_s2 /\
  map route_stops (st_routes co_s2) = [[2; 0; 1; 3]]%nat /\
  map (fun c => nthZ (c_levels c) 0) (get_route co_s2 0) = [0; 3; 2; 2] /\
  has_capacity co_inp = false /\ cap_has_neg co_inp 0 = true /\
  obj_capacity_excess co_inp co_s2 0 5 = (0 + 2 + 1 + 1) + 5 /\
  (* travel, unplanned, capacity excess *)
  score_terms co_inp co_s2 = [180; 0; 90] /\
  st_scores co_s2 = [180; 0; 90] /\ st_total co_s2 = 270 /\
  (* with only the pick-up planned nothing is ever below the level reached: still every stop counts here, because the
     INPUT has a drop-off; the state after the first move: levels 0, 3, 3 - excess 2 + 2 + offset *)
  obj_capacity_excess co_inp co_s1 0 5 = (0 + 2 + 2) + 5.
Proof.
  split; [exact co_wf|]. split; [exact co_reachable|].
  repeat split; vm_compute; reflexivity.
Qed.

(* ================================================================== *)
(* Assumptions                                                         *)
(* ================================================================== *)

Print Assumptions next_cell_fields.
Print Assumptions to_earliest_start_spec.
Print Assumptions to_earliest_start_spec0.
Print Assumptions slot_scan_third_branch_harmless.
Print Assumptions from_scratch_nth.
Print Assumptions stop_violation_none.
Print Assumptions ex2_capacity_prefix.
Print Assumptions third_branch_fires.
Print Assumptions C05_more_terms_example_proof.
Print Assumptions C05_capacity_objective_example_proof.
