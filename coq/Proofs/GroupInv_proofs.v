(* The POSITIVE counterpart of the defect witnesses of Proofs/Units_proofs.v:
   on inputs with stop groups and NO initial stops, the bookkeeping and the
   output are consistent on every state that is only manipulated through
   group-level operations that succeed.

   Part 0  the group vocabulary under [wf_ginput]
   Part 1  the invariant [GInv] (= [GInv_ns], "no scores", + [scores_fresh])
   Part 2  what one stops move / one un-plan does to collections, scores and
           to [unit_planned]
   Part 3  transfer lemmas (plan a top-level id / un-plan it / nothing changed)
   Part 4  the start solution, the non-member operations
   Part 5  the units move (Done and not Done), the group un-plan
   Part 6  histories
   Part 7  the output
   Part 8  non-vacuity

   The statements are repeated in Props/GroupInv.v. *)

From Coq Require Import List ZArith Bool Arith Lia Permutation Sorted.
From NR Require Import Model.Engine Model.Estimates Model.Format Model.Units
                       Proofs.Engine_lists Proofs.Engine_inv Proofs.Engine_spec
                       Proofs.C20_proofs Proofs.Units_proofs.
Import ListNotations.
Local Open Scope nat_scope.

Local Opaque next_cell stop_violation temporal_values score_terms first_cell propagate.

(* ================================================================== *)
(* Part 0.  The group vocabulary                                       *)
(* ================================================================== *)

(* groups are non-empty, pairwise disjoint lists of distinct unit indices *)
Definition wf_ginput (gi : ginput) : Prop :=
  Forall (fun g => g <> []) (gi_groups gi) /\
  NoDup (concat (gi_groups gi)) /\
  Forall (fun u => u < nunits_of gi) (concat (gi_groups gi)).

(* the ids that may appear in the collections *)
Definition is_top (gi : ginput) (id : nat) : Prop :=
  (id < nunits_of gi /\ member_group gi id = None) \/
  (exists g, id = nunits_of gi + g /\ g < length (gi_groups gi)).

Lemma find_index_some {A} (f : A -> bool) (d : A) :
  forall (l : list A) (i k : nat),
    find_index f l i = Some k ->
    exists j, k = i + j /\ j < length l /\ f (nth j l d) = true /\
              forall j', j' < j -> f (nth j' l d) = false.
Proof.
  induction l as [|x l IH]; intros i k H; cbn [find_index] in H; [discriminate|].
  destruct (f x) eqn:E.
  - injection H as <-. exists 0. split; [lia|]. split; [cbn [length]; lia|].
    split; [exact E|]. intros j' Hj'. lia.
  - destruct (IH (S i) k H) as (j & Hk & Hj & Hf & Hbefore).
    exists (S j). split; [lia|]. split; [cbn [length]; lia|]. split; [exact Hf|].
    intros [|j'] Hj'; [exact E|]. cbn [nth]. apply Hbefore. lia.
Qed.

Lemma find_index_none {A} (f : A -> bool) :
  forall (l : list A) (i : nat), find_index f l i = None -> forall x, In x l -> f x = false.
Proof.
  induction l as [|x l IH]; intros i H y Hy; [destruct Hy|].
  cbn [find_index] in H. destruct (f x) eqn:E; [discriminate|].
  destruct Hy as [<-|Hy]; [exact E|]. exact (IH (S i) H y Hy).
Qed.

Lemma find_index_not_none {A} (f : A -> bool) :
  forall (l : list A) (i : nat) (x : A), In x l -> f x = true -> find_index f l i <> None.
Proof.
  intros l i x Hx Hf H. rewrite (find_index_none f l i H x Hx) in Hf. discriminate.
Qed.

Lemma flat_map_flat_map {A B C} (f : B -> list C) (g : A -> list B) (l : list A) :
  flat_map f (flat_map g l) = flat_map (fun a => flat_map f (g a)) l.
Proof.
  induction l as [|a l IH]; [reflexivity|]. cbn [flat_map]. rewrite flat_map_app, IH. reflexivity.
Qed.

Section Groups.
  Variable gi : ginput.
  Hypothesis Hwg : wf_ginput gi.

  Local Notation inp := (gi_inp gi).
  Local Notation nu := (nunits_of gi).

  Lemma groups_disjoint (g g' u : nat) :
    g < length (gi_groups gi) -> g' < length (gi_groups gi) ->
    In u (nth g (gi_groups gi) []) -> In u (nth g' (gi_groups gi) []) -> g = g'.
  Proof.
    intros Hg Hg' Hu Hu'. destruct (Nat.eq_dec g g') as [E|Hne]; [exact E|exfalso].
    destruct Hwg as (_ & Hnd & _).
    apply (NoDup_concat_nth (fun l : list nat => l) [] (gi_groups gi) g g' u); try assumption.
    rewrite map_id. exact Hnd.
  Qed.

  Lemma member_group_some (u g : nat) :
    member_group gi u = Some g -> g < length (gi_groups gi) /\ In u (nth g (gi_groups gi) []).
  Proof.
    unfold member_group. intros H.
    destruct (find_index_some _ [] _ _ _ H) as (j & -> & Hj & Hf & _).
    cbn [Nat.add]. split; [exact Hj|]. apply mem_nat_In. exact Hf.
  Qed.

  Lemma member_group_in (u g : nat) :
    g < length (gi_groups gi) -> In u (nth g (gi_groups gi) []) -> member_group gi u = Some g.
  Proof.
    intros Hg Hu. destruct (member_group gi u) as [g'|] eqn:E.
    - destruct (member_group_some u g' E) as (Hg' & Hu').
      rewrite (groups_disjoint g g' u Hg Hg' Hu Hu'). reflexivity.
    - exfalso. unfold member_group in E.
      apply (find_index_not_none _ _ 0 (nth g (gi_groups gi) []) (nth_In _ _ Hg)
               (proj2 (mem_nat_In u _) Hu) E).
  Qed.

  Lemma member_lt (u g : nat) :
    g < length (gi_groups gi) -> In u (nth g (gi_groups gi) []) -> u < nu.
  Proof.
    intros Hg Hu. destruct Hwg as (_ & _ & Hlt). rewrite Forall_forall in Hlt.
    apply Hlt. apply in_concat. exists (nth g (gi_groups gi) []). split; [apply nth_In; exact Hg|exact Hu].
  Qed.

  Lemma members_of_group (g : nat) : members_of gi (nu + g) = nth g (gi_groups gi) [].
  Proof.
    unfold members_of, is_group_id. fold nu.
    rewrite (proj2 (Nat.leb_le nu (nu + g))) by lia.
    replace (nu + g - nu) with g by lia. reflexivity.
  Qed.

  Lemma members_of_unit (u : nat) : u < nu -> members_of gi u = [u].
  Proof.
    intros Hu. unfold members_of, is_group_id. fold nu.
    rewrite (proj2 (Nat.leb_gt nu u)) by exact Hu. reflexivity.
  Qed.

  (* every member of a top-level id is a stops unit whose root is that id *)
  Lemma top_member (id m : nat) :
    is_top gi id -> In m (members_of gi id) -> m < nu /\ top_of gi m = id.
  Proof.
    intros [(Hlt & Hn)|(g & -> & Hg)] Hm.
    - fold nu in Hlt. rewrite (members_of_unit id Hlt) in Hm. destruct Hm as [<-|[]].
      split; [exact Hlt|]. unfold top_of. rewrite Hn. reflexivity.
    - fold nu in Hm. rewrite members_of_group in Hm. split; [exact (member_lt m g Hg Hm)|].
      unfold top_of. rewrite (member_group_in m g Hg Hm). reflexivity.
  Qed.

  Lemma top_members_nonempty (id : nat) : is_top gi id -> members_of gi id <> [].
  Proof.
    intros [(Hlt & _)|(g & -> & Hg)].
    - fold nu in Hlt. rewrite (members_of_unit id Hlt). discriminate.
    - fold nu. rewrite members_of_group. destruct Hwg as (Hne & _). rewrite Forall_forall in Hne.
      apply Hne. apply nth_In. exact Hg.
  Qed.

  Lemma top_members_NoDup (id : nat) : is_top gi id -> NoDup (members_of gi id).
  Proof.
    intros [(Hlt & _)|(g & -> & Hg)].
    - fold nu in Hlt. rewrite (members_of_unit id Hlt). constructor; [intros []|constructor].
    - fold nu. rewrite members_of_group. destruct Hwg as (_ & Hnd & _).
      apply (NoDup_concat_elem _ _ Hnd). apply nth_In. exact Hg.
  Qed.

  (* every stops unit sits under exactly one top-level id: top_of *)
  Lemma top_of_is_top (u : nat) :
    u < nu -> is_top gi (top_of gi u) /\ In u (members_of gi (top_of gi u)).
  Proof.
    intros Hu. unfold top_of. destruct (member_group gi u) as [g|] eqn:E.
    - destruct (member_group_some u g E) as (Hg & Hin). split.
      + right. exists g. split; [reflexivity|exact Hg].
      + fold nu. rewrite members_of_group. exact Hin.
    - split; [left; split; assumption|]. rewrite (members_of_unit u Hu). left; reflexivity.
  Qed.

  Lemma tops_disjoint (id id' m : nat) :
    is_top gi id -> is_top gi id' -> In m (members_of gi id) -> In m (members_of gi id') -> id = id'.
  Proof.
    intros Ht Ht' Hm Hm'.
    rewrite <- (proj2 (top_member id m Ht Hm)). exact (proj2 (top_member id' m Ht' Hm')).
  Qed.

  Lemma member_is_member (id m : nat) :
    (exists g, id = nu + g /\ g < length (gi_groups gi)) -> In m (members_of gi id) ->
    member_group gi m <> None.
  Proof.
    intros (g & -> & Hg) Hm. rewrite members_of_group in Hm.
    rewrite (member_group_in m g Hg Hm). discriminate.
  Qed.

  Lemma nonmember_is_top (u : nat) : u < nu -> member_group gi u = None -> is_top gi u.
  Proof. intros Hu Hn. left. split; assumption. Qed.

  Lemma nonmember_top_of (u : nat) : member_group gi u = None -> top_of gi u = u.
  Proof. intros Hn. unfold top_of. rewrite Hn. reflexivity. Qed.

End Groups.

(* ================================================================== *)
(* Part 1.  The invariant                                              *)
(* ================================================================== *)

(* (ii) the collections hold exactly the top-level ids, each in exactly one of
   planned / unplanned, no duplicates, nothing fixed *)
Definition colls_top (gi : ginput) (s : state) : Prop :=
  NoDup (st_planned s) /\ NoDup (st_unplanned s) /\ st_fixed s = [] /\
  (forall id, In id (st_planned s) \/ In id (st_unplanned s) -> is_top gi id) /\
  (forall id, is_top gi id -> In id (st_planned s) \/ In id (st_unplanned s)) /\
  (forall id, In id (st_planned s) -> In id (st_unplanned s) -> False).

(* (iii) the planned collection tells IsPlanned, and an unplanned id has NO
   member on a route: groups are all-on or all-off *)
Definition groups_whole (gi : ginput) (s : state) : Prop :=
  forall id, is_top gi id ->
    (In id (st_planned s) <-> top_planned gi s id = true) /\
    (In id (st_unplanned s) ->
     forall m, In m (members_of gi id) -> unit_planned (gi_inp gi) s m = false).

(* (iv) *)
Definition scores_fresh (gi : ginput) (s : state) : Prop :=
  st_scores s = g_score_terms gi s /\ st_total s = sumZ (g_score_terms gi s).

(* (i)-(iii): everything but the scores *)
Definition GInv_ns (gi : ginput) (s : state) : Prop :=
  routes_ok (gi_inp gi) s /\ colls_top gi s /\ groups_whole gi s.

Definition GInv (gi : ginput) (s : state) : Prop := GInv_ns gi s /\ scores_fresh gi s.

(* ================================================================== *)
(* Part 2.  One stops move, one un-plan                                *)
(* ================================================================== *)

(* ---- scores -------------------------------------------------------- *)

Lemma g_score_terms_ext (gi : ginput) (a b : state) :
  st_routes a = st_routes b -> st_unplanned a = st_unplanned b ->
  g_score_terms gi a = g_score_terms gi b.
Proof.
  intros Hr Hu.
  unfold g_score_terms, obj_activation, obj_travel_duration, obj_vehicles_duration,
    obj_early, obj_late, obj_min_stops, obj_stop_balance, cap_obj_terms, obj_capacity_excess.
  rewrite Hr, Hu. reflexivity.
Qed.

Lemma scores_fresh_refresh (gi : ginput) (s : state) : scores_fresh gi (g_refresh gi s).
Proof.
  unfold scores_fresh, g_refresh. cbn [st_scores st_total].
  rewrite (g_score_terms_ext gi (mkState (st_routes s) (st_planned s) (st_unplanned s) (st_fixed s)
                                   (g_score_terms gi s) (sumZ (g_score_terms gi s))) s eq_refl eq_refl).
  split; reflexivity.
Qed.

Lemma scores_fresh_ext (gi : ginput) (a b : state) :
  st_routes b = st_routes a -> st_unplanned b = st_unplanned a ->
  st_scores b = st_scores a -> st_total b = st_total a ->
  scores_fresh gi a -> scores_fresh gi b.
Proof.
  intros Hr Hu Hs Ht (A & B). unfold scores_fresh.
  rewrite Hs, Ht, (g_score_terms_ext gi b a Hr Hu). split; assumption.
Qed.

Lemma g_is_feasible_inl (gi : ginput) (a a' : state) (v idx : nat) (stops : list nat) (t : bool) :
  g_is_feasible gi a v idx stops t = inl a' ->
  st_planned a' = st_planned a /\ st_unplanned a' = st_unplanned a /\ st_fixed a' = st_fixed a /\
  scores_fresh gi a'.
Proof.
  unfold g_is_feasible. cbv zeta.
  destruct (propagate (gi_inp gi) v t (last_cell (firstn (S idx) (get_route a v)))
              (skipn (S idx) stops)) as [cs|k]; [|discriminate].
  intros H. injection H as <-.
  split; [reflexivity|]. split; [reflexivity|]. split; [reflexivity|].
  apply scores_fresh_refresh.
Qed.

(* ---- collections and scores after a stops move ---------------------- *)

Lemma g_exec_move_nonmember_colls (gi : ginput) (s s' : state) (mv : move) (r : result) :
  member_group gi (mv_unit mv) = None ->
  g_exec_move gi s mv = (s', r) ->
  (r = NotExecutable -> s' = s) /\
  (r = Done ->
     st_planned s' = coll_add (mv_unit mv) (st_planned s) /\
     st_unplanned s' = coll_remove (mv_unit mv) (st_unplanned s) /\
     st_fixed s' = st_fixed s /\ scores_fresh gi s') /\
  (forall k, r = Rejected k ->
     st_planned s' = coll_remove (mv_unit mv) (coll_add (mv_unit mv) (st_planned s)) /\
     st_unplanned s' = coll_add (mv_unit mv) (coll_remove (mv_unit mv) (st_unplanned s)) /\
     st_fixed s' = st_fixed s /\ scores_fresh gi s').
Proof.
  intros Hmem Hex. unfold g_exec_move in Hex. cbv zeta in Hex. rewrite Hmem in Hex.
  destruct (unit_planned (gi_inp gi) s (mv_unit mv) || unit_fixed gi (mv_unit mv)).
  { injection Hex as <- <-. split; [reflexivity|]. split; [discriminate|]. intros k; discriminate. }
  match type of Hex with context [g_is_feasible gi ?a ?v ?i ?st true] =>
    destruct (g_is_feasible gi a v i st true) as [s2|k1] eqn:E1 end.
  - injection Hex as <- <-. split; [discriminate|]. split; [|intros k; discriminate].
    intros _. destruct (g_is_feasible_inl gi _ _ _ _ _ _ E1) as (A & B & C & D).
    rewrite A, B, C. repeat split; [exact (proj1 D)|exact (proj2 D)].
  - match type of Hex with context [g_is_feasible gi ?a ?v ?i ?st true] =>
      destruct (g_is_feasible gi a v i st true) as [s4|k2] eqn:E2 end.
    + injection Hex as <- <-. split; [discriminate|]. split; [discriminate|].
      intros k _. destruct (g_is_feasible_inl gi _ _ _ _ _ _ E2) as (A & B & C & D).
      rewrite A, B, C. repeat split; [exact (proj1 D)|exact (proj2 D)].
    + injection Hex as <- <-. split; [discriminate|]. split; [discriminate|]. intros k; discriminate.
Qed.

Lemma g_exec_move_member_colls (gi : ginput) (s s' : state) (mv : move) (r : result) :
  member_group gi (mv_unit mv) <> None ->
  g_exec_move gi s mv = (s', r) ->
  st_planned s' = st_planned s /\ st_unplanned s' = st_unplanned s /\ st_fixed s' = st_fixed s /\
  (r = NotExecutable -> s' = s) /\
  (r <> NotExecutable -> r <> UndoFailed -> scores_fresh gi s').
Proof.
  intros Hmem Hex. unfold g_exec_move in Hex. cbv zeta in Hex.
  destruct (member_group gi (mv_unit mv)) as [g|]; [clear Hmem|congruence].
  destruct (unit_planned (gi_inp gi) s (mv_unit mv) || unit_fixed gi (mv_unit mv)).
  { injection Hex as <- <-. do 4 (split; [reflexivity|]). intros H; congruence. }
  match type of Hex with context [g_is_feasible gi ?a ?v ?i ?st true] =>
    destruct (g_is_feasible gi a v i st true) as [s2|k1] eqn:E1 end.
  - injection Hex as <- <-.
    destruct (g_is_feasible_inl gi _ _ _ _ _ _ E1) as (A & B & C & D).
    split; [exact A|]. split; [exact B|]. split; [exact C|]. split; [discriminate|intros _ _; exact D].
  - match type of Hex with context [g_is_feasible gi ?a ?v ?i ?st true] =>
      destruct (g_is_feasible gi a v i st true) as [s4|k2] eqn:E2 end.
    + injection Hex as <- <-.
      destruct (g_is_feasible_inl gi _ _ _ _ _ _ E2) as (A & B & C & D).
      split; [exact A|]. split; [exact B|]. split; [exact C|]. split; [discriminate|intros _ _; exact D].
    + injection Hex as <- <-. do 4 (split; [reflexivity|]). intros _ H; congruence.
Qed.

(* ---- collections and scores after an un-plan ------------------------- *)

Lemma g_unplan_unit_done_was_planned (gi : ginput) (s s' : state) (u : nat) (r : result) :
  g_unplan_unit gi s u = (s', r) -> r <> NotExecutable ->
  unit_planned (gi_inp gi) s u = true.
Proof.
  unfold g_unplan_unit. cbv zeta. destruct (unit_planned (gi_inp gi) s u); [reflexivity|].
  cbn [negb orb]. intros H Hr. injection H as _ <-. congruence.
Qed.

Lemma g_unplan_unit_colls (gi : ginput) (s s' : state) (u : nat) (r : result) :
  g_unplan_unit gi s u = (s', r) ->
  (r = NotExecutable -> s' = s) /\
  (r = Done ->
     st_planned s' = coll_remove (top_of gi u) (st_planned s) /\
     st_unplanned s' = coll_add (top_of gi u) (st_unplanned s) /\
     st_fixed s' = st_fixed s /\ scores_fresh gi s') /\
  (forall k, r = Rejected k -> member_group gi u = None ->
     st_planned s' = coll_add u (coll_remove u (st_planned s)) /\
     st_unplanned s' = coll_remove u (coll_add u (st_unplanned s)) /\
     st_fixed s' = st_fixed s /\ scores_fresh gi s').
Proof.
  intros Hex. unfold g_unplan_unit in Hex. cbv zeta in Hex.
  destruct (negb (unit_planned (gi_inp gi) s u) || unit_fixed gi u).
  { injection Hex as <- <-. split; [reflexivity|]. split; [discriminate|]. intros k; discriminate. }
  destruct (vehicle_of_unit (gi_inp gi) s u) as [v|].
  2:{ injection Hex as <- <-. split; [reflexivity|]. split; [discriminate|]. intros k; discriminate. }
  match type of Hex with context [g_is_feasible gi ?a ?v ?i ?st true] =>
    destruct (g_is_feasible gi a v i st true) as [s2|k1] eqn:E1 end.
  - injection Hex as <- <-. split; [discriminate|]. split; [|intros k; discriminate].
    intros _. destruct (g_is_feasible_inl gi _ _ _ _ _ _ E1) as (A & B & C & D).
    rewrite A, B, C. repeat split; [exact (proj1 D)|exact (proj2 D)].
  - match type of Hex with context [g_is_feasible gi ?a ?v ?i ?st true] =>
      destruct (g_is_feasible gi a v i st true) as [s4|k2] eqn:E2 end.
    + injection Hex as <- <-. split; [discriminate|]. split; [discriminate|].
      intros k _ Hmem. rewrite Hmem in E2. unfold top_of in *. rewrite Hmem in *.
      destruct (g_is_feasible_inl gi _ _ _ _ _ _ E2) as (A & B & C & D).
      unfold move_to_planned, move_to_unplanned, with_colls in A, B, C |- *.
      cbn [st_planned st_unplanned st_fixed st_routes st_scores st_total] in A, B, C |- *.
      rewrite A, B, C, coll_add_idem, coll_remove_idem.
      split; [reflexivity|]. split; [reflexivity|]. split; [reflexivity|].
      apply (scores_fresh_ext gi s4); [reflexivity| |reflexivity|reflexivity|exact D].
      cbn [st_unplanned]. rewrite B. reflexivity.
    + injection Hex as <- <-. split; [discriminate|]. split; [discriminate|]. intros k; discriminate.
Qed.

(* ---- which units are planned after a Done move / un-plan ------------- *)

Lemma g_exec_move_done_planned_iff (gi : ginput) (s s' : state) (mv : move) :
  wf_input (gi_inp gi) -> routes_ok (gi_inp gi) s -> move_ok (gi_inp gi) s mv ->
  g_exec_move gi s mv = (s', Done) ->
  forall m, unit_planned (gi_inp gi) s' m = true <->
            m = mv_unit mv \/ unit_planned (gi_inp gi) s m = true.
Proof.
  intros Hwf Hok Hmv Hex m.
  destruct (g_exec_move_done_planned gi s s' mv Hwf Hok Hmv Hex) as (Hmono & Hown).
  split; [|intros [->|H]; [exact Hown|exact (Hmono m H)]].
  intros Hpl. destruct (Nat.eq_dec m (mv_unit mv)) as [E|Hne]; [left; exact E|right].
  destruct (g_exec_move_routes gi s s' mv Done Hwf Hok Hmv Hex) as (_ & Hok' & _ & Hd).
  destruct (Hd eq_refl) as (_ & _ & Hins & Hoth). clear Hd.
  pose proof Hmv as (Hu & Hmvv & Hperm & _).
  pose proof (proj1 (proj1 Hok)) as Hlen. pose proof (proj1 (proj1 Hok')) as Hlen'.
  pose proof (unit_planned_lt _ _ _ Hpl) as Hm.
  apply unit_planned_iff in Hpl. destruct Hpl as (Hnon & Hall).
  apply unit_planned_iff. split; [exact Hnon|]. intros x Hx.
  specialize (Hall x Hx). apply stop_on_route_iff in Hall. destruct Hall as (v & Hv & Hin).
  apply stop_on_route_iff. exists v. split; [rewrite Hlen, <- Hlen'; exact Hv|].
  destruct (Nat.eq_dec v (mv_vehicle mv)) as [->|Hnv].
  - rewrite Hins in Hin. apply (Permutation_in x (insert_places_perm _ _ _)) in Hin.
    apply in_app_or in Hin. destruct Hin as [Hin|Hin]; [exact Hin|exfalso].
    apply (Permutation_in x Hperm) in Hin.
    exact (units_disjoint (gi_inp gi) m (mv_unit mv) x Hwf Hm Hu Hne Hx Hin).
  - rewrite <- (Hoth v Hnv). exact Hin.
Qed.

Lemma g_unplan_unit_done_planned_iff (gi : ginput) (s s' : state) (u : nat) :
  wf_input (gi_inp gi) -> routes_ok (gi_inp gi) s ->
  g_unplan_unit gi s u = (s', Done) ->
  forall m, unit_planned (gi_inp gi) s' m = true <->
            m <> u /\ unit_planned (gi_inp gi) s m = true.
Proof.
  intros Hwf Hok Hex m.
  assert (Hplu : unit_planned (gi_inp gi) s u = true).
  { apply (g_unplan_unit_done_was_planned gi s s' u Done Hex). discriminate. }
  pose proof (unit_planned_lt _ _ _ Hplu) as Hu.
  destruct (g_unplan_unit_routes gi s s' u Done Hwf Hok Hu Hex) as (_ & Hok' & _ & Hd).
  destruct (Hd eq_refl) as (v & Hv & Hall & Hfil & Hoth). clear Hd.
  pose proof (proj1 (proj1 Hok)) as Hlen. pose proof (proj1 (proj1 Hok')) as Hlen'.
  set (inp := gi_inp gi) in *. set (us := iu_stops (get_unit inp u)) in *.
  (* a stop is on a route afterwards iff it was and is not a stop of u *)
  assert (Hon : forall x, stop_on_route s' x = true <-> stop_on_route s x = true /\ ~ In x us).
  { intros x. rewrite !stop_on_route_iff. split.
    - intros (v' & Hv' & Hin). rewrite Hlen' in Hv'.
      destruct (Nat.eq_dec v' v) as [->|Hnv].
      + rewrite Hfil in Hin. apply filter_In in Hin. destruct Hin as (Hin & Hn).
        apply negb_true_iff, mem_nat_false in Hn.
        split; [exists v; split; [rewrite Hlen; exact Hv|exact Hin]|exact Hn].
      + rewrite (Hoth v' Hnv) in Hin.
        split; [exists v'; split; [rewrite Hlen; exact Hv'|exact Hin]|].
        intros Hxu. apply Hnv.
        exact (interior_unique inp s x v' v (proj1 Hok) (proj1 (proj2 (proj2 Hok))) Hv' Hv
                 (unit_stops_lt inp u x Hwf Hu Hxu) Hin (Hall x Hxu)).
    - intros ((v' & Hv' & Hin) & Hn). rewrite Hlen in Hv'. exists v'.
      split; [rewrite Hlen'; exact Hv'|].
      destruct (Nat.eq_dec v' v) as [->|Hnv].
      + rewrite Hfil. apply filter_In. split; [exact Hin|].
        apply negb_true_iff, mem_nat_false. exact Hn.
      + rewrite (Hoth v' Hnv). exact Hin. }
  rewrite !unit_planned_iff. split.
  - intros (Hnon & Hallm). split.
    + intros ->. destruct (nonempty_has_elem _ Hnon) as (x & Hx).
      exact (proj2 (proj1 (Hon x) (Hallm x Hx)) Hx).
    + split; [exact Hnon|]. intros x Hx. exact (proj1 (proj1 (Hon x) (Hallm x Hx))).
  - intros (Hne & Hnon & Hallm). split; [exact Hnon|]. intros x Hx. apply Hon.
    split; [exact (Hallm x Hx)|]. intros Hxu.
    assert (Hm : m < nunits inp).
    { apply (unit_planned_lt inp s m). apply unit_planned_iff. split; assumption. }
    exact (units_disjoint inp m u x Hwf Hm Hu Hne Hx Hxu).
Qed.

(* top_planned only looks at the members *)
Lemma top_planned_congr (gi : ginput) (s s' : state) (id : nat) :
  (forall m, In m (members_of gi id) ->
     unit_planned (gi_inp gi) s' m = unit_planned (gi_inp gi) s m) ->
  top_planned gi s' id = top_planned gi s id.
Proof.
  intros H. unfold top_planned. destruct (members_of gi id) as [|m0 ms]; [reflexivity|].
  apply eq_true_iff_eq. rewrite !forallb_forall.
  split; intros Hall m Hm; [rewrite <- (H m Hm)|rewrite (H m Hm)]; exact (Hall m Hm).
Qed.

Lemma top_planned_iff (gi : ginput) (s : state) (id : nat) :
  top_planned gi s id = true <->
  members_of gi id <> [] /\ forall m, In m (members_of gi id) -> unit_planned (gi_inp gi) s m = true.
Proof.
  unfold top_planned. destruct (members_of gi id) as [|m0 ms].
  - split; [discriminate|]. intros (H & _). congruence.
  - rewrite forallb_forall. split; [intros H; split; [discriminate|exact H]|intros (_ & H); exact H].
Qed.

(* ================================================================== *)
(* Part 3.  Transfer lemmas                                            *)
(* ================================================================== *)

Section Transfer.
  Variable gi : ginput.
  Hypothesis Hwg : wf_ginput gi.
  Local Notation inp := (gi_inp gi).

  (* members of another top-level id keep their status when only the members
     of id0 change *)
  Lemma other_top_unchanged (s s' : state) (id0 id : nat) :
    is_top gi id0 -> is_top gi id -> id <> id0 ->
    (forall m, ~ In m (members_of gi id0) -> unit_planned inp s' m = unit_planned inp s m) ->
    (forall m, In m (members_of gi id) -> unit_planned inp s' m = unit_planned inp s m) /\
    top_planned gi s' id = top_planned gi s id.
  Proof.
    intros Ht0 Ht Hne Hsame.
    assert (H : forall m, In m (members_of gi id) -> unit_planned inp s' m = unit_planned inp s m).
    { intros m Hm. apply Hsame. intros Hm0. apply Hne.
      exact (tops_disjoint gi Hwg id id0 m Ht Ht0 Hm Hm0). }
    split; [exact H|]. apply top_planned_congr. exact H.
  Qed.

  (* a top-level id goes from unplanned to planned, its members onto the routes *)
  Lemma transfer_plan (s s' : state) (id0 : nat) :
    GInv_ns gi s -> is_top gi id0 -> In id0 (st_unplanned s) -> routes_ok inp s' ->
    NoDup (st_planned s') -> NoDup (st_unplanned s') -> st_fixed s' = [] ->
    (forall x, In x (st_planned s') <-> x = id0 \/ In x (st_planned s)) ->
    (forall x, In x (st_unplanned s') <-> In x (st_unplanned s) /\ x <> id0) ->
    (forall m, unit_planned inp s' m = true <->
               In m (members_of gi id0) \/ unit_planned inp s m = true) ->
    GInv_ns gi s'.
  Proof.
    intros (_ & (_ & _ & _ & Hin & Hcov & Hex) & Hgw) Ht0 Hun0 Hok' Hndp Hndu Hfx Hp Hu Hpl.
    split; [exact Hok'|]. split.
    - split; [exact Hndp|]. split; [exact Hndu|]. split; [exact Hfx|]. split; [|split].
      + intros id [H|H].
        * apply Hp in H. destruct H as [->|H]; [exact Ht0|apply Hin; left; exact H].
        * apply Hu in H. apply Hin. right; exact (proj1 H).
      + intros id Ht. destruct (Nat.eq_dec id id0) as [->|Hne].
        * left. apply Hp. left; reflexivity.
        * destruct (Hcov id Ht) as [H|H]; [left; apply Hp; right; exact H|].
          right. apply Hu. split; assumption.
      + intros id H1 H2. apply Hu in H2. destruct H2 as (H2 & Hne).
        apply Hp in H1. destruct H1 as [->|H1]; [congruence|]. exact (Hex id H1 H2).
    - intros id Ht. destruct (Nat.eq_dec id id0) as [->|Hne].
      + split.
        * split; [intros _|intros _; apply Hp; left; reflexivity].
          apply top_planned_iff. split; [exact (top_members_nonempty gi Hwg id0 Ht0)|].
          intros m Hm. apply Hpl. left; exact Hm.
        * intros H. apply Hu in H. destruct H as (_ & H). congruence.
      + assert (Hsame : forall m, ~ In m (members_of gi id0) ->
                  unit_planned inp s' m = unit_planned inp s m).
        { intros m Hm. apply eq_true_iff_eq. rewrite Hpl. tauto. }
        destruct (other_top_unchanged s s' id0 id Ht0 Ht Hne Hsame) as (Hmem & Htp).
        destruct (Hgw id Ht) as (A & B). split.
        * rewrite Htp, <- A, Hp. split; [intros [H|H]; [congruence|exact H]|auto].
        * intros H m Hm. apply Hu in H. rewrite (Hmem m Hm). exact (B (proj1 H) m Hm).
  Qed.

  (* a top-level id goes from planned to unplanned, its members off the routes *)
  Lemma transfer_unplan (s s' : state) (id0 : nat) :
    GInv_ns gi s -> is_top gi id0 -> In id0 (st_planned s) -> routes_ok inp s' ->
    NoDup (st_planned s') -> NoDup (st_unplanned s') -> st_fixed s' = [] ->
    (forall x, In x (st_planned s') <-> In x (st_planned s) /\ x <> id0) ->
    (forall x, In x (st_unplanned s') <-> x = id0 \/ In x (st_unplanned s)) ->
    (forall m, unit_planned inp s' m = true <->
               ~ In m (members_of gi id0) /\ unit_planned inp s m = true) ->
    GInv_ns gi s'.
  Proof.
    intros (_ & (_ & _ & _ & Hin & Hcov & Hex) & Hgw) Ht0 Hpl0 Hok' Hndp Hndu Hfx Hp Hu Hpl.
    assert (Hoff0 : forall m, In m (members_of gi id0) -> unit_planned inp s' m = false).
    { intros m Hm. destruct (unit_planned inp s' m) eqn:E; [|reflexivity].
      apply Hpl in E. tauto. }
    split; [exact Hok'|]. split.
    - split; [exact Hndp|]. split; [exact Hndu|]. split; [exact Hfx|]. split; [|split].
      + intros id [H|H].
        * apply Hp in H. apply Hin. left; exact (proj1 H).
        * apply Hu in H. destruct H as [->|H]; [exact Ht0|apply Hin; right; exact H].
      + intros id Ht. destruct (Nat.eq_dec id id0) as [->|Hne].
        * right. apply Hu. left; reflexivity.
        * destruct (Hcov id Ht) as [H|H]; [|right; apply Hu; right; exact H].
          left. apply Hp. split; assumption.
      + intros id H1 H2. apply Hp in H1. destruct H1 as (H1 & Hne).
        apply Hu in H2. destruct H2 as [->|H2]; [congruence|]. exact (Hex id H1 H2).
    - intros id Ht. destruct (Nat.eq_dec id id0) as [->|Hne].
      + split.
        * split.
          -- intros H. apply Hp in H. destruct H as (_ & H). congruence.
          -- intros H. exfalso. apply top_planned_iff in H. destruct H as (Hnon & Hall).
             destruct (nonempty_has_elem _ Hnon) as (m & Hm).
             specialize (Hall m Hm). rewrite (Hoff0 m Hm) in Hall. discriminate.
        * intros _ m Hm. exact (Hoff0 m Hm).
      + assert (Hsame : forall m, ~ In m (members_of gi id0) ->
                  unit_planned inp s' m = unit_planned inp s m).
        { intros m Hm. apply eq_true_iff_eq. rewrite Hpl. tauto. }
        destruct (other_top_unchanged s s' id0 id Ht0 Ht Hne Hsame) as (Hmem & Htp).
        destruct (Hgw id Ht) as (A & B). split.
        * rewrite Htp, <- A, Hp. tauto.
        * intros H m Hm. apply Hu in H. destruct H as [->|H]; [congruence|].
          rewrite (Hmem m Hm). exact (B H m Hm).
  Qed.

  (* routes unchanged, collections the same as sets *)
  Lemma transfer_same (s s' : state) :
    GInv_ns gi s -> st_routes s' = st_routes s ->
    NoDup (st_planned s') -> NoDup (st_unplanned s') -> st_fixed s' = [] ->
    (forall x, In x (st_planned s') <-> In x (st_planned s)) ->
    (forall x, In x (st_unplanned s') <-> In x (st_unplanned s)) ->
    GInv_ns gi s'.
  Proof.
    intros (Hok & (_ & _ & _ & Hin & Hcov & Hex) & Hgw) Hr Hndp Hndu Hfx Hp Hu.
    split; [exact (routes_ok_ext inp s s' Hr Hok)|]. split.
    - split; [exact Hndp|]. split; [exact Hndu|]. split; [exact Hfx|]. split; [|split].
      + intros id H. apply Hin. rewrite <- Hp, <- Hu. exact H.
      + intros id Ht. rewrite Hp, Hu. exact (Hcov id Ht).
      + intros id H1 H2. apply Hp in H1. apply Hu in H2. exact (Hex id H1 H2).
    - intros id Ht. destruct (Hgw id Ht) as (A & B).
      assert (Htp : top_planned gi s' id = top_planned gi s id).
      { apply top_planned_congr. intros m _. apply unit_planned_ext. exact Hr. }
      split; [rewrite Htp, Hp; exact A|].
      intros H m Hm. rewrite (unit_planned_ext inp s s' m Hr). apply (B (proj1 (Hu id) H) m Hm).
  Qed.

  (* facts read off the invariant *)
  Lemma ginv_unplanned_not_planned (s : state) (id : nat) :
    GInv_ns gi s -> In id (st_unplanned s) -> ~ In id (st_planned s).
  Proof. intros (_ & (_ & _ & _ & _ & _ & Hex) & _) H1 H2. exact (Hex id H2 H1). Qed.

  Lemma ginv_top_unplanned (s : state) (id : nat) :
    GInv_ns gi s -> is_top gi id -> top_planned gi s id = false -> In id (st_unplanned s).
  Proof.
    intros (_ & (_ & _ & _ & _ & Hcov & _) & Hgw) Ht Hf.
    destruct (Hcov id Ht) as [H|H]; [|exact H].
    apply (Hgw id Ht) in H. congruence.
  Qed.

  Lemma ginv_top_planned (s : state) (id : nat) :
    GInv_ns gi s -> is_top gi id -> top_planned gi s id = true -> In id (st_planned s).
  Proof. intros (_ & _ & Hgw) Ht H. apply (Hgw id Ht). exact H. Qed.

End Transfer.

(* ================================================================== *)
(* Part 4.  The start solution and the non-member operations           *)
(* ================================================================== *)

Lemma NoDup_map_add (n : nat) (l : list nat) : NoDup l -> NoDup (map (fun g => n + g) l).
Proof.
  induction 1 as [|a l Hn Hnd IH]; cbn [map]; constructor; [|exact IH].
  intros H. apply in_map_iff in H. destruct H as (b & Hb & Hin).
  assert (b = a) by lia. subst b. exact (Hn Hin).
Qed.

Lemma top_planned_unit (gi : ginput) (s : state) (u : nat) :
  u < nunits_of gi -> top_planned gi s u = unit_planned (gi_inp gi) s u.
Proof.
  intros Hu. unfold top_planned. rewrite (members_of_unit gi u Hu).
  cbn [forallb]. apply andb_true_r.
Qed.

Lemma g_exec_move_ran (gi : ginput) (s s' : state) (mv : move) (r : result) :
  g_exec_move gi s mv = (s', r) -> r <> NotExecutable ->
  unit_planned (gi_inp gi) s (mv_unit mv) = false.
Proof.
  unfold g_exec_move. cbv zeta. destruct (unit_planned (gi_inp gi) s (mv_unit mv)); [|reflexivity].
  cbn [orb]. intros H Hr. injection H as _ <-. congruence.
Qed.

Lemma result_eq_ne (r : result) : r = NotExecutable \/ r <> NotExecutable.
Proof. destruct r; (left; reflexivity) || (right; discriminate). Qed.

Section Ops.
  Variable gi : ginput.
  Hypothesis Hwf : wf_input (gi_inp gi).
  Hypothesis Hwg : wf_ginput gi.
  Local Notation inp := (gi_inp gi).

  (* ---- 1. the start solution ------------------------------------------ *)

  Lemma GInv_start_proof (s0 : state) :
    no_initial gi -> g_new_solution gi = Some s0 -> GInv gi s0.
  Proof.
    intros Hni Hns.
    pose proof (g_new_solution_routes_ok gi s0 Hwf Hni Hns) as Hok.
    unfold g_new_solution in Hns. cbv zeta in Hns.
    destruct (new_solution inp) as [c0|] eqn:E0; [|discriminate].
    rewrite (init_vehicles_no_initial gi _ _ Hni) in Hns. injection Hns as <-.
    pose proof (new_solution_invT inp c0 Hwf E0) as ((_ & _ & _ & Hco) & _).
    assert (Hun0 : st_unplanned c0 = seqn (nunits inp)).
    { unfold new_solution in E0. cbv zeta in E0.
      destruct (all_some (map (empty_route inp) (seqn (length (in_vehicles inp))))); [|discriminate].
      injection E0 as <-. reflexivity. }
    set (tops := filter (fun u => match member_group gi u with Some _ => false | None => true end)
                        (seqn (nunits_of gi))
                 ++ map (fun g => nunits_of gi + g) (seqn (length (gi_groups gi)))) in *.
    assert (Hintops : forall id, In id tops <-> is_top gi id).
    { intros id. unfold tops. rewrite in_app_iff, filter_In, In_seqn, in_map_iff. split.
      - intros [(Hlt & Hm)|(g & <- & Hg)].
        + left. split; [exact Hlt|]. destruct (member_group gi id); [discriminate|reflexivity].
        + right. exists g. split; [reflexivity|]. apply In_seqn. exact Hg.
      - intros [(Hlt & Hm)|(g & -> & Hg)].
        + left. split; [exact Hlt|]. rewrite Hm. reflexivity.
        + right. exists g. split; [reflexivity|]. apply In_seqn. exact Hg. }
    assert (Hoff : forall m, m < nunits inp ->
              unit_planned inp (g_refresh gi (mkState (st_routes c0) [] tops [] [] 0%Z)) m = false).
    { intros m Hm.
      match goal with |- unit_planned _ ?st m = false =>
        rewrite (unit_planned_ext inp c0 st m eq_refl) end.
      destruct Hco as (_ & _ & _ & _ & Hper & _). apply (proj1 (proj2 (Hper m Hm))).
      rewrite Hun0. apply In_seqn. exact Hm. }
    split; [split; [exact Hok|split]|apply scores_fresh_refresh].
    - unfold g_refresh. cbn [st_planned st_unplanned st_fixed].
      split; [constructor|]. split; [|split; [reflexivity|split; [|split]]].
      + unfold tops. apply NoDup_app_iff. split; [apply NoDup_filter, NoDup_seqn|].
        split; [apply NoDup_map_add, NoDup_seqn|].
        intros x Hx Hx'. apply filter_In in Hx. destruct Hx as (Hx & _). apply In_seqn in Hx.
        apply in_map_iff in Hx'. destruct Hx' as (g & <- & _). lia.
      + intros id [[]|H]. apply Hintops. exact H.
      + intros id Ht. right. apply Hintops. exact Ht.
      + intros id [].
    - intros id Ht. unfold g_refresh at 1 3. cbn [st_planned st_unplanned]. split.
      + split; [intros []|]. intros H. exfalso. apply top_planned_iff in H. destruct H as (Hnon & Hall).
        destruct (nonempty_has_elem _ Hnon) as (m & Hm).
        specialize (Hall m Hm). rewrite (Hoff m (proj1 (top_member gi Hwg id m Ht Hm))) in Hall.
        discriminate.
      + intros _ m Hm. exact (Hoff m (proj1 (top_member gi Hwg id m Ht Hm))).
  Qed.

  (* ---- 2. a stops move of a unit that is no member ---------------------- *)

  Lemma exec_move_nonmember_ns (s s' : state) (mv : move) (r : result) :
    GInv_ns gi s -> member_group gi (mv_unit mv) = None -> move_ok inp s mv ->
    g_exec_move gi s mv = (s', r) ->
    r <> UndoFailed /\ GInv_ns gi s' /\ (r = NotExecutable -> s' = s) /\
    (r <> NotExecutable -> scores_fresh gi s').
  Proof.
    intros HG Hmem Hmv Hex. pose proof HG as (Hok & (Hndp & Hndu & Hfx & _) & _).
    destruct (g_exec_move_routes gi s s' mv r Hwf Hok Hmv Hex) as (Hnu & Hok' & Hrb & Hd).
    destruct (g_exec_move_nonmember_colls gi s s' mv r Hmem Hex) as (Cn & Cd & Cr).
    split; [exact Hnu|].
    pose proof Hmv as (Hu & _).
    pose proof (nonmember_is_top gi (mv_unit mv) Hu Hmem) as Htop.
    assert (Hun : r <> NotExecutable -> In (mv_unit mv) (st_unplanned s)).
    { intros Hr. apply (ginv_top_unplanned gi s _ HG Htop).
      rewrite (top_planned_unit gi s _ Hu). exact (g_exec_move_ran gi s s' mv r Hex Hr). }
    destruct r as [|k| |].
    - destruct (Cd eq_refl) as (Cp & Cu & Cf & Csc).
      split; [|split; [discriminate|intros _; exact Csc]].
      apply (transfer_plan gi Hwg s s' (mv_unit mv) HG Htop (Hun ltac:(discriminate)) Hok').
      + rewrite Cp. apply NoDup_coll_add. exact Hndp.
      + rewrite Cu. apply NoDup_coll_remove. exact Hndu.
      + rewrite Cf. exact Hfx.
      + intros x. rewrite Cp. apply In_coll_add.
      + intros x. rewrite Cu. apply In_coll_remove.
      + intros m. rewrite (g_exec_move_done_planned_iff gi s s' mv Hwf Hok Hmv Hex m).
        rewrite (members_of_unit gi _ Hu). cbn [In]. intuition congruence.
    - destruct (Cr k eq_refl) as (Cp & Cu & Cf & Csc).
      split; [|split; [discriminate|intros _; exact Csc]].
      pose proof (Hun ltac:(discriminate)) as Hinu.
      pose proof (ginv_unplanned_not_planned gi s _ HG Hinu) as Hnp.
      apply (transfer_same gi s s' HG (Hrb ltac:(discriminate))).
      + rewrite Cp. apply NoDup_coll_remove, NoDup_coll_add. exact Hndp.
      + rewrite Cu. apply NoDup_coll_add, NoDup_coll_remove. exact Hndu.
      + rewrite Cf. exact Hfx.
      + intros x. rewrite Cp, (coll_remove_add_notin _ _ Hnp). tauto.
      + intros x. rewrite Cu, In_coll_add, In_coll_remove.
        destruct (Nat.eq_dec x (mv_unit mv)) as [->|Hne]; tauto.
    - rewrite (Cn eq_refl). split; [exact HG|]. split; [reflexivity|congruence].
    - congruence.
  Qed.

  Lemma GInv_exec_move_nonmember_proof (s s' : state) (mv : move) (r : result) :
    GInv gi s -> member_group gi (mv_unit mv) = None -> move_ok inp s mv ->
    g_exec_move gi s mv = (s', r) -> r <> UndoFailed /\ GInv gi s'.
  Proof.
    intros (HG & Hsc) Hmem Hmv Hex.
    destruct (exec_move_nonmember_ns s s' mv r HG Hmem Hmv Hex) as (Hnu & HG' & Hne & Hfr).
    split; [exact Hnu|]. split; [exact HG'|].
    destruct r; try (apply Hfr; discriminate). rewrite (Hne eq_refl). exact Hsc.
  Qed.

  Lemma GInv_exec_checked_nonmember_proof (s s' : state) (mv : move) (r : result) :
    GInv gi s -> member_group gi (mv_unit mv) = None -> move_ok inp s mv ->
    g_exec_checked gi s mv = (s', r) -> r <> UndoFailed /\ GInv gi s'.
  Proof.
    intros HG Hmem Hmv Hex. unfold g_exec_checked in Hex.
    destruct (g_move_executable gi s mv).
    - exact (GInv_exec_move_nonmember_proof s s' mv r HG Hmem Hmv Hex).
    - injection Hex as <- <-. split; [discriminate|exact HG].
  Qed.

  (* ---- 3. the un-plan of a unit that is no member ----------------------- *)

  Lemma unplan_nonmember_ns (s s' : state) (u : nat) (r : result) :
    GInv_ns gi s -> member_group gi u = None ->
    g_unplan_unit gi s u = (s', r) ->
    r <> UndoFailed /\ GInv_ns gi s' /\ (r = NotExecutable -> s' = s) /\
    (r <> NotExecutable -> scores_fresh gi s').
  Proof.
    intros HG Hmem Hex. pose proof HG as (Hok & (Hndp & Hndu & Hfx & _) & _).
    destruct (g_unplan_unit_colls gi s s' u r Hex) as (Cn & Cd & Cr).
    destruct (result_eq_ne r) as [->|Hrn].
    { rewrite (Cn eq_refl). split; [discriminate|]. split; [exact HG|]. split; [reflexivity|congruence]. }
    pose proof (g_unplan_unit_done_was_planned gi s s' u r Hex Hrn) as Hplu.
    pose proof (unit_planned_lt _ _ _ Hplu) as Hu.
    destruct (g_unplan_unit_routes gi s s' u r Hwf Hok Hu Hex) as (Hnu & Hok' & Hrb & _).
    split; [exact Hnu|].
    pose proof (nonmember_is_top gi u Hu Hmem) as Htop.
    assert (Hinp : In u (st_planned s)).
    { apply (ginv_top_planned gi s u HG Htop). rewrite (top_planned_unit gi s u Hu). exact Hplu. }
    rewrite (nonmember_top_of gi u Hmem) in Cd.
    destruct r as [|k| |].
    - destruct (Cd eq_refl) as (Cp & Cu & Cf & Csc).
      split; [|split; [discriminate|intros _; exact Csc]].
      apply (transfer_unplan gi Hwg s s' u HG Htop Hinp Hok').
      + rewrite Cp. apply NoDup_coll_remove. exact Hndp.
      + rewrite Cu. apply NoDup_coll_add. exact Hndu.
      + rewrite Cf. exact Hfx.
      + intros x. rewrite Cp. apply In_coll_remove.
      + intros x. rewrite Cu. apply In_coll_add.
      + intros m. rewrite (g_unplan_unit_done_planned_iff gi s s' u Hwf Hok Hex m).
        rewrite (members_of_unit gi _ Hu). cbn [In]. intuition congruence.
    - destruct (Cr k eq_refl Hmem) as (Cp & Cu & Cf & Csc).
      split; [|split; [discriminate|intros _; exact Csc]].
      assert (Hnu' : ~ In u (st_unplanned s)).
      { intros H. exact (ginv_unplanned_not_planned gi s u HG H Hinp). }
      apply (transfer_same gi s s' HG (Hrb ltac:(discriminate))).
      + rewrite Cp. apply NoDup_coll_add, NoDup_coll_remove. exact Hndp.
      + rewrite Cu. apply NoDup_coll_remove, NoDup_coll_add. exact Hndu.
      + rewrite Cf. exact Hfx.
      + intros x. rewrite Cp, In_coll_add, In_coll_remove.
        destruct (Nat.eq_dec x u) as [->|Hne]; tauto.
      + intros x. rewrite Cu, (coll_remove_add_notin _ _ Hnu'). tauto.
    - congruence.
    - congruence.
  Qed.

  Lemma GInv_unplan_nonmember_proof (s s' : state) (u : nat) (r : result) :
    GInv gi s -> member_group gi u = None ->
    g_unplan_unit gi s u = (s', r) -> r <> UndoFailed /\ GInv gi s'.
  Proof.
    intros (HG & Hsc) Hmem Hex.
    destruct (unplan_nonmember_ns s s' u r HG Hmem Hex) as (Hnu & HG' & Hne & Hfr).
    split; [exact Hnu|]. split; [exact HG'|].
    destruct r; try (apply Hfr; discriminate). rewrite (Hne eq_refl). exact Hsc.
  Qed.

End Ops.

(* ================================================================== *)
(* Part 5.  The units move and the group un-plan                       *)
(* ================================================================== *)

Lemma coll_add_in (x : nat) (l : list nat) : In x l -> coll_add x l = l.
Proof. intros H. unfold coll_add. rewrite (proj2 (mem_nat_In x l) H). reflexivity. Qed.

(* the replay asked for by the group un-plan: every member un-plan answers Done *)
Fixpoint unplan_members_done (gi : ginput) (st : state) (ms : list nat) : bool :=
  match ms with
  | [] => true
  | m :: rest =>
      if unit_planned (gi_inp gi) st m then
        match g_unplan_unit gi st m with
        | (st', Done) => unplan_members_done gi st' rest
        | _ => false
        end
      else unplan_members_done gi st rest
  end.

Definition unplan_group_all_done (gi : ginput) (s : state) (id : nat) : bool :=
  unplan_members_done gi (move_to_unplanned s id) (members_of gi id).

(* the loop of g_unplan_group *)
Definition unplan_step (gi : ginput) (id : nat) (st : state) (m : nat) : state :=
  if unit_planned (gi_inp gi) st m then
    let '(st', r) := g_unplan_unit gi st m in
    match r with
    | Done => st'
    | _ => move_to_planned st' id
    end
  else st.

Definition unplan_loop (gi : ginput) (id : nat) (ms : list nat) (st0 : state) : state :=
  fold_left (unplan_step gi id) ms st0.

Lemma unplan_loop_cons (gi : ginput) (id m : nat) (ms : list nat) (st : state) :
  unplan_loop gi id (m :: ms) st = unplan_loop gi id ms (unplan_step gi id st m).
Proof. reflexivity. Qed.

Lemma g_unplan_group_unfold (gi : ginput) (s : state) (id : nat) :
  g_unplan_group gi s id
  = if negb (top_planned gi s id) || top_fixed gi id then (s, NotExecutable)
    else (unplan_loop gi id (members_of gi id) (move_to_unplanned s id), Done).
Proof. reflexivity. Qed.

Section GroupOps.
  Variable gi : ginput.
  Hypothesis Hwf : wf_input (gi_inp gi).
  Hypothesis Hwg : wf_ginput gi.
  Local Notation inp := (gi_inp gi).

  Definition group_id (id : nat) : Prop :=
    exists g, id = nunits_of gi + g /\ g < length (gi_groups gi).

  Lemma group_id_top (id : nat) : group_id id -> is_top gi id.
  Proof. intros H. right. exact H. Qed.

  (* ---- the sub-moves along the Done path -------------------------------- *)

  Lemma exec_subs_done_full (id : nat) :
    forall (subs : list submove) (s : state) (done : list nat) (s' : state),
      routes_ok inp s -> subs_fresh gi s subs ->
      (forall sb, In sb subs -> member_group gi (sb_unit sb) <> None) ->
      exec_subs gi id s subs done = (s', Done) ->
      routes_ok inp s' /\
      st_planned s' = st_planned s /\ st_unplanned s' = st_unplanned s /\ st_fixed s' = st_fixed s /\
      (forall m, unit_planned inp s' m = true <->
                 In m (map sb_unit subs) \/ unit_planned inp s m = true) /\
      (subs <> [] \/ scores_fresh gi s -> scores_fresh gi s').
  Proof.
    induction subs as [|sb rest IH]; intros s done s' Hok Hfr Hmem Hex.
    - cbn [exec_subs] in Hex. injection Hex as <-.
      split; [exact Hok|]. do 3 (split; [reflexivity|]). split.
      + intros m. cbn [map In]. tauto.
      + intros [H|H]; [congruence|exact H].
    - cbn [exec_subs subs_fresh] in Hex, Hfr. destruct Hfr as (Hmv & Hfr).
      destruct (g_exec_move gi s (sub_to_move s sb)) as [s1 r1] eqn:Em.
      destruct r1 as [|k| |];
        try (cbv zeta in Hex; destruct (undo_members gi (move_to_unplanned s1 id) done) as [s3 [|]];
             discriminate).
      destruct (g_exec_move_routes gi s s1 _ Done Hwf Hok Hmv Em) as (_ & Hok1 & _).
      assert (Hm1 : member_group gi (mv_unit (sub_to_move s sb)) <> None).
      { apply Hmem. left; reflexivity. }
      destruct (g_exec_move_member_colls gi s s1 _ Done Hm1 Em) as (Cp & Cu & Cf & _ & Csc).
      pose proof (g_exec_move_done_planned_iff gi s s1 _ Hwf Hok Hmv Em) as Hpl1.
      destruct (IH s1 _ s' Hok1 (Hfr s1 eq_refl) (fun sb' H => Hmem sb' (or_intror H)) Hex)
        as (Hok' & Cp' & Cu' & Cf' & Hpl' & Hsc').
      split; [exact Hok'|]. split; [congruence|]. split; [congruence|]. split; [congruence|]. split.
      + intros m. rewrite (Hpl' m), (Hpl1 m). cbn [map In sub_to_move mv_unit]. intuition congruence.
      + intros _. apply Hsc'. right. apply Csc; discriminate.
  Qed.

  (* ---- 4. the units move answers Done ----------------------------------- *)

  Lemma exec_units_done_ns (s s' : state) (id : nat) (subs : list submove) :
    GInv_ns gi s -> group_id id ->
    subs_fresh gi (move_to_planned s id) subs ->
    incl (map sb_unit subs) (members_of gi id) -> incl (members_of gi id) (map sb_unit subs) ->
    g_exec_units gi s id subs = (s', Done) ->
    GInv_ns gi s' /\ scores_fresh gi s' /\
    In id (st_unplanned s) /\ In id (st_planned s') /\ top_planned gi s' id = true.
  Proof.
    intros HG Hgid Hfr Hin1 Hin2 Hex. pose proof HG as (Hok & (Hndp & Hndu & Hfx & _) & _).
    pose proof (group_id_top id Hgid) as Htop.
    unfold g_exec_units in Hex.
    destruct (top_planned gi s id) eqn:Etp; [discriminate|].
    destruct (top_fixed gi id); [discriminate|]. cbn [orb] in Hex.
    pose proof (ginv_top_unplanned gi s id HG Htop Etp) as Hun.
    pose proof (routes_ok_ext inp s _ (move_to_planned_routes s id) Hok) as Hok1.
    assert (Hmem : forall sb, In sb subs -> member_group gi (sb_unit sb) <> None).
    { intros sb Hsb. apply (member_is_member gi Hwg id (sb_unit sb) Hgid).
      apply Hin1. apply in_map. exact Hsb. }
    destruct (exec_subs_done_full id subs _ [] s' Hok1 Hfr Hmem Hex)
      as (Hok' & Cp & Cu & Cf & Hpl & Hsc).
    unfold move_to_planned, with_colls in Cp, Cu, Cf. cbn [st_planned st_unplanned st_fixed] in Cp, Cu, Cf.
    assert (HG' : GInv_ns gi s').
    { apply (transfer_plan gi Hwg s s' id HG Htop Hun Hok').
      - rewrite Cp. apply NoDup_coll_add. exact Hndp.
      - rewrite Cu. apply NoDup_coll_remove. exact Hndu.
      - rewrite Cf. exact Hfx.
      - intros x. rewrite Cp. apply In_coll_add.
      - intros x. rewrite Cu. apply In_coll_remove.
      - intros m. rewrite (Hpl m).
        rewrite (unit_planned_ext inp s (move_to_planned s id) m (move_to_planned_routes s id)).
        split; (intros [H|H]; [left|right; exact H]); [apply Hin1|apply Hin2]; exact H. }
    split; [exact HG'|]. split.
    - apply Hsc. left. intros ->. cbn [map] in Hin2.
      destruct (nonempty_has_elem _ (top_members_nonempty gi Hwg id Htop)) as (m & Hm).
      exact (Hin2 m Hm).
    - split; [exact Hun|].
      assert (Hinp : In id (st_planned s')) by (rewrite Cp; apply In_coll_add; left; reflexivity).
      split; [exact Hinp|]. apply (proj1 (proj2 (proj2 HG') id Htop)). exact Hinp.
  Qed.

  Lemma GInv_exec_units_done_proof (s s' : state) (id : nat) (subs : list submove) :
    GInv_ns gi s -> group_id id ->
    subs_fresh gi (move_to_planned s id) subs ->
    incl (map sb_unit subs) (members_of gi id) -> incl (members_of gi id) (map sb_unit subs) ->
    g_exec_units gi s id subs = (s', Done) ->
    GInv gi s' /\ In id (st_planned s') /\ top_planned gi s' id = true.
  Proof.
    intros HG Hgid Hfr Hin1 Hin2 Hex.
    destruct (exec_units_done_ns s s' id subs HG Hgid Hfr Hin1 Hin2 Hex) as (A & B & _ & C & D).
    split; [split; assumption|split; assumption].
  Qed.

  (* ---- 5. the units move does not answer Done ---------------------------- *)

  Lemma undo_members_colls (id : nat) :
    forall (done : list nat) (s s' : state),
      undo_members gi s done = (s', true) ->
      (forall m, In m done -> top_of gi m = id) ->
      ~ In id (st_planned s) -> In id (st_unplanned s) ->
      st_planned s' = st_planned s /\ st_unplanned s' = st_unplanned s /\ st_fixed s' = st_fixed s.
  Proof.
    induction done as [|m rest IH]; intros s s' Hun Htops Hnp Hiu.
    - cbn [undo_members] in Hun. injection Hun as <-. repeat split.
    - cbn [undo_members] in Hun.
      destruct (g_unplan_unit gi s m) as [s1 r1] eqn:Eu.
      destruct r1 as [|k| |]; try discriminate.
      destruct (g_unplan_unit_colls gi s s1 m Done Eu) as (_ & Cd & _).
      destruct (Cd eq_refl) as (Cp & Cu & Cf & _).
      rewrite (Htops m (or_introl eq_refl)) in Cp, Cu.
      rewrite (coll_remove_notin _ _ Hnp) in Cp. rewrite (coll_add_in _ _ Hiu) in Cu.
      destruct (IH s1 s' Hun (fun m' H => Htops m' (or_intror H))) as (Cp' & Cu' & Cf').
      + rewrite Cp. exact Hnp.
      + rewrite Cu. exact Hiu.
      + split; [congruence|]. split; congruence.
  Qed.

  Lemma exec_subs_notdone_colls (id : nat) :
    forall (subs : list submove) (s : state) (done : list nat) (s' : state) (r : result),
      (forall sb, In sb subs -> member_group gi (sb_unit sb) <> None) ->
      (forall sb, In sb subs -> top_of gi (sb_unit sb) = id) ->
      (forall m, In m done -> top_of gi m = id) ->
      exec_subs gi id s subs done = (s', r) -> r <> Done -> r <> UndoFailed ->
      st_planned s' = coll_remove id (st_planned s) /\
      st_unplanned s' = coll_add id (st_unplanned s) /\ st_fixed s' = st_fixed s.
  Proof.
    induction subs as [|sb rest IH]; intros s done s' r Hmem Htop Hdone Hex Hnd Hnu.
    - cbn [exec_subs] in Hex. injection Hex as _ <-. congruence.
    - cbn [exec_subs] in Hex.
      destruct (g_exec_move gi s (sub_to_move s sb)) as [s1 r1] eqn:Em.
      assert (Hm1 : member_group gi (mv_unit (sub_to_move s sb)) <> None).
      { apply Hmem. left; reflexivity. }
      destruct (g_exec_move_member_colls gi s s1 _ r1 Hm1 Em) as (Cp & Cu & Cf & _).
      assert (Hfail : forall r2,
                (let s2 := move_to_unplanned s1 id in
                 let '(s3, ok) := undo_members gi s2 done in
                 (s3, if ok then r2 else UndoFailed)) = (s', r) ->
                st_planned s' = coll_remove id (st_planned s) /\
                st_unplanned s' = coll_add id (st_unplanned s) /\ st_fixed s' = st_fixed s).
      { intros r2 H. cbv zeta in H.
        destruct (undo_members gi (move_to_unplanned s1 id) done) as [s3 ok] eqn:Eun.
        destruct ok; [|injection H as _ <-; congruence]. injection H as <- _.
        destruct (undo_members_colls id done _ s3 Eun Hdone) as (Cp' & Cu' & Cf').
        - unfold move_to_unplanned, with_colls. cbn [st_planned].
          intros H. apply In_coll_remove in H. destruct H as (_ & H). congruence.
        - unfold move_to_unplanned, with_colls. cbn [st_unplanned].
          apply In_coll_add. left; reflexivity.
        - unfold move_to_unplanned, with_colls in Cp', Cu', Cf'.
          cbn [st_planned st_unplanned st_fixed] in Cp', Cu', Cf'.
          rewrite Cp', Cu', Cf', Cp, Cu, Cf. repeat split. }
      destruct r1 as [|k| |]; [|exact (Hfail _ Hex)..].
      destruct (IH s1 (sb_unit sb :: done) s' r (fun sb' H => Hmem sb' (or_intror H))
                  (fun sb' H => Htop sb' (or_intror H))) as (Cp' & Cu' & Cf'); try assumption.
      + intros m [<-|Hm]; [apply Htop; left; reflexivity|exact (Hdone m Hm)].
      + rewrite Cp', Cu', Cf', Cp, Cu, Cf. repeat split.
  Qed.

  Lemma GInv_exec_units_not_done_proof (s s' : state) (id : nat) (subs : list submove) (r : result) :
    GInv_ns gi s -> group_id id ->
    subs_fresh gi (move_to_planned s id) subs ->
    incl (map sb_unit subs) (members_of gi id) ->
    g_exec_units gi s id subs = (s', r) -> r <> Done ->
    r <> UndoFailed /\ GInv_ns gi s' /\ st_routes s' = st_routes s.
  Proof.
    intros HG Hgid Hfr Hin1 Hex Hnd. pose proof HG as (Hok & (Hndp & Hndu & Hfx & _) & _).
    pose proof (group_id_top id Hgid) as Htop.
    destruct (g_exec_units_routes_all_or_nothing_proof gi s id subs s' r Hwf Hok Hfr Hex)
      as (Hnu & _ & Hrb).
    split; [exact Hnu|]. split; [|exact (Hrb Hnd)].
    unfold g_exec_units in Hex.
    destruct (top_planned gi s id) eqn:Etp; [injection Hex as <- _; exact HG|].
    destruct (top_fixed gi id); [injection Hex as <- _; exact HG|]. cbn [orb] in Hex.
    pose proof (ginv_top_unplanned gi s id HG Htop Etp) as Hun.
    pose proof (ginv_unplanned_not_planned gi s id HG Hun) as Hnp.
    assert (Hmem : forall sb, In sb subs -> member_group gi (sb_unit sb) <> None).
    { intros sb Hsb. apply (member_is_member gi Hwg id (sb_unit sb) Hgid).
      apply Hin1. apply in_map. exact Hsb. }
    assert (Htops : forall sb, In sb subs -> top_of gi (sb_unit sb) = id).
    { intros sb Hsb. apply (top_member gi Hwg id (sb_unit sb) Htop).
      apply Hin1. apply in_map. exact Hsb. }
    destruct (exec_subs_notdone_colls id subs _ [] s' r Hmem Htops (fun m (H : In m []) => match H with end)
                Hex Hnd Hnu) as (Cp & Cu & Cf).
    unfold move_to_planned, with_colls in Cp, Cu, Cf. cbn [st_planned st_unplanned st_fixed] in Cp, Cu, Cf.
    apply (transfer_same gi s s' HG (Hrb Hnd)).
    - rewrite Cp. apply NoDup_coll_remove, NoDup_coll_add. exact Hndp.
    - rewrite Cu. apply NoDup_coll_add, NoDup_coll_remove. exact Hndu.
    - rewrite Cf. exact Hfx.
    - intros x. rewrite Cp, (coll_remove_add_notin _ _ Hnp). tauto.
    - intros x. rewrite Cu, In_coll_add, In_coll_remove.
      destruct (Nat.eq_dec x id) as [->|Hne]; tauto.
  Qed.

  (* ---- 6. the group un-plan when every member un-plan answers Done -------- *)

  Lemma unplan_loop_spec (id : nat) :
    forall (ms : list nat) (st : state),
      routes_ok inp st -> (forall m, In m ms -> top_of gi m = id) ->
      ~ In id (st_planned st) -> In id (st_unplanned st) ->
      unplan_members_done gi st ms = true ->
      routes_ok inp (unplan_loop gi id ms st) /\
      st_planned (unplan_loop gi id ms st) = st_planned st /\
      st_unplanned (unplan_loop gi id ms st) = st_unplanned st /\
      st_fixed (unplan_loop gi id ms st) = st_fixed st /\
      (forall m, unit_planned inp (unplan_loop gi id ms st) m = true <->
                 ~ In m ms /\ unit_planned inp st m = true) /\
      (scores_fresh gi st \/ (exists m, In m ms /\ unit_planned inp st m = true) ->
       scores_fresh gi (unplan_loop gi id ms st)).
  Proof.
    induction ms as [|m0 rest IH]; intros st Hok Htops Hnp Hiu Hall.
    - unfold unplan_loop. cbn [fold_left]. split; [exact Hok|]. do 3 (split; [reflexivity|]). split.
      + intros m. cbn [In]. tauto.
      + intros [H|(m & [] & _)]. exact H.
    - rewrite !unplan_loop_cons. unfold unplan_step.
      cbn [unplan_members_done] in Hall.
      destruct (unit_planned inp st m0) eqn:Epl.
      + destruct (g_unplan_unit gi st m0) as [st1 r1] eqn:Eu.
        destruct r1 as [|k| |]; try discriminate. cbv beta iota.
        pose proof (unit_planned_lt _ _ _ Epl) as Hm0.
        destruct (g_unplan_unit_routes gi st st1 m0 Done Hwf Hok Hm0 Eu) as (_ & Hok1 & _).
        destruct (g_unplan_unit_colls gi st st1 m0 Done Eu) as (_ & Cd & _).
        destruct (Cd eq_refl) as (Cp & Cu & Cf & Csc).
        rewrite (Htops m0 (or_introl eq_refl)) in Cp, Cu.
        rewrite (coll_remove_notin _ _ Hnp) in Cp. rewrite (coll_add_in _ _ Hiu) in Cu.
        pose proof (g_unplan_unit_done_planned_iff gi st st1 m0 Hwf Hok Eu) as Hpl1.
        destruct (IH st1 Hok1 (fun m' H => Htops m' (or_intror H))) as (Hok' & Cp' & Cu' & Cf' & Hpl' & Hsc');
          [rewrite Cp; exact Hnp|rewrite Cu; exact Hiu|exact Hall|].
        split; [exact Hok'|]. split; [congruence|]. split; [congruence|]. split; [congruence|]. split.
        * intros m. rewrite (Hpl' m), (Hpl1 m). cbn [In]. intuition congruence.
        * intros _. apply Hsc'. left. exact Csc.
      + destruct (IH st Hok (fun m' H => Htops m' (or_intror H)) Hnp Hiu Hall)
          as (Hok' & Cp' & Cu' & Cf' & Hpl' & Hsc').
        split; [exact Hok'|]. split; [exact Cp'|]. split; [exact Cu'|]. split; [exact Cf'|]. split.
        * intros m. rewrite (Hpl' m). cbn [In]. split.
          -- intros (A & B). split; [|exact B]. intros [<-|H]; [congruence|exact (A H)].
          -- intros (A & B). split; [|exact B]. intros H. apply A. right; exact H.
        * intros [H|(m & [<-|Hm] & Hp)]; [apply Hsc'; left; exact H|congruence|].
          apply Hsc'. right. exists m. split; assumption.
  Qed.

  Lemma GInv_unplan_group_all_done_proof (s s' : state) (id : nat) (r : result) :
    no_initial gi -> GInv_ns gi s -> group_id id -> In id (st_planned s) ->
    unplan_group_all_done gi s id = true ->
    g_unplan_group gi s id = (s', r) ->
    r = Done /\ GInv gi s' /\ In id (st_unplanned s') /\ ~ In id (st_planned s') /\
    forall m, In m (members_of gi id) -> unit_planned inp s' m = false.
  Proof.
    intros Hni HG Hgid Hinp Hall Hex. pose proof HG as (Hok & (Hndp & Hndu & Hfx & _) & Hgw).
    pose proof (group_id_top id Hgid) as Htop.
    pose proof (proj1 (proj1 (Hgw id Htop)) Hinp) as Etp.
    rewrite g_unplan_group_unfold, Etp, (top_fixed_flat gi id Hni) in Hex. cbn [negb orb] in Hex.
    injection Hex as <- <-. split; [reflexivity|].
    pose proof (routes_ok_ext inp s _ (move_to_unplanned_routes s id) Hok) as Hok1.
    destruct (unplan_loop_spec id (members_of gi id) (move_to_unplanned s id) Hok1) as
      (Hok' & Cp & Cu & Cf & Hpl & Hsc).
    { intros m Hm. exact (proj2 (top_member gi Hwg id m Htop Hm)). }
    { unfold move_to_unplanned, with_colls. cbn [st_planned].
      intros H. apply In_coll_remove in H. destruct H as (_ & H). congruence. }
    { unfold move_to_unplanned, with_colls. cbn [st_unplanned]. apply In_coll_add. left; reflexivity. }
    { exact Hall. }
    set (s2 := unplan_loop gi id (members_of gi id) (move_to_unplanned s id)) in *.
    unfold move_to_unplanned, with_colls in Cp, Cu, Cf. cbn [st_planned st_unplanned st_fixed] in Cp, Cu, Cf.
    assert (HG' : GInv_ns gi s2).
    { apply (transfer_unplan gi Hwg s s2 id HG Htop Hinp Hok').
      - rewrite Cp. apply NoDup_coll_remove. exact Hndp.
      - rewrite Cu. apply NoDup_coll_add. exact Hndu.
      - rewrite Cf. exact Hfx.
      - intros x. rewrite Cp. apply In_coll_remove.
      - intros x. rewrite Cu. apply In_coll_add.
      - intros m. rewrite (Hpl m).
        rewrite (unit_planned_ext inp s (move_to_unplanned s id) m (move_to_unplanned_routes s id)).
        tauto. }
    assert (Hinu : In id (st_unplanned s2)) by (rewrite Cu; apply In_coll_add; left; reflexivity).
    split; [split; [exact HG'|]|].
    - apply Hsc. right. apply top_planned_iff in Etp. destruct Etp as (Hnon & Hallp).
      destruct (nonempty_has_elem _ Hnon) as (m & Hm). exists m. split; [exact Hm|].
      rewrite (unit_planned_ext inp s (move_to_unplanned s id) m (move_to_unplanned_routes s id)).
      exact (Hallp m Hm).
    - split; [exact Hinu|]. split.
      + intros H. exact (ginv_unplanned_not_planned gi s2 id HG' Hinu H).
      + exact (proj2 (proj2 (proj2 HG') id Htop) Hinu).
  Qed.

End GroupOps.

(* ================================================================== *)
(* Part 6.  Histories of group-level operations                        *)
(* ================================================================== *)

(* (this [gop] is not the [gop] of Proofs/Units_proofs.v, which lists the raw
   operations of the flat correspondence) *)
Inductive gop :=
| GPlanUnit (mv : move)
| GUnplanUnit (u : nat)
| GPlanGroup (id : nat) (subs : list submove)
| GUnplanGroup (id : nat).

Definition gop_step (gi : ginput) (s : state) (o : gop) : state * result :=
  match o with
  | GPlanUnit mv => g_exec_move gi s mv
  | GUnplanUnit u => g_unplan_unit gi s u
  | GPlanGroup id subs => g_exec_units gi s id subs
  | GUnplanGroup id => g_unplan_group gi s id
  end.

(* the side conditions of the single-step theorems; the two group operations
   are asked to SUCCEED *)
Definition gop_ok (gi : ginput) (s : state) (o : gop) : Prop :=
  match o with
  | GPlanUnit mv => member_group gi (mv_unit mv) = None /\ move_ok (gi_inp gi) s mv
  | GUnplanUnit u => member_group gi u = None
  | GPlanGroup id subs =>
      group_id gi id /\ In id (st_unplanned s) /\
      subs_fresh gi (move_to_planned s id) subs /\
      Permutation (map sb_unit subs) (members_of gi id) /\
      snd (g_exec_units gi s id subs) = Done
  | GUnplanGroup id =>
      group_id gi id /\ In id (st_planned s) /\ unplan_group_all_done gi s id = true
  end.

(* the same, but a units move may be rejected: enough for (i)-(iii) *)
Definition gop_ok_ns (gi : ginput) (s : state) (o : gop) : Prop :=
  match o with
  | GPlanUnit mv => member_group gi (mv_unit mv) = None /\ move_ok (gi_inp gi) s mv
  | GUnplanUnit u => member_group gi u = None
  | GPlanGroup id subs =>
      group_id gi id /\
      subs_fresh gi (move_to_planned s id) subs /\
      incl (map sb_unit subs) (members_of gi id) /\
      (snd (g_exec_units gi s id subs) = Done -> incl (members_of gi id) (map sb_unit subs))
  | GUnplanGroup id =>
      group_id gi id /\ In id (st_planned s) /\ unplan_group_all_done gi s id = true
  end.

Fixpoint gops_ok (gi : ginput) (s : state) (h : list gop) : Prop :=
  match h with
  | [] => True
  | o :: h' => gop_ok gi s o /\ gops_ok gi (fst (gop_step gi s o)) h'
  end.
Fixpoint gops_ok_ns (gi : ginput) (s : state) (h : list gop) : Prop :=
  match h with
  | [] => True
  | o :: h' => gop_ok_ns gi s o /\ gops_ok_ns gi (fst (gop_step gi s o)) h'
  end.
(* the states met, the start state included *)
Fixpoint gops_run (gi : ginput) (s : state) (h : list gop) : list state :=
  match h with [] => [s] | o :: h' => s :: gops_run gi (fst (gop_step gi s o)) h' end.
(* the answers given *)
Fixpoint gops_answers (gi : ginput) (s : state) (h : list gop) : list result :=
  match h with [] => [] | o :: h' => snd (gop_step gi s o) :: gops_answers gi (fst (gop_step gi s o)) h' end.

Lemma gop_ok_weaken (gi : ginput) (s : state) (o : gop) : gop_ok gi s o -> gop_ok_ns gi s o.
Proof.
  destruct o as [mv|u|id subs|id]; cbn [gop_ok gop_ok_ns]; try tauto.
  intros (A & _ & B & P & _). split; [exact A|]. split; [exact B|]. split.
  - intros x Hx. exact (Permutation_in x P Hx).
  - intros _ x Hx. exact (Permutation_in x (Permutation_sym P) Hx).
Qed.

Section History.
  Variable gi : ginput.
  Hypothesis Hwf : wf_input (gi_inp gi).
  Hypothesis Hwg : wf_ginput gi.
  Hypothesis Hni : no_initial gi.

  Lemma gop_step_ns (s : state) (o : gop) :
    GInv_ns gi s -> gop_ok_ns gi s o ->
    snd (gop_step gi s o) <> UndoFailed /\ GInv_ns gi (fst (gop_step gi s o)).
  Proof.
    intros HG Hop. destruct o as [mv|u|id subs|id]; cbn [gop_step gop_ok_ns] in *.
    - destruct Hop as (Hmem & Hmv). destruct (g_exec_move gi s mv) as [s' r] eqn:E.
      destruct (exec_move_nonmember_ns gi Hwf Hwg s s' mv r HG Hmem Hmv E) as (A & B & _).
      split; assumption.
    - destruct (g_unplan_unit gi s u) as [s' r] eqn:E.
      destruct (unplan_nonmember_ns gi Hwf Hwg s s' u r HG Hop E) as (A & B & _).
      split; assumption.
    - destruct Hop as (Hgid & Hfr & Hin1 & Hin2).
      destruct (g_exec_units gi s id subs) as [s' r] eqn:E. cbn [fst snd] in *.
      destruct r as [|k| |].
      + destruct (exec_units_done_ns gi Hwf Hwg s s' id subs HG Hgid Hfr Hin1 (Hin2 eq_refl) E)
          as (A & _). split; [discriminate|exact A].
      + destruct (GInv_exec_units_not_done_proof gi Hwf Hwg s s' id subs _ HG Hgid Hfr Hin1 E)
          as (A & B & _); [discriminate|]. split; assumption.
      + destruct (GInv_exec_units_not_done_proof gi Hwf Hwg s s' id subs _ HG Hgid Hfr Hin1 E)
          as (A & B & _); [discriminate|]. split; assumption.
      + destruct (GInv_exec_units_not_done_proof gi Hwf Hwg s s' id subs _ HG Hgid Hfr Hin1 E)
          as (A & B & _); [discriminate|]. split; assumption.
    - destruct Hop as (Hgid & Hinp & Hall).
      destruct (g_unplan_group gi s id) as [s' r] eqn:E.
      destruct (GInv_unplan_group_all_done_proof gi Hwf Hwg s s' id r Hni HG Hgid Hinp Hall E)
        as (-> & (A & _) & _). split; [discriminate|exact A].
  Qed.

  Lemma gop_step_ginv (s : state) (o : gop) :
    GInv gi s -> gop_ok gi s o ->
    snd (gop_step gi s o) <> UndoFailed /\ GInv gi (fst (gop_step gi s o)).
  Proof.
    intros HG Hop. destruct o as [mv|u|id subs|id]; cbn [gop_step gop_ok] in *.
    - destruct Hop as (Hmem & Hmv). destruct (g_exec_move gi s mv) as [s' r] eqn:E.
      exact (GInv_exec_move_nonmember_proof gi Hwf Hwg s s' mv r HG Hmem Hmv E).
    - destruct (g_unplan_unit gi s u) as [s' r] eqn:E.
      exact (GInv_unplan_nonmember_proof gi Hwf Hwg s s' u r HG Hop E).
    - destruct Hop as (Hgid & _ & Hfr & P & Hd).
      destruct (g_exec_units gi s id subs) as [s' r] eqn:E. cbn [fst snd] in *. subst r.
      split; [discriminate|].
      apply (GInv_exec_units_done_proof gi Hwf Hwg s s' id subs (proj1 HG) Hgid Hfr); [| |exact E].
      + intros x Hx. exact (Permutation_in x P Hx).
      + intros x Hx. exact (Permutation_in x (Permutation_sym P) Hx).
    - destruct Hop as (Hgid & Hinp & Hall).
      destruct (g_unplan_group gi s id) as [s' r] eqn:E.
      destruct (GInv_unplan_group_all_done_proof gi Hwf Hwg s s' id r Hni (proj1 HG) Hgid Hinp Hall E)
        as (-> & A & _). split; [discriminate|exact A].
  Qed.

  Lemma gops_run_ginv_from :
    forall (h : list gop) (s : state),
      GInv gi s -> gops_ok gi s h ->
      Forall (GInv gi) (gops_run gi s h) /\ Forall (fun r => r <> UndoFailed) (gops_answers gi s h).
  Proof.
    induction h as [|o h IH]; intros s HG Hok; cbn [gops_run gops_answers].
    - split; constructor; [exact HG|constructor].
    - cbn [gops_ok] in Hok. destruct Hok as (Hop & Hrest).
      destruct (gop_step_ginv s o HG Hop) as (A & B).
      destruct (IH _ B Hrest) as (C & D).
      split; constructor; assumption.
  Qed.

  Lemma gops_run_ns_from :
    forall (h : list gop) (s : state),
      GInv_ns gi s -> gops_ok_ns gi s h ->
      Forall (GInv_ns gi) (gops_run gi s h) /\ Forall (fun r => r <> UndoFailed) (gops_answers gi s h).
  Proof.
    induction h as [|o h IH]; intros s HG Hok; cbn [gops_run gops_answers].
    - split; constructor; [exact HG|constructor].
    - cbn [gops_ok_ns] in Hok. destruct Hok as (Hop & Hrest).
      destruct (gop_step_ns s o HG Hop) as (A & B).
      destruct (IH _ B Hrest) as (C & D).
      split; constructor; assumption.
  Qed.

  Theorem GInv_history_proof (s0 : state) (h : list gop) :
    g_new_solution gi = Some s0 -> gops_ok gi s0 h ->
    Forall (GInv gi) (gops_run gi s0 h) /\ Forall (fun r => r <> UndoFailed) (gops_answers gi s0 h).
  Proof.
    intros Hns Hok. exact (gops_run_ginv_from h s0 (GInv_start_proof gi Hwf Hwg s0 Hni Hns) Hok).
  Qed.

  Theorem GInv_ns_history_proof (s0 : state) (h : list gop) :
    g_new_solution gi = Some s0 -> gops_ok_ns gi s0 h ->
    Forall (GInv_ns gi) (gops_run gi s0 h) /\ Forall (fun r => r <> UndoFailed) (gops_answers gi s0 h).
  Proof.
    intros Hns Hok.
    exact (gops_run_ns_from h s0 (proj1 (GInv_start_proof gi Hwf Hwg s0 Hni Hns)) Hok).
  Qed.

End History.

(* ================================================================== *)
(* Part 7.  The output                                                 *)
(* ================================================================== *)

Lemma g_format_unplanned (gi : ginput) (s : state) :
  out_unplanned (g_format_solution gi s)
  = flat_map (fun u => iu_stops (get_unit (gi_inp gi) u)) (flat_map (members_of gi) (st_unplanned s)).
Proof. rewrite flat_map_flat_map. reflexivity. Qed.

Lemma g_format_rest (gi : ginput) (s : state) :
  out_vehicles (g_format_solution gi s) = out_vehicles (format_solution (gi_inp gi) s) /\
  out_terms (g_format_solution gi s) = st_scores s /\ out_total (g_format_solution gi s) = st_total s.
Proof. repeat split. Qed.

Section Output.
  Variable gi : ginput.
  Hypothesis Hwf : wf_input (gi_inp gi).
  Hypothesis Hwg : wf_ginput gi.
  Local Notation inp := (gi_inp gi).

  Lemma NoDup_flat_map_members (l : list nat) :
    NoDup l -> (forall id, In id l -> is_top gi id) -> NoDup (flat_map (members_of gi) l).
  Proof.
    induction 1 as [|a l Hn Hnd IH]; intros Htop; cbn [flat_map]; [constructor|].
    apply NoDup_app_iff. split; [apply (top_members_NoDup gi Hwg), Htop; left; reflexivity|].
    split; [apply IH; intros id Hid; apply Htop; right; exact Hid|].
    intros m Hm Hm'. apply in_flat_map in Hm'. destruct Hm' as (a' & Ha' & Hm').
    assert (a = a').
    { apply (tops_disjoint gi Hwg a a' m); try assumption;
        apply Htop; [left; reflexivity|right; exact Ha']. }
    subst a'. exact (Hn Ha').
  Qed.

  Theorem GInv_format_each_stop_once_proof (s : state) :
    GInv_ns gi s ->
    Permutation (out_unplanned (g_format_solution gi s) ++ interior_stops s) (seq 0 (nstops inp)).
  Proof.
    intros (Hok & (_ & Hnu & _ & Hin & Hcov & _) & Hgw).
    pose proof Hok as (Hc & _ & Hni & Hper & _). pose proof Hc as (Hlen & _).
    rewrite g_format_unplanned.
    set (M := flat_map (members_of gi) (st_unplanned s)).
    set (U := flat_map (fun u => iu_stops (get_unit inp u)) M).
    assert (HinM : forall m, In m M -> exists id, In id (st_unplanned s) /\ is_top gi id /\
                                                  In m (members_of gi id)).
    { intros m Hm. apply in_flat_map in Hm. destruct Hm as (id & Hid & Hm).
      exists id. split; [exact Hid|]. split; [apply Hin; right; exact Hid|exact Hm]. }
    assert (HltM : forall m, In m M -> m < nunits inp).
    { intros m Hm. destruct (HinM m Hm) as (id & _ & Ht & Hmid).
      exact (proj1 (top_member gi Hwg id m Ht Hmid)). }
    assert (HinU : forall x, In x U <-> exists m, In m M /\ In x (iu_stops (get_unit inp m))).
    { intros x. unfold U. apply in_flat_map. }
    assert (Hoff : forall x, In x U -> stop_on_route s x = false).
    { intros x Hx. apply HinU in Hx. destruct Hx as (m & Hm & Hxm).
      destruct (HinM m Hm) as (id & Hid & Ht & Hmid).
      pose proof (proj2 (Hgw id Ht) Hid m Hmid) as Hnpl.
      destruct (Hper m (HltM m Hm)) as [C|C]; [congruence|exact (C x Hxm)]. }
    apply NoDup_Permutation.
    - apply NoDup_app_iff. split; [|split; [exact Hni|]].
      + unfold U, get_unit.
        apply (NoDup_flat_map_nth iu_stops (mkIUnit [] []) (in_units inp) (proj1 Hwf) M).
        * apply (NoDup_flat_map_members _ Hnu). intros id Hid. apply Hin. right; exact Hid.
        * exact HltM.
      + intros x HxU Hxi. apply Hoff in HxU.
        apply (In_interior_stops inp s x Hc) in Hxi. destruct Hxi as (_ & v & Hv & Hinv).
        assert (Hon : stop_on_route s x = true).
        { apply stop_on_route_iff. exists v. rewrite Hlen. split; assumption. }
        congruence.
    - apply seq_NoDup.
    - intros x. rewrite in_seq, in_app_iff. split.
      + intros [Hx|Hx]; (split; [lia|cbn [Nat.add]]).
        * apply HinU in Hx. destruct Hx as (m & Hm & Hxm).
          exact (unit_stops_lt inp m x Hwf (HltM m Hm) Hxm).
        * apply (In_interior_stops inp s x Hc) in Hx. exact (proj1 Hx).
      + intros (_ & Hx). cbn [Nat.add] in Hx.
        destruct (stop_has_unit inp x Hwf Hx) as (u & Hu & Hxu).
        destruct (top_of_is_top gi u Hu) as (Ht & Hmem).
        destruct (Hcov _ Ht) as [Hp|Hun].
        * right. apply (Hgw _ Ht) in Hp. apply top_planned_iff in Hp. destruct Hp as (_ & Hall).
          specialize (Hall u Hmem). apply unit_planned_iff in Hall. destruct Hall as (_ & Hall).
          specialize (Hall x Hxu). apply stop_on_route_iff in Hall.
          destruct Hall as (v & Hv & Hinv). rewrite Hlen in Hv.
          apply (In_interior_stops inp s x Hc). split; [exact Hx|]. exists v. split; assumption.
        * left. apply HinU. exists u. split; [|exact Hxu].
          unfold M. apply in_flat_map. exists (top_of gi u). split; assumption.
  Qed.

  (* the reported objective: the sum of the reported terms, which are the
     recomputation of the terms on the solution *)
  Lemma GInv_format_total_proof (s : state) :
    GInv gi s ->
    out_total (g_format_solution gi s) = sumZ (out_terms (g_format_solution gi s)) /\
    out_terms (g_format_solution gi s) = g_score_terms gi s.
  Proof.
    intros (_ & (A & B)). destruct (g_format_rest gi s) as (_ & -> & ->).
    rewrite B, A. split; reflexivity.
  Qed.

End Output.

(* ================================================================== *)
(* Part 8.  Non-vacuity                                                *)
(* ================================================================== *)

(* One vehicle of capacity 1, three stops, one stops unit per stop.  Stop 0
   picks up 1, stop 1 delivers 1 (as in w_inp of Proofs/Units_proofs.v), stop 2
   carries nothing.  Units 0 and 1 form ONE group (top-level id 3), listed as
   [1; 0]: the group un-plan removes stop 1 first and then stop 0, both
   feasible (with the order [0; 1] the first member un-plan is rejected: N2).
   Unit 2 is free. *)
Definition e_mat : list (list Z) :=
  [[0;1;1;1;1];[1;0;1;1;1];[1;1;0;1;1];[1;1;1;0;1];[1;1;1;1;0]]%Z.
Definition e_inp : input :=
  mkInput [] [mkIStop [(-1)%Z] 0%Z [] None 10%Z [] None 0%Z 0%Z; mkIStop [1%Z] 0%Z [] None 10%Z [] None 0%Z 0%Z;
              mkIStop [0%Z] 0%Z [] None 7%Z [] None 0%Z 0%Z]
          [mkIVehicle (Some [1%Z]) [0%Z] 0%Z None None None None None [] 0%Z true true 0%Z 0%Z 1%Z 1%Z]
          [mkIUnit [0] []; mkIUnit [1] []; mkIUnit [2] []]
          e_mat e_mat 1 w_opts [].
Definition e_gi : ginput := mkGInput e_inp [[1; 0]] [[]].
Definition e_gid : nat := 3.
(* stop 0 in front of the last stop (4), then stop 1 in front of the last stop *)
Definition e_subs : list submove := [mkSub 0 0 [(0, 4)]; mkSub 1 0 [(1, 4)]].
Definition e_mv2 : move := mkMove 2 0 [(2, 1)].
Definition e_h : list gop := [GPlanGroup e_gid e_subs; GPlanUnit e_mv2; GUnplanGroup e_gid].

Definition e_s0 : state :=
  Eval vm_compute in match g_new_solution e_gi with Some s => s | None => w_dummy end.
Definition e_s1 : state := Eval vm_compute in fst (gop_step e_gi e_s0 (GPlanGroup e_gid e_subs)).
Definition e_s2 : state := Eval vm_compute in fst (gop_step e_gi e_s1 (GPlanUnit e_mv2)).
Definition e_s3 : state := Eval vm_compute in fst (gop_step e_gi e_s2 (GUnplanGroup e_gid)).

Lemma e_wf : wf_input e_inp.
Proof.
  split; [|split; [|split; [|split; [exact (Forall_nil _)|mult_wf]]]].
  - vm_compute. repeat (constructor; [simpl; lia|]). constructor.
  - intros x. vm_compute. lia.
  - intros u Hu. vm_compute in Hu. destruct Hu as [<-|[<-|[<-|[]]]]; discriminate.
Qed.

Lemma e_wfg : wf_ginput e_gi.
Proof.
  split; [|split].
  - constructor; [discriminate|constructor].
  - vm_compute. repeat (constructor; [simpl; lia|]). constructor.
  - vm_compute. repeat (constructor; [lia|]). constructor.
Qed.

Lemma e_no_initial : no_initial e_gi.
Proof. constructor; [reflexivity|constructor]. Qed.

Lemma e_new : g_new_solution e_gi = Some e_s0.
Proof. vm_compute. reflexivity. Qed.
Lemma e_step1 : gop_step e_gi e_s0 (GPlanGroup e_gid e_subs) = (e_s1, Done).
Proof. vm_compute. reflexivity. Qed.
Lemma e_step2 : gop_step e_gi e_s1 (GPlanUnit e_mv2) = (e_s2, Done).
Proof. vm_compute. reflexivity. Qed.
Lemma e_step3 : gop_step e_gi e_s2 (GUnplanGroup e_gid) = (e_s3, Done).
Proof. vm_compute. reflexivity. Qed.

Lemma e_subs_fresh : subs_fresh e_gi (move_to_planned e_s0 e_gid) e_subs.
Proof.
  cbn [subs_fresh e_subs]. split; [solve_move_ok|].
  intros s1 H1. vm_compute in H1. injection H1 as <-.
  split; [solve_move_ok|]. intros s2 _. exact I.
Qed.

(* every operation of the history meets its side conditions on the state it
   is executed on *)
Example e_history_ok : gops_ok e_gi e_s0 e_h.
Proof.
  unfold e_h. cbn [gops_ok]. rewrite e_step1. cbn [fst]. rewrite e_step2. cbn [fst].
  split; [|split; [|split; [|exact I]]].
  - cbn [gop_ok]. split; [exists 0; split; [reflexivity|vm_compute; lia]|].
    split; [vm_compute; tauto|]. split; [exact e_subs_fresh|].
    split; [vm_compute; apply perm_swap|].
    change (snd (gop_step e_gi e_s0 (GPlanGroup e_gid e_subs)) = Done). rewrite e_step1. reflexivity.
  - cbn [gop_ok]. split; [reflexivity|solve_move_ok].
  - cbn [gop_ok]. split; [exists 0; split; [reflexivity|vm_compute; lia]|].
    split; [vm_compute; tauto|]. vm_compute. reflexivity.
Qed.

Example e_history_states : gops_run e_gi e_s0 e_h = [e_s0; e_s1; e_s2; e_s3].
Proof.
  unfold e_h. cbn [gops_run]. rewrite e_step1. cbn [fst]. rewrite e_step2. cbn [fst].
  rewrite e_step3. reflexivity.
Qed.

Example e_history_answers : gops_answers e_gi e_s0 e_h = [Done; Done; Done].
Proof. vm_compute. reflexivity. Qed.

(* ... so every state of the history satisfies the invariant (by the theorem,
   not by computation) *)
Example e_history_ginv : Forall (GInv e_gi) [e_s0; e_s1; e_s2; e_s3].
Proof.
  rewrite <- e_history_states.
  exact (proj1 (GInv_history_proof e_gi e_wf e_wfg e_no_initial e_s0 e_h e_new e_history_ok)).
Qed.

(* what the states look like: routes, planned, unplanned, total *)
Example e_history_shape :
  map (fun s => (map route_stops (st_routes s), st_planned s, st_unplanned s, st_total s))
      [e_s0; e_s1; e_s2; e_s3]
  = [([[3; 4]], [], [2; 3], 28%Z);
     ([[3; 0; 1; 4]], [3], [2], 10%Z);
     ([[3; 2; 0; 1; 4]], [3; 2], [], 4%Z);
     ([[3; 2; 4]], [2], [3], 22%Z)].
Proof. vm_compute. reflexivity. Qed.

(* the formatted output lists every stop once, in every state of the history *)
Example e_history_output :
  map (fun s => (out_unplanned (g_format_solution e_gi s), interior_stops s))
      [e_s0; e_s1; e_s2; e_s3]
  = [([2; 1; 0], []); ([2], [0; 1]); ([], [2; 0; 1]); ([1; 0], [2])].
Proof. vm_compute. reflexivity. Qed.

Example e_final_output_perm :
  Permutation (out_unplanned (g_format_solution e_gi e_s3) ++ interior_stops e_s3) (seq 0 (nstops e_inp)).
Proof.
  pose proof e_history_ginv as H. rewrite Forall_forall in H.
  apply (GInv_format_each_stop_once_proof e_gi e_wf e_wfg e_s3).
  apply (H e_s3). right; right; right; left; reflexivity.
Qed.

(* the "succeeds" condition of GUnplanGroup is not vacuous: on the witness run
   of Proofs/Units_proofs.v (group listed as [0; 1]) the replay answers false;
   that is defect N2 *)
Example w_unplan_group_not_all_done : unplan_group_all_done w_gi w_s1 w_gid = false.
Proof. vm_compute. reflexivity. Qed.

(* ================================================================== *)
(* The definitions of this file, spelled out (for Props/GroupInv.v)     *)
(* ================================================================== *)

Lemma wf_ginput_unfold_proof : forall gi,
  wf_ginput gi <->
  Forall (fun g => g <> []) (gi_groups gi) /\
  NoDup (concat (gi_groups gi)) /\
  Forall (fun u => u < nunits_of gi) (concat (gi_groups gi)).
Proof. intros gi. reflexivity. Qed.

Lemma is_top_unfold_proof : forall gi id,
  is_top gi id <->
  (id < nunits_of gi /\ member_group gi id = None) \/
  (exists g, id = nunits_of gi + g /\ g < length (gi_groups gi)).
Proof. intros gi id. reflexivity. Qed.

Lemma group_id_unfold_proof : forall gi id,
  group_id gi id <-> exists g, id = nunits_of gi + g /\ g < length (gi_groups gi).
Proof. intros gi id. reflexivity. Qed.

Lemma GInv_unfold_proof : forall gi s,
  GInv gi s <->
  ((* i *) routes_ok (gi_inp gi) s /\
   (* ii *) (NoDup (st_planned s) /\ NoDup (st_unplanned s) /\ st_fixed s = [] /\
             (forall id, In id (st_planned s) \/ In id (st_unplanned s) -> is_top gi id) /\
             (forall id, is_top gi id -> In id (st_planned s) \/ In id (st_unplanned s)) /\
             (forall id, In id (st_planned s) -> In id (st_unplanned s) -> False)) /\
   (* iii *) (forall id, is_top gi id ->
                (In id (st_planned s) <-> top_planned gi s id = true) /\
                (In id (st_unplanned s) ->
                 forall m, In m (members_of gi id) -> unit_planned (gi_inp gi) s m = false))) /\
  (* iv *) (st_scores s = g_score_terms gi s /\ st_total s = sumZ (g_score_terms gi s)).
Proof. intros gi s. reflexivity. Qed.

Lemma GInv_ns_unfold_proof : forall gi s,
  GInv gi s <-> GInv_ns gi s /\ st_scores s = g_score_terms gi s /\ st_total s = sumZ (g_score_terms gi s).
Proof. intros gi s. reflexivity. Qed.

Lemma unplan_group_all_done_unfold_proof : forall gi s id m rest st,
  unplan_group_all_done gi s id
  = unplan_members_done gi (move_to_unplanned s id) (members_of gi id) /\
  unplan_members_done gi st [] = true /\
  unplan_members_done gi st (m :: rest)
  = (if unit_planned (gi_inp gi) st m then
       match g_unplan_unit gi st m with
       | (st', Done) => unplan_members_done gi st' rest
       | _ => false
       end
     else unplan_members_done gi st rest).
Proof. intros. repeat split. Qed.

(* ================================================================== *)
(* Under the invariant the collections are determined by the routes    *)
(* ================================================================== *)

Lemma GInv_ns_colls_determined_proof : forall gi s s',
  GInv_ns gi s -> GInv_ns gi s' -> st_routes s' = st_routes s ->
  same_set (st_planned s') (st_planned s) /\ same_set (st_unplanned s') (st_unplanned s).
Proof.
  intros gi s s' HG HG' Hr.
  assert (Hone : forall a b, GInv_ns gi a -> GInv_ns gi b -> st_routes b = st_routes a ->
            forall id, In id (st_planned b) -> In id (st_planned a)).
  { intros a b (_ & _ & Hga) (_ & (_ & _ & _ & Hinb & _) & Hgb) Hrab id Hid.
    pose proof (Hinb id (or_introl Hid)) as Ht.
    apply (Hga id Ht). rewrite <- (proj1 (proj1 (Hgb id Ht)) Hid). symmetry.
    apply top_planned_congr. intros m _. apply unit_planned_ext. exact Hrab. }
  assert (Htwo : forall a b, GInv_ns gi a -> GInv_ns gi b -> st_routes b = st_routes a ->
            forall id, In id (st_unplanned b) -> In id (st_unplanned a)).
  { intros a b Ha Hb Hrab id Hid.
    pose proof Ha as (_ & (_ & _ & _ & _ & Hcova & _) & _).
    pose proof Hb as (_ & (_ & _ & _ & Hinb & _ & Hexb) & _).
    destruct (Hcova id (Hinb id (or_intror Hid))) as [H|H]; [exfalso|exact H].
    exact (Hexb id (Hone b a Hb Ha (eq_sym Hrab) id H) Hid). }
  split; intros id; split.
  - exact (Hone s s' HG HG' Hr id).
  - exact (Hone s' s HG' HG (eq_sym Hr) id).
  - exact (Htwo s s' HG HG' Hr id).
  - exact (Htwo s' s HG' HG (eq_sym Hr) id).
Qed.

(* ================================================================== *)
(* (iv) is lost by a rejected units move: the witness of N7            *)
(* ================================================================== *)

Lemma w_wfg : wf_ginput w_gi.
Proof.
  split; [|split].
  - constructor; [discriminate|constructor].
  - vm_compute. repeat (constructor; [simpl; lia|]). constructor.
  - vm_compute. repeat (constructor; [lia|]). constructor.
Qed.

Lemma w_subs_bad_fresh : subs_fresh w_gi (move_to_planned w_s0 w_gid) w_subs_bad.
Proof.
  cbn [subs_fresh w_subs_bad]. split; [solve_move_ok|].
  intros s1 H1. vm_compute in H1. discriminate.
Qed.

Theorem GInv_exec_units_rejected_stale_scores_proof :
  exists gi s id subs k s',
    wf_input (gi_inp gi) /\ wf_ginput gi /\ Forall (fun l => l = []) (gi_initial gi) /\
    GInv gi s /\ group_id gi id /\ In id (st_unplanned s) /\
    subs_fresh gi (move_to_planned s id) subs /\
    Permutation (map sb_unit subs) (members_of gi id) /\
    g_exec_units gi s id subs = (s', Rejected k) /\
    GInv_ns gi s' /\ st_total s' <> sumZ (g_score_terms gi s') /\ ~ GInv gi s'.
Proof.
  exists w_gi, w_s0, w_gid, w_subs_bad, (KCapacity 0), (fst (g_exec_units w_gi w_s0 w_gid w_subs_bad)).
  assert (Hni : no_initial w_gi) by (constructor; [reflexivity|constructor]).
  pose proof (GInv_start_proof w_gi w_wf w_wfg w_s0 Hni w_new) as HG.
  assert (Hgid : group_id w_gi w_gid) by (exists 0; split; [reflexivity|vm_compute; lia]).
  assert (Hex : g_exec_units w_gi w_s0 w_gid w_subs_bad
                = (fst (g_exec_units w_gi w_s0 w_gid w_subs_bad), Rejected (KCapacity 0))).
  { vm_compute. reflexivity. }
  assert (Hstale : st_total (fst (g_exec_units w_gi w_s0 w_gid w_subs_bad))
                   <> sumZ (g_score_terms w_gi (fst (g_exec_units w_gi w_s0 w_gid w_subs_bad)))).
  { vm_compute. discriminate. }
  split; [exact w_wf|]. split; [exact w_wfg|]. split; [exact Hni|]. split; [exact HG|].
  split; [exact Hgid|]. split; [vm_compute; tauto|]. split; [exact w_subs_bad_fresh|].
  split; [vm_compute; apply perm_swap|]. split; [exact Hex|].
  split; [|split; [exact Hstale|intros (_ & (_ & H)); exact (Hstale H)]].
  assert (Hincl : incl (map sb_unit w_subs_bad) (members_of w_gi w_gid)).
  { intros x Hx. vm_compute in Hx. vm_compute. tauto. }
  assert (Hnd : Rejected (KCapacity 0) <> Done) by discriminate.
  exact (proj1 (proj2 (GInv_exec_units_not_done_proof w_gi w_wf w_wfg w_s0 _ w_gid w_subs_bad _
                         (proj1 HG) Hgid w_subs_bad_fresh Hincl Hex Hnd))).
Qed.

(* ================================================================== *)
(* The forall-quantified forms used in Props/GroupInv.v                *)
(* ================================================================== *)

Lemma GInv_start_stmt : forall gi s0,
  wf_input (gi_inp gi) -> wf_ginput gi -> Forall (fun l => l = []) (gi_initial gi) ->
  g_new_solution gi = Some s0 -> GInv gi s0.
Proof. intros gi s0 Hwf Hwg Hni Hns. exact (GInv_start_proof gi Hwf Hwg s0 Hni Hns). Qed.

Lemma GInv_exec_move_nonmember_stmt : forall gi s mv s' r,
  wf_input (gi_inp gi) -> wf_ginput gi -> GInv gi s ->
  member_group gi (mv_unit mv) = None -> move_ok (gi_inp gi) s mv ->
  g_exec_move gi s mv = (s', r) ->
  r <> UndoFailed /\ GInv gi s' /\ (r <> Done -> st_routes s' = st_routes s).
Proof.
  intros gi s mv s' r Hwf Hwg HG Hmem Hmv Hex.
  destruct (GInv_exec_move_nonmember_proof gi Hwf Hwg s s' mv r HG Hmem Hmv Hex) as (A & B).
  split; [exact A|]. split; [exact B|].
  exact (proj1 (proj2 (proj2 (g_exec_move_routes gi s s' mv r Hwf (proj1 (proj1 HG)) Hmv Hex)))).
Qed.

Lemma GInv_exec_checked_nonmember_stmt : forall gi s mv s' r,
  wf_input (gi_inp gi) -> wf_ginput gi -> GInv gi s ->
  member_group gi (mv_unit mv) = None -> move_ok (gi_inp gi) s mv ->
  g_exec_checked gi s mv = (s', r) ->
  r <> UndoFailed /\ GInv gi s' /\ (r <> Done -> st_routes s' = st_routes s).
Proof.
  intros gi s mv s' r Hwf Hwg HG Hmem Hmv Hex. unfold g_exec_checked in Hex.
  destruct (g_move_executable gi s mv).
  - exact (GInv_exec_move_nonmember_stmt gi s mv s' r Hwf Hwg HG Hmem Hmv Hex).
  - injection Hex as <- <-. split; [discriminate|]. split; [exact HG|reflexivity].
Qed.

Lemma GInv_unplan_nonmember_stmt : forall gi s u s' r,
  wf_input (gi_inp gi) -> wf_ginput gi -> GInv gi s ->
  member_group gi u = None ->
  g_unplan_unit gi s u = (s', r) ->
  r <> UndoFailed /\ GInv gi s' /\ (r <> Done -> st_routes s' = st_routes s).
Proof.
  intros gi s u s' r Hwf Hwg HG Hmem Hex.
  destruct (GInv_unplan_nonmember_proof gi Hwf Hwg s s' u r HG Hmem Hex) as (A & B).
  split; [exact A|]. split; [exact B|]. intros Hnd.
  destruct (result_eq_ne r) as [->|Hrn].
  - destruct (g_unplan_unit_colls gi s s' u _ Hex) as (Cn & _). rewrite (Cn eq_refl). reflexivity.
  - pose proof (unit_planned_lt _ _ _ (g_unplan_unit_done_was_planned gi s s' u r Hex Hrn)) as Hu.
    exact (proj1 (proj2 (proj2 (g_unplan_unit_routes gi s s' u r Hwf (proj1 (proj1 HG)) Hu Hex))) Hnd).
Qed.

(* as asked: from GInv, an unplanned group id, the sub-moves a permutation of the members *)
Lemma GInv_exec_units_done_stmt : forall gi s id subs s',
  wf_input (gi_inp gi) -> wf_ginput gi -> GInv gi s ->
  group_id gi id -> In id (st_unplanned s) ->
  subs_fresh gi (move_to_planned s id) subs ->
  Permutation (map sb_unit subs) (members_of gi id) ->
  g_exec_units gi s id subs = (s', Done) ->
  GInv gi s' /\ In id (st_planned s') /\ ~ In id (st_unplanned s') /\ top_planned gi s' id = true.
Proof.
  intros gi s id subs s' Hwf Hwg HG Hgid _ Hfr P Hex.
  destruct (GInv_exec_units_done_proof gi Hwf Hwg s s' id subs (proj1 HG) Hgid Hfr) as (A & B & C);
    [intros x Hx; exact (Permutation_in x P Hx)
    |intros x Hx; exact (Permutation_in x (Permutation_sym P) Hx)|exact Hex|].
  split; [exact A|]. split; [exact B|]. split; [|exact C].
  exact (proj2 (g_exec_units_done_colls_proof gi s id subs s' Hex)).
Qed.

(* stronger: the scores of s may be stale, the covering is asked as two inclusions *)
Lemma GInv_exec_units_done_strong_stmt : forall gi s id subs s',
  wf_input (gi_inp gi) -> wf_ginput gi -> GInv_ns gi s -> group_id gi id ->
  subs_fresh gi (move_to_planned s id) subs ->
  incl (map sb_unit subs) (members_of gi id) -> incl (members_of gi id) (map sb_unit subs) ->
  g_exec_units gi s id subs = (s', Done) ->
  GInv gi s' /\ In id (st_planned s') /\ top_planned gi s' id = true.
Proof.
  intros gi s id subs s' Hwf Hwg HG Hgid Hfr H1 H2 Hex.
  exact (GInv_exec_units_done_proof gi Hwf Hwg s s' id subs HG Hgid Hfr H1 H2 Hex).
Qed.

Lemma GInv_exec_units_rejected_stmt : forall gi s id subs s' r,
  wf_input (gi_inp gi) -> wf_ginput gi -> GInv_ns gi s -> group_id gi id ->
  subs_fresh gi (move_to_planned s id) subs ->
  incl (map sb_unit subs) (members_of gi id) ->
  g_exec_units gi s id subs = (s', r) -> r <> Done ->
  r <> UndoFailed /\ GInv_ns gi s' /\ st_routes s' = st_routes s /\
  same_set (st_planned s') (st_planned s) /\ same_set (st_unplanned s') (st_unplanned s).
Proof.
  intros gi s id subs s' r Hwf Hwg HG Hgid Hfr H1 Hex Hnd.
  destruct (GInv_exec_units_not_done_proof gi Hwf Hwg s s' id subs r HG Hgid Hfr H1 Hex Hnd)
    as (A & B & C).
  split; [exact A|]. split; [exact B|]. split; [exact C|].
  exact (GInv_ns_colls_determined_proof gi s s' HG B C).
Qed.

Lemma GInv_unplan_group_all_done_stmt : forall gi s id s' r,
  wf_input (gi_inp gi) -> wf_ginput gi -> Forall (fun l => l = []) (gi_initial gi) ->
  GInv_ns gi s -> group_id gi id -> In id (st_planned s) ->
  unplan_group_all_done gi s id = true ->
  g_unplan_group gi s id = (s', r) ->
  r = Done /\ GInv gi s' /\ In id (st_unplanned s') /\ ~ In id (st_planned s') /\
  forall m, In m (members_of gi id) -> unit_planned (gi_inp gi) s' m = false.
Proof.
  intros gi s id s' r Hwf Hwg Hni HG Hgid Hin Hall Hex.
  exact (GInv_unplan_group_all_done_proof gi Hwf Hwg s s' id r Hni HG Hgid Hin Hall Hex).
Qed.

Lemma GInv_history_stmt : forall gi s0 h,
  wf_input (gi_inp gi) -> wf_ginput gi -> Forall (fun l => l = []) (gi_initial gi) ->
  g_new_solution gi = Some s0 -> gops_ok gi s0 h ->
  Forall (GInv gi) (gops_run gi s0 h) /\
  Forall (fun r => r <> UndoFailed) (gops_answers gi s0 h).
Proof. intros gi s0 h Hwf Hwg Hni. exact (GInv_history_proof gi Hwf Hwg Hni s0 h). Qed.

Lemma GInv_ns_history_stmt : forall gi s0 h,
  wf_input (gi_inp gi) -> wf_ginput gi -> Forall (fun l => l = []) (gi_initial gi) ->
  g_new_solution gi = Some s0 -> gops_ok_ns gi s0 h ->
  Forall (GInv_ns gi) (gops_run gi s0 h) /\
  Forall (fun r => r <> UndoFailed) (gops_answers gi s0 h).
Proof. intros gi s0 h Hwf Hwg Hni. exact (GInv_ns_history_proof gi Hwf Hwg Hni s0 h). Qed.

Lemma GInv_format_each_stop_once_stmt : forall gi s,
  wf_input (gi_inp gi) -> wf_ginput gi -> GInv_ns gi s ->
  Permutation (out_unplanned (g_format_solution gi s) ++ interior_stops s)
              (seq 0 (nstops (gi_inp gi))).
Proof. intros gi s Hwf Hwg. exact (GInv_format_each_stop_once_proof gi Hwf Hwg s). Qed.

Lemma GInv_format_rest_stmt : forall gi s,
  GInv gi s ->
  out_vehicles (g_format_solution gi s) = out_vehicles (format_solution (gi_inp gi) s) /\
  out_total (g_format_solution gi s) = sumZ (out_terms (g_format_solution gi s)) /\
  out_terms (g_format_solution gi s) = g_score_terms gi s.
Proof.
  intros gi s HG. split; [reflexivity|]. exact (GInv_format_total_proof gi s HG).
Qed.

Lemma gop_unfold_proof : forall gi s,
  (forall mv, (gop_step gi s (GPlanUnit mv) = g_exec_move gi s mv) /\
              (gop_ok gi s (GPlanUnit mv) <->
               member_group gi (mv_unit mv) = None /\ move_ok (gi_inp gi) s mv)) /\
  (forall u, (gop_step gi s (GUnplanUnit u) = g_unplan_unit gi s u) /\
             (gop_ok gi s (GUnplanUnit u) <-> member_group gi u = None)) /\
  (forall id subs, (gop_step gi s (GPlanGroup id subs) = g_exec_units gi s id subs) /\
             (gop_ok gi s (GPlanGroup id subs) <->
              group_id gi id /\ In id (st_unplanned s) /\
              subs_fresh gi (move_to_planned s id) subs /\
              Permutation (map sb_unit subs) (members_of gi id) /\
              snd (g_exec_units gi s id subs) = Done)) /\
  (forall id, (gop_step gi s (GUnplanGroup id) = g_unplan_group gi s id) /\
             (gop_ok gi s (GUnplanGroup id) <->
              group_id gi id /\ In id (st_planned s) /\ unplan_group_all_done gi s id = true)).
Proof.
  intros gi s. split; [|split; [|split]]; intros; (split; [reflexivity|]); cbn [gop_ok]; reflexivity.
Qed.

Lemma gops_unfold_proof : forall gi s o h,
  (gops_ok gi s [] <-> True) /\
  (gops_ok gi s (o :: h) <-> gop_ok gi s o /\ gops_ok gi (fst (gop_step gi s o)) h) /\
  gops_run gi s [] = [s] /\
  gops_run gi s (o :: h) = s :: gops_run gi (fst (gop_step gi s o)) h /\
  gops_answers gi s [] = [] /\
  gops_answers gi s (o :: h) = snd (gop_step gi s o) :: gops_answers gi (fst (gop_step gi s o)) h.
Proof.
  intros. split; [reflexivity|]. split; [reflexivity|]. repeat split.
Qed.

Lemma gop_ok_ns_unfold_proof : forall gi s,
  (forall mv, gop_ok_ns gi s (GPlanUnit mv) <->
              member_group gi (mv_unit mv) = None /\ move_ok (gi_inp gi) s mv) /\
  (forall u, gop_ok_ns gi s (GUnplanUnit u) <-> member_group gi u = None) /\
  (forall id subs, gop_ok_ns gi s (GPlanGroup id subs) <->
              group_id gi id /\ subs_fresh gi (move_to_planned s id) subs /\
              incl (map sb_unit subs) (members_of gi id) /\
              (snd (g_exec_units gi s id subs) = Done -> incl (members_of gi id) (map sb_unit subs))) /\
  (forall id, gop_ok_ns gi s (GUnplanGroup id) <->
              group_id gi id /\ In id (st_planned s) /\ unplan_group_all_done gi s id = true) /\
  (forall o, gop_ok gi s o -> gop_ok_ns gi s o) /\
  (forall o h, (gops_ok_ns gi s [] <-> True) /\
     (gops_ok_ns gi s (o :: h) <-> gop_ok_ns gi s o /\ gops_ok_ns gi (fst (gop_step gi s o)) h)).
Proof.
  intros gi s. split; [|split; [|split; [|split; [|split]]]]; try (intros; reflexivity).
  - intros o. exact (gop_ok_weaken gi s o).
  - intros o h. split; reflexivity.
Qed.
