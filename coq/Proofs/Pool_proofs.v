(* Proofs about the borrow discipline of pooled buffers (Model/Pool.v). *)

From Coq Require Import List Bool Arith Lia.
Import ListNotations.
Require Import NR.Model.Pool.

(* ------------------------------------------------------------------ *)
(* 0. The automaton                                                     *)
(* ------------------------------------------------------------------ *)

Lemma brun_app : forall t1 t2 s m s',
  brun s t1 = Some m -> brun m t2 = Some s' -> brun s (t1 ++ t2) = Some s'.
Proof.
  induction t1 as [|e t1 IH]; intros t2 s m s' H1 H2; simpl in *.
  - inversion H1; subst; exact H2.
  - destruct (bstep s e) as [s1|]; [|discriminate].
    eapply IH; eassumption.
Qed.

Lemma brun_prefix : forall t1 t2 s s',
  brun s (t1 ++ t2) = Some s' -> exists m, brun s t1 = Some m /\ brun m t2 = Some s'.
Proof.
  induction t1 as [|e t1 IH]; intros t2 s s' H; simpl in *.
  - exists s; split; [reflexivity|exact H].
  - destruct (bstep s e) as [s1|]; [|discriminate].
    apply IH; exact H.
Qed.

Lemma brun_use_held : forall s tr s',
  brun s tr = Some s' -> forall t1 t2, tr = t1 ++ PUse :: t2 -> brun s t1 = Some BHeld.
Proof.
  intros s tr s' H t1 t2 E; subst tr.
  apply brun_prefix in H; destruct H as [m [H1 H2]].
  simpl in H2. destruct m; simpl in H2; try discriminate. exact H1.
Qed.

(* ------------------------------------------------------------------ *)
(* 1. Sets of automaton states                                          *)
(* ------------------------------------------------------------------ *)

Definition ple (a b : pset) : Prop := forall s, pin s a = true -> pin s b = true.

Lemma ple_refl : forall a, ple a a.
Proof. intros a s H; exact H. Qed.

Lemma ple_trans : forall a b c, ple a b -> ple b c -> ple a c.
Proof. intros a b c H1 H2 s H; apply H2, H1, H. Qed.

Lemma pin_pjoin : forall s a b, pin s (pjoin a b) = pin s a || pin s b.
Proof. intros s a b; destruct s; reflexivity. Qed.

Lemma pin_pempty : forall s, pin s pempty = false.
Proof. intros s; destruct s; reflexivity. Qed.

Lemma ple_pjoin_l : forall a b, ple a (pjoin a b).
Proof. intros a b s H; rewrite pin_pjoin, H; reflexivity. Qed.

Lemma ple_pjoin_r : forall a b, ple b (pjoin a b).
Proof. intros a b s H; rewrite pin_pjoin, H; apply orb_true_r. Qed.

Lemma ple_pjoin_lub : forall a b c, ple a c -> ple b c -> ple (pjoin a b) c.
Proof.
  intros a b c H1 H2 s H; rewrite pin_pjoin in H.
  apply orb_true_iff in H; destruct H as [H|H]; [apply H1|apply H2]; exact H.
Qed.

Lemma ple_pjoin_mono : forall a a' b b', ple a a' -> ple b b' -> ple (pjoin a b) (pjoin a' b').
Proof.
  intros a a' b b' H1 H2; apply ple_pjoin_lub.
  - eapply ple_trans; [exact H1|apply ple_pjoin_l].
  - eapply ple_trans; [exact H2|apply ple_pjoin_r].
Qed.

Lemma pnonempty_false : forall a s, pnonempty a = false -> pin s a = false.
Proof.
  intros [f h r] s H; unfold pnonempty in H; simpl in H.
  destruct f, h, r, s; simpl in *; try discriminate; reflexivity.
Qed.

(* cardinality: a strictly increasing chain of psets has at most 4 elements *)
Definition pcard (a : pset) : nat :=
  (if may_fresh a then 1 else 0) + (if may_held a then 1 else 0) + (if may_rel a then 1 else 0).

Lemma pcard_le3 : forall a, pcard a <= 3.
Proof. intros [[] [] []]; unfold pcard; simpl; lia. Qed.

Lemma ple_eq_or_lt : forall a b, ple a b -> a = b \/ pcard a < pcard b.
Proof.
  intros a b H.
  pose proof (H BFresh) as HF; pose proof (H BHeld) as HH; pose proof (H BReleased) as HR.
  destruct a as [[] [] []], b as [[] [] []]; simpl in HF, HH, HR;
    try (left; reflexivity);
    try (right; unfold pcard; simpl; lia);
    try (specialize (HF eq_refl); discriminate);
    try (specialize (HH eq_refl); discriminate);
    try (specialize (HR eq_refl); discriminate).
Qed.

(* four rounds of an inflationary function on psets reach a fixpoint; no
   monotonicity is needed: once two consecutive iterates are equal, all later
   ones are *)
Lemma iter4_fix : forall g : pset -> pset, (forall x, ple x (g x)) ->
  forall x, g (g (g (g (g x)))) = g (g (g (g x))).
Proof.
  intros g Hinf x.
  destruct (ple_eq_or_lt _ _ (Hinf x)) as [E0|L0]; [congruence|].
  destruct (ple_eq_or_lt _ _ (Hinf (g x))) as [E1|L1]; [congruence|].
  destruct (ple_eq_or_lt _ _ (Hinf (g (g x)))) as [E2|L2]; [congruence|].
  destruct (ple_eq_or_lt _ _ (Hinf (g (g (g x))))) as [E3|L3]; [congruence|].
  pose proof (pcard_le3 (g (g (g (g x))))) as Hle. lia.
Qed.

(* ------------------------------------------------------------------ *)
(* 2. The checker, unfolded one statement at a time                      *)
(* ------------------------------------------------------------------ *)

Definition sel (ex : pexit) (o : pouts) : pset :=
  match ex with ENorm => o_norm o | EBrk => o_brk o | ECont => o_cont o | ERet => o_ret o end.

(* what one loop iteration feeds back to the loop head *)
Definition ploopF (f : nat) (b : list pstm) (inn : pset) : pset :=
  pjoin (o_norm (pcheck f b inn)) (o_cont (pcheck f b inn)).

Definition pgrow (f : nat) (b : list pstm) (inn : pset) : pset := pjoin inn (ploopF f b inn).

Definition phead (f : nat) (b : list pstm) (st : pset) : pset :=
  pgrow f b (pgrow f b (pgrow f b (pgrow f b st))).

Definition pfirst (f : nat) (s : pstm) (st : pset) : pouts :=
  match s with
  | PE e => let '(ok, st') := ptransfer e st in mkPouts ok st' pempty pempty pempty
  | PReturn => mkPouts true pempty pempty pempty st
  | PBreak => mkPouts true pempty st pempty pempty
  | PContinue => mkPouts true pempty pempty st pempty
  | PIf a b =>
      let oa := pcheck f a st in
      let ob := pcheck f b st in
      mkPouts (o_ok oa && o_ok ob) (pjoin (o_norm oa) (o_norm ob)) (pjoin (o_brk oa) (o_brk ob))
              (pjoin (o_cont oa) (o_cont ob)) (pjoin (o_ret oa) (o_ret ob))
  | PLoop b =>
      (* literally as in [pcheck], so that [pcheck_cons] is cheap to check *)
      let grow := fun inn => let o := pcheck f b inn in pjoin inn (pjoin (o_norm o) (o_cont o)) in
      let inn := grow (grow (grow (grow st))) in
      let o := pcheck f b inn in
      mkPouts (o_ok o) (pjoin inn (o_brk o)) pempty pempty (o_ret o)
  end.

Definition pseq (a r : pouts) : pouts :=
  mkPouts (o_ok a && o_ok r) (o_norm r) (pjoin (o_brk a) (o_brk r))
          (pjoin (o_cont a) (o_cont r)) (pjoin (o_ret a) (o_ret r)).

Lemma pcheck_cons : forall f s rest st,
  pcheck (S f) (s :: rest) st = pseq (pfirst f s st) (pcheck f rest (o_norm (pfirst f s st))).
Proof.
  intros f s rest st;
    destruct s as [e| | | |a b|body]; [reflexivity|reflexivity|reflexivity|reflexivity|reflexivity|].
  (* the loop case duplicates the body's check many times once the lets are
     expanded; the lazy conversion is slow on it (each recursive call is an
     unfolded fix on one side), the VM is not *)
  vm_cast_no_check (eq_refl (pseq (pfirst f (PLoop body) st)
                                  (pcheck f rest (o_norm (pfirst f (PLoop body) st))))).
Qed.

Lemma pfirst_PLoop : forall f b st,
  pfirst f (PLoop b) st =
  mkPouts (o_ok (pcheck f b (phead f b st)))
          (pjoin (phead f b st) (o_brk (pcheck f b (phead f b st))))
          pempty pempty (o_ret (pcheck f b (phead f b st))).
Proof.
  intros f b st.
  vm_cast_no_check (eq_refl (pfirst f (PLoop b) st)).
Qed.

Lemma pfirst_PIf : forall f a b st,
  pfirst f (PIf a b) st =
  mkPouts (o_ok (pcheck f a st) && o_ok (pcheck f b st))
          (pjoin (o_norm (pcheck f a st)) (o_norm (pcheck f b st)))
          (pjoin (o_brk (pcheck f a st)) (o_brk (pcheck f b st)))
          (pjoin (o_cont (pcheck f a st)) (o_cont (pcheck f b st)))
          (pjoin (o_ret (pcheck f a st)) (o_ret (pcheck f b st))).
Proof. reflexivity. Qed.

Lemma pcheck_nil : forall f st, pcheck (S f) [] st = mkPouts true st pempty pempty pempty.
Proof. reflexivity. Qed.

Lemma pcheck_O : forall body st, o_ok (pcheck 0 body st) = false.
Proof. reflexivity. Qed.

Lemma pseq_ok : forall a r, o_ok (pseq a r) = true -> o_ok a = true /\ o_ok r = true.
Proof. intros a r H; apply andb_true_iff in H; exact H. Qed.

Lemma pseq_sel_rest : forall ex a r s, pin s (sel ex r) = true -> pin s (sel ex (pseq a r)) = true.
Proof.
  intros ex a r s H; destruct ex; simpl in *; try exact H;
    rewrite pin_pjoin, H; apply orb_true_r.
Qed.

Lemma pseq_sel_first : forall ex a r s, ex <> ENorm ->
  pin s (sel ex a) = true -> pin s (sel ex (pseq a r)) = true.
Proof.
  intros ex a r s Hne H; destruct ex; simpl in *; try (exfalso; apply Hne; reflexivity);
    rewrite pin_pjoin, H; reflexivity.
Qed.

Lemma ptransfer_sound : forall e st s,
  fst (ptransfer e st) = true -> pin s st = true ->
  exists s1, bstep s e = Some s1 /\ pin s1 (snd (ptransfer e st)) = true.
Proof.
  intros e [[] [] []] s Hok Hin; destruct e, s; simpl in *; try discriminate;
    eexists; (split; [reflexivity|reflexivity]).
Qed.

Lemma pfirst_PE : forall f e st,
  pfirst f (PE e) st = mkPouts (fst (ptransfer e st)) (snd (ptransfer e st)) pempty pempty pempty.
Proof. intros f e st; unfold pfirst; destruct (ptransfer e st); reflexivity. Qed.

Lemma pgrow_infl : forall f b x, ple x (pgrow f b x).
Proof. intros f b x; apply ple_pjoin_l. Qed.

Lemma phead_infl : forall f b st, ple st (phead f b st).
Proof.
  intros f b st; unfold phead.
  eapply ple_trans; [apply pgrow_infl|].
  eapply ple_trans; [apply pgrow_infl|].
  eapply ple_trans; [apply pgrow_infl|].
  apply pgrow_infl.
Qed.

(* the loop head computed by four rounds is a post-fixpoint of the body *)
Lemma phead_postfix : forall f b st, ple (ploopF f b (phead f b st)) (phead f b st).
Proof.
  intros f b st.
  pose proof (iter4_fix (pgrow f b) (pgrow_infl f b) st) as Hfix.
  fold (phead f b st) in Hfix.
  intros s Hs. rewrite <- Hfix. unfold pgrow at 1.
  rewrite pin_pjoin, Hs. apply orb_true_r.
Qed.

(* ------------------------------------------------------------------ *)
(* 3. Soundness of the checker on all paths                              *)
(* ------------------------------------------------------------------ *)

Scheme ppath_mind := Minimality for ppath Sort Prop
  with ploop_mind := Minimality for ploop Sort Prop.
Combined Scheme ppath_ploop_mutind from ppath_mind, ploop_mind.

Definition ppath_goal (body : list pstm) (tr : list pev) (ex : pexit) : Prop :=
  forall fuel st, o_ok (pcheck fuel body st) = true ->
  forall s, pin s st = true ->
  exists s', brun s tr = Some s' /\ pin s' (sel ex (pcheck fuel body st)) = true.

Definition ploop_goal (b : list pstm) (tr : list pev) (r : bool) : Prop :=
  forall fuel inn, o_ok (pcheck fuel b inn) = true ->
  ple (ploopF fuel b inn) inn ->
  forall s, pin s inn = true ->
  exists s', brun s tr = Some s' /\
    pin s' (if r then o_ret (pcheck fuel b inn) else pjoin inn (o_brk (pcheck fuel b inn))) = true.

(* the first statement leaves normally in [s1]; the rest of the body runs from there *)
Lemma seq_step : forall f s0 rest st s t1 t2 ex s1,
  brun s t1 = Some s1 ->
  pin s1 (o_norm (pfirst f s0 st)) = true ->
  ppath_goal rest t2 ex ->
  o_ok (pcheck (S f) (s0 :: rest) st) = true ->
  exists s', brun s (t1 ++ t2) = Some s' /\ pin s' (sel ex (pcheck (S f) (s0 :: rest) st)) = true.
Proof.
  intros f s0 rest st s t1 t2 ex s1 Hrun Hin IH Hok.
  rewrite pcheck_cons in *.
  apply pseq_ok in Hok; destruct Hok as [_ Hokr].
  destruct (IH f _ Hokr s1 Hin) as [s' [Hrun' Hin']].
  exists s'; split.
  - eapply brun_app; eassumption.
  - apply pseq_sel_rest; exact Hin'.
Qed.

Lemma exit_step : forall f s0 rest st s' ex,
  ex <> ENorm -> pin s' (sel ex (pfirst f s0 st)) = true ->
  pin s' (sel ex (pcheck (S f) (s0 :: rest) st)) = true.
Proof.
  intros f s0 rest st s' ex Hne H. rewrite pcheck_cons. apply pseq_sel_first; assumption.
Qed.

Lemma first_ok : forall f s0 rest st,
  o_ok (pcheck (S f) (s0 :: rest) st) = true -> o_ok (pfirst f s0 st) = true.
Proof. intros f s0 rest st H; rewrite pcheck_cons in H; apply pseq_ok in H; apply H. Qed.

Lemma pcheck_sound_mut :
  (forall body tr ex, ppath body tr ex -> ppath_goal body tr ex) /\
  (forall b tr r, ploop b tr r -> ploop_goal b tr r).
Proof.
  apply ppath_ploop_mutind; unfold ploop_goal.
  - (* pp_nil *)
    intros fuel st Hok s Hin. destruct fuel as [|f]; [discriminate Hok|].
    exists s; split; [reflexivity|exact Hin].
  - (* pp_ev *)
    intros e rest tr ex _ IH fuel st Hok s Hin.
    destruct fuel as [|f]; [discriminate Hok|].
    pose proof (first_ok _ _ _ _ Hok) as Hok1. rewrite pfirst_PE in Hok1; simpl in Hok1.
    destruct (ptransfer_sound e st s Hok1 Hin) as [s1 [Hstep Hin1]].
    change (e :: tr) with ([e] ++ tr).
    apply seq_step with (s1 := s1); [simpl; rewrite Hstep; reflexivity| |exact IH|exact Hok].
    rewrite pfirst_PE; exact Hin1.
  - (* pp_ret *)
    intros rest fuel st Hok s Hin. destruct fuel as [|f]; [discriminate Hok|].
    exists s; split; [reflexivity|]. apply exit_step; [discriminate|exact Hin].
  - (* pp_brk *)
    intros rest fuel st Hok s Hin. destruct fuel as [|f]; [discriminate Hok|].
    exists s; split; [reflexivity|]. apply exit_step; [discriminate|exact Hin].
  - (* pp_cont *)
    intros rest fuel st Hok s Hin. destruct fuel as [|f]; [discriminate Hok|].
    exists s; split; [reflexivity|]. apply exit_step; [discriminate|exact Hin].
  - (* pp_if_a_norm *)
    intros a b rest t1 t2 ex _ IHa _ IHr fuel st Hok s Hin.
    destruct fuel as [|f]; [discriminate Hok|].
    pose proof (first_ok _ _ _ _ Hok) as Hok1. rewrite pfirst_PIf in Hok1. cbn [o_ok] in Hok1.
    apply andb_true_iff in Hok1; destruct Hok1 as [Hoka Hokb].
    destruct (IHa f st Hoka s Hin) as [s1 [Hrun1 Hin1]].
    apply seq_step with (s1 := s1); [exact Hrun1| |exact IHr|exact Hok].
    rewrite pfirst_PIf. cbn [o_norm]. cbn [sel] in Hin1. rewrite pin_pjoin, Hin1; reflexivity.
  - (* pp_if_b_norm *)
    intros a b rest t1 t2 ex _ IHb _ IHr fuel st Hok s Hin.
    destruct fuel as [|f]; [discriminate Hok|].
    pose proof (first_ok _ _ _ _ Hok) as Hok1. rewrite pfirst_PIf in Hok1. cbn [o_ok] in Hok1.
    apply andb_true_iff in Hok1; destruct Hok1 as [Hoka Hokb].
    destruct (IHb f st Hokb s Hin) as [s1 [Hrun1 Hin1]].
    apply seq_step with (s1 := s1); [exact Hrun1| |exact IHr|exact Hok].
    rewrite pfirst_PIf. cbn [o_norm]. cbn [sel] in Hin1. rewrite pin_pjoin, Hin1; apply orb_true_r.
  - (* pp_if_a_exit *)
    intros a b rest t1 ex Hne _ IHa fuel st Hok s Hin.
    destruct fuel as [|f]; [discriminate Hok|].
    pose proof (first_ok _ _ _ _ Hok) as Hok1. rewrite pfirst_PIf in Hok1. cbn [o_ok] in Hok1.
    apply andb_true_iff in Hok1; destruct Hok1 as [Hoka Hokb].
    destruct (IHa f st Hoka s Hin) as [s1 [Hrun1 Hin1]].
    exists s1; split; [exact Hrun1|]. apply exit_step; [exact Hne|].
    rewrite pfirst_PIf.
    destruct ex; cbn [sel o_norm o_brk o_cont o_ret] in *; rewrite pin_pjoin, Hin1; reflexivity.
  - (* pp_if_b_exit *)
    intros a b rest t1 ex Hne _ IHb fuel st Hok s Hin.
    destruct fuel as [|f]; [discriminate Hok|].
    pose proof (first_ok _ _ _ _ Hok) as Hok1. rewrite pfirst_PIf in Hok1. cbn [o_ok] in Hok1.
    apply andb_true_iff in Hok1; destruct Hok1 as [Hoka Hokb].
    destruct (IHb f st Hokb s Hin) as [s1 [Hrun1 Hin1]].
    exists s1; split; [exact Hrun1|]. apply exit_step; [exact Hne|].
    rewrite pfirst_PIf.
    destruct ex; cbn [sel o_norm o_brk o_cont o_ret] in *; rewrite pin_pjoin, Hin1; apply orb_true_r.
  - (* pp_loop_done *)
    intros b rest t1 t2 ex _ IHl _ IHr fuel st Hok s Hin.
    destruct fuel as [|f]; [discriminate Hok|].
    pose proof (first_ok _ _ _ _ Hok) as Hok1. rewrite pfirst_PLoop in Hok1. cbn [o_ok] in Hok1.
    destruct (IHl f (phead f b st) Hok1 (phead_postfix f b st) s (phead_infl f b st s Hin))
      as [s1 [Hrun1 Hin1]].
    apply seq_step with (s1 := s1); [exact Hrun1| |exact IHr|exact Hok].
    rewrite pfirst_PLoop. exact Hin1.
  - (* pp_loop_ret *)
    intros b rest t1 _ IHl fuel st Hok s Hin.
    destruct fuel as [|f]; [discriminate Hok|].
    pose proof (first_ok _ _ _ _ Hok) as Hok1. rewrite pfirst_PLoop in Hok1. cbn [o_ok] in Hok1.
    destruct (IHl f (phead f b st) Hok1 (phead_postfix f b st) s (phead_infl f b st s Hin))
      as [s1 [Hrun1 Hin1]].
    exists s1; split; [exact Hrun1|]. apply exit_step; [discriminate|].
    rewrite pfirst_PLoop. exact Hin1.
  - (* pl_stop *)
    intros b fuel inn Hok Hpost s Hin.
    exists s; split; [reflexivity|]. rewrite pin_pjoin, Hin; reflexivity.
  - (* pl_iter *)
    intros b t1 t2 r ex Hex _ IHp _ IHl fuel inn Hok Hpost s Hin.
    destruct (IHp fuel inn Hok s Hin) as [s1 [Hrun1 Hin1]].
    assert (Hin1' : pin s1 inn = true).
    { apply Hpost. unfold ploopF. rewrite pin_pjoin.
      destruct Hex as [E|E]; subst ex; simpl in Hin1; rewrite Hin1;
        [reflexivity|apply orb_true_r]. }
    destruct (IHl fuel inn Hok Hpost s1 Hin1') as [s2 [Hrun2 Hin2]].
    exists s2; split; [eapply brun_app; eassumption|exact Hin2].
  - (* pl_break *)
    intros b t1 _ IHp fuel inn Hok Hpost s Hin.
    destruct (IHp fuel inn Hok s Hin) as [s1 [Hrun1 Hin1]].
    exists s1; split; [exact Hrun1|]. simpl in Hin1. rewrite pin_pjoin, Hin1; apply orb_true_r.
  - (* pl_ret *)
    intros b t1 _ IHp fuel inn Hok Hpost s Hin.
    destruct (IHp fuel inn Hok s Hin) as [s1 [Hrun1 Hin1]].
    exists s1; split; [exact Hrun1|exact Hin1].
Qed.

Lemma pcheck_sound : forall fuel body st o,
  pcheck fuel body st = o -> o_ok o = true ->
  forall s tr ex, pin s st = true -> ppath body tr ex ->
  exists s', brun s tr = Some s' /\
    pin s' (match ex with ENorm => o_norm o | EBrk => o_brk o | ECont => o_cont o | ERet => o_ret o end) = true.
Proof.
  intros fuel body st o Ho Hok s tr ex Hin Hp; subst o.
  exact (proj1 pcheck_sound_mut body tr ex Hp fuel st Hok s Hin).
Qed.

Lemma ploop_sound : forall fuel b inn,
  o_ok (pcheck fuel b inn) = true -> ple (ploopF fuel b inn) inn ->
  forall s tr r, pin s inn = true -> ploop b tr r ->
  exists s', brun s tr = Some s' /\
    pin s' (if r then o_ret (pcheck fuel b inn) else pjoin inn (o_brk (pcheck fuel b inn))) = true.
Proof.
  intros fuel b inn Hok Hpost s tr r Hin Hl.
  exact (proj2 pcheck_sound_mut b tr r Hl fuel inn Hok Hpost s Hin).
Qed.

(* the loop head is inflationary and a post-fixpoint, in one statement *)
Lemma phead_sound : forall f b st,
  let inn := phead f b st in
  ple st inn /\
  ple (pjoin (o_norm (pcheck f b inn)) (o_cont (pcheck f b inn))) inn.
Proof. intros f b st; split; [apply phead_infl|apply phead_postfix]. Qed.

(* ------------------------------------------------------------------ *)
(* 3b. Monotonicity of the checker (not needed for soundness)            *)
(* ------------------------------------------------------------------ *)

Record pouts_le (o1 o2 : pouts) : Prop := mkPoutsLe {
  le_ok : o_ok o2 = true -> o_ok o1 = true;
  le_norm : ple (o_norm o1) (o_norm o2);
  le_brk : ple (o_brk o1) (o_brk o2);
  le_cont : ple (o_cont o1) (o_cont o2);
  le_ret : ple (o_ret o1) (o_ret o2)
}.

Lemma ptransfer_mono : forall e a b, ple a b ->
  (fst (ptransfer e b) = true -> fst (ptransfer e a) = true) /\
  ple (snd (ptransfer e a)) (snd (ptransfer e b)).
Proof.
  intros e a b H.
  pose proof (H BFresh) as HF; pose proof (H BHeld) as HH; pose proof (H BReleased) as HR.
  destruct a as [[] [] []], b as [[] [] []]; simpl in HF, HH, HR;
    try (specialize (HF eq_refl); discriminate HF);
    try (specialize (HH eq_refl); discriminate HH);
    try (specialize (HR eq_refl); discriminate HR);
    destruct e;
    (split;
     [ vm_compute; intros Hx; first [exact Hx | reflexivity]
     | intros s; destruct s; vm_compute; intros Hx; first [exact Hx | reflexivity] ]).
Qed.

Lemma ple_pempty : forall a, ple pempty a.
Proof. intros a s H; rewrite pin_pempty in H; discriminate H. Qed.

Lemma pseq_mono : forall a1 a2 r1 r2,
  pouts_le a1 a2 -> pouts_le r1 r2 -> pouts_le (pseq a1 r1) (pseq a2 r2).
Proof.
  intros a1 a2 r1 r2 [Hok Hn Hb Hc Hr] [Hok' Hn' Hb' Hc' Hr'].
  constructor; unfold pseq; cbn [o_ok o_norm o_brk o_cont o_ret].
  - intros H; apply andb_true_iff in H; destruct H as [H1 H2].
    rewrite (Hok H1), (Hok' H2); reflexivity.
  - exact Hn'.
  - apply ple_pjoin_mono; assumption.
  - apply ple_pjoin_mono; assumption.
  - apply ple_pjoin_mono; assumption.
Qed.

Definition pcheck_mono_at (f : nat) : Prop :=
  forall body st1 st2, ple st1 st2 -> pouts_le (pcheck f body st1) (pcheck f body st2).

Lemma pgrow_mono : forall f b, pcheck_mono_at f ->
  forall x y, ple x y -> ple (pgrow f b x) (pgrow f b y).
Proof.
  intros f b IH x y H. unfold pgrow, ploopF.
  destruct (IH b x y H) as [_ Hn _ Hc _].
  apply ple_pjoin_mono; [exact H|]. apply ple_pjoin_mono; assumption.
Qed.

Lemma phead_mono : forall f b, pcheck_mono_at f ->
  forall x y, ple x y -> ple (phead f b x) (phead f b y).
Proof.
  intros f b IH x y H. unfold phead.
  do 4 (apply pgrow_mono; [exact IH|]). exact H.
Qed.

Lemma pfirst_mono : forall f s, pcheck_mono_at f ->
  forall st1 st2, ple st1 st2 -> pouts_le (pfirst f s st1) (pfirst f s st2).
Proof.
  intros f s IH st1 st2 H. destruct s as [e| | | |a b|b].
  - rewrite !pfirst_PE. destruct (ptransfer_mono e st1 st2 H) as [Hok Hle].
    constructor; cbn [o_ok o_norm o_brk o_cont o_ret];
      [exact Hok|exact Hle|apply ple_pempty|apply ple_pempty|apply ple_pempty].
  - constructor; cbn [pfirst o_ok o_norm o_brk o_cont o_ret];
      [intros _; reflexivity|apply ple_pempty|apply ple_pempty|apply ple_pempty|exact H].
  - constructor; cbn [pfirst o_ok o_norm o_brk o_cont o_ret];
      [intros _; reflexivity|apply ple_pempty|exact H|apply ple_pempty|apply ple_pempty].
  - constructor; cbn [pfirst o_ok o_norm o_brk o_cont o_ret];
      [intros _; reflexivity|apply ple_pempty|apply ple_pempty|exact H|apply ple_pempty].
  - rewrite !pfirst_PIf.
    destruct (IH a st1 st2 H) as [Hoka Hna Hba Hca Hra].
    destruct (IH b st1 st2 H) as [Hokb Hnb Hbb Hcb Hrb].
    constructor; cbn [o_ok o_norm o_brk o_cont o_ret]; try (apply ple_pjoin_mono; assumption).
    intros Hx; apply andb_true_iff in Hx; destruct Hx as [H1 H2].
    rewrite (Hoka H1), (Hokb H2); reflexivity.
  - rewrite !pfirst_PLoop.
    pose proof (phead_mono f b IH st1 st2 H) as Hh.
    destruct (IH b _ _ Hh) as [Hok Hn Hb Hc Hr].
    constructor; cbn [o_ok o_norm o_brk o_cont o_ret];
      [exact Hok|apply ple_pjoin_mono; assumption|apply ple_pempty|apply ple_pempty|exact Hr].
Qed.

(* a larger set of start states: harder to accept, larger outputs *)
Lemma pcheck_mono : forall fuel body st1 st2, ple st1 st2 ->
  pouts_le (pcheck fuel body st1) (pcheck fuel body st2).
Proof.
  induction fuel as [|f IH]; intros body st1 st2 H.
  - constructor; cbn [pcheck o_ok o_norm o_brk o_cont o_ret];
      [intros Hx; discriminate Hx|apply ple_refl|apply ple_refl|apply ple_refl|apply ple_refl].
  - destruct body as [|s rest].
    + rewrite !pcheck_nil. constructor; cbn [o_ok o_norm o_brk o_cont o_ret];
        [intros _; reflexivity|exact H|apply ple_refl|apply ple_refl|apply ple_refl].
    + rewrite !pcheck_cons.
      pose proof (pfirst_mono f s IH st1 st2 H) as Hf.
      apply pseq_mono; [exact Hf|]. apply IH. exact (le_norm _ _ Hf).
Qed.

Lemma pcheck_mono_conj : forall fuel body st1 st2, ple st1 st2 ->
  (o_ok (pcheck fuel body st2) = true -> o_ok (pcheck fuel body st1) = true) /\
  ple (o_norm (pcheck fuel body st1)) (o_norm (pcheck fuel body st2)) /\
  ple (o_brk (pcheck fuel body st1)) (o_brk (pcheck fuel body st2)) /\
  ple (o_cont (pcheck fuel body st1)) (o_cont (pcheck fuel body st2)) /\
  ple (o_ret (pcheck fuel body st1)) (o_ret (pcheck fuel body st2)).
Proof.
  intros fuel body st1 st2 H.
  destruct (pcheck_mono fuel body st1 st2 H) as [Hok Hn Hb Hc Hr].
  repeat split; assumption.
Qed.

(* ------------------------------------------------------------------ *)
(* 4. Corollaries for borrowers and acquirers                            *)
(* ------------------------------------------------------------------ *)

(* the fuel is generalised so that no tactic ever looks inside [pcheck 200 _ _] *)
Lemma borrower_gen : forall fuel body o, pcheck fuel body (psingle BFresh) = o ->
  o_ok o && negb (pnonempty (o_brk o)) && negb (pnonempty (o_cont o)) = true ->
  forall tr ex, ppath body tr ex ->
  exists s', brun BFresh tr = Some s' /\ (ex = ENorm \/ ex = ERet) /\ pin s' (sel ex o) = true.
Proof.
  intros fuel body o Ho Hb tr ex Hp.
  apply andb_true_iff in Hb; destruct Hb as [Hb Hcont].
  apply andb_true_iff in Hb; destruct Hb as [Hok Hbrk].
  apply negb_true_iff in Hcont, Hbrk.
  destruct (pcheck_sound fuel body (psingle BFresh) o Ho Hok BFresh tr ex eq_refl Hp) as [s' [Hrun Hin]].
  exists s'; split; [exact Hrun|].
  destruct ex.
  - split; [left; reflexivity|exact Hin].
  - rewrite (pnonempty_false _ s' Hbrk) in Hin; discriminate.
  - rewrite (pnonempty_false _ s' Hcont) in Hin; discriminate.
  - split; [right; reflexivity|exact Hin].
Qed.

(* unfolding lemmas: rewriting with them keeps every conversion syntactic (the
   conversion must never be tempted to evaluate [pcheck 200 body _]) *)
Lemma borrower_ok_unfold : forall body, borrower_ok body =
  (let o := pcheck 200 body (psingle BFresh) in
   o_ok o && negb (pnonempty (o_brk o)) && negb (pnonempty (o_cont o))).
Proof. reflexivity. Qed.

Lemma no_leak_unfold : forall body, no_leak body =
  (let o := pcheck 200 body (psingle BFresh) in
   negb (may_held (o_norm o)) && negb (may_held (o_ret o))).
Proof. reflexivity. Qed.

Lemma acquirer_ok_unfold : forall body, acquirer_ok body =
  (let o := pcheck 200 body (psingle BFresh) in
   o_ok o && negb (may_fresh (o_norm o) || may_rel (o_norm o)) &&
   negb (may_fresh (o_ret o) || may_rel (o_ret o)) &&
   negb (pnonempty (o_brk o)) && negb (pnonempty (o_cont o))).
Proof. reflexivity. Qed.

Lemma borrower_ok_sound : forall body, borrower_ok body = true ->
  forall tr ex, ppath body tr ex ->
  exists s', brun BFresh tr = Some s' /\ (ex = ENorm \/ ex = ERet).
Proof.
  intros body Hb tr ex Hp. rewrite borrower_ok_unfold in Hb.
  destruct (borrower_gen 200 body (pcheck 200 body (psingle BFresh)) eq_refl Hb tr ex Hp)
    as [s' [Hrun [Hex _]]].
  exists s'; split; assumption.
Qed.

Lemma no_leak_gen : forall o s' ex,
  negb (may_held (o_norm o)) && negb (may_held (o_ret o)) = true ->
  (ex = ENorm \/ ex = ERet) -> pin s' (sel ex o) = true -> s' <> BHeld.
Proof.
  intros o s' ex Hn Hex Hin E; subst s'.
  apply andb_true_iff in Hn; destruct Hn as [Hnn Hnr].
  apply negb_true_iff in Hnn, Hnr.
  destruct Hex as [E|E]; subst ex; simpl in Hin; congruence.
Qed.

Lemma no_leak_sound : forall body, borrower_ok body = true -> no_leak body = true ->
  forall tr ex, ppath body tr ex ->
  exists s', brun BFresh tr = Some s' /\ s' <> BHeld.
Proof.
  intros body Hb Hn tr ex Hp. rewrite borrower_ok_unfold in Hb. rewrite no_leak_unfold in Hn.
  destruct (borrower_gen 200 body (pcheck 200 body (psingle BFresh)) eq_refl Hb tr ex Hp)
    as [s' [Hrun [Hex Hin]]].
  exists s'; split; [exact Hrun|].
  exact (no_leak_gen (pcheck 200 body (psingle BFresh)) s' ex Hn Hex Hin).
Qed.

Lemma acquirer_gen : forall fuel body o, pcheck fuel body (psingle BFresh) = o ->
  o_ok o && negb (may_fresh (o_norm o) || may_rel (o_norm o)) &&
  negb (may_fresh (o_ret o) || may_rel (o_ret o)) &&
  negb (pnonempty (o_brk o)) && negb (pnonempty (o_cont o)) = true ->
  forall tr ex, ppath body tr ex ->
  exists s', brun BFresh tr = Some s' /\ (ex = ENorm \/ ex = ERet) /\ s' = BHeld.
Proof.
  intros fuel body o Ho Hb tr ex Hp.
  apply andb_true_iff in Hb; destruct Hb as [Hb Hcont].
  apply andb_true_iff in Hb; destruct Hb as [Hb Hbrk].
  apply andb_true_iff in Hb; destruct Hb as [Hb Hret].
  apply andb_true_iff in Hb; destruct Hb as [Hok Hnorm].
  apply negb_true_iff in Hcont, Hbrk, Hret, Hnorm.
  apply orb_false_iff in Hret, Hnorm.
  destruct Hret as [Hr1 Hr2]. destruct Hnorm as [Hn1 Hn2].
  destruct (pcheck_sound fuel body (psingle BFresh) o Ho Hok BFresh tr ex eq_refl Hp) as [s' [Hrun Hin]].
  exists s'; split; [exact Hrun|].
  destruct ex.
  - split; [left; reflexivity|]. destruct s'; simpl in Hin; congruence.
  - rewrite (pnonempty_false _ s' Hbrk) in Hin; discriminate.
  - rewrite (pnonempty_false _ s' Hcont) in Hin; discriminate.
  - split; [right; reflexivity|]. destruct s'; simpl in Hin; congruence.
Qed.

Lemma acquirer_ok_sound : forall body, acquirer_ok body = true ->
  forall tr ex, ppath body tr ex ->
  exists s', brun BFresh tr = Some s' /\ (ex = ENorm \/ ex = ERet) /\ s' = BHeld.
Proof.
  intros body Hb tr ex Hp. rewrite acquirer_ok_unfold in Hb.
  exact (acquirer_gen 200 body (pcheck 200 body (psingle BFresh)) eq_refl Hb tr ex Hp).
Qed.

(* ------------------------------------------------------------------ *)
(* 5. Exclusive ownership under concurrency                              *)
(* ------------------------------------------------------------------ *)

(* a thread's own view: the buffer it currently holds *)
Definition tstate := option nat.

(* what the borrow discipline lets a thread do.  A Get while holding a buffer
   is allowed (the old buffer is leaked: it stays in the pool's holder table
   and is never free again); Put and Use need the buffer to be the held one *)
Definition thread_ok (h : option nat) (e : tev) : option (option nat) :=
  match e with
  | TGet b => Some (Some b)
  | TPut b => match h with
              | Some b' => if Nat.eqb b b' then Some None else None
              | None => None
              end
  | TUse b => match h with
              | Some b' => if Nat.eqb b b' then Some (Some b) else None
              | None => None
              end
  end.

Definition vnone : nat -> option nat := fun _ => None.

Definition upd (v : nat -> option nat) (t : nat) (h : option nat) : nat -> option nat :=
  fun t' => if Nat.eqb t' t then h else v t'.

(* a schedule: every event must be allowed by the thread's discipline and by the pool *)
Fixpoint grun (p : pool) (v : nat -> option nat) (sched : list (nat * tev))
  : option (pool * (nat -> option nat)) :=
  match sched with
  | [] => Some (p, v)
  | (t, e) :: r =>
      match thread_ok (v t) e, pool_step p t e with
      | Some h', Some p' => grun p' (upd v t h') r
      | _, _ => None
      end
  end.

(* the same without the discipline: only the pool is asked *)
Fixpoint grun_unchecked (p : pool) (sched : list (nat * tev)) : option pool :=
  match sched with
  | [] => Some p
  | (t, e) :: r =>
      match pool_step p t e with
      | Some p' => grun_unchecked p' r
      | None => None
      end
  end.

(* --- list lemmas --- *)

Definition hfind (l : list (nat * nat)) (b : nat) : option nat :=
  match find (fun h => Nat.eqb (fst h) b) l with Some h => Some (snd h) | None => None end.

Lemma holder_of_hfind : forall p b, holder_of p b = hfind (holder p) b.
Proof. reflexivity. Qed.

Lemma hfind_cons : forall b t l b',
  hfind ((b, t) :: l) b' = if Nat.eqb b b' then Some t else hfind l b'.
Proof.
  intros b t l b'; unfold hfind; simpl. destruct (Nat.eqb b b'); reflexivity.
Qed.

Lemma hfind_filter : forall b l b',
  hfind (filter (fun h => negb (Nat.eqb (fst h) b)) l) b' =
  if Nat.eqb b' b then None else hfind l b'.
Proof.
  intros b l b'; induction l as [|[x y] l IH].
  - simpl. destruct (Nat.eqb b' b); reflexivity.
  - simpl filter. simpl fst. destruct (Nat.eqb_spec x b) as [E|N]; simpl negb; cbv iota.
    + subst x. rewrite IH, hfind_cons.
      destruct (Nat.eqb_spec b' b) as [E'|N']; [reflexivity|].
      destruct (Nat.eqb_spec b b') as [E''|N'']; [exfalso; apply N'; symmetry; exact E''|reflexivity].
    + rewrite !hfind_cons, IH.
      destruct (Nat.eqb_spec x b') as [E'|N']; [|reflexivity].
      subst b'. destruct (Nat.eqb_spec x b) as [E''|N'']; [exfalso; exact (N E'')|reflexivity].
Qed.

Lemma hfind_In : forall l b t, hfind l b = Some t -> In (b, t) l.
Proof.
  induction l as [|[x y] l IH]; intros b t H.
  - discriminate H.
  - rewrite hfind_cons in H. destruct (Nat.eqb_spec x b) as [E|N].
    + inversion H; subst; left; reflexivity.
    + right; apply IH; exact H.
Qed.

Lemma In_hfind : forall l b t, In (b, t) l -> hfind l b <> None.
Proof.
  induction l as [|[x y] l IH]; intros b t H.
  - destruct H.
  - rewrite hfind_cons. destruct (Nat.eqb_spec x b) as [E|N]; [discriminate|].
    destruct H as [H|H]; [inversion H; subst; exfalso; apply N; reflexivity|].
    eapply IH; exact H.
Qed.

Lemma remove_nat_In : forall x l y, In y (remove_nat x l) -> In y l.
Proof.
  intros x l; induction l as [|z l IH]; intros y H; simpl in *.
  - exact H.
  - destruct (Nat.eqb x z).
    + right; exact H.
    + destruct H as [H|H]; [left; exact H|right; apply IH; exact H].
Qed.

Lemma remove_nat_NoDup : forall x l, NoDup l -> NoDup (remove_nat x l).
Proof.
  intros x l H; induction H as [|z l Hnin Hnd IH]; simpl.
  - constructor.
  - destruct (Nat.eqb x z); [exact Hnd|].
    constructor; [|exact IH]. intros Hin; apply Hnin; eapply remove_nat_In; exact Hin.
Qed.

Lemma remove_nat_notin : forall x l, NoDup l -> ~ In x (remove_nat x l).
Proof.
  intros x l H; induction H as [|z l Hnin Hnd IH]; simpl.
  - intros [].
  - destruct (Nat.eqb_spec x z) as [E|N].
    + subst z; exact Hnin.
    + intros [H|H]; [apply N; symmetry; exact H|exact (IH H)].
Qed.

Lemma existsb_eqb_In : forall b l, existsb (Nat.eqb b) l = true -> In b l.
Proof.
  intros b l H; apply existsb_exists in H; destruct H as [x [Hin E]].
  apply Nat.eqb_eq in E; subst x; exact Hin.
Qed.

(* --- the invariant --- *)

Record pinv (p : pool) (v : nat -> option nat) : Prop := mkPinv {
  inv_agree : forall t b, v t = Some b -> holder_of p b = Some t;
  inv_free_unheld : forall b, In b (free p) -> holder_of p b = None;
  inv_free_lt : forall b, In b (free p) -> b < next_id p;
  inv_holder_lt : forall b t, In (b, t) (holder p) -> b < next_id p;
  inv_free_nodup : NoDup (free p)
}.

Lemma pinv_init : pinv pool_init vnone.
Proof.
  constructor; simpl.
  - intros t b H; discriminate H.
  - intros b [].
  - intros b [].
  - intros b t [].
  - constructor.
Qed.

Lemma upd_same : forall v t h, upd v t h t = h.
Proof. intros v t h; unfold upd; rewrite Nat.eqb_refl; reflexivity. Qed.

Lemma upd_other : forall v t h t', t' <> t -> upd v t h t' = v t'.
Proof.
  intros v t h t' N; unfold upd. destruct (Nat.eqb_spec t' t) as [E|_]; [exfalso; exact (N E)|reflexivity].
Qed.

Lemma pinv_get : forall p v t b p',
  pinv p v -> pool_step p t (TGet b) = Some p' -> pinv p' (upd v t (Some b)).
Proof.
  intros p v t b p' [Hag Hfu Hfl Hhl Hnd] Hstep. simpl in Hstep.
  (* in both cases nobody holds b before the step *)
  assert (Hfresh : (existsb (Nat.eqb b) (free p) = true \/ b = next_id p) -> holder_of p b = None).
  { intros [Hex|Hnew].
    - apply Hfu, existsb_eqb_In, Hex.
    - destruct (holder_of p b) as [t0|] eqn:Hh; [|reflexivity].
      rewrite holder_of_hfind in Hh. apply hfind_In, Hhl in Hh. lia. }
  assert (Hagree' : forall p0, holder p0 = (b, t) :: holder p ->
            holder_of p b = None ->
            forall t' b', upd v t (Some b) t' = Some b' -> holder_of p0 b' = Some t').
  { intros p0 Hp0 Hnone t' b' Hv. rewrite holder_of_hfind, Hp0, hfind_cons.
    destruct (Nat.eq_dec t' t) as [E|N].
    - subst t'. rewrite upd_same in Hv. inversion Hv; subst b'. rewrite Nat.eqb_refl; reflexivity.
    - rewrite upd_other in Hv by exact N. apply Hag in Hv.
      destruct (Nat.eqb_spec b b') as [E|_]; [subst b'; congruence|].
      rewrite <- holder_of_hfind; exact Hv. }
  destruct (existsb (Nat.eqb b) (free p)) eqn:Hex.
  - inversion Hstep; subst p'; clear Hstep.
    pose proof (Hfresh (or_introl eq_refl)) as Hnone.
    constructor; simpl.
    + apply Hagree'; [reflexivity|exact Hnone].
    + intros b' Hin. rewrite holder_of_hfind; simpl holder. rewrite hfind_cons.
      destruct (Nat.eqb_spec b b') as [E|_].
      * subst b'. exfalso. exact (remove_nat_notin b (free p) Hnd Hin).
      * rewrite <- holder_of_hfind. apply Hfu. eapply remove_nat_In; exact Hin.
    + intros b' Hin. apply Hfl. eapply remove_nat_In; exact Hin.
    + intros b' t' [H|H].
      * inversion H; subst b' t'. apply Hfl, existsb_eqb_In, Hex.
      * eapply Hhl; exact H.
    + apply remove_nat_NoDup; exact Hnd.
  - destruct (Nat.eqb_spec b (next_id p)) as [E|N]; [|discriminate Hstep].
    inversion Hstep; subst p'; clear Hstep.
    pose proof (Hfresh (or_intror E)) as Hnone.
    constructor; simpl.
    + apply Hagree'; [reflexivity|exact Hnone].
    + intros b' Hin. rewrite holder_of_hfind; simpl holder. rewrite hfind_cons.
      destruct (Nat.eqb_spec b b') as [E'|_].
      * subst b'. apply Hfl in Hin. lia.
      * rewrite <- holder_of_hfind. apply Hfu; exact Hin.
    + intros b' Hin. apply Hfl in Hin. lia.
    + intros b' t' [H|H].
      * inversion H; subst b' t'. lia.
      * apply Hhl in H. lia.
    + exact Hnd.
Qed.

Lemma pinv_put : forall p v t b p',
  pinv p v -> v t = Some b -> pool_step p t (TPut b) = Some p' -> pinv p' (upd v t None).
Proof.
  intros p v t b p' [Hag Hfu Hfl Hhl Hnd] Hv Hstep. simpl in Hstep.
  destruct (holder_of p b) as [t0|] eqn:Hh; [|discriminate Hstep].
  destruct (Nat.eqb_spec t t0) as [E|N]; [subst t0|discriminate Hstep].
  inversion Hstep; subst p'; clear Hstep.
  assert (Hdrop : forall b', hfind (drop_holder p b) b' = if Nat.eqb b' b then None else holder_of p b').
  { intros b'. unfold drop_holder. rewrite hfind_filter. reflexivity. }
  constructor; simpl.
  - intros t' b' Hv'. rewrite holder_of_hfind; simpl holder. rewrite Hdrop.
    destruct (Nat.eq_dec t' t) as [E|N].
    + subst t'. rewrite upd_same in Hv'. discriminate Hv'.
    + rewrite upd_other in Hv' by exact N. apply Hag in Hv'.
      destruct (Nat.eqb_spec b' b) as [E|_]; [|exact Hv'].
      subst b'. exfalso. apply N. congruence.
  - intros b' Hin. rewrite holder_of_hfind; simpl holder. rewrite Hdrop.
    destruct (Nat.eqb_spec b' b) as [E|N]; [reflexivity|].
    destruct Hin as [Hin|Hin]; [exfalso; apply N; symmetry; exact Hin|].
    apply Hfu; exact Hin.
  - intros b' [Hin|Hin].
    + subst b'. rewrite holder_of_hfind in Hh. apply hfind_In in Hh. eapply Hhl; exact Hh.
    + apply Hfl; exact Hin.
  - intros b' t' Hin. unfold drop_holder in Hin. apply filter_In in Hin. destruct Hin as [Hin _].
    eapply Hhl; exact Hin.
  - constructor; [|exact Hnd]. intros Hin. apply Hfu in Hin. congruence.
Qed.

Lemma pinv_ext : forall p v v', (forall t, v' t = v t) -> pinv p v -> pinv p v'.
Proof.
  intros p v v' Hext [Hag Hfu Hfl Hhl Hnd].
  constructor; try assumption.
  intros t b H; rewrite Hext in H; apply Hag; exact H.
Qed.

Lemma pinv_step : forall p v t e h' p',
  pinv p v -> thread_ok (v t) e = Some h' -> pool_step p t e = Some p' -> pinv p' (upd v t h').
Proof.
  intros p v t e h' p' Hinv Hok Hstep. destruct e as [b|b|b].
  - simpl in Hok. inversion Hok; subst h'. eapply pinv_get; eassumption.
  - simpl in Hok. destruct (v t) as [b'|] eqn:Hv; [|discriminate Hok].
    destruct (Nat.eqb_spec b b') as [E|N]; [subst b'|discriminate Hok].
    inversion Hok; subst h'. eapply pinv_put; eassumption.
  - simpl in Hok. destruct (v t) as [b'|] eqn:Hv; [|discriminate Hok].
    destruct (Nat.eqb_spec b b') as [E|N]; [subst b'|discriminate Hok].
    inversion Hok; subst h'. simpl in Hstep. inversion Hstep; subst p'.
    apply pinv_ext with (v := v); [|exact Hinv].
    intros t'. destruct (Nat.eq_dec t' t) as [E|N].
    + subst t'. rewrite upd_same. symmetry; exact Hv.
    + apply upd_other; exact N.
Qed.

Lemma grun_pinv : forall sched p v p' v',
  pinv p v -> grun p v sched = Some (p', v') -> pinv p' v'.
Proof.
  induction sched as [|[t e] r IH]; intros p v p' v' Hinv Hrun; simpl in Hrun.
  - inversion Hrun; subst; exact Hinv.
  - destruct (thread_ok (v t) e) as [h'|] eqn:Hok; [|discriminate Hrun].
    destruct (pool_step p t e) as [p1|] eqn:Hstep; [|discriminate Hrun].
    eapply IH; [|exact Hrun]. eapply pinv_step; eassumption.
Qed.

Lemma grun_app : forall s1 s2 p v r,
  grun p v (s1 ++ s2) = Some r ->
  exists p1 v1, grun p v s1 = Some (p1, v1) /\ grun p1 v1 s2 = Some r.
Proof.
  induction s1 as [|[t e] s1 IH]; intros s2 p v r H; simpl in *.
  - exists p, v; split; [reflexivity|exact H].
  - destruct (thread_ok (v t) e) as [h'|]; [|discriminate H].
    destruct (pool_step p t e) as [p1|]; [|discriminate H].
    apply IH; exact H.
Qed.

Lemma grun_init_pinv : forall sched p v,
  grun pool_init vnone sched = Some (p, v) -> pinv p v.
Proof. intros sched p v H; eapply grun_pinv; [exact pinv_init|exact H]. Qed.

(* the threads' views and the pool's holder table agree (one direction only:
   a leaked buffer stays in the holder table) *)
Lemma pool_views_agree : forall sched p v,
  grun pool_init vnone sched = Some (p, v) ->
  forall t b, v t = Some b -> holder_of p b = Some t.
Proof. intros sched p v H; exact (inv_agree _ _ (grun_init_pinv _ _ _ H)). Qed.

Lemma pool_no_double_holder : forall sched p v,
  grun pool_init vnone sched = Some (p, v) ->
  forall b t1 t2, v t1 = Some b -> v t2 = Some b -> t1 = t2.
Proof.
  intros sched p v H b t1 t2 H1 H2.
  pose proof (pool_views_agree _ _ _ H _ _ H1) as E1.
  pose proof (pool_views_agree _ _ _ H _ _ H2) as E2.
  congruence.
Qed.

(* the pool's own bookkeeping *)
Lemma pool_free_wf : forall sched p v,
  grun pool_init vnone sched = Some (p, v) ->
  (forall b, In b (free p) -> holder_of p b = None /\ (forall t, v t <> Some b) /\ b < next_id p) /\
  (forall b t, In (b, t) (holder p) -> ~ In b (free p) /\ b < next_id p) /\
  NoDup (free p).
Proof.
  intros sched p v H. destruct (grun_init_pinv _ _ _ H) as [Hag Hfu Hfl Hhl Hnd].
  split; [|split].
  - intros b Hin. split; [apply Hfu; exact Hin|]. split; [|apply Hfl; exact Hin].
    intros t Hv. apply Hag in Hv. rewrite (Hfu b Hin) in Hv. discriminate Hv.
  - intros b t Hin. split; [|eapply Hhl; exact Hin].
    intros Hf. apply Hfu in Hf. rewrite holder_of_hfind in Hf.
    exact (In_hfind _ _ _ Hin Hf).
  - exact Hnd.
Qed.

(* whenever a thread uses a buffer, it is the holder and nobody else is *)
Lemma pool_exclusive_use : forall s1 t b s2 p v,
  grun pool_init vnone (s1 ++ (t, TUse b) :: s2) = Some (p, v) ->
  exists p1 v1, grun pool_init vnone s1 = Some (p1, v1) /\
    holder_of p1 b = Some t /\ v1 t = Some b /\
    forall t', t' <> t -> holder_of p1 b <> Some t' /\ v1 t' <> Some b.
Proof.
  intros s1 t b s2 p v H.
  apply grun_app in H. destruct H as [p1 [v1 [H1 H2]]].
  exists p1, v1. split; [exact H1|].
  simpl in H2. destruct (v1 t) as [b'|] eqn:Hv; [|discriminate H2].
  destruct (Nat.eqb_spec b b') as [E|N]; [subst b'|discriminate H2].
  pose proof (pool_views_agree _ _ _ H1 _ _ Hv) as Hh.
  split; [exact Hh|]. split; [reflexivity|].
  intros t' Hne. split.
  - rewrite Hh. intros E; inversion E; subst; apply Hne; reflexivity.
  - intros Hv'. apply Hne. exact (pool_no_double_holder _ _ _ H1 b t' t Hv' Hv).
Qed.

(* without the discipline: thread 0 puts buffer 0 back, thread 1 gets it, thread
   0 uses it all the same.  Up to the use every event obeys the discipline; the
   pool lets the use pass, only [thread_ok] forbids it. *)
Definition race_prefix : list (nat * tev) := [(0, TGet 0); (0, TPut 0); (1, TGet 0)].
Definition race_sched : list (nat * tev) := race_prefix ++ [(0, TUse 0)].

Lemma pool_use_after_put_races :
  exists p1 v1 p2,
    grun pool_init vnone race_prefix = Some (p1, v1) /\
    holder_of p1 0 = Some 1 /\ v1 1 = Some 0 /\ v1 0 = None /\
    thread_ok (v1 0) (TUse 0) = None /\
    grun pool_init vnone race_sched = None /\
    grun_unchecked pool_init race_prefix = Some p1 /\
    grun_unchecked pool_init race_sched = Some p2.
Proof.
  eexists. eexists. eexists.
  split; [vm_compute; reflexivity|].
  repeat split; vm_compute; reflexivity.
Qed.

(* ------------------------------------------------------------------ *)
(* 6. Non-vacuity                                                        *)
(* ------------------------------------------------------------------ *)

Definition good : list pstm :=
  [PE PGet; PE PUse;
   PLoop [PIf [PContinue] [];
          PIf [PIf [PE PPut; PReturn] []; PIf [PContinue] []] [];
          PE PUse];
   PIf [PE PUse; PE PPut; PReturn] [];
   PIf [PE PPut; PReturn] [];
   PE PUse;
   PLoop [PE PUse; PIf [PE PPut; PReturn] []];
   PE PPut; PReturn].

Definition bad : list pstm :=
  [PE PGet; PE PUse; PE PPut; PLoop [PE PUse; PIf [PReturn] []]; PReturn].

(* leaks: returns while holding *)
Definition leaky : list pstm := [PE PGet; PE PUse; PIf [PReturn] []; PE PPut; PReturn].

Example good_borrower_ok : borrower_ok good = true.
Proof. vm_compute; reflexivity. Qed.

Example good_no_leak : no_leak good = true.
Proof. vm_compute; reflexivity. Qed.

Example bad_borrower_not_ok : borrower_ok bad = false.
Proof. vm_compute; reflexivity. Qed.

Example bad_path : ppath bad [PGet; PUse; PPut; PUse] ERet.
Proof.
  unfold bad.
  apply pp_ev. apply pp_ev. apply pp_ev.
  apply pp_loop_ret. apply pl_ret.
  apply pp_ev. apply pp_if_a_exit; [discriminate|]. apply pp_ret.
Qed.

Example bad_path_rejected : brun BFresh [PGet; PUse; PPut; PUse] = None.
Proof. vm_compute; reflexivity. Qed.

Example leaky_borrower_ok : borrower_ok leaky = true /\ no_leak leaky = false.
Proof. split; vm_compute; reflexivity. Qed.

Example leaky_path : ppath leaky [PGet; PUse] ERet /\ brun BFresh [PGet; PUse] = Some BHeld.
Proof.
  split; [|reflexivity]. unfold leaky.
  apply pp_ev. apply pp_ev. apply pp_if_a_exit; [discriminate|]. apply pp_ret.
Qed.

Lemma good_accepted : borrower_ok good = true /\ no_leak good = true.
Proof. exact (conj good_borrower_ok good_no_leak). Qed.

Lemma bad_rejected :
  borrower_ok bad = false /\
  ppath bad [PGet; PUse; PPut; PUse] ERet /\
  brun BFresh [PGet; PUse; PPut; PUse] = None.
Proof. exact (conj bad_borrower_not_ok (conj bad_path bad_path_rejected)). Qed.

Lemma leaky_allowed :
  borrower_ok leaky = true /\ no_leak leaky = false /\
  ppath leaky [PGet; PUse] ERet /\ brun BFresh [PGet; PUse] = Some BHeld.
Proof.
  exact (conj (proj1 leaky_borrower_ok) (conj (proj2 leaky_borrower_ok) leaky_path)).
Qed.
